(* C13 entry points for the extracted driver: sx -> sx *)
From Coq Require Import List Bool Arith ZArith QArith Qcanon.
From PV Require Import Base.Sx Base.Graph Base.FinSum Base.RefFactor C08.Model C13.Model C13.Spec.
Import ListNotations.
Local Close Scope Qc_scope.
Local Close Scope Q_scope.

Definition dec_graph (sn se : sx) : option digraph :=
  match sx_list sx_nat sn, sx_list (sx_pair sx_nat sx_nat) se with
  | Some ns, Some es => Some {| nodes := ns; edges := es |}
  | _, _ => None
  end.

Definition dec_cpd (s : sx) : option cpd :=
  match sx_triple sx_nat (sx_list sx_nat) (sx_list sx_Qc) s with
  | Some (v, ps, t) => Some {| cvar := v; cpars := ps; ctab := t |}
  | None => None
  end.
Definition enc_cpd (c : cpd) : sx :=
  SL [of_nat (cvar c); of_list of_nat (cpars c); of_list of_Qc (ctab c)].

(* [nodes edges lat cards cpds] *)
Definition dec_bn (sn se sl sc sp : sx) : option bnet :=
  match dec_graph sn se, sx_list sx_nat sl, sx_list (sx_pair sx_nat sx_nat) sc, sx_list dec_cpd sp with
  | Some g, Some lat, Some cs, Some ps => Some {| bg := g; bcards := cs; bcpds := ps; blat := lat |}
  | _, _, _, _ => None
  end.

Definition enc_edges (es : list (node * node)) : sx := of_list (of_pair of_nat of_nat) es.

(* [nodes edges lat cards cpds X] -> [edges' ; cpds'] ; error 1 = ValueError (unknown node) *)
Definition run_c13_do (s : sx) : sx :=
  match s with
  | SL [sn; se; sl; sc; sp; sX] =>
      match dec_bn sn se sl sc sp, sx_list sx_nat sX with
      | Some bn, Some X =>
          match do_bn bn X with
          | Some bn' => sx_ok (SL [enc_edges (edges (bg bn')); of_list enc_cpd (bcpds bn')])
          | None => sx_err 1
          end
      | _, _ => bad_request
      end
  | _ => bad_request
  end.

(* [nodes edges lat cards cpds Y do adj] with adj = [] (None) | [[z ...]] -> table over Y (row-major);
   error 1 = ValueError, error 3 = a zero-probability conditioning event (outside the property) *)
Definition run_c13_query (s : sx) : sx :=
  match s with
  | SL [sn; se; sl; sc; sp; sY; sdo; sadj] =>
      match dec_bn sn se sl sc sp, sx_list sx_nat sY, sx_list (sx_pair sx_nat sx_nat) sdo,
            sx_list (sx_list sx_nat) sadj with
      | Some bn, Some Y, Some dov, Some adjl =>
          let adj := match adjl with [] => None | z :: _ => Some z end in
          match query bn Y dov adj with
          | inr t => sx_ok (of_list of_Qc t)
          | inl EValue => sx_err 1
          | inl EUndefined => sx_err 3
          end
      | _, _, _, _ => bad_request
      end
  | _ => bad_request
  end.

(* [nodes edges lat cards cpds Y do] -> the truncated factorisation marginalised to Y (specification) *)
Definition run_c13_trunc (s : sx) : sx :=
  match s with
  | SL [sn; se; sl; sc; sp; sY; sdo] =>
      match dec_bn sn se sl sc sp, sx_list sx_nat sY, sx_list (sx_pair sx_nat sx_nat) sdo with
      | Some bn, Some Y, Some dov => sx_ok (of_list of_Qc (trunc_table bn Y dov))
      | _, _, _ => bad_request
      end
  | _ => bad_request
  end.

(* [nodes edges x y Z] -> [coded back-door test; coded is_valid_adjustment_set([x],[y],Z); coded front-door test;
                           path-based back-door criterion; path-based front-door criterion;
                           x has a directed path to y; Z free of descendants of x] *)
Definition run_c13_tests (s : sx) : sx :=
  match s with
  | SL [sn; se; sx_; sy; sz] =>
      match dec_graph sn se, sx_nat sx_, sx_nat sy, sx_list sx_nat sz with
      | Some g, Some x, Some y, Some Z =>
          sx_ok (SL [ of_bool (is_valid_backdoor g x y Z);
                      of_option of_bool (is_valid_adjustment g [x] [y] Z);
                      of_bool (is_valid_frontdoor g x y Z);
                      of_bool (backdoor_criterionb g x y Z);
                      of_bool (frontdoor_criterionb g x y Z);
                      of_bool (match directed_paths g x y with [] => false | _ => true end);
                      of_bool (forallb (fun z => negb (has_path g x z)) Z) ])
      | _, _, _, _ => bad_request
      end
  | _ => bad_request
  end.

(* [nodes edges lat x y order] -> [back-door enumeration ; front-door enumeration]
   back-door: [] = AssertionError | [[]] = ValueError | [[sets]] ;  front-door: [] = AssertionError | [sets] *)
Definition run_c13_enum (s : sx) : sx :=
  match s with
  | SL [sn; se; sl; sx_; sy; so] =>
      match dec_graph sn se, sx_list sx_nat sl, sx_nat sx_, sx_nat sy, sx_list sx_nat so with
      | Some g, Some lat, Some x, Some y, Some ord =>
          let enc_sets := of_list (of_list of_nat) in
          sx_ok (SL [ of_option (of_option enc_sets) (all_backdoor_sets g lat x y ord);
                      of_option enc_sets (all_frontdoor_sets g lat x y ord) ])
      | _, _, _, _, _ => bad_request
      end
  | _ => bad_request
  end.

(* [nodes edges lat x y order] -> [] (returned None) | [[set]] ; error 2 = ValueError.
   [order] is used as the set-iteration priority in every loop of minimal_dseparator *)
Definition run_c13_minadj (s : sx) : sx :=
  match s with
  | SL [sn; se; sl; sx_; sy; so] =>
      match dec_graph sn se, sx_list sx_nat sl, sx_nat sx_, sx_nat sy, sx_list sx_nat so with
      | Some g, Some lat, Some x, Some y, Some ord =>
          match minimal_adjustment g lat x y (fun _ => ord) ord with
          | None => sx_err 2
          | Some r => sx_ok (of_option (of_list of_nat) r)
          end
      | _, _, _, _, _ => bad_request
      end
  | _ => bad_request
  end.

(* [nodes edges X Y Z] -> [edges of the proper back-door graph ; is_valid_adjustment_set(X, Y, Z)] ;
   error 1 = ValueError (unknown node) *)
Definition run_c13_pbd (s : sx) : sx :=
  match s with
  | SL [sn; se; sX; sY; sZ] =>
      match dec_graph sn se, sx_list sx_nat sX, sx_list sx_nat sY, sx_list sx_nat sZ with
      | Some g, Some X, Some Y, Some Z =>
          match proper_backdoor_graph g X Y, is_valid_adjustment g X Y Z with
          | Some pg, Some b => sx_ok (SL [enc_edges (edges pg); of_bool b])
          | _, _ => sx_err 1
          end
      | _, _, _, _ => bad_request
      end
  | _ => bad_request
  end.
