(* C13 finite-domain results, by vm_compute over the as-coded model (Model.v) and the brute-force
   path evaluation of the criteria (Spec.v).  The bound (<= 4 labelled nodes) is in every statement. *)
From Coq Require Import List Bool Arith PeanoNat Lia.
From PV Require Import Base.Reach Base.Graph C08.Model C13.Model C13.Spec.
Import ListNotations.

(* ---- all DAGs on the labelled nodes 0..n-1 ---- *)
Fixpoint upairs (l : list node) : list (node * node) :=
  match l with [] => [] | x :: r => map (fun y => (x, y)) r ++ upairs r end.
Fixpoint choices (P : list (node * node)) : list (list (node * node)) :=
  match P with
  | [] => [[]]
  | e :: r => flat_map (fun o => [o; (fst e, snd e) :: o; (snd e, fst e) :: o]) (choices r)
  end.
Definition all_dags (n : nat) : list digraph :=
  filter acyclicb (map (fun es => {| nodes := seq 0 n; edges := es |}) (choices (upairs (seq 0 n)))).

Fixpoint insert_all (x : node) (l : list node) : list (list node) :=
  match l with
  | [] => [[x]]
  | y :: r => (x :: l) :: map (cons y) (insert_all x r)
  end.
Fixpoint perms (l : list node) : list (list node) :=
  match l with [] => [[]] | x :: r => flat_map (insert_all x) (perms r) end.

(* candidate adjustment variables: neither x nor y nor a descendant of x *)
Definition nondesc_cand (g : digraph) (x y : node) : list node :=
  filter (fun v => negb (Nat.eqb v x) && negb (Nat.eqb v y) && negb (has_path g x v)) (nodes g).
Definition other_nodes (g : digraph) (x y : node) : list node :=
  filter (fun v => negb (Nat.eqb v x) && negb (Nat.eqb v y)) (nodes g).

Definition ob_eqb (o : option bool) (b : bool) : bool :=
  match o with Some c => Bool.eqb c b | None => false end.

(* every pair x <> y of every DAG *)
Definition for_pairs (n : nat) (P : digraph -> node -> node -> bool) : bool :=
  forallb (fun g => forallb (fun x => forallb (fun y => Nat.eqb x y || P g x y) (nodes g)) (nodes g))
          (all_dags n).

Lemma for_pairs_spec n P : for_pairs n P = true ->
  forall g x y, In g (all_dags n) -> In x (nodes g) -> In y (nodes g) -> x <> y -> P g x y = true.
Proof.
  unfold for_pairs. intros H g x y Hg Hx Hy Hne.
  rewrite forallb_forall in H. specialize (H g Hg). rewrite forallb_forall in H. specialize (H x Hx).
  rewrite forallb_forall in H. specialize (H y Hy). apply orb_true_iff in H. destruct H as [H|H]; [|exact H].
  apply Nat.eqb_eq in H. contradiction.
Qed.

Lemma forallb_In {A} (f : A -> bool) l x : forallb f l = true -> In x l -> f x = true.
Proof. intros H Hi. rewrite forallb_forall in H. apply H. exact Hi. Qed.

Lemma le4_In n : n <= 4 -> In n [0; 1; 2; 3; 4].
Proof. intros H. simpl. lia. Qed.

(* ---- 1. the coded validity tests agree with the path criterion on non-descendant candidates ---- *)
Definition chk_bd (n : nat) : bool :=
  for_pairs n (fun g x y =>
    forallb (fun Z => Bool.eqb (is_valid_backdoor g x y Z) (backdoor_criterionb g x y Z)
                      && ob_eqb (is_valid_adjustment g [x] [y] Z) (backdoor_criterionb g x y Z))
            (powerset (nondesc_cand g x y))).
Lemma chk_bd_upto4 : forallb chk_bd [0; 1; 2; 3; 4] = true.
Proof. vm_compute. reflexivity. Qed.

Lemma backdoor_tests_upto4 : forall n g x y Z, n <= 4 -> In g (all_dags n) ->
  In x (nodes g) -> In y (nodes g) -> x <> y -> In Z (powerset (nondesc_cand g x y)) ->
  is_valid_backdoor g x y Z = backdoor_criterionb g x y Z /\
  is_valid_adjustment g [x] [y] Z = Some (backdoor_criterionb g x y Z).
Proof.
  intros n g x y Z Hn Hg Hx Hy Hne HZ.
  pose proof (forallb_In _ _ n chk_bd_upto4 (le4_In n Hn)) as H.
  pose proof (for_pairs_spec _ _ H g x y Hg Hx Hy Hne) as H1. cbv beta in H1.
  pose proof (forallb_In _ _ Z H1 HZ) as H2. cbv beta in H2.
  apply andb_true_iff in H2. destruct H2 as [Ha Hb]. split.
  - apply Bool.eqb_prop. exact Ha.
  - destruct (is_valid_adjustment g [x] [y] Z) as [c|]; [|discriminate]. simpl in Hb.
    apply Bool.eqb_prop in Hb. subst. reflexivity.
Qed.

(* ---- 2. every enumerated set is valid, for every latent subset and every set-iteration order ---- *)
Definition chk_enum (n : nat) : bool :=
  for_pairs n (fun g x y =>
    forallb (fun lat =>
      forallb (fun order =>
        match all_backdoor_sets g lat x y order with
        | Some (Some []) => if memn x lat || memn y lat then true else backdoor_criterionb g x y []
        | Some (Some l) => forallb (fun s => backdoor_criterionb g x y s && disjointb s lat) l
        | _ => true
        end
        && match all_frontdoor_sets g lat x y order with
           | Some l => forallb (fun s => frontdoor_criterionb g x y s && disjointb s lat) l
           | None => true
           end)
        (perms (nodes g)))
      (powerset (nodes g))).
Lemma chk_enum_upto4 : forallb chk_enum [0; 1; 2; 3; 4] = true.
Proof. vm_compute. reflexivity. Qed.

(* ---- 3. front-door test = criterion and existence of a directed path, for every Z ---- *)
Definition has_dpathb (g : digraph) (x y : node) : bool :=
  match directed_paths g x y with [] => false | _ => true end.
Definition chk_fd (n : nat) : bool :=
  for_pairs n (fun g x y =>
    forallb (fun Z => Bool.eqb (is_valid_frontdoor g x y Z) (has_dpathb g x y && frontdoor_criterionb g x y Z))
            (powerset (other_nodes g x y))).
Lemma chk_fd_upto4 : forallb chk_fd [0; 1; 2; 3; 4] = true.
Proof. vm_compute. reflexivity. Qed.

Lemma frontdoor_test_upto4 : forall n g x y Z, n <= 4 -> In g (all_dags n) ->
  In x (nodes g) -> In y (nodes g) -> x <> y -> In Z (powerset (other_nodes g x y)) ->
  is_valid_frontdoor g x y Z = (has_dpathb g x y && frontdoor_criterionb g x y Z).
Proof.
  intros n g x y Z Hn Hg Hx Hy Hne HZ.
  pose proof (forallb_In _ _ n chk_fd_upto4 (le4_In n Hn)) as H.
  pose proof (for_pairs_spec _ _ H g x y Hg Hx Hy Hne) as H1. cbv beta in H1.
  pose proof (forallb_In _ _ Z H1 HZ) as H2. cbv beta in H2. apply Bool.eqb_prop. exact H2.
Qed.

Lemma enumerated_upto4 : forall n g x y lat order, n <= 4 -> In g (all_dags n) ->
  In x (nodes g) -> In y (nodes g) -> x <> y -> In lat (powerset (nodes g)) -> In order (perms (nodes g)) ->
  (forall l s, all_backdoor_sets g lat x y order = Some (Some l) -> In s l ->
     backdoor_criterionb g x y s = true /\ disjointb s lat = true) /\
  (all_backdoor_sets g lat x y order = Some (Some []) -> backdoor_criterionb g x y [] = true) /\
  (forall l s, all_frontdoor_sets g lat x y order = Some l -> In s l ->
     frontdoor_criterionb g x y s = true /\ disjointb s lat = true).
Proof.
  intros n g x y lat order Hn Hg Hx Hy Hne Hl Ho.
  pose proof (forallb_In _ _ n chk_enum_upto4 (le4_In n Hn)) as H.
  pose proof (for_pairs_spec _ _ H g x y Hg Hx Hy Hne) as H1. cbv beta in H1.
  pose proof (forallb_In _ _ lat H1 Hl) as H2. cbv beta in H2.
  pose proof (forallb_In _ _ order H2 Ho) as H3. cbv beta in H3.
  apply andb_true_iff in H3. destruct H3 as [Hb Hf]. split; [|split].
  - intros l s E Hs. rewrite E in Hb. destruct l as [|s0 l]; [destruct Hs|].
    pose proof (forallb_In _ _ s Hb Hs) as H4. cbv beta in H4. apply andb_true_iff in H4. exact H4.
  - intros E. rewrite E in Hb. unfold all_backdoor_sets in E.
    destruct (memn x (observed_nodes g lat) && memn y (observed_nodes g lat)) eqn:Eo; [|discriminate].
    apply andb_true_iff in Eo. destruct Eo as [Ex Ey].
    unfold observed_nodes, minus in Ex, Ey. apply memn_In, filter_In in Ex. apply memn_In, filter_In in Ey.
    destruct Ex as [_ Ex]. destruct Ey as [_ Ey]. apply negb_true_iff in Ex, Ey. rewrite Ex, Ey in Hb. exact Hb.
  - intros l s E Hs. rewrite E in Hf.
    pose proof (forallb_In _ _ s Hf Hs) as H4. cbv beta in H4. apply andb_true_iff in H4. exact H4.
Qed.
