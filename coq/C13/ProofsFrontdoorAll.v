(* C13 proofs: the front-door ADJUSTMENT FORMULA for every DAG of every size (Base/Frontdoor.v), with pgmpy's own
   test [is_valid_frontdoor g x y [m]] as the hypothesis.  The test enumerates the directed paths from x to y with
   [dpaths] (nx.all_simple_paths on a DAG): the enumeration is proved sound and complete here, so "some path exists
   and every enumerated path meets m" becomes: x is an ancestor of m, and no directed path from x to y survives the
   removal of m.  pgmpy has no front-door QUERY route (only the validity tests and the enumeration), so there is no
   model function to link the formula to. *)
From Coq Require Import List Bool Arith PeanoNat Lia QArith Qcanon.
From PV Require Import Base.Reach Base.Graph Base.Semiring Base.FinSum Base.RefFactor Base.Markov Base.Backdoor
  Base.Frontdoor C08.Model C08.Spec C08.ProofsTrail C08.ProofsMisc C13.Model C13.Spec C13.ProofsCrit.
Import ListNotations.
Local Close Scope Q_scope.
Local Open Scope nat_scope.

(* ------------------------------------------------------------------ the enumeration of directed paths *)
Lemma dpaths_sound fuel : forall g x y p, In p (dpaths fuel g x y) ->
  exists r, p = x :: r /\ r <> [] /\ is_dtrail g p /\ last p x = y.
Proof.
  induction fuel as [|f IH]; intros g x y p Hp; [destruct Hp|].
  cbn [dpaths] in Hp. apply in_flat_map in Hp. destruct Hp as [c [Hc Hp]]. apply In_children in Hc.
  destruct (Nat.eqb c y) eqn:E.
  - apply Nat.eqb_eq in E. subst c. destruct Hp as [<-|[]]. exists [y].
    split; [reflexivity|]. split; [discriminate|]. split; [split; [exact Hc|exact I]|reflexivity].
  - apply in_map_iff in Hp. destruct Hp as [q [<- Hq]]. destruct (IH g c y q Hq) as [r [-> [Hr [Ht Hl]]]].
    exists (c :: r). split; [reflexivity|]. split; [discriminate|]. split; [split; [exact Hc|exact Ht]|].
    change (last (c :: r) x = y). transitivity (last (c :: r) c); [apply last_default; discriminate|exact Hl].
Qed.

Lemma dpaths_complete fuel : forall g x y r, r <> [] -> is_dtrail g (x :: r) -> NoDup (x :: r) ->
  last (x :: r) x = y -> length r <= fuel -> In (x :: r) (dpaths fuel g x y).
Proof.
  induction fuel as [|f IH]; intros g x y r Hr Ht Hn Hl Hlen.
  - destruct r; [congruence|simpl in Hlen; lia].
  - destruct r as [|c r']; [congruence|]. destruct Ht as [He Ht]. cbn [dpaths]. apply in_flat_map.
    exists c. split; [apply In_children; exact He|].
    assert (Hl' : last (c :: r') c = y).
    { transitivity (last (c :: r') x); [apply last_default; discriminate|exact Hl]. }
    clear Hl. rename Hl' into Hl.
    inversion Hn as [|? ? Hx Hn']; subst.
    destruct (Nat.eqb c (last (c :: r') c)) eqn:E.
    + apply Nat.eqb_eq in E. destruct r' as [|d r'']; [left; reflexivity|]. exfalso.
      inversion Hn' as [|? ? Hc _]; subst. apply Hc. rewrite E.
      change (In (last (d :: r'') c) (d :: r'')). clear. generalize d. induction r'' as [|e r IH]; intros d0; [left; reflexivity|].
      right. apply IH.
    + apply in_map. destruct r' as [|d r'']; [simpl in E; rewrite Nat.eqb_refl in E; discriminate|].
      apply IH; [discriminate|exact Ht|exact Hn'|reflexivity|simpl in Hlen; simpl; lia].
Qed.

Lemma dpath_dtrail g u v : dpath g u v -> exists r, is_dtrail g (u :: r) /\ last (u :: r) u = v.
Proof.
  intros H. revert u v H.
  apply (dpath_ind_left g (fun u v => exists r, is_dtrail g (u :: r) /\ last (u :: r) u = v)).
  - intros u. exists []. split; [exact I|reflexivity].
  - intros u v w He _ [r [Ht Hl]]. exists (v :: r). split; [split; assumption|].
    change (last (v :: r) u = w). transitivity (last (v :: r) v); [apply last_default; discriminate|exact Hl].
Qed.

Lemma dtrail_removed g m : forall p, is_dtrail (remove_node g m) p -> 2 <= length p -> is_dtrail g p /\ ~ In m p.
Proof.
  induction p as [|a p IH]; intros Ht Hl; [simpl in Hl; lia|].
  destruct p as [|b p']; [simpl in Hl; lia|]. destruct Ht as [He Ht]. apply remove_node_edges_In in He.
  destruct He as [He [Ha Hb]]. destruct p' as [|c p''].
  - split; [split; [exact He|exact I]|]. intros [E|[E|[]]]; congruence.
  - destruct (IH Ht) as [Ht' Hm]; [simpl; lia|]. split; [split; assumption|]. intros [E|Hi]; [congruence|contradiction].
Qed.

(* what the path part of pgmpy's test says *)
Theorem frontdoor_paths g x y m : wf_graph g -> acyclic g -> x <> y ->
  dpaths (length (nodes g)) g x y <> [] ->
  existsb (fun p => negb (existsb (fun z => memn z p) [m])) (dpaths (length (nodes g)) g x y) = false ->
  dpath g x m /\ ~ dpath (remove_node g m) x y.
Proof.
  intros Hw Hac Hxy Hne Hall.
  assert (Hmeets : forall p, In p (dpaths (length (nodes g)) g x y) -> In m p).
  { intros p Hp. destruct (existsb (fun z => memn z p) [m]) eqn:E.
    - cbn [existsb] in E. rewrite orb_false_r in E. apply memn_In. exact E.
    - exfalso. assert (H : existsb (fun p => negb (existsb (fun z => memn z p) [m])) (dpaths (length (nodes g)) g x y) = true).
      { apply existsb_exists. exists p. split; [exact Hp|rewrite E; reflexivity]. }
      congruence. }
  split.
  - destruct (dpaths (length (nodes g)) g x y) as [|p l] eqn:Ed; [congruence|].
    assert (Hp : In p (dpaths (length (nodes g)) g x y)) by (rewrite Ed; left; reflexivity).
    destruct (dpaths_sound _ g x y p Hp) as [r [-> [_ [Ht _]]]].
    apply (dtrail_dpath g r x Ht m). apply Hmeets. left. reflexivity.
  - intros Hp. destruct (dpath_dtrail _ x y Hp) as [r [Ht Hl]].
    assert (Hr : r <> []) by (intros ->; simpl in Hl; congruence).
    assert (Hlen : 2 <= length (x :: r)) by (destruct r; [congruence|simpl; lia]).
    destruct (dtrail_removed g m (x :: r) Ht Hlen) as [Ht' Hm].
    pose proof (dtrail_NoDup g Hac (x :: r) Ht') as Hn.
    assert (Hin : incl (x :: r) (nodes g)).
    { intros v Hv. exact (trail_in_nodes g Hw (x :: r) (dtrail_trail g _ Ht') Hlen v Hv). }
    pose proof (NoDup_incl_length Hn Hin) as Hle. simpl in Hle.
    apply Hm. apply Hmeets. apply dpaths_complete; try assumption. lia.
Qed.

(* ------------------------------------------------------------------ the formula under pgmpy's test *)
Local Open Scope Qc_scope.
Notation Pm := (marg Qc_sum_csr).

Theorem frontdoor_adjustment_formula (card : var -> nat) (g : digraph) (F : var -> asg -> Qc)
  (x m y : node) (xv : nat) (a : asg) :
  wf_graph g -> acyclic g ->
  (forall v, In v (nodes g) -> @depends_only Qc_sum_csr (F v) (v :: parents g v)) ->
  (forall v, In v (nodes g) -> forall b, valid card b -> @sum_over Qc_sum_csr [v] [card v] (F v) b = 1) ->
  In x (nodes g) -> In m (nodes g) -> In y (nodes g) -> x <> m -> y <> x -> y <> m -> (xv < card x)%nat ->
  is_valid_frontdoor g x y [m] = true ->
  valid card a -> a x = xv ->
  (forall b, valid card b -> b x = xv -> Pm card g F [x] b <> 0) ->
  (forall b, valid card b -> Pm card g F [m; x] b <> 0) ->
  @sum_over Qc_sum_csr [m] [card m]
    (fun b => Pm card g F [m; x] b / Pm card g F [x] b *
              @sum_over Qc_sum_csr [x] [card x]
                (fun c => Pm card g F [y; m; x] c / Pm card g F [m; x] c * Pm card g F [x] c) b) a
  = trunc Qc_sum_csr card g F x [y] a.
Proof.
  intros Hw Hac Fdep Fsum Hx Hm Hy Hxm Hyx Hym Hxv Hfd Ha Hax Hp1 Hp2.
  unfold is_valid_frontdoor in Hfd.
  destruct (dpaths (length (nodes g)) g x y) as [|p0 l0] eqn:Ed; [discriminate|].
  destruct (existsb (fun p => negb (existsb (fun z => memn z p) [m])) (p0 :: l0)) eqn:E1; [discriminate|].
  destruct (existsb (fun z => negb (is_valid_backdoor g x z [])) [m]) eqn:E2; [discriminate|].
  cbn [existsb] in E2. rewrite orb_false_r in E2. apply negb_false_iff in E2.
  cbn [forallb] in Hfd. rewrite andb_true_r in Hfd.
  assert (Hne : dpaths (length (nodes g)) g x y <> []) by (rewrite Ed; discriminate).
  rewrite <- Ed in E1.
  destruct (frontdoor_paths g x y m Hw Hac (fun E => Hyx (eq_sym E)) Hne E1) as [Hanc Hcut].
  assert (HY : NoDup [y] /\ forall y', In y' [y] -> In y' (nodes g) /\ y' <> x /\ y' <> m).
  { split; [constructor; [intros []|constructor]|]. intros y' [<-|[]]. tauto. }
  assert (Hcut' : forall y', In y' [y] -> ~ dpath (remove_node g m) x y') by (intros y' [<-|[]]; exact Hcut).
  assert (Hiii : forall y', In y' [y] -> forallb (fun p => negb (is_dconnected g p y' [m; x])) (parents g m) = true)
    by (intros y' [<-|[]]; exact Hfd).
  exact (frontdoor_adjustment card g F Hw Hac Fdep Fsum x m xv [y] Hx Hm Hxm Hxv HY Hanc Hcut' E2 Hiii a Ha Hax Hp1 Hp2).
Qed.

Local Close Scope Qc_scope.
(* non-vacuity: the front-door graph  X -> M -> Y  with a latent  U -> X, U -> Y  (X = 0, U = 1, M = 2, Y = 3):
   {M} passes pgmpy's test; the back-door route is closed to an analyst who cannot observe U *)
Example frontdoor_formula_nonvacuous :
  let g := {| nodes := [0; 1; 2; 3]; edges := [(1, 0); (1, 3); (0, 2); (2, 3)] |} in
  wf_graph g /\ acyclic g /\ is_valid_frontdoor g 0 3 [2] = true /\ is_valid_backdoor g 0 3 [] = false.
Proof.
  intros g.
  assert (Hw : wf_graph g).
  { split; [repeat constructor; simpl; intuition discriminate|].
    intros u v [H|[H|[H|[H|[]]]]]; inversion H; subst; simpl; tauto. }
  split; [exact Hw|]. split; [apply (acyclicb_spec g Hw); vm_compute; reflexivity|].
  split; vm_compute; reflexivity.
Qed.
