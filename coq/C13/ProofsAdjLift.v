(* lifting of the vm_compute check of ProofsAdj.v to a quantified statement *)
From Coq Require Import List Bool Arith PeanoNat Lia QArith Qcanon.
From PV Require Import Base.Reach Base.Graph Base.FinSum C08.Model C13.Model C13.Spec C13.Finite
  C13.ProofsRefuted C13.ProofsAdj.
Import ListNotations.
Local Close Scope Q_scope.
Local Close Scope Qc_scope.

Lemma le3_In n : n <= 3 -> In n [0; 1; 2; 3].
Proof. intros H. simpl. lia. Qed.

Lemma single_do_parent_adjustment_upto3_grid : forall n bn x xv Y,
  n <= 3 -> In bn (grid_bns n) -> In x (nodes (bg bn)) -> xv < 2 ->
  In Y (powerset (minus (nodes (bg bn)) (x :: parents (bg bn) x))) -> Y <> [] ->
  query bn Y [(x, xv)] None = inr (trunc_table bn Y [(x, xv)]).
Proof.
  intros n bn x xv Y Hn Hbn Hx Hxv HY Hne.
  pose proof (forallb_In _ _ n chk_single_upto3 (le3_In n Hn)) as H. unfold chk_single in H.
  pose proof (forallb_In _ _ bn H Hbn) as H1. cbv beta in H1.
  pose proof (forallb_In _ _ x H1 Hx) as H2. cbv beta in H2.
  assert (Hv : In xv [0; 1]) by (simpl; lia).
  pose proof (forallb_In _ _ xv H2 Hv) as H3. cbv beta zeta in H3.
  pose proof (forallb_In _ _ Y H3 HY) as H4. cbv beta in H4.
  destruct Y as [|y Y']; [congruence|]. cbv beta iota in H4.
  match type of H4 with
  | match ?qq with inl _ => _ | inr _ => _ end = true =>
      change (qq = inr (trunc_table bn (y :: Y') [(x, xv)])); destruct qq as [e|t]; [discriminate|]
  end.
  apply qlist_eqb_eq in H4. rewrite H4. reflexivity.
Qed.

(* the finite domain contains networks where the adjustment set is non-empty and the query non-trivial *)
Lemma grid_nonempty : length (grid_bns 2) = 20 /\ length (all_dags 3) = 25.
Proof. split; vm_compute; reflexivity. Qed.
