(* C13: graph and CPD surgery of do() -- unbounded proofs over the literal model. *)
From Coq Require Import List Bool Arith PeanoNat Lia QArith Qcanon.
From PV Require Import Base.Reach Base.Graph Base.Semiring Base.Ravel Base.FinSum Base.RefFactor
  C08.Model C13.Model.
Import ListNotations.
Local Close Scope Qc_scope.
Local Close Scope Q_scope.

Lemma In_remove_edge es u v e : In e (remove_edge es u v) <-> In e es /\ e <> (u, v).
Proof.
  unfold remove_edge. rewrite filter_In. split; intros [H1 H2]; split; try exact H1.
  - intros E. subst. apply negb_true_iff in H2.
    assert (edge_eqb (u, v) (u, v) = true) by (apply edge_eqb_eq; reflexivity). congruence.
  - apply negb_true_iff. destruct (edge_eqb e (u, v)) eqn:E; [|reflexivity].
    apply edge_eqb_eq in E. contradiction.
Qed.

Lemma In_fold_remove n ps : forall es e,
  In e (fold_left (fun es p => remove_edge es p n) ps es) <-> In e es /\ forall p, In p ps -> e <> (p, n).
Proof.
  induction ps as [|q ps IH]; intros es e; simpl.
  - split; [intros H; split; [exact H|intros p []]|intros [H _]; exact H].
  - rewrite IH, In_remove_edge. split.
    + intros [[H1 H2] H3]. split; [exact H1|]. intros p [<-|Hp]; [exact H2|apply H3; exact Hp].
    + intros [H1 H2]. split; [split; [exact H1|apply H2; left; reflexivity]|].
      intros p Hp. apply H2. right. exact Hp.
Qed.

Lemma edges_remove_in_edges g n u v :
  In (u, v) (edges (remove_in_edges g n)) <-> In (u, v) (edges g) /\ v <> n.
Proof.
  unfold remove_in_edges. simpl. rewrite In_fold_remove. split.
  - intros [H1 H2]. split; [exact H1|]. intros E. subst v.
    apply (H2 u); [apply In_parents; exact H1|reflexivity].
  - intros [H1 H2]. split; [exact H1|]. intros p _ E. inversion E. subst. apply H2. reflexivity.
Qed.

Lemma fold_remove_in_edges X : forall g,
  nodes (fold_left remove_in_edges X g) = nodes g /\
  forall u v, In (u, v) (edges (fold_left remove_in_edges X g)) <-> In (u, v) (edges g) /\ ~ In v X.
Proof.
  induction X as [|n X IH]; intros g; simpl.
  - split; [reflexivity|]. intros u v. split; [intros H; split; [exact H|intros []]|intros [H _]; exact H].
  - destruct (IH (remove_in_edges g n)) as [Hn He]. split; [rewrite Hn; reflexivity|].
    intros u v. rewrite He, edges_remove_in_edges. split.
    + intros [[H1 H2] H3]. split; [exact H1|]. intros [E|Hi]; [apply H2; symmetry; exact E|apply H3; exact Hi].
    + intros [H1 H2]. split; [split; [exact H1|]|].
      * intros E. apply H2. left. symmetry. exact E.
      * intros Hi. apply H2. right. exact Hi.
Qed.

Lemma subsetb_incl a b : subsetb a b = true <-> incl a b.
Proof.
  unfold subsetb. rewrite forallb_forall. split.
  - intros H x Hx. apply memn_In. apply H. exact Hx.
  - intros H x Hx. apply memn_In. apply H. exact Hx.
Qed.

(* DAG.do: refused exactly when some node is unknown; otherwise same nodes, and an edge survives iff its
   head is not intervened on (so: exactly the incoming edges of the intervened nodes are removed) *)
Lemma do_graph_spec g X :
  (do_graph g X = None <-> ~ incl X (nodes g)) /\
  (forall g', do_graph g X = Some g' ->
     nodes g' = nodes g /\
     forall u v, In (u, v) (edges g') <-> In (u, v) (edges g) /\ ~ In v X).
Proof.
  unfold do_graph. destruct (subsetb X (nodes g)) eqn:E.
  - split.
    + split; [discriminate|]. intros H. exfalso. apply H. apply subsetb_incl. exact E.
    + intros g' H. inversion H. subst. apply fold_remove_in_edges.
  - split.
    + split; [|reflexivity]. intros _ H. apply subsetb_incl in H. congruence.
    + intros g' H. discriminate.
Qed.

(* consequences on parents: intervened nodes become roots, the others keep their parents *)
Lemma do_graph_parents g X g' v : do_graph g X = Some g' ->
  (In v X -> parents g' v = []) /\ (~ In v X -> forall u, In u (parents g' v) <-> In u (parents g v)).
Proof.
  intros H. destruct (do_graph_spec g X) as [_ Hs]. destruct (Hs g' H) as [_ He]. split.
  - intros Hv. destruct (parents g' v) as [|u r] eqn:E; [reflexivity|]. exfalso.
    assert (Hi : In u (parents g' v)) by (rewrite E; left; reflexivity).
    apply In_parents, He in Hi. destruct Hi as [_ Hn]. contradiction.
  - intros Hv u. rewrite !In_parents, He. tauto.
Qed.

(* ---- CPD surgery ---- *)
Local Open Scope Qc_scope.

Lemma qsuml_div (l : list Qc) (t : Qc) : qsuml (map (fun q => q / t) l) = qsuml l / t.
Proof.
  unfold qsuml. induction l as [|q l IH]; simpl.
  - unfold Qcdiv. ring.
  - simpl in IH. rewrite IH. unfold Qcdiv. ring.
Qed.

Lemma nth_map_lt {A B} (f : A -> B) l i d d' : (i < length l)%nat -> nth i (map f l) d = f (nth i l d').
Proof.
  revert i. induction l as [|x l IH]; intros i Hi; simpl in *; [lia|].
  destruct i; [reflexivity|]. apply IH. lia.
Qed.

(* the parent-summed column of a CPD: entry i = sum over all parent configurations of P(i | pa) *)
Definition parent_sum (card : var -> nat) (c : cpd) (i : nat) : Qc :=
  qsum card (cpars c) (qeval card (cfac c)) (upd (fun _ => 0%nat) (cvar c) i).

Lemma marg_cpd_spec card c :
  cvar (marg_cpd card c) = cvar c /\ cpars (marg_cpd card c) = [] /\
  length (ctab (marg_cpd card c)) = card (cvar c) /\
  (forall i, (i < card (cvar c))%nat ->
     nth i (ctab (marg_cpd card c)) 0 =
       parent_sum card c i / qsuml (map (parent_sum card c) (seq 0 (card (cvar c))))) /\
  (qsuml (map (parent_sum card c) (seq 0 (card (cvar c)))) <> 0 -> qsuml (ctab (marg_cpd card c)) = 1).
Proof.
  unfold marg_cpd. cbn [cvar cpars ctab]. fold (parent_sum card c).
  set (col := map (parent_sum card c) (seq 0 (card (cvar c)))).
  split; [reflexivity|]. split; [reflexivity|]. split; [|split].
  - unfold col. rewrite !map_length, seq_length. reflexivity.
  - intros i Hi.
    rewrite (nth_map_lt _ col i 0 0) by (unfold col; rewrite map_length, seq_length; exact Hi).
    f_equal. unfold col.
    rewrite (nth_map_lt _ _ i 0 0%nat) by (rewrite seq_length; exact Hi).
    rewrite seq_nth by exact Hi. reflexivity.
  - intros Hnz. rewrite qsuml_div. unfold Qcdiv. apply Qcmult_inv_r. exact Hnz.
Qed.

Lemma do_bn_spec bn X bn' : do_bn bn X = Some bn' ->
  do_graph (bg bn) X = Some (bg bn') /\ bcards bn' = bcards bn /\ blat bn' = blat bn /\
  length (bcpds bn') = length (bcpds bn) /\
  forall k c, nth_error (bcpds bn) k = Some c ->
    exists c', nth_error (bcpds bn') k = Some c' /\
      (~ In (cvar c) X -> c' = c) /\ (In (cvar c) X -> c' = marg_cpd (bcard bn) c).
Proof.
  unfold do_bn. destruct (do_graph (bg bn) X) as [g'|] eqn:E; [|discriminate].
  intros H. inversion H. subst. cbn [bg bcards blat bcpds].
  split; [reflexivity|]. split; [reflexivity|]. split; [reflexivity|]. split; [apply map_length|].
  intros k c Hk. rewrite nth_error_map, Hk. simpl.
  eexists. split; [reflexivity|]. split.
  - intros Hn. apply memn_false in Hn. rewrite Hn. reflexivity.
  - intros Hi. apply memn_In in Hi. rewrite Hi. reflexivity.
Qed.

Lemma do_bn_none bn X : do_bn bn X = None <-> ~ incl X (nodes (bg bn)).
Proof.
  unfold do_bn. destruct (do_graph_spec (bg bn) X) as [Hn _].
  destruct (do_graph (bg bn) X); split; try discriminate; try reflexivity.
  - intros H. apply Hn in H. discriminate.
  - intros _. apply Hn. reflexivity.
Qed.
