(* Mixed-radix (row-major, "C order") ravel / unravel of multi-indices, as numpy's
   ravel_multi_index / unravel_index, with the mutual-inverse lemmas used by the C09 layout proofs.
   (Local to C09: coq/Base/Ravel.v did not exist when this was written.) *)
From Coq Require Import List Arith Lia PeanoNat.
Import ListNotations.

Fixpoint prodl (cards : list nat) : nat :=
  match cards with [] => 1 | c :: cs => c * prodl cs end.

(* C order: the LAST index varies fastest *)
Fixpoint ravel (cards idx : list nat) : nat :=
  match cards, idx with
  | c :: cs, i :: is_ => i * prodl cs + ravel cs is_
  | _, _ => 0
  end.

Fixpoint unravel (cards : list nat) (n : nat) : list nat :=
  match cards with
  | [] => []
  | c :: cs => (n / prodl cs) :: unravel cs (n mod prodl cs)
  end.

(* idx is a valid multi-index for cards *)
Definition valid_idx (cards idx : list nat) : Prop := Forall2 lt idx cards.

Definition tabulate {A} (n : nat) (f : nat -> A) : list A := map f (seq 0 n).

Lemma tabulate_length {A} n (f : nat -> A) : length (tabulate n f) = n.
Proof. unfold tabulate. now rewrite map_length, seq_length. Qed.

Lemma nth_tabulate {A} n (f : nat -> A) i d : i < n -> nth i (tabulate n f) d = f i.
Proof.
  intros Hi. unfold tabulate.
  rewrite (nth_indep _ d (f 0)) by now rewrite map_length, seq_length.
  rewrite map_nth, seq_nth; auto.
Qed.

Lemma list_ext_nth {A} (l1 l2 : list A) d :
  length l1 = length l2 -> (forall i, i < length l1 -> nth i l1 d = nth i l2 d) -> l1 = l2.
Proof.
  revert l2. induction l1 as [|x l1 IH]; intros [|y l2] Hl H; simpl in *; try discriminate; auto.
  f_equal.
  - apply (H 0). lia.
  - apply IH; [lia|]. intros i Hi. apply (H (S i)). lia.
Qed.

Lemma tabulate_eq {A} n (f : nat -> A) l d :
  length l = n -> (forall i, i < n -> f i = nth i l d) -> tabulate n f = l.
Proof.
  intros Hl H. apply (list_ext_nth _ _ d).
  - now rewrite tabulate_length.
  - intros i Hi. rewrite tabulate_length in Hi. rewrite nth_tabulate by auto. auto.
Qed.

Lemma tabulate_ext {A} n (f g : nat -> A) : (forall i, i < n -> f i = g i) -> tabulate n f = tabulate n g.
Proof.
  intros H. unfold tabulate. apply map_ext_in. intros i Hi. apply in_seq in Hi. apply H. lia.
Qed.

Lemma prodl_app a b : prodl (a ++ b) = prodl a * prodl b.
Proof. induction a; simpl; [lia|]. rewrite IHa. lia. Qed.

Lemma valid_idx_length cards idx : valid_idx cards idx -> length idx = length cards.
Proof. intros H. induction H; simpl; auto. Qed.

Lemma ravel_lt cards idx : valid_idx cards idx -> ravel cards idx < prodl cards.
Proof.
  intros H. induction H as [|i c is_ cs Hic _ IH]; simpl; [lia|]. nia.
Qed.

Lemma unravel_length cards n : length (unravel cards n) = length cards.
Proof. revert n. induction cards; intros; simpl; auto. Qed.

Lemma unravel_ravel cards idx : valid_idx cards idx -> unravel cards (ravel cards idx) = idx.
Proof.
  intros H. induction H as [|i c is_ cs Hic Hv IH]; simpl; [reflexivity|].
  pose proof (ravel_lt _ _ Hv) as Hlt.
  assert (Hp : prodl cs <> 0) by lia.
  f_equal.
  - rewrite Nat.div_add_l by exact Hp. rewrite Nat.div_small by exact Hlt. lia.
  - rewrite Nat.add_comm, Nat.mod_add by exact Hp. rewrite Nat.mod_small by exact Hlt. exact IH.
Qed.

Lemma unravel_valid cards n : n < prodl cards -> valid_idx cards (unravel cards n).
Proof.
  revert n. induction cards as [|c cs IH]; intros n Hn; simpl in *; [constructor|].
  assert (Hp : prodl cs <> 0) by (intro E; rewrite E in Hn; lia).
  constructor.
  - apply Nat.div_lt_upper_bound; [exact Hp|]. lia.
  - apply IH. apply Nat.mod_upper_bound. exact Hp.
Qed.

Lemma ravel_unravel cards n : n < prodl cards -> ravel cards (unravel cards n) = n.
Proof.
  revert n. induction cards as [|c cs IH]; intros n Hn; simpl in *; [lia|].
  assert (Hp : prodl cs <> 0) by (intro E; rewrite E in Hn; lia).
  rewrite IH by (apply Nat.mod_upper_bound; exact Hp).
  pose proof (Nat.div_mod n (prodl cs) Hp). lia.
Qed.

Lemma valid_idx_app c1 i1 c2 i2 : valid_idx c1 i1 -> valid_idx c2 i2 -> valid_idx (c1 ++ c2) (i1 ++ i2).
Proof. intros H1 H2. unfold valid_idx in *. now apply Forall2_app. Qed.

Lemma ravel_app c1 i1 c2 i2 : length i1 = length c1 ->
  ravel (c1 ++ c2) (i1 ++ i2) = ravel c1 i1 * prodl c2 + ravel c2 i2.
Proof.
  revert i1. induction c1 as [|c c1 IH]; intros [|i i1] Hl; simpl in *; try discriminate; [lia|].
  rewrite IH by lia. rewrite prodl_app. lia.
Qed.

(* (j, c) with the extra axis LAST:  flat index j*k + c *)
Lemma ravel_snoc cs is_ k c : length is_ = length cs ->
  ravel (cs ++ [k]) (is_ ++ [c]) = ravel cs is_ * k + c.
Proof. intros H. rewrite ravel_app by exact H. simpl. lia. Qed.

Lemma unravel_snoc cs k j c : j < prodl cs -> c < k ->
  unravel (cs ++ [k]) (j * k + c) = unravel cs j ++ [c].
Proof.
  intros Hj Hc.
  pose proof (unravel_valid _ _ Hj) as Hv.
  assert (Hv' : valid_idx (cs ++ [k]) (unravel cs j ++ [c])).
  { apply valid_idx_app; [exact Hv|]. constructor; [exact Hc|constructor]. }
  rewrite <- (unravel_ravel _ _ Hv'). f_equal.
  rewrite ravel_snoc by apply unravel_length.
  now rewrite ravel_unravel.
Qed.

(* (c, j) with the extra axis FIRST: flat index c*P + j *)
Lemma ravel_cons k cs c is_ : ravel (k :: cs) (c :: is_) = c * prodl cs + ravel cs is_.
Proof. reflexivity. Qed.

Lemma unravel_inj cards n m : n < prodl cards -> m < prodl cards ->
  unravel cards n = unravel cards m -> n = m.
Proof.
  intros Hn Hm E. rewrite <- (ravel_unravel cards n Hn), <- (ravel_unravel cards m Hm). now rewrite E.
Qed.
