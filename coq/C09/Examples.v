(* C09: non-vacuity examples for the hypotheses of the theorems in Props.v *)
From Coq Require Import List Arith Bool PeanoNat.
From PV Require Import C09.RavelLocal C09.Model C09.Proofs C09.Tokens C09.Proofs2.
Import ListNotations.

(* three variables of cardinalities 2, 3, 2; variable 2 has parents (1, 0) of UNEQUAL cardinality *)
Definition ex_m : bn nat :=
  [ {| child := 2; cstates := [30; 31]; parents := [(1, [20; 21; 22]); (0, [10; 11])];
       table := [100;101;102;103;104;105;106;107;108;109;110;111] |};
    {| child := 0; cstates := [10; 11]; parents := []; table := [1; 2] |};
    {| child := 1; cstates := [20; 21; 22]; parents := []; table := [3; 4; 5] |} ].

Example ex_wf : wf_bn ex_m.
Proof.
  split.
  - simpl. repeat constructor; simpl; intuition discriminate.
  - intros c [E|[E|[E|[]]]]; subst c; (split; [reflexivity|]); simpl; intros p ss H.
    + destruct H as [H|[H|[]]]; inversion H; subst.
      * exists {| child := 1; cstates := [20; 21; 22]; parents := []; table := [3; 4; 5] |}. simpl. auto.
      * exists {| child := 0; cstates := [10; 11]; parents := []; table := [1; 2] |}. simpl. auto.
    + contradiction.
    + contradiction.
Qed.
Example ex_distinct : forall c, In c ex_m -> Forall (@NoDup state) (pstates c).
Proof.
  intros c [E|[E|[E|[]]]]; subst c; simpl; repeat constructor; simpl; intuition discriminate.
Qed.
(* the documents are not trivial: XMLBIF text order differs from pgmpy's table order *)
Example ex_xml_text : xd_table (xml_write_cpd 0 (hd {| child := 0; cstates := []; parents := []; table := [] |} ex_m))
  = [100;106;101;107;102;108;103;109;104;110;105;111].
Proof. reflexivity. Qed.
Example ex_uai_sort : (* cards 2, 10, 3: "10" sorts before "2" *)
  map fst (uai_variables [(0, 2); (1, 10); (2, 3)]) = [1; 0; 2].
Proof. vm_compute. reflexivity. Qed.
Example ex_shape : shape_within 24 (Sci None true 0) /\ render (Sci None true 0) = [Dg; Ee; Minus; Dg; Dg].
Proof. simpl. repeat split; auto with arith. Qed.

(* a Markov network meeting wf_mn: two factors sharing variable 1 (cardinality 3) *)
Definition ex_mn : mn nat :=
  [ {| fscope := [(0, 2); (1, 3)]; fvalues := [1; 2; 3; 4; 5; 6] |}; {| fscope := [(1, 3)]; fvalues := [7; 8; 9] |} ].
Example ex_wf_mn : wf_mn ex_mn.
Proof.
  split.
  - intros v c1 c2 H1 H2. simpl in *. intuition congruence.
  - intros f [E|[E|[]]]; subst f; reflexivity.
Qed.
Example ex_digits : digits 10 = [1; 0] /\ digits 2 = [2] /\ digits 0 = [0] /\ uai_key_leb (5, 10) (1, 2) = true
                    /\ uai_key_leb (1, 2) (5, 10) = false.
Proof. vm_compute. repeat split. Qed.
