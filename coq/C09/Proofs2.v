(* C09 proofs, part 2: Markov-network UAI round trip, sortedness of the UAI numbering order. *)
From Coq Require Import List Arith Bool PeanoNat Lia Permutation Sorting.Sorted.
From PV Require Import C09.RavelLocal C09.Model C09.Proofs.
Import ListNotations.

(* ---------------------------------------------------------------- insertion sort is sorted (total order) *)
Section SortSorted.
Context {X : Type}.
Variable leb : X -> X -> bool.
Hypothesis leb_total : forall a b, leb a b = false -> leb b a = true.
Hypothesis leb_trans : forall a b c, leb a b = true -> leb b c = true -> leb a c = true.
Let R a b := leb a b = true.

Lemma insert_by_hd x y l : R y x -> HdRel R y l -> HdRel R y (insert_by leb x l).
Proof.
  intros Hyx Hl. destruct l as [|z l]; simpl; [now constructor|].
  destruct (leb x z); constructor; auto. now inversion Hl.
Qed.
Lemma insert_by_sorted x l : Sorted R l -> Sorted R (insert_by leb x l).
Proof.
  induction l as [|y l IH]; intros Hs; simpl; [repeat constructor|].
  inversion Hs as [|? ? Hs' Hhd]; subst.
  destruct (leb x y) eqn:E.
  - constructor; [exact Hs|]. constructor. exact E.
  - constructor; [now apply IH|]. apply insert_by_hd; [now apply leb_total|exact Hhd].
Qed.
Lemma sort_by_sorted l : Sorted R (sort_by leb l).
Proof. induction l as [|x l IH]; simpl; [constructor|]. now apply insert_by_sorted. Qed.
Lemma sort_by_strongly_sorted l : StronglySorted R (sort_by leb l).
Proof.
  apply Sorted_StronglySorted; [|apply sort_by_sorted].
  intros a b c. unfold R. apply leb_trans.
Qed.
End SortSorted.

(* ---------------------------------------------------------------- python's string order on digit strings *)
Lemma lex_leb_refl a : lex_leb a a = true.
Proof. induction a as [|x a IH]; simpl; [reflexivity|]. now rewrite Nat.ltb_irrefl. Qed.

Lemma lex_leb_total a b : lex_leb a b = false -> lex_leb b a = true.
Proof.
  revert b. induction a as [|x a IH]; intros [|y b]; simpl; try discriminate; auto.
  destruct (x <? y) eqn:E1; [discriminate|]. destruct (y <? x) eqn:E2; [reflexivity|]. apply IH.
Qed.

Lemma lex_leb_antisym a b : lex_leb a b = true -> lex_leb b a = true -> a = b.
Proof.
  revert b. induction a as [|x a IH]; intros [|y b]; simpl; try discriminate; auto.
  destruct (x <? y) eqn:E1; destruct (y <? x) eqn:E2; try discriminate.
  - apply Nat.ltb_lt in E1. apply Nat.ltb_lt in E2. lia.
  - intros H1 H2. apply Nat.ltb_ge in E1. apply Nat.ltb_ge in E2. f_equal; [lia|now apply IH].
Qed.

Lemma lex_leb_trans a b c : lex_leb a b = true -> lex_leb b c = true -> lex_leb a c = true.
Proof.
  revert b c. induction a as [|x a IH]; intros [|y b] [|z c]; simpl; try discriminate; auto.
  destruct (x <? y) eqn:E1; destruct (y <? x) eqn:E2; try discriminate;
  destruct (y <? z) eqn:E3; destruct (z <? y) eqn:E4; try discriminate;
  repeat match goal with
         | H : (_ <? _) = true |- _ => apply Nat.ltb_lt in H
         | H : (_ <? _) = false |- _ => apply Nat.ltb_ge in H
         end; intros H1 H2.
  all: try (assert (Hxz : x <? z = true) by (apply Nat.ltb_lt; lia); rewrite Hxz; reflexivity).
  assert (x = y) by lia. assert (y = z) by lia. subst.
  rewrite Nat.ltb_irrefl. now apply (IH b c).
Qed.

Lemma uai_key_leb_total a b : uai_key_leb a b = false -> uai_key_leb b a = true.
Proof.
  unfold uai_key_leb. destruct (list_eqb (digits (snd a)) (digits (snd b))) eqn:E.
  - apply list_eqb_eq in E. rewrite E.
    assert (list_eqb (digits (snd b)) (digits (snd b)) = true) as -> by now apply list_eqb_eq.
    intros H. apply Nat.leb_gt in H. apply Nat.leb_le. lia.
  - intros H. destruct (list_eqb (digits (snd b)) (digits (snd a))) eqn:E'.
    + apply list_eqb_eq in E'. rewrite E' in E.
      assert (list_eqb (digits (snd a)) (digits (snd a)) = true) by now apply list_eqb_eq. congruence.
    + now apply lex_leb_total.
Qed.

Lemma list_eqb_false a b : list_eqb a b = false <-> a <> b.
Proof.
  split.
  - intros H E. apply list_eqb_eq in E. congruence.
  - intros H. destruct (list_eqb a b) eqn:E; [|reflexivity]. apply list_eqb_eq in E. contradiction.
Qed.

Lemma uai_key_leb_trans a b c :
  uai_key_leb a b = true -> uai_key_leb b c = true -> uai_key_leb a c = true.
Proof.
  unfold uai_key_leb.
  set (da := digits (snd a)). set (db := digits (snd b)). set (dc := digits (snd c)).
  destruct (list_eqb da db) eqn:Eab; destruct (list_eqb db dc) eqn:Ebc.
  - apply list_eqb_eq in Eab. apply list_eqb_eq in Ebc. rewrite Eab, Ebc.
    assert (list_eqb dc dc = true) as -> by now apply list_eqb_eq.
    intros H1 H2. apply Nat.leb_le in H1. apply Nat.leb_le in H2. apply Nat.leb_le. lia.
  - apply list_eqb_eq in Eab. rewrite Eab, Ebc. auto.
  - apply list_eqb_eq in Ebc. rewrite <- Ebc, Eab. auto.
  - intros H1 H2. destruct (list_eqb da dc) eqn:Eac.
    + apply list_eqb_eq in Eac. rewrite <- Eac in H2.
      apply list_eqb_false in Eab. exfalso. apply Eab. now apply lex_leb_antisym.
    + now apply (lex_leb_trans da db dc).
Qed.

(* the UAI variable list is sorted: every earlier entry is <= every later one in the (str(card), name) order *)
Lemma uai_variables_sorted dom :
  StronglySorted (fun a b => uai_key_leb a b = true) (uai_variables dom).
Proof.
  unfold uai_variables. apply sort_by_strongly_sorted.
  - exact uai_key_leb_total.
  - exact uai_key_leb_trans.
Qed.

(* ---------------------------------------------------------------- Markov networks *)
Section Markov.
Context {A : Type}.

Definition scope_pairs (m : mn A) : list (var * nat) := flat_map (@fscope A) m.
(* a variable has one cardinality wherever it occurs; every factor has prod(cards) values *)
Definition wf_mn (m : mn A) : Prop :=
  (forall v c1 c2, In (v, c1) (scope_pairs m) -> In (v, c2) (scope_pairs m) -> c1 = c2) /\
  (forall f, In f m -> length (fvalues f) = prodl (map snd (fscope f))).

Lemma existsb_eqb_in v l : existsb (Nat.eqb v) l = true <-> In v l.
Proof.
  rewrite existsb_exists. split.
  - intros [x [Hx E]]. apply Nat.eqb_eq in E. now subst.
  - intros H. exists v. split; [exact H|apply Nat.eqb_refl].
Qed.

Lemma dedup_keys_spec (l : list (var * nat)) : forall seen,
  NoDup (map fst (dedup_keys l seen)) /\
  (forall v, In v (map fst (dedup_keys l seen)) -> ~ In v seen) /\
  (forall v c, In (v, c) (dedup_keys l seen) -> In (v, c) l) /\
  (forall v c, In (v, c) l -> ~ In v seen -> exists c', In (v, c') (dedup_keys l seen)).
Proof.
  induction l as [|[v0 c0] l IH]; intros seen; simpl.
  - repeat split; try constructor; try contradiction.
  - destruct (existsb (Nat.eqb v0) seen) eqn:E.
    + destruct (IH seen) as [H1 [H2 [H3 H4]]]. repeat split; auto.
      intros v c [Hin|Hin] Hns.
      * inversion Hin; subst. apply existsb_eqb_in in E. contradiction.
      * eapply H4; eauto.
    + destruct (IH (v0 :: seen)) as [H1 [H2 [H3 H4]]].
      assert (Hv0 : ~ In v0 seen).
      { intro Hc. apply existsb_eqb_in in Hc. congruence. }
      simpl. repeat split.
      * constructor; [|exact H1]. intros Hc. apply H2 in Hc. apply Hc. now left.
      * intros v [Hv|Hv]; [now subst|]. intros Hc. apply (H2 v Hv). now right.
      * intros v c [Hin|Hin]; [now left|right; now apply H3].
      * intros v c Hin Hns. destruct (Nat.eq_dec v v0) as [->|Hne].
        -- exists c0. now left.
        -- destruct Hin as [Hin|Hin]; [inversion Hin; congruence|].
           destruct (H4 v c Hin) as [c' Hc']; [intros [Hc|Hc]; congruence|].
           exists c'. now right.
Qed.

Lemma uai_domain_mn_in (m : mn A) v c :
  wf_mn m -> In (v, c) (scope_pairs m) -> In (v, c) (uai_domain_mn m).
Proof.
  intros [Hcons _] Hin. unfold uai_domain_mn.
  destruct (dedup_keys_spec (flat_map (@fscope A) m) []) as [_ [_ [H3 H4]]].
  destruct (H4 v c Hin) as [c' Hc']; [intros []|].
  assert (c' = c) by (eapply Hcons; [apply H3; exact Hc'|exact Hin]). now subst.
Qed.

Definition renum_factor (num : var -> nat) (f : factor A) : factor A :=
  {| fscope := map (fun p => (num (fst p), snd p)) (fscope f); fvalues := fvalues f |}.

Lemma uai_mn_num_spec (m : mn A) v c :
  wf_mn m -> In (v, c) (scope_pairs m) ->
  let vs := uai_variables (uai_domain_mn m) in
  uai_num vs v < length (map snd vs) /\ nth (uai_num vs v) (map snd vs) 0 = c /\
  nth (uai_num vs v) (map fst vs) 0 = v.
Proof.
  intros Hwf Hin vs. unfold uai_num. rewrite map_length.
  apply index_of_pairs.
  - apply (Permutation_NoDup (l := map fst (uai_domain_mn m))).
    + apply Permutation_map. symmetry. apply sort_by_perm.
    + unfold uai_domain_mn. apply (dedup_keys_spec _ []).
  - apply (Permutation_in (l := uai_domain_mn m)); [symmetry; apply sort_by_perm|].
    now apply uai_domain_mn_in.
Qed.

Lemma uai_mn_roundtrip (m : mn A) :
  wf_mn m ->
  uai_read_mn (uai_write_mn m) = Some (map (renum_factor (uai_num (uai_variables (uai_domain_mn m)))) m).
Proof.
  intros Hwf. unfold uai_read_mn, uai_write_mn. cbn [ud_domain ud_funcs ud_tables].
  apply ozip_map2. intros f Hf.
  set (vs := uai_variables (uai_domain_mn m)). set (num := uai_num vs). set (dom := map snd vs).
  assert (Hsp : forall p, In p (fscope f) -> num (fst p) < length dom /\ nth (num (fst p)) dom 0 = snd p).
  { intros [v c] Hp. simpl.
    assert (Hin : In (v, c) (scope_pairs m)) by (unfold scope_pairs; apply in_flat_map; eauto).
    destruct (uai_mn_num_spec m v c Hwf Hin) as [H1 [H2 _]]. split; assumption. }
  unfold uai_read_factor.
  assert (Hc : map (fun p => nth p dom 0) (map num (map fst (fscope f))) = map snd (fscope f)).
  { rewrite !map_map. apply map_ext_in. intros p Hp. apply (Hsp p Hp). }
  rewrite Hc. destruct Hwf as [_ Hlen]. rewrite (Hlen f Hf), Nat.eqb_refl. simpl.
  assert (Hall : forallb (fun v => v <? length dom) (map num (map fst (fscope f))) = true).
  { apply forallb_forall. intros v Hv. apply Nat.ltb_lt. rewrite map_map in Hv. apply in_map_iff in Hv.
    destruct Hv as [p [E Hp]]. subst v. apply (Hsp p Hp). }
  rewrite Hall. unfold renum_factor. f_equal. f_equal.
  rewrite !map_map. apply map_ext_in. intros p Hp. simpl. f_equal. apply (Hsp p Hp).
Qed.

(* the numbering is injective on the variables that occur in the factors *)
Lemma uai_mn_num_inj (m : mn A) v1 c1 v2 c2 :
  wf_mn m -> In (v1, c1) (scope_pairs m) -> In (v2, c2) (scope_pairs m) ->
  uai_num (uai_variables (uai_domain_mn m)) v1 = uai_num (uai_variables (uai_domain_mn m)) v2 -> v1 = v2.
Proof.
  intros Hwf H1 H2 E.
  destruct (uai_mn_num_spec m v1 c1 Hwf H1) as [_ [_ E1]].
  destruct (uai_mn_num_spec m v2 c2 Hwf H2) as [_ [_ E2]].
  rewrite <- E1, <- E2. now rewrite E.
Qed.

End Markov.

(* ---------------------------------------------------------------- round_values (BIFWriter, UAIWriter) *)
(* the writers round every table entry (numpy round, elementwise) before laying the table out: writing m with
   round_values is writing the model whose tables are rounded *)
Section Rounded.
Context {A : Type}.
Variable rnd : A -> A.

Lemma rounded_fields (c : cpd A) :
  child (rounded rnd c) = child c /\ cstates (rounded rnd c) = cstates c /\ parents (rounded rnd c) = parents c /\
  ccard (rounded rnd c) = ccard c /\ pcards (rounded rnd c) = pcards c /\ pstates (rounded rnd c) = pstates c.
Proof. repeat split. Qed.

Lemma wf_bn_rounded (m : bn A) : wf_bn m -> wf_bn (map (rounded rnd) m).
Proof.
  intros [Hnd Hwf]. split.
  - rewrite map_map. simpl. exact Hnd.
  - intros c' Hc'. apply in_map_iff in Hc'. destruct Hc' as [c [E Hc]]. subst c'.
    destruct (Hwf c Hc) as [Hlen Hpar]. split.
    + unfold rounded at 1. cbn [table]. rewrite map_length. exact Hlen.
    + intros p ss Hp. destruct (Hpar p ss Hp) as [c2 [Hc2 [E1 E2]]].
      exists (rounded rnd c2). split; [now apply in_map|]. split; assumption.
Qed.
End Rounded.
