(* C09: the concrete NET rounding, numpy round(x, 4): round half to even of x * 10^4, divided by 10^4,
   over exact rationals, with the error bound |round4 x - x| <= 1/20000 (= 0.5e-4). *)
From Coq Require Import ZArith QArith Qround Qabs Lia Lqa.
Open Scope Q_scope.

(* round half to even of a rational to an integer *)
Definition rhe (y : Q) : Z :=
  let z := Qfloor y in
  let fr := y - inject_Z z in
  if Qlt_le_dec fr (1 # 2) then z
  else if Qlt_le_dec (1 # 2) fr then (z + 1)%Z
  else if Z.even z then z else (z + 1)%Z.

Definition round4 (x : Q) : Q := inject_Z (rhe (x * 10000)) / 10000.

Lemma rhe_bound y : - (1 # 2) <= inject_Z (rhe y) - y <= 1 # 2.
Proof.
  unfold rhe. cbv zeta. set (z := Qfloor y).
  assert (H1 : inject_Z z <= y) by apply Qfloor_le.
  assert (H2 : y < inject_Z (z + 1)) by apply Qlt_floor.
  rewrite inject_Z_plus in H2. change (inject_Z 1) with 1 in H2.
  destruct (Qlt_le_dec (y - inject_Z z) (1 # 2)) as [Ha|Ha].
  - split; lra.
  - destruct (Qlt_le_dec (1 # 2) (y - inject_Z z)) as [Hb|Hb].
    + rewrite inject_Z_plus. change (inject_Z 1) with 1. split; lra.
    + destruct (Z.even z).
      * split; lra.
      * rewrite inject_Z_plus. change (inject_Z 1) with 1. split; lra.
Qed.

Lemma round4_error x : Qabs (round4 x - x) <= 1 # 20000.
Proof.
  apply Qabs_Qle_condition. unfold round4.
  pose proof (rhe_bound (x * 10000)) as [H1 H2].
  set (r := inject_Z (rhe (x * 10000))) in *.
  assert (E : r / 10000 - x == (r - x * 10000) / 10000) by field.
  rewrite E. unfold Qdiv. change (/ 10000) with (1 # 10000).
  split; lra.
Qed.

(* ties go to the even neighbour: 0.00005 -> 0.0000, 0.00015 -> 0.0002 *)
Example round4_tie_down : round4 (5 # 100000) == 0.
Proof. reflexivity. Qed.
Example round4_tie_up : round4 (15 # 100000) == 2 # 10000.
Proof. reflexivity. Qed.
