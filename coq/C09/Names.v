(* C09 token layer, names: the places where the BIF / NET readers look for a KEYWORD by text search
   (after the repairs 9090255, 7a0f805, c53e1d6, 0deb5fa), as character-level recognisers, and the proof that
   no identifier-like name -- equal to a keyword, containing one, anything made of [A-Za-z0-9_] -- is taken
   for a header/keyword at any position where the writers put a name.

     BIFReader.variable_block   re  (?<![\w-])variable\s+[\w.-]+\s*\{
     BIFReader cpd_expr         Keyword("table"|"default") + OneOrMore(Word(nums+"-+eE."))      (searchString)
     NETReader name_expr        Regex (?<![\w-])node\s+(?=[\w-]+\s*\{) + Word                    (scanString)

   The greedy reading of \s+ , [\w.-]+ , \s* used below is the full regex semantics here: the character that
   must follow each run ( a [\w.-] char, a blank or '{' ) is never a member of the run's own class. *)
From Coq Require Import List Ascii String Bool NArith Arith PeanoNat Lia.
Import ListNotations.
Open Scope N_scope.

Definition str := list ascii.
Definition S_ (s : string) : str := list_ascii_of_string s.

Definition kw_table : str := S_ "table".
Definition kw_default : str := S_ "default".

Definition code (c : ascii) : N := N_of_ascii c.
Definition is_digit (c : ascii) : bool := (48 <=? code c) && (code c <=? 57).
Definition is_alpha (c : ascii) : bool :=
  ((65 <=? code c) && (code c <=? 90)) || ((97 <=? code c) && (code c <=? 122)).
Definition is_word (c : ascii) : bool := is_alpha c || is_digit c || (code c =? 95).      (* \w  (ASCII) *)
Definition is_ws (c : ascii) : bool := (code c =? 32) || (code c =? 10) || (code c =? 9) || (code c =? 13).
Definition is_wdh (c : ascii) : bool := is_word c || (code c =? 46) || (code c =? 45).    (* [\w.-] *)
Definition is_wh (c : ascii) : bool := is_word c || (code c =? 45).                        (* [\w-] *)
Definition is_identc (c : ascii) : bool := is_word c || (code c =? 36).                    (* pyparsing Keyword: alphanums + "_$" *)
Definition is_numc (c : ascii) : bool :=                                                    (* nums + "-+eE." *)
  is_digit c || (code c =? 45) || (code c =? 43) || (code c =? 101) || (code c =? 69) || (code c =? 46).
Definition is_lbrace (c : ascii) : bool := code c =? 123.

Close Scope N_scope.

(* an identifier-like name: non-empty, only [A-Za-z0-9_] (the first-character restriction is not needed) *)
Definition ident (n : str) : Prop := n <> [] /\ forallb is_word n = true.

Fixpoint strip_prefix (kw s : str) : option str :=
  match kw, s with
  | [], _ => Some s
  | k :: kw', c :: s' => if Ascii.eqb k c then strip_prefix kw' s' else None
  | _ :: _, [] => None
  end.

(* longest run of characters of a class: (was it non-empty, rest) *)
Fixpoint run (p : ascii -> bool) (s : str) : bool * str :=
  match s with
  | c :: s' => if p c then (true, snd (run p s')) else (false, s)
  | [] => (false, [])
  end.

Definition starts_lbrace (s : str) : bool := match s with c :: _ => is_lbrace c | [] => false end.

(* (?<![\w-]) *)
Definition lookbehind_ok (prev : option ascii) : bool :=
  match prev with None => true | Some c => negb (is_wh c) end.

(* what must follow the keyword text *)
Definition after_var (r : str) : bool :=          (* \s+[\w.-]+\s*\{ *)
  let (b1, r1) := run is_ws r in let (b2, r2) := run is_wdh r1 in
  b1 && b2 && starts_lbrace (snd (run is_ws r2)).
Definition after_node (r : str) : bool :=         (* \s+(?=[\w-]+\s*\{) *)
  let (b1, r1) := run is_ws r in let (b2, r2) := run is_wh r1 in
  b1 && b2 && starts_lbrace (snd (run is_ws r2)).
Definition after_kw (r : str) : bool :=           (* Keyword: next char not an identifier char; then a number word *)
  match r with c :: _ => negb (is_identc c) | [] => true end &&
  match snd (run is_ws r) with c :: _ => is_numc c | [] => false end.

(* a match starting at a position whose previous character is [prev] and whose text is [s] *)
Definition var_hdr_at (prev : option ascii) (s : str) : bool :=
  lookbehind_ok prev && match strip_prefix (S_ "variable") s with Some r => after_var r | None => false end.
Definition node_decl_at (prev : option ascii) (s : str) : bool :=
  lookbehind_ok prev && match strip_prefix (S_ "node") s with Some r => after_node r | None => false end.
Definition kw_num_at (kw : str) (prev : option ascii) (s : str) : bool :=
  match prev with None => true | Some c => negb (is_identc c) end &&
  match strip_prefix kw s with Some r => after_kw r | None => false end.

(* the versions before the repairs *)
Definition old_var_hdr_at (s : str) : bool :=     (* re  variable\s+[^\s{]+\s*\{  (219430e) *)
  match strip_prefix (S_ "variable") s with
  | Some r => let (b1, r1) := run is_ws r in
              let (b2, r2) := run (fun c => negb (is_ws c || is_lbrace c)) r1 in
              b1 && b2 && starts_lbrace (snd (run is_ws r2))
  | None => false
  end.
Definition old_kw_num_at (kw s : str) : bool :=   (* Literal(kw) + number word *)
  match strip_prefix kw s with
  | Some r => match snd (run is_ws r) with c :: _ => is_numc c | [] => false end
  | None => false
  end.
Definition old_node_decl_at (s : str) : bool :=   (* Suppress("node ") + Word(alphanums + "_-") *)
  match strip_prefix (S_ "node ") s with
  | Some r => fst (run is_wh (snd (run is_ws r)))
  | None => false
  end.

(* the character before offset k of a name whose left neighbour is l *)
Definition prev_at (l : option ascii) (n : str) (k : nat) : option ascii :=
  match k with 0 => l | S k' => Some (nth k' n "000"%char) end.

(* ---------------------------------------------------------------- where the writers put names *)
(* BIFWriter: "variable NAME {", "{ S, S };", "probability ( NAME | NAME, NAME ) {", "( S, S ) v, v;" *)
Inductive bif_ctx : str -> Prop :=
| bc_decl t : bif_ctx (S_ " {" ++ t)
| bc_comma t : bif_ctx (S_ ", " ++ t)
| bc_last_state t : bif_ctx (S_ " };" ++ t)
| bc_child t : bif_ctx (S_ " | " ++ t)
| bc_close t : bif_ctx (S_ " ) " ++ t).

(* NETWriter: "node NAME{", ("S"  "S"), "potential (NAME | NAME NAME){", "potential (NAME |){" *)
Inductive net_ctx : str -> Prop :=
| nc_decl t : net_ctx (S_ "{" ++ t)
| nc_child t : net_ctx (S_ " |" ++ t)
| nc_last t : net_ctx (S_ "){" ++ t)
| nc_quote t : net_ctx (S_ """" ++ t)
| nc_mid_last p t : ident p -> net_ctx (S_ " " ++ p ++ S_ ")" ++ t)
| nc_mid p c t : ident p -> is_word c = true -> net_ctx (S_ " " ++ p ++ S_ " " ++ c :: t).

(* ---------------------------------------------------------------- lemmas *)
Lemma word_not_ws c : is_word c = true -> is_ws c = false.
Proof.
  destruct c as [b0 b1 b2 b3 b4 b5 b6 b7].
  destruct b0, b1, b2, b3, b4, b5, b6, b7; vm_compute; intros; congruence.
Qed.
Lemma word_wdh c : is_word c = true -> is_wdh c = true.
Proof. unfold is_wdh. intros ->. reflexivity. Qed.
Lemma word_wh c : is_word c = true -> is_wh c = true.
Proof. unfold is_wh. intros ->. reflexivity. Qed.
Lemma word_identc c : is_word c = true -> is_identc c = true.
Proof. unfold is_identc. intros ->. reflexivity. Qed.

Lemma nth_word n k : forallb is_word n = true -> k < List.length n -> is_word (nth k n "000"%char) = true.
Proof. intros H Hk. rewrite forallb_forall in H. apply H. now apply nth_In. Qed.

(* the keyword text can only be found at the start of a name as a prefix of the NAME (it cannot run over
   the end of the name, because the next character is not a word character) *)
Lemma strip_prefix_name kw n r rest :
  forallb is_word kw = true -> forallb is_word n = true ->
  match r with [] => True | c :: _ => is_word c = false end ->
  strip_prefix kw (n ++ r) = Some rest -> exists n', n = kw ++ n' /\ rest = n' ++ r.
Proof.
  revert n. induction kw as [|k kw IH]; intros n Hkw Hn Hr H; simpl in *.
  - inversion H. exists n. auto.
  - apply andb_true_iff in Hkw. destruct Hkw as [Hk Hkw].
    destruct n as [|c n]; simpl in *.
    + destruct r as [|c r]; [discriminate|].
      destruct (Ascii.eqb k c) eqn:E; [|discriminate]. apply Ascii.eqb_eq in E. subst. congruence.
    + apply andb_true_iff in Hn. destruct Hn as [Hc Hn].
      destruct (Ascii.eqb k c) eqn:E; [|discriminate]. apply Ascii.eqb_eq in E. subst c.
      destruct (IH n Hkw Hn Hr H) as [n' [E1 E2]]. exists n'. subst. auto.
Qed.

Lemma run_all (p : ascii -> bool) (n r : str) :
  n <> [] -> forallb p n = true -> match r with [] => True | c :: _ => p c = false end ->
  run p (n ++ r) = (true, r) .
Proof.
  intros Hne Hn Hr. induction n as [|c n IH]; [contradiction|]. simpl in *.
  apply andb_true_iff in Hn. destruct Hn as [Hc Hn]. rewrite Hc. f_equal.
  destruct n as [|c' n'].
  - simpl. destruct r as [|x r]; [reflexivity|]. simpl. now rewrite Hr.
  - rewrite IH; [reflexivity|discriminate|exact Hn].
Qed.

Lemma forallb_word_wh n : forallb is_word n = true -> forallb is_wh n = true.
Proof.
  intros H. apply forallb_forall. intros c Hc. apply word_wh. rewrite forallb_forall in H. now apply H.
Qed.

Lemma bif_ctx_head r : bif_ctx r -> match r with [] => True | c :: _ => is_word c = false end.
Proof. intros H. destruct H; reflexivity. Qed.
Lemma bif_ctx_after r : bif_ctx r -> after_var r = false /\ after_kw r = false.
Proof. intros H. destruct H; split; reflexivity. Qed.

Lemma net_ctx_head r : net_ctx r -> match r with [] => True | c :: _ => is_word c = false end.
Proof. intros H. destruct H; reflexivity. Qed.

Lemma after_node_mid p r' :
  ident p -> match r' with [] => True | c :: _ => is_wh c = false end ->
  starts_lbrace (snd (run is_ws r')) = false ->
  after_node (" "%char :: p ++ r') = false.
Proof.
  intros [Hne Hp] Hr Hl. unfold after_node.
  assert (E1 : run is_ws (" "%char :: p ++ r') = (true, p ++ r')).
  { destruct p as [|c0 p0]; [contradiction|]. simpl in Hp. apply andb_true_iff in Hp. destruct Hp as [Hc0 _].
    change (run is_ws (" "%char :: (c0 :: p0) ++ r')) with (true, snd (run is_ws (c0 :: p0 ++ r'))).
    cbn [run]. now rewrite (word_not_ws c0 Hc0). }
  rewrite E1. rewrite (run_all is_wh p r' Hne (forallb_word_wh p Hp) Hr). rewrite Hl. reflexivity.
Qed.

Lemma net_ctx_after r : net_ctx r -> after_node r = false.
Proof.
  intros H. destruct H as [t|t|t|t|p t Hp|p c t Hp Hc]; try reflexivity.
  - apply (after_node_mid p (S_ ")" ++ t) Hp); reflexivity.
  - apply (after_node_mid p (S_ " " ++ c :: t) Hp); [reflexivity|].
    change (run is_ws (S_ " " ++ c :: t)) with (true, snd (run is_ws (c :: t))).
    cbn [run]. rewrite (word_not_ws c Hc). cbn [snd starts_lbrace].
    destruct c as [b0 b1 b2 b3 b4 b5 b6 b7]. clear -Hc.
    destruct b0, b1, b2, b3, b4, b5, b6, b7; vm_compute in Hc |- *; congruence.
Qed.

(* after a proper prefix of the name the next character is a word character: no blank, no boundary *)
Lemma after_var_word c t : is_word c = true -> after_var (c :: t) = false.
Proof. intros H. unfold after_var. cbn [run]. rewrite (word_not_ws c H). now destruct (run is_wdh (c :: t)). Qed.
Lemma after_node_word c t : is_word c = true -> after_node (c :: t) = false.
Proof. intros H. unfold after_node. cbn [run]. rewrite (word_not_ws c H). now destruct (run is_wh (c :: t)). Qed.
Lemma after_kw_word c t : is_word c = true -> after_kw (c :: t) = false.
Proof. intros H. unfold after_kw. now rewrite (word_identc c H). Qed.

Section NamePositions.
Variables (n r : str) (l : option ascii) (k : nat).
Hypothesis Hid : ident n.
Hypothesis Hk : k < List.length n.

Lemma inner_lookbehind : k <> 0 -> lookbehind_ok (prev_at l n k) = false.
Proof.
  intros Hk0. destruct k as [|k']; [contradiction|]. simpl.
  destruct Hid as [_ Hw]. rewrite (word_wh _ (nth_word n k' Hw ltac:(lia))). reflexivity.
Qed.
Lemma inner_boundary : k <> 0 ->
  match prev_at l n k with None => true | Some c => negb (is_identc c) end = false.
Proof.
  intros Hk0. destruct k as [|k']; [contradiction|]. simpl.
  destruct Hid as [_ Hw]. rewrite (word_identc _ (nth_word n k' Hw ltac:(lia))). reflexivity.
Qed.

Lemma at_start kw (after : str -> bool) :
  forallb is_word kw = true ->
  match r with [] => True | c :: _ => is_word c = false end ->
  after r = false -> (forall c t, is_word c = true -> after (c :: t) = false) ->
  match strip_prefix kw (n ++ r) with Some rest => after rest | None => false end = false.
Proof.
  intros Hkw Hr Har Haw. destruct (strip_prefix kw (n ++ r)) as [rest|] eqn:E; [|reflexivity].
  destruct Hid as [_ Hw].
  destruct (strip_prefix_name kw n r rest Hkw Hw Hr E) as [n' [E1 E2]]. subst rest.
  destruct n' as [|c n'']; [exact Har|].
  simpl. apply Haw. subst n. rewrite forallb_app in Hw. apply andb_true_iff in Hw. destruct Hw as [_ Hw].
  simpl in Hw. now apply andb_true_iff in Hw.
Qed.
End NamePositions.

Lemma bif_names_not_headers n r l k :
  ident n -> bif_ctx r -> k < List.length n ->
  var_hdr_at (prev_at l n k) (skipn k n ++ r) = false /\
  kw_num_at (S_ "table") (prev_at l n k) (skipn k n ++ r) = false /\
  kw_num_at (S_ "default") (prev_at l n k) (skipn k n ++ r) = false.
Proof.
  intros Hid Hc Hk. destruct (Nat.eq_dec k 0) as [->|Hk0].
  - simpl skipn. destruct (bif_ctx_after r Hc) as [Hv Hkw]. pose proof (bif_ctx_head r Hc) as Hh.
    unfold var_hdr_at, kw_num_at.
    rewrite (at_start n r 0 Hid Hk (S_ "variable") after_var), (at_start n r 0 Hid Hk (S_ "table") after_kw),
            (at_start n r 0 Hid Hk (S_ "default") after_kw);
      try reflexivity; try assumption; try apply after_var_word; try apply after_kw_word.
    rewrite !andb_false_r. auto.
  - unfold var_hdr_at, kw_num_at.
    rewrite (inner_lookbehind n l k Hid Hk Hk0), (inner_boundary n l k Hid Hk Hk0). auto.
Qed.

Lemma net_names_not_declarations n r l k :
  ident n -> net_ctx r -> k < List.length n ->
  node_decl_at (prev_at l n k) (skipn k n ++ r) = false.
Proof.
  intros Hid Hc Hk. destruct (Nat.eq_dec k 0) as [->|Hk0].
  - simpl skipn. unfold node_decl_at.
    rewrite (at_start n r 0 Hid Hk (S_ "node") after_node); try reflexivity.
    + apply andb_false_r.
    + now apply net_ctx_head.
    + now apply net_ctx_after.
    + apply after_node_word.
  - unfold node_decl_at. now rewrite (inner_lookbehind n l k Hid Hk Hk0).
Qed.

(* BIFReader.probability_block   re  probability\s*\(   -- no look-behind, so every offset inside a name counts *)
Definition is_lpar (c : ascii) : bool := N.eqb (code c) 40.
Definition after_prob (r : str) : bool :=
  match snd (run is_ws r) with c :: _ => is_lpar c | [] => false end.
Definition prob_hdr_at (s : str) : bool :=
  match strip_prefix (S_ "probability") s with Some r => after_prob r | None => false end.

Lemma forallb_skipn {X} (p : X -> bool) k (l : list X) : forallb p l = true -> forallb p (skipn k l) = true.
Proof.
  revert l. induction k as [|k IH]; intros [|x l] H; simpl in *; auto.
  apply andb_true_iff in H. now apply IH.
Qed.

Lemma after_prob_word c t : is_word c = true -> after_prob (c :: t) = false.
Proof.
  intros H. unfold after_prob. cbn [run]. rewrite (word_not_ws c H). cbn [snd].
  destruct c as [b0 b1 b2 b3 b4 b5 b6 b7]. clear -H.
  destruct b0, b1, b2, b3, b4, b5, b6, b7; vm_compute in H |- *; congruence.
Qed.

Lemma bif_names_not_probability_headers n r k :
  ident n -> bif_ctx r -> k < List.length n -> prob_hdr_at (skipn k n ++ r) = false.
Proof.
  intros [Hne Hw] Hc Hk. unfold prob_hdr_at.
  assert (Hid' : ident (skipn k n)).
  { split; [|now apply forallb_skipn]. intros E. apply (f_equal (@List.length ascii)) in E.
    rewrite skipn_length in E. simpl in E. lia. }
  assert (Hk' : 0 < List.length (skipn k n)) by (rewrite skipn_length; lia).
  apply (at_start (skipn k n) r 0 Hid' Hk' (S_ "probability") after_prob); try reflexivity.
  - now apply bif_ctx_head.
  - destruct Hc; reflexivity.
  - apply after_prob_word.
Qed.

Example prob_header_matches : prob_hdr_at (S_ "probability ( probability | xprobability ) {") = true.
Proof. reflexivity. Qed.

(* ---------------------------------------------------------------- sanity: real declarations DO match, and the
   pre-repair recognisers are refuted by the names of the repaired findings *)
Example var_decl_matches : var_hdr_at None (S_ "variable variable {") = true.
Proof. reflexivity. Qed.
Example node_decl_matches : node_decl_at (Some "010"%char) (S_ "node node{") = true.
Proof. reflexivity. Qed.
Example table_line_matches : kw_num_at (S_ "table") (Some " "%char) (S_ "table 0.5, 0.5 ;") = true.
Proof. reflexivity. Qed.
Example ident_xvariable : ident (S_ "xvariable") /\ bif_ctx (S_ " ) {").
Proof. split; [split; [discriminate|reflexivity]|apply (bc_close (S_ "{"))]. Qed.
Example ident_node_ctx : ident (S_ "node") /\ net_ctx (S_ " b){").
Proof.
  split; [split; [discriminate|reflexivity]|].
  apply (nc_mid_last (S_ "b") (S_ "{")). split; [discriminate|reflexivity].
Qed.
Lemma old_var_header_refuted : old_var_hdr_at (skipn 1 (S_ "xvariable") ++ S_ " ) {") = true.
Proof. reflexivity. Qed.
Lemma old_table_keyword_refuted : old_kw_num_at (S_ "table") (S_ "table1" ++ S_ ", ") = true.
Proof. reflexivity. Qed.
Lemma old_node_keyword_refuted : old_node_decl_at (skipn 1 (S_ "xnode") ++ S_ " b){") = true.
Proof. reflexivity. Qed.
