(* C09 entry points for the extracted driver.  Values travel as integers (the harness sends the POSITION of
   each table entry in pgmpy's own flat layout; the layout functions are parametric in the value type, so the
   reply says where every original entry ends up).  NET rounding is applied by the harness (rnd = identity here). *)
From Coq Require Import List Bool Arith ZArith.
From PV Require Import Base.Sx C09.RavelLocal C09.Model.
Import ListNotations.

Definition dZ : Z := (-1)%Z.

Definition dec_cpd (s : sx) : option (cpd Z) :=
  match s with
  | SL [sc; ss; sp; st] =>
      match sx_nat sc, sx_list sx_nat ss, sx_list (sx_pair sx_nat (sx_list sx_nat)) sp, sx_list sx_Z st with
      | Some c, Some cs, Some ps, Some t => Some {| child := c; cstates := cs; parents := ps; table := t |}
      | _, _, _, _ => None
      end
  | _ => None
  end.
Definition dec_bn (s : sx) : option (bn Z) := sx_list dec_cpd s.

Definition of_Z (z : Z) : sx := SZ z.
Definition of_nats (l : list nat) : sx := of_list of_nat l.
Definition of_Zs (l : list Z) : sx := of_list of_Z l.
Definition of_cpd (c : cpd Z) : sx :=
  SL [of_nat (child c); of_nats (cstates c);
      of_list (fun p => SL [of_nat (fst p); of_nats (snd p)]) (parents c); of_Zs (table c)].
Definition of_obn (o : option (bn Z)) : sx := of_option (of_list of_cpd) o.
Definition of_vars (l : list (var * list state)) : sx := of_list (fun p => SL [of_nat (fst p); of_nats (snd p)]) l.

Definition of_bif_prob (p : bif_prob Z) : sx :=
  match bp_body p with
  | BTable vals => SL [of_nat (bp_child p); of_nats (bp_parents p); SZ 0; of_Zs vals]
  | BRows rows => SL [of_nat (bp_child p); of_nats (bp_parents p); SZ 1;
                      of_list (fun r => SL [of_nats (fst r); of_Zs (snd r)]) rows]
  end.

(* model -> [[variable blocks; probability blocks]; read-back model] *)
Definition run_c09_bif (s : sx) : sx :=
  match dec_bn s with
  | Some m => let doc := bif_write dZ m in
              sx_ok (SL [SL [of_vars (bd_vars doc); of_list of_bif_prob (bd_probs doc)]; of_obn (bif_read dZ doc)])
  | None => bad_request
  end.

Definition run_c09_xmlbif (s : sx) : sx :=
  match dec_bn s with
  | Some m => let doc := xml_write dZ m in
              sx_ok (SL [SL [of_vars (xd_vars doc);
                             of_list (fun x => SL [of_nat (xd_child x); of_nats (xd_parents x); of_Zs (xd_table x)])
                                     (xd_defs doc)];
                         of_obn (xml_read dZ doc)])
  | None => bad_request
  end.

Definition run_c09_net (s : sx) : sx :=
  match dec_bn s with
  | Some m => let doc := net_write dZ (fun z => z) m in
              sx_ok (SL [SL [of_vars (nd_vars doc);
                             of_list (fun x => SL [of_nat (np_child x); of_nats (np_parents x); of_Zs (np_data x)])
                                     (nd_pots doc)];
                         of_obn (net_read dZ doc)])
  | None => bad_request
  end.

Definition of_uai_doc (doc : uai_doc Z) : sx :=
  SL [of_nats (ud_domain doc); of_list of_nats (ud_funcs doc); of_list of_Zs (ud_tables doc)].

(* model -> [[domain; scopes; tables]; read-back model; numbering as (name, number) pairs] *)
Definition run_c09_uai (s : sx) : sx :=
  match dec_bn s with
  | Some m => let doc := uai_write m in
              let vs := uai_variables (uai_domain_bn m) in
              sx_ok (SL [of_uai_doc doc; of_obn (uai_read doc);
                         of_list (fun c => SL [of_nat (child c); of_nat (uai_num vs (child c))]) m])
  | None => bad_request
  end.

Definition dec_factor (s : sx) : option (factor Z) :=
  match s with
  | SL [sc; st] =>
      match sx_list (sx_pair sx_nat sx_nat) sc, sx_list sx_Z st with
      | Some sc', Some t => Some {| fscope := sc'; fvalues := t |}
      | _, _ => None
      end
  | _ => None
  end.
Definition of_factor (f : factor Z) : sx :=
  SL [of_list (fun p => SL [of_nat (fst p); of_nat (snd p)]) (fscope f); of_Zs (fvalues f)].

(* factors -> [[domain; scopes; tables]; read-back factors; numbering] *)
Definition run_c09_uai_mn (s : sx) : sx :=
  match sx_list dec_factor s with
  | Some m => let doc := uai_write_mn m in
              let vs := uai_variables (uai_domain_mn m) in
              sx_ok (SL [of_uai_doc doc; of_option (of_list of_factor) (uai_read_mn doc);
                         of_list (fun p => SL [of_nat (fst p); of_nat (uai_num vs (fst p))]) (uai_domain_mn m)])
  | None => bad_request
  end.

(* [ext; filetype] -> [format written by save or []; format parsed by load or []] *)
Definition run_c09_dispatch (s : sx) : sx :=
  match s with
  | SL [se; sf] =>
      match sx_nat se, sx_nat sf with
      | Some e, Some f => sx_ok (SL [of_option of_nat (save_format e f); of_option of_nat (load_format e f)])
      | _, _ => bad_request
      end
  | _ => bad_request
  end.
