(* C09: the final lemmas behind Props.v (same statements).
   A model is a list of CPDs (Model.v): child, the child's state names, ordered parents with their state
   names, flat table in C order of (child, parents...).  Variables = the children, edges = (parent, child).
   [models_related R m m']: same number of CPDs and every CPD of one side has an R-related CPD on the other.
   [same_cpd]: same child, same state names, same ordered parents with the same state names (hence same edges),
   and the same value for EVERY named assignment (child state, parent states) — for any number, order and
   cardinalities of parents. *)
From Coq Require Import List Arith Bool PeanoNat.
From Coq Require Import QArith Qabs Sorting.Sorted Ascii.
From PV Require Import C09.RavelLocal C09.Model C09.Proofs C09.Tokens C09.Proofs2 C09.Round C09.Names.
Import ListNotations.
Close Scope Q_scope.

(* BIF: reading back what BIFWriter lays out returns the same model.  Needs distinct state names per variable:
   the reader finds the row of a parent configuration by its tuple of state NAMES. *)
Lemma bif_layout_roundtrip_l : forall (A : Type) (d : A) (m : bn A),
  wf_bn m -> (forall c, In c m -> Forall (@NoDup state) (pstates c)) ->
  exists m', bif_read d (bif_write d m) = Some m' /\ models_related (same_cpd d) m m'.
Proof.
  intros A d m Hwf Hnd. eexists. split; [apply bif_roundtrip; assumption|].
  rewrite <- (map_id (sort_by _ m)). apply related_sorted_map. intros c _. apply same_cpd_refl.
Qed.

(* XMLBIF: column-major text, order="F" reshape *)
Lemma xmlbif_layout_roundtrip_l : forall (A : Type) (d : A) (m : bn A),
  wf_bn m -> (forall c, In c m -> 0 < ccard c) ->
  exists m', xml_read d (xml_write d m) = Some m' /\ models_related (same_cpd d) m m'.
Proof.
  intros A d m Hwf Hpos. eexists. split; [apply xml_roundtrip; assumption|].
  rewrite <- (map_id (sort_by _ m)). apply related_sorted_map. intros c _. apply same_cpd_refl.
Qed.

(* UAI (Bayesian): variables are renamed to their position in the (str(card), name) sort, states are positional;
   every CPD comes back with the same cardinalities, parents in the same order and the same entry for every
   assignment *)
Lemma uai_layout_roundtrip_l : forall (A : Type) (d : A) (m : bn A),
  wf_bn m ->
  exists m', uai_read (uai_write m) = Some m' /\
    models_related (same_cpd_numbered d (uai_num (uai_variables (uai_domain_bn m)))) m m'.
Proof.
  intros A d m Hwf. eexists. split; [apply uai_roundtrip; assumption|].
  apply related_sorted_map. intros c _. apply same_cpd_numbered_ok.
Qed.

(* NET: moveaxis(0,-1) on writing, reshape(P, card).T on reading; every entry comes back rounded by [rnd] *)
Lemma net_layout_roundtrip_l : forall (A : Type) (d : A) (rnd : A -> A) (m : bn A),
  wf_bn m ->
  exists m', net_read d (net_write d rnd m) = Some m' /\ models_related (same_cpd_rounded d rnd) m m'.
Proof.
  intros A d rnd m Hwf. eexists. split; [apply net_roundtrip; assumption|].
  apply related_sorted_map. intros c _. apply same_cpd_rounded_ok.
Qed.

(* the UAI numbering (sort on (str(card), name), "10" < "2") is a bijection between the model's variables and
   0..n-1, and the domain line carries each variable's cardinality at its number *)
Lemma uai_variable_numbering_l : forall (A : Type) (m : bn A),
  NoDup (map (@child A) m) ->
  let vs := uai_variables (uai_domain_bn m) in
  length vs = length m /\
  (forall c, In c m -> uai_num vs (child c) < length m /\
                       nth (uai_num vs (child c)) (map fst vs) 0 = child c /\
                       nth (uai_num vs (child c)) (map snd vs) 0 = ccard c) /\
  (forall c1 c2, In c1 m -> In c2 m -> uai_num vs (child c1) = uai_num vs (child c2) -> c1 = c2) /\
  (forall i, i < length m -> exists c, In c m /\ uai_num vs (child c) = i).
Proof. intros A m. exact (uai_numbering m). Qed.

(* token layer, finite shape description: every repr(float) shape of a finite non-negative value with at most
   24 integer / 24 fraction digits and a 2..4 digit exponent is accepted by all four readers' number grammars *)
Lemma number_grammars_upto24_l : forall s, shape_within 24 s ->
  uai_ok (render s) = true /\ bif_net_ok (render s) = true /\ xmlbif_ok (render s) = true.
Proof. exact number_grammars_upto24. Qed.


(* UAI (Markov network): the factors come back in the same order, each with its scope renamed by the numbering
   (same cardinalities, same order) and the same values in the same order; the numbering is injective on the
   variables that occur *)
Lemma uai_markov_roundtrip_l : forall (A : Type) (m : mn A), wf_mn m ->
  let num := uai_num (uai_variables (uai_domain_mn m)) in
  uai_read_mn (uai_write_mn m) = Some (map (renum_factor num) m) /\
  (forall v1 c1 v2 c2, In (v1, c1) (scope_pairs m) -> In (v2, c2) (scope_pairs m) -> num v1 = num v2 -> v1 = v2).
Proof.
  intros A m Hwf num. split; [now apply uai_mn_roundtrip|]. intros v1 c1 v2 c2. now apply uai_mn_num_inj.
Qed.

(* the numbered variable list IS sorted by (str(card), name): every earlier entry is <= every later one, where
   str(card) is the decimal digit list compared as python compares strings ("10" < "2") -- Model.uai_key_leb *)
Lemma uai_variable_numbering_sorted_l : forall dom : list (var * nat),
  StronglySorted (fun a b => uai_key_leb a b = true) (uai_variables dom) /\
  (forall a b, uai_key_leb a b = true <->
      (digits (snd a) = digits (snd b) /\ fst a <= fst b) \/
      (digits (snd a) <> digits (snd b) /\ lex_leb (digits (snd a)) (digits (snd b)) = true)).
Proof.
  intros dom. split; [apply uai_variables_sorted|]. intros a b. unfold uai_key_leb.
  destruct (list_eqb (digits (snd a)) (digits (snd b))) eqn:E.
  - apply list_eqb_eq in E. rewrite PeanoNat.Nat.leb_le. split; [intros H; left; auto|].
    intros [[_ H]|[H _]]; [exact H|contradiction].
  - apply list_eqb_false in E. split; [intros H; right; auto|].
    intros [[H _]|[_ H]]; [contradiction|exact H].
Qed.

(* NET, explicit: reading back what NETWriter lays out gives exactly the model (CPDs in name order) with every
   table entry replaced by its rounding *)
Lemma net_roundtrip_explicit_l : forall (A : Type) (d : A) (rnd : A -> A) (m : bn A), wf_bn m ->
  net_read d (net_write d rnd m) = Some (map (rounded rnd) (sort_by (@child_leb A) m)) /\
  (forall c, table (rounded rnd c) = map rnd (table c) /\ child (rounded rnd c) = child c /\
             cstates (rounded rnd c) = cstates c /\ parents (rounded rnd c) = parents c).
Proof.
  intros A d rnd m Hwf. split; [now apply net_roundtrip|]. intros c. repeat split.
Qed.

(* the concrete rounding (numpy round(x, 4): half to even on x * 10^4) over exact rationals moves a value by at
   most 0.5e-4 *)
Lemma net_round4_error_l : forall x : Q, (Qabs (round4 x - x) <= 1 # 20000)%Q.
Proof.
  exact round4_error.
Qed.

(* token layer, names (BIF, after the repairs): at no offset k inside an identifier-like name n written at any of
   BIFWriter's name positions (right context r, left neighbour l) does the variable-block regex or the
   table/default keyword + number match -- whether n equals a keyword, contains one or not *)
Lemma bif_names_not_headers_l : forall (n r : str) (l : option ascii) (k : nat),
  ident n -> bif_ctx r -> k < List.length n ->
  var_hdr_at (prev_at l n k) (skipn k n ++ r) = false /\
  kw_num_at kw_table (prev_at l n k) (skipn k n ++ r) = false /\
  kw_num_at kw_default (prev_at l n k) (skipn k n ++ r) = false.
Proof.
  exact bif_names_not_headers.
Qed.

(* token layer, names (NET, after the repairs): no identifier-like name at any of NETWriter's name positions is
   taken for a node declaration *)
Lemma net_names_not_declarations_l : forall (n r : str) (l : option ascii) (k : nat),
  ident n -> net_ctx r -> k < List.length n ->
  node_decl_at (prev_at l n k) (skipn k n ++ r) = false.
Proof.
  exact net_names_not_declarations.
Qed.

(* ... nor does the probability-block regex (which has no look-behind) match at any offset inside a name *)
Lemma bif_names_not_probability_headers_l : forall (n r : str) (k : nat),
  ident n -> bif_ctx r -> k < List.length n -> prob_hdr_at (skipn k n ++ r) = false.
Proof. exact bif_names_not_probability_headers. Qed.

(* save / load: for EVERY (extension, filetype) pair, save writes the format that load with the same arguments
   parses (or save writes nothing and load returns None); a recognised extension overrides the filetype in both *)
Lemma save_load_same_format_l : forall ext ft : nat,
  save_format ext ft = load_format ext ft /\
  (supported ext = true -> save_format ext ft = Some ext) /\
  (supported ext = false -> save_format ext ft = if supported ft then Some ft else None).
Proof.
  intros ext ft. unfold save_format, load_format, supported. split; [reflexivity|].
  split; intros H; rewrite H.
  - apply PeanoNat.Nat.ltb_lt in H.
    destruct ext as [|[|[|e]]]; try reflexivity. exfalso. apply (PeanoNat.Nat.lt_irrefl 3).
    eapply PeanoNat.Nat.le_lt_trans; [|exact H]. do 3 apply le_n_S. apply PeanoNat.Nat.le_0_l.
  - destruct ft as [|[|[|f]]]; reflexivity.
Qed.

(* token layer, exponent sign: the UAI reader's float token consumes the WHOLE printed token for both exponent
   signs ('8.659340042399374e+16' as well as '1e-05'); a token grammar without the explicit '+' accepts a printed
   shape exactly when it has no '+' exponent, i.e. it cuts every value >= 1e16 after the mantissa *)
Lemma uai_plus_exponent_upto24_l : forall s, shape_within 24 s ->
  uai_ok (render s) = true /\ uai_noplus_ok (render s) = negb (has_plus_exponent s).
Proof. exact plus_exponent_upto24. Qed.

(* round_values (BIFWriter / UAIWriter): the writers round every entry before the layout, so what is read back is
   exactly the model with every table entry replaced by its rounding (UAI: renamed by the numbering) *)
Lemma round_values_roundtrip_l : forall (A : Type) (d : A) (rnd : A -> A) (m : bn A),
  wf_bn m -> (forall c, In c m -> Forall (@NoDup state) (pstates c)) ->
  bif_read d (bif_write d (map (rounded rnd) m)) = Some (sort_by (@child_leb A) (map (rounded rnd) m)) /\
  uai_read (uai_write (map (rounded rnd) m))
  = Some (map (renum (uai_num (uai_variables (uai_domain_bn (map (rounded rnd) m)))))
              (sort_by (@child_leb A) (map (rounded rnd) m))).
Proof.
  intros A d rnd m Hwf Hnd. pose proof (wf_bn_rounded rnd m Hwf) as Hwf'. split.
  - apply bif_roundtrip; [exact Hwf'|]. intros c' Hc'. apply in_map_iff in Hc'. destruct Hc' as [c [E Hc]]. subst c'.
    apply (Hnd c Hc).
  - now apply uai_roundtrip.
Qed.
