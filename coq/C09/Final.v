(* C09: the final lemmas behind Props.v (same statements).
   A model is a list of CPDs (Model.v): child, the child's state names, ordered parents with their state
   names, flat table in C order of (child, parents...).  Variables = the children, edges = (parent, child).
   [models_related R m m']: same number of CPDs and every CPD of one side has an R-related CPD on the other.
   [same_cpd]: same child, same state names, same ordered parents with the same state names (hence same edges),
   and the same value for EVERY named assignment (child state, parent states) — for any number, order and
   cardinalities of parents. *)
From Coq Require Import List Arith Bool PeanoNat.
From PV Require Import C09.RavelLocal C09.Model C09.Proofs C09.Tokens.
Import ListNotations.

(* BIF: reading back what BIFWriter lays out returns the same model.  Needs distinct state names per variable:
   the reader finds the row of a parent configuration by its tuple of state NAMES. *)
Lemma bif_layout_roundtrip_l : forall (A : Type) (d : A) (m : bn A),
  wf_bn m -> (forall c, In c m -> Forall (@NoDup state) (pstates c)) ->
  exists m', bif_read d (bif_write d m) = Some m' /\ models_related (same_cpd d) m m'.
Proof.
  intros A d m Hwf Hnd. eexists. split; [apply bif_roundtrip; assumption|].
  rewrite <- (map_id (sort_by _ m)). apply related_sorted_map. intros c _. apply same_cpd_refl.
Qed.

(* XMLBIF: column-major text, order="F" reshape *)
Lemma xmlbif_layout_roundtrip_l : forall (A : Type) (d : A) (m : bn A),
  wf_bn m -> (forall c, In c m -> 0 < ccard c) ->
  exists m', xml_read d (xml_write d m) = Some m' /\ models_related (same_cpd d) m m'.
Proof.
  intros A d m Hwf Hpos. eexists. split; [apply xml_roundtrip; assumption|].
  rewrite <- (map_id (sort_by _ m)). apply related_sorted_map. intros c _. apply same_cpd_refl.
Qed.

(* UAI (Bayesian): variables are renamed to their position in the (str(card), name) sort, states are positional;
   every CPD comes back with the same cardinalities, parents in the same order and the same entry for every
   assignment *)
Lemma uai_layout_roundtrip_l : forall (A : Type) (d : A) (m : bn A),
  wf_bn m ->
  exists m', uai_read (uai_write m) = Some m' /\
    models_related (same_cpd_numbered d (uai_num (uai_variables (uai_domain_bn m)))) m m'.
Proof.
  intros A d m Hwf. eexists. split; [apply uai_roundtrip; assumption|].
  apply related_sorted_map. intros c _. apply same_cpd_numbered_ok.
Qed.

(* NET: moveaxis(0,-1) on writing, reshape(P, card).T on reading; every entry comes back rounded by [rnd] *)
Lemma net_layout_roundtrip_l : forall (A : Type) (d : A) (rnd : A -> A) (m : bn A),
  wf_bn m ->
  exists m', net_read d (net_write d rnd m) = Some m' /\ models_related (same_cpd_rounded d rnd) m m'.
Proof.
  intros A d rnd m Hwf. eexists. split; [apply net_roundtrip; assumption|].
  apply related_sorted_map. intros c _. apply same_cpd_rounded_ok.
Qed.

(* the UAI numbering (sort on (str(card), name), "10" < "2") is a bijection between the model's variables and
   0..n-1, and the domain line carries each variable's cardinality at its number *)
Lemma uai_variable_numbering_l : forall (A : Type) (m : bn A),
  NoDup (map (@child A) m) ->
  let vs := uai_variables (uai_domain_bn m) in
  length vs = length m /\
  (forall c, In c m -> uai_num vs (child c) < length m /\
                       nth (uai_num vs (child c)) (map fst vs) 0 = child c /\
                       nth (uai_num vs (child c)) (map snd vs) 0 = ccard c) /\
  (forall c1 c2, In c1 m -> In c2 m -> uai_num vs (child c1) = uai_num vs (child c2) -> c1 = c2) /\
  (forall i, i < length m -> exists c, In c m /\ uai_num vs (child c) = i).
Proof. intros A m. exact (uai_numbering m). Qed.

(* token layer, finite shape description: every repr(float) shape of a finite non-negative value with at most
   24 integer / 24 fraction digits and a 2..4 digit exponent is accepted by all four readers' number grammars *)
Lemma number_grammars_upto24_l : forall s, shape_within 24 s ->
  uai_ok (render s) = true /\ bif_net_ok (render s) = true /\ xmlbif_ok (render s) = true.
Proof. exact number_grammars_upto24. Qed.

