(* C09 proofs: per-format layout round trips. *)
From Coq Require Import List Arith Bool PeanoNat Lia Permutation.
From PV Require Import C09.RavelLocal C09.Model.
Import ListNotations.

(* ---------------------------------------------------------------- generic lemmas *)
Lemma otraverse_map {X Y} (f : X -> option Y) (g : X -> Y) l :
  (forall x, In x l -> f x = Some (g x)) -> otraverse f l = Some (map g l).
Proof.
  induction l as [|x l IH]; intros H; simpl; [reflexivity|].
  rewrite (H x) by (now left). rewrite IH; [reflexivity|]. intros y Hy. apply H. now right.
Qed.

Lemma insert_by_perm {X} (leb : X -> X -> bool) x l : Permutation (insert_by leb x l) (x :: l).
Proof.
  induction l as [|y l IH]; simpl; [reflexivity|].
  destruct (leb x y); [reflexivity|]. rewrite IH. apply perm_swap.
Qed.
Lemma sort_by_perm {X} (leb : X -> X -> bool) l : Permutation (sort_by leb l) l.
Proof.
  induction l as [|x l IH]; simpl; [constructor|]. rewrite insert_by_perm. now constructor.
Qed.

Lemma lookup_in_nodup {B} (l : list (nat * B)) k b :
  NoDup (map fst l) -> In (k, b) l -> lookup k l = Some b.
Proof.
  induction l as [|[k' b'] l IH]; simpl; intros Hnd Hin; [contradiction|].
  inversion Hnd as [|? ? Hni Hnd']; subst.
  destruct Hin as [E|Hin].
  - inversion E; subst. now rewrite Nat.eqb_refl.
  - destruct (Nat.eqb k k') eqn:Ek.
    + apply Nat.eqb_eq in Ek. subst. exfalso. apply Hni. apply (in_map fst) in Hin. exact Hin.
    + now apply IH.
Qed.

Lemma list_eqb_eq a b : list_eqb a b = true <-> a = b.
Proof.
  revert b. induction a as [|x a IH]; intros [|y b]; simpl; split; intros H; try discriminate; auto.
  - apply andb_true_iff in H. destruct H as [H1 H2]. apply Nat.eqb_eq in H1. apply IH in H2. congruence.
  - inversion H; subst. rewrite Nat.eqb_refl. simpl. now apply IH.
Qed.

Lemma find_unique {B} (l : list (list nat * B)) key v :
  NoDup (map fst l) -> In (key, v) l ->
  find (fun r => list_eqb key (fst r)) l = Some (key, v).
Proof.
  induction l as [|[k' b'] l IH]; simpl; intros Hnd Hin; [contradiction|].
  inversion Hnd as [|? ? Hni Hnd']; subst.
  destruct Hin as [E|Hin].
  - inversion E; subst. assert (list_eqb key key = true) as -> by now apply list_eqb_eq. reflexivity.
  - destruct (list_eqb key k') eqn:Ek.
    + apply list_eqb_eq in Ek. subst. exfalso. apply Hni. apply (in_map fst) in Hin. exact Hin.
    + now apply IH.
Qed.

Lemma lookup_last_unique {B} (l : list (list nat * B)) key v :
  NoDup (map fst l) -> In (key, v) l -> lookup_last key l = Some v.
Proof.
  intros Hnd Hin. unfold lookup_last.
  rewrite (find_unique (rev l) key v); [reflexivity| |now apply in_rev in Hin].
  rewrite map_rev. apply NoDup_rev. exact Hnd.
Qed.

Lemma NoDup_map_inj_in {X Y} (f : X -> Y) l :
  (forall x y, In x l -> In y l -> f x = f y -> x = y) -> NoDup l -> NoDup (map f l).
Proof.
  induction l as [|x l IH]; intros Hinj Hnd; simpl; [constructor|].
  inversion Hnd as [|? ? Hni Hnd']; subst. constructor.
  - intros Hin. apply in_map_iff in Hin. destruct Hin as [y [Ey Hy]].
    assert (y = x) by (apply Hinj; [now right|now left|exact Ey]). subst. contradiction.
  - apply IH; [|exact Hnd']. intros a b Ha Hb. apply Hinj; now right.
Qed.

(* names picked by two valid multi-indices from duplicate-free state lists coincide only if the indices do *)
Lemma names_at_inj sts i1 i2 :
  Forall (@NoDup state) sts ->
  valid_idx (map (@length state) sts) i1 -> valid_idx (map (@length state) sts) i2 ->
  names_at sts i1 = names_at sts i2 -> i1 = i2.
Proof.
  intros Hnd. revert i1 i2. induction Hnd as [|s sts Hs Hnd IH]; intros i1 i2 H1 H2 E.
  - inversion H1; inversion H2; subst. reflexivity.
  - simpl in H1, H2. inversion H1 as [|a ? i1' ? Ha H1']; inversion H2 as [|b ? i2' ? Hb H2']; subst.
    simpl in E. inversion E as [[E1 E2]].
    f_equal.
    + apply (proj1 (NoDup_nth s 0) Hs); assumption.
    + apply IH; assumption.
Qed.

Lemma divmod_row k j c : c < k -> (j * k + c) mod k = c /\ (j * k + c) / k = j.
Proof.
  intros Hc. assert (Hk : k <> 0) by lia. split.
  - rewrite Nat.add_comm, Nat.mod_add by exact Hk. now apply Nat.mod_small.
  - rewrite Nat.div_add_l by exact Hk. rewrite Nat.div_small by exact Hc. lia.
Qed.

Lemma split_index k P i : i < k * P -> i / P < k /\ i mod P < P /\ i = (i / P) * P + i mod P.
Proof.
  intros Hi. assert (HP : P <> 0) by (intro E; subst; lia).
  pose proof (Nat.div_mod i P HP). pose proof (Nat.mod_upper_bound i P HP).
  repeat split; auto; try lia.
  apply Nat.div_lt_upper_bound; [exact HP|lia].
Qed.

Section Layout.
Context {A : Type}.
Variable d : A.
Variable rnd : A -> A.

(* ---------------------------------------------------------------- well-formed models *)
(* exactly what BayesianNetwork.check_model + TabularCPD guarantee, plus distinct state names *)
Definition wf_cpd (m : bn A) (c : cpd A) : Prop :=
  length (table c) = ccard c * prodl (pcards c) /\
  (forall p ss, In (p, ss) (parents c) -> exists c', In c' m /\ child c' = p /\ cstates c' = ss).
Definition wf_bn (m : bn A) : Prop :=
  NoDup (map (@child A) m) /\ forall c, In c m -> wf_cpd m c.
Definition distinct_states (m : bn A) : Prop := forall c, In c m -> NoDup (cstates c).

(* what a reader knows about a CPD's variables from the variable blocks *)
Definition blocks_ok (vs : list (var * list state)) (c : cpd A) : Prop :=
  lookup (child c) vs = Some (cstates c) /\
  forall p ss, In (p, ss) (parents c) -> lookup p vs = Some ss.

Lemma var_blocks_lookup (m : bn A) c :
  NoDup (map (@child A) m) -> In c m -> lookup (child c) (var_blocks m) = Some (cstates c).
Proof.
  intros Hnd Hin. apply lookup_in_nodup.
  - unfold var_blocks. rewrite map_map. simpl.
    apply (Permutation_NoDup (l := map (@child A) m)); [|exact Hnd].
    apply Permutation_map. symmetry. apply sort_by_perm.
  - unfold var_blocks. apply in_map_iff. exists c. split; [reflexivity|].
    apply (Permutation_in (l := m)); [symmetry; apply sort_by_perm|exact Hin].
Qed.

Lemma wf_blocks_ok (m : bn A) c : wf_bn m -> In c m -> blocks_ok (var_blocks m) c.
Proof.
  intros [Hnd Hwf] Hin. split.
  - now apply var_blocks_lookup.
  - intros p ss Hp. destruct (Hwf c Hin) as [_ Hpar].
    destruct (Hpar p ss Hp) as [c' [Hc' [E1 E2]]]. subst. now apply var_blocks_lookup.
Qed.

Lemma parents_rebuild vs (l : list (var * list state)) :
  (forall p ss, In (p, ss) l -> lookup p vs = Some ss) ->
  map (fun v => (v, states_of vs v)) (map fst l) = l.
Proof.
  induction l as [|[p ss] l IH]; intros H; simpl; [reflexivity|].
  unfold states_of at 1. rewrite (H p ss) by now left. f_equal. apply IH. intros q s Hq. apply H. now right.
Qed.

Lemma cpd_eta (c : cpd A) :
  {| child := child c; cstates := cstates c; parents := parents c; table := table c |} = c.
Proof. destruct c; reflexivity. Qed.

(* ---------------------------------------------------------------- BIF *)
Lemma bif_cpd_roundtrip vs (c : cpd A) :
  blocks_ok vs c -> length (table c) = ccard c * prodl (pcards c) ->
  Forall (@NoDup state) (pstates c) ->
  bif_read_prob d vs (bif_write_cpd d c) = Some c.
Proof.
  intros [Hc Hp] Hlen Hnd.
  unfold bif_read_prob, bif_write_cpd. cbn [bp_child bp_parents bp_body].
  assert (Hs : states_of vs (child c) = cstates c) by (unfold states_of; now rewrite Hc).
  unfold pvars. rewrite (parents_rebuild vs (parents c) Hp). rewrite !Hs.
  fold (pstates c). fold (pcards c). fold (ccard c).
  destruct (parents c) as [|p0 prest] eqn:Epar.
  - (* table branch *)
    rewrite Hlen. rewrite Nat.eqb_refl. rewrite <- Epar. f_equal. apply cpd_eta.
  - rewrite <- Epar in *. clear Epar p0 prest.
    set (P := prodl (pcards c)). set (k := ccard c).
    set (row := fun j => tabulate k (fun ci => nth (ci * P + j) (table c) d)).
    set (rows := tabulate P (fun j => (names_at (pstates c) (unravel (pcards c) j), row j))).
    assert (Hcols : otraverse (fun j => lookup_last (names_at (pstates c) (unravel (pcards c) j)) rows) (seq 0 P)
                    = Some (map row (seq 0 P))).
    { apply otraverse_map. intros j Hj. apply in_seq in Hj.
      apply lookup_last_unique.
      - unfold rows, tabulate. rewrite map_map. cbn [fst].
        apply NoDup_map_inj_in; [|apply seq_NoDup].
        intros x y Hx Hy E. apply in_seq in Hx. apply in_seq in Hy.
        apply (unravel_inj (pcards c)); try (fold P; lia).
        apply (names_at_inj (pstates c)); auto; apply unravel_valid; fold P; lia.
      - unfold rows, tabulate. apply in_map_iff. exists j. split; [reflexivity|]. apply in_seq. lia. }
    unfold rows, row in Hcols. rewrite Hcols. fold row.
    assert (Hall : forallb (fun col : list A => length col =? k) (map row (seq 0 P)) = true).
    { apply forallb_forall. intros col Hin. apply in_map_iff in Hin. destruct Hin as [j [E _]]. subst col.
      unfold row. rewrite tabulate_length. apply Nat.eqb_refl. }
    rewrite Hall. f_equal. etransitivity; [|apply cpd_eta]. f_equal.
    apply (tabulate_eq _ _ _ d); [exact Hlen|].
    intros i Hi. destruct (split_index k P i Hi) as [H1 [H2 H3]].
    change (map row (seq 0 P)) with (tabulate P row).
    rewrite (nth_tabulate P row) by exact H2. unfold row. rewrite nth_tabulate by exact H1.
    now rewrite <- H3.
Qed.

(* ---------------------------------------------------------------- XMLBIF *)
Lemma pcards_alt (c : cpd A) : map (fun p : var * list state => length (snd p)) (parents c) = pcards c.
Proof. unfold pcards, pstates. now rewrite map_map. Qed.

Lemma xml_cpd_roundtrip vs (c : cpd A) :
  blocks_ok vs c -> length (table c) = ccard c * prodl (pcards c) -> 0 < ccard c ->
  xml_read_def d vs (xml_write_cpd d c) = Some c.
Proof.
  intros [Hc Hp] Hlen Hk.
  unfold xml_read_def, xml_write_cpd. cbn [xd_child xd_parents xd_table].
  assert (Hs : states_of vs (child c) = cstates c) by (unfold states_of; now rewrite Hc).
  unfold pvars. rewrite (parents_rebuild vs (parents c) Hp). rewrite !Hs. rewrite tabulate_length.
  rewrite pcards_alt. fold (ccard c).
  set (P := prodl (pcards c)) in *. set (k := ccard c) in *.
  assert (Hdiv : k * P / k = P) by (rewrite Nat.mul_comm; apply Nat.div_mul; lia).
  rewrite Hdiv. rewrite !Nat.eqb_refl. simpl.
  f_equal. etransitivity; [|apply cpd_eta]. f_equal.
  apply (tabulate_eq _ _ _ d); [exact Hlen|].
  intros i Hi. destruct (split_index k P i Hi) as [H1 [H2 H3]].
  destruct (divmod_row k (i mod P) (i / P) H1) as [E1 E2].
  rewrite nth_tabulate by nia.
  rewrite E1, E2. now rewrite <- H3.
Qed.

(* ---------------------------------------------------------------- NET *)
Definition rounded (c : cpd A) : cpd A :=
  {| child := child c; cstates := cstates c; parents := parents c; table := map rnd (table c) |}.

Lemma last_to_front_snoc l x : last_to_front (l ++ [x]) = x :: l.
Proof. unfold last_to_front. now rewrite last_last, removelast_last. Qed.

Lemma net_cpd_roundtrip vs (c : cpd A) :
  blocks_ok vs c -> length (table c) = ccard c * prodl (pcards c) ->
  net_read_pot d vs (net_write_cpd d rnd c) = Some (rounded c).
Proof.
  intros [Hc Hp] Hlen.
  unfold net_read_pot, net_write_cpd. cbn [np_child np_parents np_data].
  assert (Hs : states_of vs (child c) = cstates c) by (unfold states_of; now rewrite Hc).
  unfold pvars. rewrite (parents_rebuild vs (parents c) Hp). rewrite !Hs. rewrite tabulate_length.
  rewrite pcards_alt. fold (ccard c). rewrite prodl_app. cbn [prodl]. rewrite Nat.mul_1_r.
  set (P := prodl (pcards c)) in *. set (k := ccard c) in *.
  rewrite Nat.eqb_refl. f_equal. unfold rounded. f_equal.
  apply (tabulate_eq _ _ _ (rnd d)); [rewrite map_length; exact Hlen|].
  intros i Hi. destruct (split_index k P i Hi) as [H1 [H2 H3]].
  rewrite nth_tabulate by nia.
  rewrite (unravel_snoc (pcards c) k (i mod P) (i / P)) by (fold P; lia).
  rewrite last_to_front_snoc. rewrite ravel_cons. fold P.
  rewrite ravel_unravel by (fold P; lia).
  rewrite <- H3. now rewrite map_nth.
Qed.

(* ---------------------------------------------------------------- model level: BIF / XMLBIF / NET *)
Lemma wf_sorted_blocks (m : bn A) c : wf_bn m -> In c (sort_by (@child_leb A) m) -> In c m.
Proof. intros _ H. apply (Permutation_in (l := sort_by (@child_leb A) m)); [apply sort_by_perm|exact H]. Qed.

Definition wf_cpd_full (m : bn A) (c : cpd A) : Prop :=
  wf_cpd m c /\ 0 < ccard c.

Lemma bif_roundtrip (m : bn A) :
  wf_bn m -> (forall c, In c m -> Forall (@NoDup state) (pstates c)) ->
  bif_read d (bif_write d m) = Some (sort_by (@child_leb A) m).
Proof.
  intros Hwf Hnd. unfold bif_read, bif_write. cbn [bd_vars bd_probs].
  assert (H : forall l, (forall c, In c l -> In c m) ->
              otraverse (bif_read_prob d (var_blocks m)) (map (bif_write_cpd d) l) = Some l).
  { induction l as [|c l IH]; intros Hl; simpl; [reflexivity|].
    rewrite bif_cpd_roundtrip.
    - rewrite IH; [reflexivity|]. intros c' Hc'. apply Hl. now right.
    - apply wf_blocks_ok; [exact Hwf|]. apply Hl. now left.
    - destruct Hwf as [_ Hw]. apply (Hw c). apply Hl. now left.
    - apply Hnd. apply Hl. now left. }
  apply H. intros c Hc. now apply wf_sorted_blocks.
Qed.

Lemma xml_roundtrip (m : bn A) :
  wf_bn m -> (forall c, In c m -> 0 < ccard c) ->
  xml_read d (xml_write d m) = Some (sort_by (@child_leb A) m).
Proof.
  intros Hwf Hpos. unfold xml_read, xml_write. cbn [xd_vars xd_defs].
  assert (H : forall l, (forall c, In c l -> In c m) ->
              otraverse (xml_read_def d (var_blocks m)) (map (xml_write_cpd d) l) = Some l).
  { induction l as [|c l IH]; intros Hl; simpl; [reflexivity|].
    rewrite xml_cpd_roundtrip.
    - rewrite IH; [reflexivity|]. intros c' Hc'. apply Hl. now right.
    - apply wf_blocks_ok; [exact Hwf|]. apply Hl. now left.
    - destruct Hwf as [_ Hw]. apply (Hw c). apply Hl. now left.
    - apply Hpos. apply Hl. now left. }
  apply H. intros c Hc. now apply wf_sorted_blocks.
Qed.

Lemma net_roundtrip (m : bn A) :
  wf_bn m ->
  net_read d (net_write d rnd m) = Some (map rounded (sort_by (@child_leb A) m)).
Proof.
  intros Hwf. unfold net_read, net_write. cbn [nd_vars nd_pots].
  assert (H : forall l, (forall c, In c l -> In c m) ->
              otraverse (net_read_pot d (var_blocks m)) (map (net_write_cpd d rnd) l) = Some (map rounded l)).
  { induction l as [|c l IH]; intros Hl; simpl; [reflexivity|].
    rewrite net_cpd_roundtrip.
    - rewrite IH; [reflexivity|]. intros c' Hc'. apply Hl. now right.
    - apply wf_blocks_ok; [exact Hwf|]. apply Hl. now left.
    - destruct Hwf as [_ Hw]. apply (Hw c). apply Hl. now left. }
  apply H. intros c Hc. now apply wf_sorted_blocks.
Qed.

(* ---------------------------------------------------------------- UAI *)
Lemma index_of_pairs (l : list (var * nat)) v k :
  NoDup (map fst l) -> In (v, k) l ->
  index_of v (map fst l) < length l /\ nth (index_of v (map fst l)) (map snd l) 0 = k
  /\ nth (index_of v (map fst l)) (map fst l) 0 = v.
Proof.
  induction l as [|[v' k'] l IH]; simpl; intros Hnd Hin; [contradiction|].
  inversion Hnd as [|? ? Hni Hnd']; subst.
  destruct (Nat.eqb v v') eqn:E.
  - apply Nat.eqb_eq in E. subst v'. destruct Hin as [Ein|Hin].
    + inversion Ein; subst. repeat split; auto; lia.
    + exfalso. apply Hni. apply (in_map fst) in Hin. exact Hin.
  - destruct Hin as [Ein|Hin].
    + inversion Ein; subst. rewrite Nat.eqb_refl in E. discriminate.
    + destruct (IH Hnd' Hin) as [H1 [H2 H3]]. repeat split; auto; lia.
Qed.

Definition renum (num : var -> nat) (c : cpd A) : cpd A :=
  {| child := num (child c); cstates := seq 0 (ccard c);
     parents := map (fun p => (num (fst p), seq 0 (length (snd p)))) (parents c);
     table := table c |}.

Lemma uai_domain_perm (m : bn A) :
  Permutation (uai_variables (uai_domain_bn m)) (map (fun c => (child c, ccard c)) m).
Proof.
  unfold uai_variables, uai_domain_bn. rewrite sort_by_perm. apply Permutation_map. apply sort_by_perm.
Qed.

Lemma uai_vars_nodup (m : bn A) : NoDup (map (@child A) m) -> NoDup (map fst (uai_variables (uai_domain_bn m))).
Proof.
  intros Hnd. apply (Permutation_NoDup (l := map (@child A) m)); [|exact Hnd].
  rewrite (Permutation_map fst (uai_domain_perm m)). rewrite map_map. simpl. reflexivity.
Qed.

Lemma uai_num_spec (m : bn A) c :
  NoDup (map (@child A) m) -> In c m ->
  let vs := uai_variables (uai_domain_bn m) in
  uai_num vs (child c) < length (map snd vs) /\ nth (uai_num vs (child c)) (map snd vs) 0 = ccard c
  /\ nth (uai_num vs (child c)) (map fst vs) 0 = child c.
Proof.
  intros Hnd Hin vs. unfold uai_num. rewrite map_length.
  apply index_of_pairs.
  - now apply uai_vars_nodup.
  - apply (Permutation_in (l := map (fun c => (child c, ccard c)) m)); [symmetry; apply uai_domain_perm|].
    apply in_map_iff. exists c. split; [reflexivity|exact Hin].
Qed.

Lemma uai_fun_roundtrip (m : bn A) c :
  wf_bn m -> In c m ->
  let vs := uai_variables (uai_domain_bn m) in
  uai_read_fun (map snd vs) (map (uai_num vs) (rev (pvars c)) ++ [uai_num vs (child c)]) (table c)
  = Some (renum (uai_num vs) c).
Proof.
  intros [Hnd Hwf] Hin vs. destruct (Hwf c Hin) as [Hlen Hpar].
  set (num := uai_num vs). set (dom := map snd vs).
  assert (Hch : num (child c) < length dom /\ nth (num (child c)) dom 0 = ccard c).
  { destruct (uai_num_spec m c Hnd Hin) as [H1 [H2 _]]. split; assumption. }
  assert (Hps : forall p ss, In (p, ss) (parents c) -> num p < length dom /\ nth (num p) dom 0 = length ss).
  { intros p ss Hp. destruct (Hpar p ss Hp) as [c' [Hc' [E1 E2]]]. subst p ss.
    destruct (uai_num_spec m c' Hnd Hc') as [H1 [H2 _]]. split; assumption. }
  unfold uai_read_fun.
  destruct (map num (rev (pvars c)) ++ [num (child c)]) as [|x0 l0] eqn:Escope.
  { exfalso. symmetry in Escope. revert Escope. apply app_cons_not_nil. }
  rewrite <- Escope. clear Escope x0 l0.
  rewrite last_last, removelast_last. rewrite <- map_rev, rev_involutive.
  destruct Hch as [Hch1 Hch2]. rewrite Hch2.
  assert (Hpc : map (fun p => nth p dom 0) (map num (pvars c)) = pcards c).
  { unfold pvars, pcards, pstates. rewrite !map_map. apply map_ext_in. intros [p ss] Hp. simpl.
    apply (Hps p ss Hp). }
  rewrite Hpc. rewrite Hlen, Nat.eqb_refl. simpl.
  assert (Hall : forallb (fun v => v <? length dom) (map num (rev (pvars c)) ++ [num (child c)]) = true).
  { apply forallb_forall. intros v Hv. apply Nat.ltb_lt. apply in_app_iff in Hv. destruct Hv as [Hv|[Hv|[]]].
    - apply in_map_iff in Hv. destruct Hv as [p [E Hp]]. subst v. apply in_rev in Hp.
      unfold pvars in Hp. apply in_map_iff in Hp. destruct Hp as [[p' ss] [E Hp]]. simpl in E. subst p'.
      apply (Hps p ss Hp).
    - subst v. exact Hch1. }
  rewrite Hall. f_equal. unfold renum. f_equal.
  unfold pvars. rewrite !map_map. apply map_ext_in. intros [p ss] Hp. simpl. f_equal. f_equal.
  apply (Hps p ss Hp).
Qed.

Lemma ozip_map {X Y Z} (f : X -> Y -> option Z) (g1 : Z -> X) (g2 : Z -> Y) (l : list Z) :
  (forall z, In z l -> f (g1 z) (g2 z) = Some z) -> ozip_with f (map g1 l) (map g2 l) = Some l.
Proof.
  induction l as [|z l IH]; intros H; simpl; [reflexivity|].
  rewrite (H z) by now left. rewrite IH; [reflexivity|]. intros y Hy. apply H. now right.
Qed.

Lemma ozip_map2 {X Y Z W} (f : X -> Y -> option Z) (g1 : W -> X) (g2 : W -> Y) (h : W -> Z) (l : list W) :
  (forall z, In z l -> f (g1 z) (g2 z) = Some (h z)) -> ozip_with f (map g1 l) (map g2 l) = Some (map h l).
Proof.
  induction l as [|z l IH]; intros H; simpl; [reflexivity|].
  rewrite (H z) by now left. rewrite IH; [reflexivity|]. intros y Hy. apply H. now right.
Qed.

Lemma uai_roundtrip (m : bn A) :
  wf_bn m ->
  uai_read (uai_write m)
  = Some (map (renum (uai_num (uai_variables (uai_domain_bn m)))) (sort_by (@child_leb A) m)).
Proof.
  intros Hwf. unfold uai_read, uai_write. cbn [ud_domain ud_funcs ud_tables].
  apply ozip_map2. intros c Hc. apply uai_fun_roundtrip; [exact Hwf|].
  now apply (wf_sorted_blocks m c Hwf).
Qed.

(* the numbering is a bijection between the model's variables and 0..n-1 *)
Lemma uai_numbering (m : bn A) :
  NoDup (map (@child A) m) ->
  let vs := uai_variables (uai_domain_bn m) in
  length vs = length m /\
  (forall c, In c m -> uai_num vs (child c) < length m /\
                       nth (uai_num vs (child c)) (map fst vs) 0 = child c /\
                       nth (uai_num vs (child c)) (map snd vs) 0 = ccard c) /\
  (forall c1 c2, In c1 m -> In c2 m -> uai_num vs (child c1) = uai_num vs (child c2) -> c1 = c2) /\
  (forall i, i < length m -> exists c, In c m /\ uai_num vs (child c) = i).
Proof.
  intros Hnd vs.
  assert (Hlen : length vs = length m).
  { unfold vs. rewrite (Permutation_length (uai_domain_perm m)). now rewrite map_length. }
  assert (Hspec : forall c, In c m -> uai_num vs (child c) < length m /\
                       nth (uai_num vs (child c)) (map fst vs) 0 = child c /\
                       nth (uai_num vs (child c)) (map snd vs) 0 = ccard c).
  { intros c Hc. destruct (uai_num_spec m c Hnd Hc) as [H1 [H2 H3]]. fold vs in H1, H2, H3.
    rewrite map_length, Hlen in H1. auto. }
  assert (Hchild_inj : forall c1 c2, In c1 m -> In c2 m -> child c1 = child c2 -> c1 = c2).
  { clear -Hnd. induction m as [|c m IH]; intros c1 c2 H1 H2 E; [contradiction|].
    simpl in Hnd. inversion Hnd as [|? ? Hni Hnd']; subst.
    destruct H1 as [H1|H1], H2 as [H2|H2]; subst; auto.
    - exfalso. apply Hni. rewrite E. now apply in_map.
    - exfalso. apply Hni. rewrite <- E. now apply in_map. }
  repeat split; auto.
  - apply (Hspec c H).
  - apply (Hspec c H).
  - apply (Hspec c H).
  - intros c1 c2 H1 H2 E. apply Hchild_inj; auto.
    destruct (Hspec c1 H1) as [_ [E1 _]]. destruct (Hspec c2 H2) as [_ [E2 _]]. rewrite <- E1, <- E2. now rewrite E.
  - intros i Hi.
    assert (Hin : In (nth i vs (0, 0)) vs) by (apply nth_In; lia).
    apply (Permutation_in _ (uai_domain_perm m)) in Hin. apply in_map_iff in Hin.
    destruct Hin as [c [E Hc]]. exists c. split; [exact Hc|].
    pose proof (uai_vars_nodup m Hnd) as Hndv. fold vs in Hndv.
    destruct (Hspec c Hc) as [Hlt [E1 _]].
    apply (proj1 (NoDup_nth (map fst vs) 0) Hndv); try (rewrite map_length; lia).
    rewrite E1. change 0 with (fst (0, 0)) at 1. rewrite map_nth. rewrite <- E. reflexivity.
Qed.

(* ---------------------------------------------------------------- observable statements *)
(* same child, same state names, same ordered parents with their state names (hence the same edges
   parent -> child), and the same value for EVERY named assignment *)
Definition same_cpd (c c' : cpd A) : Prop :=
  child c' = child c /\ cstates c' = cstates c /\ parents c' = parents c /\
  forall names, prob_named d c' names = prob_named d c names.
Definition same_cpd_rounded (c c' : cpd A) : Prop :=
  child c' = child c /\ cstates c' = cstates c /\ parents c' = parents c /\
  forall names, prob_named (rnd d) c' names = option_map rnd (prob_named d c names).
(* UAI: variables renamed to their numbers, states positional *)
Definition same_cpd_numbered (num : var -> nat) (c c' : cpd A) : Prop :=
  child c' = num (child c) /\ map fst (parents c') = map num (pvars c) /\
  cstates c' = seq 0 (ccard c) /\ pstates c' = map (seq 0) (pcards c) /\
  forall idx, valid_idx (ccard c :: pcards c) idx ->
    prob_named d c' idx = Some (nth (ravel (ccard c :: pcards c) idx) (table c) d).

Definition models_related (R : cpd A -> cpd A -> Prop) (m m' : bn A) : Prop :=
  length m' = length m /\
  (forall c, In c m -> exists c', In c' m' /\ R c c') /\
  (forall c', In c' m' -> exists c, In c m /\ R c c').

Lemma related_sorted_map (R : cpd A -> cpd A -> Prop) (f : cpd A -> cpd A) (m : bn A) :
  (forall c, In c m -> R c (f c)) -> models_related R m (map f (sort_by (@child_leb A) m)).
Proof.
  intros H. pose proof (sort_by_perm (@child_leb A) m) as Hp. repeat split.
  - rewrite map_length. now apply Permutation_length.
  - intros c Hc. exists (f c). split; [|now apply H]. apply in_map.
    apply (Permutation_in (l := m)); [now symmetry|exact Hc].
  - intros c' Hc'. apply in_map_iff in Hc'. destruct Hc' as [c [E Hc]]. subst c'.
    assert (In c m) by (apply (Permutation_in (l := sort_by (@child_leb A) m)); assumption).
    exists c. split; [assumption|now apply H].
Qed.

Lemma same_cpd_refl c : same_cpd c c.
Proof. repeat split; reflexivity. Qed.

Lemma same_cpd_rounded_ok c : same_cpd_rounded c (rounded c).
Proof.
  repeat split; try reflexivity. intros names. unfold prob_named, rounded, ccard, pcards, pstates.
  cbn [child cstates parents table].
  destruct (positions (cstates c :: map snd (parents c)) names); cbn [option_map]; [|reflexivity].
  now rewrite map_nth.
Qed.

Lemma index_of_seq a k i : i < k -> index_of (a + i) (seq a k) = i /\ existsb (Nat.eqb (a + i)) (seq a k) = true.
Proof.
  revert a i. induction k as [|k IH]; intros a i Hi; [lia|]. simpl.
  destruct i as [|i].
  - rewrite Nat.add_0_r, Nat.eqb_refl. auto.
  - assert (E : (a + S i =? a) = false) by (apply Nat.eqb_neq; lia). rewrite E. simpl.
    replace (a + S i) with (S a + i) by lia. destruct (IH (S a) i) as [H1 H2]; [lia|]. rewrite H1, H2. auto.
Qed.

Lemma positions_seq cards idx : valid_idx cards idx -> positions (map (seq 0) cards) idx = Some idx.
Proof.
  intros H. induction H as [|i c is_ cs Hic _ IH]; simpl; [reflexivity|].
  unfold pos_of. destruct (index_of_seq 0 c i Hic) as [H1 H2]. simpl in H1, H2. rewrite H1, H2, IH. reflexivity.
Qed.

Lemma same_cpd_numbered_ok num c : same_cpd_numbered num c (renum num c).
Proof.
  unfold same_cpd_numbered, renum. cbn [child cstates parents table].
  assert (Hps : pstates {| child := num (child c); cstates := seq 0 (ccard c);
                           parents := map (fun p => (num (fst p), seq 0 (length (snd p)))) (parents c);
                           table := table c |} = map (seq 0) (pcards c)).
  { unfold pcards, pstates. cbn [parents]. rewrite !map_map. reflexivity. }
  repeat split.
  - unfold pvars. rewrite !map_map. reflexivity.
  - exact Hps.
  - intros idx Hv. unfold prob_named. rewrite Hps. cbn [cstates].
    change (seq 0 (ccard c) :: map (seq 0) (pcards c)) with (map (seq 0) (ccard c :: pcards c)).
    rewrite (positions_seq _ _ Hv). f_equal. f_equal. f_equal. f_equal.
    + unfold ccard at 1. cbn [cstates]. now rewrite seq_length.
    + unfold pcards at 1. rewrite Hps. rewrite map_map. rewrite <- (map_id (pcards c)) at 2.
      apply map_ext. intros n. apply seq_length.
Qed.

End Layout.
