(* C09 proofs: per-format layout round trips. *)
From Coq Require Import List Arith Bool PeanoNat Lia Permutation.
From PV Require Import C09.RavelLocal C09.Model.
Import ListNotations.

(* ---------------------------------------------------------------- generic lemmas *)
Lemma otraverse_map {X Y} (f : X -> option Y) (g : X -> Y) l :
  (forall x, In x l -> f x = Some (g x)) -> otraverse f l = Some (map g l).
Proof.
  induction l as [|x l IH]; intros H; simpl; [reflexivity|].
  rewrite (H x) by (now left). rewrite IH; [reflexivity|]. intros y Hy. apply H. now right.
Qed.

Lemma insert_by_perm {X} (leb : X -> X -> bool) x l : Permutation (insert_by leb x l) (x :: l).
Proof.
  induction l as [|y l IH]; simpl; [reflexivity|].
  destruct (leb x y); [reflexivity|]. rewrite IH. apply perm_swap.
Qed.
Lemma sort_by_perm {X} (leb : X -> X -> bool) l : Permutation (sort_by leb l) l.
Proof.
  induction l as [|x l IH]; simpl; [constructor|]. rewrite insert_by_perm. now constructor.
Qed.

Lemma lookup_in_nodup {B} (l : list (nat * B)) k b :
  NoDup (map fst l) -> In (k, b) l -> lookup k l = Some b.
Proof.
  induction l as [|[k' b'] l IH]; simpl; intros Hnd Hin; [contradiction|].
  inversion Hnd as [|? ? Hni Hnd']; subst.
  destruct Hin as [E|Hin].
  - inversion E; subst. now rewrite Nat.eqb_refl.
  - destruct (Nat.eqb k k') eqn:Ek.
    + apply Nat.eqb_eq in Ek. subst. exfalso. apply Hni. apply (in_map fst) in Hin. exact Hin.
    + now apply IH.
Qed.

Lemma list_eqb_eq a b : list_eqb a b = true <-> a = b.
Proof.
  revert b. induction a as [|x a IH]; intros [|y b]; simpl; split; intros H; try discriminate; auto.
  - apply andb_true_iff in H. destruct H as [H1 H2]. apply Nat.eqb_eq in H1. apply IH in H2. congruence.
  - inversion H; subst. rewrite Nat.eqb_refl. simpl. now apply IH.
Qed.

Lemma find_unique {B} (l : list (list nat * B)) key v :
  NoDup (map fst l) -> In (key, v) l ->
  find (fun r => list_eqb key (fst r)) l = Some (key, v).
Proof.
  induction l as [|[k' b'] l IH]; simpl; intros Hnd Hin; [contradiction|].
  inversion Hnd as [|? ? Hni Hnd']; subst.
  destruct Hin as [E|Hin].
  - inversion E; subst. assert (list_eqb key key = true) as -> by now apply list_eqb_eq. reflexivity.
  - destruct (list_eqb key k') eqn:Ek.
    + apply list_eqb_eq in Ek. subst. exfalso. apply Hni. apply (in_map fst) in Hin. exact Hin.
    + now apply IH.
Qed.

Lemma lookup_last_unique {B} (l : list (list nat * B)) key v :
  NoDup (map fst l) -> In (key, v) l -> lookup_last key l = Some v.
Proof.
  intros Hnd Hin. unfold lookup_last.
  rewrite (find_unique (rev l) key v); [reflexivity| |now apply in_rev in Hin].
  rewrite map_rev. apply NoDup_rev. exact Hnd.
Qed.

Lemma NoDup_map_inj_in {X Y} (f : X -> Y) l :
  (forall x y, In x l -> In y l -> f x = f y -> x = y) -> NoDup l -> NoDup (map f l).
Proof.
  induction l as [|x l IH]; intros Hinj Hnd; simpl; [constructor|].
  inversion Hnd as [|? ? Hni Hnd']; subst. constructor.
  - intros Hin. apply in_map_iff in Hin. destruct Hin as [y [Ey Hy]].
    assert (y = x) by (apply Hinj; [now right|now left|exact Ey]). subst. contradiction.
  - apply IH; [|exact Hnd']. intros a b Ha Hb. apply Hinj; now right.
Qed.

(* names picked by two valid multi-indices from duplicate-free state lists coincide only if the indices do *)
Lemma names_at_inj sts i1 i2 :
  Forall (@NoDup state) sts ->
  valid_idx (map (@length state) sts) i1 -> valid_idx (map (@length state) sts) i2 ->
  names_at sts i1 = names_at sts i2 -> i1 = i2.
Proof.
  intros Hnd. revert i1 i2. induction Hnd as [|s sts Hs Hnd IH]; intros i1 i2 H1 H2 E.
  - inversion H1; inversion H2; subst. reflexivity.
  - simpl in H1, H2. inversion H1 as [|a ? i1' ? Ha H1']; inversion H2 as [|b ? i2' ? Hb H2']; subst.
    simpl in E. inversion E as [[E1 E2]].
    f_equal.
    + apply (proj1 (NoDup_nth s 0) Hs); assumption.
    + apply IH; assumption.
Qed.

Lemma divmod_row k j c : c < k -> (j * k + c) mod k = c /\ (j * k + c) / k = j.
Proof.
  intros Hc. assert (Hk : k <> 0) by lia. split.
  - rewrite Nat.add_comm, Nat.mod_add by exact Hk. now apply Nat.mod_small.
  - rewrite Nat.div_add_l by exact Hk. rewrite Nat.div_small by exact Hc. lia.
Qed.

Lemma split_index k P i : i < k * P -> i / P < k /\ i mod P < P /\ i = (i / P) * P + i mod P.
Proof.
  intros Hi. assert (HP : P <> 0) by (intro E; subst; lia).
  pose proof (Nat.div_mod i P HP). pose proof (Nat.mod_upper_bound i P HP).
  repeat split; auto; try lia.
  apply Nat.div_lt_upper_bound; [exact HP|lia].
Qed.

Section Layout.
Context {A : Type}.
Variable d : A.
Variable rnd : A -> A.

(* ---------------------------------------------------------------- well-formed models *)
(* exactly what BayesianNetwork.check_model + TabularCPD guarantee, plus distinct state names *)
Definition wf_cpd (m : bn A) (c : cpd A) : Prop :=
  length (table c) = ccard c * prodl (pcards c) /\
  (forall p ss, In (p, ss) (parents c) -> exists c', In c' m /\ child c' = p /\ cstates c' = ss).
Definition wf_bn (m : bn A) : Prop :=
  NoDup (map (@child A) m) /\ forall c, In c m -> wf_cpd m c.
Definition distinct_states (m : bn A) : Prop := forall c, In c m -> NoDup (cstates c).

(* what a reader knows about a CPD's variables from the variable blocks *)
Definition blocks_ok (vs : list (var * list state)) (c : cpd A) : Prop :=
  lookup (child c) vs = Some (cstates c) /\
  forall p ss, In (p, ss) (parents c) -> lookup p vs = Some ss.

Lemma var_blocks_lookup (m : bn A) c :
  NoDup (map (@child A) m) -> In c m -> lookup (child c) (var_blocks m) = Some (cstates c).
Proof.
  intros Hnd Hin. apply lookup_in_nodup.
  - unfold var_blocks. rewrite map_map. simpl.
    apply (Permutation_NoDup (l := map (@child A) m)); [|exact Hnd].
    apply Permutation_map. symmetry. apply sort_by_perm.
  - unfold var_blocks. apply in_map_iff. exists c. split; [reflexivity|].
    apply (Permutation_in (l := m)); [symmetry; apply sort_by_perm|exact Hin].
Qed.

Lemma wf_blocks_ok (m : bn A) c : wf_bn m -> In c m -> blocks_ok (var_blocks m) c.
Proof.
  intros [Hnd Hwf] Hin. split.
  - now apply var_blocks_lookup.
  - intros p ss Hp. destruct (Hwf c Hin) as [_ Hpar].
    destruct (Hpar p ss Hp) as [c' [Hc' [E1 E2]]]. subst. now apply var_blocks_lookup.
Qed.

Lemma parents_rebuild vs (l : list (var * list state)) :
  (forall p ss, In (p, ss) l -> lookup p vs = Some ss) ->
  map (fun v => (v, states_of vs v)) (map fst l) = l.
Proof.
  induction l as [|[p ss] l IH]; intros H; simpl; [reflexivity|].
  unfold states_of at 1. rewrite (H p ss) by now left. f_equal. apply IH. intros q s Hq. apply H. now right.
Qed.

Lemma cpd_eta (c : cpd A) :
  {| child := child c; cstates := cstates c; parents := parents c; table := table c |} = c.
Proof. destruct c; reflexivity. Qed.

(* ---------------------------------------------------------------- BIF *)
Lemma bif_cpd_roundtrip vs (c : cpd A) :
  blocks_ok vs c -> length (table c) = ccard c * prodl (pcards c) ->
  Forall (@NoDup state) (pstates c) ->
  bif_read_prob d vs (bif_write_cpd d c) = Some c.
Proof.
  intros [Hc Hp] Hlen Hnd.
  unfold bif_read_prob, bif_write_cpd. cbn [bp_child bp_parents bp_body].
  assert (Hs : states_of vs (child c) = cstates c) by (unfold states_of; now rewrite Hc).
  unfold pvars. rewrite (parents_rebuild vs (parents c) Hp). rewrite !Hs.
  fold (pstates c). fold (pcards c). fold (ccard c).
  destruct (parents c) as [|p0 prest] eqn:Epar.
  - (* table branch *)
    rewrite Hlen. rewrite Nat.eqb_refl. rewrite <- Epar. f_equal. apply cpd_eta.
  - rewrite <- Epar in *. clear Epar p0 prest.
    set (P := prodl (pcards c)). set (k := ccard c).
    set (row := fun j => tabulate k (fun ci => nth (ci * P + j) (table c) d)).
    set (rows := tabulate P (fun j => (names_at (pstates c) (unravel (pcards c) j), row j))).
    assert (Hcols : otraverse (fun j => lookup_last (names_at (pstates c) (unravel (pcards c) j)) rows) (seq 0 P)
                    = Some (map row (seq 0 P))).
    { apply otraverse_map. intros j Hj. apply in_seq in Hj.
      apply lookup_last_unique.
      - unfold rows, tabulate. rewrite map_map. cbn [fst].
        apply NoDup_map_inj_in; [|apply seq_NoDup].
        intros x y Hx Hy E. apply in_seq in Hx. apply in_seq in Hy.
        apply (unravel_inj (pcards c)); try (fold P; lia).
        apply (names_at_inj (pstates c)); auto; apply unravel_valid; fold P; lia.
      - unfold rows, tabulate. apply in_map_iff. exists j. split; [reflexivity|]. apply in_seq. lia. }
    unfold rows, row in Hcols. rewrite Hcols. fold row.
    assert (Hall : forallb (fun col : list A => length col =? k) (map row (seq 0 P)) = true).
    { apply forallb_forall. intros col Hin. apply in_map_iff in Hin. destruct Hin as [j [E _]]. subst col.
      unfold row. rewrite tabulate_length. apply Nat.eqb_refl. }
    rewrite Hall. f_equal. rewrite <- (cpd_eta c) at 2. f_equal.
    apply (tabulate_eq _ _ _ d); [exact Hlen|].
    intros i Hi. destruct (split_index k P i Hi) as [H1 [H2 H3]].
    change (map row (seq 0 P)) with (tabulate P row).
    rewrite (nth_tabulate P row) by exact H2. unfold row. rewrite nth_tabulate by exact H1.
    now rewrite <- H3.
Qed.

End Layout.
