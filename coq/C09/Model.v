(* C09 model, LAYOUT layer: pgmpy's four writers as  model |-> abstract document  and the four readers as
   abstract document |-> model, with the index arithmetic of the code (reshape / ravel order / moveaxis /
   transposes) expressed through mixed-radix ravel / unravel.  No proofs here.

   A CPD is what TabularCPD holds: child, the child's state names, the ordered parents each with the state
   names the CPD holds for it (cardinality = number of states), and the flat table in pgmpy's own layout:
   C order of the axes (child, parent_1, ..., parent_k)  (cpd.values.ravel()).
   Values are an abstract type A (the model only moves them around; NET applies [rnd] = round to 4 decimals).
   Variable and state names are interned to nat by the harness, ORDER PRESERVING for variable names (the
   writers sort variables by name). *)
From Coq Require Import List Arith Bool PeanoNat.
From PV Require Import C09.RavelLocal.
Import ListNotations.

Definition var := nat.
Definition state := nat.

(* ---------------------------------------------------------------- generic helpers *)
Fixpoint lookup {B} (v : nat) (l : list (nat * B)) : option B :=
  match l with
  | [] => None
  | (k, b) :: r => if Nat.eqb v k then Some b else lookup v r
  end.

Fixpoint index_of (v : nat) (l : list nat) : nat :=
  match l with
  | [] => 0
  | x :: r => if Nat.eqb v x then 0 else S (index_of v r)
  end.

Fixpoint otraverse {X Y} (f : X -> option Y) (l : list X) : option (list Y) :=
  match l with
  | [] => Some []
  | x :: r => match f x, otraverse f r with
              | Some y, Some ys => Some (y :: ys)
              | _, _ => None
              end
  end.

(* insertion sort with a boolean "less or equal" (python's sorted(): stable; all keys used here are total
   orders on distinct names, so stability is not observable) *)
Fixpoint insert_by {X} (leb : X -> X -> bool) (x : X) (l : list X) : list X :=
  match l with
  | [] => [x]
  | y :: r => if leb x y then x :: y :: r else y :: insert_by leb x r
  end.
Fixpoint sort_by {X} (leb : X -> X -> bool) (l : list X) : list X :=
  match l with
  | [] => []
  | x :: r => insert_by leb x (sort_by leb r)
  end.

Fixpoint list_eqb (a b : list nat) : bool :=
  match a, b with
  | [], [] => true
  | x :: a', y :: b' => Nat.eqb x y && list_eqb a' b'
  | _, _ => false
  end.

(* the state names picked by a multi-index: [names_at [s1;...;sk] [i1;...;ik] = [s1[i1];...;sk[ik]]] *)
Fixpoint names_at (sts : list (list state)) (idx : list nat) : list state :=
  match sts, idx with
  | s :: sts', i :: idx' => nth i s 0 :: names_at sts' idx'
  | _, _ => []
  end.

(* a python dict built by successive assignment d[key] = val, then d[key]: the LAST binding wins *)
Definition lookup_last {B} (key : list nat) (rows : list (list nat * B)) : option B :=
  match find (fun r => list_eqb key (fst r)) (rev rows) with
  | Some r => Some (snd r)
  | None => None
  end.

(* move the LAST entry of a multi-index to the FRONT: index of np.moveaxis(a, 0, -1) -> index of a *)
Definition last_to_front (idx : list nat) : list nat := last idx 0 :: removelast idx.

(* ---------------------------------------------------------------- decimal strings (UAI sort key) *)
(* str(card): most significant digit first *)
Fixpoint digits_fuel (fuel n : nat) (acc : list nat) : list nat :=
  match fuel with
  | 0 => acc
  | S f => let acc' := (n mod 10) :: acc in
           if (n / 10) =? 0 then acc' else digits_fuel f (n / 10) acc'
  end.
Definition digits (n : nat) : list nat := digits_fuel (S n) n [].

(* python's string comparison a <= b on digit strings (lexicographic; a proper prefix is smaller) *)
Fixpoint lex_leb (a b : list nat) : bool :=
  match a, b with
  | [], _ => true
  | _ :: _, [] => false
  | x :: a', y :: b' => if x <? y then true else if y <? x then false else lex_leb a' b'
  end.

Section Layout.
Context {A : Type}.
Variable d : A.          (* default for nth; never reached on well-formed input *)
Variable rnd : A -> A.   (* NET: numpy round(decimals=4) followed by printing / parsing *)

Record cpd := { child : var; cstates : list state; parents : list (var * list state); table : list A }.
Definition bn := list cpd.

Definition ccard (c : cpd) : nat := length (cstates c).
Definition pvars (c : cpd) : list var := map fst (parents c).
Definition pstates (c : cpd) : list (list state) := map snd (parents c).
Definition pcards (c : cpd) : list nat := map (@length state) (pstates c).

Definition child_leb (a b : cpd) : bool := child a <=? child b.
(* variable blocks: sorted(model.nodes()) with the state names of the node's own CPD *)
Definition var_blocks (m : bn) : list (var * list state) :=
  map (fun c => (child c, cstates c)) (sort_by child_leb m).
Definition states_of (vs : list (var * list state)) (v : var) : list state :=
  match lookup v vs with Some s => s | None => [] end.

(* ================================================================ BIF *)
Inductive bif_body :=
| BTable (vals : list A)                          (* "table v, v, ... ;"  (no parents) *)
| BRows (rows : list (list state * list A)).      (* "( s1, ..., sk ) v, ..., v;" one per parent configuration *)
Record bif_prob := { bp_child : var; bp_parents : list var; bp_body : bif_body }.
Record bif_doc := { bd_vars : list (var * list state); bd_probs : list bif_prob }.

(* BIFWriter.__str__: no parents -> cpd.values.ravel(); otherwise for index, state in
   enumerate(product(parent state names)): row = get_values().T[index, :], get_values() = values.reshape(card, P) *)
Definition bif_write_cpd (c : cpd) : bif_prob :=
  let P := prodl (pcards c) in
  {| bp_child := child c;
     bp_parents := pvars c;
     bp_body :=
       match parents c with
       | [] => BTable (table c)
       | _ => BRows (tabulate P (fun j =>
                (names_at (pstates c) (unravel (pcards c) j),
                 tabulate (ccard c) (fun ci => nth (ci * P + j) (table c) d))))
       end |}.
Definition bif_write (m : bn) : bif_doc :=
  {| bd_vars := var_blocks m; bd_probs := map bif_write_cpd (sort_by child_leb m) |}.

(* BIFReader._get_values_from_block + get_model.  table branch: reshape(card, size // card) and TabularCPD's
   shape check; rows branch: values_dict[tuple(states)] = vals, then for index, combination in
   enumerate(product(states of parents)): arr[:, index] = values_dict[combination]  (KeyError -> None) *)
Definition bif_read_prob (vs : list (var * list state)) (p : bif_prob) : option cpd :=
  let cs := states_of vs (bp_child p) in
  let k := length cs in
  let ps := map (fun v => (v, states_of vs v)) (bp_parents p) in
  let pst := map snd ps in
  let pc := map (@length state) pst in
  let P := prodl pc in
  match bp_body p with
  | BTable vals =>
      if length vals =? k * P
      then Some {| child := bp_child p; cstates := cs; parents := ps; table := vals |}
      else None
  | BRows rows =>
      match otraverse (fun j => lookup_last (names_at pst (unravel pc j)) rows) (seq 0 P) with
      | Some cols =>
          if forallb (fun col => length col =? k) cols
          then Some {| child := bp_child p; cstates := cs; parents := ps;
                       table := tabulate (k * P) (fun i => nth (i / P) (nth (i mod P) cols []) d) |}
          else None
      | None => None
      end
  end.
Definition bif_read (doc : bif_doc) : option bn := otraverse (bif_read_prob (bd_vars doc)) (bd_probs doc).

(* ================================================================ XMLBIF *)
Record xml_def := { xd_child : var; xd_parents : list var; xd_table : list A }.
Record xml_doc := { xd_vars : list (var * list state); xd_defs : list xml_def }.

(* XMLBIFWriter.get_values: ravel_f(cpd.get_values()): column-major walk of the (card, P) matrix:
   position n holds entry (row n mod card, column n / card) *)
Definition xml_write_cpd (c : cpd) : xml_def :=
  let P := prodl (pcards c) in
  let k := ccard c in
  {| xd_child := child c; xd_parents := pvars c;
     xd_table := tabulate (k * P) (fun n => nth ((n mod k) * P + n / k) (table c) d) |}.
Definition xml_write (m : bn) : xml_doc :=
  {| xd_vars := var_blocks m; xd_defs := map xml_write_cpd (sort_by child_leb m) |}.

(* XMLBIFReader.get_values: arr.reshape((card, size // card), order="F"): entry (c, j) = flat[j*card + c];
   TabularCPD then stores it in C order *)
Definition xml_read_def (vs : list (var * list state)) (x : xml_def) : option cpd :=
  let cs := states_of vs (xd_child x) in
  let k := length cs in
  let ps := map (fun v => (v, states_of vs v)) (xd_parents x) in
  let P := prodl (map (fun p => length (snd p)) ps) in
  let n2 := length (xd_table x) / k in
  if (length (xd_table x) =? k * n2) && (n2 =? P)
  then Some {| child := xd_child x; cstates := cs; parents := ps;
               table := tabulate (k * n2) (fun i => nth ((i mod n2) * k + i / n2) (xd_table x) d) |}
  else None.
Definition xml_read (doc : xml_doc) : option bn := otraverse (xml_read_def (xd_vars doc)) (xd_defs doc).

(* ================================================================ NET *)
Record net_pot := { np_child : var; np_parents : list var; np_data : list A }.
Record net_doc := { nd_vars : list (var * list state); nd_pots : list net_pot }.

(* NETWriter.net_cpd: str(np.moveaxis(round(values, 4), 0, -1)): the printed array has axes
   (parent_1..parent_k, child) and is printed in C order; its entry at multi-index (j_1..j_k, c) is
   values[c, j_1..j_k] *)
Definition net_write_cpd (c : cpd) : net_pot :=
  let k := ccard c in
  {| np_child := child c; np_parents := pvars c;
     np_data := tabulate (prodl (pcards c ++ [k])) (fun n =>
        rnd (nth (ravel (k :: pcards c) (last_to_front (unravel (pcards c ++ [k]) n))) (table c) d)) |}.
Definition net_write (m : bn) : net_doc :=
  {| nd_vars := var_blocks m; nd_pots := map net_write_cpd (sort_by child_leb m) |}.

(* NETReader.get_values: cpd_flat.reshape(P, card).T : entry (c, j) = flat[j*card + c] *)
Definition net_read_pot (vs : list (var * list state)) (p : net_pot) : option cpd :=
  let cs := states_of vs (np_child p) in
  let k := length cs in
  let ps := map (fun v => (v, states_of vs v)) (np_parents p) in
  let P := prodl (map (fun q => length (snd q)) ps) in
  if length (np_data p) =? P * k
  then Some {| child := np_child p; cstates := cs; parents := ps;
               table := tabulate (k * P) (fun i => nth ((i mod P) * k + i / P) (np_data p) d) |}
  else None.
Definition net_read (doc : net_doc) : option bn := otraverse (net_read_pot (nd_vars doc)) (nd_pots doc).

(* ================================================================ UAI (Bayesian) *)
Record uai_doc := { ud_domain : list nat;          (* cardinalities, position = variable index *)
                    ud_funcs : list (list nat);    (* function scopes (variable indices) *)
                    ud_tables : list (list A) }.

(* sorted(domain.items(), key=lambda x: (x[1], x[0])) with x[1] = str(card): STRING comparison of the
   cardinalities ("10" < "2"), ties by name *)
Definition uai_key_leb (a b : var * nat) : bool :=
  let da := digits (snd a) in let db := digits (snd b) in
  if list_eqb da db then fst a <=? fst b else lex_leb da db.
Definition uai_variables (dom : list (var * nat)) : list (var * nat) := sort_by uai_key_leb dom.
Definition uai_num (vars_sorted : list (var * nat)) (v : var) : nat := index_of v (map fst vars_sorted).

Definition uai_domain_bn (m : bn) : list (var * nat) := map (fun c => (child c, ccard c)) (sort_by child_leb m).

(* UAIWriter (BayesianNetwork): cpds sorted by child name; scope = reversed parents, then the child;
   values = cpd.values.ravel() *)
Definition uai_write (m : bn) : uai_doc :=
  let vs := uai_variables (uai_domain_bn m) in
  let cs := sort_by child_leb m in
  {| ud_domain := map snd vs;
     ud_funcs := map (fun c => map (uai_num vs) (rev (pvars c)) ++ [uai_num vs (child c)]) cs;
     ud_tables := map table cs |}.

(* UAIReader.get_model (BAYES): child = last of the scope, parents = reversed rest, values.reshape(card, -1),
   TabularCPD(child, card, values, evidence=parents, evidence_card=domain of parents); state names are
   positional (0..card-1), variable i is called var_i *)
Definition uai_read_fun (dom : list nat) (scope : list nat) (vals : list A) : option cpd :=
  match scope with
  | [] => None
  | _ =>
    let ch := last scope 0 in
    let ps := rev (removelast scope) in
    let k := nth ch dom 0 in
    let pc := map (fun p => nth p dom 0) ps in
    if (length vals =? k * prodl pc) && forallb (fun v => v <? length dom) scope
    then Some {| child := ch; cstates := seq 0 k;
                 parents := map (fun p => (p, seq 0 (nth p dom 0))) ps; table := vals |}
    else None
  end.
Fixpoint ozip_with {X Y Z} (f : X -> Y -> option Z) (a : list X) (b : list Y) : option (list Z) :=
  match a, b with
  | [], [] => Some []
  | x :: a', y :: b' => match f x y, ozip_with f a' b' with
                        | Some z, Some zs => Some (z :: zs)
                        | _, _ => None
                        end
  | _, _ => None
  end.
Definition uai_read (doc : uai_doc) : option bn :=
  ozip_with (uai_read_fun (ud_domain doc)) (ud_funcs doc) (ud_tables doc).

(* ================================================================ UAI (Markov) *)
Record factor := { fscope : list (var * nat); fvalues : list A }.   (* (variable, cardinality), C order *)
Definition mn := list factor.

Fixpoint dedup_keys (l : list (var * nat)) (seen : list var) : list (var * nat) :=
  match l with
  | [] => []
  | (v, c) :: r => if existsb (Nat.eqb v) seen then dedup_keys r seen else (v, c) :: dedup_keys r (v :: seen)
  end.
(* UAIWriter.get_domain (MarkovNetwork): first cardinality seen for each variable, over the factors in order *)
Definition uai_domain_mn (m : mn) : list (var * nat) := dedup_keys (flat_map fscope m) [].

Definition uai_write_mn (m : mn) : uai_doc :=
  let vs := uai_variables (uai_domain_mn m) in
  {| ud_domain := map snd vs;
     ud_funcs := map (fun f => map (uai_num vs) (map fst (fscope f))) m;
     ud_tables := map fvalues m |}.

Definition uai_read_factor (dom : list nat) (scope : list nat) (vals : list A) : option factor :=
  let cards := map (fun p => nth p dom 0) scope in
  if (length vals =? prodl cards) && forallb (fun v => v <? length dom) scope
  then Some {| fscope := map (fun p => (p, nth p dom 0)) scope; fvalues := vals |}
  else None.
Definition uai_read_mn (doc : uai_doc) : option mn :=
  ozip_with (uai_read_factor (ud_domain doc)) (ud_funcs doc) (ud_tables doc).

(* ---------------------------------------------------------------- observable: named assignments *)
(* P(child = s0 | parents = s1..sk) by NAME: position of each name in the CPD's state lists, then the
   C-order offset.  None when a name is not a state of its variable. *)
Definition pos_of (s : state) (l : list state) : option nat :=
  if existsb (Nat.eqb s) l then Some (index_of s l) else None.
Fixpoint positions (sts : list (list state)) (names : list state) : option (list nat) :=
  match sts, names with
  | [], [] => Some []
  | l :: sts', s :: names' =>
      match pos_of s l, positions sts' names' with
      | Some i, Some is_ => Some (i :: is_)
      | _, _ => None
      end
  | _, _ => None
  end.
Definition prob_named (c : cpd) (names : list state) : option A :=
  match positions (cstates c :: pstates c) names with
  | Some idx => Some (nth (ravel (ccard c :: pcards c) idx) (table c) d)
  | None => None
  end.

End Layout.

(* ================================================================ BayesianNetwork.save / load dispatch *)
(* formats as codes: 0 bif, 1 uai, 2 xmlbif; anything else (net, txt, no extension, ...) is "not one of the
   supported formats".  [ext] is filename.split(".")[-1].lower(), [ft] the filetype argument (default "bif" = 0).
   save:  if ext in supported: filetype = ext;  then bif / uai / xmlbif writer, otherwise NOTHING is written.
   load:  the same test, then bif / uai / xmlbif reader, otherwise None is returned. *)
Definition supported (f : nat) : bool := f <? 3.
Definition save_format (ext ft : nat) : option nat :=
  let filetype := if supported ext then ext else ft in
  if filetype =? 0 then Some 0 else if filetype =? 1 then Some 1 else if filetype =? 2 then Some 2 else None.
Definition load_format (ext ft : nat) : option nat :=
  let filetype := if supported ext then ext else ft in
  if filetype =? 0 then Some 0 else if filetype =? 1 then Some 1 else if filetype =? 2 then Some 2 else None.

Arguments cpd : clear implicits.
Arguments bn : clear implicits.
Arguments factor : clear implicits.
Arguments mn : clear implicits.
Arguments bif_doc : clear implicits.
Arguments bif_prob : clear implicits.
Arguments bif_body : clear implicits.
Arguments xml_doc : clear implicits.
Arguments xml_def : clear implicits.
Arguments net_doc : clear implicits.
Arguments net_pot : clear implicits.
Arguments uai_doc : clear implicits.
