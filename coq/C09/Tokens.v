(* C09 token layer (modest): can every string the writers emit for a float be read by each reader's number
   grammar?  Characters are abstracted to classes (every digit is [Dg]); the writers print str(numpy.float64),
   i.e. repr(float):   d+.d+   |   d[.d+]e(+|-)dd+   (finite, non-negative values; 'inf', 'nan' and a leading
   '-' cannot occur for probabilities). *)
From Coq Require Import List Arith Bool PeanoNat Lia.
Import ListNotations.

Inductive ch := Dg | Dot | Ee | Plus | Minus | Oth.

Inductive shape :=
| Fixed (a b : nat)                          (* S a integer digits '.' S b fraction digits *)
| Sci (frac : option nat) (neg : bool) (c : nat).   (* d [. S b digits] e (+|-) S (S c) digits *)

Definition render (s : shape) : list ch :=
  match s with
  | Fixed a b => repeat Dg (S a) ++ [Dot] ++ repeat Dg (S b)
  | Sci f neg c => [Dg] ++ (match f with Some b => Dot :: repeat Dg (S b) | None => [] end)
                   ++ [Ee; if neg then Minus else Plus] ++ repeat Dg (S (S c))
  end.

Fixpoint skip_digits (l : list ch) : nat * list ch :=
  match l with
  | Dg :: r => let (n, r') := skip_digits r in (S n, r')
  | _ => (0, l)
  end.
Definition skip_sign (l : list ch) : list ch :=
  match l with Plus :: r | Minus :: r => r | _ => l end.
(* the exponent part must consume the rest of the token; an Optional(...) that does not match leaves
   characters behind, and the token is then not a single number *)
Definition exp_tail (l : list ch) : bool :=
  match l with
  | [] => true
  | Ee :: r => let (n, r') := skip_digits (skip_sign r) in negb (n =? 0) && match r' with [] => true | _ => false end
  | _ => false
  end.

(* UAIReader: Combine(Word(nums) + Optional("." + Optional(Word(nums))) + Optional(oneOf("e E") + Optional(oneOf("+ -")) + Word(nums))) *)
Definition uai_ok (l : list ch) : bool :=
  let (n, r) := skip_digits l in
  negb (n =? 0) && exp_tail (match r with Dot :: r' => snd (skip_digits r') | _ => r end).
(* the grammar before commit d3b045d: Combine(Word(nums) + Optional("." + Word(nums))) *)
Definition uai_old_ok (l : list ch) : bool :=
  let (n, r) := skip_digits l in
  negb (n =? 0) && match r with
                   | [] => true
                   | Dot :: r' => let (n', r'') := skip_digits r' in negb (n' =? 0) && match r'' with [] => true | _ => false end
                   | _ => false
                   end.
(* python float(): [sign] (d+ [. d*] | . d+) [e [sign] d+] *)
Definition py_float_ok (l : list ch) : bool :=
  let (n, r) := skip_digits (skip_sign l) in
  match r with
  | Dot :: r' => let (n', r'') := skip_digits r' in negb ((n =? 0) && (n' =? 0)) && exp_tail r''
  | _ => negb (n =? 0) && exp_tail r
  end.
(* BIFReader / NETReader: Word(nums + "-+eE.") then float() *)
Definition word_ok (l : list ch) : bool :=
  match l with [] => false | _ => forallb (fun c => match c with Oth => false | _ => true end) l end.
Definition bif_net_ok (l : list ch) : bool := word_ok l && py_float_ok l.
(* XMLBIFReader: text.split() then float() *)
Definition xmlbif_ok (l : list ch) : bool := py_float_ok l.

Definition shapes_upto (n : nat) : list shape :=
  flat_map (fun a => flat_map (fun b => [Fixed a b]) (seq 0 n)) (seq 0 n)
  ++ flat_map (fun c => flat_map (fun neg => Sci None neg c :: map (fun b => Sci (Some b) neg c) (seq 0 n))
                                 [true; false]) (seq 0 3).
Definition shape_within (n : nat) (s : shape) : Prop :=
  match s with
  | Fixed a b => a < n /\ b < n
  | Sci None _ c => c < 3
  | Sci (Some b) _ c => b < n /\ c < 3
  end.

Lemma shapes_upto_complete n s : shape_within n s -> In s (shapes_upto n).
Proof.
  intros H. unfold shapes_upto. apply in_app_iff. destruct s as [a b|[b|] neg c]; simpl in H.
  - left. apply in_flat_map. exists a. split; [apply in_seq; lia|].
    apply in_flat_map. exists b. split; [apply in_seq; lia|]. now left.
  - right. apply in_flat_map. exists c. split; [apply in_seq; lia|].
    apply in_flat_map. exists neg. split; [destruct neg; simpl; tauto|].
    right. apply (in_map (fun b => Sci (Some b) neg c)). apply in_seq. lia.
  - right. apply in_flat_map. exists c. split; [apply in_seq; lia|].
    apply in_flat_map. exists neg. split; [destruct neg; simpl; tauto|]. now left.
Qed.

Definition all_readers_ok (s : shape) : bool :=
  uai_ok (render s) && bif_net_ok (render s) && xmlbif_ok (render s).

Lemma all_shapes_ok_24 : forallb all_readers_ok (shapes_upto 24) = true.
Proof. vm_compute. reflexivity. Qed.

Lemma number_grammars_upto24 s : shape_within 24 s ->
  uai_ok (render s) = true /\ bif_net_ok (render s) = true /\ xmlbif_ok (render s) = true.
Proof.
  intros H. apply shapes_upto_complete in H.
  pose proof (proj1 (forallb_forall _ _) all_shapes_ok_24 s H) as E.
  unfold all_readers_ok in E. apply andb_true_iff in E. destruct E as [E E3].
  apply andb_true_iff in E. destruct E as [E1 E2]. auto.
Qed.

(* '1e-05' = Sci None true 0 *)
Lemma old_uai_grammar_rejects_exponent : uai_old_ok (render (Sci None true 0)) = false.
Proof. reflexivity. Qed.

(* ---------------------------------------------------------------- explicit '+' in the exponent *)
(* str(numpy.float64) prints every value >= 1e16 as <mantissa>e+NN (Markov-network potentials; probabilities never
   get there).  [uai_ok] consumes the WHOLE token for both exponent signs (theorem above).  A float token without
   the explicit plus sign (digits, optional '.' digits, optional e, optional '-', digits) stops after the mantissa of exactly those tokens. *)
Definition skip_minus (l : list ch) : list ch := match l with Minus :: r => r | _ => l end.
Definition exp_tail_noplus (l : list ch) : bool :=
  match l with
  | [] => true
  | Ee :: r => let (n, r') := skip_digits (skip_minus r) in negb (n =? 0) && match r' with [] => true | _ => false end
  | _ => false
  end.
Definition uai_noplus_ok (l : list ch) : bool :=
  let (n, r) := skip_digits l in
  negb (n =? 0) && exp_tail_noplus (match r with Dot :: r' => snd (skip_digits r') | _ => r end).
Definition has_plus_exponent (s : shape) : bool := match s with Sci _ false _ => true | _ => false end.

Lemma noplus_grammar_24 :
  forallb (fun s => Bool.eqb (uai_noplus_ok (render s)) (negb (has_plus_exponent s))) (shapes_upto 24) = true.
Proof. vm_compute. reflexivity. Qed.

Lemma plus_exponent_upto24 s : shape_within 24 s ->
  uai_ok (render s) = true /\ uai_noplus_ok (render s) = negb (has_plus_exponent s).
Proof.
  intros H. split; [apply (number_grammars_upto24 s H)|].
  apply shapes_upto_complete in H.
  pose proof (proj1 (forallb_forall _ _) noplus_grammar_24 s H) as E. now apply Bool.eqb_prop in E.
Qed.
