(* C08 entry points for the extracted driver: sx -> sx *)
From Coq Require Import List Bool Arith ZArith.
From PV Require Import Base.Sx Base.Graph C08.Model.
Import ListNotations.

Definition dec_graph (sn se : sx) : option digraph :=
  match sx_list sx_nat sn, sx_list (sx_pair sx_nat sx_nat) se with
  | Some ns, Some es => Some {| nodes := ns; edges := es |}
  | _, _ => None
  end.
Definition subsetb (a b : list node) : bool := forallb (fun x => memn x b) a.

(* [nodes edges start Z] -> active trail nodes (all latents included); error 1 = node not in graph *)
Definition run_c08_atn (s : sx) : sx :=
  match s with
  | SL [sn; se; ss; sz] =>
      match dec_graph sn se, sx_nat ss, sx_list sx_nat sz with
      | Some g, Some x, Some Z =>
          if memn x (nodes g) && subsetb Z (nodes g)
          then sx_ok (of_list of_nat (active_trail_nodes g x Z))
          else sx_err 1
      | _, _, _ => bad_request
      end
  | _ => bad_request
  end.

(* [nodes edges lat x y order] -> [] (None) | [[sep...]] ; error 2 = adjacent.
   [order] is used as the set-iteration priority in every pass of the latent loop and in the removal loop *)
Definition run_c08_minsep (s : sx) : sx :=
  match s with
  | SL [sn; se; sl; sx_; sy; so] =>
      match dec_graph sn se, sx_list sx_nat sl, sx_nat sx_, sx_nat sy, sx_list sx_nat so with
      | Some g, Some lat, Some x, Some y, Some ord =>
          match minimal_dseparator g lat x y (fun _ => ord) ord with
          | None => sx_err 2
          | Some r => sx_ok (of_option (of_list of_nat) r)
          end
      | _, _, _, _, _ => bad_request
      end
  | _ => bad_request
  end.

(* [nodes edges v ns] -> [blanket(v); moral edges; ancestral graph nodes(ns); ancestral graph edges(ns);
                          nondesc-minus-parents(v); anc_of ns] *)
Definition run_c08_misc (s : sx) : sx :=
  match s with
  | SL [sn; se; sv; sns] =>
      match dec_graph sn se, sx_nat sv, sx_list sx_nat sns with
      | Some g, Some v, Some ns =>
          let ag := ancestral_graph g ns in
          sx_ok (SL [ of_list of_nat (markov_blanket g v);
                      of_list (of_pair of_nat of_nat) (moral_edges g);
                      of_list of_nat (nodes ag);
                      of_list (of_pair of_nat of_nat) (edges ag);
                      of_list of_nat (nondesc_minus_parents g v);
                      of_list of_nat (anc_of g ns) ])
      | _, _, _ => bad_request
      end
  | _ => bad_request
  end.

(* [nodes edges lat incl start observed] -> the d-separated set asserted by get_independencies for
   (start, observed); error 1 = start/observed not drawn as the code draws them *)
Definition run_c08_dsep (s : sx) : sx :=
  match s with
  | SL [sn; se; sl; si; ss; sz] =>
      match dec_graph sn se, sx_list sx_nat sl, sx_bool si, sx_nat ss, sx_list sx_nat sz with
      | Some g, Some lat, Some incl, Some x, Some Z =>
          if memn x (nodes g) && (incl || negb (memn x lat)) && subsetb Z (indep_rest g lat incl x)
          then sx_ok (of_list of_nat (dsep_vars g lat incl x Z))
          else sx_err 1
      | _, _, _, _, _ => bad_request
      end
  | _ => bad_request
  end.

(* [nodes edges] -> get_immoralities() as a list of pairs (unordered; the harness sorts each pair) *)
Definition run_c08_immor (s : sx) : sx :=
  match s with
  | SL [sn; se] =>
      match dec_graph sn se with
      | Some g => sx_ok (of_list (of_pair of_nat of_nat) (immoralities g))
      | None => bad_request
      end
  | _ => bad_request
  end.

(* [nodes edges op ns es] -> [nodes' edges'] : one mutator applied to the graph value.
   op 0 remove_edges_from es | 1 remove_nodes_from ns | 2 do(ns, inplace) | 3 add_nodes_from ns |
      4 add_edges_from es | 5 clear_edges | 6 clear *)
Definition run_c08_edit (s : sx) : sx :=
  match s with
  | SL [sn; se; sop; sns; ses] =>
      match dec_graph sn se, sx_nat sop, sx_list sx_nat sns, sx_list (sx_pair sx_nat sx_nat) ses with
      | Some g, Some op, Some ns, Some es =>
          let r := match op with
                   | 0 => Some (remove_edges g es)
                   | 1 => Some (fold_left remove_node ns g)
                   | 2 => Some (do_graph g ns)
                   | 3 => Some (add_nodes g ns)
                   | 4 => Some (add_edges g es)
                   | 5 => Some (clear_edges g)
                   | 6 => Some {| nodes := []; edges := [] |}
                   | _ => None
                   end in
          match r with
          | Some g' => sx_ok (SL [of_list of_nat (nodes g'); of_list (of_pair of_nat of_nat) (edges g')])
          | None => sx_err 3
          end
      | _, _, _, _ => bad_request
      end
  | _ => bad_request
  end.
