(* C08 proofs, part 2: wrappers (is_dconnected, latent filtering), ancestral graph, Markov blanket,
   moral graph, local Markov set. *)
From Coq Require Import List Bool Arith Lia PeanoNat.
From PV Require Import Base.Reach Base.Graph C08.Model C08.Spec C08.ProofsTrail.
Import ListNotations.

(* ------------------------------------------------------------------ wrappers *)
Lemma is_dconnected_iff g x y Z : wf_graph g -> acyclic g -> In x (nodes g) -> ~ In x Z ->
  (is_dconnected g x y Z = true <-> ~ In y Z /\ dconnected g Z x y).
Proof.
  intros Hw Ha Hx Hz. unfold is_dconnected. rewrite memn_In.
  apply reach_iff_active_trail; assumption.
Qed.

Lemma is_dconnected_false_iff g x y Z : wf_graph g -> acyclic g -> In x (nodes g) -> ~ In x Z -> ~ In y Z ->
  (is_dconnected g x y Z = false <-> ~ dconnected g Z x y).
Proof.
  intros Hw Ha Hx Hz Hy. pose proof (is_dconnected_iff g x y Z Hw Ha Hx Hz) as H.
  destruct (is_dconnected g x y Z); split; intros H1; try reflexivity; try discriminate.
  - exfalso. apply H1. apply H. reflexivity.
  - intros Hc. assert (false = true) by (apply H; tauto). discriminate.
Qed.

Lemma include_latents g lat x Z y :
  In y (active_trail_nodes_obs g lat x Z) <-> In y (active_trail_nodes g x Z) /\ ~ In y lat.
Proof.
  unfold active_trail_nodes_obs. rewrite filter_In, negb_true_iff, memn_false. tauto.
Qed.

(* get_independencies: the asserted set for (start, observed) *)
Lemma dsep_vars_spec g lat incl start observed v :
  wf_graph g -> acyclic g -> In start (nodes g) -> ~ In start observed ->
  (In v (dsep_vars g lat incl start observed) <->
   In v (nodes g) /\ v <> start /\ (incl = true \/ ~ In v lat) /\ ~ In v observed /\
   ~ dconnected g observed start v).
Proof.
  intros Hw Ha Hs Hz. unfold dsep_vars, indep_rest.
  rewrite !filter_In, !andb_true_iff, orb_true_iff, !negb_true_iff, Nat.eqb_neq, !memn_false.
  assert (Hact : In v (active_trail_nodes g start observed) <-> ~ In v observed /\ dconnected g observed start v)
    by (apply reach_iff_active_trail; assumption).
  destruct incl.
  - rewrite Hact. intuition (try discriminate; auto).
  - rewrite include_latents, Hact. intuition (try discriminate; auto).
Qed.

(* ------------------------------------------------------------------ induced / ancestral graph *)
Definition up_closed (g : digraph) (keep : list node) : Prop :=
  forall u v, In (u, v) (edges g) -> In v keep -> In u keep.

Lemma anc_of_up_closed g ns : wf_graph g -> up_closed g (anc_of g ns).
Proof.
  intros Hw u v He Hv. apply (anc_of_spec g ns _ Hw) in Hv. destruct Hv as [s [Hs Hp]].
  apply (anc_of_spec g ns _ Hw). exists s. split; [exact Hs|]. eapply dpath_step_l; eauto.
Qed.

Lemma anc_of_self g ns s : wf_graph g -> In s ns -> In s (anc_of g ns).
Proof. intros Hw Hs. apply (anc_of_spec g ns _ Hw). exists s. split; [exact Hs|apply dpath_refl]. Qed.

Lemma induced_nodes g keep n : In n (nodes (induced g keep)) <-> In n (nodes g) /\ In n keep.
Proof. unfold induced. simpl. rewrite filter_In, memn_In. tauto. Qed.

Lemma induced_edges g keep u v :
  In (u, v) (edges (induced g keep)) <-> In (u, v) (edges g) /\ In u keep /\ In v keep.
Proof. unfold induced. simpl. rewrite filter_In. simpl. rewrite andb_true_iff, !memn_In. tauto. Qed.

Lemma wf_induced g keep : wf_graph g -> wf_graph (induced g keep).
Proof.
  intros [Hn He]. split.
  - unfold induced. simpl. apply NoDup_filter. exact Hn.
  - intros u v H. apply induced_edges in H. destruct H as (H & Hu & Hv).
    destruct (He u v H) as [H1 H2]. rewrite !induced_nodes. tauto.
Qed.

Lemma dpath_induced_sub g keep u v : dpath (induced g keep) u v -> dpath g u v.
Proof.
  intros H. induction H as [u|u v w _ IH He]; [apply dpath_refl|].
  apply induced_edges in He. eapply dpath_step; [exact IH|tauto].
Qed.

Lemma acyclic_induced g keep : acyclic g -> acyclic (induced g keep).
Proof.
  intros Ha u v He Hp. apply induced_edges in He. apply (Ha u v); [tauto|].
  eapply dpath_induced_sub. exact Hp.
Qed.

Lemma dpath_up_closed g keep u w : up_closed g keep -> dpath g u w -> In w keep -> In u keep.
Proof.
  intros Hc Hp. induction Hp as [u|u v w _ IH He]; intros Hw; [exact Hw|].
  apply IH. eapply Hc; eauto.
Qed.

Lemma dpath_induced_up g keep u w :
  up_closed g keep -> dpath g u w -> In w keep -> dpath (induced g keep) u w.
Proof.
  intros Hc Hp. induction Hp as [u|u v w Hp IH He]; intros Hw; [apply dpath_refl|].
  assert (Hv : In v keep) by (eapply Hc; eauto).
  eapply dpath_step; [apply IH; exact Hv|]. apply induced_edges. tauto.
Qed.

Lemma ancestral_nodes g ns n : wf_graph g ->
  (In n (nodes (ancestral_graph g ns)) <-> In n (nodes g) /\ exists s, In s ns /\ dpath g n s).
Proof.
  intros Hw. unfold ancestral_graph. rewrite induced_nodes, (anc_of_spec g ns n Hw). tauto.
Qed.

Lemma ancestral_edges g ns u v : wf_graph g ->
  (In (u, v) (edges (ancestral_graph g ns)) <-> In (u, v) (edges g) /\ exists s, In s ns /\ dpath g v s).
Proof.
  intros Hw. unfold ancestral_graph. rewrite induced_edges, <- (anc_of_spec g ns v Hw). split.
  - tauto.
  - intros [He Hv]. split; [exact He|]. split; [|exact Hv].
    eapply (anc_of_up_closed g ns Hw); eauto.
Qed.

Lemma ancestral_wf g ns : wf_graph g -> wf_graph (ancestral_graph g ns).
Proof. apply wf_induced. Qed.
Lemma ancestral_acyclic g ns : acyclic g -> acyclic (ancestral_graph g ns).
Proof. apply acyclic_induced. Qed.

(* ------------------------------------------------------------------ Markov blanket *)
Lemma markov_blanket_spec g n y :
  In y (markov_blanket g n) <->
  y <> n /\ (In (y, n) (edges g) \/ In (n, y) (edges g) \/
             exists c, In (n, c) (edges g) /\ In (y, c) (edges g)).
Proof.
  unfold markov_blanket.
  rewrite filter_In, dedup_In, !in_app_iff, in_flat_map, negb_true_iff, Nat.eqb_neq,
    In_children, In_parents.
  split.
  - intros [[H|[H|[c [Hc Hy]]]] Hne]; (split; [exact Hne|]); auto.
    right. right. exists c. rewrite In_children in Hc. rewrite In_parents in Hy. tauto.
  - intros [Hne [H|[H|[c [Hc Hy]]]]]; (split; [|exact Hne]); auto.
    right. right. exists c. rewrite In_children, In_parents. tauto.
Qed.

(* ------------------------------------------------------------------ moral graph *)
Lemma pairs_In a b l : In (a, b) (pairs l) -> In a l /\ In b l.
Proof.
  induction l as [|x r IH]; simpl; [tauto|]. rewrite in_app_iff, in_map_iff.
  intros [[y [Hy Hi]]|H].
  - inversion Hy; subst. tauto.
  - destruct (IH H). tauto.
Qed.

Lemma pairs_neq a b l : NoDup l -> In (a, b) (pairs l) -> a <> b.
Proof.
  induction l as [|x r IH]; simpl; [tauto|]. intros Hn. inversion Hn as [|? ? Hx Hr]; subst.
  rewrite in_app_iff, in_map_iff. intros [[y [Hy Hi]]|H].
  - inversion Hy; subst. intros ->. contradiction.
  - apply IH; assumption.
Qed.

Lemma pairs_complete a b l : In a l -> In b l -> a <> b -> In (a, b) (pairs l) \/ In (b, a) (pairs l).
Proof.
  induction l as [|x r IH]; simpl; [tauto|]. intros Ha Hb Hne. rewrite !in_app_iff, !in_map_iff.
  destruct Ha as [Ha|Ha]; destruct Hb as [Hb|Hb]; subst.
  - congruence.
  - left. left. exists b. tauto.
  - right. left. exists a. tauto.
  - destruct (IH Ha Hb Hne); tauto.
Qed.

Lemma NoDup_map_inj {A B} (f : A -> B) (l : list A) :
  NoDup l -> (forall a b, In a l -> In b l -> f a = f b -> a = b) -> NoDup (map f l).
Proof.
  induction l as [|x r IH]; simpl; intros Hn Hi; [constructor|].
  inversion Hn as [|? ? Hx Hr]; subst. constructor.
  - rewrite in_map_iff. intros [y [Hy Hin]]. assert (y = x) by (apply Hi; auto). subst. contradiction.
  - apply IH; [exact Hr|]. intros a b Ha Hb. apply Hi; auto.
Qed.

Lemma parents_NoDup g n : NoDup (edges g) -> NoDup (parents g n).
Proof.
  intros Hn. unfold parents. apply NoDup_map_inj; [apply NoDup_filter; exact Hn|].
  intros [a1 a2] [b1 b2] Ha Hb Hf. apply filter_In in Ha, Hb. simpl in *.
  destruct Ha as [_ Ha], Hb as [_ Hb]. apply Nat.eqb_eq in Ha, Hb. subst. reflexivity.
Qed.

Lemma moral_edges_spec g u v : wf_graph g -> acyclic g -> NoDup (edges g) ->
  ((In (u, v) (moral_edges g) \/ In (v, u) (moral_edges g)) <->
   u <> v /\ (adj g u v \/ exists c, In (u, c) (edges g) /\ In (v, c) (edges g))).
Proof.
  intros Hw Ha Hn. unfold moral_edges. rewrite !in_app_iff, !in_flat_map. split.
  - intros [[H|[n [Hn' H]]]|[H|[n [Hn' H]]]].
    + split; [intros ->; exact (acyclic_no_self g v Ha H)|left; left; exact H].
    + split; [exact (pairs_neq _ _ _ (parents_NoDup g n Hn) H)|].
      right. exists n. apply pairs_In in H. rewrite !In_parents in H. exact H.
    + split; [intros ->; exact (acyclic_no_self g v Ha H)|left; right; exact H].
    + split; [intros E; symmetry in E; revert E; exact (pairs_neq _ _ _ (parents_NoDup g n Hn) H)|].
      right. exists n. apply pairs_In in H. rewrite !In_parents in H. tauto.
  - intros [Hne [[H|H]|[c [H1 H2]]]].
    + left. left. exact H.
    + right. left. exact H.
    + assert (Hc : In c (nodes g)) by (destruct Hw as [_ He]; apply (He u c H1)).
      destruct (pairs_complete u v (parents g c)) as [H|H];
        [apply In_parents; exact H1|apply In_parents; exact H2|exact Hne| |].
      * left. right. exists c. tauto.
      * right. right. exists c. tauto.
Qed.

(* ------------------------------------------------------------------ immoralities *)
Lemma immoralities_spec g u v : wf_graph g -> NoDup (edges g) ->
  ((In (u, v) (immoralities g) \/ In (v, u) (immoralities g)) <->
   u <> v /\ ~ adj g u v /\ exists c, In (u, c) (edges g) /\ In (v, c) (edges g)).
Proof.
  intros Hw Hn. unfold immoralities. rewrite !in_flat_map. split.
  - intros [[n [_ H]]|[n [_ H]]]; apply filter_In in H; destruct H as [H Hf]; simpl in Hf;
      apply negb_true_iff, orb_false_iff in Hf; destruct Hf as [Hf1 Hf2];
      pose proof (pairs_neq _ _ _ (parents_NoDup g n Hn) H) as Hne;
      apply pairs_In in H; rewrite !In_parents in H; destruct H as [Ha Hb].
    + split; [exact Hne|]. split.
      * intros [He|He]; apply has_edge_In in He; congruence.
      * exists n. tauto.
    + split; [intros E; apply Hne; symmetry; exact E|]. split.
      * intros [He|He]; apply has_edge_In in He; congruence.
      * exists n. tauto.
  - intros [Hne [Hna [c [H1 H2]]]].
    assert (Hc : In c (nodes g)) by (destruct Hw as [_ He]; apply (He u c H1)).
    assert (F1 : has_edge g u v = false).
    { destruct (has_edge g u v) eqn:E; [|reflexivity]. exfalso. apply Hna. left. apply has_edge_In. exact E. }
    assert (F2 : has_edge g v u = false).
    { destruct (has_edge g v u) eqn:E; [|reflexivity]. exfalso. apply Hna. right. apply has_edge_In. exact E. }
    destruct (pairs_complete u v (parents g c)) as [H|H];
      [apply In_parents; exact H1|apply In_parents; exact H2|exact Hne| |].
    + left. exists c. split; [exact Hc|]. apply filter_In. split; [exact H|]. simpl. rewrite F1, F2. reflexivity.
    + right. exists c. split; [exact Hc|]. apply filter_In. split; [exact H|]. simpl. rewrite F1, F2. reflexivity.
Qed.

(* the two parents of a common child are d-connected as soon as the child (the collider) is observed:
   the trail u -> c <- v is active given any Z that contains c *)
Lemma common_child_dconnected g Z u v c :
  In (u, c) (edges g) -> In (v, c) (edges g) -> In c Z -> dconnected g Z u v.
Proof.
  intros H1 H2 Hc. exists [u; c; v]. simpl. split; [|split; [reflexivity|split; [reflexivity|]]].
  - split; [left; exact H1|]. split; [right; exact H2|exact I].
  - split; [|exact I]. split.
    + intros _. exists c. split; [exact Hc|apply dpath_refl].
    + intros Hn. exfalso. apply Hn. split; assumption.
Qed.

(* every moral edge is a skeleton edge or an immorality, and conversely *)
Lemma moral_is_skeleton_or_immorality g u v : wf_graph g -> acyclic g -> NoDup (edges g) ->
  ((In (u, v) (moral_edges g) \/ In (v, u) (moral_edges g)) <->
   adj g u v \/ In (u, v) (immoralities g) \/ In (v, u) (immoralities g)).
Proof.
  intros Hw Ha Hn. rewrite (moral_edges_spec g u v Hw Ha Hn), (immoralities_spec g u v Hw Hn). split.
  - intros [Hne [H|[c Hc]]]; [left; exact H|].
    destruct (has_edge g u v) eqn:E1; [left; left; apply has_edge_In; exact E1|].
    destruct (has_edge g v u) eqn:E2; [left; right; apply has_edge_In; exact E2|].
    right. split; [exact Hne|]. split; [|exists c; exact Hc].
    intros [He|He]; apply has_edge_In in He; congruence.
  - intros [H|[Hne [_ Hc]]].
    + split; [|left; exact H]. intros ->. destruct H as [H|H]; exact (acyclic_no_self g v Ha H).
    + split; [exact Hne|right; exact Hc].
Qed.

(* ------------------------------------------------------------------ edits: fewer edges, fewer active trails *)
Lemma dpath_incl g g' u v : incl (edges g') (edges g) -> dpath g' u v -> dpath g u v.
Proof.
  intros Hi H. induction H as [u|u v w _ IH He]; [apply dpath_refl|].
  eapply dpath_step; [exact IH|apply Hi; exact He].
Qed.

Lemma acyclic_incl g g' : acyclic g -> incl (edges g') (edges g) -> acyclic g'.
Proof. intros Ha Hi u v He Hp. apply (Ha u v (Hi _ He)). eapply dpath_incl; eauto. Qed.

Lemma adj_incl g g' a b : incl (edges g') (edges g) -> adj g' a b -> adj g a b.
Proof. intros Hi [H|H]; [left|right]; apply Hi; exact H. Qed.

Lemma is_trail_incl g g' : incl (edges g') (edges g) -> forall t, is_trail g' t -> is_trail g t.
Proof.
  intros Hi t. induction t as [|x r IH]; [simpl; tauto|].
  destruct r as [|y r']; [simpl; tauto|].
  intros [Ha Ht]. split; [eapply adj_incl; eauto|apply IH; exact Ht].
Qed.

Lemma ok_mid_incl g g' Z a b c : acyclic g -> incl (edges g') (edges g) ->
  adj g' a b -> adj g' b c -> ok_mid g' Z a b c -> ok_mid g Z a b c.
Proof.
  intros Ha Hi Hab Hbc [H1 H2].
  assert (Hcol : collider g a b c -> collider g' a b c).
  { intros [E1 E2]. split.
    - destruct Hab as [H|H]; [exact H|]. exfalso. exact (acyclic_no_2cycle g a b Ha E1 (Hi _ H)).
    - destruct Hbc as [H|H]; [|exact H]. exfalso. exact (acyclic_no_2cycle g c b Ha E2 (Hi _ H)). }
  split.
  - intros Hc. destruct (H1 (Hcol Hc)) as [z [Hz Hp]]. exists z. split; [exact Hz|eapply dpath_incl; eauto].
  - intros Hn. apply H2. intros [E1 E2]. apply Hn. split; apply Hi; assumption.
Qed.

Lemma active_incl g g' Z : acyclic g -> incl (edges g') (edges g) ->
  forall t, is_trail g' t -> active g' Z t -> active g Z t.
Proof.
  intros Ha Hi t. induction t as [|a r IH]; [simpl; tauto|].
  destruct r as [|b r1]; [simpl; tauto|].
  destruct r1 as [|c r2]; [simpl; tauto|].
  intros Ht Hact.
  assert (Hab : adj g' a b) by (destruct Ht as [H _]; exact H).
  assert (Ht1 : is_trail g' (b :: c :: r2)) by (destruct Ht as [_ H]; exact H).
  assert (Hbc : adj g' b c) by (destruct Ht1 as [H _]; exact H).
  destruct Hact as [Hm Hr]. split.
  - eapply ok_mid_incl; eauto.
  - apply IH; assumption.
Qed.

Lemma dconnected_incl g g' Z x y : acyclic g -> incl (edges g') (edges g) ->
  dconnected g' Z x y -> dconnected g Z x y.
Proof.
  intros Ha Hi [t (Ht & Hh & Hl & Hact)]. exists t.
  split; [eapply is_trail_incl; eauto|]. split; [exact Hh|]. split; [exact Hl|].
  eapply active_incl; eauto.
Qed.

Lemma atn_incl g g' x Z y : wf_graph g -> wf_graph g' -> acyclic g -> incl (edges g') (edges g) ->
  In x (nodes g) -> In x (nodes g') -> ~ In x Z ->
  In y (active_trail_nodes g' x Z) -> In y (active_trail_nodes g x Z).
Proof.
  intros Hw Hw' Ha Hi Hx Hx' Hz H.
  apply (reach_iff_active_trail g' x Z y Hw' (acyclic_incl g g' Ha Hi) Hx' Hz) in H.
  apply (reach_iff_active_trail g x Z y Hw Ha Hx Hz).
  destruct H as [H1 H2]. split; [exact H1|eapply dconnected_incl; eauto].
Qed.

(* ------------------------------------------------------------------ the removal edits *)
Lemma remove_edges_In g es u v :
  In (u, v) (edges (remove_edges g es)) <-> In (u, v) (edges g) /\ ~ In (u, v) es.
Proof.
  unfold remove_edges. simpl. rewrite filter_In, negb_true_iff. split.
  - intros [H Hf]. split; [exact H|]. intros Hi.
    assert (existsb (edge_eqb (u, v)) es = true)
      by (apply existsb_exists; exists (u, v); split; [exact Hi|apply edge_eqb_eq; reflexivity]).
    congruence.
  - intros [H Hn]. split; [exact H|]. destruct (existsb (edge_eqb (u, v)) es) eqn:E; [|reflexivity].
    exfalso. apply existsb_exists in E. destruct E as [e [He Hq]]. apply edge_eqb_eq in Hq. subst. exact (Hn He).
Qed.

Lemma do_graph_In g ns u v :
  In (u, v) (edges (do_graph g ns)) <-> In (u, v) (edges g) /\ ~ In v ns.
Proof. unfold do_graph. simpl. rewrite filter_In, negb_true_iff, memn_false. simpl. tauto. Qed.

Lemma remove_node_edges_In g w u v :
  In (u, v) (edges (remove_node g w)) <-> In (u, v) (edges g) /\ u <> w /\ v <> w.
Proof.
  unfold remove_node. simpl. rewrite filter_In, andb_true_iff, !negb_true_iff, !Nat.eqb_neq. simpl. tauto.
Qed.

Lemma remove_node_nodes_In g w n : In n (nodes (remove_node g w)) <-> In n (nodes g) /\ n <> w.
Proof. unfold remove_node, remove1. simpl. rewrite filter_In, negb_true_iff, Nat.eqb_neq. tauto. Qed.

Lemma wf_remove_edges g es : wf_graph g -> wf_graph (remove_edges g es).
Proof.
  intros [Hn He]. split; [exact Hn|]. intros u v H. apply remove_edges_In in H. apply He. tauto.
Qed.
Lemma wf_do_graph g ns : wf_graph g -> wf_graph (do_graph g ns).
Proof.
  intros [Hn He]. split; [exact Hn|]. intros u v H. apply do_graph_In in H. apply He. tauto.
Qed.
Lemma wf_remove_node g w : wf_graph g -> wf_graph (remove_node g w).
Proof.
  intros [Hn He]. split.
  - unfold remove_node, remove1. simpl. apply NoDup_filter. exact Hn.
  - intros u v H. apply remove_node_edges_In in H. destruct H as (H & Hu & Hv).
    destruct (He u v H). rewrite !remove_node_nodes_In. tauto.
Qed.

Lemma do_graph_no_parents g ns x : In x ns -> parents (do_graph g ns) x = [].
Proof.
  intros Hx. destruct (parents (do_graph g ns) x) as [|p r] eqn:E; [reflexivity|].
  exfalso. assert (H : In p (parents (do_graph g ns) x)) by (rewrite E; left; reflexivity).
  apply In_parents, do_graph_In in H. tauto.
Qed.

Lemma removals_only_disconnect g x Z y : wf_graph g -> acyclic g -> In x (nodes g) -> ~ In x Z ->
  (forall es, In y (active_trail_nodes (remove_edges g es) x Z) -> In y (active_trail_nodes g x Z)) /\
  (forall ns, In y (active_trail_nodes (do_graph g ns) x Z) -> In y (active_trail_nodes g x Z)) /\
  (forall w, w <> x -> In y (active_trail_nodes (remove_node g w) x Z) -> In y (active_trail_nodes g x Z)).
Proof.
  intros Hw Ha Hx Hz. split; [|split].
  - intros es. apply atn_incl; auto using wf_remove_edges.
    intros [u v] H. apply remove_edges_In in H. tauto.
  - intros ns. apply atn_incl; auto using wf_do_graph.
    intros [u v] H. apply do_graph_In in H. tauto.
  - intros w Hne. apply atn_incl; auto using wf_remove_node.
    + intros [u v] H. apply remove_node_edges_In in H. tauto.
    + apply remove_node_nodes_In. split; [exact Hx|intros E; apply Hne; symmetry; exact E].
Qed.

(* ------------------------------------------------------------------ local Markov set *)
Lemma nondesc_spec g v x : wf_graph g ->
  (In x (nondesc_minus_parents g v) <->
   In x (nodes g) /\ ~ dpath g v x /\ ~ In (x, v) (edges g)).
Proof.
  intros Hw. unfold nondesc_minus_parents.
  rewrite filter_In, andb_true_iff, !negb_true_iff, !memn_false, (desc_of_spec g [v] x Hw), In_parents.
  split.
  - intros (Hx & Hd & Hp). split; [exact Hx|]. split; [|exact Hp].
    intros Hpath. apply Hd. exists v. split; [left; reflexivity|exact Hpath].
  - intros (Hx & Hd & Hp). split; [exact Hx|]. split; [|exact Hp].
    intros [s [[Hs|[]] Hpath]]. subst. exact (Hd Hpath).
Qed.

(* ------------------------------------------------------------------ deciding the hypotheses (for Examples) *)
Fixpoint nodupb (l : list node) : bool :=
  match l with [] => true | a :: r => negb (memn a r) && nodupb r end.

Lemma nodupb_spec l : nodupb l = true -> NoDup l.
Proof.
  induction l as [|a r IH]; simpl; intros H; [constructor|].
  apply andb_true_iff in H. destruct H as [H1 H2]. apply negb_true_iff, memn_false in H1.
  constructor; [exact H1|apply IH; exact H2].
Qed.

Lemma wf_graph_dec g : nodupb (nodes g) && wf_graphb g = true -> wf_graph g.
Proof.
  intros H. apply andb_true_iff in H. destruct H as [H1 H2]. split; [apply nodupb_spec; exact H1|].
  intros u v He. unfold wf_graphb in H2. rewrite forallb_forall in H2. specialize (H2 _ He).
  simpl in H2. apply andb_true_iff in H2. rewrite !memn_In in H2. exact H2.
Qed.

Lemma dag_dec g : nodupb (nodes g) && wf_graphb g && acyclicb g = true -> wf_graph g /\ acyclic g.
Proof.
  intros H. apply andb_true_iff in H. destruct H as [H1 H2].
  pose proof (wf_graph_dec g H1) as Hw. split; [exact Hw|]. apply (acyclicb_spec g Hw). exact H2.
Qed.
