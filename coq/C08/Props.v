(* C08 property theorems.  This file contains only statements, each closed by [exact] of a lemma
   proved in ProofsTrail.v / ProofsMisc.v / ProofsMinsep.v, with Print Assumptions underneath, and
   Examples showing that the hypotheses are satisfiable by non-trivial objects.

   Vocabulary (Base/Graph.v, C08/Spec.v):
     wf_graph g    node list duplicate-free, every edge joins two listed nodes
     acyclic g     no edge (u,v) with a directed path v ->* u
     dconnected g Z x y   there is a trail (list of nodes, consecutive ones adjacent) from x to y on
                   which every interior collider has a descendant-or-self in Z and every interior
                   non-collider is outside Z                                   (path-based definition)  *)
From Coq Require Import List Bool Arith.
From PV Require Import Base.Reach Base.Graph C08.Model C08.Spec
  C08.ProofsTrail C08.ProofsMisc C08.ProofsMinsep.
Import ListNotations.

(* ================================================================== 1. reachability = active trails *)

(* DAG.active_trail_nodes(start=x, observed=Z, include_latents=True)[x], for x not observed, is exactly
   the set of unobserved nodes d-connected to x given Z.  Both directions, every DAG, no size bound. *)
Theorem C08_reach_iff_active_trail : forall g x Z y,
  wf_graph g -> acyclic g -> In x (nodes g) -> ~ In x Z ->
  (In y (active_trail_nodes g x Z) <-> ~ In y Z /\ dconnected g Z x y).
Proof. exact reach_iff_active_trail. Qed.
Print Assumptions C08_reach_iff_active_trail.

(* documented convention of the code: an observed start node has no active trail nodes at all *)
Theorem C08_start_observed : forall g x Z, In x Z -> active_trail_nodes g x Z = [].
Proof. exact start_observed. Qed.
Print Assumptions C08_start_observed.

(* the (node, direction) worklist terminates within the model's fuel: the [None => []] branch of
   [bb_states] is unreachable on well-formed inputs (universe = nodes x {Up, Down}) *)
Theorem C08_worklist_terminates : forall g Z x, wf_graph g -> In x (nodes g) ->
  search st st_eqb (bb_next g Z (anc_of g Z)) (2 * length (nodes g) + 2) [(x, Up)] [] <> None.
Proof. exact bb_states_no_fuel_exhaustion. Qed.
Print Assumptions C08_worklist_terminates.

(* same for the ancestor worklist (_get_ancestors_of) *)
Theorem C08_ancestors_terminates : forall g src, wf_graph g ->
  exists r, search node Nat.eqb (parents g) (length (nodes g) + length src) src [] = Some r.
Proof. exact search_parents_total. Qed.
Print Assumptions C08_ancestors_terminates.

(* the path-based relation is symmetric, hence so are the answers *)
Theorem C08_dconnected_sym : forall g Z x y, dconnected g Z x y -> dconnected g Z y x.
Proof. exact dconnected_sym. Qed.
Print Assumptions C08_dconnected_sym.

(* ================================================================== 2. wrappers *)

(* DAG.is_dconnected(x, y, observed=Z) *)
Theorem C08_is_dconnected_iff : forall g x y Z,
  wf_graph g -> acyclic g -> In x (nodes g) -> ~ In x Z ->
  (is_dconnected g x y Z = true <-> ~ In y Z /\ dconnected g Z x y).
Proof. exact is_dconnected_iff. Qed.
Print Assumptions C08_is_dconnected_iff.

(* include_latents=False only filters the latent nodes out of the answer *)
Theorem C08_include_latents : forall g lat x Z y,
  In y (active_trail_nodes_obs g lat x Z) <-> In y (active_trail_nodes g x Z) /\ ~ In y lat.
Proof. exact include_latents. Qed.
Print Assumptions C08_include_latents.

(* get_independencies(include_latents=incl): for every start node and observed tuple the code draws
   (start not in observed), the asserted set is exactly the visible nodes other than start, outside
   observed, that are d-separated from start given observed *)
Theorem C08_independencies : forall g lat incl start observed v,
  wf_graph g -> acyclic g -> In start (nodes g) -> ~ In start observed ->
  (In v (dsep_vars g lat incl start observed) <->
   In v (nodes g) /\ v <> start /\ (incl = true \/ ~ In v lat) /\ ~ In v observed /\
   ~ dconnected g observed start v).
Proof. exact dsep_vars_spec. Qed.
Print Assumptions C08_independencies.

(* _get_ancestors_of: exactly the nodes with a directed path into the set *)
Theorem C08_ancestors : forall g src x, wf_graph g ->
  (In x (anc_of g src) <-> exists s, In s src /\ dpath g x s).
Proof. exact anc_of_spec. Qed.
Print Assumptions C08_ancestors.

(* get_ancestral_graph(ns): the subgraph induced on the ancestors-or-self of ns *)
Theorem C08_ancestral_graph : forall g ns, wf_graph g ->
  (forall n, In n (nodes (ancestral_graph g ns)) <-> In n (nodes g) /\ exists s, In s ns /\ dpath g n s) /\
  (forall u v, In (u, v) (edges (ancestral_graph g ns)) <->
               In (u, v) (edges g) /\ exists s, In s ns /\ dpath g v s).
Proof.
  intros g ns Hw. split; [intros n; exact (ancestral_nodes g ns n Hw)|intros u v; exact (ancestral_edges g ns u v Hw)].
Qed.
Print Assumptions C08_ancestral_graph.

(* d-connection given Z can be decided inside any ancestor-closed induced subgraph that contains
   x, y and Z; in particular in get_ancestral_graph([x, y] + Z) *)
Theorem C08_ancestral_reduction : forall g ns x y Z,
  wf_graph g -> In x (nodes g) ->
  In x (anc_of g ns) -> In y (anc_of g ns) -> incl Z (anc_of g ns) ->
  is_dconnected (ancestral_graph g ns) x y Z = is_dconnected g x y Z.
Proof.
  intros g ns x y Z Hw Hx Hxk Hyk Hi.
  exact (is_dconnected_induced g _ x y Z Hw (anc_of_up_closed g ns Hw) Hi Hx Hxk Hyk).
Qed.
Print Assumptions C08_ancestral_reduction.

(* get_markov_blanket(n): parents, children and the children's other parents *)
Theorem C08_markov_blanket : forall g n y,
  In y (markov_blanket g n) <->
  y <> n /\ (In (y, n) (edges g) \/ In (n, y) (edges g) \/
             exists c, In (n, c) (edges g) /\ In (y, c) (edges g)).
Proof. exact markov_blanket_spec. Qed.
Print Assumptions C08_markov_blanket.

(* moralize(): u - v is an (undirected) edge iff u, v are distinct and adjacent or share a child *)
Theorem C08_moral_edges : forall g u v, wf_graph g -> acyclic g -> NoDup (edges g) ->
  ((In (u, v) (moral_edges g) \/ In (v, u) (moral_edges g)) <->
   u <> v /\ (adj g u v \/ exists c, In (u, c) (edges g) /\ In (v, c) (edges g))).
Proof. exact moral_edges_spec. Qed.
Print Assumptions C08_moral_edges.

(* local_independencies(v): the asserted set is (nodes not reachable from v) minus parents(v) ... *)
Theorem C08_nondescendants : forall g v x, wf_graph g ->
  (In x (nondesc_minus_parents g v) <->
   In x (nodes g) /\ ~ dpath g v x /\ ~ In (x, v) (edges g)).
Proof. exact nondesc_spec. Qed.
Print Assumptions C08_nondescendants.

(* ... and every such assertion (v _|_ x | parents(v)) is a d-separation of the path definition *)
Theorem C08_local_markov_sound : forall g v x, wf_graph g -> acyclic g -> In v (nodes g) ->
  In x (nondesc_minus_parents g v) -> ~ dconnected g (parents g v) v x.
Proof. exact local_markov_sound. Qed.
Print Assumptions C08_local_markov_sound.

(* get_immoralities(): {u, v} is listed iff u, v are distinct, joined by no edge, and share a child *)
Theorem C08_immoralities : forall g u v, wf_graph g -> NoDup (edges g) ->
  ((In (u, v) (immoralities g) \/ In (v, u) (immoralities g)) <->
   u <> v /\ ~ adj g u v /\ exists c, In (u, c) (edges g) /\ In (v, c) (edges g)).
Proof. exact immoralities_spec. Qed.
Print Assumptions C08_immoralities.

(* the moral graph is the skeleton plus the immoralities *)
Theorem C08_moral_is_skeleton_plus_immoralities : forall g u v, wf_graph g -> acyclic g -> NoDup (edges g) ->
  ((In (u, v) (moral_edges g) \/ In (v, u) (moral_edges g)) <->
   adj g u v \/ In (u, v) (immoralities g) \/ In (v, u) (immoralities g)).
Proof. exact moral_is_skeleton_or_immorality. Qed.
Print Assumptions C08_moral_is_skeleton_plus_immoralities.

(* why the parents of a common child are married: observing the child (the collider) connects them *)
Theorem C08_common_child_dconnected : forall g Z u v c,
  In (u, c) (edges g) -> In (v, c) (edges g) -> In c Z -> dconnected g Z u v.
Proof. exact common_child_dconnected. Qed.
Print Assumptions C08_common_child_dconnected.

(* ================================================================== 2b. edits of one graph object
   Every answer above is a function of the CURRENT graph value (the correspondence run edits one pgmpy
   object through every mutator and compares with the model on the current nodes and edges).  What the
   removal edits do to the answers: *)

(* d-connection is monotone in the edge set (inside an acyclic graph) *)
Theorem C08_dconnected_monotone_in_edges : forall g g' Z x y,
  acyclic g -> incl (edges g') (edges g) -> dconnected g' Z x y -> dconnected g Z x y.
Proof. exact dconnected_incl. Qed.
Print Assumptions C08_dconnected_monotone_in_edges.

(* remove_edge(s), do(..., inplace=True) and remove_node are characterised ... *)
Theorem C08_removal_edits : forall g, wf_graph g ->
  (forall es, wf_graph (remove_edges g es) /\
     forall u v, In (u, v) (edges (remove_edges g es)) <-> In (u, v) (edges g) /\ ~ In (u, v) es) /\
  (forall ns, wf_graph (do_graph g ns) /\ (forall x, In x ns -> parents (do_graph g ns) x = []) /\
     forall u v, In (u, v) (edges (do_graph g ns)) <-> In (u, v) (edges g) /\ ~ In v ns) /\
  (forall w, wf_graph (remove_node g w) /\
     (forall n, In n (nodes (remove_node g w)) <-> In n (nodes g) /\ n <> w) /\
     forall u v, In (u, v) (edges (remove_node g w)) <-> In (u, v) (edges g) /\ u <> w /\ v <> w).
Proof.
  intros g Hw. split; [|split].
  - intros es. split; [exact (wf_remove_edges g es Hw)|exact (remove_edges_In g es)].
  - intros ns. split; [exact (wf_do_graph g ns Hw)|]. split; [exact (do_graph_no_parents g ns)|exact (do_graph_In g ns)].
  - intros w. split; [exact (wf_remove_node g w Hw)|]. split; [exact (remove_node_nodes_In g w)|exact (remove_node_edges_In g w)].
Qed.
Print Assumptions C08_removal_edits.

(* ... and can only remove nodes from an active-trail answer, never add one *)
Theorem C08_removals_only_disconnect : forall g x Z y,
  wf_graph g -> acyclic g -> In x (nodes g) -> ~ In x Z ->
  (forall es, In y (active_trail_nodes (remove_edges g es) x Z) -> In y (active_trail_nodes g x Z)) /\
  (forall ns, In y (active_trail_nodes (do_graph g ns) x Z) -> In y (active_trail_nodes g x Z)) /\
  (forall w, w <> x -> In y (active_trail_nodes (remove_node g w) x Z) -> In y (active_trail_nodes g x Z)).
Proof. exact removals_only_disconnect. Qed.
Print Assumptions C08_removals_only_disconnect.

(* ================================================================== 3. minimal_dseparator *)

(* ValueError exactly for adjacent end points *)
Theorem C08_minsep_adjacent : forall g lat x y lorder order,
  minimal_dseparator g lat x y lorder order = None <-> adjacent g x y = true.
Proof. exact minsep_adjacent_iff. Qed.
Print Assumptions C08_minsep_adjacent.

(* A returned separator s (any latent set; any set-iteration order [lorder i] in pass i of the latent
   replacement loop; any iteration order [order] of the removal loop): contains no
   latent node and neither end point, d-separates x and y IN g (path definition), and removing any
   single member reconnects them. *)
Theorem C08_minsep_post : forall g lat x y lorder order s,
  wf_graph g -> acyclic g -> In x (nodes g) ->
  minimal_dseparator g lat x y lorder order = Some (Some s) ->
  (forall u, In u s -> ~ In u lat) /\ ~ In x s /\ ~ In y s /\
  ~ dconnected g s x y /\
  (forall u, In u s -> dconnected g (remove1 u s) x y).
Proof. exact minsep_post. Qed.
Print Assumptions C08_minsep_post.

(* the same post-condition as the code evaluates it: with its own is_dconnected on the ancestral graph *)
Theorem C08_minsep_post_ancestral : forall g lat x y lorder order s,
  wf_graph g -> acyclic g -> In x (nodes g) ->
  minimal_dseparator g lat x y lorder order = Some (Some s) ->
  let ag := ancestral_graph g [x; y] in
  (forall u, In u s -> ~ In u lat) /\
  incl s (anc_of g [x; y]) /\ ~ In x s /\ ~ In y s /\
  is_dconnected ag x y s = false /\
  (forall u, In u s -> is_dconnected ag x y (remove1 u s) = true).
Proof. exact minsep_post_b. Qed.
Print Assumptions C08_minsep_post_ancestral.

(* the reason one greedy pass suffices: inside An({x,y}) (every node with a parent is an ancestor of
   x or y) enlarging the observed set never creates a connection *)
Theorem C08_dconnected_antitone_in_ancestral : forall g x y Z Z',
  wf_graph g -> In x (nodes g) ->
  (forall p n, In (p, n) (edges g) -> dpath g n x \/ dpath g n y) ->
  incl Z Z' -> is_dconnected g x y Z' = true -> is_dconnected g x y Z = true.
Proof. exact is_dconnected_mono. Qed.
Print Assumptions C08_dconnected_antitone_in_ancestral.

(* without latent variables a separator is returned for every pair of distinct non-adjacent nodes *)
Theorem C08_minsep_exists_no_latents : forall g x y lorder order,
  wf_graph g -> acyclic g -> In x (nodes g) -> In y (nodes g) -> x <> y ->
  adjacent g x y = false ->
  exists s, minimal_dseparator g [] x y lorder order = Some (Some s).
Proof. exact minsep_exists. Qed.
Print Assumptions C08_minsep_exists_no_latents.

(* the latent-replacement loop (whatever the iteration orders) ends within the model's fuel: more fuel
   changes nothing, and the result is latent-free, i.e. the loop exited through its while-condition *)
Theorem C08_minsep_latent_loop_terminates : forall g lat lorder sep k, wf_graph g -> acyclic g ->
  replace_latents (S (length (nodes g)) + k) g lat lorder 0 sep
  = replace_latents (S (length (nodes g))) g lat lorder 0 sep /\
  forall u, In u (replace_latents (S (length (nodes g))) g lat lorder 0 sep) -> ~ In u lat.
Proof. exact replace_latents_enough_fuel. Qed.
Print Assumptions C08_minsep_latent_loop_terminates.

(* ================================================================== Examples: hypotheses are satisfiable *)

(* the collider 0 -> 2 <- 1 with a descendant 2 -> 3 *)
Definition ex_collider : digraph := {| nodes := [0; 1; 2; 3]; edges := [(0, 2); (1, 2); (2, 3)] |}.
Example ex_collider_dag : wf_graph ex_collider /\ acyclic ex_collider.
Proof. apply dag_dec. vm_compute. reflexivity. Qed.
(* nothing observed: the collider blocks 0 from 1 *)
Example ex_collider_blocked : active_trail_nodes ex_collider 0 [] = [3; 2; 0].
Proof. vm_compute. reflexivity. Qed.
(* observing the collider's descendant 3 opens the trail 0 -> 2 <- 1 *)
Example ex_collider_opened : In 1 (active_trail_nodes ex_collider 0 [3]) /\ ~ In 0 [3].
Proof. split; [vm_compute; tauto|simpl; intros [H|[]]; discriminate]. Qed.
Example ex_collider_trail : dconnected ex_collider [3] 0 1.
Proof.
  destruct ex_collider_dag as [Hw Ha].
  apply (C08_reach_iff_active_trail ex_collider 0 [3] 1 Hw Ha); [simpl; auto| |exact (proj1 ex_collider_opened)].
  simpl; intros [H|[]]; discriminate.
Qed.
Example ex_collider_start_observed : active_trail_nodes ex_collider 2 [2] = [].
Proof. vm_compute. reflexivity. Qed.
Example ex_collider_blanket : markov_blanket ex_collider 0 = [2; 1].
Proof. vm_compute. reflexivity. Qed.
Example ex_collider_moral : In (0, 1) (moral_edges ex_collider) /\ NoDup (edges ex_collider).
Proof. split; [vm_compute; tauto|apply NoDup_map_inv with (f := fun e => fst e * 10 + snd e); apply nodupb_spec; vm_compute; reflexivity]. Qed.
Example ex_collider_local : nondesc_minus_parents ex_collider 0 = [1].
Proof. vm_compute. reflexivity. Qed.

(* minimal separators: 0 -> 1 -> 2, 0 -> 3, query (2, 3) *)
Definition ex_chain : digraph := {| nodes := [0; 1; 2; 3; 4]; edges := [(0, 1); (1, 2); (0, 3); (2, 4); (3, 4)] |}.
Example ex_chain_dag : wf_graph ex_chain /\ acyclic ex_chain.
Proof. apply dag_dec. vm_compute. reflexivity. Qed.
(* no latents: parents {1, 0}; 1 is redundant or 0 is, depending on the iteration order *)
Example ex_chain_minsep : minimal_dseparator ex_chain [] 2 3 (fun _ => []) [1; 0] = Some (Some [0]) /\
                          minimal_dseparator ex_chain [] 2 3 (fun _ => []) [0; 1] = Some (Some [1]).
Proof. vm_compute. split; reflexivity. Qed.
(* 1 latent: it is replaced by its parent 0 *)
Example ex_chain_minsep_latent : minimal_dseparator ex_chain [1] 2 3 (fun _ => []) [] = Some (Some [0]).
Proof. vm_compute. reflexivity. Qed.
(* 0 and 1 latent: no separator of observed nodes exists, the code returns None *)
Example ex_chain_minsep_none : minimal_dseparator ex_chain [0; 1] 2 3 (fun _ => []) [] = Some None.
Proof. vm_compute. reflexivity. Qed.
Example ex_chain_adjacent : minimal_dseparator ex_chain [] 0 1 (fun _ => []) [] = None /\ adjacent ex_chain 2 3 = false.
Proof. vm_compute. split; reflexivity. Qed.

(* one pass of the latent loop depends on the set-iteration order (0 -> 1 -> 2 with 0, 1 latent, separator
   {0, 1}: visiting 0 first removes it and re-adds it as the parent of 1), the final separator does not *)
Example ex_lat_step_order_dependent :
  lat_step ex_chain [0; 1] [0; 1] [0; 1] = [0] /\ lat_step ex_chain [0; 1] [1; 0] [0; 1] = [].
Proof. vm_compute. split; reflexivity. Qed.

(* immoralities and edits on the collider example: 0 and 1 are an immorality; removing the edge 2 -> 3
   closes the trail that observing 3 had opened (a stale ancestor set of {3} would keep it open) *)
Example ex_collider_immoralities : immoralities ex_collider = [(0, 1)].
Proof. vm_compute. reflexivity. Qed.
Example ex_collider_edit :
  In 1 (active_trail_nodes ex_collider 0 [3]) /\
  active_trail_nodes (remove_edges ex_collider [(2, 3)]) 0 [3] = [2; 0] /\
  active_trail_nodes (do_graph ex_collider [3]) 0 [3] = [2; 0] /\
  active_trail_nodes (remove_node ex_collider 2) 0 [3] = [0].
Proof. vm_compute. tauto. Qed.
