(* C08 property theorems.  This file contains only statements, each closed by [exact] of a lemma
   proved elsewhere, with Print Assumptions underneath. *)
From Coq Require Import List Bool Arith.
From PV Require Import Base.Reach Base.Graph C08.Model C08.Spec.
Import ListNotations.

(* _get_ancestors_of / get_ancestral_graph: exactly the nodes with a directed path into the set *)
Theorem C08_ancestors : forall g src x, wf_graph g ->
  (In x (anc_of g src) <-> exists s, In s src /\ dpath g x s).
Proof. exact anc_of_spec. Qed.
Print Assumptions C08_ancestors.
