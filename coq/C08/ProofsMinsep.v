(* C08 proofs, part 3: minimal_dseparator.
   - d-connection given Z is decided inside the ancestral graph of {x,y} u Z      (ancestral_reduction)
   - inside An({x,y}) d-connection is antitone in the observed set                 (is_dconnected_mono)
   - the latent-replacement loop terminates within its fuel and ends latent-free   (replace_latents_no_latent)
   - greedy one-pass removal: separating, 1-minimal                                (minsep_post)
   - without latents the parents of x and y separate non-adjacent x, y             (minsep_exists) *)
From Coq Require Import List Bool Arith Lia PeanoNat.
From PV Require Import Base.Reach Base.Graph C08.Model C08.Spec C08.ProofsTrail C08.ProofsMisc.
Import ListNotations.

(* ------------------------------------------------------------------ moving along directed paths *)
Lemma down_reach g Z x n w : dpath g n w -> R g Z x (n, Down) ->
  (forall v, dpath g n v -> ~ In v Z) -> R g Z x (w, Down).
Proof.
  intros Hp. induction Hp as [u|u v w Hp IH He]; intros HR Hd; [exact HR|].
  eapply R_step; [apply IH; assumption|]. apply In_bb_next. split; [apply Hd; exact Hp|exact He].
Qed.

Lemma up_reach g Z x u w : dpath g u w -> R g Z x (w, Up) ->
  (forall v, dpath g u v -> ~ In v Z) -> R g Z x (u, Up).
Proof.
  intros Hp. revert u w Hp.
  apply (dpath_ind_left g (fun u w => R g Z x (w, Up) -> (forall v, dpath g u v -> ~ In v Z) -> R g Z x (u, Up))).
  - intros u HR _. exact HR.
  - intros u v w He Hp IH HR Hd.
    assert (Hv : R g Z x (v, Up)).
    { apply IH; [exact HR|]. intros v' Hv'. apply Hd. eapply dpath_step_l; eauto. }
    eapply R_step; [exact Hv|]. apply In_bb_next. split; [|exact He].
    apply Hd. eapply dpath_step; [apply dpath_refl|exact He].
Qed.

(* ------------------------------------------------------------------ monotonicity inside An({x,y}) *)
(* every node that has a parent is an ancestor-or-self of x or y *)
Definition all_anc (g : digraph) (x y : node) : Prop :=
  forall p n, In (p, n) (edges g) -> dpath g n x \/ dpath g n y.

Lemma R_mono g x y Z Z' : wf_graph g -> all_anc g x y -> incl Z Z' ->
  forall s, R g Z' x s -> R g Z x s \/ exists d, R g Z x (y, d).
Proof.
  intros Hw Hall Hi s Hs. induction Hs as [s Hs|[n d] [m e] _ IH Hy].
  - left. apply reach_src. exact Hs.
  - destruct IH as [IH|IH]; [|right; exact IH].
    apply In_bb_next in Hy.
    destruct d, e.
    + left. eapply R_step; [exact IH|]. apply In_bb_next. destruct Hy as [H1 H2]. split; [|exact H2].
      intros Hz. apply H1. apply Hi. exact Hz.
    + left. eapply R_step; [exact IH|]. apply In_bb_next. destruct Hy as [H1 H2]. split; [|exact H2].
      intros Hz. apply H1. apply Hi. exact Hz.
    + destruct Hy as [H1 H2].
      destruct (memn n (anc_of g Z)) eqn:E.
      * apply memn_In in E. left. eapply R_step; [exact IH|]. apply In_bb_next. tauto.
      * apply memn_false in E.
        assert (Hd : forall v, dpath g n v -> ~ In v Z).
        { intros v Hv Hz. apply E. apply (anc_of_spec g Z n Hw). exists v. tauto. }
        destruct (Hall m n H2) as [Hx|Hyy].
        -- left. assert (Hn : R g Z x (n, Up)).
           { eapply up_reach; [exact Hx| |exact Hd]. apply reach_src. left. reflexivity. }
           eapply R_step; [exact Hn|]. apply In_bb_next. split; [|exact H2].
           apply Hd. apply dpath_refl.
        -- right. exists Down. eapply down_reach; [exact Hyy|exact IH|exact Hd].
    + left. eapply R_step; [exact IH|]. apply In_bb_next. destruct Hy as [H1 H2]. split; [|exact H2].
      intros Hz. apply H1. apply Hi. exact Hz.
Qed.

Lemma is_dconnected_mono g x y Z Z' : wf_graph g -> In x (nodes g) -> all_anc g x y -> incl Z Z' ->
  is_dconnected g x y Z' = true -> is_dconnected g x y Z = true.
Proof.
  intros Hw Hx Hall Hi. unfold is_dconnected. rewrite !memn_In, !(atn_reach g _ x y Hw Hx).
  intros [Hy [d Hd]]. split; [intros Hz; apply Hy; apply Hi; exact Hz|].
  destruct (R_mono g x y Z Z' Hw Hall Hi _ Hd) as [H|H]; [exists d; exact H|exact H].
Qed.

(* ------------------------------------------------------------------ reduction to the ancestral graph *)
Lemma anc_of_induced g keep Z n : wf_graph g -> up_closed g keep -> incl Z keep ->
  (In n (anc_of (induced g keep) Z) <-> In n (anc_of g Z)).
Proof.
  intros Hw Hc Hi. rewrite (anc_of_spec _ Z n (wf_induced g keep Hw)), (anc_of_spec g Z n Hw).
  split; intros [s [Hs Hp]]; exists s; (split; [exact Hs|]).
  - eapply dpath_induced_sub; exact Hp.
  - apply dpath_induced_up; [exact Hc|exact Hp|apply Hi; exact Hs].
Qed.

Lemma R_induced_sub g keep Z x : wf_graph g -> up_closed g keep -> incl Z keep ->
  forall s, R (induced g keep) Z x s -> R g Z x s.
Proof.
  intros Hw Hc Hi s Hs. induction Hs as [s Hs|[n d] [m e] _ IH Hy].
  - apply reach_src. exact Hs.
  - eapply R_step; [exact IH|]. apply In_bb_next in Hy. apply In_bb_next.
    destruct d, e; rewrite induced_edges in Hy; try rewrite (anc_of_induced g keep Z n Hw Hc Hi) in Hy;
      tauto.
Qed.

Lemma R_induced_up g keep Z x : wf_graph g -> up_closed g keep -> incl Z keep -> In x keep ->
  forall s, R g Z x s ->
    (In (fst s) keep /\ R (induced g keep) Z x s) \/ (~ In (fst s) keep /\ snd s = Down).
Proof.
  intros Hw Hc Hi Hx s Hs. induction Hs as [s Hs|[n d] [m e] _ IH Hy].
  - left. destruct Hs as [Hs|[]]. subst. split; [exact Hx|apply reach_src; left; reflexivity].
  - simpl in *. apply In_bb_next in Hy.
    destruct (memn m keep) eqn:Em; [apply memn_In in Em|apply memn_false in Em].
    + destruct IH as [[Hn IH]|[Hn ->]].
      * left. split; [exact Em|]. eapply R_step; [exact IH|]. apply In_bb_next.
        destruct d, e; rewrite induced_edges; try rewrite (anc_of_induced g keep Z n Hw Hc Hi); tauto.
      * (* from outside keep one never comes back *)
        exfalso. destruct e.
        -- destruct Hy as [H1 _]. apply Hn. apply (anc_of_spec g Z n Hw) in H1.
           destruct H1 as [s [Hs Hp]]. eapply dpath_up_closed; [exact Hc|exact Hp|apply Hi; exact Hs].
        -- destruct Hy as [_ H2]. apply Hn. eapply Hc; eauto.
    + right. split; [exact Em|]. destruct e; [exfalso|reflexivity].
      destruct IH as [[Hn _]|[Hn ->]].
      * destruct d; destruct Hy as [_ H2]; apply Em; eapply Hc; eauto.
      * destruct Hy as [H1 _]. apply Hn. apply (anc_of_spec g Z n Hw) in H1.
        destruct H1 as [s [Hs Hp]]. eapply dpath_up_closed; [exact Hc|exact Hp|apply Hi; exact Hs].
Qed.

(* d-connection of x and y given Z can be decided in any ancestor-closed induced subgraph
   containing x, y and Z *)
Lemma is_dconnected_induced g keep x y Z : wf_graph g -> up_closed g keep -> incl Z keep ->
  In x (nodes g) -> In x keep -> In y keep ->
  is_dconnected (induced g keep) x y Z = is_dconnected g x y Z.
Proof.
  intros Hw Hc Hi Hxn Hx Hy.
  assert (Hxi : In x (nodes (induced g keep))) by (apply induced_nodes; tauto).
  apply eq_true_iff_eq. unfold is_dconnected.
  rewrite !memn_In, (atn_reach g Z x y Hw Hxn), (atn_reach _ Z x y (wf_induced g keep Hw) Hxi).
  split; intros [Hz [d Hd]]; (split; [exact Hz|]); exists d.
  - apply (R_induced_sub g keep Z x Hw Hc Hi). exact Hd.
  - destruct (R_induced_up g keep Z x Hw Hc Hi Hx _ Hd) as [[_ H]|[H _]]; [exact H|].
    simpl in H. contradiction.
Qed.

(* ------------------------------------------------------------------ the ancestral graph of {x,y} *)
Lemma ancestral_all_anc g x y : wf_graph g -> all_anc (ancestral_graph g [x; y]) x y.
Proof.
  intros Hw p n He. unfold ancestral_graph in *. apply induced_edges in He.
  destruct He as (_ & _ & Hn). apply (anc_of_spec g [x; y] n Hw) in Hn.
  destruct Hn as [s [Hs Hp]].
  assert (Hsk : In s (anc_of g [x; y])) by (apply anc_of_self; assumption).
  pose proof (dpath_induced_up g _ n s (anc_of_up_closed g [x; y] Hw) Hp Hsk) as Hq.
  destruct Hs as [Hs|[Hs|[]]]; subst; tauto.
Qed.

(* ------------------------------------------------------------------ latent replacement *)
Inductive dpathn (g : digraph) : nat -> node -> node -> Prop :=
| dpn0 u : dpathn g 0 u u
| dpnS k u v w : In (u, v) (edges g) -> dpathn g k v w -> dpathn g (S k) u w.

Lemma dpathn_bound g k u w : wf_graph g -> acyclic g -> dpathn g k u w -> k <= length (nodes g).
Proof.
  intros Hw Ha H.
  assert (G : exists l, length l = k /\ NoDup l /\ incl l (nodes g) /\
                        forall v, In v l -> exists c, In (u, c) (edges g) /\ dpath g c v).
  { induction H as [u|k u v w He _ IH].
    - exists []. split; [reflexivity|]. split; [constructor|]. split; [intros ? []|intros ? []].
    - destruct IH as [l (Hl & Hn & Hi & Hd)]. exists (v :: l).
      split; [simpl; congruence|]. split.
      + constructor; [|exact Hn]. intros Hv. destruct (Hd v Hv) as [c [Hc Hp]].
        exact (Ha v c Hc Hp).
      + split.
        * intros z [Hz|Hz]; [subst; destruct Hw as [_ Hw]; apply (Hw u z He)|apply Hi; exact Hz].
        * intros z [Hz|Hz]; [subst; exists z; split; [exact He|apply dpath_refl]|].
          destruct (Hd z Hz) as [c [Hc Hp]]. exists v. split; [exact He|].
          eapply dpath_step_l; eauto. }
  destruct G as [l (Hl & Hn & Hi & _)]. rewrite <- Hl. apply NoDup_incl_length; assumption.
Qed.

Lemma In_remove1 a x l : In a (remove1 x l) <-> In a l /\ a <> x.
Proof. unfold remove1. rewrite filter_In, negb_true_iff, Nat.eqb_neq. tauto. Qed.

Lemma iter_order_incl order s u : In u (iter_order order s) -> In u s.
Proof.
  unfold iter_order. rewrite in_app_iff, !filter_In, memn_In. tauto.
Qed.

Lemma iter_order_complete order s u : In u s -> In u (iter_order order s).
Proof.
  intros Hu. unfold iter_order. rewrite in_app_iff, !filter_In, dedup_In, memn_In.
  destruct (memn u order) eqn:E; [apply memn_In in E; tauto|right; tauto].
Qed.

(* members after one pass: non-latent old members, or parents of latent old members (whatever the
   iteration order) *)
Lemma lat_step_members g lat ord sep v :
  In v (lat_step g lat ord sep) ->
  (In v sep /\ ~ In v lat) \/ (exists l, In l sep /\ In l lat /\ In (v, l) (edges g)).
Proof.
  unfold lat_step.
  set (P := fun v => (In v sep /\ ~ In v lat) \/ (exists l, In l sep /\ In l lat /\ In (v, l) (edges g))).
  assert (G : forall todo copy, incl todo sep ->
            (forall v, In v copy -> P v \/ (In v lat /\ In v todo)) ->
            forall v, In v (fold_left (fun copy u => if memn u lat then dedup (remove1 u copy ++ parents g u) else copy)
                                      todo copy) -> P v).
  { induction todo as [|u todo IH]; intros copy Hi Hinv w Hw.
    - simpl in Hw. destruct (Hinv w Hw) as [H|[_ []]]. exact H.
    - simpl in Hw. revert Hw. apply IH.
      + intros z Hz. apply Hi. right. exact Hz.
      + intros z Hz. destruct (memn u lat) eqn:E.
        * apply memn_In in E. rewrite dedup_In, in_app_iff, In_remove1, In_parents in Hz.
          destruct Hz as [[Hz Hne]|Hz].
          -- destruct (Hinv z Hz) as [H|[H1 [H2|H2]]]; [left; exact H|congruence|right; tauto].
          -- left. right. exists u. split; [apply Hi; left; reflexivity|tauto].
        * apply memn_false in E. destruct (Hinv z Hz) as [H|[H1 [H2|H2]]]; [left; exact H| |right; tauto].
          subst. contradiction. }
  apply G.
  - intros z Hz. eapply iter_order_incl. exact Hz.
  - intros z Hz. destruct (memn z lat) eqn:E.
    + apply memn_In in E. right. split; [exact E|apply iter_order_complete; exact Hz].
    + apply memn_false in E. left. left. tauto.
Qed.

Lemma replace_latents_unfold fuel g lat lorder i sep :
  replace_latents fuel g lat lorder i sep =
  match fuel with
  | 0 => sep
  | S f => if existsb (fun u => memn u lat) sep
           then replace_latents f g lat lorder (S i) (lat_step g lat (lorder i) sep) else sep
  end.
Proof. destruct fuel; reflexivity. Qed.

Lemma replace_latents_no_latent g lat lorder : wf_graph g -> acyclic g ->
  forall fuel i k sep,
    (forall u, In u sep -> In u lat -> exists w, dpathn g k u w) ->
    length (nodes g) < k + fuel ->
    forall u, In u (replace_latents fuel g lat lorder i sep) -> ~ In u lat.
Proof.
  intros Hw Ha. induction fuel as [|f IH]; intros i k sep Hinv Hk u Hu Hl; rewrite replace_latents_unfold in Hu.
  - destruct (Hinv u Hu Hl) as [w Hp]. pose proof (dpathn_bound g k u w Hw Ha Hp). lia.
  - destruct (existsb (fun u => memn u lat) sep) eqn:E.
    + revert Hl. apply (IH (S i) (S k) (lat_step g lat (lorder i) sep)); [|lia|exact Hu].
      intros v Hv Hvl. apply lat_step_members in Hv. destruct Hv as [[_ Hv]|[l (H1 & H2 & H3)]]; [contradiction|].
      destruct (Hinv l H1 H2) as [w Hp]. exists w. econstructor; eauto.
    + assert (Ht : existsb (fun u => memn u lat) sep = true).
      { apply existsb_exists. exists u. split; [exact Hu|apply memn_In; exact Hl]. }
      congruence.
Qed.

(* members stay inside any ancestor-closed set that contains the initial separator *)
Lemma replace_latents_incl g lat lorder keep : up_closed g keep ->
  forall fuel i sep, incl sep keep -> incl (replace_latents fuel g lat lorder i sep) keep.
Proof.
  intros Hc. induction fuel as [|f IH]; intros i sep Hi; rewrite replace_latents_unfold; [exact Hi|].
  destruct (existsb (fun u => memn u lat) sep); [|exact Hi].
  apply IH. intros u Hu. apply lat_step_members in Hu. destruct Hu as [[H _]|[l (H1 & _ & H3)]].
  - apply Hi. exact H.
  - eapply Hc; [exact H3|apply Hi; exact H1].
Qed.

Lemma replace_latents_nolat_id fuel g lorder i sep : replace_latents fuel g [] lorder i sep = sep.
Proof.
  rewrite replace_latents_unfold. destruct fuel; [reflexivity|].
  assert (E : existsb (fun u => memn u []) sep = false).
  { destruct (existsb (fun u => memn u []) sep) eqn:E; [|reflexivity].
    apply existsb_exists in E. destruct E as [u [_ E]]. discriminate. }
  rewrite E. reflexivity.
Qed.

(* ------------------------------------------------------------------ greedy removal loop *)
Section Greedy.
Variable conn : list node -> bool.
Definition gstep (ms : list node) (u : node) : list node :=
  if conn (remove1 u ms) then ms else remove1 u ms.

Lemma gstep_incl ms u : incl (gstep ms u) ms.
Proof. unfold gstep. destruct (conn (remove1 u ms)); intros a Ha; [exact Ha|]. apply In_remove1 in Ha. tauto. Qed.

Lemma fold_incl : forall ord ms, incl (fold_left gstep ord ms) ms.
Proof.
  induction ord as [|u ord IH]; intros ms; simpl; [apply incl_refl|].
  eapply incl_tran; [apply IH|apply gstep_incl].
Qed.

Lemma fold_sep : forall ord ms, conn ms = false -> conn (fold_left gstep ord ms) = false.
Proof.
  induction ord as [|u ord IH]; intros ms H; simpl; [exact H|]. apply IH.
  unfold gstep. destruct (conn (remove1 u ms)) eqn:E; assumption.
Qed.

Lemma fold_min : forall ord ms u, In u ord -> In u (fold_left gstep ord ms) ->
  exists ms', incl (fold_left gstep ord ms) ms' /\ incl ms' ms /\ conn (remove1 u ms') = true.
Proof.
  induction ord as [|a ord IH]; intros ms u Hu Hr; [destruct Hu|]. simpl in *.
  destruct Hu as [Hu|Hu].
  - subst a. unfold gstep in *. destruct (conn (remove1 u ms)) eqn:E.
    + exists ms. split; [apply fold_incl|]. split; [apply incl_refl|exact E].
    + exfalso. apply (fold_incl ord _ u) in Hr. apply In_remove1 in Hr. tauto.
  - destruct (IH (gstep ms a) u Hu Hr) as [ms' (H1 & H2 & H3)]. exists ms'.
    split; [exact H1|]. split; [|exact H3]. eapply incl_tran; [exact H2|apply gstep_incl].
Qed.
End Greedy.

(* ------------------------------------------------------------------ post-condition *)
Definition sep_init (g : digraph) (lat : list node) (lorder : nat -> list node) (x y : node) : list node :=
  remove1 x (remove1 y (replace_latents (S (length (nodes g))) g lat lorder 0 (dedup (parents g x ++ parents g y)))).

Lemma minimal_dseparator_unfold g lat x y lorder order :
  minimal_dseparator g lat x y lorder order =
  if adjacent g x y then None
  else
    let ag := ancestral_graph g [x; y] in
    let sep := sep_init g lat lorder x y in
    if is_dconnected ag x y sep then Some None
    else Some (Some (fold_left (gstep (is_dconnected ag x y))
                       (iter_order order sep) sep)).
Proof. reflexivity. Qed.

Lemma sep_init_props g lat lorder x y : wf_graph g -> acyclic g ->
  (forall u, In u (sep_init g lat lorder x y) -> ~ In u lat) /\
  incl (sep_init g lat lorder x y) (anc_of g [x; y]) /\
  ~ In x (sep_init g lat lorder x y) /\ ~ In y (sep_init g lat lorder x y).
Proof.
  intros Hw Ha. unfold sep_init. split; [|split; [|split]].
  - intros u Hu. apply In_remove1 in Hu. destruct Hu as [Hu _]. apply In_remove1 in Hu. destruct Hu as [Hu _].
    revert Hu. apply (replace_latents_no_latent g lat lorder Hw Ha _ 0 0); [|lia].
    intros v _ _. exists v. constructor.
  - intros u Hu. apply In_remove1 in Hu. destruct Hu as [Hu _]. apply In_remove1 in Hu. destruct Hu as [Hu _].
    revert u Hu. apply replace_latents_incl; [apply anc_of_up_closed; exact Hw|].
    intros u Hu. rewrite dedup_In in Hu. apply in_app_or in Hu.
    destruct Hu as [Hu|Hu]; apply In_parents in Hu;
      (eapply (anc_of_up_closed g [x; y] Hw); [exact Hu|]); apply anc_of_self; simpl; auto.
  - intros H. apply In_remove1 in H. tauto.
  - intros H. apply In_remove1 in H. destruct H as [H _]. apply In_remove1 in H. tauto.
Qed.

Lemma minsep_post_b g lat x y lorder order s : wf_graph g -> acyclic g -> In x (nodes g) ->
  minimal_dseparator g lat x y lorder order = Some (Some s) ->
  let ag := ancestral_graph g [x; y] in
  (forall u, In u s -> ~ In u lat) /\
  incl s (anc_of g [x; y]) /\ ~ In x s /\ ~ In y s /\
  is_dconnected ag x y s = false /\
  (forall u, In u s -> is_dconnected ag x y (remove1 u s) = true).
Proof.
  intros Hw Ha Hx H ag. rewrite minimal_dseparator_unfold in H.
  destruct (adjacent g x y); [discriminate|]. cbv zeta in H. fold ag in H.
  destruct (is_dconnected ag x y (sep_init g lat lorder x y)) eqn:Hsep; [discriminate|].
  inversion H as [Hs]. clear H.
  set (sep := sep_init g lat lorder x y) in *.
  set (ord := iter_order order sep) in *.
  destruct (sep_init_props g lat lorder x y Hw Ha) as (P1 & P2 & P3 & P4). fold sep in P1, P2, P3, P4.
  pose proof (fold_incl (is_dconnected ag x y) ord sep) as Hsub.
  split; [intros u Hu; apply P1; apply Hsub; exact Hu|].
  split; [intros u Hu; apply P2; apply Hsub; exact Hu|].
  split; [intros Hu; apply P3; apply Hsub; exact Hu|].
  split; [intros Hu; apply P4; apply Hsub; exact Hu|].
  split; [apply fold_sep; exact Hsep|].
  intros u Hu.
  assert (Hord : In u ord) by (apply iter_order_complete; apply Hsub; exact Hu).
  destruct (fold_min (is_dconnected ag x y) ord sep u Hord Hu) as [ms' (H1 & H2 & H3)].
  assert (Hxa : In x (nodes ag)).
  { apply induced_nodes. split; [exact Hx|]. apply anc_of_self; simpl; auto. }
  apply (is_dconnected_mono ag x y _ (remove1 u ms') (ancestral_wf g _ Hw) Hxa (ancestral_all_anc g x y Hw));
    [|exact H3].
  intros a Ha'. apply In_remove1 in Ha'. apply In_remove1. split; [apply H1; tauto|tauto].
Qed.

(* the same, in terms of the path-based definition and of the whole graph g *)
Lemma minsep_post g lat x y lorder order s : wf_graph g -> acyclic g -> In x (nodes g) ->
  minimal_dseparator g lat x y lorder order = Some (Some s) ->
  (forall u, In u s -> ~ In u lat) /\ ~ In x s /\ ~ In y s /\
  ~ dconnected g s x y /\
  (forall u, In u s -> dconnected g (remove1 u s) x y).
Proof.
  intros Hw Ha Hx H.
  destruct (minsep_post_b g lat x y lorder order s Hw Ha Hx H) as (P1 & P2 & P3 & P4 & P5 & P6).
  split; [exact P1|]. split; [exact P3|]. split; [exact P4|].
  assert (Hc := anc_of_up_closed g [x; y] Hw).
  assert (Hxk : In x (anc_of g [x; y])) by (apply anc_of_self; simpl; auto).
  assert (Hyk : In y (anc_of g [x; y])) by (apply anc_of_self; simpl; auto).
  unfold ancestral_graph in *. split.
  - rewrite (is_dconnected_induced g _ x y s Hw Hc P2 Hx Hxk Hyk) in P5.
    apply (is_dconnected_false_iff g x y s Hw Ha Hx P3 P4). exact P5.
  - intros u Hu. specialize (P6 u Hu).
    assert (Hi : incl (remove1 u s) (anc_of g [x; y])).
    { intros a Ha'. apply In_remove1 in Ha'. apply P2. tauto. }
    rewrite (is_dconnected_induced g _ x y _ Hw Hc Hi Hx Hxk Hyk) in P6.
    apply (is_dconnected_iff g x y _ Hw Ha Hx) in P6; [tauto|].
    intros Hin. apply In_remove1 in Hin. tauto.
Qed.

(* ------------------------------------------------------------------ existence without latents *)
(* the parents of y block every trail from y to a non-descendant *)
Lemma parents_block g y Z : wf_graph g -> acyclic g ->
  (forall p, In (p, y) (edges g) -> In p Z) ->
  (forall z, In z Z -> ~ dpath g y z) ->
  forall s, R g Z y s ->
    s = (y, Up) \/ (snd s = Up /\ In (fst s, y) (edges g)) \/
    (snd s = Down /\ exists c, In (y, c) (edges g) /\ dpath g c (fst s)).
Proof.
  intros Hw Ha Hpa Hnd s Hs. induction Hs as [s Hs|[n d] [m e] _ IH Hy].
  - left. destruct Hs as [Hs|[]]. auto.
  - simpl in *. apply In_bb_next in Hy.
    destruct IH as [IH|[[Hd Hn]|[Hd [c [Hc Hp]]]]].
    + inversion IH; subst. destruct e; destruct Hy as [H1 H2].
      * right. left. tauto.
      * right. right. split; [reflexivity|]. exists m. split; [exact H2|apply dpath_refl].
    + subst d. exfalso. destruct e; destruct Hy as [H1 _]; apply H1; apply Hpa; exact Hn.
    + subst d. destruct e; destruct Hy as [H1 H2].
      * exfalso. apply (anc_of_spec g Z n Hw) in H1. destruct H1 as [z [Hz Hpz]].
        apply (Hnd z Hz). eapply dpath_step_l; [exact Hc|]. eapply dpath_trans; eauto.
      * right. right. split; [reflexivity|]. exists c. split; [exact Hc|]. eapply dpath_step; eauto.
Qed.

Lemma parents_separate g x y Z : wf_graph g -> acyclic g -> In y (nodes g) ->
  (forall p, In (p, y) (edges g) -> In p Z) ->
  (forall z, In z Z -> ~ dpath g y z) ->
  x <> y -> ~ In (x, y) (edges g) -> ~ dpath g y x ->
  is_dconnected g y x Z = false.
Proof.
  intros Hw Ha Hy Hpa Hnd Hne Hnadj Hnp.
  destruct (is_dconnected g y x Z) eqn:E; [|reflexivity]. exfalso.
  unfold is_dconnected in E. apply memn_In in E. apply (atn_reach g Z y x Hw Hy) in E.
  destruct E as [_ [d Hd]].
  destruct (parents_block g y Z Hw Ha Hpa Hnd _ Hd) as [H|[[_ H]|[_ [c [Hc Hp]]]]]; simpl in *.
  - inversion H. congruence.
  - exact (Hnadj H).
  - apply Hnp. eapply dpath_step_l; eauto.
Qed.

Lemma is_dconnected_sym g x y Z : wf_graph g -> acyclic g -> In x (nodes g) -> In y (nodes g) ->
  ~ In x Z -> ~ In y Z -> is_dconnected g x y Z = is_dconnected g y x Z.
Proof.
  intros Hw Ha Hx Hy Hxz Hyz. apply eq_true_iff_eq.
  rewrite (is_dconnected_iff g x y Z Hw Ha Hx Hxz), (is_dconnected_iff g y x Z Hw Ha Hy Hyz).
  split; intros [_ H]; (split; [assumption|apply dconnected_sym; exact H]).
Qed.

Lemma all_anc_sym g x y : all_anc g x y -> all_anc g y x.
Proof. intros H p n He. destruct (H p n He); tauto. Qed.

Lemma minsep_exists g x y lorder order : wf_graph g -> acyclic g -> In x (nodes g) -> In y (nodes g) ->
  x <> y -> adjacent g x y = false ->
  exists s, minimal_dseparator g [] x y lorder order = Some (Some s).
Proof.
  intros Hw Ha Hx Hy Hne Hadj. rewrite minimal_dseparator_unfold, Hadj. cbv zeta.
  set (ag := ancestral_graph g [x; y]). set (sep := sep_init g [] lorder x y).
  assert (Hsep : is_dconnected ag x y sep = false); [|rewrite Hsep; eexists; reflexivity].
  unfold adjacent in Hadj. apply orb_false_iff in Hadj. destruct Hadj as [H1 H2].
  assert (Hxy : ~ In (x, y) (edges g)) by (intros H; apply has_edge_In in H; congruence).
  assert (Hyx : ~ In (y, x) (edges g)) by (intros H; apply has_edge_In in H; congruence).
  assert (Hwa : wf_graph ag) by (apply ancestral_wf; exact Hw).
  assert (Haa : acyclic ag) by (apply ancestral_acyclic; exact Ha).
  assert (Hxk : In x (anc_of g [x; y])) by (apply anc_of_self; simpl; auto).
  assert (Hyk : In y (anc_of g [x; y])) by (apply anc_of_self; simpl; auto).
  assert (Hxa : In x (nodes ag)) by (apply induced_nodes; tauto).
  assert (Hya : In y (nodes ag)) by (apply induced_nodes; tauto).
  assert (Hall := ancestral_all_anc g x y Hw). fold ag in Hall.
  (* membership in sep *)
  assert (Hin : forall u, In u sep <-> In (u, x) (edges g) \/ In (u, y) (edges g)).
  { intros u. unfold sep, sep_init. rewrite replace_latents_nolat_id, !In_remove1, dedup_In, in_app_iff, !In_parents.
    split; [tauto|]. intros [H|H]; (split; [split; [tauto|]|]); intros ->; try contradiction;
      exact (acyclic_no_self g _ Ha H). }
  assert (Hxs : ~ In x sep).
  { intros H. apply Hin in H. destruct H as [H|H]; [exact (acyclic_no_self g _ Ha H)|contradiction]. }
  assert (Hys : ~ In y sep).
  { intros H. apply Hin in H. destruct H as [H|H]; [contradiction|exact (acyclic_no_self g _ Ha H)]. }
  (* one of x, y is not a descendant of the other *)
  destruct (has_path g y x) eqn:Ep.
  - (* y ->* x, hence no path x ->* y: block at x with the parents of x *)
    apply (has_path_spec g y x Hw) in Ep.
    assert (Hnp : ~ dpath ag x y).
    { intros Hp. apply dpath_induced_sub in Hp.
      revert Ep. clear - Hp Ha Hne. intros Ep.
      destruct Hp as [u|u v w Hp He]; [congruence|].
      apply (Ha v w He). eapply dpath_trans; eauto. }
    destruct (is_dconnected ag x y sep) eqn:E; [|reflexivity]. exfalso.
    set (Z0 := parents g x).
    assert (H0 : is_dconnected ag x y Z0 = false).
    { apply (parents_separate ag y x Z0 Hwa Haa Hxa).
      - intros p Hp. apply induced_edges in Hp. apply In_parents. tauto.
      - intros z Hz Hp. apply In_parents in Hz. apply dpath_induced_sub in Hp. exact (Ha z x Hz Hp).
      - congruence.
      - intros H. apply induced_edges in H. tauto.
      - exact Hnp. }
    assert (H0' : is_dconnected ag x y Z0 = true); [|congruence].
    apply (is_dconnected_mono ag x y Z0 sep Hwa Hxa Hall); [|exact E].
    intros u Hu. apply Hin. left. apply In_parents. exact Hu.
  - assert (Hnp : ~ dpath ag y x).
    { intros Hp. apply dpath_induced_sub in Hp. apply (has_path_spec g y x Hw) in Hp. congruence. }
    rewrite (is_dconnected_sym ag x y sep Hwa Haa Hxa Hya Hxs Hys).
    destruct (is_dconnected ag y x sep) eqn:E; [|reflexivity]. exfalso.
    set (Z0 := parents g y).
    assert (H0 : is_dconnected ag y x Z0 = false).
    { apply (parents_separate ag x y Z0 Hwa Haa Hya).
      - intros p Hp. apply induced_edges in Hp. apply In_parents. tauto.
      - intros z Hz Hp. apply In_parents in Hz. apply dpath_induced_sub in Hp. exact (Ha z y Hz Hp).
      - exact Hne.
      - intros H. apply induced_edges in H. tauto.
      - exact Hnp. }
    assert (H0' : is_dconnected ag y x Z0 = true); [|congruence].
    apply (is_dconnected_mono ag y x Z0 sep Hwa Hya (all_anc_sym _ _ _ Hall)); [|exact E].
    intros u Hu. apply Hin. right. apply In_parents. exact Hu.
Qed.

(* ------------------------------------------------------------------ fuel of the latent loop *)
Lemma replace_latents_fuel_stable g lat lorder : forall f k i sep,
  (forall u, In u (replace_latents f g lat lorder i sep) -> ~ In u lat) ->
  replace_latents (f + k) g lat lorder i sep = replace_latents f g lat lorder i sep.
Proof.
  induction f as [|f IH]; intros k i sep Hno.
  - simpl in *. rewrite replace_latents_unfold. destruct k; [reflexivity|].
    destruct (existsb (fun u => memn u lat) sep) eqn:E; [|reflexivity].
    apply existsb_exists in E. destruct E as [u [Hu Hl]]. apply memn_In in Hl.
    exfalso. exact (Hno u Hu Hl).
  - change (S f + k) with (S (f + k)). rewrite (replace_latents_unfold (S (f + k))), (replace_latents_unfold (S f)).
    rewrite (replace_latents_unfold (S f)) in Hno.
    destruct (existsb (fun u => memn u lat) sep); [|reflexivity]. apply IH. exact Hno.
Qed.

Lemma replace_latents_enough_fuel g lat lorder sep k : wf_graph g -> acyclic g ->
  replace_latents (S (length (nodes g)) + k) g lat lorder 0 sep
  = replace_latents (S (length (nodes g))) g lat lorder 0 sep /\
  forall u, In u (replace_latents (S (length (nodes g))) g lat lorder 0 sep) -> ~ In u lat.
Proof.
  intros Hw Ha.
  assert (H : forall u, In u (replace_latents (S (length (nodes g))) g lat lorder 0 sep) -> ~ In u lat).
  { apply (replace_latents_no_latent g lat lorder Hw Ha _ 0 0); [|lia]. intros v _ _. exists v. constructor. }
  split; [apply replace_latents_fuel_stable; exact H|exact H].
Qed.

(* ------------------------------------------------------------------ local Markov property *)
Lemma local_markov_sound g v x : wf_graph g -> acyclic g -> In v (nodes g) ->
  In x (nondesc_minus_parents g v) -> ~ dconnected g (parents g v) v x.
Proof.
  intros Hw Ha Hv Hx. apply (nondesc_spec g v x Hw) in Hx. destruct Hx as (Hxn & Hnd & Hnp).
  assert (Hvz : ~ In v (parents g v)).
  { intros H. apply In_parents in H. exact (acyclic_no_self g v Ha H). }
  assert (Hxz : ~ In x (parents g v)) by (intros H; apply In_parents in H; contradiction).
  apply (is_dconnected_false_iff g v x _ Hw Ha Hv Hvz Hxz).
  apply (parents_separate g x v (parents g v) Hw Ha Hv).
  - intros p Hp. apply In_parents. exact Hp.
  - intros z Hz Hp. apply In_parents in Hz. exact (Ha z v Hz Hp).
  - intros ->. apply Hnd. apply dpath_refl.
  - exact Hnp.
  - exact Hnd.
Qed.

Lemma minsep_adjacent_iff g lat x y lorder order :
  minimal_dseparator g lat x y lorder order = None <-> adjacent g x y = true.
Proof.
  rewrite minimal_dseparator_unfold. destruct (adjacent g x y); cbv zeta.
  - tauto.
  - destruct (is_dconnected _ x y _); split; intros H; discriminate.
Qed.
