(* C08 model: pgmpy/base/DAG.py d-separation family, as coded (after the two fix: commits
   for falsy observed nodes and latent end nodes).  Executable definitions only. *)
From Coq Require Import List Bool Arith PeanoNat.
From PV Require Import Base.Reach Base.Graph.
Import ListNotations.

Inductive dir := Up | Down.
Definition st : Type := node * dir.
Definition dir_eqb (a b : dir) : bool :=
  match a, b with Up, Up => true | Down, Down => true | _, _ => false end.
Definition st_eqb (a b : st) : bool := Nat.eqb (fst a) (fst b) && dir_eqb (snd a) (snd b).

(* one expansion of the (node, direction) worklist of DAG.active_trail_nodes;
   Z = observed_list, An = _get_ancestors_of(observed_list) *)
Definition bb_next (g : digraph) (Z An : list node) (s : st) : list st :=
  let (n, d) := s in
  match d with
  | Up => if memn n Z then []
          else map (fun p => (p, Up)) (parents g n) ++ map (fun c => (c, Down)) (children g n)
  | Down => (if memn n Z then [] else map (fun c => (c, Down)) (children g n))
            ++ (if memn n An then map (fun p => (p, Up)) (parents g n) else [])
  end.

Definition bb_states (g : digraph) (Z : list node) (start : node) : list st :=
  match search st st_eqb (bb_next g Z (anc_of g Z)) (2 * length (nodes g) + 2) [(start, Up)] [] with
  | Some r => r | None => [] end.

Fixpoint dedup (l : list node) : list node :=
  match l with [] => [] | x :: r => if memn x r then dedup r else x :: dedup r end.

(* active_trail_nodes(start, observed=Z, include_latents=True)[start] *)
Definition active_trail_nodes (g : digraph) (start : node) (Z : list node) : list node :=
  dedup (filter (fun n => negb (memn n Z)) (map fst (bb_states g Z start))).

(* ... with include_latents=False: minus self.latents *)
Definition active_trail_nodes_obs (g : digraph) (lat : list node) (start : node) (Z : list node) :=
  filter (fun n => negb (memn n lat)) (active_trail_nodes g start Z).

Definition is_dconnected (g : digraph) (x y : node) (Z : list node) : bool :=
  memn y (active_trail_nodes g x Z).

(* get_independencies(include_latents=incl): for a start node and an observed tuple drawn from
   [indep_rest], the asserted set is  rest - observed - active_trail_nodes(start, observed, incl)[start];
   an assertion (start _|_ dsep_vars | observed) is added when it is non-empty *)
Definition indep_rest (g : digraph) (lat : list node) (incl : bool) (start : node) : list node :=
  filter (fun v => negb (Nat.eqb v start) && (incl || negb (memn v lat))) (nodes g).
Definition dsep_vars (g : digraph) (lat : list node) (incl : bool) (start : node) (observed : list node)
  : list node :=
  let act := if incl then active_trail_nodes g start observed
             else active_trail_nodes_obs g lat start observed in
  filter (fun v => negb (memn v observed) && negb (memn v act)) (indep_rest g lat incl start).

(* get_ancestral_graph(nodes): induced subgraph on the ancestors-or-self *)
Definition induced (g : digraph) (keep : list node) : digraph :=
  {| nodes := filter (fun n => memn n keep) (nodes g);
     edges := filter (fun e => memn (fst e) keep && memn (snd e) keep) (edges g) |}.
Definition ancestral_graph (g : digraph) (ns : list node) : digraph := induced g (anc_of g ns).

(* moralize(): undirected edges as unordered pairs, returned as a list of (u,v); the harness
   canonicalises to sorted pairs *)
Fixpoint pairs (l : list node) : list (node * node) :=
  match l with [] => [] | x :: r => map (fun y => (x, y)) r ++ pairs r end.
Definition moral_edges (g : digraph) : list (node * node) :=
  edges g ++ flat_map (fun n => pairs (parents g n)) (nodes g).

(* get_immoralities(): for every node, every unordered pair of its parents that is joined by no edge in
   either direction (the code returns tuple(sorted(pair)); the harness canonicalises to sorted pairs).
   [adjacent] is defined with minimal_dseparator below; the test is written out here. *)
Definition immoralities (g : digraph) : list (node * node) :=
  flat_map (fun n => filter (fun p => negb (has_edge g (fst p) (snd p) || has_edge g (snd p) (fst p)))
                            (pairs (parents g n))) (nodes g).

(* get_markov_blanket(node) *)
Definition markov_blanket (g : digraph) (n : node) : list node :=
  let ch := children g n in
  filter (fun x => negb (Nat.eqb x n))
    (dedup (ch ++ parents g n ++ flat_map (parents g) ch)).

(* local_independencies(v): (non-descendants minus parents, parents) or None when empty *)
Definition nondesc_minus_parents (g : digraph) (v : node) : list node :=
  let d := desc_of g [v] in
  filter (fun x => negb (memn x d) && negb (memn x (parents g v))) (nodes g).

(* minimal_dseparator(start, end) with latent set [lat].  Python iterates over sets in two loops; the
   iteration orders are explicit parameters: [lorder i] for pass i of the latent-replacement loop,
   [order] for the final removal loop (see [iter_order]).
   Result: None = ValueError (adjacent), Some None = returned None, Some (Some s) = separator. *)
Definition adjacent (g : digraph) (u v : node) : bool := has_edge g u v || has_edge g v u.

Definition remove1 (x : node) (l : list node) : list node := filter (fun y => negb (Nat.eqb y x)) l.

(* iteration order of the Python set [s]: every member exactly once; members listed in the priority
   list [order] come first in that order, the others afterwards *)
Definition iter_order (order s : list node) : list node :=
  filter (fun u => memn u s) (dedup order) ++ filter (fun u => negb (memn u order)) s.

(* one pass of   separator_copy = separator.copy()
                 for u in separator:
                     if u in self.latents: separator_copy.remove(u); separator_copy.update(predecessors(u))
   (a latent removed early in the pass can be re-added as the parent of a later latent: the outcome of
   one pass depends on the iteration order [ord]) *)
Definition lat_step (g : digraph) (lat ord sep : list node) : list node :=
  fold_left (fun copy u => if memn u lat then dedup (remove1 u copy ++ parents g u) else copy)
            (iter_order ord sep) sep.

(* while len(separator & latents) != 0: <one pass>.  [lorder i] is the iteration order of pass i. *)
Fixpoint replace_latents (fuel : nat) (g : digraph) (lat : list node) (lorder : nat -> list node)
  (i : nat) (sep : list node) : list node :=
  match fuel with
  | 0 => sep
  | S f =>
      if existsb (fun u => memn u lat) sep
      then replace_latents f g lat lorder (S i) (lat_step g lat (lorder i) sep)
      else sep
  end.

Definition minimal_dseparator (g : digraph) (lat : list node) (x y : node)
  (lorder : nat -> list node) (order : list node)
  : option (option (list node)) :=
  if adjacent g x y then None
  else
    let ag := ancestral_graph g [x; y] in
    let sep0 := replace_latents (S (length (nodes g))) g lat lorder 0 (dedup (parents g x ++ parents g y)) in
    let sep := remove1 x (remove1 y sep0) in
    if is_dconnected ag x y sep then Some None
    else
      Some (Some (fold_left
              (fun (ms : list node) (u : node) =>
                 if is_dconnected ag x y (remove1 u ms) then ms else remove1 u ms)
              (iter_order order sep) sep)).

(* ------------------------------------------------------------------ graph edits (sessions on one object)
   The mutators a DAG / BayesianNetwork object offers (own or inherited from networkx), as functions on
   the graph value; every query above is a function of the CURRENT graph only. *)
(* remove_edge / remove_edges_from (missing edges are ignored by remove_edges_from) *)
Definition remove_edges (g : digraph) (es : list (node * node)) : digraph :=
  {| nodes := nodes g; edges := filter (fun e => negb (existsb (edge_eqb e) es)) (edges g) |}.
(* remove_node / remove_nodes_from: the node and every edge touching it *)
Definition remove_node (g : digraph) (v : node) : digraph :=
  {| nodes := remove1 v (nodes g);
     edges := filter (fun e => negb (Nat.eqb (fst e) v) && negb (Nat.eqb (snd e) v)) (edges g) |}.
(* do(ns, inplace=True): every edge INTO a member of ns is removed *)
Definition do_graph (g : digraph) (ns : list node) : digraph :=
  {| nodes := nodes g; edges := filter (fun e => negb (memn (snd e) ns)) (edges g) |}.
(* add_node / add_nodes_from: nodes already present are kept once *)
Definition add_nodes (g : digraph) (ns : list node) : digraph :=
  {| nodes := fold_left (fun acc n => if memn n acc then acc else acc ++ [n]) ns (nodes g); edges := edges g |}.
(* add_edge / add_edges_from: end points are added on demand, an edge already present is kept once *)
Definition add_edge1 (g : digraph) (e : node * node) : digraph :=
  let g1 := add_nodes g [fst e; snd e] in
  {| nodes := nodes g1; edges := if has_edge g (fst e) (snd e) then edges g else edges g ++ [e] |}.
Definition add_edges (g : digraph) (es : list (node * node)) : digraph := fold_left add_edge1 es g.
(* clear_edges() / clear() *)
Definition clear_edges (g : digraph) : digraph := {| nodes := nodes g; edges := [] |}.
