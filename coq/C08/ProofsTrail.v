(* C08 proofs, part 1: the (node, direction) worklist of active_trail_nodes computes exactly the
   path-based d-connection relation of Spec.v. *)
From Coq Require Import List Bool Arith Lia PeanoNat.
From PV Require Import Base.Reach Base.Graph C08.Model C08.Spec.
Import ListNotations.

(* ------------------------------------------------------------------ small facts *)
Lemma st_eqb_spec a b : st_eqb a b = true <-> a = b.
Proof.
  destruct a as [n d], b as [m e]. unfold st_eqb. simpl.
  rewrite andb_true_iff, Nat.eqb_eq. split.
  - intros [-> H]. destruct d, e; simpl in H; try discriminate; reflexivity.
  - intros H. inversion H. subst. split; [reflexivity|destruct e; reflexivity].
Qed.

Lemma acyclic_no_self g u : acyclic g -> ~ In (u, u) (edges g).
Proof. intros Ha He. exact (Ha u u He (dpath_refl g u)). Qed.

Lemma acyclic_no_2cycle g u v : acyclic g -> In (u, v) (edges g) -> ~ In (v, u) (edges g).
Proof.
  intros Ha H1 H2. apply (Ha u v H1). eapply dpath_step; [apply dpath_refl|exact H2].
Qed.

Lemma dedup_In x l : In x (dedup l) <-> In x l.
Proof.
  induction l as [|a l IH]; simpl; [tauto|].
  destruct (memn a l) eqn:E.
  - rewrite IH. apply memn_In in E. split; [auto|]. intros [H|H]; [subst; exact E|exact H].
  - simpl. rewrite IH. tauto.
Qed.

Lemma dedup_NoDup l : NoDup (dedup l).
Proof.
  induction l as [|a l IH]; simpl; [constructor|].
  destruct (memn a l) eqn:E; [exact IH|].
  constructor; [|exact IH]. rewrite dedup_In. apply memn_false. exact E.
Qed.

(* ------------------------------------------------------------------ one worklist expansion *)
Lemma In_map_tag (d e : dir) (m : node) (l : list node) :
  In (m, e) (map (fun p => (p, d)) l) <-> e = d /\ In m l.
Proof.
  rewrite in_map_iff. split.
  - intros [p [Hp Hi]]. inversion Hp; subst. split; [reflexivity|exact Hi].
  - intros [-> Hi]. exists m. split; [reflexivity|exact Hi].
Qed.

Lemma In_bb_next g Z An n d m e :
  In (m, e) (bb_next g Z An (n, d)) <->
  match d, e with
  | Up, Up => ~ In n Z /\ In (m, n) (edges g)
  | Up, Down => ~ In n Z /\ In (n, m) (edges g)
  | Down, Down => ~ In n Z /\ In (n, m) (edges g)
  | Down, Up => In n An /\ In (m, n) (edges g)
  end.
Proof.
  unfold bb_next. destruct d.
  - destruct (memn n Z) eqn:E.
    + apply memn_In in E. simpl. destruct e; tauto.
    + apply memn_false in E. rewrite in_app_iff, !In_map_tag, In_parents, In_children.
      destruct e; split; intros H.
      * destruct H as [[_ H]|[H _]]; [tauto|discriminate].
      * left. tauto.
      * destruct H as [[H _]|[_ H]]; [discriminate|tauto].
      * right. tauto.
  - rewrite in_app_iff.
    assert (HZ : In (m, e) (if memn n Z then [] else map (fun c => (c, Down)) (children g n))
                 <-> e = Down /\ ~ In n Z /\ In (n, m) (edges g)).
    { destruct (memn n Z) eqn:E.
      - apply memn_In in E. simpl. tauto.
      - apply memn_false in E. rewrite In_map_tag, In_children. tauto. }
    assert (HA : In (m, e) (if memn n An then map (fun p => (p, Up)) (parents g n) else [])
                 <-> e = Up /\ In n An /\ In (m, n) (edges g)).
    { destruct (memn n An) eqn:E.
      - apply memn_In in E. rewrite In_map_tag, In_parents. tauto.
      - apply memn_false in E. simpl. tauto. }
    rewrite HZ, HA. destruct e; split; intros H.
    + destruct H as [[H _]|[_ H]]; [discriminate|exact H].
    + right. tauto.
    + destruct H as [[_ H]|[H _]]; [exact H|discriminate].
    + left. tauto.
Qed.

(* the reachability relation of the worklist *)
Definition R (g : digraph) (Z : list node) (x : node) (s : st) : Prop :=
  reach st (bb_next g Z (anc_of g Z)) [(x, Up)] s.

(* ------------------------------------------------------------------ termination / fuel *)
Lemma bb_states_total g Z x : wf_graph g -> In x (nodes g) ->
  exists r, search st st_eqb (bb_next g Z (anc_of g Z)) (2 * length (nodes g) + 2) [(x, Up)] [] = Some r.
Proof.
  intros [Hn He] Hx.
  apply (search_fuel_enough st st_eqb st_eqb_spec (bb_next g Z (anc_of g Z))
           (list_prod (nodes g) [Up; Down])).
  - intros [n d] [m e] _ Hy. apply In_bb_next in Hy. apply in_prod_iff.
    split; [|destruct e; simpl; auto].
    destruct d, e; destruct Hy as [_ Hy]; apply He in Hy; tauto.
  - intros z [Hz|[]]. subst. apply in_prod_iff. split; [exact Hx|simpl; auto].
  - intros z [].
  - constructor.
  - pose proof (prod_length (nodes g) [Up; Down]) as Hp. unfold st, node in *. simpl length in *. lia.
Qed.

Lemma bb_states_spec g Z x s : wf_graph g -> In x (nodes g) ->
  (In s (bb_states g Z x) <-> R g Z x s).
Proof.
  intros Hw Hx. unfold bb_states, R. destruct (bb_states_total g Z x Hw Hx) as [r Hr]. rewrite Hr.
  apply (search_correct st st_eqb st_eqb_spec _ _ _ _ Hr).
Qed.

(* the fuel-exhaustion branch of bb_states is unreachable on well-formed inputs *)
Lemma bb_states_no_fuel_exhaustion g Z x : wf_graph g -> In x (nodes g) ->
  search st st_eqb (bb_next g Z (anc_of g Z)) (2 * length (nodes g) + 2) [(x, Up)] [] <> None.
Proof. intros Hw Hx. destruct (bb_states_total g Z x Hw Hx) as [r Hr]. rewrite Hr. discriminate. Qed.

Lemma atn_reach g Z x y : wf_graph g -> In x (nodes g) ->
  (In y (active_trail_nodes g x Z) <-> ~ In y Z /\ exists d, R g Z x (y, d)).
Proof.
  intros Hw Hx. unfold active_trail_nodes.
  rewrite dedup_In, filter_In, in_map_iff, negb_true_iff, memn_false. split.
  - intros [[[m d] [Hs Hi]] Hz]. simpl in Hs. subst. split; [exact Hz|].
    exists d. apply (bb_states_spec g Z x _ Hw Hx). exact Hi.
  - intros [Hz [d Hd]]. split; [|exact Hz]. exists (y, d). split; [reflexivity|].
    apply (bb_states_spec g Z x _ Hw Hx). exact Hd.
Qed.

Lemma atn_NoDup g x Z : NoDup (active_trail_nodes g x Z).
Proof. apply dedup_NoDup. Qed.

(* ------------------------------------------------------------------ start observed *)
Lemma start_observed g x Z : In x Z -> active_trail_nodes g x Z = [].
Proof.
  intros Hx. unfold active_trail_nodes, bb_states.
  replace (2 * length (nodes g) + 2) with (S (2 * length (nodes g) + 1)) by lia.
  rewrite search_unfold. cbn [mem existsb].
  assert (E : bb_next g Z (anc_of g Z) (x, Up) = []).
  { unfold bb_next. apply memn_In in Hx. rewrite Hx. reflexivity. }
  rewrite E. cbn [app]. rewrite search_unfold. cbn [map fst filter].
  apply memn_In in Hx. rewrite Hx. reflexivity.
Qed.

(* ------------------------------------------------------------------ trails: reversal *)
Lemma adj_sym g a b : adj g a b -> adj g b a.
Proof. unfold adj. tauto. Qed.

Lemma collider_sym g a b c : collider g a b c <-> collider g c b a.
Proof. unfold collider. tauto. Qed.

Lemma ok_mid_sym g Z a b c : ok_mid g Z a b c -> ok_mid g Z c b a.
Proof.
  unfold ok_mid. intros [H1 H2]. split.
  - intros Hc. apply H1. apply collider_sym. exact Hc.
  - intros Hc. apply H2. intros Hc'. apply Hc. apply collider_sym. exact Hc'.
Qed.

Lemma is_trail_snoc g : forall l a b,
  is_trail g (l ++ [a]) -> adj g a b -> is_trail g (l ++ [a; b]).
Proof.
  induction l as [|c l IH]; intros a b Ht Hab.
  - simpl. split; [exact Hab|exact I].
  - destruct l as [|d l'].
    + simpl in Ht |- *. destruct Ht as [Hca _]. split; [exact Hca|split; [exact Hab|exact I]].
    + change (is_trail g (c :: d :: (l' ++ [a]))) in Ht. destruct Ht as [Hcd Ht].
      change (adj g c d /\ is_trail g ((d :: l') ++ [a; b])). split; [exact Hcd|].
      apply IH; assumption.
Qed.

Lemma is_trail_rev g t : is_trail g t -> is_trail g (rev t).
Proof.
  induction t as [|a t IH]; intros Ht; [exact Ht|].
  destruct t as [|b t'].
  - exact I.
  - destruct Ht as [Hab Ht]. specialize (IH Ht).
    change (rev (a :: b :: t')) with ((rev t' ++ [b]) ++ [a]).
    rewrite <- app_assoc. simpl. apply is_trail_snoc; [exact IH|apply adj_sym; exact Hab].
Qed.

Lemma active_snoc g Z : forall l b a c,
  active g Z (l ++ [b; a]) -> ok_mid g Z b a c -> active g Z (l ++ [b; a; c]).
Proof.
  induction l as [|d l IH]; intros b a c Ht Hm.
  - simpl. split; [exact Hm|exact I].
  - destruct l as [|e l'].
    + simpl in Ht |- *. destruct Ht as [H1 _]. split; [exact H1|split; [exact Hm|exact I]].
    + destruct l' as [|f l''].
      * simpl in Ht |- *. destruct Ht as [H1 [H2 _]].
        split; [exact H1|split; [exact H2|split; [exact Hm|exact I]]].
      * change (active g Z (d :: e :: f :: (l'' ++ [b; a]))) in Ht. destruct Ht as [H1 Ht].
        change (ok_mid g Z d e f /\ active g Z ((e :: f :: l'') ++ [b; a; c])).
        split; [exact H1|]. apply IH; assumption.
Qed.

Lemma active_rev g Z t : active g Z t -> active g Z (rev t).
Proof.
  induction t as [|a t IH]; intros Ht; [exact Ht|].
  destruct t as [|b t']; [exact I|].
  destruct t' as [|c t'']; [exact I|].
  destruct Ht as [Hm Ht]. specialize (IH Ht).
  change (rev (a :: b :: c :: t'')) with (((rev t'' ++ [c]) ++ [b]) ++ [a]).
  change (rev (b :: c :: t'')) with ((rev t'' ++ [c]) ++ [b]) in IH.
  rewrite <- !app_assoc in *. simpl in *.
  apply active_snoc; [exact IH|apply ok_mid_sym; exact Hm].
Qed.

Lemma hd_error_rev (t : list node) d : t <> [] -> hd_error (rev t) = Some (last t d).
Proof.
  induction t as [|a t IH]; intros Hne; [congruence|].
  destruct t as [|b t']; [reflexivity|].
  change (rev (a :: b :: t')) with (rev (b :: t') ++ [a]).
  assert (Hn : b :: t' <> []) by discriminate. specialize (IH Hn).
  destruct (rev (b :: t')) as [|r rs] eqn:E; [discriminate|].
  simpl in *. exact IH.
Qed.

Lemma last_rev (t : list node) d a : hd_error t = Some a -> last (rev t) d = a.
Proof.
  destruct t as [|b t]; simpl; intros H; [discriminate|]. inversion H; subst. apply last_last.
Qed.

Lemma dconnected_sym g Z x y : dconnected g Z x y -> dconnected g Z y x.
Proof.
  intros [t (Ht & Hh & Hl & Ha)]. exists (rev t).
  assert (Hne : t <> []) by (destruct t; [discriminate|discriminate]).
  split; [apply is_trail_rev; exact Ht|].
  split; [rewrite (hd_error_rev t x Hne), Hl; reflexivity|].
  split; [apply last_rev; exact Hh|apply active_rev; exact Ha].
Qed.

(* ------------------------------------------------------------------ soundness *)
(* trails with the END node at the head of the list; [arrive d t]: direction of the last edge *)
Definition arrive (g : digraph) (d : dir) (t : list node) : Prop :=
  match t with
  | n :: p :: _ => match d with Up => In (n, p) (edges g) | Down => In (p, n) (edges g) end
  | [_] => d = Up
  | [] => False
  end.

Lemma reach_sound g Z x : wf_graph g -> acyclic g -> forall s, R g Z x s ->
  exists t, is_trail g t /\ hd_error t = Some (fst s) /\ last t x = x /\ active g Z t
            /\ arrive g (snd s) t.
Proof.
  intros Hw Ha s Hs. induction Hs as [s Hs|[n d] [m e] _ IH Hy].
  - destruct Hs as [Hs|[]]. subst. exists [x]. simpl. repeat split; auto.
  - destruct IH as [t (Ht & Hh & Hl & Hact & Harr)]. simpl in *.
    destruct t as [|n' t0]; [discriminate|]. simpl in Hh. inversion Hh; subst n'. clear Hh.
    apply In_bb_next in Hy.
    exists (m :: n :: t0).
    assert (Hadj : adj g m n).
    { unfold adj. destruct d, e; tauto. }
    split; [split; [exact Hadj|exact Ht]|].
    split; [reflexivity|].
    split; [exact Hl|].
    split.
    + destruct t0 as [|p t1]; [exact I|]. split; [|exact Hact].
      simpl in Harr. unfold ok_mid, collider.
      destruct d, e; destruct Hy as [Hy1 Hy2].
      * split; [intros [_ Hc]; exfalso; exact (acyclic_no_2cycle g _ _ Ha Harr Hc)|intros _; exact Hy1].
      * split; [intros [Hc _]; exfalso; exact (acyclic_no_2cycle g _ _ Ha Hy2 Hc)|intros _; exact Hy1].
      * split.
        -- intros _. apply (anc_of_spec g Z n Hw) in Hy1. exact Hy1.
        -- intros Hnc. exfalso. apply Hnc. split; assumption.
      * split; [intros [Hc _]; exfalso; exact (acyclic_no_2cycle g _ _ Ha Hy2 Hc)|intros _; exact Hy1].
    + simpl. destruct d, e; tauto.
Qed.

(* ------------------------------------------------------------------ completeness *)
Lemma R_step g Z x n d m e : R g Z x (n, d) -> In (m, e) (bb_next g Z (anc_of g Z) (n, d)) -> R g Z x (m, e).
Proof. intros H1 H2. eapply reach_step; eauto. Qed.

Lemma reach_complete g Z x : wf_graph g -> acyclic g -> ~ In x Z -> forall t,
  is_trail g t -> last t x = x -> active g Z t ->
  match t with
  | [] => True
  | [n] => R g Z x (n, Up)
  | n :: p :: _ => (In (n, p) (edges g) -> R g Z x (n, Up)) /\ (In (p, n) (edges g) -> R g Z x (n, Down))
  end.
Proof.
  intros Hw Ha Hx. induction t as [|n t IH]; intros Ht Hl Hact; [exact I|].
  destruct t as [|p t0].
  - simpl in Hl. subst. apply reach_src. left. reflexivity.
  - destruct Ht as [Hnp Ht].
    assert (Hl' : last (p :: t0) x = x) by exact Hl.
    destruct t0 as [|q t1].
    + specialize (IH Ht Hl' I). simpl in Hl'. subst p.
      split; intros He; (eapply R_step; [exact IH|]); apply In_bb_next; tauto.
    + destruct Hact as [Hm Hact]. specialize (IH Ht Hl' Hact). destruct IH as [IHu IHd].
      destruct Ht as [Hpq _]. destruct Hm as [Hm1 Hm2]. unfold collider in *.
      destruct Hpq as [Hpq|Hqp].
      * (* arrived at p from its child q: p is not a collider *)
        assert (Hp : ~ In p Z).
        { apply Hm2. intros [_ Hc]. exact (acyclic_no_2cycle g _ _ Ha Hpq Hc). }
        specialize (IHu Hpq).
        split; intros He; (eapply R_step; [exact IHu|]); apply In_bb_next; tauto.
      * specialize (IHd Hqp). split; intros He.
        -- (* collider n -> p <- q *)
           eapply R_step; [exact IHd|]. apply In_bb_next. split; [|exact He].
           apply (anc_of_spec g Z p Hw). apply Hm1. split; assumption.
        -- assert (Hp : ~ In p Z).
           { apply Hm2. intros [Hc _]. exact (acyclic_no_2cycle g _ _ Ha He Hc). }
           eapply R_step; [exact IHd|]. apply In_bb_next. tauto.
Qed.

Lemma reach_complete_hd g Z x y t : wf_graph g -> acyclic g -> ~ In x Z ->
  is_trail g t -> hd_error t = Some y -> last t x = x -> active g Z t -> exists d, R g Z x (y, d).
Proof.
  intros Hw Ha Hx Ht Hh Hl Hact.
  pose proof (reach_complete g Z x Hw Ha Hx t Ht Hl Hact) as H.
  destruct t as [|n t0]; [discriminate|]. simpl in Hh. inversion Hh; subst n.
  destruct t0 as [|p t1].
  - exists Up. exact H.
  - destruct H as [H1 H2]. destruct Ht as [[He|He] _]; [exists Up; auto|exists Down; auto].
Qed.

(* ------------------------------------------------------------------ main theorem *)
Lemma last_default (l : list node) d1 d2 : l <> [] -> last l d1 = last l d2.
Proof.
  induction l as [|a l IH]; intros Hne; [congruence|].
  destruct l as [|b l']; [reflexivity|].
  change (last (b :: l') d1 = last (b :: l') d2). apply IH. discriminate.
Qed.

Lemma R_iff_dconnected g Z x y : wf_graph g -> acyclic g -> ~ In x Z ->
  ((exists d, R g Z x (y, d)) <-> dconnected g Z x y).
Proof.
  intros Hw Ha Hx. split.
  - intros [d Hd]. destruct (reach_sound g Z x Hw Ha _ Hd) as [t (Ht & Hh & Hl & Hact & _)].
    simpl in Hh. apply dconnected_sym. exists t.
    split; [exact Ht|]. split; [exact Hh|]. split; [|exact Hact].
    transitivity (last t x); [apply last_default; destruct t; discriminate|exact Hl].
  - intros Hc. apply dconnected_sym in Hc. destruct Hc as [t (Ht & Hh & Hl & Hact)].
    apply (reach_complete_hd g Z x y t Hw Ha Hx Ht Hh); [|exact Hact].
    transitivity (last t y); [apply last_default; destruct t; discriminate|exact Hl].
Qed.

Theorem reach_iff_active_trail g x Z y : wf_graph g -> acyclic g -> In x (nodes g) -> ~ In x Z ->
  (In y (active_trail_nodes g x Z) <-> ~ In y Z /\ dconnected g Z x y).
Proof.
  intros Hw Ha Hx Hz. rewrite (atn_reach g Z x y Hw Hx), (R_iff_dconnected g Z x y Hw Ha Hz). tauto.
Qed.
