(* C08 specification: the path-based definition of d-separation (Koller & Friedman def. 3.6/3.7,
   Pearl).  No algorithm here. *)
From Coq Require Import List Bool Arith.
From PV Require Import Base.Graph.
Import ListNotations.

Definition adj (g : digraph) (u v : node) : Prop := In (u, v) (edges g) \/ In (v, u) (edges g).

(* a trail is a list of nodes, consecutive ones adjacent *)
Fixpoint is_trail (g : digraph) (t : list node) : Prop :=
  match t with
  | [] => False
  | [x] => True
  | x :: ((y :: _) as r) => adj g x y /\ is_trail g r
  end.

(* b is a collider between a and c on the trail:  a -> b <- c *)
Definition collider (g : digraph) (a b c : node) : Prop := In (a, b) (edges g) /\ In (c, b) (edges g).

(* condition on an interior node b with trail neighbours a and c, observed set Z *)
Definition ok_mid (g : digraph) (Z : list node) (a b c : node) : Prop :=
  (collider g a b c -> exists z, In z Z /\ dpath g b z) /\
  (~ collider g a b c -> ~ In b Z).

Fixpoint active (g : digraph) (Z : list node) (t : list node) : Prop :=
  match t with
  | a :: ((b :: ((c :: _) as r2)) as r1) => ok_mid g Z a b c /\ active g Z r1
  | _ => True
  end.

(* x and y are d-connected given Z *)
Definition dconnected (g : digraph) (Z : list node) (x y : node) : Prop :=
  exists t, is_trail g t /\ hd_error t = Some x /\ last t x = y /\ active g Z t.
