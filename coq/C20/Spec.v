(* C20 specification vocabulary: blocks of a mean vector / covariance matrix taken BY VARIABLE NAME,
   and the textbook Gaussian conditioning formulas written with such blocks.  No algorithm here. *)
From Coq Require Import List Bool Arith.
From PV Require Import Base.Graph Base.Matrix.
Import ListNotations.

(* position of a name in an order (the name is required to occur wherever this is used) *)
Definition pos (ord : list nat) (v : nat) : nat :=
  match index_of v ord with Some i => i | None => 0 end.

Section Spec.
Variable K : fieldT.

(* entries of vector v (indexed like ord) for the listed names, in the listed order *)
Definition nvec (v : vec K) (ord names : list nat) : vec K :=
  vbuild (length names) (fun a => vget v (pos ord (nth a names 0))).
(* block of M (rows and columns indexed like ord): rows named by rs, columns named by cs *)
Definition nblock (M : mat K) (ord rs cs : list nat) : mat K :=
  mbuild (length rs) (length cs) (fun a b => mget M (pos ord (nth a rs 0)) (pos ord (nth b cs 0))).

(* W is a two-sided inverse of the n x n matrix M *)
Definition is_inverse (n : nat) (W M : mat K) : Prop :=
  wf n n W /\ mmul n W M = mid K n /\ mmul n M W = mid K n.

(* Gaussian conditioning of (mu, S) on the variables B = x, for the variables A:
     mu_A + S_AB S_BB^-1 (x - mu_B)            S_AA - S_AB S_BB^-1 S_BA          (W stands for S_BB^-1) *)
Definition cond_mean (mu : vec K) (S : mat K) (ord A B : list nat) (W : mat K) (x : vec K) : vec K :=
  vplus (nvec mu ord A) (mvmul (mmul (length B) (nblock S ord A B) W) (vminus x (nvec mu ord B))).
Definition cond_cov (S : mat K) (ord A B : list nat) (W : mat K) : mat K :=
  mminus (length A) (nblock S ord A A)
         (mmul (length A) (mmul (length B) (nblock S ord A B) W) (nblock S ord B A)).

(* quadratic-form summand of the constant of a marginalised canonical form: h_Y^T K_YY^-1 h_Y (W = K_YY^-1) *)
Definition marg_quad (h : vec K) (ord Y : list nat) (W : mat K) : K :=
  dot (nvec h ord Y) (mvmul W (nvec h ord Y)).

Definition symmetric (n : nat) (M : mat K) : Prop :=
  forall i j, i < n -> j < n -> mget M i j = mget M j i.
End Spec.

Arguments nvec {K}. Arguments nblock {K}. Arguments is_inverse {K}. Arguments cond_mean {K}.
Arguments cond_cov {K}. Arguments symmetric {K}. Arguments marg_quad {K}.
