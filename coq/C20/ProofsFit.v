(* C20 proofs, part 3: fit (normal equations, zero-mean residuals, RSS/(n-1)) and the canonical-form
   round trip. *)
From Coq Require Import List Bool Arith Lia Field.
From PV Require Import Base.Graph Base.Matrix C20.Model C20.Spec C20.ProofsIdx.
Import ListNotations.

Section Fit.
Variable K : fieldT.
Hypothesis Kok : field_ok K.
Local Notation "0" := (f0 K) : F_scope.
Local Notation "1" := (f1 K) : F_scope.
Local Infix "+" := (fadd K) : F_scope.
Local Infix "*" := (fmul K) : F_scope.
Local Infix "-" := (fsub K) : F_scope.
Local Infix "/" := (fdiv K) : F_scope.
Local Notation vec := (vec K).
Local Notation mat := (mat K).
Let Fth := proj1 Kok.
Add Field Kfield_fit : Fth.

Lemma length_vminus (u v : vec) : length (vminus u v) = length u.
Proof. unfold vminus. apply length_vbuild. Qed.
Lemma vget_vminus (u v : vec) i : i < length u -> vget (vminus u v) i = (vget u i - vget v i)%F.
Proof. intros. unfold vminus. rewrite vget_vbuild by assumption. reflexivity. Qed.

Lemma mvmul_vminus (A : mat) (u v : vec) : length u = length v ->
  mvmul A (vminus u v) = vminus (mvmul A u) (mvmul A v).
Proof.
  intros Hl. apply vec_ext.
  - rewrite length_vminus, !length_mvmul. reflexivity.
  - rewrite length_mvmul. intros i Hi.
    rewrite vget_mvmul by assumption. rewrite vget_vminus by (rewrite length_mvmul; assumption).
    rewrite !vget_mvmul by assumption. rewrite length_vminus, <- Hl.
    rewrite <- (bsum_sub K Kok). apply bsum_ext. intros l Hl'.
    rewrite vget_vminus by assumption. ring.
Qed.

Lemma length_column cols (rows : list vec) v y : column K cols rows v = Some y -> length y = length rows.
Proof.
  unfold column. destruct (index_of v cols); [|discriminate]. intros H; inversion H. apply map_length.
Qed.

Lemma fit_normal_equations cols (rows : list vec) node parents beta s2 :
  parents <> [] ->
  fit_node K cols rows node parents = Some (beta, s2) ->
  exists y xs,
    column K cols rows node = Some y /\
    traverse_o (column K cols rows) parents = Some xs /\
    let n := length rows in
    let p := S (length xs) in
    let X := design K n xs in
    let Xt := mtrans p X in
    let e := vminus y (mvmul X beta) in
    length beta = p /\
    mvmul (mmul p Xt X) beta = mvmul Xt y /\
    vsum K e = 0%F /\
    s2 = (dot e e / of_nat_K K (n - 1))%F.
Proof.
  intros Hpar H. unfold fit_node in H.
  destruct (column K cols rows node) as [y|] eqn:Hy; [|discriminate].
  destruct parents as [|p0 prest]; [congruence|].
  destruct (traverse_o (column K cols rows) (p0 :: prest)) as [xs|] eqn:Hxs; [|discriminate].
  destruct (minv _) as [W|] eqn:HW; [|discriminate].
  inversion H; subst beta s2; clear H.
  exists y, xs. split; [reflexivity|]. split; [reflexivity|]. cbv zeta.
  set (n := length rows) in *. set (p := S (length xs)) in *. set (X := design K n xs) in *.
  set (Xt := mtrans p X) in *. set (M := mmul p Xt X) in *.
  set (b := mvmul Xt y). set (beta := mvmul W b).
  assert (HlX : length X = n) by (unfold X, design; apply length_mbuild).
  assert (HlXt : length Xt = p) by (apply length_mtrans).
  assert (HlM : length M = p) by (unfold M; rewrite length_mmul; assumption).
  apply (minv_ok K Kok) in HW. rewrite HlM in HW. destruct HW as [HwM [HwW [H1 H2]]].
  pose proof HwW as [HlW _].
  assert (Hlb : length b = p) by (unfold b; rewrite length_mvmul; assumption).
  assert (Hlbeta : length beta = p) by (unfold beta; rewrite length_mvmul; assumption).
  assert (Hly : length y = n) by (apply (length_column _ _ _ _ Hy)).
  assert (HNE : mvmul M beta = b).
  { unfold beta. rewrite <- (mvmul_mmul K Kok p M W b Hlb). rewrite H2.
    rewrite <- Hlb. apply (mvmul_mid K Kok). }
  split; [assumption|]. split; [assumption|].
  set (e := vminus y (mvmul X beta)).
  assert (Hle : length e = n) by (unfold e; rewrite length_vminus; assumption).
  assert (HXe : mvmul Xt e = vminus b b).
  { unfold e. rewrite mvmul_vminus by (rewrite length_mvmul, HlX; assumption).
    fold b. rewrite <- (mvmul_mmul K Kok p Xt X beta Hlbeta). fold M. rewrite HNE. reflexivity. }
  assert (Hsum : vsum K e = 0%F).
  { assert (E0 : vget (mvmul Xt e) 0%nat = vsum K e).
    { rewrite vget_mvmul by (rewrite HlXt; unfold p; lia). unfold vsum.
      apply bsum_ext. intros l Hl. rewrite Hle in Hl.
      unfold Xt. rewrite mget_mtrans by (rewrite ?HlX; unfold p; lia).
      unfold X, design. rewrite mget_mbuild by (unfold p; lia). ring. }
    rewrite <- E0, HXe. rewrite vget_vminus by (rewrite Hlb; unfold p; lia). ring. }
  split; [assumption|].
  unfold vvar, vmean. rewrite Hsum. fold e. rewrite Hle. f_equal.
  unfold dot. rewrite Hle. apply bsum_ext. intros l _.
  rewrite (Fdiv_def Fth). ring.
Qed.

(* root node: sample mean and (ddof = 1) sample variance; the one-column normal equation *)
Lemma fit_root cols (rows : list vec) node beta s2 :
  fit_node K cols rows node [] = Some (beta, s2) ->
  exists y, column K cols rows node = Some y /\ length y = length rows /\
    beta = [vmean K y] /\ s2 = vvar K y /\
    (of_nat_K K (length y) <> 0%F -> (of_nat_K K (length y) * vmean K y)%F = vsum K y).
Proof.
  unfold fit_node. destruct (column K cols rows node) as [y|] eqn:Hy; [|discriminate].
  intros H; inversion H; subst. exists y. repeat split; auto.
  - apply (length_column _ _ _ _ Hy).
  - intros Hn. unfold vmean. field. assumption.
Qed.

(* canonical form and back *)
Lemma canonical_roundtrip (D D' : gauss K) (C : canon K) :
  length (gmean D) = length (gcov D) ->
  g_to_canonical K D = Some C -> c_to_joint_gaussian K C = Some D' ->
  kvars C = gvars D /\
  is_inverse (length (gcov D)) (kK C) (gcov D) /\
  kh C = mvmul (kK C) (gmean D) /\
  D' = D.
Proof.
  intros Hlm HC HD. unfold g_to_canonical in HC.
  destruct (minv (gcov D)) as [P|] eqn:HP; [|discriminate]. inversion HC; subst C; clear HC.
  unfold c_to_joint_gaussian in HD. simpl in HD.
  destruct (minv P) as [S|] eqn:HS; [|discriminate]. inversion HD; subst D'; clear HD. simpl.
  apply (minv_ok K Kok) in HP. destruct HP as [HwC [HwP [HP1 HP2]]].
  set (n := length (gcov D)) in *. pose proof HwP as [HlP _].
  apply (minv_ok K Kok) in HS. rewrite HlP in HS. destruct HS as [_ [HwS [HS1 HS2]]].
  assert (ES : S = gcov D) by (apply (inverse_unique K Kok n P S (gcov D)); assumption).
  split; [reflexivity|]. split; [split; [assumption|split; assumption]|]. split; [reflexivity|].
  destruct D as [gv gm gc]. simpl in *. f_equal.
  - rewrite <- (mvmul_mmul K Kok n S P gm Hlm). rewrite HS1. subst n. rewrite <- Hlm.
    apply (mvmul_mid K Kok).
  - assumption.
Qed.

End Fit.
