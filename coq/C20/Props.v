(* C20 property theorems: "Linear-Gaussian models agree with multivariate-normal algebra".
   Only statements here, each closed by [exact] of a lemma proved in Proofs*.v / Base/Matrix.v, with
   Print Assumptions underneath.  All theorems hold for EVERY field K (field_ok K: the field axioms and
   a sound equality test), in particular the reals, and for matrices / networks of every dimension.

   Reading guide.  Names are nats; [vars] is the topological order the joint is indexed by;
   [pos vars v] is the position of name v; [nvec x vars names] / [nblock M vars rows cols] are the
   entries of a vector / matrix picked BY NAME (Spec.v); [cond_mean] / [cond_cov] are the textbook
   formulas mu_A + S_AB S_BB^-1 (x - mu_B) and S_AA - S_AB S_BB^-1 S_BA on such named blocks, with the
   inverse W characterised by W * S_BB = I = S_BB * W ([is_inverse]).  None models a Python exception. *)
From Coq Require Import List Bool Arith ZArith QArith Qcanon.
From PV Require Import Base.Graph Base.Matrix C20.Model C20.Spec C20.ProofsIdx C20.ProofsJoint
  C20.ProofsFit C20.ProofsFill C20.ProofsCache C20.Run C20.ProofsMain.
Import ListNotations.
Local Open Scope nat_scope.

(* ---------------------------------------------------------------------------------------------
   primitives *)

(* np.ix_ sub-matrix extraction picks exactly the entries (rows[a], cols[b]) -- what D12 broke *)
Theorem C20_sub_matrix_entries : forall (K : fieldT) (M : mat K) rows cols a b,
  a < length rows -> b < length cols ->
  mget (msub_ix M rows cols) a b = mget M (nth a rows 0) (nth b cols 0).
Proof. exact mget_msub_ix. Qed.
Print Assumptions C20_sub_matrix_entries.

(* np.delete keeps exactly the positions of the names that are not deleted, in order *)
Theorem C20_delete_by_name : forall (ord del di : list nat),
  NoDup ord ->
  traverse_o (fun v => index_of v ord) del = Some di ->
  traverse_o (fun v => index_of v ord) (filter (fun v => negb (memn v del)) ord)
  = Some (complement (length ord) di).
Proof. exact complement_by_name. Qed.
Print Assumptions C20_delete_by_name.

(* the model's np.linalg.inv only ever returns a two-sided inverse *)
Theorem C20_inverse_certified : forall (K : fieldT), field_ok K -> forall A W : mat K,
  minv A = Some W ->
  wf (length A) (length A) A /\ wf (length A) (length A) W /\
  mmul (length A) W A = mid K (length A) /\ mmul (length A) A W = mid K (length A).
Proof. exact minv_ok. Qed.
Print Assumptions C20_inverse_certified.

(* ---------------------------------------------------------------------------------------------
   to_joint_gaussian *)

(* sessions on one network: after any sequence of add_cpds calls (cs, oldest first, on a network holding l) the
   CPD used for variable v by to_joint_gaussian / predict is the LAST one added for v -- in-place replacement
   never leaves a stale CPD in front of it -- and the previous one when none was added *)
Theorem C20_add_cpds_last_wins : forall (K : fieldT) (cs l : list (cpd K)) v,
  get_cpd K (add_cpds K l cs) v =
  match find (fun c => Nat.eqb (cvar c) v) (rev cs) with Some c => Some c | None => get_cpd K l v end.
Proof. exact get_cpd_add_cpds. Qed.
Print Assumptions C20_add_cpds_last_wins.

(* every joint mean satisfies mu_v = b0_v + sum_p b_{v,p} mu_p, every parent p of v precedes v *)
Theorem C20_mean_recursion : forall (K : fieldT), field_ok K ->
  forall (rnd : K -> K) cpds vars mu Sg,
  NoDup vars -> (forall x, rnd x = x) ->
  to_joint_gaussian K rnd cpds vars = Some (mu, Sg) ->
  length mu = length vars /\
  forall i, i < length vars -> exists c,
    get_cpd K cpds (nth i vars 0) = Some c /\
    length (cmean c) = S (length (cevid c)) /\
    (forall u, In u (cevid c) -> In u vars /\ pos vars u < i) /\
    vget mu i = dot (cmean c) (f1 K :: nvec mu vars (cevid c)).
Proof. exact mean_recursion. Qed.
Print Assumptions C20_mean_recursion.

(* the reported covariance is symmetric and is THE solution of (I-B)^T S (I-B) = Omega,
   B / Omega being the matrices of step 2 ([fill]) *)
Theorem C20_cov_fixed_point : forall (K : fieldT), field_ok K ->
  forall (rnd : K -> K) cpds vars mu Sg,
  (forall x, rnd x = x) ->
  to_joint_gaussian K rnd cpds vars = Some (mu, Sg) ->
  let n := length vars in
  exists B Om, fill K cpds vars = Some (B, Om) /\
    wf n n B /\ wf n n Om /\ wf n n Sg /\ symmetric n Sg /\
    let N := mminus n (mid K n) B in
    mmul n (mmul n (mtrans n N) Sg) N = Om /\
    (forall S', wf n n S' -> mmul n (mmul n (mtrans n N) S') N = Om -> S' = Sg).
Proof. exact cov_structural. Qed.
Print Assumptions C20_cov_fixed_point.

(* KNOWN FINDING joint-gaussian-rounded-8-decimals: as coded, to_joint_gaussian rounds to 8 decimals (Run.rnd8 is
   numpy's round(8)).  C20_mean_recursion / C20_cov_fixed_point are therefore stated for rnd = identity, and the
   statement "the reported covariance is the structural-equation covariance" is REFUTED for the code as written:
   one node with variance 10^-9 > 0 is reported with variance 0 (not positive definite; predict on x -> y then
   raises LinAlgError).  harness/c20.py replays such networks on pgmpy in the `tiny` stream. *)
Theorem C20_joint_rounding_refuted :
  exists (cpds : list (@cpd QcF)) (vars : list nat) mu Sg mu' Sg',
    to_joint_gaussian QcF rnd8 cpds vars = Some (mu, Sg) /\
    to_joint_gaussian QcF (fun x => x) cpds vars = Some (mu', Sg') /\
    (forall c, In c cpds -> Qclt (qq 0 1) (cvariance c)) /\
    mget Sg 0 0 = qq 0 1 /\ mget Sg' 0 0 = qq 1 1000000000 /\ mget Sg 0 0 <> mget Sg' 0 0.
Proof. exact joint_rounding_refuted. Qed.
Print Assumptions C20_joint_rounding_refuted.

(* what B and Omega are: Omega = diag(variances); column j of B holds, at the row of each parent
   (by name) of the j-th variable, that parent's coefficient, and zero in every other row *)
Theorem C20_structure_entries : forall (K : fieldT) (cpds : list (cpd K)) vars B Om,
  NoDup vars -> fill K cpds vars = Some (B, Om) ->
  forall j, j < length vars -> exists c,
    get_cpd K cpds (nth j vars 0) = Some c /\
    mget Om j j = cvariance c /\
    (forall a, a <> j -> mget Om a j = f0 K) /\
    (forall i, i < length vars -> ~ In (nth i vars 0) (cevid c) -> mget B i j = f0 K) /\
    (forall k, k < length (cevid c) -> In (nth k (cevid c) 0) vars) /\
    (NoDup (cevid c) -> forall k, k < length (cevid c) ->
       mget B (pos vars (nth k (cevid c) 0)) j = vget (cmean c) (S k)).
Proof. exact structure_entries. Qed.
Print Assumptions C20_structure_entries.

(* ---------------------------------------------------------------------------------------------
   predict: for every observed/missing split and every iteration order of the missing set, the
   returned names are the missing variables in that order and the returned mean rows / covariance
   are the Gaussian conditional of the REPORTED joint (any rnd), blocks taken by variable name,
   observed values taken from the frame by column name *)
Theorem C20_predict_named : forall (K : fieldT), field_ok K ->
  forall (rnd : K -> K) cpds vars missing cols (rows : list (vec K)) names mu_c cov_c,
  NoDup vars ->
  predict K rnd cpds vars missing cols rows = Some (names, mu_c, cov_c) ->
  exists mu Sg, to_joint_gaussian K rnd cpds vars = Some (mu, Sg) /\
    let R := remain_vars vars missing in
    names = missing /\ missing <> [] /\
    (forall v, In v missing -> In v vars) /\ (forall v, In v R -> In v cols) /\
    exists W, is_inverse (length R) W (nblock Sg vars R R) /\
      cov_c = cond_cov Sg vars missing R W /\
      length mu_c = length rows /\
      forall r, r < length rows ->
        nth r mu_c [] = cond_mean mu Sg vars missing R W (nvec (nth r rows []) cols R).
Proof. exact predict_named. Qed.
Print Assumptions C20_predict_named.

(* ---------------------------------------------------------------------------------------------
   GaussianDistribution *)

Theorem C20_marginalize_named : forall (K : fieldT) (D : gauss K) drop,
  exists R, g_marginalize K D drop = Some R /\
    let keepv := filter (fun v => negb (memn v drop)) (gvars D) in
    gvars R = keepv /\
    gmean R = nvec (gmean D) (gvars D) keepv /\
    gcov R = nblock (gcov D) (gvars D) keepv keepv.
Proof. exact marginalize_named. Qed.
Print Assumptions C20_marginalize_named.

Theorem C20_reduce_named : forall (K : fieldT), field_ok K -> forall (D : gauss K) values R,
  g_reduce K D values = Some R ->
  let redv := map fst values in
  let keepv := filter (fun v => negb (memn v redv)) (gvars D) in
  (forall v, In v redv -> In v (gvars D)) /\
  gvars R = keepv /\
  exists W, is_inverse (length redv) W (nblock (gcov D) (gvars D) redv redv) /\
    gmean R = cond_mean (gmean D) (gcov D) (gvars D) keepv redv W (map snd values) /\
    gcov R = cond_cov (gcov D) (gvars D) keepv redv W.
Proof. exact reduce_named. Qed.
Print Assumptions C20_reduce_named.

(* K = S^-1, h = K mu; converting back returns the same distribution.
   _partial: the scalar g (log-normaliser; needs log/det/pi) is outside the model, and success of the
   second inversion is a hypothesis (the elimination search itself is not proved complete). *)
Theorem C20_canonical_roundtrip_partial : forall (K : fieldT), field_ok K ->
  forall (D D' : gauss K) (C : canon K),
  length (gmean D) = length (gcov D) ->
  g_to_canonical K D = Some C -> c_to_joint_gaussian K C = Some D' ->
  kvars C = gvars D /\
  is_inverse (length (gcov D)) (kK C) (gcov D) /\
  kh C = mvmul (kK C) (gmean D) /\
  D' = D.
Proof. exact canonical_roundtrip. Qed.
Print Assumptions C20_canonical_roundtrip_partial.

(* a GaussianDistribution OBJECT carries a lazily filled cache of its precision matrix.  After ANY sequence of
   precision_matrix / to_canonical_factor / copy / marginalize / reduce / product / divide calls (Model.gstep,
   in place or continuing with the returned object) the cache, when present, is the two-sided inverse of the
   object's CURRENT covariance, and so is whatever precision_matrix returns next. *)
Theorem C20_precision_cache_consistent : forall (K : fieldT), field_ok K ->
  forall (steps : list (gstep K)) (o o' : gobj K),
  cache_ok K o -> o_run K o steps = Some o' ->
  cache_ok K o' /\
  forall o'' P, o_precision K o' = Some (o'', P) ->
    is_inverse (length (gcov (o_d o'))) P (gcov (o_d o')).
Proof. exact cache_consistent. Qed.
Print Assumptions C20_precision_cache_consistent.

(* KNOWN FINDING canonical-marginalize-g: CanonicalDistribution.marginalize (Model.c_marginalize) computes the
   quadratic summand of the constant g' as h_Y^T K_YY h_Y; the marginal density requires h_Y^T K_YY^-1 h_Y
   (Spec.marg_quad).  The full statement "for every C, drop: the coded summand equals marg_quad for the inverse
   W of K_YY" is therefore REFUTED by the faithful model: K = [[2,-1],[-1,3]], h = [1,2], marginalise y gives
   12 instead of 4/3 (replayed on pgmpy by harness/c20.py on every run: g' = 5.3696 instead of 0.0363).
   K' and h' of the same function are right (checked by correspondence against model and formulas). *)
Theorem C20_canonical_marginalize_g_refuted :
  exists (C : @canon QcF) (drop : list nat) (C' : @canon QcF) (qc : Qc) (W : mat QcF),
    c_marginalize QcF C drop = Some (C', qc) /\
    is_inverse 1 W (nblock (kK C) (kvars C) drop drop) /\
    qc = qq 12 1 /\ marg_quad (kh C) (kvars C) drop W = qq 4 3 /\
    qc <> marg_quad (kh C) (kvars C) drop W.
Proof. exact canonical_marginalize_g_refuted. Qed.
Print Assumptions C20_canonical_marginalize_g_refuted.

(* ---------------------------------------------------------------------------------------------
   fit: for a node with parents the coefficients satisfy the normal equations X^T X beta = X^T y
   (X = design matrix with intercept column), the residuals sum to zero and the reported variance is
   RSS / (n - 1)   [pandas var(), ddof = 1 -- not the maximum-likelihood RSS / n] *)
Theorem C20_fit_normal_equations : forall (K : fieldT), field_ok K ->
  forall cols (rows : list (vec K)) node parents beta s2,
  parents <> [] ->
  fit_node K cols rows node parents = Some (beta, s2) ->
  exists y xs,
    column K cols rows node = Some y /\
    traverse_o (column K cols rows) parents = Some xs /\
    let n := length rows in
    let p := S (length xs) in
    let X := design K n xs in
    let Xt := mtrans p X in
    let e := vminus y (mvmul X beta) in
    length beta = p /\
    mvmul (mmul p Xt X) beta = mvmul Xt y /\
    vsum K e = f0 K /\
    s2 = fdiv K (dot e e) (of_nat_K K (n - 1)).
Proof. exact fit_normal_equations. Qed.
Print Assumptions C20_fit_normal_equations.

Theorem C20_fit_root : forall (K : fieldT), field_ok K ->
  forall cols (rows : list (vec K)) node beta s2,
  fit_node K cols rows node [] = Some (beta, s2) ->
  exists y, column K cols rows node = Some y /\ length y = length rows /\
    beta = [vmean K y] /\ s2 = vvar K y /\
    (of_nat_K K (length y) <> f0 K -> fmul K (of_nat_K K (length y)) (vmean K y) = vsum K y).
Proof. exact fit_root. Qed.
Print Assumptions C20_fit_root.

(* ---------------------------------------------------------------------------------------------
   non-vacuity: the hypotheses are met by real objects (exact rationals) *)
Example C20_field_instance : field_ok QcF.
Proof. exact QcF_ok. Qed.

Definition q (n : Z) (d : positive) : Qc := Q2Qc (n # d).
(* the docstring network x1 -> x2 -> x3, names 0 1 2, inserted in the order 2 0 1 *)
Definition ex_cpds : list (@cpd QcF) :=
  [ mkCpd (K:=QcF) 2 [q 4 1; q (-1) 1] (q 3 1) [1];
    mkCpd (K:=QcF) 0 [q 1 1] (q 4 1) [];
    mkCpd (K:=QcF) 1 [q (-5) 1; q 1 2] (q 4 1) [0] ].
Definition id_Qc (x : Qc) : Qc := x.
Definition same_names (a b : list nat) : bool :=
  Nat.eqb (length a) (length b) && forallb (fun p => Nat.eqb (fst p) (snd p)) (combine a b).

Example C20_joint_nonvacuous :
  match to_joint_gaussian QcF id_Qc ex_cpds [0; 1; 2] with
  | Some (mu, Sg) => @veqb QcF 3 mu [q 1 1; q (-9) 2; q 17 2]
                     && @meqb QcF 3 3 Sg [[q 4 1; q 2 1; q (-2) 1]; [q 2 1; q 5 1; q (-5) 1]; [q (-2) 1; q (-5) 1; q 8 1]]
  | None => false
  end = true.
Proof. vm_compute. reflexivity. Qed.

(* two missing variables, returned in non-topological order (the D12 situation) *)
Example C20_predict_nonvacuous :
  match predict QcF id_Qc ex_cpds [0; 1; 2] [2; 1] [7; 0] [[q 9 1; q 3 1]] with
  | Some (names, mu_c, cov_c) =>
      same_names names [2; 1]
      && @meqb QcF 1 2 mu_c [[q 15 2; q (-7) 2]]
      && @meqb QcF 2 2 cov_c [[q 7 1; q (-4) 1]; [q (-4) 1; q 4 1]]
  | None => false
  end = true.
Proof. vm_compute. reflexivity. Qed.

(* ... where pairing the index lists (the pre-fix cov[idx, idx]) yields only the diagonal *)
Example C20_pairing_is_not_a_block :
  let M : mat QcF := [[q 1 1; q 2 1]; [q 3 1; q 4 1]] in
  @veqb QcF 2 (mpaired M [0; 1] [0; 1]) [q 1 1; q 4 1] = true /\ msub_ix M [0; 1] [0; 1] = M.
Proof. split; vm_compute; reflexivity. Qed.

Example C20_fit_nonvacuous :
  match fit_node QcF [5; 6] [[q 0 1; q 1 1]; [q 1 1; q 3 1]; [q 2 1; q 4 1]; [q 3 1; q 8 1]] 6 [5] with
  | Some (beta, s2) => @veqb QcF 2 beta [q 7 10; q 11 5] && Qc_eq_bool s2 (q 3 5)
  | None => false
  end = true.
Proof. vm_compute. reflexivity. Qed.

Example C20_canonical_nonvacuous :
  let D := mkGauss (K:=QcF) [3; 1] [q 1 1; q 2 1] [[q 2 1; q 1 1]; [q 1 1; q 1 1]] in
  match g_to_canonical QcF D with
  | Some C => match c_to_joint_gaussian QcF C with
              | Some D' => @meqb QcF 2 2 (kK C) [[q 1 1; q (-1) 1]; [q (-1) 1; q 2 1]]
                           && @veqb QcF 2 (kh C) [q (-1) 1; q 3 1]
                           && @meqb QcF 2 2 (gcov D') (gcov D) && @veqb QcF 2 (gmean D') (gmean D)
              | None => false end
  | None => false
  end = true.
Proof. vm_compute. reflexivity. Qed.

Example C20_reduce_nonvacuous :
  let D := mkGauss (K:=QcF) [3; 1; 4] [q 1 1; q (-3) 1; q 4 1]
             [[q 4 1; q 2 1; q (-2) 1]; [q 2 1; q 5 1; q (-5) 1]; [q (-2) 1; q (-5) 1; q 8 1]] in
  match g_reduce QcF D [(3, q 7 1)] with
  | Some R => same_names (gvars R) [1; 4] && @veqb QcF 2 (gmean R) [q 0 1; q 1 1]
              && @meqb QcF 2 2 (gcov R) [[q 4 1; q (-4) 1]; [q (-4) 1; q 7 1]]
  | None => false
  end = true.
Proof. vm_compute. reflexivity. Qed.

(* cache filled, then a correlated variable marginalised, then the precision read again: it is the inverse of
   the marginal covariance [[2]] -> [[1/2]], not the stale sub-block [[1]] of the old precision *)
Example C20_cache_nonvacuous :
  let D := mkGauss (K:=QcF) [3; 1] [q 1 1; q 2 1] [[q 2 1; q 1 1]; [q 1 1; q 1 1]] in
  match o_run QcF (mkObj (K:=QcF) D None) [SPrec; SMarg [1]; SCopy] with
  | Some o => match o_cache o, o_precision QcF o with
              | None, Some (_, P) => @meqb QcF 1 1 P [[q 1 2]]
              | _, _ => false end
  | None => false
  end = true.
Proof. vm_compute. reflexivity. Qed.
