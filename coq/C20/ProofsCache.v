(* C20 proofs, part 6: the cached precision matrix of a GaussianDistribution object is, whenever present,
   the inverse of the object's current covariance -- after any sequence of method calls. *)
From Coq Require Import List Bool Arith Lia.
From PV Require Import Base.Graph Base.Matrix C20.Model C20.Spec.
Import ListNotations.

Section Cache.
Variable K : fieldT.
Hypothesis Kok : field_ok K.

Definition cache_ok (o : gobj K) : Prop :=
  match o_cache o with
  | Some P => is_inverse (length (gcov (o_d o))) P (gcov (o_d o))
  | None => True
  end.

Lemma o_precision_ok o o' P : cache_ok o -> o_precision K o = Some (o', P) ->
  cache_ok o' /\ o_d o' = o_d o /\ o_cache o' = Some P /\
  is_inverse (length (gcov (o_d o))) P (gcov (o_d o)).
Proof.
  unfold o_precision, cache_ok. intros Hok H. destruct (o_cache o) as [Q|] eqn:EQ.
  - inversion H; subst. rewrite EQ. auto.
  - destruct (minv (gcov (o_d o))) as [Q|] eqn:Em; [|discriminate]. inversion H; subst. simpl.
    apply (minv_ok K Kok) in Em. destruct Em as [_ [H1 [H2 H3]]].
    assert (is_inverse (length (gcov (o_d o))) P (gcov (o_d o))) by (split; [assumption|split; assumption]).
    auto.
Qed.

Lemma o_step_ok o s o' : cache_ok o -> o_step K o s = Some o' -> cache_ok o'.
Proof.
  intros Hok H. destruct s; simpl in H.
  - destruct (o_precision K o) as [[o1 P]|] eqn:E; [|discriminate]. inversion H; subst.
    apply (o_precision_ok _ _ _ Hok E).
  - unfold o_to_canonical in H. destruct (o_precision K o) as [[o1 P]|] eqn:E; [|discriminate].
    inversion H; subst. apply (o_precision_ok _ _ _ Hok E).
  - inversion H; subst. exact Hok.
  - unfold o_marginalize in H. destruct (g_marginalize K _ drop); [|discriminate]. inversion H. exact I.
  - unfold o_reduce in H. destruct (g_reduce K _ values); [|discriminate]. inversion H. exact I.
  - destruct (o_operate K prod o _) as [[[a b] r]|] eqn:E; [|discriminate]. inversion H; subst.
    unfold o_operate in E. destruct (o_to_canonical K o) as [[o1 C1]|]; [|discriminate].
    destruct (o_to_canonical K _) as [[o2 C2]|]; [|discriminate].
    destruct (c_operate K prod C1 C2); [|discriminate]. destruct (c_to_joint_gaussian K _); [|discriminate].
    inversion E. exact I.
  - destruct (o_operate K prod o _) as [[[a b] r]|] eqn:E; [|discriminate]. inversion H; subst.
    unfold o_operate in E. unfold o_to_canonical in E at 1.
    destruct (o_precision K o) as [[o1 P]|] eqn:Ep; [|discriminate].
    destruct (o_to_canonical K _) as [[o2 C2]|]; [|discriminate].
    destruct (c_operate K prod _ C2); [|discriminate]. destruct (c_to_joint_gaussian K _); [|discriminate].
    inversion E; subst. apply (o_precision_ok _ _ _ Hok Ep).
Qed.

Lemma cache_consistent steps : forall o o', cache_ok o -> o_run K o steps = Some o' ->
  cache_ok o' /\
  forall o'' P, o_precision K o' = Some (o'', P) ->
    is_inverse (length (gcov (o_d o'))) P (gcov (o_d o')).
Proof.
  induction steps as [|s r IH]; intros o o' Hok H; simpl in H.
  - inversion H; subst. split; [assumption|]. intros o'' P Hp. apply (o_precision_ok _ _ _ Hok Hp).
  - destruct (o_step K o s) as [o1|] eqn:E; [|discriminate].
    apply (IH o1 o' (o_step_ok _ _ _ Hok E) H).
Qed.

End Cache.

(* ---------------------------------------------------------------- add_cpds sessions: the CPD found for a
   variable after any sequence of add_cpds calls is the LAST one added for it (in-place replacement), or the
   one that was there before when none was added. *)
Section AddCpds.
Variable K : fieldT.

Lemma get_cpd_replace (c : cpd K) l l' v :
  replace_cpd K c l = Some l' ->
  get_cpd K l' v = if Nat.eqb (cvar c) v then Some c else get_cpd K l v.
Proof.
  revert l'; induction l as [|d r IH]; simpl; intros l' H; [discriminate|].
  destruct (Nat.eqb (cvar d) (cvar c)) eqn:E.
  - inversion H; subst. apply Nat.eqb_eq in E. unfold get_cpd. simpl. rewrite E.
    destruct (Nat.eqb (cvar c) v); reflexivity.
  - destruct (replace_cpd K c r) as [r'|] eqn:Er; [|discriminate]. inversion H; subst.
    unfold get_cpd in *. simpl. specialize (IH r' eq_refl).
    destruct (Nat.eqb (cvar d) v) eqn:Ed.
    + destruct (Nat.eqb (cvar c) v) eqn:Ec; [|reflexivity].
      apply Nat.eqb_eq in Ed. apply Nat.eqb_eq in Ec. rewrite Ed, <- Ec, Nat.eqb_refl in E. discriminate.
    + exact IH.
Qed.

Lemma replace_cpd_None (c : cpd K) l : replace_cpd K c l = None -> get_cpd K l (cvar c) = None.
Proof.
  induction l as [|d r IH]; simpl; intros H; [reflexivity|].
  destruct (Nat.eqb (cvar d) (cvar c)) eqn:E; [discriminate|].
  destruct (replace_cpd K c r); [discriminate|]. apply IH. reflexivity.
Qed.

Lemma get_cpd_app l (c : cpd K) v :
  get_cpd K (l ++ [c]) v = match get_cpd K l v with Some d => Some d | None => if Nat.eqb (cvar c) v then Some c else None end.
Proof.
  unfold get_cpd. induction l as [|d r IH]; simpl.
  - destruct (Nat.eqb (cvar c) v); reflexivity.
  - destruct (Nat.eqb (cvar d) v); [reflexivity|exact IH].
Qed.

Lemma get_cpd_add_cpd l (c : cpd K) v :
  get_cpd K (add_cpd K l c) v = if Nat.eqb (cvar c) v then Some c else get_cpd K l v.
Proof.
  unfold add_cpd. destruct (replace_cpd K c l) as [l'|] eqn:E.
  - apply get_cpd_replace. exact E.
  - rewrite get_cpd_app. apply replace_cpd_None in E.
    destruct (Nat.eqb (cvar c) v) eqn:Ec.
    + apply Nat.eqb_eq in Ec. subst v. rewrite E. reflexivity.
    + destruct (get_cpd K l v); reflexivity.
Qed.

Lemma find_app_ {A} (f : A -> bool) l1 l2 :
  find f (l1 ++ l2) = match find f l1 with Some x => Some x | None => find f l2 end.
Proof. induction l1 as [|a l1 IH]; simpl; [reflexivity|]. destruct (f a); [reflexivity|exact IH]. Qed.

Lemma get_cpd_add_cpds cs : forall l v,
  get_cpd K (add_cpds K l cs) v =
  match find (fun c => Nat.eqb (cvar c) v) (rev cs) with Some c => Some c | None => get_cpd K l v end.
Proof.
  unfold add_cpds. induction cs as [|c cs IH]; intros l v; simpl; [reflexivity|].
  rewrite IH. rewrite find_app_.
  destruct (find (fun c0 => Nat.eqb (cvar c0) v) (rev cs)); [reflexivity|].
  simpl. rewrite get_cpd_add_cpd. destruct (Nat.eqb (cvar c) v); reflexivity.
Qed.

End AddCpds.
