(* C20 proofs, part 2: to_joint_gaussian.  Mean recursion (by the structure of the topological
   substitution), shape/symmetry of the reported covariance, structural-equation characterisation
   (I-B)^T S (I-B) = Omega and its uniqueness. *)
From Coq Require Import List Bool Arith Lia.
From PV Require Import Base.Graph Base.Matrix C20.Model C20.Spec C20.ProofsIdx.
Import ListNotations.

Lemma traverse_o_ext_in {A B} (f g : A -> option B) l :
  (forall x, In x l -> f x = g x) -> traverse_o f l = traverse_o g l.
Proof.
  induction l as [|a l IH]; simpl; intros H; [reflexivity|].
  rewrite (H a (or_introl eq_refl)), IH; [reflexivity|]. intros; apply H; right; assumption.
Qed.
Lemma traverse_o_In_some {A B} (f : A -> option B) l r x :
  traverse_o f l = Some r -> In x l -> exists y, f x = Some y.
Proof.
  revert r; induction l as [|a l IH]; simpl; intros r H Hx; [tauto|].
  destruct (f a) eqn:Ea; [|discriminate]. destruct (traverse_o f l) eqn:El; [|discriminate].
  destruct Hx as [<-|Hx]; eauto.
Qed.

Lemma index_of_app_l u p1 l : In u p1 -> exists j, index_of u (p1 ++ l) = Some j /\ j < length p1.
Proof.
  induction p1 as [|y r IH]; simpl; intros H; [tauto|].
  destruct (Nat.eqb y u) eqn:E; [exists 0; split; [reflexivity|lia]|].
  destruct H as [H|H]; [subst; rewrite Nat.eqb_refl in E; discriminate|].
  destruct (IH H) as [j [-> Hj]]. exists (S j). split; [reflexivity|lia].
Qed.
Lemma index_of_app_mid v p1 p2 : ~ In v p1 -> index_of v (p1 ++ v :: p2) = Some (length p1).
Proof.
  induction p1 as [|y r IH]; simpl; intros H.
  - rewrite Nat.eqb_refl. reflexivity.
  - destruct (Nat.eqb y v) eqn:E; [apply Nat.eqb_eq in E; subst; tauto|].
    rewrite IH by tauto. reflexivity.
Qed.

Section Joint.
Variable K : fieldT.
Hypothesis Kok : field_ok K.
Local Notation vec := (vec K).
Local Notation mat := (mat K).
Local Notation cpd := (cpd K).

(* ------------------------------------------------------------ means *)
Variable cpds : list cpd.

Definition mean_inv (pre : list nat) (d : dict K) : Prop :=
  (forall u x, lookup K u d = Some x -> In u pre) /\
  (forall v, In v pre -> exists c ms p1 p2,
      get_cpd K cpds v = Some c /\
      traverse_o (fun u => lookup K u d) (cevid c) = Some ms /\
      length (cmean c) = S (length ms) /\
      lookup K v d = Some (dot (cmean c) (f1 K :: ms)) /\
      pre = p1 ++ v :: p2 /\ (forall u, In u (cevid c) -> In u p1)).

Lemma mean_fold_none l : fold_left (mean_step K cpds) l None = None.
Proof. induction l; simpl; auto. Qed.

Lemma mean_fold l : forall pre d d', NoDup (pre ++ l) -> mean_inv pre d ->
  fold_left (mean_step K cpds) l (Some d) = Some d' -> mean_inv (pre ++ l) d'.
Proof.
  induction l as [|a l IH]; intros pre d d' Hnd Hinv H; simpl in H.
  - inversion H; subst. rewrite app_nil_r. assumption.
  - destruct (get_cpd K cpds a) as [c|] eqn:Hc; [|rewrite mean_fold_none in H; discriminate].
    destruct (traverse_o (fun u => lookup K u d) (cevid c)) as [ms|] eqn:Hms;
      [|rewrite mean_fold_none in H; discriminate].
    destruct (Nat.eqb (length (cmean c)) (S (length ms))) eqn:Hlen;
      [|rewrite mean_fold_none in H; discriminate].
    apply Nat.eqb_eq in Hlen.
    replace (pre ++ a :: l) with ((pre ++ [a]) ++ l) in * by (rewrite <- app_assoc; reflexivity).
    apply (IH (pre ++ [a]) ((a, dot (cmean c) (f1 K :: ms)) :: d) d' Hnd); [|exact H].
    destruct Hinv as [Hkeys Hvals].
    assert (Ha : ~ In a pre).
    { rewrite <- app_assoc in Hnd. simpl in Hnd. apply NoDup_remove_2 in Hnd.
      intro Hin. apply Hnd. apply in_or_app. left. assumption. }
    assert (Hsame : forall u x, lookup K u d = Some x -> lookup K u ((a, dot (cmean c) (f1 K :: ms)) :: d) = Some x).
    { intros u x Hu. simpl. destruct (Nat.eqb a u) eqn:E; [|assumption].
      apply Nat.eqb_eq in E; subst u. exfalso. apply Ha. eapply Hkeys; eauto. }
    assert (Htrav : forall (l0 : list nat) r, traverse_o (fun u => lookup K u d) l0 = Some r ->
               traverse_o (fun u => lookup K u ((a, dot (cmean c) (f1 K :: ms)) :: d)) l0 = Some r).
    { intros l0 r Hr. rewrite <- Hr. apply traverse_o_ext_in. intros u Hu.
      destruct (traverse_o_In_some _ _ _ u Hr Hu) as [y Hy]. rewrite Hy. apply Hsame. assumption. }
    split.
    + intros u x Hu. simpl in Hu. destruct (Nat.eqb a u) eqn:E.
      * apply Nat.eqb_eq in E; subst. apply in_or_app. right. left. reflexivity.
      * apply in_or_app. left. eapply Hkeys; eauto.
    + intros v Hv. apply in_app_or in Hv. destruct Hv as [Hv|[<-|[]]].
      * destruct (Hvals v Hv) as [c0 [ms0 [p1 [p2 [H1 [H2 [H3 [H4 [H5 H6]]]]]]]]].
        exists c0, ms0, p1, (p2 ++ [a]). repeat split; auto.
        rewrite H5. rewrite <- app_assoc. reflexivity.
      * exists c, ms, pre, []. repeat split; auto.
        -- simpl. rewrite Nat.eqb_refl. reflexivity.
        -- intros u Hu. destruct (traverse_o_In_some _ _ _ u Hms Hu) as [y Hy]. eapply Hkeys; eauto.
Qed.

Lemma mean_recursion_raw vars mu :
  NoDup vars -> mean_vec K cpds vars = Some mu ->
  length mu = length vars /\
  forall i, i < length vars -> exists c,
    get_cpd K cpds (nth i vars 0) = Some c /\
    length (cmean c) = S (length (cevid c)) /\
    (forall u, In u (cevid c) -> In u vars /\ pos vars u < i) /\
    vget mu i = dot (cmean c) (f1 K :: nvec mu vars (cevid c)).
Proof.
  intros Hnd H. unfold mean_vec in H.
  destruct (mean_dict K cpds vars) as [d|] eqn:Hd; [|discriminate].
  unfold mean_dict in Hd.
  assert (Hinv : mean_inv vars d).
  { apply (mean_fold vars [] [] d); auto. split; [intros u x Hu; discriminate|intros v []]. }
  pose proof (traverse_o_length _ _ _ H) as Hl. split; [assumption|].
  intros i Hi. destruct Hinv as [Hkeys Hvals].
  destruct (Hvals (nth i vars 0) (nth_In _ _ Hi)) as [c [ms [p1 [p2 [H1 [H2 [H3 [H4 [H5 H6]]]]]]]]].
  exists c. pose proof (traverse_o_length _ _ _ H2) as Hlms.
  assert (Hp1 : ~ In (nth i vars 0) p1).
  { rewrite H5 in Hnd. apply NoDup_remove_2 in Hnd. intro Hin. apply Hnd. apply in_or_app. left. assumption. }
  assert (Hi1 : i = length p1).
  { pose proof (index_of_nth vars i Hnd Hi) as E. rewrite H5 in E at 2.
    rewrite index_of_app_mid in E by assumption. inversion E. reflexivity. }
  split; [assumption|]. split; [rewrite H3, Hlms; reflexivity|]. split.
  - intros u Hu. split.
    + rewrite H5. apply in_or_app. left. apply H6. assumption.
    + destruct (index_of_app_l u p1 (nth i vars 0 :: p2) (H6 u Hu)) as [j [Hj Hjl]].
      rewrite <- H5 in Hj. rewrite (pos_index _ _ _ Hj). lia.
  - pose proof (traverse_o_nth _ _ _ 0 (f0 K) i H Hi) as E. simpl in E. rewrite H4 in E.
    inversion E as [E']. unfold vget. rewrite <- E'. f_equal. f_equal.
    apply vec_ext.
    + unfold nvec. rewrite length_vbuild. assumption.
    + intros a Ha. rewrite Hlms in Ha. unfold nvec. rewrite vget_vbuild by assumption.
      pose proof (traverse_o_nth _ _ _ 0 (f0 K) a H2 Ha) as Ea. simpl in Ea.
      set (u := nth a (cevid c) 0) in *.
      assert (Hu : In u vars).
      { rewrite H5. apply in_or_app. left. apply H6. apply nth_In. assumption. }
      destruct (index_of_In _ _ Hu) as [j Hj]. rewrite (pos_index _ _ _ Hj).
      pose proof (index_of_Some _ _ _ Hj) as [Hjl Hju].
      pose proof (traverse_o_nth _ _ _ 0 (f0 K) j H Hjl) as Ej. simpl in Ej.
      rewrite Hju, Ea in Ej. inversion Ej as [E2]. unfold vget. exact E2.
Qed.

(* ------------------------------------------------------------ B and Omega *)
Definition fill_inv (n : nat) (st : mat * mat) : Prop :=
  wf n n (fst st) /\ wf n n (snd st) /\
  (forall i j, i < n -> j < n -> i <> j -> mget (snd st) i j = f0 K).

Lemma fill_B_none vars c j l : fold_left (fill_B_step K vars c j) l None = None.
Proof. induction l; simpl; auto. Qed.
Lemma fill_B_wf vars c j n l : forall B B', wf n n B ->
  fold_left (fill_B_step K vars c j) l (Some B) = Some B' -> wf n n B'.
Proof.
  induction l as [|p l IH]; simpl; intros B B' HB H.
  - inversion H; subst; assumption.
  - destruct (index_of (snd p) vars) as [i|]; [|rewrite fill_B_none in H; discriminate].
    eapply IH; [|exact H]. apply wf_mset. assumption.
Qed.
Lemma fill_none vars l : fold_left (fill_step K cpds vars) l None = None.
Proof. induction l; simpl; auto. Qed.
Lemma fill_fold_inv vars n l : forall st st', fill_inv n st ->
  fold_left (fill_step K cpds vars) l (Some st) = Some st' -> fill_inv n st'.
Proof.
  induction l as [|a l IH]; simpl; intros st st' Hinv H.
  - inversion H; subst; assumption.
  - destruct st as [B Om].
    destruct (get_cpd K cpds a) as [c|]; [|rewrite fill_none in H; discriminate].
    destruct (index_of a vars) as [j|]; [|rewrite fill_none in H; discriminate].
    destruct (fold_left (fill_B_step K vars c j) (enumerate (cevid c)) (Some B)) as [B'|] eqn:HB;
      [|rewrite fill_none in H; discriminate].
    eapply IH; [|exact H]. destruct Hinv as [H1 [H2 H3]]. simpl in *.
    split; [|split]; simpl.
    + apply (fill_B_wf vars c j n _ B B' H1 HB).
    + apply wf_mset. assumption.
    + intros i k Hi Hk Hne. rewrite mget_mset.
      destruct (Nat.eqb j i) eqn:E1; simpl; [|apply H3; assumption].
      destruct (Nat.eqb j k) eqn:E2; simpl; [|apply H3; assumption].
      apply Nat.eqb_eq in E1. apply Nat.eqb_eq in E2. lia.
Qed.
Lemma fill_final vars B Om : fill K cpds vars = Some (B, Om) -> fill_inv (length vars) (B, Om).
Proof.
  unfold fill. intros H. eapply fill_fold_inv; [|exact H].
  split; [|split]; simpl; try apply wf_mbuild.
  intros i j Hi Hj _. unfold mzero. apply mget_mbuild; assumption.
Qed.

Lemma diag_trans n (Om : mat) : wf n n Om ->
  (forall i j, i < n -> j < n -> i <> j -> mget Om i j = f0 K) -> mtrans n Om = Om.
Proof.
  intros HO Hd. pose proof HO as [HlO _]. apply (wf_ext K n n); auto.
  - apply wf_mtrans'. assumption.
  - intros i j Hi Hj. rewrite mget_mtrans by (rewrite ?HlO; assumption).
    destruct (Nat.eq_dec i j) as [->|Hne]; [reflexivity|].
    rewrite (Hd i j), (Hd j i) by auto. reflexivity.
Qed.

(* S = (V^T Om) V is symmetric when Om is diagonal *)
Lemma sandwich_sym n (V Om : mat) : wf n n V -> wf n n Om -> mtrans n Om = Om ->
  mtrans n (mmul n (mmul n (mtrans n V) Om) V) = mmul n (mmul n (mtrans n V) Om) V.
Proof.
  intros HV HO HOt. pose proof HV as [HlV _]. pose proof HO as [HlO _].
  rewrite (mtrans_mmul K Kok). rewrite length_mmul, length_mtrans, HlV.
  rewrite (mtrans_mmul K Kok). rewrite length_mtrans, HlO, HOt.
  rewrite (mtrans_mtrans K n n V HV).
  rewrite (mmul_assoc K Kok n n) by assumption. reflexivity.
Qed.

Lemma mmap_id (rnd : K -> K) (A : mat) : (forall x, rnd x = x) -> mmap rnd A = A.
Proof.
  intros H. unfold mmap. rewrite <- (map_id A) at 2. apply map_ext. intros r.
  rewrite <- (map_id r) at 2. apply map_ext. assumption.
Qed.

(* everything to_joint_gaussian's result is made of *)
Lemma joint_inversion rnd vars mu S :
  to_joint_gaussian K rnd cpds vars = Some (mu, S) ->
  let n := length vars in
  exists mu0 B Om V,
    mean_vec K cpds vars = Some mu0 /\ fill K cpds vars = Some (B, Om) /\
    mu = map rnd mu0 /\ S = mmap rnd (mmul n (mmul n (mtrans n V) Om) V) /\
    wf n n B /\ wf n n Om /\ mtrans n Om = Om /\ wf n n V /\
    mmul n V (mminus n (mid K n) B) = mid K n /\ mmul n (mminus n (mid K n) B) V = mid K n.
Proof.
  unfold to_joint_gaussian. intros H. cbv zeta.
  destruct (mean_vec K cpds vars) as [mu0|] eqn:Hm; [|discriminate].
  destruct (fill K cpds vars) as [[B Om]|] eqn:Hf; [|discriminate].
  destruct (minv _) as [V|] eqn:HV; [|discriminate].
  inversion H; subst; clear H.
  apply fill_final in Hf. destruct Hf as [H1 [H2 H3]]. simpl in *.
  apply (minv_ok K Kok) in HV.
  assert (Hl : length (mminus (length vars) (mid K (length vars)) B) = length vars).
  { unfold mminus. rewrite length_mbuild. apply length_mid. }
  rewrite Hl in HV. destruct HV as [_ [HwV [HV1 HV2]]].
  exists mu0, B, Om, V. repeat split; try assumption; try (apply H1); try (apply H2); try (apply HwV).
  apply diag_trans; assumption.
Qed.

Lemma joint_facts rnd vars mu S :
  to_joint_gaussian K rnd cpds vars = Some (mu, S) ->
  length mu = length vars /\ wf (length vars) (length vars) S /\ symmetric (length vars) S.
Proof.
  intros H. destruct (joint_inversion _ _ _ _ H) as [mu0 [B [Om [V [Hm [Hf [-> [-> [HB [HO [HOt [HV [H1 H2]]]]]]]]]]]]].
  set (n := length vars) in *.
  assert (HwS0 : wf n n (mmul n (mmul n (mtrans n V) Om) V)).
  { apply wf_mmul'. rewrite length_mmul. apply length_mtrans. }
  split; [|split].
  - rewrite map_length. unfold mean_vec in Hm. destruct (mean_dict K cpds vars); [|discriminate].
    apply (traverse_o_length _ _ _ Hm).
  - apply wf_mmap. assumption.
  - intros i j Hi Hj. rewrite !(mget_mmap K rnd n n) by assumption. f_equal.
    pose proof (sandwich_sym n V Om HV HO HOt) as Hs.
    rewrite <- Hs at 1. apply mget_mtrans; [assumption|].
    rewrite length_mmul, length_mmul, length_mtrans. assumption.
Qed.

(* (I-B)^T S (I-B) = Omega, for S = inv^T Omega inv *)
Lemma cov_fixed_point n (B Om V : mat) :
  wf n n B -> wf n n Om -> wf n n V ->
  let N := mminus n (mid K n) B in
  mmul n V N = mid K n ->
  mmul n (mmul n (mtrans n N) (mmul n (mmul n (mtrans n V) Om) V)) N = Om.
Proof.
  intros HB HO HV N H1. pose proof HV as [HlV _]. pose proof HO as [HlO _].
  assert (HlN : length N = n) by (unfold N, mminus; rewrite length_mbuild; apply length_mid).
  (* N^T V^T = (V N)^T = I *)
  assert (HNV : mmul n (mtrans n N) (mtrans n V) = mid K n).
  { pose proof (mtrans_mmul K Kok n V N) as E. rewrite HlV, HlN, H1, mtrans_mid in E. symmetry. exact E. }
  rewrite <- (mmul_assoc K Kok n n (mtrans n N) (mmul n (mtrans n V) Om) V) by assumption.
  rewrite <- (mmul_assoc K Kok n n (mtrans n N) (mtrans n V) Om) by assumption.
  rewrite HNV. rewrite (mmul_id_l K Kok n n Om HO).
  rewrite (mmul_assoc K Kok n n Om V N) by assumption.
  rewrite H1. apply (mmul_id_r K Kok n n Om HO).
Qed.

(* ... and S is the only such matrix *)
Lemma cov_unique n (B Om V S' : mat) :
  wf n n V -> wf n n S' ->
  let N := mminus n (mid K n) B in
  mmul n N V = mid K n ->
  mmul n (mmul n (mtrans n N) S') N = Om ->
  S' = mmul n (mmul n (mtrans n V) Om) V.
Proof.
  intros HV HS N H2 HE. pose proof HV as [HlV _]. pose proof HS as [HlS _].
  assert (HlN : length N = n) by (unfold N, mminus; rewrite length_mbuild; apply length_mid).
  assert (HVN : mmul n (mtrans n V) (mtrans n N) = mid K n).
  { pose proof (mtrans_mmul K Kok n N V) as E. rewrite HlV, HlN, H2, mtrans_mid in E. symmetry. exact E. }
  rewrite <- HE.
  rewrite <- (mmul_assoc K Kok n n (mtrans n V) (mmul n (mtrans n N) S') N) by assumption.
  rewrite <- (mmul_assoc K Kok n n (mtrans n V) (mtrans n N) S') by assumption.
  rewrite HVN. rewrite (mmul_id_l K Kok n n S' HS).
  rewrite (mmul_assoc K Kok n n S' N V) by assumption.
  rewrite H2. symmetry. apply (mmul_id_r K Kok n n S' HS).
Qed.

End Joint.
