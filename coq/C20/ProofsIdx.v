(* C20 proofs, part 1: index bookkeeping.  Index lists obtained from names select exactly the named
   entries (select / np.ix_ / np.delete), hence marginalize, reduce and predict compute the textbook
   formulas on blocks taken by variable name. *)
From Coq Require Import List Bool Arith Lia.
From PV Require Import Base.Graph Base.Matrix C20.Model C20.Spec.
Import ListNotations.

Lemma pos_index v ord i : index_of v ord = Some i -> pos ord v = i.
Proof. unfold pos. intros ->. reflexivity. Qed.

Lemma traverse_o_total {A B} (f : A -> option B) l :
  (forall x, In x l -> exists y, f x = Some y) -> exists r, traverse_o f l = Some r.
Proof.
  induction l as [|a l IH]; simpl; intros H; [eauto|].
  destruct (H a (or_introl eq_refl)) as [y ->].
  destruct IH as [r ->]; [intros; apply H; right; assumption|]. eauto.
Qed.

Lemma traverse_index_lt ord l li :
  traverse_o (fun v => index_of v ord) l = Some li -> forall i, In i li -> i < length ord.
Proof.
  revert li; induction l as [|a l IH]; simpl; intros li H i Hi.
  - inversion H; subst. destruct Hi.
  - destruct (index_of a ord) eqn:Ea; [|discriminate].
    destruct (traverse_o _ l) eqn:El; [|discriminate]. inversion H; subst.
    destruct Hi as [<-|Hi]; [apply index_of_Some in Ea; tauto|]. eapply IH; eauto.
Qed.

Lemma nth_pos ord l li a :
  traverse_o (fun v => index_of v ord) l = Some li -> a < length l ->
  nth a li 0 = pos ord (nth a l 0).
Proof.
  intros H Ha. pose proof (traverse_o_nth _ _ _ 0 0 a H Ha) as E. simpl in E.
  symmetry. apply pos_index. exact E.
Qed.

Lemma complement_lt n idx i : In i (complement n idx) -> i < n.
Proof. unfold complement. intros H. apply filter_In in H. destruct H as [H _]. apply in_seq in H. lia. Qed.

Ltac nrm := unfold Matrix.vec, Matrix.mat in *.

Section Idx.
Variable K : fieldT.
Hypothesis Kok : field_ok K.
Local Notation vec := (vec K).
Local Notation mat := (mat K).

Lemma nth_map_default {A B} (f : A -> B) l i da db : i < length l -> nth i (map f l) db = f (nth i l da).
Proof.
  intros Hi. rewrite (nth_indep _ db (f da)) by (rewrite map_length; assumption). apply map_nth.
Qed.

Lemma nth_mbuild n m (f : nat -> nat -> K) i : i < n -> nth i (mbuild n m f) [] = vbuild m (f i).
Proof. intros Hi. unfold mbuild. apply (nth_map_seq (fun i => vbuild m (f i))). assumption. Qed.

(* ---- named selection *)
Lemma select_named (v : vec) ord names li :
  traverse_o (fun u => index_of u ord) names = Some li -> select li v = nvec v ord names.
Proof.
  intros H. pose proof (traverse_o_length _ _ _ H) as Hl.
  apply vec_ext.
  - rewrite length_select. unfold nvec. rewrite length_vbuild. assumption.
  - rewrite length_select. intros a Ha. rewrite vget_select by assumption.
    unfold nvec. rewrite vget_vbuild by lia. rewrite (nth_pos ord names li a H) by lia. reflexivity.
Qed.

Lemma msub_ix_named (M : mat) ord rs cs ri ci :
  traverse_o (fun u => index_of u ord) rs = Some ri ->
  traverse_o (fun u => index_of u ord) cs = Some ci ->
  msub_ix M ri ci = nblock M ord rs cs.
Proof.
  intros Hr Hc. pose proof (traverse_o_length _ _ _ Hr) as Hlr. pose proof (traverse_o_length _ _ _ Hc) as Hlc.
  apply (wf_ext K (length rs) (length cs)).
  - rewrite <- Hlr, <- Hlc. apply wf_msub_ix.
  - apply wf_mbuild.
  - intros a b Ha Hb. rewrite mget_msub_ix by lia. unfold nblock. rewrite mget_mbuild by assumption.
    rewrite (nth_pos ord rs ri a Hr), (nth_pos ord cs ci b Hc) by assumption. reflexivity.
Qed.

(* ---- np.delete on rows / columns = np.ix_ with the complement index list *)
Lemma mdelete_cols_mrows n m (M : mat) rs idx :
  wf n m M -> (forall i, In i rs -> i < n) ->
  mdelete_cols idx (mrows rs M) = msub_ix M rs (complement m idx).
Proof.
  intros HM Hrs. unfold mdelete_cols, mrows, msub_ix. rewrite map_map.
  apply map_ext_in. intros i Hi. unfold vdelete, select.
  rewrite (wf_row K n m M i HM (Hrs i Hi)). reflexivity.
Qed.

Lemma vdelete_named (v : vec) ord del di :
  NoDup ord -> length v = length ord ->
  traverse_o (fun u => index_of u ord) del = Some di ->
  vdelete di v = nvec v ord (filter (fun u => negb (memn u del)) ord).
Proof.
  intros Hnd Hl Hdi. unfold vdelete. rewrite Hl.
  apply select_named. apply complement_by_name; assumption.
Qed.

(* ---- GaussianDistribution.marginalize *)
Lemma keep_idx_total gv drop : exists keep, keep_idx gv drop = Some keep.
Proof.
  unfold keep_idx. apply traverse_o_total. intros x Hx. apply filter_In in Hx.
  apply index_of_In. tauto.
Qed.

Lemma marginalize_named (D : gauss K) drop :
  exists R, g_marginalize K D drop = Some R /\
    let keepv := filter (fun v => negb (memn v drop)) (gvars D) in
    gvars R = keepv /\
    gmean R = nvec (gmean D) (gvars D) keepv /\
    gcov R = nblock (gcov D) (gvars D) keepv keepv.
Proof.
  unfold g_marginalize. destruct (keep_idx_total (gvars D) drop) as [keep Hk]. rewrite Hk.
  eexists; split; [reflexivity|]. simpl. unfold keep_idx in Hk.
  repeat split.
  - apply (traverse_o_index_names _ _ _ Hk).
  - apply select_named. assumption.
  - apply msub_ix_named; assumption.
Qed.

(* ---- GaussianDistribution.reduce *)
Lemma reduce_named (D : gauss K) values R :
  g_reduce K D values = Some R ->
  let redv := map fst values in
  let keepv := filter (fun v => negb (memn v redv)) (gvars D) in
  (forall v, In v redv -> In v (gvars D)) /\
  gvars R = keepv /\
  exists W, is_inverse (length redv) W (nblock (gcov D) (gvars D) redv redv) /\
    gmean R = cond_mean (gmean D) (gcov D) (gvars D) keepv redv W (map snd values) /\
    gcov R = cond_cov (gcov D) (gvars D) keepv redv W.
Proof.
  unfold g_reduce. intros H. cbv zeta.
  destruct (keep_idx (gvars D) (map fst values)) as [keep|] eqn:Hk; [|discriminate].
  destruct (traverse_o (fun v => index_of v (gvars D)) (map fst values)) as [red|] eqn:Hr; [|discriminate].
  destruct (minv (msub_ix (gcov D) red red)) as [W|] eqn:HW; [|discriminate].
  inversion H; subst R; clear H. simpl. unfold keep_idx in Hk.
  pose proof (traverse_o_length _ _ _ Hk) as Hlk. pose proof (traverse_o_length _ _ _ Hr) as Hlr.
  split; [|split].
  - intros v Hv. destruct (In_nth _ _ 0 Hv) as [a [Ha Hav]].
    pose proof (traverse_o_nth _ _ _ 0 0 a Hr Ha) as E. simpl in E. rewrite Hav in E.
    apply index_of_Some in E. destruct E as [E1 E2]. rewrite <- E2. apply nth_In. assumption.
  - apply (traverse_o_index_names _ _ _ Hk).
  - exists W. apply (minv_ok K Kok) in HW.
    assert (Hlen : length (msub_ix (gcov D) red red) = length (map fst values)).
    { unfold msub_ix. rewrite map_length. assumption. }
    rewrite Hlen in HW. destruct HW as [_ [HwW [H1 H2]]].
    rewrite (msub_ix_named (gcov D) (gvars D) _ _ red red Hr Hr) in H1, H2.
    split; [split; [assumption|split; assumption]|].
    unfold cond_mean, cond_cov.
    rewrite <- (select_named (gmean D) (gvars D) _ keep Hk).
    rewrite <- (select_named (gmean D) (gvars D) _ red Hr).
    rewrite <- (msub_ix_named (gcov D) (gvars D) _ _ keep red Hk Hr).
    rewrite <- (msub_ix_named (gcov D) (gvars D) _ _ red keep Hr Hk).
    rewrite <- (msub_ix_named (gcov D) (gvars D) _ _ keep keep Hk Hk).
    rewrite Hlk, Hlr. split; reflexivity.
Qed.

(* ---- predict *)
Lemma mget_mmap (f : K -> K) n m (A : mat) i j : wf n m A -> i < n -> j < m ->
  mget (mmap f A) i j = f (mget A i j).
Proof.
  intros HA Hi Hj. destruct HA as [HlA HfA]. unfold mmap, mget.
  rewrite (nth_map_default (map f) A i [] []) by lia.
  rewrite (nth_map_default f _ j (f0 K) (f0 K)); [reflexivity|].
  rewrite Forall_forall in HfA. rewrite (HfA (nth i A [])); [assumption|]. apply nth_In. lia.
Qed.
Lemma wf_mmap (f : K -> K) n m (A : mat) : wf n m A -> wf n m (mmap f A).
Proof.
  intros [Hl Hf]. split.
  - unfold mmap. rewrite map_length. assumption.
  - rewrite Forall_forall in *. intros r Hr. unfold mmap in Hr. apply in_map_iff in Hr.
    destruct Hr as [r0 [<- Hr0]]. rewrite map_length. auto.
Qed.

(* one row of the conditional mean matrix *)
Lemma predict_mean_row (G D : mat) a b N r :
  length G = a -> length D = N -> r < N -> length (nth r D []) = b ->
  nth r (mtrans N (mmul N G (mtrans b D))) [] = mvmul G (nth r D []).
Proof.
  intros HG HD Hr Hb. unfold mtrans at 1. rewrite nth_mbuild by assumption.
  rewrite length_mmul. unfold mvmul. apply vbuild_ext. intros j Hj.
  rewrite mget_mmul by assumption. rewrite length_mtrans. rewrite Hb.
  apply bsum_ext. intros l Hl. rewrite mget_mtrans by (auto; lia). reflexivity.
Qed.

Lemma predict_named_gen rnd cpds vars missing cols rows names mu_c cov_c mu S :
  NoDup vars ->
  to_joint_gaussian K rnd cpds vars = Some (mu, S) ->
  length mu = length vars -> wf (length vars) (length vars) S -> symmetric (length vars) S ->
  predict K rnd cpds vars missing cols rows = Some (names, mu_c, cov_c) ->
  let R := remain_vars vars missing in
  names = missing /\ missing <> [] /\
  (forall v, In v missing -> In v vars) /\ (forall v, In v R -> In v cols) /\
  exists W, is_inverse (length R) W (nblock S vars R R) /\
    cov_c = cond_cov S vars missing R W /\
    length mu_c = length rows /\
    forall r, r < length rows ->
      nth r mu_c [] = cond_mean mu S vars missing R W (nvec (nth r rows []) cols R).
Proof.
  intros Hnd HJ Hlmu HwS Hsym HP. cbv zeta.
  unfold predict in HP. destruct missing as [|m0 mrest] eqn:Hmis; [discriminate|]. rewrite <- Hmis in *.
  rewrite HJ in HP.
  destruct (traverse_o (fun v => index_of v vars) missing) as [mi|] eqn:Hmi; [|discriminate].
  destruct (minv _) as [W|] eqn:HW; [|discriminate].
  destruct (traverse_o (fun v => index_of v cols) (remain_vars vars missing)) as [ci|] eqn:Hci; [|discriminate].
  inversion HP; subst names mu_c cov_c; clear HP.
  set (R := remain_vars vars missing) in *.
  assert (Hri : traverse_o (fun v => index_of v vars) R = Some (complement (length vars) mi)).
  { apply complement_by_name; assumption. }
  set (ri := complement (length vars) mi) in *.
  pose proof (traverse_o_length _ _ _ Hmi) as Hlmi.
  pose proof (traverse_o_length _ _ _ Hri) as Hlri.
  pose proof (traverse_o_length _ _ _ Hci) as Hlci.
  assert (Hmi_lt : forall i, In i mi -> i < length vars) by (apply (traverse_index_lt _ _ _ Hmi)).
  assert (Hri_lt : forall i, In i ri -> i < length vars) by (intros i; apply complement_lt).
  (* the blocks *)
  assert (Ebb : mdelete_cols mi (mdelete_rows mi S) = nblock S vars R R).
  { unfold mdelete_rows. destruct HwS as [HlS HfS]. rewrite HlS. fold ri.
    rewrite (mdelete_cols_mrows (length vars) (length vars)) by (auto; split; assumption).
    fold ri. apply msub_ix_named; assumption. }
  assert (Eab : mdelete_cols mi (mrows mi S) = nblock S vars missing R).
  { rewrite (mdelete_cols_mrows (length vars) (length vars)) by assumption.
    fold ri. apply msub_ix_named; assumption. }
  assert (Eaa : msub_ix S mi mi = nblock S vars missing missing) by (apply msub_ix_named; assumption).
  assert (Eba : mtrans (length R) (nblock S vars missing R) = nblock S vars R missing).
  { rewrite <- (msub_ix_named S vars _ _ mi ri Hmi Hri).
    rewrite <- (msub_ix_named S vars _ _ ri mi Hri Hmi).
    apply (wf_ext K (length R) (length missing)).
    - apply wf_mtrans'. unfold msub_ix. rewrite map_length. assumption.
    - rewrite <- Hlri, <- Hlmi. apply wf_msub_ix.
    - intros i j Hi Hj. rewrite mget_mtrans by (auto; unfold msub_ix; rewrite map_length; lia).
      rewrite !mget_msub_ix by lia. apply Hsym.
      + apply Hmi_lt. apply nth_In. lia.
      + apply Hri_lt. apply nth_In. lia. }
  rewrite Ebb in HW. rewrite Eab. rewrite Eaa.
  split; [apply (traverse_o_index_names _ _ _ Hmi)|].
  split; [rewrite Hmis; discriminate|].
  split.
  { intros v Hv. destruct (In_nth _ _ 0 Hv) as [a [Ha Hav]].
    pose proof (traverse_o_nth _ _ _ 0 0 a Hmi Ha) as E. simpl in E. rewrite Hav in E.
    apply index_of_Some in E. destruct E as [E1 E2]. rewrite <- E2. apply nth_In. assumption. }
  split.
  { intros v Hv. destruct (In_nth _ _ 0 Hv) as [a [Ha Hav]].
    pose proof (traverse_o_nth _ _ _ 0 0 a Hci Ha) as E. simpl in E. rewrite Hav in E.
    apply index_of_Some in E. destruct E as [E1 E2]. rewrite <- E2. apply nth_In. assumption. }
  exists W. apply (minv_ok K Kok) in HW.
  assert (HlRR : length (nblock S vars R R) = length R) by (unfold nblock; apply length_mbuild).
  rewrite HlRR in HW. destruct HW as [_ [HwW [H1 H2]]].
  split; [split; [assumption|split; assumption]|].
  split.
  { unfold cond_cov. rewrite Eba. rewrite Hlmi. reflexivity. }
  split.
  { nrm. rewrite map_length. apply length_mtrans. }
  intros r Hr.
  rewrite (nth_map_default (fun r0 => vplus (select mi mu) r0) _ r [] [])
    by (nrm; rewrite length_mtrans; assumption).
  unfold cond_mean.
  rewrite <- (select_named mu vars _ mi Hmi). f_equal.
  rewrite (predict_mean_row _ _ (length missing) (length R) (length rows) r).
  - rewrite (nth_map_default (fun x => vminus x (vdelete mi mu)) _ r [] []) by (rewrite map_length; assumption).
    rewrite (nth_map_default (select ci) rows r [] []) by assumption.
    rewrite (select_named (nth r rows []) cols R ci Hci).
    rewrite (vdelete_named mu vars missing mi Hnd Hlmu Hmi). reflexivity.
  - rewrite length_mmul. unfold nblock. apply length_mbuild.
  - rewrite !map_length. reflexivity.
  - assumption.
  - rewrite (nth_map_default (fun x => vminus x (vdelete mi mu)) _ r [] []) by (rewrite map_length; assumption).
    unfold vminus. rewrite length_vbuild.
    rewrite (nth_map_default (select ci) rows r [] []) by assumption.
    rewrite length_select. assumption.
Qed.

End Idx.
