(* C20 entry points for the extracted driver: sx -> sx.  Field instance: Qc (exact rationals). *)
From Coq Require Import List Bool Arith ZArith QArith Qcanon.
From PV Require Import Base.Sx Base.Graph Base.Matrix C20.Model.
Import ListNotations.

Definition QcF : fieldT :=
  mkField Qc (Q2Qc 0) (Q2Qc 1) Qcplus Qcmult Qcminus Qcopp Qcdiv Qcinv Qc_eq_bool.

(* numpy .round(decimals=8): rint(x * 1e8) / 1e8, ties to even *)
Definition rnd8 (q : Qc) : Qc :=
  let s := 100000000%Z in
  let n := (Qnum (this q) * s)%Z in
  let d := Zpos (Qden (this q)) in
  let fl := Z.div n d in
  let r2 := (2 * (n - fl * d))%Z in
  let k := if (d <? r2)%Z then (fl + 1)%Z
           else if (r2 =? d)%Z then (if Z.even fl then fl else (fl + 1)%Z)
           else fl in
  Q2Qc (k # 100000000).
Definition rnd_of (b : bool) : Qc -> Qc := if b then rnd8 else (fun x => x).

Definition sx_vec : sx -> option (list Qc) := sx_list sx_Qc.
Definition sx_mat : sx -> option (list (list Qc)) := sx_list sx_vec.
Definition sx_nats : sx -> option (list nat) := sx_list sx_nat.
Definition of_vec (v : list Qc) : sx := of_list of_Qc v.
Definition of_mat (m : list (list Qc)) : sx := of_list of_vec m.
Definition of_nats (l : list nat) : sx := of_list of_nat l.

(* cpd = [var; [b0 b1 ...]; variance; [evidence ...]] *)
Definition sx_cpd (s : sx) : option (@cpd QcF) :=
  match s with
  | SL [v; m; s2; e] =>
      match sx_nat v, sx_vec m, sx_Qc s2, sx_nats e with
      | Some v', Some m', Some s2', Some e' => Some (mkCpd (K:=QcF) v' m' s2' e')
      | _, _, _, _ => None
      end
  | _ => None
  end.
Definition sx_cpds := sx_list sx_cpd.

Definition of_cpd (c : @cpd QcF) : sx :=
  SL [of_nat (cvar c); of_vec (cmean c); of_Qc (cvariance c); of_nats (cevid c)].

(* [cpds-in-add-order] -> model.cpds after add_cpds of them, one by one, on an empty list *)
Definition run_c20_add_cpds (s : sx) : sx :=
  match sx_cpds s with
  | Some cs => sx_ok (of_list of_cpd (add_cpds QcF [] cs))
  | None => bad_request
  end.

(* [round?; cpds-in-add-order; topological order] -> [mean; cov]; error 1 = exception *)
Definition run_c20_joint (s : sx) : sx :=
  match s with
  | SL [sr; sc; so] =>
      match sx_bool sr, sx_cpds sc, sx_nats so with
      | Some r, Some cs, Some ord =>
          match to_joint_gaussian QcF (rnd_of r) (add_cpds QcF [] cs) ord with
          | Some (mu, cov) => sx_ok (SL [of_vec mu; of_mat cov])
          | None => sx_err 1
          end
      | _, _, _ => bad_request
      end
  | _ => bad_request
  end.

(* B and omega of step 2 (for diagnosis / adequacy): [cpds; order] -> [B; omega] *)
Definition run_c20_fill (s : sx) : sx :=
  match s with
  | SL [sc; so] =>
      match sx_cpds sc, sx_nats so with
      | Some cs, Some ord =>
          match fill QcF (add_cpds QcF [] cs) ord with
          | Some (B, Om) => sx_ok (SL [of_mat B; of_mat Om])
          | None => sx_err 1
          end
      | _, _ => bad_request
      end
  | _ => bad_request
  end.

(* [round?; cpds; order; missing (in the order pgmpy's set iteration produced); columns; rows]
   -> [names; mu_cond; cov_cond]; error 1 = exception.  missing must be duplicate-free. *)
Definition nodupb (l : list nat) : bool :=
  (fix go (l : list nat) : bool := match l with [] => true | x :: r => negb (memn x r) && go r end) l.
Definition run_c20_predict (s : sx) : sx :=
  match s with
  | SL [sr; sc; so; sm; scol; srows] =>
      match sx_bool sr, sx_cpds sc, sx_nats so, sx_nats sm, sx_nats scol, sx_mat srows with
      | Some r, Some cs, Some ord, Some mis, Some cols, Some rows =>
          if nodupb mis && nodupb ord && nodupb cols
             && forallb (fun v => memn v ord && negb (memn v cols)) mis
             && forallb (fun v => memn v mis || memn v cols) ord
          then
            match predict QcF (rnd_of r) (add_cpds QcF [] cs) ord mis cols rows with
            | Some (names, mu, cov) => sx_ok (SL [of_nats names; of_mat mu; of_mat cov])
            | None => sx_err 1
            end
          else sx_err 2
      | _, _, _, _, _, _ => bad_request
      end
  | _ => bad_request
  end.

(* [columns; rows; node; parents] -> [beta; variance] *)
Definition run_c20_fit (s : sx) : sx :=
  match s with
  | SL [scol; srows; sn; sp] =>
      match sx_nats scol, sx_mat srows, sx_nat sn, sx_nats sp with
      | Some cols, Some rows, Some node, Some ps =>
          match fit_node QcF cols rows node ps with
          | Some (beta, s2) => sx_ok (SL [of_vec beta; of_Qc s2])
          | None => sx_err 1
          end
      | _, _, _, _ => bad_request
      end
  | _ => bad_request
  end.

Definition sx_gauss (s : sx) : option (@gauss QcF) :=
  match s with
  | SL [v; m; c] =>
      match sx_nats v, sx_vec m, sx_mat c with
      | Some v', Some m', Some c' => Some (mkGauss (K:=QcF) v' m' c')
      | _, _, _ => None
      end
  | _ => None
  end.
Definition of_gauss (D : @gauss QcF) : sx := SL [of_nats (gvars D); of_vec (gmean D); of_mat (gcov D)].
Definition of_canon (C : @canon QcF) : sx := SL [of_nats (kvars C); of_mat (kK C); of_vec (kh C)].

(* [gauss; drop] -> gauss *)
Definition run_c20_marg (s : sx) : sx :=
  match s with
  | SL [sg; sd] =>
      match sx_gauss sg, sx_nats sd with
      | Some D, Some drop =>
          match g_marginalize QcF D drop with
          | Some R => sx_ok (of_gauss R)
          | None => sx_err 1
          end
      | _, _ => bad_request
      end
  | _ => bad_request
  end.

(* [gauss; [(var value) ...]] -> gauss *)
Definition run_c20_reduce (s : sx) : sx :=
  match s with
  | SL [sg; sv] =>
      match sx_gauss sg, sx_list (sx_pair sx_nat sx_Qc) sv with
      | Some D, Some vals =>
          match g_reduce QcF D vals with
          | Some R => sx_ok (of_gauss R)
          | None => sx_err 1
          end
      | _, _ => bad_request
      end
  | _ => bad_request
  end.

(* gauss -> [canonical (K, h); gaussian obtained back from it] *)
Definition run_c20_canon (s : sx) : sx :=
  match sx_gauss s with
  | Some D =>
      match g_to_canonical QcF D with
      | Some C =>
          match c_to_joint_gaussian QcF C with
          | Some R => sx_ok (SL [of_canon C; of_gauss R])
          | None => sx_err 1
          end
      | None => sx_err 1
      end
  | None => bad_request
  end.

(* [product?; gauss1; gauss2] -> [canonical result of CanonicalDistribution._operate; gaussian result
   ([] when K of the result is singular)] *)
Definition run_c20_operate (s : sx) : sx :=
  match s with
  | SL [sp; s1; s2] =>
      match sx_bool sp, sx_gauss s1, sx_gauss s2 with
      | Some p, Some D1, Some D2 =>
          match g_to_canonical QcF D1, g_to_canonical QcF D2 with
          | Some C1, Some C2 =>
              match c_operate QcF p C1 C2 with
              | Some C => sx_ok (SL [of_canon C; of_option of_gauss (c_to_joint_gaussian QcF C)])
              | None => sx_err 1
              end
          | _, _ => sx_err 1
          end
      | _, _, _ => bad_request
      end
  | _ => bad_request
  end.

(* [[vars; K; h]; drop] -> [canonical result (K', h') of CanonicalDistribution.marginalize; quadratic summand of g' as coded] *)
Definition run_c20_cmarg (s : sx) : sx :=
  match s with
  | SL [SL [sv; sk; sh]; sd] =>
      match sx_nats sv, sx_mat sk, sx_vec sh, sx_nats sd with
      | Some v, Some k, Some h, Some drop =>
          match c_marginalize QcF (mkCanon (K:=QcF) v k h) drop with
          | Some (C, qd) => sx_ok (SL [of_canon C; of_Qc qd])
          | None => sx_err 1
          end
      | _, _, _, _ => bad_request
      end
  | _ => bad_request
  end.

(* usage sequences on one GaussianDistribution object.
   step = [0] precision_matrix | [1] to_canonical_factor | [2] copy | [3; drop] marginalize | [4; values] reduce
        | [5; product?; gauss] product/divide, continue with the result | [6; product?; gauss] ... continue with self
   [gauss; steps] -> for every step [] (exception) or [[distribution; [] | [cached precision]]] *)
Definition sx_step (s : sx) : option (@gstep QcF) :=
  match s with
  | SL [SZ 0%Z] => Some (SPrec (K:=QcF))
  | SL [SZ 1%Z] => Some (SCanon (K:=QcF))
  | SL [SZ 2%Z] => Some (SCopy (K:=QcF))
  | SL [SZ 3%Z; d] => option_map (fun l => SMarg (K:=QcF) l) (sx_nats d)
  | SL [SZ 4%Z; v] => option_map (fun l => SReduce (K:=QcF) l) (sx_list (sx_pair sx_nat sx_Qc) v)
  | SL [SZ 5%Z; p; g] => match sx_bool p, sx_gauss g with
                         | Some p', Some g' => Some (SOperate (K:=QcF) p' g') | _, _ => None end
  | SL [SZ 6%Z; p; g] => match sx_bool p, sx_gauss g with
                         | Some p', Some g' => Some (SOperateSelf (K:=QcF) p' g') | _, _ => None end
  | _ => None
  end.
Definition of_obj (o : @gobj QcF) : sx := SL [of_gauss (o_d o); of_option of_mat (o_cache o)].
Definition run_c20_seq (s : sx) : sx :=
  match s with
  | SL [sg; ss] =>
      match sx_gauss sg, sx_list sx_step ss with
      | Some D, Some steps =>
          sx_ok (of_list (of_option of_obj) (o_trace QcF (mkObj (K:=QcF) D None) steps))
      | _, _ => bad_request
      end
  | _ => bad_request
  end.
