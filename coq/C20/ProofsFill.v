(* C20 proofs, part 5: what the assignment loops of step 2 of to_joint_gaussian put into B and Omega:
   B[pos p, pos v] = coefficient of parent p in the CPD of v, zero elsewhere; Omega = diag(variances). *)
From Coq Require Import List Bool Arith Lia.
From PV Require Import Base.Graph Base.Matrix C20.Model C20.Spec C20.ProofsIdx C20.ProofsJoint.
Import ListNotations.

Lemma In_enumerate_gen {A} (l : list A) s p d :
  In p (combine (seq s (length l)) l) <-> exists k, k < length l /\ p = (s + k, nth k l d).
Proof.
  revert s; induction l as [|a l IH]; intros s; simpl.
  - split; [tauto|]. intros [k [Hk _]]. lia.
  - split.
    + intros [<-|H].
      * exists 0. split; [lia|]. rewrite Nat.add_0_r. reflexivity.
      * apply IH in H. destruct H as [k [Hk ->]]. exists (S k). split; [lia|].
        rewrite Nat.add_succ_r. reflexivity.
    + intros [k [Hk ->]]. destruct k.
      * left. rewrite Nat.add_0_r. reflexivity.
      * right. apply IH. exists k. split; [lia|]. rewrite Nat.add_succ_r. reflexivity.
Qed.
Lemma In_enumerate {A} (l : list A) p d :
  In p (enumerate l) <-> exists k, k < length l /\ p = (k, nth k l d).
Proof. unfold enumerate. rewrite (In_enumerate_gen l 0 p d). reflexivity. Qed.
Lemma map_snd_enumerate_gen {A} (l : list A) s : map snd (combine (seq s (length l)) l) = l.
Proof. revert s; induction l as [|a l IH]; intros s; simpl; [reflexivity|]. rewrite IH. reflexivity. Qed.
Lemma map_snd_enumerate {A} (l : list A) : map snd (enumerate l) = l.
Proof. apply map_snd_enumerate_gen. Qed.

Section FillEntries.
Variable K : fieldT.
Hypothesis Kok : field_ok K.
Local Notation vec := (vec K).
Local Notation mat := (mat K).
Local Notation cpd := (cpd K).
Variable cpds : list cpd.

Lemma mget_mset_same n m (M : mat) i j x : wf n m M -> i < n -> j < m -> mget (mset M i j x) i j = x.
Proof.
  intros HM Hi Hj. rewrite mget_mset. rewrite !Nat.eqb_refl. simpl.
  pose proof HM as [HlM _]. rewrite (wf_row K n m M i HM Hi).
  destruct (Nat.ltb_spec i (length M)); [|lia]. destruct (Nat.ltb_spec j m); [|lia]. reflexivity.
Qed.
Lemma mget_mset_other (M : mat) i j x a b : (i <> a \/ j <> b) -> mget (mset M i j x) a b = mget M a b.
Proof.
  intros H. rewrite mget_mset.
  destruct (Nat.eqb_spec i a); destruct (Nat.eqb_spec j b); simpl; try reflexivity. lia.
Qed.
Lemma mget_mzero_all n m i j : mget (mzero K n m) i j = f0 K.
Proof.
  unfold mget. destruct (Nat.lt_ge_cases i n) as [Hi|Hi].
  - unfold mzero. rewrite nth_mbuild by assumption.
    destruct (Nat.lt_ge_cases j m) as [Hj|Hj].
    + apply (vget_vbuild K m (fun _ => f0 K) j Hj).
    + apply nth_overflow. rewrite length_vbuild. assumption.
  - rewrite (nth_overflow (mzero K n m)) by (unfold mzero; rewrite length_mbuild; assumption).
    destruct j; reflexivity.
Qed.

(* inner loop: column j of B receives the coefficients of c *)
Lemma fill_B_spec vars c j n l : forall B B',
  wf n n B -> j < n -> length vars = n ->
  fold_left (fill_B_step K vars c j) l (Some B) = Some B' ->
  wf n n B' /\
  (forall a b, b <> j -> mget B' a b = mget B a b) /\
  (forall i, (forall p, In p l -> index_of (snd p) vars <> Some i) -> mget B' i j = mget B i j) /\
  (forall p, In p l -> exists i, index_of (snd p) vars = Some i) /\
  (NoDup (map snd l) -> forall p i, In p l -> index_of (snd p) vars = Some i ->
     mget B' i j = vget (cmean c) (S (fst p))).
Proof.
  induction l as [|p l IH]; intros B B' HB Hj Hn H; simpl in H.
  - inversion H; subst. split; [assumption|]. split; [intros; reflexivity|]. split; [intros; reflexivity|].
    split; [intros p []|intros _ p i []].
  - destruct (index_of (snd p) vars) as [i0|] eqn:Ei; [|rewrite fill_B_none in H; discriminate].
    assert (Hi0 : i0 < n) by (apply index_of_Some in Ei; lia).
    destruct (IH _ _ (wf_mset K n n B i0 j _ HB) Hj Hn H) as [Hw [Ha [Hc [He Hd]]]].
    split; [assumption|]. split; [|split; [|split]].
    + intros a b Hb. rewrite Ha by assumption. apply mget_mset_other. right. lia.
    + intros i Hi. rewrite Hc by (intros q Hq; apply Hi; right; assumption).
      apply mget_mset_other. left. intro E; subst. apply (Hi p (or_introl eq_refl)). assumption.
    + intros q [<-|Hq]; [eauto|apply He; assumption].
    + intros Hnd q i [<-|Hq] Hqi.
      * rewrite Ei in Hqi. inversion Hqi; subst i.
        rewrite Hc.
        -- apply (mget_mset_same n n); assumption.
        -- intros q Hq Hqi'. simpl in Hnd. inversion Hnd as [|? ? Hnin _]; subst.
           apply Hnin. rewrite (index_of_inj _ _ _ _ Ei Hqi'). apply in_map. assumption.
      * simpl in Hnd. inversion Hnd; subst. apply Hd; assumption.
Qed.

(* outer loop, relative to the state it starts from *)
Lemma fill_fold_spec vars n l : forall B Om B' Om',
  length vars = n -> NoDup l -> wf n n B -> wf n n Om ->
  fold_left (fill_step K cpds vars) l (Some (B, Om)) = Some (B', Om') ->
  (forall j, j < n -> ~ In (nth j vars 0) l ->
     forall a, mget B' a j = mget B a j /\ mget Om' a j = mget Om a j) /\
  (forall v, In v l -> exists c j,
     get_cpd K cpds v = Some c /\ index_of v vars = Some j /\
     mget Om' j j = cvariance c /\
     (forall a, a <> j -> mget Om' a j = mget Om a j) /\
     (forall i, (forall k, k < length (cevid c) -> index_of (nth k (cevid c) 0) vars <> Some i) ->
        mget B' i j = mget B i j) /\
     (forall k, k < length (cevid c) -> exists i, index_of (nth k (cevid c) 0) vars = Some i) /\
     (NoDup (cevid c) -> forall k i, k < length (cevid c) -> index_of (nth k (cevid c) 0) vars = Some i ->
        mget B' i j = vget (cmean c) (S k))).
Proof.
  induction l as [|a l IH]; intros B Om B' Om' Hn Hnd HB HO H; simpl in H.
  - inversion H; subst. split; [intros; split; reflexivity|intros v []].
  - destruct (get_cpd K cpds a) as [c|] eqn:Hc; [|rewrite fill_none in H; discriminate].
    destruct (index_of a vars) as [ja|] eqn:Hja; [|rewrite fill_none in H; discriminate].
    destruct (fold_left (fill_B_step K vars c ja) (enumerate (cevid c)) (Some B)) as [B1|] eqn:HB1;
      [|rewrite fill_none in H; discriminate].
    pose proof (index_of_Some _ _ _ Hja) as [Hjal Hjav]. rewrite Hn in Hjal.
    destruct (fill_B_spec vars c ja n _ B B1 HB Hjal Hn HB1) as [Hw1 [Ha1 [Hc1 [He1 Hd1]]]].
    apply NoDup_cons_iff in Hnd. destruct Hnd as [Hanl Hndl].
    destruct (IH B1 (mset Om ja ja (cvariance c)) B' Om' Hn Hndl Hw1 (wf_mset K _ _ Om ja ja _ HO) H)
      as [I1 I2].
    split.
    + intros j Hj Hnin a0. destruct (I1 j Hj (fun Hc0 => Hnin (or_intror Hc0)) a0) as [E1 E2].
      assert (Hne : j <> ja).
      { intro E; subst j. apply Hnin. left. symmetry. assumption. }
      split.
      * rewrite E1. apply Ha1. assumption.
      * rewrite E2. apply mget_mset_other. right. lia.
    + intros v [<-|Hv].
      * exists c, ja. split; [assumption|]. split; [assumption|].
        assert (Hcol : forall a0, mget B' a0 ja = mget B1 a0 ja /\ mget Om' a0 ja = mget (mset Om ja ja (cvariance c)) a0 ja).
        { apply I1; [assumption|]. rewrite Hjav. assumption. }
        split; [|split; [|split; [|split]]].
        -- rewrite (proj2 (Hcol ja)). apply (mget_mset_same n n); assumption.
        -- intros a0 Ha0. rewrite (proj2 (Hcol a0)). apply mget_mset_other. left. lia.
        -- intros i Hi. rewrite (proj1 (Hcol i)). apply Hc1. intros p Hp.
           apply (In_enumerate (cevid c) p 0) in Hp. destruct Hp as [k [Hk ->]]. simpl. apply Hi. assumption.
        -- intros k Hk. apply (He1 (k, nth k (cevid c) 0)). apply (In_enumerate (cevid c) _ 0). eauto.
        -- intros Hnde k i Hk Hki. rewrite (proj1 (Hcol i)).
           apply (Hd1 (eq_ind_r (fun l0 => NoDup l0) Hnde (map_snd_enumerate (cevid c))) (k, nth k (cevid c) 0) i).
           ++ apply (In_enumerate (cevid c) _ 0). eauto.
           ++ assumption.
      * destruct (I2 v Hv) as [c' [j' [G1 [G2 [G3 [G4 [G5 [G6 G7]]]]]]]].
        assert (Hne : j' <> ja).
        { intro E; subst j'. apply Hanl. rewrite (index_of_inj _ _ _ _ Hja G2). assumption. }
        exists c', j'. repeat split; try assumption.
        -- intros a0 Ha0. rewrite (G4 a0 Ha0). apply mget_mset_other. right. lia.
        -- intros i Hi. rewrite (G5 i Hi). apply Ha1. assumption.
Qed.

Lemma structure_entries vars B Om :
  NoDup vars -> fill K cpds vars = Some (B, Om) ->
  forall j, j < length vars -> exists c,
    get_cpd K cpds (nth j vars 0) = Some c /\
    mget Om j j = cvariance c /\
    (forall a, a <> j -> mget Om a j = f0 K) /\
    (forall i, i < length vars -> ~ In (nth i vars 0) (cevid c) -> mget B i j = f0 K) /\
    (forall k, k < length (cevid c) -> In (nth k (cevid c) 0) vars) /\
    (NoDup (cevid c) -> forall k, k < length (cevid c) ->
       mget B (pos vars (nth k (cevid c) 0)) j = vget (cmean c) (S k)).
Proof.
  intros Hnd H j Hj. unfold fill in H.
  destruct (fill_fold_spec vars (length vars) vars _ _ B Om eq_refl Hnd
              (wf_mbuild K _ _ _) (wf_mbuild K _ _ _) H) as [_ I2].
  destruct (I2 (nth j vars 0) (nth_In _ _ Hj)) as [c [j' [G1 [G2 [G3 [G4 [G5 [G6 G7]]]]]]]].
  rewrite (index_of_nth vars j Hnd Hj) in G2. inversion G2; subst j'.
  exists c. split; [assumption|]. split; [assumption|]. split; [|split; [|split]].
  - intros a Ha. rewrite (G4 a Ha). apply mget_mzero_all.
  - intros i Hi Hnin. rewrite G5; [apply mget_mzero_all|].
    intros k Hk E. apply Hnin. apply index_of_Some in E. destruct E as [_ E]. rewrite E. apply nth_In. assumption.
  - intros k Hk. destruct (G6 k Hk) as [i Hi]. apply index_of_Some in Hi. destruct Hi as [Hil <-].
    apply nth_In. assumption.
  - intros Hnde k Hk. destruct (G6 k Hk) as [i Hi]. rewrite (pos_index _ _ _ Hi).
    apply (G7 Hnde k i Hk Hi).
Qed.

End FillEntries.
