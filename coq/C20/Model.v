(* C20 model: pgmpy linear-Gaussian networks and Gaussian / canonical distributions, as coded
   (after fix 19c7520: predict takes cov[np.ix_(missing, missing)]).  Executable definitions only.

   Names (variables) are nat identifiers interned by the harness.  Numbers live in an arbitrary
   field record K (Base/Matrix.v); Run.v instantiates Qc.  Every numpy call is one of the primitives
   of Base/Matrix.v (defined by numpy's documented meaning); the index bookkeeping around them
   (name -> index lists, np.delete, np.ix_, scatter assignments, association order of @) is pgmpy's.

   Free order parameters (Python set / graph iteration orders) are explicit arguments:
     vars    = list(nx.topological_sort(model))
     missing = list(set(model.nodes()) - set(data.columns))      (a set: arbitrary order)
   None models a Python exception (KeyError / ValueError / LinAlgError). *)
From Coq Require Import List Bool Arith.
From PV Require Import Base.Graph Base.Matrix.
Import ListNotations.

Section Model.
Variable K : fieldT.
Local Notation "0" := (f0 K) : F_scope.
Local Notation "1" := (f1 K) : F_scope.
Local Infix "+" := (fadd K) : F_scope.
Local Infix "*" := (fmul K) : F_scope.
Local Infix "-" := (fsub K) : F_scope.
Local Infix "/" := (fdiv K) : F_scope.
Local Notation vec := (vec K).
Local Notation mat := (mat K).

(* LinearGaussianCPD(variable, evidence_mean = [b0, b1..bk], evidence_variance, evidence = [p1..pk]) *)
Record cpd := mkCpd { cvar : nat; cmean : vec; cvariance : K; cevid : list nat }.

(* ---------------------------------------------------------------- add_cpds / get_cpds *)
(* a CPD for an already present variable replaces it in place, otherwise it is appended *)
Fixpoint replace_cpd (c : cpd) (l : list cpd) : option (list cpd) :=
  match l with
  | [] => None
  | d :: r => if Nat.eqb (cvar d) (cvar c) then Some (c :: r)
              else option_map (cons d) (replace_cpd c r)
  end.
Definition add_cpd (l : list cpd) (c : cpd) : list cpd :=
  match replace_cpd c l with Some l' => l' | None => l ++ [c] end.
Definition add_cpds (l : list cpd) (cs : list cpd) : list cpd := fold_left add_cpd cs l.
(* get_cpds(node): first CPD whose variable is node *)
Definition get_cpd (l : list cpd) (v : nat) : option cpd := find (fun c => Nat.eqb (cvar c) v) l.

(* ---------------------------------------------------------------- to_joint_gaussian *)
(* the Python dict `mean`: newest binding first, lookup = newest binding *)
Definition dict := list (nat * K).
Fixpoint lookup (v : nat) (d : dict) : option K :=
  match d with
  | [] => None
  | (k, x) :: r => if Nat.eqb k v then Some x else lookup v r
  end.

(* mean[var] = (cpd.mean * np.array([1] + [mean[u] for u in cpd.evidence])).sum() *)
Definition mean_step (cpds : list cpd) (st : option dict) (var : nat) : option dict :=
  match st with
  | None => None
  | Some d =>
      match get_cpd cpds var with
      | None => None
      | Some c =>
          match traverse_o (fun u => lookup u d) (cevid c) with
          | None => None                                   (* KeyError: parent mean not yet known *)
          | Some ms => if Nat.eqb (length (cmean c)) (S (length ms))
                       then Some ((var, dot (cmean c) (1%F :: ms)) :: d)
                       else None                            (* shapes do not broadcast *)
          end
      end
  end.
Definition mean_dict (cpds : list cpd) (vars : list nat) : option dict :=
  fold_left (mean_step cpds) vars (Some []).
Definition mean_vec (cpds : list cpd) (vars : list nat) : option vec :=
  match mean_dict cpds vars with
  | None => None
  | Some d => traverse_o (fun u => lookup u d) vars
  end.

Definition enumerate {A} (l : list A) : list (nat * A) := combine (seq 0 (length l)) l.

(* B[var_to_index[ev], var_to_index[var]] = cpd.mean[i + 1] for i, ev in enumerate(cpd.evidence) *)
Definition fill_B_step (vars : list nat) (c : cpd) (j : nat) (acc : option mat) (p : nat * nat) : option mat :=
  match acc, index_of (snd p) vars with
  | Some B, Some i => Some (mset B i j (vget (cmean c) (S (fst p))))
  | _, _ => None
  end.
Definition fill_step (cpds : list cpd) (vars : list nat) (st : option (mat * mat)) (var : nat)
  : option (mat * mat) :=
  match st with
  | None => None
  | Some (B, Om) =>
      match get_cpd cpds var, index_of var vars with
      | Some c, Some j =>
          match fold_left (fill_B_step vars c j) (enumerate (cevid c)) (Some B) with
          | Some B' => Some (B', mset Om j j (cvariance c))   (* omega[j, j] = cpd.variance *)
          | None => None
          end
      | _, _ => None
      end
  end.
Definition fill (cpds : list cpd) (vars : list nat) : option (mat * mat) :=
  let n := length vars in
  fold_left (fill_step cpds vars) vars (Some (mzero K n n, mzero K n n)).

(* inv = np.linalg.inv(I - B); implied_cov = inv.T @ omega @ inv; both rounded (rnd) *)
Definition to_joint_gaussian (rnd : K -> K) (cpds : list cpd) (vars : list nat) : option (vec * mat) :=
  let n := length vars in
  match mean_vec cpds vars, fill cpds vars with
  | Some mu, Some (B, Om) =>
      match minv (mminus n (mid K n) B) with
      | Some V => Some (map rnd mu, mmap rnd (mmul n (mmul n (mtrans n V) Om) V))
      | None => None
      end
  | _, _ => None
  end.

(* ---------------------------------------------------------------- predict *)
(* data frame: column names + rows *)
Definition remain_vars (vars missing : list nat) : list nat :=
  filter (fun v => negb (memn v missing)) vars.

Definition predict (rnd : K -> K) (cpds : list cpd) (vars missing cols : list nat) (rows : list vec)
  : option (list nat * mat * mat) :=
  match missing with
  | [] => None                                                (* ValueError: no missing variables *)
  | _ =>
  match to_joint_gaussian rnd cpds vars with
  | None => None
  | Some (mu, cov) =>
      match traverse_o (fun v => index_of v vars) missing with
      | None => None
      | Some mi =>
          let remain := remain_vars vars missing in
          let mu_a := select mi mu in
          let mu_b := vdelete mi mu in
          let cov_aa := msub_ix cov mi mi in
          let cov_bb := mdelete_cols mi (mdelete_rows mi cov) in
          let cov_ab := mdelete_cols mi (mrows mi cov) in
          match minv cov_bb with
          | None => None
          | Some W =>
              match traverse_o (fun v => index_of v cols) remain with
              | None => None                                  (* KeyError: observed column absent *)
              | Some ci =>
                  let a := length mi in
                  let b := length remain in
                  let N := length rows in
                  let X := map (select ci) rows in            (* data.loc[:, remain_vars].values *)
                  let D := map (fun x => vminus x mu_b) X in (* X - atleast_2d(mu_b)  : N x b *)
                  let G := mmul b cov_ab W in                 (* cov_ab @ cov_bb_inv  : a x b *)
                  let P := mmul N G (mtrans b D) in           (* ... @ D.T            : a x N *)
                  let mu_cond := map (fun r => vplus mu_a r) (mtrans N P) in
                  let cov_cond := mminus a cov_aa (mmul a G (mtrans b cov_ab)) in
                  Some (map (fun i => nth i vars 0%nat) mi, mu_cond, cov_cond)
              end
          end
      end
  end
  end.

(* ---------------------------------------------------------------- fit *)
Definition column (cols : list nat) (rows : list vec) (v : nat) : option vec :=
  match index_of v cols with
  | Some c => Some (map (fun r => vget r c) rows)
  | None => None
  end.
Definition of_nat_K (n : nat) : K := bsum n (fun _ => 1%F).
Definition vsum (y : vec) : K := bsum (length y) (vget y).
(* pandas Series.mean() and Series.var() (ddof = 1) *)
Definition vmean (y : vec) : K := (vsum y / of_nat_K (length y))%F.
Definition vvar (y : vec) : K :=
  (bsum (length y) (fun i => ((vget y i - vmean y) * (vget y i - vmean y))%F)
   / of_nat_K (length y - 1))%F.
(* design matrix with intercept column: row i = [1, x_{p1}[i], ..., x_{pk}[i]] *)
Definition design (n : nat) (xs : list vec) : mat :=
  mbuild n (S (length xs)) (fun i j => match j with O => 1%F | S j' => vget (nth j' xs []) i end).

(* one node of LinearGaussianBayesianNetwork.fit: returns (evidence_mean, evidence_variance).
   LinearRegression().fit is the least-squares primitive; for a design of full column rank its
   result is the solution of the normal equations, computed here as (X^T X)^-1 X^T y. *)
Definition fit_node (cols : list nat) (rows : list vec) (node : nat) (parents : list nat)
  : option (vec * K) :=
  match column cols rows node with
  | None => None
  | Some y =>
      match parents with
      | [] => Some ([vmean y], vvar y)
      | _ =>
          match traverse_o (column cols rows) parents with
          | None => None
          | Some xs =>
              let p := S (length xs) in
              let X := design (length rows) xs in
              let Xt := mtrans p X in
              match minv (mmul p Xt X) with
              | None => None
              | Some W =>
                  let beta := mvmul W (mvmul Xt y) in
                  let e := vminus y (mvmul X beta) in         (* y - lm.predict(X) *)
                  Some (beta, vvar e)
              end
          end
      end
  end.

(* ---------------------------------------------------------------- GaussianDistribution *)
Record gauss := mkGauss { gvars : list nat; gmean : vec; gcov : mat }.

(* [self.variables.index(var) for var in self.variables if var not in variables] *)
Definition keep_idx (gv drop : list nat) : option (list nat) :=
  traverse_o (fun v => index_of v gv) (filter (fun v => negb (memn v drop)) gv).

Definition g_marginalize (D : gauss) (drop : list nat) : option gauss :=
  match keep_idx (gvars D) drop with
  | None => None
  | Some keep =>
      Some {| gvars := map (fun i => nth i (gvars D) 0%nat) keep;
              gmean := select keep (gmean D);
              gcov := msub_ix (gcov D) keep keep |}
  end.

Definition g_reduce (D : gauss) (values : list (nat * K)) : option gauss :=
  let red_vars := map fst values in
  match keep_idx (gvars D) red_vars, traverse_o (fun v => index_of v (gvars D)) red_vars with
  | Some keep, Some red =>
      let mu_j := select keep (gmean D) in
      let mu_i := select red (gmean D) in
      let x_i := map snd values in
      let sig_i_j := msub_ix (gcov D) red keep in
      let sig_j_i := msub_ix (gcov D) keep red in
      let sig_j_j := msub_ix (gcov D) keep keep in
      match minv (msub_ix (gcov D) red red) with
      | None => None
      | Some W =>
          let r := length red in
          let k := length keep in
          let G := mmul r sig_j_i W in
          Some {| gvars := map (fun i => nth i (gvars D) 0%nat) keep;
                  gmean := vplus mu_j (mvmul G (vminus x_i mu_i));
                  gcov := mminus k sig_j_j (mmul k G sig_i_j) |}
      end
  | _, _ => None                                             (* ValueError: variable not in list *)
  end.

(* canonical form C(K, h, g); g is not modelled (the harness checks it against its formula) *)
Record canon := mkCanon { kvars : list nat; kK : mat; kh : vec }.

Definition g_to_canonical (D : gauss) : option canon :=
  match minv (gcov D) with
  | None => None
  | Some P => Some {| kvars := gvars D; kK := P; kh := mvmul P (gmean D) |}
  end.
Definition c_to_joint_gaussian (C : canon) : option gauss :=
  match minv (kK C) with
  | None => None
  | Some Sg => Some {| gvars := kvars C; gmean := mvmul Sg (kh C); gcov := Sg |}
  end.

(* CanonicalDistribution.marginalize(variables): K' = K_ii - K_ij K_jj^-1 K_ji, h' = h_i - K_ij K_jj^-1 h_j and
   g' = g + 0.5 * (|j| log(2 pi) - log|det K_jj| + Q).  Returned: the new (K', h') and the quadratic-form
   summand Q AS CODED, np.linalg.multi_dot([h_j.T, K_j_j, h_j])  (the density requires K_j_j^-1 there:
   Spec.marg_quad; see C20_canonical_marginalize_g_refuted).  The log terms are not modelled. *)
Definition c_marginalize (C : canon) (drop : list nat) : option (canon * K) :=
  match keep_idx (kvars C) drop, traverse_o (fun v => index_of v (kvars C)) drop with
  | Some keep, Some mj =>
      let K_ii := msub_ix (kK C) keep keep in
      let K_ij := msub_ix (kK C) keep mj in
      let K_ji := msub_ix (kK C) mj keep in
      let K_jj := msub_ix (kK C) mj mj in
      let h_i := select keep (kh C) in
      let h_j := select mj (kh C) in
      match minv K_jj with
      | None => None
      | Some W =>
          let k := length keep in
          let r := length mj in
          let G := mmul r K_ij W in
          Some ({| kvars := map (fun i => nth i (kvars C) 0%nat) keep;
                   kK := mminus k K_ii (mmul k G K_ji);
                   kh := vminus h_i (mvmul G h_j) |},
                dot h_j (mvmul K_jj h_j))
      end
  | _, _ => None                                             (* ValueError: variable not in scope *)
  end.

(* ext_K = zeros; ext_K[np.ix_(index, index)] = K      ext_h = zeros; ext_h[index] = h *)
Definition scatter_K (N : nat) (idx : list nat) (M : mat) : mat :=
  let r := length idx in
  fold_left (fun E ab => mset E (nth (fst ab) idx 0%nat) (nth (snd ab) idx 0%nat) (mget M (fst ab) (snd ab)))
            (list_prod (seq 0 r) (seq 0 r)) (mzero K N N).
Definition scatter_h (N : nat) (idx : list nat) (h : vec) : vec :=
  fold_left (fun e a => upd e (nth a idx 0%nat) (vget h a)) (seq 0 (length idx)) (vbuild N (fun _ => 0%F)).

(* CanonicalDistribution._operate: product (true) / divide (false) *)
Definition c_operate (prod : bool) (C1 C2 : canon) : option canon :=
  let all_vars := kvars C1 ++ filter (fun v => negb (memn v (kvars C1))) (kvars C2) in
  let N := length all_vars in
  match traverse_o (fun v => index_of v all_vars) (kvars C1),
        traverse_o (fun v => index_of v all_vars) (kvars C2) with
  | Some i1, Some i2 =>
      let K1 := scatter_K N i1 (kK C1) in
      let K2 := scatter_K N i2 (kK C2) in
      let h1 := scatter_h N i1 (kh C1) in
      let h2 := scatter_h N i2 (kh C2) in
      Some {| kvars := all_vars;
              kK := if prod then mplus N K1 K2 else mminus N K1 K2;
              kh := if prod then vplus h1 h2 else vminus h1 h2 |}
  | _, _ => None
  end.

(* GaussianDistribution._operate: via canonical forms and back *)
Definition g_operate (prod : bool) (D1 D2 : gauss) : option gauss :=
  match g_to_canonical D1, g_to_canonical D2 with
  | Some C1, Some C2 =>
      match c_operate prod C1 C2 with
      | Some C => c_to_joint_gaussian C
      | None => None
      end
  | _, _ => None
  end.

(* ---------------------------------------------------------------- a GaussianDistribution OBJECT: the
   distribution plus the lazily filled cache self._precision_matrix, and the effect of each method on it.
   (copy() copies the cache; marginalize / reduce / in-place _operate reset it; reading precision_matrix,
   to_canonical_factor and hence product / divide fill it.) *)
Record gobj := mkObj { o_d : gauss; o_cache : option mat }.

(* property precision_matrix *)
Definition o_precision (o : gobj) : option (gobj * mat) :=
  match o_cache o with
  | Some P => Some (o, P)
  | None => match minv (gcov (o_d o)) with
            | Some P => Some ({| o_d := o_d o; o_cache := Some P |}, P)
            | None => None
            end
  end.
Definition o_to_canonical (o : gobj) : option (gobj * canon) :=
  match o_precision o with
  | Some (o', P) => Some (o', {| kvars := gvars (o_d o); kK := P; kh := mvmul P (gmean (o_d o)) |})
  | None => None
  end.
Definition o_copy (o : gobj) : gobj := {| o_d := o_d o; o_cache := o_cache o |}.
(* phi = self or self.copy(); ...; phi._precision_matrix = None *)
Definition o_marginalize (o : gobj) (drop : list nat) : option gobj :=
  match g_marginalize (o_d (o_copy o)) drop with
  | Some d => Some {| o_d := d; o_cache := None |}
  | None => None
  end.
Definition o_reduce (o : gobj) (values : list (nat * K)) : option gobj :=
  match g_reduce (o_d (o_copy o)) values with
  | Some d => Some {| o_d := d; o_cache := None |}
  | None => None
  end.
(* _operate(other, op): (self afterwards when not in place, other afterwards, the result object) *)
Definition o_operate (prod : bool) (o other : gobj) : option (gobj * gobj * gobj) :=
  match o_to_canonical o, o_to_canonical other with
  | Some (o', C1), Some (other', C2) =>
      match c_operate prod C1 C2 with
      | Some C => match c_to_joint_gaussian C with
                  | Some d => Some (o', other', {| o_d := d; o_cache := None |})
                  | None => None
                  end
      | None => None
      end
  | _, _ => None
  end.

(* one step of a usage sequence on the object under test *)
Inductive gstep :=
| SPrec                                             (* read precision_matrix *)
| SCanon                                            (* to_canonical_factor() *)
| SCopy                                             (* continue with copy() *)
| SMarg (drop : list nat)                           (* marginalize (in place, or continue with the result) *)
| SReduce (values : list (nat * K))                 (* reduce      (in place, or continue with the result) *)
| SOperate (prod : bool) (other : gauss)            (* product/divide, continue with the result / in place *)
| SOperateSelf (prod : bool) (other : gauss).       (* product/divide(inplace=False), continue with self *)

Definition o_step (o : gobj) (s : gstep) : option gobj :=
  match s with
  | SPrec => option_map fst (o_precision o)
  | SCanon => option_map fst (o_to_canonical o)
  | SCopy => Some (o_copy o)
  | SMarg drop => o_marginalize o drop
  | SReduce values => o_reduce o values
  | SOperate prod other =>
      match o_operate prod o {| o_d := other; o_cache := None |} with
      | Some (_, _, r) => Some r
      | None => None
      end
  | SOperateSelf prod other =>
      match o_operate prod o {| o_d := other; o_cache := None |} with
      | Some (o', _, _) => Some o'
      | None => None
      end
  end.
(* states after each step (None from the first failing step on) *)
Fixpoint o_trace (o : gobj) (steps : list gstep) : list (option gobj) :=
  match steps with
  | [] => []
  | s :: r => match o_step o s with
              | Some o' => Some o' :: o_trace o' r
              | None => map (fun _ => None) steps
              end
  end.
Fixpoint o_run (o : gobj) (steps : list gstep) : option gobj :=
  match steps with
  | [] => Some o
  | s :: r => match o_step o s with Some o' => o_run o' r | None => None end
  end.

End Model.

Arguments mkCpd {K}. Arguments cvar {K}. Arguments cmean {K}. Arguments cvariance {K}. Arguments cevid {K}.
Arguments mkGauss {K}. Arguments gvars {K}. Arguments gmean {K}. Arguments gcov {K}.
Arguments mkCanon {K}. Arguments kvars {K}. Arguments kK {K}. Arguments kh {K}.
Arguments mkObj {K}. Arguments o_d {K}. Arguments o_cache {K}.
Arguments SPrec {K}. Arguments SCanon {K}. Arguments SCopy {K}. Arguments SMarg {K}. Arguments SReduce {K}.
Arguments SOperate {K}. Arguments SOperateSelf {K}.
