(* C20 proofs, part 4: the statements of Props.v assembled from parts 1-3, and the Qc instance
   (used for the non-vacuity examples and by the extracted driver). *)
From Coq Require Import List Bool Arith Lia ZArith QArith Qcanon Field.
From PV Require Import Base.Graph Base.Matrix C20.Model C20.Spec C20.ProofsIdx C20.ProofsJoint C20.ProofsFit C20.Run.
Import ListNotations.
Local Open Scope nat_scope.

Lemma QcF_ok : field_ok QcF.
Proof.
  split.
  - exact Qcft.
  - intros a b H. apply Qc_eq_bool_correct. exact H.
Qed.

Section Main.
Variable K : fieldT.
Hypothesis Kok : field_ok K.

Lemma mean_recursion rnd cpds vars mu Sg :
  NoDup vars -> (forall x, rnd x = x) ->
  to_joint_gaussian K rnd cpds vars = Some (mu, Sg) ->
  length mu = length vars /\
  forall i, i < length vars -> exists c,
    get_cpd K cpds (nth i vars 0) = Some c /\
    length (cmean c) = S (length (cevid c)) /\
    (forall u, In u (cevid c) -> In u vars /\ pos vars u < i) /\
    vget mu i = dot (cmean c) (f1 K :: nvec mu vars (cevid c)).
Proof.
  intros Hnd Hr H.
  destruct (joint_inversion K Kok cpds _ _ _ _ H) as [mu0 [B [Om [V [Hm [_ [-> _]]]]]]].
  assert (E : map rnd mu0 = mu0).
  { rewrite <- (map_id mu0) at 2. apply map_ext. assumption. }
  rewrite E. apply (mean_recursion_raw K cpds vars mu0 Hnd Hm).
Qed.

Lemma cov_structural rnd cpds vars mu Sg :
  (forall x, rnd x = x) ->
  to_joint_gaussian K rnd cpds vars = Some (mu, Sg) ->
  let n := length vars in
  exists B Om, fill K cpds vars = Some (B, Om) /\
    wf n n B /\ wf n n Om /\ wf n n Sg /\ symmetric n Sg /\
    let N := mminus n (mid K n) B in
    mmul n (mmul n (mtrans n N) Sg) N = Om /\
    (forall S', wf n n S' -> mmul n (mmul n (mtrans n N) S') N = Om -> S' = Sg).
Proof.
  intros Hr H. cbv zeta.
  destruct (joint_facts K Kok cpds _ _ _ _ H) as [_ [HwS Hsym]].
  destruct (joint_inversion K Kok cpds _ _ _ _ H) as [mu0 [B [Om [V [_ [Hf [_ [HS [HB [HO [_ [HV [H1 H2]]]]]]]]]]]]].
  rewrite (mmap_id K rnd _ Hr) in HS.
  exists B, Om. repeat split; try assumption; try (apply HB); try (apply HO); try (apply HwS).
  - rewrite HS. apply (cov_fixed_point K Kok); assumption.
  - intros S' HS' HE. rewrite HS. apply (cov_unique K Kok _ B Om V S'); assumption.
Qed.

Lemma predict_named rnd cpds vars missing cols rows names mu_c cov_c :
  NoDup vars ->
  predict K rnd cpds vars missing cols rows = Some (names, mu_c, cov_c) ->
  exists mu Sg, to_joint_gaussian K rnd cpds vars = Some (mu, Sg) /\
    let R := remain_vars vars missing in
    names = missing /\ missing <> [] /\
    (forall v, In v missing -> In v vars) /\ (forall v, In v R -> In v cols) /\
    exists W, is_inverse (length R) W (nblock Sg vars R R) /\
      cov_c = cond_cov Sg vars missing R W /\
      length mu_c = length rows /\
      forall r, r < length rows ->
        nth r mu_c [] = cond_mean mu Sg vars missing R W (nvec (nth r rows []) cols R).
Proof.
  intros Hnd HP.
  destruct (to_joint_gaussian K rnd cpds vars) as [[mu Sg]|] eqn:HJ.
  - exists mu, Sg. split; [reflexivity|].
    destruct (joint_facts K Kok cpds _ _ _ _ HJ) as [Hl [HwS Hsym]].
    apply (predict_named_gen K Kok rnd cpds vars missing cols rows names mu_c cov_c mu Sg); assumption.
  - unfold predict in HP. rewrite HJ in HP. destruct missing; discriminate.
Qed.

End Main.

(* ---------------------------------------------------------------- refutation witness (finding
   "canonical-marginalize-g"): C(x, y; K = [[2,-1],[-1,3]], h = [1,2]), marginalise y (name 1).
   The quadratic summand of g' as coded is h_y K_yy h_y = 12; the density needs h_y K_yy^-1 h_y = 4/3. *)
Definition qq (n : Z) (d : positive) : Qc := Q2Qc (n # d).
Definition cex_canon : @canon QcF :=
  mkCanon (K:=QcF) [0; 1] [[qq 2 1; qq (-1) 1]; [qq (-1) 1; qq 3 1]] [qq 1 1; qq 2 1].

Lemma canonical_marginalize_g_refuted :
  exists (C : @canon QcF) (drop : list nat) (C' : @canon QcF) (qc : Qc) (W : mat QcF),
    c_marginalize QcF C drop = Some (C', qc) /\
    is_inverse 1 W (nblock (kK C) (kvars C) drop drop) /\
    qc = qq 12 1 /\ marg_quad (kh C) (kvars C) drop W = qq 4 3 /\
    qc <> marg_quad (kh C) (kvars C) drop W.
Proof.
  assert (Hc : exists C' qc, c_marginalize QcF cex_canon [1] = Some (C', qc) /\ Qc_eq_bool qc (qq 12 1) = true).
  { destruct (c_marginalize QcF cex_canon [1]) as [[C' qc]|] eqn:E.
    - exists C', qc. split; [reflexivity|].
      assert (H : match c_marginalize QcF cex_canon [1] with
                  | Some (_, x) => Qc_eq_bool x (qq 12 1) | None => false end = true)
        by (vm_compute; reflexivity).
      rewrite E in H. exact H.
    - exfalso.
      assert (H : match c_marginalize QcF cex_canon [1] with Some _ => true | None => false end = true)
        by (vm_compute; reflexivity).
      rewrite E in H. discriminate. }
  destruct Hc as [C' [qc [HC Hq]]]. apply Qc_eq_bool_correct in Hq.
  set (W := [[qq 1 3]] : mat QcF).
  assert (Hm : marg_quad (kh cex_canon) (kvars cex_canon) [1] W = qq 4 3)
    by (apply Qc_eq_bool_correct; vm_compute; reflexivity).
  exists cex_canon, [1], C', qc, W. split; [exact HC|]. split; [|split; [exact Hq|split; [exact Hm|]]].
  - split; [|split].
    + split; [reflexivity|]. constructor; [reflexivity|constructor].
    + apply (wf_ext QcF 1 1).
      * apply wf_mmul'. reflexivity.
      * apply wf_mid.
      * intros i j Hi Hj. assert (i = 0) by lia. assert (j = 0) by lia. subst.
        apply Qc_eq_bool_correct. vm_compute. reflexivity.
    + apply (wf_ext QcF 1 1).
      * apply wf_mmul'. unfold nblock. apply length_mbuild.
      * apply wf_mid.
      * intros i j Hi Hj. assert (i = 0) by lia. assert (j = 0) by lia. subst.
        apply Qc_eq_bool_correct. vm_compute. reflexivity.
  - rewrite Hq, Hm. intro E. apply (f_equal (fun x : Qc => Qnum (this x))) in E. vm_compute in E. discriminate.
Qed.

(* ---------------------------------------------------------------- refutation witness (finding
   "joint-gaussian-rounded-8-decimals"): one node x ~ N(0; 10^-9).  As coded (rnd = numpy's round(8), Run.rnd8)
   the reported variance is 0, so the reported covariance is not positive definite although the variance of the
   CPD is positive; without rounding it is 10^-9. *)
Definition tiny_cpds : list (@cpd QcF) := [ mkCpd (K:=QcF) 0 [qq 0 1] (qq 1 1000000000) [] ].

Lemma joint_rounding_refuted :
  exists (cpds : list (@cpd QcF)) (vars : list nat) mu Sg mu' Sg',
    to_joint_gaussian QcF rnd8 cpds vars = Some (mu, Sg) /\
    to_joint_gaussian QcF (fun x => x) cpds vars = Some (mu', Sg') /\
    (forall c, In c cpds -> Qclt (qq 0 1) (cvariance c)) /\
    mget Sg 0 0 = qq 0 1 /\ mget Sg' 0 0 = qq 1 1000000000 /\ mget Sg 0 0 <> mget Sg' 0 0.
Proof.
  destruct (to_joint_gaussian QcF rnd8 tiny_cpds [0]) as [[mu Sg]|] eqn:E1.
  2:{ exfalso. assert (H : match to_joint_gaussian QcF rnd8 tiny_cpds [0] with Some _ => true | None => false end = true)
        by (vm_compute; reflexivity). rewrite E1 in H. discriminate. }
  destruct (to_joint_gaussian QcF (fun x => x) tiny_cpds [0]) as [[mu' Sg']|] eqn:E2.
  2:{ exfalso. assert (H : match to_joint_gaussian QcF (fun x => x) tiny_cpds [0] with Some _ => true | None => false end = true)
        by (vm_compute; reflexivity). rewrite E2 in H. discriminate. }
  assert (H1 : match to_joint_gaussian QcF rnd8 tiny_cpds [0] with
               | Some (_, S0) => Qc_eq_bool (mget S0 0 0) (qq 0 1) | None => false end = true) by (vm_compute; reflexivity).
  assert (H2 : match to_joint_gaussian QcF (fun x => x) tiny_cpds [0] with
               | Some (_, S0) => Qc_eq_bool (mget S0 0 0) (qq 1 1000000000) | None => false end = true) by (vm_compute; reflexivity).
  rewrite E1 in H1. rewrite E2 in H2. apply Qc_eq_bool_correct in H1. apply Qc_eq_bool_correct in H2.
  exists tiny_cpds, [0], mu, Sg, mu', Sg'. repeat split; try assumption.
  - intros c [<-|[]]. reflexivity.
  - rewrite H1, H2. intro E. apply (f_equal (fun x : Qc => Qnum (this x))) in E. vm_compute in E. discriminate.
Qed.
