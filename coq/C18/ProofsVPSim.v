(* C18, Verma-Pearl theorem, covered-edge reversal keeps d-connection.
   g a DAG, x -> y a covered edge (parents(y) = parents(x) + {x}), g' := rev_edge g x y.
   Every state of the (node, direction) worklist of C08 that is reachable in g is "simulated" in g':
   the invariant [Good] below says that everything reachable in one or two g-steps through the x-y edge
   is reachable in g'.  With C08's [R_iff_dconnected] on both graphs this gives
   [rev_covered_dconnected]. *)
From Coq Require Import List Bool Arith PeanoNat Lia.
From PV Require Import Base.Reach Base.Graph C08.Model C08.Spec C08.ProofsTrail C18.VPDefs.
Import ListNotations.

Section Sim.
Variables (g : digraph) (x y : node) (Z : list node) (s0 : node).
Hypothesis Hdag : dag g.
Hypothesis Hcov : covered g x y.
Hypothesis Hdag' : dag (rev_edge g x y).
Hypothesis Hs0 : ~ In s0 Z.

Local Notation g' := (rev_edge g x y).
Local Notation R' := (R (rev_edge g x y) Z s0).
Local Notation An := (anc_of g Z).
Local Notation An' := (anc_of (rev_edge g x y) Z).

(* ------------------------------------------------------------------ basic facts *)
Lemma sim_exy : In (x, y) (edges g).
Proof. exact (proj1 Hcov). Qed.

Lemma sim_nxy : x <> y.
Proof. intros E. apply (acyclic_no_self g x (proj2 Hdag)). pose proof sim_exy as H. rewrite <- E in H. exact H. Qed.

Lemma sim_nyx_edge : ~ In (y, x) (edges g).
Proof. apply acyclic_no_2cycle; [exact (proj2 Hdag)|exact sim_exy]. Qed.

Lemma sim_par_x_ne p : In (p, x) (edges g) -> p <> x /\ p <> y.
Proof.
  intros H. split; intros E; subst p.
  - exact (acyclic_no_self g x (proj2 Hdag) H).
  - exact (sim_nyx_edge H).
Qed.

Lemma sim_ch_y_ne c : In (y, c) (edges g) -> c <> x /\ c <> y.
Proof.
  intros H. split; intros E; subst c.
  - exact (sim_nyx_edge H).
  - exact (acyclic_no_self g y (proj2 Hdag) H).
Qed.

Lemma sim_ch_x_ne c : In (x, c) (edges g) -> c <> x.
Proof. intros H E. subst c. exact (acyclic_no_self g x (proj2 Hdag) H). Qed.

Lemma sim_par_y p : In (p, y) (edges g) -> p = x \/ In (p, x) (edges g).
Proof.
  intros H. destruct (Nat.eq_dec p x) as [E|E]; [left; exact E|right].
  exact (proj2 (proj2 Hcov) p H E).
Qed.

Lemma sim_par_xy p : In (p, x) (edges g) -> In (p, y) (edges g).
Proof. exact (proj1 (proj2 Hcov) p). Qed.

(* ------------------------------------------------------------------ edges of g' *)
Lemma sim_e_keep u v : In (u, v) (edges g) -> u <> x \/ v <> y -> In (u, v) (edges g').
Proof.
  intros H Hne. apply rev_edge_In. right. split; [exact H|].
  intros E. inversion E. destruct Hne as [Hne|Hne]; contradiction.
Qed.

Lemma sim_e_rev : In (y, x) (edges g').
Proof. apply rev_edge_In. left. reflexivity. Qed.

Lemma sim_e_px p : In (p, x) (edges g) -> In (p, x) (edges g').
Proof. intros H. apply sim_e_keep; [exact H|]. left. exact (proj1 (sim_par_x_ne p H)). Qed.

Lemma sim_e_py p : In (p, x) (edges g) -> In (p, y) (edges g').
Proof.
  intros H. apply sim_e_keep; [exact (sim_par_xy p H)|]. left. exact (proj1 (sim_par_x_ne p H)).
Qed.

Lemma sim_e_yc c : In (y, c) (edges g) -> In (y, c) (edges g').
Proof. intros H. apply sim_e_keep; [exact H|]. left. intros E. exact (sim_nxy (eq_sym E)). Qed.

Lemma sim_e_xc c : In (x, c) (edges g) -> c <> y -> In (x, c) (edges g').
Proof. intros H Hc. apply sim_e_keep; [exact H|]. right. exact Hc. Qed.

(* ------------------------------------------------------------------ ancestors *)
Lemma sim_anc_move v z : dpath g v z ->
  (v <> x -> dpath g' v z) /\ (v = x -> dpath g' x z \/ dpath g' y z).
Proof.
  apply (dpath_ind_left g (fun v z =>
    (v <> x -> dpath g' v z) /\ (v = x -> dpath g' x z \/ dpath g' y z))).
  - intros u. split; [intros _; apply dpath_refl|intros ->; left; apply dpath_refl].
  - intros u v0 w He Hp [IH1 IH2]. split.
    + intros Hu.
      assert (He' : In (u, v0) (edges g')) by (apply sim_e_keep; [exact He|left; exact Hu]).
      destruct (Nat.eq_dec v0 x) as [Ev|Ev].
      * subst v0. destruct (IH2 eq_refl) as [H|H].
        -- eapply dpath_step_l; [exact He'|exact H].
        -- eapply dpath_step_l; [exact (sim_e_py u He)|exact H].
      * eapply dpath_step_l; [exact He'|exact (IH1 Ev)].
    + intros ->. destruct (Nat.eq_dec v0 y) as [Ev|Ev].
      * subst v0. right. apply IH1. intros E. exact (sim_nxy (eq_sym E)).
      * left. eapply dpath_step_l; [exact (sim_e_xc v0 He Ev)|]. apply IH1. exact (sim_ch_x_ne v0 He).
Qed.

Lemma sim_anc_other v : v <> x -> In v An -> In v An'.
Proof.
  intros Hv H. apply (anc_of_spec g Z v (proj1 Hdag)) in H. destruct H as [z [Hz Hp]].
  apply (anc_of_spec g' Z v (proj1 Hdag')). exists z. split; [exact Hz|].
  exact (proj1 (sim_anc_move v z Hp) Hv).
Qed.

Lemma sim_anc_x : In x An -> In x An' \/ In y An'.
Proof.
  intros H. apply (anc_of_spec g Z x (proj1 Hdag)) in H. destruct H as [z [Hz Hp]].
  destruct (proj2 (sim_anc_move x z Hp) eq_refl) as [H|H]; [left|right];
    apply (anc_of_spec g' Z _ (proj1 Hdag')); exists z; split; assumption.
Qed.

(* ------------------------------------------------------------------ steps in g' *)
Lemma sim_step_uu n m : R' (n, Up) -> ~ In n Z -> In (m, n) (edges g') -> R' (m, Up).
Proof. intros H Hz He. eapply R_step; [exact H|]. apply In_bb_next. split; assumption. Qed.

Lemma sim_step_down n d m : R' (n, d) -> ~ In n Z -> In (n, m) (edges g') -> R' (m, Down).
Proof. intros H Hz He. eapply R_step; [exact H|]. apply In_bb_next. destruct d; split; assumption. Qed.

Lemma sim_step_du n m : R' (n, Down) -> In n An' -> In (m, n) (edges g') -> R' (m, Up).
Proof. intros H Ha He. eapply R_step; [exact H|]. apply In_bb_next. split; assumption. Qed.

(* ------------------------------------------------------------------ the invariant *)
Definition simA : Prop := forall c, In (x, c) (edges g) -> c <> y -> R' (c, Down).
Definition simB : Prop := forall p, In (p, x) (edges g) -> R' (p, Up).
Definition simC : Prop := forall c, In (y, c) (edges g) -> R' (c, Down).
Definition simRx : Prop := exists d, R' (x, d).
Definition simRy : Prop := exists d, R' (y, d).

Definition GxU : Prop := simRx /\ (In x Z \/ (simA /\ simB /\ simRy /\ (~ In y Z -> simC))).
Definition GxD : Prop :=
  simRx /\ (~ In x Z -> simA /\ simRy /\ (~ In y Z -> simC) /\ (In y An -> simB)) /\ (In x An -> simB).
Definition GyD : Prop :=
  simRy /\ simRx /\ (~ In y Z -> simC) /\ (In y An -> simB /\ (In x Z \/ simA)).
Definition GyU : Prop := simRy /\ (In y Z \/ (simC /\ simB /\ simRx /\ (In x Z \/ simA))).

Definition Good (st : st) : Prop :=
  let (n, d) := st in
  if Nat.eq_dec n x then match d with Up => GxU | Down => GxD end
  else if Nat.eq_dec n y then match d with Up => GyU | Down => GyD end
  else R' (n, d).

Lemma Good_x d : Good (x, d) = match d with Up => GxU | Down => GxD end.
Proof. unfold Good. destruct (Nat.eq_dec x x) as [_|E]; [reflexivity|congruence]. Qed.

Lemma Good_y d : Good (y, d) = match d with Up => GyU | Down => GyD end.
Proof.
  unfold Good. destruct (Nat.eq_dec y x) as [E|_]; [exfalso; exact (sim_nxy (eq_sym E))|].
  destruct (Nat.eq_dec y y) as [_|E]; [reflexivity|congruence].
Qed.

Lemma Good_other n d : n <> x -> n <> y -> Good (n, d) = R' (n, d).
Proof.
  intros Hx Hy. unfold Good. destruct (Nat.eq_dec n x) as [E|_]; [contradiction|].
  destruct (Nat.eq_dec n y) as [E|_]; [contradiction|reflexivity].
Qed.

Lemma Good_reach n d : Good (n, d) -> exists d', R' (n, d').
Proof.
  destruct (Nat.eq_dec n x) as [Ex|Ex]; [subst n; rewrite Good_x; destruct d; intros H; exact (proj1 H)|].
  destruct (Nat.eq_dec n y) as [Ey|Ey]; [subst n; rewrite Good_y; destruct d; intros H; exact (proj1 H)|].
  rewrite (Good_other n d Ex Ey). intros H. exists d. exact H.
Qed.

(* ---- building the invariant at x and y from reachability facts of g' *)
Lemma sim_A_of d : R' (x, d) -> ~ In x Z -> simA.
Proof. intros H Hz c Hc Hcy. eapply sim_step_down; [exact H|exact Hz|exact (sim_e_xc c Hc Hcy)]. Qed.

Lemma sim_C_of d : R' (y, d) -> ~ In y Z -> simC.
Proof. intros H Hz c Hc. eapply sim_step_down; [exact H|exact Hz|exact (sim_e_yc c Hc)]. Qed.

Lemma sim_B_of_xU : R' (x, Up) -> ~ In x Z -> simB.
Proof. intros H Hz p Hp. eapply sim_step_uu; [exact H|exact Hz|exact (sim_e_px p Hp)]. Qed.

Lemma sim_B_of_yU : R' (y, Up) -> ~ In y Z -> simB.
Proof. intros H Hz p Hp. eapply sim_step_uu; [exact H|exact Hz|exact (sim_e_py p Hp)]. Qed.

Lemma sim_B_of_xD : R' (x, Down) -> In x An' -> simB.
Proof. intros H Ha p Hp. eapply sim_step_du; [exact H|exact Ha|exact (sim_e_px p Hp)]. Qed.

Lemma sim_B_of_yD : R' (y, Down) -> In y An' -> simB.
Proof. intros H Ha p Hp. eapply sim_step_du; [exact H|exact Ha|exact (sim_e_py p Hp)]. Qed.

Lemma sim_y_anc : In y An -> In y An'.
Proof. apply sim_anc_other. intros E. exact (sim_nxy (eq_sym E)). Qed.

Lemma build_xD : R' (x, Down) -> R' (y, Down) -> GxD.
Proof.
  intros Hx Hy. split; [exists Down; exact Hx|]. split.
  - intros Hz. split; [exact (sim_A_of Down Hx Hz)|]. split; [exists Down; exact Hy|].
    split; [intros Hyz; exact (sim_C_of Down Hy Hyz)|].
    intros Ha. exact (sim_B_of_yD Hy (sim_y_anc Ha)).
  - intros Ha. destruct (sim_anc_x Ha) as [H|H]; [exact (sim_B_of_xD Hx H)|exact (sim_B_of_yD Hy H)].
Qed.

Lemma build_yD : R' (x, Down) -> R' (y, Down) -> GyD.
Proof.
  intros Hx Hy. split; [exists Down; exact Hy|]. split; [exists Down; exact Hx|].
  split; [intros Hyz; exact (sim_C_of Down Hy Hyz)|].
  intros Ha. split; [exact (sim_B_of_yD Hy (sim_y_anc Ha))|].
  destruct (in_dec Nat.eq_dec x Z) as [Hz|Hz]; [left; exact Hz|right; exact (sim_A_of Down Hx Hz)].
Qed.

Lemma build_xU : R' (x, Up) -> GxU.
Proof.
  intros Hx. split; [exists Up; exact Hx|].
  destruct (in_dec Nat.eq_dec x Z) as [Hz|Hz]; [left; exact Hz|right].
  assert (Hy : R' (y, Up)) by (eapply sim_step_uu; [exact Hx|exact Hz|exact sim_e_rev]).
  split; [exact (sim_A_of Up Hx Hz)|]. split; [exact (sim_B_of_xU Hx Hz)|].
  split; [exists Up; exact Hy|]. intros Hyz. exact (sim_C_of Up Hy Hyz).
Qed.

Lemma build_yU : R' (y, Up) -> GyU.
Proof.
  intros Hy. split; [exists Up; exact Hy|].
  destruct (in_dec Nat.eq_dec y Z) as [Hz|Hz]; [left; exact Hz|right].
  assert (Hx : R' (x, Down)) by (eapply sim_step_down; [exact Hy|exact Hz|exact sim_e_rev]).
  split; [exact (sim_C_of Up Hy Hz)|]. split; [exact (sim_B_of_yU Hy Hz)|].
  split; [exists Down; exact Hx|].
  destruct (in_dec Nat.eq_dec x Z) as [Hxz|Hxz]; [left; exact Hxz|right; exact (sim_A_of Down Hx Hxz)].
Qed.

(* ---- the invariant across the x-y edge *)
Lemma xU_to_yD : GxU -> ~ In x Z -> GyD.
Proof.
  intros [Hrx [Hz|(HA & HB & Hry & HC)]] Hnz; [contradiction|].
  split; [exact Hry|]. split; [exact Hrx|]. split; [exact HC|]. intros _. split; [exact HB|right; exact HA].
Qed.

Lemma xD_to_yD : GxD -> ~ In x Z -> GyD.
Proof.
  intros (Hrx & H1 & _) Hnz. destruct (H1 Hnz) as (HA & Hry & HC & HB).
  split; [exact Hry|]. split; [exact Hrx|]. split; [exact HC|]. intros Ha. split; [exact (HB Ha)|right; exact HA].
Qed.

Lemma yD_to_xU : GyD -> In y An -> GxU.
Proof.
  intros (Hry & Hrx & HC & H1) Ha. destruct (H1 Ha) as [HB [Hz|HA]].
  - split; [exact Hrx|left; exact Hz].
  - split; [exact Hrx|right]. split; [exact HA|]. split; [exact HB|]. split; [exact Hry|exact HC].
Qed.

Lemma yU_to_xU : GyU -> ~ In y Z -> GxU.
Proof.
  intros [Hry [Hz|(HC & HB & Hrx & [Hxz|HA])]] Hnz; [contradiction| |].
  - split; [exact Hrx|left; exact Hxz].
  - split; [exact Hrx|right]. split; [exact HA|]. split; [exact HB|]. split; [exact Hry|]. intros _. exact HC.
Qed.

(* ------------------------------------------------------------------ one g-step keeps the invariant *)
Definition gstep (n : node) (d : dir) (m : node) (e : dir) : Prop :=
  match d, e with
  | Up, Up => ~ In n Z /\ In (m, n) (edges g)
  | Up, Down => ~ In n Z /\ In (n, m) (edges g)
  | Down, Down => ~ In n Z /\ In (n, m) (edges g)
  | Down, Up => In n An /\ In (m, n) (edges g)
  end.

Lemma Good_par_x p : simB -> In (p, x) (edges g) -> Good (p, Up).
Proof.
  intros HB Hp. destruct (sim_par_x_ne p Hp) as [H1 H2]. rewrite (Good_other p Up H1 H2). exact (HB p Hp).
Qed.

Lemma Good_ch_y c : simC -> In (y, c) (edges g) -> Good (c, Down).
Proof.
  intros HC Hc. destruct (sim_ch_y_ne c Hc) as [H1 H2]. rewrite (Good_other c Down H1 H2). exact (HC c Hc).
Qed.

Lemma Good_ch_x c : simA -> In (x, c) (edges g) -> c <> y -> Good (c, Down).
Proof.
  intros HA Hc Hy. rewrite (Good_other c Down (sim_ch_x_ne c Hc) Hy). exact (HA c Hc Hy).
Qed.

Lemma Good_step_x d m e : Good (x, d) -> gstep x d m e -> Good (m, e).
Proof.
  rewrite Good_x. destruct d, e; intros HG [H1 H2].
  - (* (x,Up) -> (m,Up), m parent of x *)
    destruct HG as [_ [Hz|(_ & HB & _)]]; [contradiction|]. exact (Good_par_x m HB H2).
  - (* (x,Up) -> (m,Down), m child of x *)
    destruct (Nat.eq_dec m y) as [E|E].
    + subst m. rewrite Good_y. exact (xU_to_yD HG H1).
    + destruct HG as [_ [Hz|(HA & _)]]; [contradiction|]. exact (Good_ch_x m HA H2 E).
  - (* (x,Down) -> (m,Up), x in An *)
    destruct HG as (_ & _ & HB). exact (Good_par_x m (HB H1) H2).
  - (* (x,Down) -> (m,Down) *)
    destruct (Nat.eq_dec m y) as [E|E].
    + subst m. rewrite Good_y. exact (xD_to_yD HG H1).
    + destruct HG as (_ & H3 & _). destruct (H3 H1) as (HA & _). exact (Good_ch_x m HA H2 E).
Qed.

Lemma Good_step_y d m e : Good (y, d) -> gstep y d m e -> Good (m, e).
Proof.
  rewrite Good_y. destruct d, e; intros HG [H1 H2].
  - (* (y,Up) -> (m,Up), m parent of y *)
    destruct (sim_par_y m H2) as [E|Hp].
    + subst m. rewrite Good_x. exact (yU_to_xU HG H1).
    + destruct HG as [_ [Hz|(_ & HB & _)]]; [contradiction|]. exact (Good_par_x m HB Hp).
  - (* (y,Up) -> (m,Down) *)
    destruct HG as [_ [Hz|(HC & _)]]; [contradiction|]. exact (Good_ch_y m HC H2).
  - (* (y,Down) -> (m,Up), y in An *)
    destruct (sim_par_y m H2) as [E|Hp].
    + subst m. rewrite Good_x. exact (yD_to_xU HG H1).
    + destruct HG as (_ & _ & _ & H3). destruct (H3 H1) as [HB _]. exact (Good_par_x m HB Hp).
  - (* (y,Down) -> (m,Down) *)
    destruct HG as (_ & _ & HC & _). exact (Good_ch_y m (HC H1) H2).
Qed.

Lemma Good_step_other n d m e : n <> x -> n <> y -> R' (n, d) -> gstep n d m e -> Good (m, e).
Proof.
  intros Hnx Hny HR Hs.
  (* the step, as a parent/child relation of g between n and m, usable in g' *)
  destruct (Nat.eq_dec m x) as [Emx|Emx].
  - subst m. rewrite Good_x. destruct e.
    + (* into (x,Up): n is a child of x *)
      apply build_xU.
      assert (He : In (x, n) (edges g)) by (destruct d; exact (proj2 Hs)).
      assert (He' : In (x, n) (edges g')) by (apply sim_e_xc; assumption).
      destruct d; destruct Hs as [H1 _].
      * exact (sim_step_uu n x HR H1 He').
      * exact (sim_step_du n x HR (sim_anc_other n Hnx H1) He').
    + (* into (x,Down): n is a parent of x *)
      assert (H : ~ In n Z /\ In (n, x) (edges g)) by (destruct d; exact Hs).
      destruct H as [H1 He].
      apply build_xD.
      * exact (sim_step_down n d x HR H1 (sim_e_px n He)).
      * exact (sim_step_down n d y HR H1 (sim_e_py n He)).
  - destruct (Nat.eq_dec m y) as [Emy|Emy].
    + subst m. rewrite Good_y. destruct e.
      * (* into (y,Up): n is a child of y *)
        apply build_yU.
        assert (He : In (y, n) (edges g)) by (destruct d; exact (proj2 Hs)).
        assert (He' : In (y, n) (edges g')) by (apply sim_e_yc; assumption).
        destruct d; destruct Hs as [H1 _].
        -- exact (sim_step_uu n y HR H1 He').
        -- exact (sim_step_du n y HR (sim_anc_other n Hnx H1) He').
      * (* into (y,Down): n is a parent of y other than x *)
        assert (H : ~ In n Z /\ In (n, y) (edges g)) by (destruct d; exact Hs).
        destruct H as [H1 He].
        destruct (sim_par_y n He) as [E|Hp]; [contradiction|].
        apply build_yD.
        -- exact (sim_step_down n d x HR H1 (sim_e_px n Hp)).
        -- exact (sim_step_down n d y HR H1 (sim_e_py n Hp)).
    + rewrite (Good_other m e Emx Emy).
      destruct d, e; destruct Hs as [H1 H2].
      * apply (sim_step_uu n m HR H1). apply sim_e_keep; [exact H2|left; exact Emx].
      * apply (sim_step_down n Up m HR H1). apply sim_e_keep; [exact H2|left; exact Hnx].
      * apply (sim_step_du n m HR (sim_anc_other n Hnx H1)). apply sim_e_keep; [exact H2|left; exact Emx].
      * apply (sim_step_down n Down m HR H1). apply sim_e_keep; [exact H2|left; exact Hnx].
Qed.

Lemma Good_step n d m e : Good (n, d) -> gstep n d m e -> Good (m, e).
Proof.
  intros HG Hs.
  destruct (Nat.eq_dec n x) as [Ex|Ex]; [subst n; exact (Good_step_x d m e HG Hs)|].
  destruct (Nat.eq_dec n y) as [Ey|Ey]; [subst n; exact (Good_step_y d m e HG Hs)|].
  rewrite (Good_other n d Ex Ey) in HG. exact (Good_step_other n d m e Ex Ey HG Hs).
Qed.

Lemma Good_start : Good (s0, Up).
Proof.
  assert (H0 : forall n, n = s0 -> R' (n, Up)) by (intros n ->; apply reach_src; left; reflexivity).
  destruct (Nat.eq_dec s0 x) as [Ex|Ex].
  { replace (s0, Up) with (x, Up) by congruence. rewrite Good_x. exact (build_xU (H0 x (eq_sym Ex))). }
  destruct (Nat.eq_dec s0 y) as [Ey|Ey].
  { replace (s0, Up) with (y, Up) by congruence. rewrite Good_y. exact (build_yU (H0 y (eq_sym Ey))). }
  rewrite (Good_other s0 Up Ex Ey). exact (H0 s0 eq_refl).
Qed.

Lemma sim_invariant st : R g Z s0 st -> Good st.
Proof.
  intros H. unfold R in H. induction H as [st Hsrc|[n d] [m e] _ IH Hy].
  - destruct Hsrc as [E|[]]. subst st. exact Good_start.
  - apply In_bb_next in Hy. exact (Good_step n d m e IH Hy).
Qed.

Lemma sim_reach t d : R g Z s0 (t, d) -> exists d', R' (t, d').
Proof. intros H. exact (Good_reach t d (sim_invariant (t, d) H)). Qed.

Lemma sim_dconnected t : dconnected g Z s0 t -> dconnected g' Z s0 t.
Proof.
  intros H. apply (R_iff_dconnected g Z s0 t (proj1 Hdag) (proj2 Hdag) Hs0) in H. destruct H as [d Hd].
  apply (R_iff_dconnected g' Z s0 t (proj1 Hdag') (proj2 Hdag') Hs0). exact (sim_reach t d Hd).
Qed.

End Sim.

(* reversing a covered edge of a DAG keeps every d-connection statement *)
Theorem rev_covered_dconnected : forall g x y, dag g -> covered g x y -> dag (rev_edge g x y) ->
  forall Z s t, ~ In s Z -> dconnected g Z s t -> dconnected (rev_edge g x y) Z s t.
Proof.
  intros g x y Hd Hc Hd' Z s t Hs H. exact (sim_dconnected g x y Z s Hd Hc Hd' Hs t H).
Qed.
