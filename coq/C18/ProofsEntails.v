(* C18: corollaries combining soundness, completeness and termination *)
From Coq Require Import List Bool Arith PeanoNat.
From PV Require Import Base.Graph C18.Model C18.Spec C18.ProofsSets C18.ProofsSound C18.ProofsComplete
  C18.ProofsTerm C18.ProofsRefuted.
Import ListNotations.
Local Open Scope nat_scope.

Theorem closure_fixed_iff : forall A, exists R, closure_fixed A = Some R /\
  forall a, amem a R = true <-> derivable A a.
Proof.
  intros A. destruct (closure_terminates cond_fixed A) as [R HR]. exists R. split; [exact HR|].
  intros a. split.
  - apply closure_fixed_sound_amem. exact HR.
  - apply closure_fixed_complete. exact HR.
Qed.

Theorem closure_dec_wu : forall A, exists R, closure A = Some R /\
   (forall a, In a A -> amem a R = true) /\
   (forall x y z, amem (x, y, z) R = true -> amem (y, x, z) R = true) /\
   (forall x y w z, amem (x, y ++ w, z) R = true -> nonempty y -> amem (x, y, z) R = true) /\
   (forall x y w z, amem (x, y ++ w, z) R = true -> nonempty y -> disjoint y w -> amem (x, y, w ++ z) R = true).
Proof.
  intros A. destruct (closure_terminates cond_coded A) as [R HR]. exists R. split; [exact HR|].
  exact (closure_gen_closed cond_coded A R HR).
Qed.

Theorem entails_fixed_iff : forall A B, exists b, entails_gen cond_fixed A B = Some b /\
  (b = true <-> forall t, In t B -> derivable A t).
Proof.
  intros A B. destruct (closure_fixed_iff A) as [R [HR Hiff]].
  exists (asubsetb B R). unfold entails_gen. unfold closure_fixed in HR. rewrite HR. split; [reflexivity|].
  rewrite asubsetb_spec. split; intros H t Ht; apply Hiff; apply H; exact Ht.
Qed.

Theorem is_equivalent_fixed_iff : forall A B, exists b, is_equivalent_gen cond_fixed A B = Some b /\
  (b = true <-> forall t, derivable A t <-> derivable B t).
Proof.
  intros A B.
  destruct (entails_fixed_iff A B) as [b1 [E1 H1]]. destruct (entails_fixed_iff B A) as [b2 [E2 H2]].
  exists (b1 && b2). unfold is_equivalent_gen. rewrite E1, E2. split; [reflexivity|].
  rewrite andb_true_iff, H1, H2. split.
  - intros [HA HB] t. split; intros Ht.
    + eapply derivable_cut; [exact HB|exact Ht].
    + eapply derivable_cut; [exact HA|exact Ht].
  - intros H. split; intros t Ht; apply H; apply d_in; exact Ht.
Qed.

(* the as-coded entails / is_equivalent are membership tests in the as-coded closure *)
Theorem entails_coded_closure : forall A B, exists R, closure A = Some R /\
  entails A B = Some (asubsetb B R) /\
  (entails A B = Some true <-> forall t, In t B -> amem t R = true).
Proof.
  intros A B. destruct (closure_terminates cond_coded A) as [R HR]. exists R.
  split; [exact HR|]. unfold entails, entails_gen. unfold closure in HR. rewrite HR.
  split; [reflexivity|]. rewrite <- asubsetb_spec. split; [intros H; inversion H; reflexivity|intros ->; reflexivity].
Qed.
Theorem is_equivalent_coded : forall A B, exists b1 b2, entails A B = Some b1 /\ entails B A = Some b2 /\
  is_equivalent A B = Some (b1 && b2).
Proof.
  intros A B. destruct (entails_coded_closure A B) as [R1 [_ [E1 _]]].
  destruct (entails_coded_closure B A) as [R2 [_ [E2 _]]].
  exists (asubsetb B R1), (asubsetb A R2). unfold is_equivalent, is_equivalent_gen.
  unfold entails in E1, E2. rewrite E1, E2. auto.
Qed.

Theorem closure_sound_refuted : exists A t,
  (exists R, closure A = Some R /\ amem t R = true) /\ ~ derivable A t.
Proof.
  exists A_unsound, t_unsound. split; [exact unsound_coded|].
  intros Hd. destruct unsound_fixed as [R [HR Hm]].
  rewrite (closure_fixed_complete _ _ _ HR Hd) in Hm. discriminate.
Qed.
Theorem closure_complete_refuted : exists A t,
  derivable A t /\ exists R, closure A = Some R /\ amem t R = false.
Proof.
  exists A_incomplete, t_incomplete. split; [exact incomplete_derivable|exact incomplete_coded].
Qed.
