(* C18: the result of the closure loop is closed under the semi-graphoid rule functions; with the
   repaired contraction side condition it contains every derivable assertion (completeness). *)
From Coq Require Import List Bool Arith PeanoNat Lia.
From PV Require Import Base.Graph C18.Model C18.Spec C18.ProofsSets.
Import ListNotations.
Local Open Scope nat_scope.

(* ------------------------------------------------------------------ syntactic closedness *)
Definition closed1 (S R : list assertion) : Prop :=
  forall a, In a S -> forall b, In b (sg1 a ++ sg2 a) -> amem b R = true.
Definition closed2 (cond : vset -> vset -> vset -> bool) (S R : list assertion) : Prop :=
  forall a b, In a S -> In b S -> a <> b -> forall c, In c (sg3 cond a b) -> amem c R = true.

Lemma distinct_pairs_In (l : list assertion) a b :
  In a l -> In b l -> a <> b -> In (a, b) (distinct_pairs l).
Proof.
  induction l as [|x r IH]; simpl; [tauto|].
  intros [Ha|Ha] [Hb|Hb] Hn; subst.
  - contradiction.
  - apply in_or_app. left. apply in_map_iff. exists b. split; [reflexivity|exact Hb].
  - apply in_or_app. right. apply in_or_app. left. apply in_map_iff. exists a. split; [reflexivity|exact Ha].
  - apply in_or_app. right. apply in_or_app. right. auto.
Qed.

Section Loop.
Variable cond : vset -> vset -> vset -> bool.

Definition outs (all new : list assertion) : list assertion :=
  flat_map sg1 new ++ flat_map sg2 new ++
  flat_map (fun p => sg3 cond (fst p) (snd p)) (distinct_pairs new ++ list_prod new all ++ list_prod all new).

Lemma cl_step_eq all new :
  cl_step cond all new = (all ++ new, adedup (adiff (outs all new) (all ++ new))).
Proof. reflexivity. Qed.

Lemma out_amem all new c :
  In c (outs all new) -> amem c ((all ++ new) ++ adedup (adiff (outs all new) (all ++ new))) = true.
Proof.
  intros H. rewrite amem_app. destruct (amem c (all ++ new)) eqn:E; [reflexivity|]. simpl.
  rewrite adedup_amem. apply amem_In. apply adiff_In. split; assumption.
Qed.

Lemma cl_loop_closed fuel : forall all new R,
  cl_loop cond fuel all new = Some R ->
  closed1 all (all ++ new) -> closed2 cond all (all ++ new) ->
  incl (all ++ new) R /\ closed1 R R /\ closed2 cond R R.
Proof.
  induction fuel as [|f IH]; intros all new R H H1 H2.
  - destruct new as [|n new]; [|discriminate H]. simpl in H. injection H as <-.
    rewrite app_nil_r in *. split; [apply incl_refl|split; assumption].
  - destruct new as [|n new].
    + simpl in H. injection H as <-.
      rewrite app_nil_r in *. split; [apply incl_refl|split; assumption].
    + cbn [cl_loop] in H. rewrite cl_step_eq in H. cbv beta iota in H.
      set (nw := n :: new) in *. clearbody nw.
      apply IH in H.
      * destruct H as (Hi & C1 & C2). split; [|split; assumption].
        intros a Ha. apply Hi. apply in_or_app. left. exact Ha.
      * intros a Ha b Hb. apply in_app_or in Ha. destruct Ha as [Ha|Ha].
        -- specialize (H1 a Ha b Hb). rewrite amem_app, H1. reflexivity.
        -- apply out_amem. unfold outs. apply in_app_or in Hb. destruct Hb as [Hb|Hb].
           ++ apply in_or_app. left. apply in_flat_map. exists a. auto.
           ++ apply in_or_app. right. apply in_or_app. left. apply in_flat_map. exists a. auto.
      * intros a b Ha Hb Hn c Hc.
        assert (Hp : In (a, b) (distinct_pairs nw ++ list_prod nw all ++ list_prod all nw)
                     \/ (In a all /\ In b all)).
        { apply in_app_or in Ha. apply in_app_or in Hb. destruct Ha as [Ha|Ha], Hb as [Hb|Hb].
          - right. auto.
          - left. apply in_or_app. right. apply in_or_app. right. apply in_prod; assumption.
          - left. apply in_or_app. right. apply in_or_app. left. apply in_prod; assumption.
          - left. apply in_or_app. left. apply distinct_pairs_In; assumption. }
        destruct Hp as [Hp|[Ha' Hb']].
        -- apply out_amem. unfold outs. apply in_or_app. right. apply in_or_app. right.
           apply in_flat_map. exists (a, b). split; [exact Hp|exact Hc].
        -- specialize (H2 a b Ha' Hb' Hn c Hc). rewrite amem_app, H2. reflexivity.
Qed.

Lemma closure_gen_syn A R : closure_gen cond A = Some R ->
  (forall a, In a A -> amem a R = true) /\ closed1 R R /\ closed2 cond R R.
Proof.
  unfold closure_gen. intros H. apply cl_loop_closed in H.
  - destruct H as (Hi & C1 & C2). split; [|split; assumption].
    intros a Ha. apply amem_incl with (l := adedup A).
    + intros x Hx. apply Hi. simpl. exact Hx.
    + rewrite adedup_amem. apply amem_In. exact Ha.
  - intros a [].
  - intros a b [].
Qed.
End Loop.

(* ------------------------------------------------------------------ semantic closedness *)
Lemma single_var_false l e e2 : In e l -> In e2 l -> e2 <> e -> single_var l = false.
Proof.
  intros H1 H2 Hn. unfold single_var, card. apply Nat.eqb_neq.
  assert (Hl : length [e; e2] <= length (dedupn l)).
  { apply NoDup_incl_length.
    - constructor; [simpl; intros [H|[]]; congruence|]. constructor; [simpl; tauto|constructor].
    - intros v [<-|[<-|[]]]; apply dedupn_In; assumption. }
  simpl in Hl. lia.
Qed.

Lemma orient R a : closed1 R R -> amem a R = true ->
  exists o, aext a o /\ forall b, In b (sg1_raw o ++ sg2_raw o) -> amem b R = true.
Proof.
  intros C H. apply amem_spec in H. destruct H as [r [Hr [Ha|Ha]]].
  - exists r. split; [exact Ha|]. intros b Hb. apply (C r Hr). unfold sg1, sg2, lr1.
    rewrite !in_app_iff in *. tauto.
  - exists (sg0 r). split.
    { apply aext_sg0 in Ha. rewrite sg0_invol in Ha. exact Ha. }
    intros b Hb. apply (C r Hr). unfold sg1, sg2, lr1. rewrite !in_app_iff in *. tauto.
Qed.

(* one element leaves event2 (decomposition) or moves to event3 (weak union) *)
Lemma step1 R x y z e e2 : closed1 R R -> amem (x, y, z) R = true -> In e y -> In e2 y -> e2 <> e ->
  amem (x, remove1 e y, z) R = true /\ amem (x, remove1 e y, add1 e z) R = true.
Proof.
  intros C H He He2 Hn. destruct (orient R _ C H) as [[[x' y'] z'] [(E1 & E2 & E3) Ho]].
  unfold ev1, ev2, ev3 in E1, E2, E3; simpl in E1, E2, E3.
  assert (Hs : single_var y' = false).
  { apply (single_var_false y' e e2); [apply E2|apply E2|]; assumption. }
  split.
  - apply amem_aeq with (a := (x', remove1 e y', z')).
    + left. split; [|split]; unfold ev1, ev2, ev3; simpl.
      * apply seteq_sym; exact E1.
      * intros v. rewrite !remove1_In. pose proof (E2 v). tauto.
      * apply seteq_sym, E3.
    + apply Ho. apply in_or_app. left. unfold sg1_raw, ev1, ev2, ev3; simpl. rewrite Hs.
      apply in_map_iff. exists e. split; [reflexivity|apply E2; exact He].
  - apply amem_aeq with (a := (x', remove1 e y', add1 e z')).
    + left. split; [|split]; unfold ev1, ev2, ev3; simpl.
      * apply seteq_sym; exact E1.
      * intros v. rewrite !remove1_In. pose proof (E2 v). tauto.
      * intros v. rewrite !add1_In. pose proof (E3 v). tauto.
    + apply Ho. apply in_or_app. right. unfold sg2_raw, ev1, ev2, ev3; simpl. rewrite Hs.
      apply in_map_iff. exists e. split; [reflexivity|apply E2; exact He].
Qed.

Lemma remove1_snoc e y : ~ In e y -> seteq (remove1 e (y ++ [e])) y.
Proof.
  intros Hn u. rewrite remove1_In, in_app_iff. simpl. split.
  - intros [[?|[<-|[]]] Hne]; [assumption|congruence].
  - intros Hu. split; [auto|]. intros ->. contradiction.
Qed.
Lemma app_cons_absorb e (y w : vset) : In e y -> seteq (y ++ e :: w) (y ++ w).
Proof.
  intros H v. rewrite !in_app_iff. simpl. split; [intros [?|[<-|?]]; auto|intros [?|?]; auto].
Qed.

Lemma decomp_gen R x z : closed1 R R ->
  forall w y, amem (x, y ++ w, z) R = true -> nonempty y -> amem (x, y, z) R = true.
Proof.
  intros C. induction w as [|e w IH]; intros y H Hy.
  - rewrite app_nil_r in H. exact H.
  - assert (H' : amem (x, (y ++ [e]) ++ w, z) R = true) by (rewrite <- app_assoc; exact H).
    apply IH in H'.
    2:{ destruct Hy as [v Hv]. exists v. apply in_or_app; left; exact Hv. }
    destruct (in_dec Nat.eq_dec e y) as [Hin|Hnin].
    + eapply amem_aeq; [|exact H']. left. split; [apply seteq_refl|split; [|apply seteq_refl]].
      unfold ev2; simpl. rewrite <- (app_nil_r y) at 2. apply app_cons_absorb. exact Hin.
    + destruct Hy as [v Hv]. destruct (step1 R x (y ++ [e]) z e v C H') as [D _].
      * apply in_or_app; right; left; reflexivity.
      * apply in_or_app; left; exact Hv.
      * intros ->. contradiction.
      * eapply amem_aeq; [|exact D]. left. split; [apply seteq_refl|split; [|apply seteq_refl]].
        unfold ev2; simpl. apply remove1_snoc. exact Hnin.
Qed.

Lemma wunion_gen R x : closed1 R R ->
  forall w y z, amem (x, y ++ w, z) R = true -> nonempty y -> disjoint y w ->
                amem (x, y, w ++ z) R = true.
Proof.
  intros C. induction w as [|e w IH]; intros y z H Hy Hd.
  - rewrite app_nil_r in H. exact H.
  - destruct (in_dec Nat.eq_dec e w) as [Hin|Hnin].
    + assert (H' : amem (x, y ++ w, z) R = true).
      { eapply amem_aeq; [|exact H]. left. split; [apply seteq_refl|split; [|apply seteq_refl]].
        unfold ev2; simpl. intros v. rewrite !in_app_iff. simpl.
        split; [intros [?|[<-|?]]; auto|intros [?|?]; auto]. }
      apply IH in H'; [|exact Hy|intros v Hv Hw; apply (Hd v Hv); right; exact Hw].
      eapply amem_aeq; [|exact H']. left. split; [apply seteq_refl|split; [apply seteq_refl|]].
      unfold ev3; simpl. intros v. simpl. rewrite !in_app_iff.
      split; [auto|intros [<-|?]; auto].
    + assert (H' : amem (x, (y ++ [e]) ++ w, z) R = true) by (rewrite <- app_assoc; exact H).
      assert (Hey : ~ In e y). { intros He. apply (Hd e He). left. reflexivity. }
      apply IH in H'.
      2:{ destruct Hy as [v Hv]. exists v. apply in_or_app; left; exact Hv. }
      2:{ intros v Hv Hw. apply in_app_or in Hv. destruct Hv as [Hv|[<-|[]]].
          - apply (Hd v Hv). right. exact Hw.
          - contradiction. }
      destruct Hy as [v Hv]. destruct (step1 R x (y ++ [e]) (w ++ z) e v C H') as [_ D].
      * apply in_or_app; right; left; reflexivity.
      * apply in_or_app; left; exact Hv.
      * intros ->. contradiction.
      * eapply amem_aeq; [|exact D]. left. split; [apply seteq_refl|split].
        -- unfold ev2; simpl. apply remove1_snoc. exact Hey.
        -- unfold ev3; simpl. intros u. rewrite add1_In. simpl. split; [intros [->|?]; auto|intros [->|?]; auto].
Qed.

(* (1) *)
Theorem closure_gen_closed : forall cond A R, closure_gen cond A = Some R ->
   (forall a, In a A -> amem a R = true) /\
   (forall x y z, amem (x, y, z) R = true -> amem (y, x, z) R = true) /\
   (forall x y w z, amem (x, y ++ w, z) R = true -> nonempty y -> amem (x, y, z) R = true) /\
   (forall x y w z, amem (x, y ++ w, z) R = true -> nonempty y -> disjoint y w -> amem (x, y, w ++ z) R = true).
Proof.
  intros cond A R H. destruct (closure_gen_syn cond A R H) as (HA & C1 & C2).
  split; [exact HA|]. split; [|split].
  - intros x y z Hm. eapply amem_aeq; [|exact Hm]. right. apply aext_refl.
  - intros x y w z Hm Hy. eapply decomp_gen; eassumption.
  - intros x y w z Hm Hy Hd. eapply wunion_gen; eassumption.
Qed.

(* ------------------------------------------------------------------ contraction *)
Lemma assertion_eq_dec (a b : list nat * list nat * list nat) : {a = b} + {a <> b}.
Proof.
  pose proof (list_eq_dec Nat.eq_dec) as L. decide equality. decide equality.
Qed.

Lemma aeq_orient a r : aeq a r -> exists o, (o = r \/ o = sg0 r) /\ aext a o.
Proof.
  intros [H|H].
  - exists r. split; [left; reflexivity|exact H].
  - exists (sg0 r). split; [right; reflexivity|].
    apply aext_sg0 in H. rewrite sg0_invol in H. exact H.
Qed.

Lemma sg3_sub cond r1 r2 o1 o2 c :
  (o1 = r1 \/ o1 = sg0 r1) -> (o2 = r2 \/ o2 = sg0 r2) ->
  In c (sg3_raw cond o1 o2) -> In c (sg3 cond r1 r2).
Proof.
  intros [->| ->] [->| ->] H; unfold sg3, lr2; rewrite !in_app_iff; tauto.
Qed.

Lemma contr_closed R x y w z : closed2 cond_fixed R R ->
  amem (x, w, y ++ z) R = true -> amem (x, y, z) R = true -> disjoint y z ->
  amem (x, w ++ y, z) R = true.
Proof.
  intros C H1 H2 Hd.
  pose proof H1 as H1'. apply amem_spec in H1'. destruct H1' as [r1 [Hr1 A1]].
  apply amem_spec in H2. destruct H2 as [r2 [Hr2 A2]].
  destruct (assertion_eq_dec r1 r2) as [->|Hne].
  - assert (A : aeq (x, w, y ++ z) (x, y, z)).
    { eapply aeq_trans; [exact A1|apply aeq_sym; exact A2]. }
    assert (S3 : seteq (y ++ z) z).
    { destruct A as [(_ & _ & S)|(_ & _ & S)]; exact S. }
    assert (Hy : forall v, ~ In v y).
    { intros v Hv. apply (Hd v Hv). apply S3. apply in_or_app; left; exact Hv. }
    eapply amem_aeq; [|exact H1]. left. split; [apply seteq_refl|split]; unfold ev2, ev3; simpl.
    + intros v. rewrite in_app_iff. split; [auto|intros [?|Hv]; [assumption|destruct (Hy v Hv)]].
    + intros v. rewrite in_app_iff. split; [intros [Hv|?]; [destruct (Hy v Hv)|assumption]|auto].
  - destruct (aeq_orient _ _ A1) as [o1 [O1 E1]]. destruct (aeq_orient _ _ A2) as [o2 [O2 E2]].
    destruct o1 as [[x1 w1] yz1]. destruct o2 as [[x2 y2] z2].
    destruct E1 as (Ea & Eb & Ec). destruct E2 as (Fa & Fb & Fc).
    unfold ev1, ev2, ev3 in Ea, Eb, Ec, Fa, Fb, Fc; simpl in Ea, Eb, Ec, Fa, Fb, Fc.
    apply amem_aeq with (a := (x1, union w1 y2, z2)).
    + left. split; [|split]; unfold ev1, ev2, ev3; simpl.
      * apply seteq_sym; exact Ea.
      * intros v. rewrite union_In, in_app_iff. pose proof (Eb v). pose proof (Fb v). tauto.
      * apply seteq_sym; exact Fc.
    + apply (C r1 r2 Hr1 Hr2 Hne). apply (sg3_sub _ _ _ _ _ _ O1 O2).
      unfold sg3_raw, ev1, ev2, ev3; simpl.
      replace (seteqb x1 x2) with true.
      2:{ symmetry. apply seteqb_spec. eapply seteq_trans; [apply seteq_sym; exact Ea|exact Fa]. }
      simpl. replace (cond_fixed y2 z2 yz1) with true; [left; reflexivity|].
      symmetry. unfold cond_fixed. apply andb_true_iff. split.
      * apply seteqb_spec. intros v. rewrite union_In. pose proof (Ec v) as Hc. rewrite in_app_iff in Hc.
        pose proof (Fb v). pose proof (Fc v). tauto.
      * apply disjointb_spec. intros v Hv Hz. apply (Hd v); [apply Fb|apply Fc]; assumption.
Qed.

(* (2) *)
Theorem closure_fixed_contr_closed : forall A R, closure_fixed A = Some R ->
   forall x y w z, amem (x, w, y ++ z) R = true -> amem (x, y, z) R = true -> disjoint y z ->
                   amem (x, w ++ y, z) R = true.
Proof.
  intros A R H x y w z H1 H2 Hd. destruct (closure_gen_syn cond_fixed A R H) as (_ & _ & C2).
  eapply contr_closed; eassumption.
Qed.

(* (3) completeness *)
Theorem closure_fixed_complete : forall A R a,
  closure_fixed A = Some R -> derivable A a -> amem a R = true.
Proof.
  intros A R a H D. destruct (closure_gen_closed cond_fixed A R H) as (HA & Hs & Hd & Hw).
  induction D as [a Hin|a b D IH E|x y z D IH|x y w z D IH Hy|x y w z D IH Hy Hdj|x y w z D1 IH1 D2 IH2 Hdj].
  - apply HA. exact Hin.
  - eapply amem_aeq; [left; exact E|exact IH].
  - apply Hs. exact IH.
  - eapply Hd; eassumption.
  - apply Hw; assumption.
  - eapply closure_fixed_contr_closed; eassumption.
Qed.

