(* C18: characterisations of the list-as-set operations and of assertion equality *)
From Coq Require Import List Bool Arith PeanoNat Lia.
From PV Require Import Base.Graph C18.Model C18.Spec.
Import ListNotations.
Local Open Scope nat_scope.

Lemma subsetb_spec a b : subsetb a b = true <-> (forall v, In v a -> In v b).
Proof.
  unfold subsetb. rewrite forallb_forall. split; intros H v Hv.
  - apply memn_In. apply H. exact Hv.
  - apply memn_In. apply H. exact Hv.
Qed.
Lemma seteqb_spec a b : seteqb a b = true <-> seteq a b.
Proof.
  unfold seteqb, seteq. rewrite andb_true_iff, !subsetb_spec. split.
  - intros [H1 H2] v. split; auto.
  - intros H. split; intros v; apply H.
Qed.
Lemma disjointb_spec a b : disjointb a b = true <-> disjoint a b.
Proof.
  unfold disjointb, disjoint. rewrite forallb_forall. split; intros H v Hv.
  - specialize (H v Hv). apply negb_true_iff in H. apply memn_false in H. exact H.
  - apply negb_true_iff. apply memn_false. apply H. exact Hv.
Qed.
Lemma union_In a b v : In v (union a b) <-> In v a \/ In v b.
Proof.
  unfold union. rewrite in_app_iff, filter_In. split.
  - intros [H|[H _]]; auto.
  - intros [H|H]; [auto|]. destruct (memn v a) eqn:E.
    + left. apply memn_In. exact E.
    + right. split; [exact H|]. reflexivity.
Qed.
Lemma remove1_In x l v : In v (remove1 x l) <-> In v l /\ v <> x.
Proof.
  unfold remove1. rewrite filter_In, negb_true_iff, Nat.eqb_neq. tauto.
Qed.
Lemma add1_In x l v : In v (add1 x l) <-> v = x \/ In v l.
Proof.
  unfold add1. destruct (memn x l) eqn:E.
  - apply memn_In in E. split; [auto|]. intros [->|H]; auto.
  - simpl. split; intros [H|H]; auto.
Qed.
Lemma diff_In a b v : In v (diff a b) <-> In v a /\ ~ In v b.
Proof.
  unfold diff. rewrite filter_In, negb_true_iff, memn_false. tauto.
Qed.
Lemma dedupn_In l v : In v (dedupn l) <-> In v l.
Proof.
  induction l as [|x r IH]; simpl; [tauto|]. destruct (memn x r) eqn:E.
  - rewrite IH. apply memn_In in E. split; [auto|]. intros [->|H]; auto.
  - simpl. rewrite IH. tauto.
Qed.
Lemma dedupn_NoDup l : NoDup (dedupn l).
Proof.
  induction l as [|x r IH]; simpl; [constructor|]. destruct (memn x r) eqn:E; [exact IH|].
  constructor; [|exact IH]. rewrite dedupn_In. apply memn_false. exact E.
Qed.

Lemma seteq_refl a : seteq a a. Proof. intros v. tauto. Qed.
Lemma seteq_sym a b : seteq a b -> seteq b a. Proof. intros H v. symmetry. apply H. Qed.
Lemma seteq_trans a b c : seteq a b -> seteq b c -> seteq a c.
Proof. intros H1 H2 v. rewrite (H1 v). apply H2. Qed.

Lemma aext_refl a : aext a a.
Proof. split; [|split]; apply seteq_refl. Qed.
Lemma aext_sym a b : aext a b -> aext b a.
Proof. intros (H1 & H2 & H3). split; [|split]; apply seteq_sym; assumption. Qed.
Lemma aext_trans a b c : aext a b -> aext b c -> aext a c.
Proof. intros (H1 & H2 & H3) (G1 & G2 & G3). split; [|split]; eapply seteq_trans; eassumption. Qed.
Lemma aext_sg0 a b : aext a b -> aext (sg0 a) (sg0 b).
Proof. intros (H1 & H2 & H3). unfold sg0, aext, ev1, ev2, ev3 in *. simpl. auto. Qed.
Lemma sg0_invol a : sg0 (sg0 a) = a.
Proof. destruct a as [[x y] z]. reflexivity. Qed.

Lemma aeq_refl a : aeq a a. Proof. left. apply aext_refl. Qed.
Lemma aeq_sym a b : aeq a b -> aeq b a.
Proof.
  intros [H|H]; [left; apply aext_sym; exact H|]. right.
  apply aext_sg0 in H. rewrite sg0_invol in H. apply aext_sym. exact H.
Qed.
Lemma aeq_trans a b c : aeq a b -> aeq b c -> aeq a c.
Proof.
  intros [H|H] [G|G].
  - left. eapply aext_trans; eassumption.
  - right. eapply aext_trans; [apply aext_sg0; exact H|exact G].
  - right. eapply aext_trans; eassumption.
  - left. apply aext_sg0 in H. rewrite sg0_invol in H. eapply aext_trans; eassumption.
Qed.
Lemma aeq_sg0 a : aeq a (sg0 a).
Proof. right. apply aext_refl. Qed.

Lemma aeqb_spec a b : aeqb a b = true <-> aeq a b.
Proof.
  unfold aeqb, aeq, aext. rewrite orb_true_iff, !andb_true_iff, !seteqb_spec.
  unfold sg0, ev1, ev2, ev3. simpl. tauto.
Qed.
Lemma aeqb_refl a : aeqb a a = true. Proof. apply aeqb_spec, aeq_refl. Qed.
Lemma aeqb_sym a b : aeqb a b = true -> aeqb b a = true.
Proof. rewrite !aeqb_spec. apply aeq_sym. Qed.
Lemma aeqb_trans a b c : aeqb a b = true -> aeqb b c = true -> aeqb a c = true.
Proof. rewrite !aeqb_spec. apply aeq_trans. Qed.

Lemma amem_spec a l : amem a l = true <-> exists b, In b l /\ aeq a b.
Proof.
  unfold amem. rewrite existsb_exists. split; intros [b [H1 H2]]; exists b; split; auto; apply aeqb_spec; exact H2.
Qed.
Lemma amem_In a l : In a l -> amem a l = true.
Proof. intros H. apply amem_spec. exists a. split; [exact H|apply aeq_refl]. Qed.
Lemma amem_aeq a b l : aeq a b -> amem a l = true -> amem b l = true.
Proof.
  rewrite !amem_spec. intros H [c [Hc Hac]]. exists c. split; [exact Hc|].
  eapply aeq_trans; [apply aeq_sym; exact H|exact Hac].
Qed.
Lemma amem_app a l m : amem a (l ++ m) = amem a l || amem a m.
Proof. unfold amem. apply existsb_app. Qed.
Lemma amem_incl a l m : (forall x, In x l -> In x m) -> amem a l = true -> amem a m = true.
Proof. rewrite !amem_spec. intros H [b [Hb Hab]]. exists b. split; auto. Qed.

Lemma adedup_In a l : In a (adedup l) -> In a l.
Proof.
  induction l as [|x r IH]; simpl; [tauto|]. destruct (amem x r); [auto|]. intros [H|H]; auto.
Qed.
Lemma adedup_amem a l : amem a (adedup l) = amem a l.
Proof.
  induction l as [|x r IH]; [reflexivity|]. simpl. destruct (amem x r) eqn:E.
  - rewrite IH. destruct (aeqb a x) eqn:Eax; [|reflexivity]. simpl.
    apply aeqb_spec in Eax. eapply amem_aeq; [apply aeq_sym; exact Eax|exact E].
  - simpl. rewrite IH. reflexivity.
Qed.
Lemma adiff_In a l m : In a (adiff l m) <-> In a l /\ amem a m = false.
Proof. unfold adiff. rewrite filter_In, negb_true_iff. tauto. Qed.
Lemma asubsetb_spec l m : asubsetb l m = true <-> forall a, In a l -> amem a m = true.
Proof. unfold asubsetb. apply forallb_forall. Qed.
