(* C18: lifting of the vm_compute result of ProofsDsep4 to a readable statement *)
From Coq Require Import List Bool Arith PeanoNat.
From PV Require Import Base.Graph C08.Model C18.Model C18.ProofsDsep4.
Import ListNotations.
Local Open Scope nat_scope.

Lemma bools_eqb_spec a b : bools_eqb a b = true <-> a = b.
Proof.
  revert b. induction a as [|x r IH]; destruct b as [|y s]; simpl.
  - tauto.
  - split; discriminate.
  - split; discriminate.
  - rewrite andb_true_iff, IH. split.
    + intros [H ->]. apply eqb_prop in H. subst. reflexivity.
    + intros H. inversion H. subst. split; [apply eqb_reflx|reflexivity].
Qed.

Lemma map_eq_pointwise {A B} (l : list A) (f1 f2 : A -> B) :
  map f1 l = map f2 l <-> forall q, In q l -> f1 q = f2 q.
Proof.
  split.
  - induction l as [|a l IH]; intros Hm q Hin.
    + destruct Hin.
    + simpl in Hm. inversion Hm as [[Ha Hl]]. destruct Hin as [Hin|Hin].
      * subst. exact Ha.
      * exact (IH Hl q Hin).
  - intros H. apply map_ext_in. exact H.
Qed.

Definition qfun (g : digraph) (q : node * list node * node) : bool :=
  let '(x, Z, y) := q in C08.Model.is_dconnected g x y Z.

Opaque dags4 queries4.

Lemma pair_agree g h : In g dags4 -> In h dags4 ->
  C18.Model.is_iequivalent g h = bools_eqb (dsep_sig g) (dsep_sig h).
Proof.
  intros Hg Hh.
  pose proof all_pairs_agree_true as H. unfold all_pairs_agree in H.
  cbv zeta in H.
  pose proof (proj1 (forallb_forall _ _) H) as H1. clear H.
  assert (Ig : In (g, dsep_sig g) (map (fun g => (g, dsep_sig g)) dags4)) by (apply in_map_iff; exists g; auto).
  assert (Ih : In (h, dsep_sig h) (map (fun g => (g, dsep_sig g)) dags4)) by (apply in_map_iff; exists h; auto).
  specialize (H1 _ Ig).
  pose proof (proj1 (forallb_forall _ _) H1) as H2. clear H1.
  specialize (H2 _ Ih). cbv beta in H2. cbn [fst snd] in H2.
  apply eqb_prop in H2. exact H2.
Qed.

Theorem iequiv_dsep_upto4 : forall g h, In g dags4 -> In h dags4 ->
  (C18.Model.is_iequivalent g h = true <->
   forall x Z y, In (x, Z, y) queries4 -> C08.Model.is_dconnected g x y Z = C08.Model.is_dconnected h x y Z).
Proof.
  intros g h Hg Hh. rewrite (pair_agree g h Hg Hh). rewrite bools_eqb_spec.
  unfold dsep_sig. fold (qfun g). fold (qfun h).
  rewrite (map_eq_pointwise queries4 (qfun g) (qfun h)). split.
  - intros E x Z y Hq. exact (E (x, Z, y) Hq).
  - intros E [[x Z] y] Hq. exact (E x Z y Hq).
Qed.
