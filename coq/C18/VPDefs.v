(* C18, Verma-Pearl theorem: shared definitions.  d-connection is C08/Spec.v's path-based [dconnected];
   Markov equivalence is C18/Spec.v's [markov_equivalent], restated here with C08's [adj] (the two [adj]
   have the same body). *)
From Coq Require Import List Bool Arith PeanoNat Lia.
From PV Require Import Base.Graph C08.Spec.
From PV Require C18.Model C18.Spec.
Import ListNotations.

(* v-structure (immorality)  a -> c <- b,  a and b distinct and not adjacent *)
Definition vs (g : digraph) (a b c : node) : Prop :=
  In (a, c) (edges g) /\ In (b, c) (edges g) /\ a <> b /\ ~ adj g a b.
(* same skeleton and same v-structures *)
Definition meq (g h : digraph) : Prop :=
  (forall u v, adj g u v <-> adj h u v) /\ (forall a b c, vs g a b c <-> vs h a b c).
Lemma meq_spec g h : C18.Spec.markov_equivalent g h <-> meq g h.
Proof. reflexivity. Qed.

Definition dag (g : digraph) : Prop := wf_graph g /\ acyclic g.
Definition same_nodes (g h : digraph) : Prop := forall n, In n (nodes g) <-> In n (nodes h).

(* the two graphs imply the same d-separation statements  x _|_ y | Z  (x, y distinct nodes outside Z) *)
Definition same_dsep (g h : digraph) : Prop :=
  forall Z x y, In x (nodes g) -> In y (nodes g) -> x <> y -> ~ In x Z -> ~ In y Z ->
    (dconnected g Z x y <-> dconnected h Z x y).

(* the edge x -> y is covered: parents(y) = parents(x) + {x} *)
Definition covered (g : digraph) (x y : node) : Prop :=
  In (x, y) (edges g) /\
  (forall p, In (p, x) (edges g) -> In (p, y) (edges g)) /\
  (forall p, In (p, y) (edges g) -> p <> x -> In (p, x) (edges g)).

(* g with the edge x -> y replaced by y -> x *)
Definition rev_edge (g : digraph) (x y : node) : digraph :=
  {| nodes := nodes g;
     edges := (y, x) :: filter (fun e => negb (edge_eqb e (x, y))) (edges g) |}.

Lemma rev_edge_In g x y u v :
  In (u, v) (edges (rev_edge g x y)) <-> (u, v) = (y, x) \/ (In (u, v) (edges g) /\ (u, v) <> (x, y)).
Proof.
  unfold rev_edge. simpl. rewrite filter_In, negb_true_iff. split.
  - intros [H|[H1 H2]]; [left; symmetry; exact H|right]. split; [exact H1|].
    intros E. rewrite E in H2. assert (T : edge_eqb (x, y) (x, y) = true) by (apply edge_eqb_eq; reflexivity).
    rewrite T in H2. discriminate.
  - intros [H|[H1 H2]]; [left; symmetry; exact H|right]. split; [exact H1|].
    destruct (edge_eqb (u, v) (x, y)) eqn:E; [|reflexivity]. apply edge_eqb_eq in E. contradiction.
Qed.
Lemma rev_edge_nodes g x y : nodes (rev_edge g x y) = nodes g.
Proof. reflexivity. Qed.
