(* C18, finite domain: on every pair of DAGs over the 4 labelled nodes 0..3 (543 x 543 pairs),
   is_iequivalent (= same skeleton and same v-structures, see ProofsGraph.iequiv_iff) holds exactly when
   the two graphs have the same d-separation statements, computed with C08's model of
   DAG.active_trail_nodes / is_dconnected.  Decided by vm_compute. *)
From Coq Require Import List Bool Arith PeanoNat.
From PV Require Import Base.Graph C08.Model C18.Model.
Import ListNotations.
Local Open Scope nat_scope.

Fixpoint subl {A} (l : list A) : list (list A) :=
  match l with [] => [[]] | x :: r => let s := subl r in s ++ map (cons x) s end.

Definition nodes4 : list node := [0; 1; 2; 3].
Definition arcs4 : list (node * node) :=
  filter (fun e => negb (Nat.eqb (fst e) (snd e))) (list_prod nodes4 nodes4).
(* every directed graph on 0..3 without self-loops that is acyclic: all 543 labelled DAGs *)
Definition dags4 : list digraph :=
  filter acyclicb (map (fun es => {| nodes := nodes4; edges := es |}) (subl arcs4)).

(* all d-connection answers (x, Z, y) with x <> y, x, y not in Z *)
Definition queries4 : list (node * list node * node) :=
  flat_map (fun x =>
    flat_map (fun Z => map (fun y => (x, Z, y))
                         (filter (fun y => negb (Nat.eqb y x) && negb (memn y Z)) nodes4))
             (subl (filter (fun v => negb (Nat.eqb v x)) nodes4)))
    nodes4.
Definition dsep_sig (g : digraph) : list bool :=
  map (fun q => let '(x, Z, y) := q in C08.Model.is_dconnected g x y Z) queries4.
Fixpoint bools_eqb (a b : list bool) : bool :=
  match a, b with
  | [], [] => true
  | x :: r, y :: s => Bool.eqb x y && bools_eqb r s
  | _, _ => false
  end.
Definition same_dsepb (g h : digraph) : bool := bools_eqb (dsep_sig g) (dsep_sig h).

Definition all_pairs_agree : bool :=
  let sg := map (fun g => (g, dsep_sig g)) dags4 in
  forallb (fun a => forallb (fun b =>
      Bool.eqb (C18.Model.is_iequivalent (fst a) (fst b)) (bools_eqb (snd a) (snd b))) sg) sg.

Lemma dags4_count : length dags4 = 543.
Proof. vm_compute. reflexivity. Qed.
Lemma queries4_count : length queries4 = 48.
Proof. vm_compute. reflexivity. Qed.
Lemma all_pairs_agree_true : all_pairs_agree = true.
Proof. vm_compute. reflexivity. Qed.

