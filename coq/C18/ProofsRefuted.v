(* C18: concrete witnesses, decided by running the as-coded model inside Coq (vm_compute) *)
From Coq Require Import List Bool Arith PeanoNat ZArith QArith Qcanon.
From PV Require Import Base.Graph C18.Model C18.Spec C18.ProofsSets.
Import ListNotations.
Local Open Scope nat_scope.

(* variables: X=0 W=1 Y=2 Z=3 V=4 *)
Definition A_unsound : list assertion := [([0], [1], [2; 3; 4]); ([0], [2], [3])].   (* X_|_W|Y,Z,V ; X_|_Y|Z *)
Definition t_unsound : assertion := ([0], [1; 2], [3]).                               (* X_|_W,Y|Z *)
Definition A_incomplete : list assertion := [([0], [1], [2]); ([0], [2], [])].        (* X_|_W|Y ; X_|_Y *)
Definition t_incomplete : assertion := ([0], [1; 2], []).                             (* X_|_W,Y *)

Lemma unsound_coded : exists R, closure A_unsound = Some R /\ amem t_unsound R = true.
Proof. vm_compute. eexists. split; reflexivity. Qed.
Lemma unsound_fixed : exists R, closure_fixed A_unsound = Some R /\ amem t_unsound R = false.
Proof. vm_compute. eexists. split; reflexivity. Qed.
Lemma incomplete_coded : exists R, closure A_incomplete = Some R /\ amem t_incomplete R = false.
Proof. vm_compute. eexists. split; reflexivity. Qed.
Lemma incomplete_derivable : derivable A_incomplete t_incomplete.
Proof.
  unfold A_incomplete, t_incomplete.
  apply (d_contr _ [0] [2] [1] []).
  - apply d_in. simpl. left. reflexivity.
  - apply d_in. simpl. right. left. reflexivity.
  - intros v _ [].
Qed.

(* D10c witness: two perfectly correlated binary variables 0, 1 *)
Local Open Scope Qc_scope.
Definition half : Qc := Q2Qc (1 # 2).
Definition j_dep : jpd :=
  {| jvars := [0%nat; 1%nat]; jcards := [2%nat; 2%nat];
     jrows := [([0%nat; 0%nat], half); ([0%nat; 1%nat], 0); ([1%nat; 0%nat], 0); ([1%nat; 1%nat], half)] |}.
Lemma minimal_imap_dep_empty : minimal_imap Qc_eqb j_dep [0%nat; 1%nat] = [].
Proof. vm_compute. reflexivity. Qed.
Lemma dep_not_indep : ~ indep0 j_dep 0%nat 1%nat.
Proof.
  intros H. specialize (H 0%nat 0%nat). unfold card_of in H. simpl in H.
  assert (E : prob j_dep [0%nat; 1%nat] [0%nat; 0%nat] = prob j_dep [0%nat] [0%nat] * prob j_dep [1%nat] [0%nat]).
  { apply H; auto. }
  vm_compute in E. discriminate E.
Qed.
Lemma dep_not_factorizes : factorizes j_dep [] = false.
Proof. vm_compute. reflexivity. Qed.
