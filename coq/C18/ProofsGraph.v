(* C18: DAG.is_iequivalent decides the Verma-Pearl characterisation (same skeleton, same v-structures) *)
From Coq Require Import List Bool Arith PeanoNat Lia.
From PV Require Import Base.Graph C18.Model C18.Spec C18.ProofsSets.
Import ListNotations.
Local Open Scope nat_scope.

Lemma adjb_spec : forall g u v, adjb g u v = true <-> adj g u v.
Proof.
  intros g u v. unfold adjb, adj. rewrite orb_true_iff, !has_edge_In. tauto.
Qed.
Lemma adj_sym g u v : adj g u v -> adj g v u.
Proof. unfold adj. tauto. Qed.

(* ------------------------------------------------------------------ pairs *)
Lemma pairs_In_both l p q : In (p, q) (pairs l) -> In p l /\ In q l.
Proof.
  induction l as [|x r IH]; simpl; [tauto|]. rewrite in_app_iff, in_map_iff.
  intros [[y [Hy Hi]]|H].
  - inversion Hy; subst. auto.
  - destruct (IH H). auto.
Qed.
Lemma pairs_NoDup_neq l p q : NoDup l -> In (p, q) (pairs l) -> p <> q.
Proof.
  induction l as [|x r IH]; simpl; [tauto|]. intros Hnd. inversion Hnd as [|? ? Hx Hr]; subst.
  rewrite in_app_iff, in_map_iff. intros [[y [Hy Hi]]|H].
  - inversion Hy; subst. intros ->. contradiction.
  - apply IH; assumption.
Qed.
Lemma pairs_complete l p q : In p l -> In q l -> p <> q -> In (p, q) (pairs l) \/ In (q, p) (pairs l).
Proof.
  induction l as [|x r IH]; simpl; [tauto|]. intros [Hp|Hp] [Hq|Hq] Hne; subst.
  - congruence.
  - left. apply in_or_app. left. apply in_map. exact Hq.
  - right. apply in_or_app. left. apply in_map. exact Hp.
  - destruct (IH Hp Hq Hne) as [H|H]; [left|right]; apply in_or_app; right; exact H.
Qed.

(* ------------------------------------------------------------------ v-structures *)
Lemma vs_eqb_true a b c a' b' c' :
  vs_eqb (a, b, c) (a', b', c') = true <-> c = c' /\ ((a = a' /\ b = b') \/ (a = b' /\ b = a')).
Proof.
  unfold vs_eqb. rewrite andb_true_iff, orb_true_iff, !andb_true_iff, !Nat.eqb_eq. tauto.
Qed.

Lemma vstructs_In g p q c :
  In (p, q, c) (vstructs g) <->
  In c (edge_nodes g) /\ In (p, q) (pairs (preds g c)) /\ adjb g p q = false.
Proof.
  unfold vstructs. rewrite in_flat_map. split.
  - intros [c' [Hc Hm]]. apply in_map_iff in Hm. destruct Hm as [[p' q'] [He Hf]].
    simpl in He. inversion He; subst. apply filter_In in Hf. simpl in Hf. destruct Hf as [Hf Hn].
    apply negb_true_iff in Hn. rewrite dedupn_In in Hc. auto.
  - intros (Hc & Hp & Hn). exists c. split; [apply dedupn_In; exact Hc|].
    apply in_map_iff. exists (p, q). split; [reflexivity|]. apply filter_In. simpl. split; [exact Hp|].
    apply negb_true_iff. exact Hn.
Qed.

Lemma vstructure_sym g a b c : vstructure g a b c -> vstructure g b a c.
Proof.
  unfold vstructure. intros (H1 & H2 & H3 & H4). repeat split; auto. intros H. apply H4, adj_sym, H.
Qed.

Lemma vstructs_sound g p q c : In (p, q, c) (vstructs g) -> vstructure g p q c.
Proof.
  intros H. apply vstructs_In in H. destruct H as (Hc & Hp & Hn).
  destruct (pairs_In_both _ _ _ Hp) as [H1 H2]. unfold preds in H1, H2.
  apply dedupn_In, In_parents in H1. apply dedupn_In, In_parents in H2.
  unfold vstructure. repeat split; auto.
  - eapply pairs_NoDup_neq; [|exact Hp]. apply dedupn_NoDup.
  - intros Ha. apply adjb_spec in Ha. congruence.
Qed.

Lemma edge_nodes_In_r g u v : In (u, v) (edges g) -> In v (edge_nodes g).
Proof.
  intros H. unfold edge_nodes. apply in_flat_map. exists (u, v). split; [exact H|]. simpl. auto.
Qed.

Lemma vstructs_complete g a b c :
  vstructure g a b c -> In (a, b, c) (vstructs g) \/ In (b, a, c) (vstructs g).
Proof.
  intros (H1 & H2 & H3 & H4).
  assert (Hc : In c (edge_nodes g)) by (eapply edge_nodes_In_r; exact H1).
  assert (Ha : In a (preds g c)) by (apply dedupn_In, In_parents; exact H1).
  assert (Hb : In b (preds g c)) by (apply dedupn_In, In_parents; exact H2).
  destruct (pairs_complete _ _ _ Ha Hb H3) as [H|H]; [left|right]; apply vstructs_In; repeat split; auto.
  - destruct (adjb g a b) eqn:E; [|reflexivity]. apply adjb_spec in E. contradiction.
  - destruct (adjb g b a) eqn:E; [|reflexivity]. apply adjb_spec, adj_sym in E. contradiction.
Qed.

Lemma vstructs_spec : forall g a b c,
  (exists t, In t (vstructs g) /\ vs_eqb (a, b, c) t = true) <-> vstructure g a b c.
Proof.
  intros g a b c. split.
  - intros [[[p q] c'] [Ht He]]. apply vs_eqb_true in He. destruct He as [-> [[-> ->]|[-> ->]]].
    + apply vstructs_sound. exact Ht.
    + apply vstructure_sym, vstructs_sound. exact Ht.
  - intros H. destruct (vstructs_complete _ _ _ _ H) as [Hi|Hi].
    + exists (a, b, c). split; [exact Hi|]. apply vs_eqb_true. auto.
    + exists (b, a, c). split; [exact Hi|]. apply vs_eqb_true. auto.
Qed.

Lemma vs_subsetb_spec g h :
  vs_subsetb (vstructs g) (vstructs h) = true <-> (forall a b c, vstructure g a b c -> vstructure h a b c).
Proof.
  unfold vs_subsetb. rewrite forallb_forall. split.
  - intros H a b c Hv. apply vstructs_spec in Hv. destruct Hv as [[[p q] c'] [Ht He]].
    specialize (H _ Ht). apply existsb_exists in H. destruct H as [[[p' q'] c''] [Ht' He']].
    apply vstructs_spec. exists (p', q', c''). split; [exact Ht'|].
    apply vs_eqb_true in He. apply vs_eqb_true in He'. apply vs_eqb_true.
    destruct He as [-> [[-> ->]|[-> ->]]]; destruct He' as [-> [[-> ->]|[-> ->]]]; auto.
  - intros H [[p q] c] Ht. apply existsb_exists. apply vstructs_spec. apply H.
    apply vstructs_sound. exact Ht.
Qed.

Lemma skel_subsetb_spec g h :
  skel_subsetb g h = true <-> (forall u v, In (u, v) (edges g) -> adj h u v).
Proof.
  unfold skel_subsetb. rewrite forallb_forall. split.
  - intros H u v He. apply adjb_spec. apply (H (u, v) He).
  - intros H [u v] He. apply adjb_spec. simpl. apply H. exact He.
Qed.

Lemma skel_spec g h : skel_subsetb g h && skel_subsetb h g = true <-> same_skeleton g h.
Proof.
  rewrite andb_true_iff, !skel_subsetb_spec. unfold same_skeleton. split.
  - intros [H1 H2] u v. split; intros [H|H].
    + apply H1. exact H.
    + apply adj_sym, H1. exact H.
    + apply H2. exact H.
    + apply adj_sym, H2. exact H.
  - intros H. split; intros u v He; apply H; left; exact He.
Qed.

Theorem iequiv_iff : forall g h, is_iequivalent g h = true <-> markov_equivalent g h.
Proof.
  intros g h. unfold is_iequivalent, markov_equivalent, same_vstructures.
  rewrite andb_true_iff, skel_spec, andb_true_iff, !vs_subsetb_spec. split.
  - intros [Hs [H1 H2]]. split; [exact Hs|]. intros a b c. split; auto.
  - intros [Hs H]. split; [exact Hs|]. split; intros a b c; apply H.
Qed.
