(* C18 property theorems.  Only statements, each closed by [exact] of a lemma proved in the Proofs*.v
   files, with Print Assumptions underneath.  Model = coq/C18/Model.v (pgmpy as coded), Spec = coq/C18/Spec.v.
   Sets of variables are lists read up to membership; [amem t R] is membership up to assertion equality. *)
From Coq Require Import List Bool Arith QArith Qcanon.
From PV Require Import Base.Graph C08.Model C18.Model C18.Spec C18.ProofsSets C18.ProofsSound C18.ProofsComplete
  C18.ProofsTerm C18.ProofsRefuted C18.ProofsEntails C18.ProofsGraph C18.ProofsJPD C18.ProofsDsep4 C18.ProofsDsep4Lift
  C18.VPDefs C18.ProofsVPA C18.ProofsVPRev C18.ProofsVPSim C18.ProofsVermaPearl.
Import ListNotations.
Local Open Scope nat_scope.

(* ---- I-equivalence: DAG.is_iequivalent (after fix 7596ac4) = same skeleton and same v-structures,
   for all graphs (no size bound, no well-formedness hypothesis) *)
Theorem C18_iequiv_iff : forall g h, C18.Model.is_iequivalent g h = true <-> markov_equivalent g h.
Proof. exact iequiv_iff. Qed.
Print Assumptions C18_iequiv_iff.
Example C18_iequiv_example :
  C18.Model.is_iequivalent {| nodes := []; edges := [(0, 1); (1, 2)] |} {| nodes := []; edges := [(1, 0); (1, 2)] |} = true /\
  C18.Model.is_iequivalent {| nodes := []; edges := [(0, 1); (1, 2)] |} {| nodes := []; edges := [(0, 1); (2, 1)] |} = false /\
  (* the D10a witness: same skeleton, same parent pair {0,1}, colliding at different children 2 / 3 *)
  C18.Model.is_iequivalent {| nodes := []; edges := [(0, 2); (1, 2); (0, 3); (3, 1)] |}
                           {| nodes := []; edges := [(0, 3); (1, 3); (0, 2); (2, 1)] |} = false.
Proof. vm_compute. auto. Qed.

(* finite domain: on all 543 x 543 pairs of DAGs over the labelled nodes 0..3, the same skeleton and v-structures
   <-> the same answers to all 48 d-connection queries (x, Z, y) of C08's model of DAG.is_dconnected *)
Theorem C18_iequiv_dsep_upto4 : forall g h, In g dags4 -> In h dags4 ->
  (C18.Model.is_iequivalent g h = true <->
   forall x Z y, In (x, Z, y) queries4 -> C08.Model.is_dconnected g x y Z = C08.Model.is_dconnected h x y Z).
Proof. exact iequiv_dsep_upto4. Qed.
Print Assumptions C18_iequiv_dsep_upto4.

(* ---- closure as coded.  Full statement wanted:
     forall A t, (exists R, closure A = Some R /\ amem t R = true) <-> derivable A t
   is FALSE in both directions for the faithful model (defect D10b, contraction side condition): *)
Theorem C18_closure_sound_refuted : exists A t,
  (exists R, closure A = Some R /\ amem t R = true) /\ ~ derivable A t.
Proof. exact closure_sound_refuted. Qed.
Print Assumptions C18_closure_sound_refuted.
Theorem C18_closure_complete_refuted : exists A t,
  derivable A t /\ exists R, closure A = Some R /\ amem t R = false.
Proof. exact closure_complete_refuted. Qed.
Print Assumptions C18_closure_complete_refuted.

(* what does hold for the code as it is: the loop terminates within its fuel for every input, the result
   contains A and is closed under symmetry, decomposition and weak union *)
Theorem C18_closure_dec_wu : forall A, exists R, closure A = Some R /\
   (forall a, In a A -> amem a R = true) /\
   (forall x y z, amem (x, y, z) R = true -> amem (y, x, z) R = true) /\
   (forall x y w z, amem (x, y ++ w, z) R = true -> nonempty y -> amem (x, y, z) R = true) /\
   (forall x y w z, amem (x, y ++ w, z) R = true -> nonempty y -> disjoint y w -> amem (x, y, w ++ z) R = true).
Proof. exact closure_dec_wu. Qed.
Print Assumptions C18_closure_dec_wu.
Example C18_closure_example : exists R, closure [([0], [1; 2], [3])] = Some R /\ length R = 5 /\
  amem ([2], [0], [1; 3]) R = true.
Proof. vm_compute. eexists. repeat split. Qed.

(* the same loop with the repaired side condition (Y u Z = Y_Z, Y n Z = {}) computes exactly semi-graphoid
   derivability: sound, complete, terminating, for every list of assertions (no bound) *)
Theorem C18_closure_fixed_sound : forall A R a, closure_fixed A = Some R -> In a R -> derivable A a.
Proof. exact closure_fixed_sound. Qed.
Print Assumptions C18_closure_fixed_sound.
Theorem C18_closure_fixed_complete : forall A R a, closure_fixed A = Some R -> derivable A a -> amem a R = true.
Proof. exact closure_fixed_complete. Qed.
Print Assumptions C18_closure_fixed_complete.
Theorem C18_closure_fixed_iff_derivable : forall A, exists R, closure_fixed A = Some R /\
  forall a, amem a R = true <-> derivable A a.
Proof. exact closure_fixed_iff. Qed.
Print Assumptions C18_closure_fixed_iff_derivable.

(* entails / is_equivalent: as coded they are membership tests in the as-coded closure (so they inherit D10b);
   with the repaired closure they decide derivability / mutual derivability *)
Theorem C18_entails_equiv_coded : forall A B, exists R, closure A = Some R /\
  entails A B = Some (asubsetb B R) /\
  (entails A B = Some true <-> forall t, In t B -> amem t R = true).
Proof. exact entails_coded_closure. Qed.
Print Assumptions C18_entails_equiv_coded.
Theorem C18_is_equivalent_coded : forall A B, exists b1 b2, entails A B = Some b1 /\ entails B A = Some b2 /\
  is_equivalent A B = Some (b1 && b2).
Proof. exact is_equivalent_coded. Qed.
Print Assumptions C18_is_equivalent_coded.
Theorem C18_entails_fixed_iff : forall A B, exists b, entails_gen cond_fixed A B = Some b /\
  (b = true <-> forall t, In t B -> derivable A t).
Proof. exact entails_fixed_iff. Qed.
Print Assumptions C18_entails_fixed_iff.
Theorem C18_is_equivalent_fixed_iff : forall A B, exists b, is_equivalent_gen cond_fixed A B = Some b /\
  (b = true <-> forall t, derivable A t <-> derivable B t).
Proof. exact is_equivalent_fixed_iff. Qed.
Print Assumptions C18_is_equivalent_fixed_iff.

(* ---- IndependenceAssertion.__eq__ decides equality up to symmetry, is an equivalence relation, and equal
   assertions have equal hash keys (frozenset((e1, e2)), e3) *)
Theorem C18_eq_hash_symmetry : forall a b : assertion,
  (aeqb a b = true <-> aeq a b) /\ aeqb a b = hkey_eqb a b /\ aeqb a (sg0 a) = true /\
  aeqb a a = true /\ aeqb a b = aeqb b a /\ (forall c, aeqb a b = true -> aeqb b c = true -> aeqb a c = true).
Proof. exact eq_hash_symmetry. Qed.
Print Assumptions C18_eq_hash_symmetry.

(* ---- check_independence in exact arithmetic (tolerance 0).  Events with several variables are tested PAIRWISE
   (that is what the code does; it is not joint independence of the sets).  event3 empty: marginal branch. *)
Theorem C18_check_independence_iff : forall j e1 e2,
  (check_marg Qc_eqb j e1 e2 = true <-> (forall x y, In x e1 -> In y e2 -> indep0 j x y)) /\
  (forall Z, Z <> [] ->
     (check_cond_rv Qc_eqb j e1 e2 Z = true <-> (forall x y, In x e1 -> In y e2 -> indep j x y Z))).
Proof. intros j e1 e2. split; [apply check_marg_iff|intros Z HZ; apply check_cond_rv_iff; exact HZ]. Qed.
Print Assumptions C18_check_independence_iff.
(* event3 = a context [(variable, state); ...]: guard = the context has non-zero probability; otherwise pgmpy
   divides by zero and raises ValueError (model: None) *)
Theorem C18_check_independence_context_iff : forall j x y ctx b, ctx <> [] ->
  check_ctx Qc_eqb j [x] [y] ctx = Some b -> pctx j ctx <> 0%Qc /\ (b = true <-> indep_ctx j x y ctx).
Proof. exact check_ctx_iff. Qed.
Print Assumptions C18_check_independence_context_iff.
Theorem C18_check_independence_context_zero : forall cmp j e1 e2 ctx, ctx <> [] ->
  (check_ctx cmp j e1 e2 ctx = None <-> pctx j ctx = 0%Qc).
Proof. exact check_ctx_none_iff. Qed.
Print Assumptions C18_check_independence_context_zero.
(* tolerance form (DiscreteFactor.__eq__ = numpy.allclose(B, A, atol, rtol)): |B - A| <= atol + rtol |A|;
   exact equality implies it, so a true answer in exact arithmetic stays true under the tolerance *)
Theorem C18_check_independence_tolerance : forall atol rtol a b, (0 <= atol)%Qc -> (0 <= rtol)%Qc -> a = b ->
  close atol rtol a b = true.
Proof. exact close_of_eq. Qed.
Print Assumptions C18_check_independence_tolerance.
Example C18_check_independence_example :
  check_marg Qc_eqb j_dep [0] [1] = false /\ check_ctx Qc_eqb j_dep [0] [1] [] = Some false.
Proof. vm_compute. auto. Qed.

(* ---- minimal_imap.  Wanted: the returned graph only encodes independencies that hold (the joint factorises along
   it).  FALSE for the faithful model (defect D10c): two perfectly correlated binary variables give the empty graph,
   in which 0 and 1 are d-separated, but 0 and 1 are not independent and the joint does not factorise. *)
Theorem C18_minimal_imap_refuted : exists j order,
  minimal_imap Qc_eqb j order = [] /\ order = [0; 1] /\
  C08.Model.is_dconnected {| nodes := order; edges := [] |} 0 1 [] = false /\
  ~ indep0 j 0 1 /\ factorizes j [] = false.
Proof.
  exists j_dep, [0; 1]. split; [exact minimal_imap_dep_empty|]. split; [reflexivity|].
  split; [vm_compute; reflexivity|]. split; [exact dep_not_indep|exact dep_not_factorizes].
Qed.
Print Assumptions C18_minimal_imap_refuted.
(* what does hold: every returned edge goes forward in the given order (so the result is a DAG when the order has no
   duplicates) *)
Theorem C18_minimal_imap_forward : forall cmp j order a b, In (a, b) (minimal_imap cmp j order) ->
  exists i k, i < k /\ k < length order /\ nth i order 0 = a /\ nth k order 0 = b.
Proof. exact minimal_imap_forward. Qed.
Print Assumptions C18_minimal_imap_forward.

(* ================================================================== Verma-Pearl, all DAGs (no size bound)
   [dag g] = wf_graph g /\ acyclic g;  [same_nodes g h] = the same node set;
   [same_dsep g h] = for all Z and all distinct nodes x, y outside Z:
                     dconnected g Z x y <-> dconnected h Z x y   (C08's path-based d-connection). *)

(* (A) DAGs that imply the same d-separation statements have the same skeleton and the same v-structures *)
Theorem C18_same_dseparation_implies_markov_equivalent : forall g h,
  dag g -> dag h -> same_nodes g h -> same_dsep g h -> markov_equivalent g h.
Proof. intros g h Hg Hh Hn Hs. apply meq_spec. exact (same_dsep_meq g h Hg Hh Hn Hs). Qed.
Print Assumptions C18_same_dseparation_implies_markov_equivalent.

(* (B) DAGs with the same skeleton and the same v-structures have the same d-connection relation (for every
   start node outside Z; the end node is arbitrary) *)
Theorem C18_markov_equivalent_implies_same_dseparation : forall g h,
  dag g -> dag h -> same_nodes g h -> markov_equivalent g h ->
  forall Z s t, ~ In s Z -> (C08.Spec.dconnected g Z s t <-> C08.Spec.dconnected h Z s t).
Proof. intros g h Hg Hh Hn Hm. apply meq_dconnected; assumption. Qed.
Print Assumptions C18_markov_equivalent_implies_same_dseparation.

(* the step of (B): reversing a covered edge (parents(y) = parents(x) + {x}) of a DAG gives a DAG with the same
   skeleton, v-structures and d-connection statements; and two equivalent DAGs that differ always have one *)
Theorem C18_covered_edge_reversal : forall g x y, dag g -> covered g x y ->
  dag (rev_edge g x y) /\ markov_equivalent g (rev_edge g x y) /\
  forall Z s t, ~ In s Z -> C08.Spec.dconnected g Z s t -> C08.Spec.dconnected (rev_edge g x y) Z s t.
Proof.
  intros g x y Hg Hc. pose proof (rev_covered_dag g x y Hg Hc) as Hd. split; [exact Hd|]. split.
  - apply meq_spec. exact (rev_covered_meq g x y Hg Hc).
  - exact (rev_covered_dconnected g x y Hg Hc Hd).
Qed.
Print Assumptions C18_covered_edge_reversal.
Theorem C18_equivalent_dags_differ_by_covered_edge : forall g h, dag g -> dag h -> same_nodes g h ->
  markov_equivalent g h -> (exists e, In e (edges g) /\ ~ In e (edges h)) ->
  exists x y, In (x, y) (edges g) /\ ~ In (x, y) (edges h) /\ covered g x y.
Proof. intros g h Hg Hh Hn Hm. apply find_covered; assumption. Qed.
Print Assumptions C18_equivalent_dags_differ_by_covered_edge.

(* hence: DAG.is_iequivalent (as modelled) is true exactly when the two DAGs imply the same independence
   statements by d-separation *)
Theorem C18_iequivalent_iff_same_dseparation : forall g h, dag g -> dag h -> same_nodes g h ->
  (C18.Model.is_iequivalent g h = true <-> same_dsep g h).
Proof. exact iequivalent_iff_same_dseparation. Qed.
Print Assumptions C18_iequivalent_iff_same_dseparation.

(* the hypotheses are satisfiable: chain 0 -> 1 -> 2 and fork 0 <- 1 -> 2 are equivalent DAGs, the collider is not *)
Definition vp_chain : digraph := {| nodes := [0; 1; 2]; edges := [(0, 1); (1, 2)] |}.
Definition vp_fork : digraph := {| nodes := [0; 1; 2]; edges := [(1, 0); (1, 2)] |}.
Definition vp_coll : digraph := {| nodes := [0; 1; 2]; edges := [(0, 1); (2, 1)] |}.
Example C18_verma_pearl_example :
  dag vp_chain /\ dag vp_fork /\ dag vp_coll /\ same_nodes vp_chain vp_fork /\ same_nodes vp_chain vp_coll /\
  same_dsep vp_chain vp_fork /\ ~ same_dsep vp_chain vp_coll /\ covered vp_chain 0 1.
Proof.
  assert (N : NoDup [0; 1; 2]) by (repeat constructor; simpl; intuition discriminate).
  assert (D1 : dag vp_chain) by (apply vp_small_dag; [exact N|vm_compute; reflexivity|vm_compute; reflexivity]).
  assert (D2 : dag vp_fork) by (apply vp_small_dag; [exact N|vm_compute; reflexivity|vm_compute; reflexivity]).
  assert (D3 : dag vp_coll) by (apply vp_small_dag; [exact N|vm_compute; reflexivity|vm_compute; reflexivity]).
  assert (S1 : same_nodes vp_chain vp_fork) by (intros n; reflexivity).
  assert (S2 : same_nodes vp_chain vp_coll) by (intros n; reflexivity).
  split; [exact D1|]. split; [exact D2|]. split; [exact D3|]. split; [exact S1|]. split; [exact S2|].
  split; [|split].
  - apply (C18_iequivalent_iff_same_dseparation vp_chain vp_fork D1 D2 S1). vm_compute. reflexivity.
  - intros H. apply (C18_iequivalent_iff_same_dseparation vp_chain vp_coll D1 D3 S2) in H. vm_compute in H. discriminate.
  - split; [simpl; left; reflexivity|]. split.
    + intros p [H|[H|[]]]; inversion H.
    + intros p [H|[H|[]]] Hp; inversion H; subst; contradiction.
Qed.
