(* C18: JointProbabilityDistribution.check_independence / minimal_imap against the cross-multiplied
   independence statements of Spec.v (exact comparison Qc_eqb) *)
From Coq Require Import List Bool Arith PeanoNat Lia QArith Qcanon Qcabs Field.
From PV Require Import Base.Graph C18.Model C18.Spec C18.ProofsSets.
Import ListNotations.
Local Open Scope nat_scope.

(* ------------------------------------------------------------------ basic characterisations *)
Lemma Qc_eqb_spec : forall a b, Qc_eqb a b = true <-> a = b.
Proof.
  intros a b. unfold Qc_eqb. destruct (Qc_eq_dec a b) as [E|E]; split; auto; discriminate.
Qed.

Lemma forallb_seq0 (f : nat -> bool) n : forallb f (seq 0 n) = true <-> (forall x, x < n -> f x = true).
Proof.
  rewrite forallb_forall. split.
  - intros H x Hx. apply H. apply in_seq. lia.
  - intros H x Hx. apply H. apply in_seq in Hx. lia.
Qed.

Lemma all_assign_spec : forall cs s, In s (all_assign cs) <-> Forall2 (fun c x => x < c) cs s.
Proof.
  induction cs as [|c r IH]; intros s; simpl.
  - split.
    + intros [<-|[]]. constructor.
    + intros H. inversion H. auto.
  - rewrite in_flat_map. split.
    + intros [x [Hx Hs]]. apply in_map_iff in Hs. destruct Hs as [s' [<- Hs']].
      apply in_seq in Hx. constructor; [lia|]. apply IH. exact Hs'.
    + intros H. inversion H as [|c' x r' s' Hx Hs']; subst. exists x. split; [apply in_seq; lia|].
      apply in_map. apply IH. exact Hs'.
Qed.

Lemma Forall2_map_l {A B C} (P : B -> C -> Prop) (f : A -> B) l s :
  Forall2 P (map f l) s <-> Forall2 (fun a c => P (f a) c) l s.
Proof.
  revert s. induction l as [|a l IH]; intros s; simpl.
  - split; intros H; inversion H; constructor.
  - split; intros H; inversion H; subst; constructor; auto; apply IH; assumption.
Qed.

Lemma assigns_spec : forall j S s, In s (assigns j S) <-> in_range j S s.
Proof.
  intros j S s. unfold assigns, in_range. rewrite all_assign_spec. apply Forall2_map_l.
Qed.

(* ------------------------------------------------------------------ marginal / conditional branches *)
Theorem indep_marg_iff : forall j x y, indep_marg Qc_eqb j x y = true <-> indep0 j x y.
Proof.
  intros j x y. unfold indep_marg, indep0, prob, states. rewrite forallb_seq0. split.
  - intros H sx sy Hx Hy. specialize (H sx Hx). rewrite forallb_seq0 in H.
    apply Qc_eqb_spec. apply H. exact Hy.
  - intros H sx Hx. apply forallb_seq0. intros sy Hy. apply Qc_eqb_spec. apply H; assumption.
Qed.

Theorem indep_cond_iff : forall j x y Z, indep_cond Qc_eqb j x y Z = true <-> indep j x y Z.
Proof.
  intros j x y Z. unfold indep_cond, indep, prob, states. rewrite forallb_forall. split.
  - intros H z sx sy Hz Hx Hy. apply assigns_spec in Hz. specialize (H z Hz).
    rewrite forallb_seq0 in H. specialize (H sx Hx). rewrite forallb_seq0 in H.
    apply Qc_eqb_spec. apply H. exact Hy.
  - intros H z Hz. apply assigns_spec in Hz. apply forallb_seq0. intros sx Hx.
    apply forallb_seq0. intros sy Hy. apply Qc_eqb_spec. apply H; assumption.
Qed.

Theorem check_marg_iff : forall j e1 e2,
  check_marg Qc_eqb j e1 e2 = true <-> (forall x y, In x e1 -> In y e2 -> indep0 j x y).
Proof.
  intros j e1 e2. unfold check_marg. rewrite forallb_forall. split.
  - intros H x y Hx Hy. apply indep_marg_iff. apply (H (x, y)). apply in_prod; assumption.
  - intros H [x y] Hp. apply in_prod_iff in Hp. destruct Hp as [Hx Hy]. simpl.
    apply indep_marg_iff. apply H; assumption.
Qed.

Theorem check_cond_rv_iff : forall j e1 e2 Z, Z <> [] ->
  (check_cond_rv Qc_eqb j e1 e2 Z = true <-> (forall x y, In x e1 -> In y e2 -> indep j x y Z)).
Proof.
  intros j e1 e2 Z HZ. unfold check_cond_rv. destruct Z as [|z0 Z']; [congruence|].
  rewrite forallb_forall. split.
  - intros H x y Hx Hy. apply indep_cond_iff. apply (H (x, y)). apply in_prod; assumption.
  - intros H [x y] Hp. apply in_prod_iff in Hp. destruct Hp as [Hx Hy]. simpl.
    apply indep_cond_iff. apply H; assumption.
Qed.

(* ------------------------------------------------------------------ allclose *)
Local Open Scope Qc_scope.
(* exact equality implies the numpy.allclose form for non-negative tolerances *)
Lemma close_of_eq : forall atol rtol a b, 0 <= atol -> 0 <= rtol -> a = b -> close atol rtol a b = true.
Proof.
  intros atol rtol a b Ha Hr <-. unfold close, Qc_leb. apply Qle_bool_iff.
  change (Qcabs (a - a) <= atol + rtol * Qcabs a).
  replace (a - a) with 0 by ring. rewrite (Qcabs_pos 0) by apply Qcle_refl.
  replace 0 with (0 + 0 * Qcabs a) at 1 by ring.
  apply Qcplus_le_compat; [exact Ha|]. apply Qcmult_le_compat_r; [exact Hr|apply Qcabs_nonneg].
Qed.
Local Close Scope Qc_scope.

(* ------------------------------------------------------------------ minimal_imap *)
Lemma sublists_In S u p : In S (sublists u) -> In p S -> In p u.
Proof.
  revert S. induction u as [|x r IH]; intros S; simpl.
  - intros [<-|[]] H. exact H.
  - rewrite in_app_iff, in_map_iff. intros [H|[S' [<- H]]] Hp.
    + right. eapply IH; eassumption.
    + destruct Hp as [->|Hp]; [left; reflexivity|right; eapply IH; eassumption].
Qed.

Lemma firstn_In_nth (l : list nat) i p :
  In p (firstn i l) -> exists i', i' < i /\ i' < length l /\ nth i' l 0 = p.
Proof.
  revert i. induction l as [|x r IH]; intros i.
  - rewrite firstn_nil. intros [].
  - destruct i as [|i]; simpl; [intros []|]. intros [->|H].
    + exists 0. repeat split; lia.
    + destruct (IH i H) as [i' (H1 & H2 & H3)]. exists (S i'). repeat split; lia || assumption.
Qed.

(* edges of minimal_imap go forward in the order (so the result is acyclic when order is duplicate-free) *)
Theorem minimal_imap_forward : forall cmp j order a b, In (a, b) (minimal_imap cmp j order) ->
  exists i k, i < k /\ k < length order /\ nth i order 0 = a /\ nth k order 0 = b.
Proof.
  intros cmp j order a b H. unfold minimal_imap in H. apply in_flat_map in H.
  destruct H as [k [Hk H]]. apply in_seq in Hk. apply in_flat_map in H. destruct H as [S [HS H]].
  destruct (_ && _) in H; [|destruct H]. apply in_map_iff in H. destruct H as [p [Hp HpS]].
  inversion Hp; subst. pose proof (sublists_In _ _ _ HS HpS) as Hu.
  destruct (firstn_In_nth _ _ _ Hu) as [i (H1 & H2 & H3)]. exists i, k. repeat split; lia || assumption.
Qed.

(* ------------------------------------------------------------------ context branch *)
Local Open Scope Qc_scope.
(* P(ctx) := sum of the rows that satisfy the context *)
Definition pctx (j : jpd) (ctx : list (nat * nat)) : Qc :=
  fold_right (fun r acc => snd r + acc) 0 (filter (fun r => ctx_ok j ctx (fst r)) (jrows j)).
(* sum of the rows that satisfy the context and agree with s on S *)
Definition numc (j : jpd) (ctx : list (nat * nat)) (S s : list nat) : Qc :=
  fold_right (fun r acc => if list_eqb (map (state_of j (fst r)) S) s then snd r + acc else acc) 0
    (filter (fun r => ctx_ok j ctx (fst r)) (jrows j)).

Lemma conditional_unfold j ctx :
  conditional j ctx =
  if Qc_eq_dec (pctx j ctx) 0 then None
  else Some {| jvars := jvars j; jcards := jcards j;
               jrows := map (fun r => (fst r, snd r / pctx j ctx))
                            (filter (fun r => ctx_ok j ctx (fst r)) (jrows j)) |}.
Proof. reflexivity. Qed.

Theorem check_ctx_none_iff : forall cmp j e1 e2 ctx, ctx <> [] ->
  (check_ctx cmp j e1 e2 ctx = None <-> pctx j ctx = 0).
Proof.
  intros cmp j e1 e2 ctx Hc. unfold check_ctx. destruct ctx as [|c0 ctx']; [congruence|].
  rewrite conditional_unfold. destruct (Qc_eq_dec (pctx j (c0 :: ctx')) 0) as [E|E].
  - tauto.
  - split; [discriminate|contradiction].
Qed.

Lemma list_eqb_app a b c d : length a = length b ->
  list_eqb (a ++ c) (b ++ d) = list_eqb a b && list_eqb c d.
Proof.
  revert b. induction a as [|x a IH]; intros [|y b] Hl; simpl in *; try discriminate.
  - reflexivity.
  - rewrite IH by lia. rewrite andb_assoc. reflexivity.
Qed.

Lemma ctx_ok_list_eqb j ctx a :
  list_eqb (map (state_of j a) (map fst ctx)) (map snd ctx) = ctx_ok j ctx a.
Proof.
  unfold ctx_ok. induction ctx as [|[v s] r IH]; simpl; [reflexivity|]. rewrite IH. reflexivity.
Qed.

(* numerator = P(S = s, ctx) *)
Lemma numc_prob j ctx S s : length S = length s ->
  numc j ctx S s = prob j (S ++ map fst ctx) (s ++ map snd ctx).
Proof.
  intros Hl. unfold numc, prob, marg. induction (jrows j) as [|r rows IH]; simpl; [reflexivity|].
  rewrite map_app, list_eqb_app by (rewrite map_length; exact Hl). rewrite ctx_ok_list_eqb.
  destruct (ctx_ok j ctx (fst r)); simpl.
  - rewrite IH. rewrite andb_true_r. reflexivity.
  - rewrite IH. rewrite andb_false_r. reflexivity.
Qed.

Lemma pctx_prob j ctx : pctx j ctx = prob j (map fst ctx) (map snd ctx).
Proof. apply (numc_prob j ctx [] []). reflexivity. Qed.

Lemma fold_div (f : list nat -> bool) (pz : Qc) (rows : list (list nat * Qc)) : pz <> 0 ->
  fold_right (fun r acc => if f (fst r) then snd r + acc else acc) 0 (map (fun r => (fst r, snd r / pz)) rows)
  = fold_right (fun r acc => if f (fst r) then snd r + acc else acc) 0 rows / pz.
Proof.
  intros Hp. induction rows as [|r rows IH].
  - simpl. field. exact Hp.
  - cbn [map fold_right fst snd]. rewrite IH. destruct (f (fst r)); [|reflexivity]. field. exact Hp.
Qed.

(* marginal of the conditional table = numerator / P(ctx) *)
Lemma marg_conditional j ctx S s : pctx j ctx <> 0 ->
  marg {| jvars := jvars j; jcards := jcards j;
          jrows := map (fun r => (fst r, snd r / pctx j ctx))
                       (filter (fun r => ctx_ok j ctx (fst r)) (jrows j)) |} S s
  = numc j ctx S s / pctx j ctx.
Proof.
  intros Hp.
  exact (fold_div (fun a => list_eqb (map (state_of j a) S) s) (pctx j ctx)
                  (filter (fun r => ctx_ok j ctx (fst r)) (jrows j)) Hp).
Qed.

Lemma cross_mult (nxy nx ny pz : Qc) : pz <> 0 ->
  (nxy / pz = (nx / pz) * (ny / pz) <-> nxy * pz = nx * ny).
Proof.
  intros Hp. split; intros H.
  - replace (nxy * pz) with ((nxy / pz) * pz * pz) by (field; exact Hp). rewrite H. field. exact Hp.
  - replace ((nx / pz) * (ny / pz)) with ((nx * ny) / (pz * pz)) by (field; exact Hp).
    rewrite <- H. field. exact Hp.
Qed.

Theorem check_ctx_iff : forall j x y ctx b, ctx <> [] -> check_ctx Qc_eqb j [x] [y] ctx = Some b ->
  pctx j ctx <> 0 /\ (b = true <-> indep_ctx j x y ctx).
Proof.
  intros j x y ctx b Hc H. unfold check_ctx in H. destruct ctx as [|c0 ctx']; [congruence|].
  remember (c0 :: ctx') as ctx eqn:Ectx. clear Ectx Hc.
  rewrite conditional_unfold in H. destruct (Qc_eq_dec (pctx j ctx) 0) as [E|E]; [discriminate|].
  split; [exact E|]. injection H as <-.
  rewrite check_marg_iff. unfold indep0, indep_ctx. cbv zeta. split.
  - intros H sx sy Hx Hy. specialize (H x y (or_introl eq_refl) (or_introl eq_refl) sx sy Hx Hy).
    unfold prob in H. rewrite !marg_conditional in H by exact E.
    apply (proj1 (cross_mult (numc j ctx [x; y] [sx; sy]) (numc j ctx [x] [sx]) (numc j ctx [y] [sy]) _ E)) in H.
    rewrite (numc_prob j ctx [x; y] [sx; sy] eq_refl) in H.
    rewrite (numc_prob j ctx [x] [sx] eq_refl), (numc_prob j ctx [y] [sy] eq_refl) in H.
    rewrite pctx_prob in H. exact H.
  - intros H x' y' [<-|[]] [<-|[]] sx sy Hx Hy. specialize (H sx sy Hx Hy).
    unfold prob at 1 2 3. rewrite !marg_conditional by exact E.
    apply (proj2 (cross_mult (numc j ctx [x; y] [sx; sy]) (numc j ctx [x] [sx]) (numc j ctx [y] [sy]) _ E)).
    rewrite (numc_prob j ctx [x; y] [sx; sy] eq_refl).
    rewrite (numc_prob j ctx [x] [sx] eq_refl), (numc_prob j ctx [y] [sy] eq_refl).
    rewrite pctx_prob. exact H.
Qed.
