(* C18, Verma-Pearl theorem, part (A):  DAGs with the same d-separation statements have the same skeleton
   and the same v-structures; and Chickering's find-edge lemma (two Markov-equivalent DAGs that differ
   have a covered edge of the first that the second reverses). *)
From Coq Require Import List Bool Arith PeanoNat Lia.
From PV Require Import Base.Graph Base.Markov C08.Model C08.Spec C08.ProofsTrail C08.Props C18.VPDefs.
Import ListNotations.

(* ------------------------------------------------------------------ basic facts *)
Lemma vpa_edge_dec g u v : {In (u, v) (edges g)} + {~ In (u, v) (edges g)}.
Proof.
  destruct (has_edge g u v) eqn:E.
  - left. apply has_edge_In. exact E.
  - right. intros H. apply has_edge_In in H. congruence.
Qed.

Lemma vpa_adj_dec g u v : {adj g u v} + {~ adj g u v}.
Proof.
  unfold adj. destruct (vpa_edge_dec g u v); [left; tauto|].
  destruct (vpa_edge_dec g v u); [left; tauto|right; tauto].
Qed.

Lemma vpa_adjacent_false g u v : ~ adj g u v -> adjacent g u v = false.
Proof.
  intros H. unfold adjacent. apply orb_false_iff. split.
  - destruct (has_edge g u v) eqn:E; [|reflexivity]. apply has_edge_In in E. exfalso. apply H. left. exact E.
  - destruct (has_edge g v u) eqn:E; [|reflexivity]. apply has_edge_In in E. exfalso. apply H. right. exact E.
Qed.

Lemma vpa_adj_neq g u v : acyclic g -> adj g u v -> u <> v.
Proof. intros Ha [H|H] E; subst; exact (acyclic_no_self g v Ha H). Qed.

Lemma vpa_adj_nodes g u v : wf_graph g -> adj g u v -> In u (nodes g) /\ In v (nodes g).
Proof. intros [_ Hw] [H|H]; apply Hw in H; tauto. Qed.

(* H1: adjacent nodes are d-connected given anything *)
Lemma vpa_adj_dconnected g Z x y : adj g x y -> dconnected g Z x y.
Proof.
  intros H. exists [x; y]. simpl. repeat split; try exact H; exact I.
Qed.

(* H2: distinct non-adjacent nodes of a DAG have a separator *)
Lemma vpa_nonadj_separator g x y :
  dag g -> In x (nodes g) -> In y (nodes g) -> x <> y -> ~ adj g x y ->
  exists S, ~ In x S /\ ~ In y S /\ ~ dconnected g S x y.
Proof.
  intros [Hw Ha] Hx Hy Hne Hna.
  destruct (C08_minsep_exists_no_latents g x y (fun _ => []) [] Hw Ha Hx Hy Hne (vpa_adjacent_false g x y Hna))
    as [s Hs].
  destruct (C08_minsep_post g [] x y (fun _ => []) [] s Hw Ha Hx Hs) as [_ [H1 [H2 [H3 _]]]].
  exists s. tauto.
Qed.

Lemma vpa_same_nodes_sym g h : same_nodes g h -> same_nodes h g.
Proof. intros H n. symmetry. apply H. Qed.

Lemma vpa_same_dsep_sym g h : same_nodes g h -> same_dsep g h -> same_dsep h g.
Proof.
  intros Hn Hd Z x y Hx Hy Hne HxZ HyZ. symmetry. apply Hd; try assumption; apply Hn; assumption.
Qed.

(* skeleton, one direction *)
Lemma vpa_skeleton_dir g h :
  dag g -> dag h -> same_nodes g h -> same_dsep g h -> forall u v, adj g u v -> adj h u v.
Proof.
  intros Hg Hh Hn Hd u v Hadj.
  destruct (vpa_adj_dec h u v) as [Hy|Hnadj]; [exact Hy|exfalso].
  destruct Hg as [Hwg Hag].
  destruct (vpa_adj_nodes g u v Hwg Hadj) as [Hu Hv].
  pose proof (vpa_adj_neq g u v Hag Hadj) as Hne.
  destruct (vpa_nonadj_separator h u v Hh (proj1 (Hn u) Hu) (proj1 (Hn v) Hv) Hne Hnadj) as [S [HuS [HvS Hnc]]].
  apply Hnc. apply (Hd S u v Hu Hv Hne HuS HvS). apply vpa_adj_dconnected. exact Hadj.
Qed.

(* v-structures, one direction (given the skeletons agree) *)
Lemma vpa_vs_dir g h :
  dag g -> dag h -> same_nodes g h -> same_dsep g h ->
  (forall u v, adj g u v <-> adj h u v) ->
  forall a b c, vs g a b c -> vs h a b c.
Proof.
  intros Hg Hh Hn Hd Hsk a b c [Hac [Hbc [Hab Hnab]]].
  assert (Hnab' : ~ adj h a b) by (intros H; apply Hnab, Hsk; exact H).
  assert (Hadjac : adj h a c) by (apply Hsk; left; exact Hac).
  assert (Hadjbc : adj h b c) by (apply Hsk; left; exact Hbc).
  destruct Hg as [Hwg Hag].
  destruct (proj2 Hwg _ _ Hac) as [Ha _]. destruct (proj2 Hwg _ _ Hbc) as [Hb _].
  destruct (vpa_nonadj_separator h a b Hh (proj1 (Hn a) Ha) (proj1 (Hn b) Hb) Hab Hnab') as [S [HaS [HbS Hnc]]].
  assert (HcS : ~ In c S).
  { intros HcS. apply Hnc. apply (Hd S a b Ha Hb Hab HaS HbS).
    exact (C08_common_child_dconnected g S a b c Hac Hbc HcS). }
  destruct (vpa_edge_dec h a c) as [Hac'|Hnac]; [destruct (vpa_edge_dec h b c) as [Hbc'|Hnbc]|].
  - unfold vs. tauto.
  - exfalso. apply Hnc. exists [a; c; b]. simpl. repeat split; try exact I.
    + exact Hadjac.
    + apply adj_sym. exact Hadjbc.
    + intros [_ H]. contradiction.
    + intros _. exact HcS.
  - exfalso. apply Hnc. exists [a; c; b]. simpl. repeat split; try exact I.
    + exact Hadjac.
    + apply adj_sym. exact Hadjbc.
    + intros [H _]. contradiction.
    + intros _. exact HcS.
Qed.

(* (A) of Verma-Pearl: DAGs with the same d-separation statements have the same skeleton and v-structures *)
Theorem same_dsep_meq : forall g h, dag g -> dag h -> same_nodes g h -> same_dsep g h -> meq g h.
Proof.
  intros g h Hg Hh Hn Hd.
  pose proof (vpa_same_nodes_sym g h Hn) as Hn'.
  pose proof (vpa_same_dsep_sym g h Hn Hd) as Hd'.
  assert (Hsk : forall u v, adj g u v <-> adj h u v).
  { intros u v. split; [apply (vpa_skeleton_dir g h)|apply (vpa_skeleton_dir h g)]; assumption. }
  split; [exact Hsk|].
  intros a b c. split.
  - apply (vpa_vs_dir g h); assumption.
  - apply (vpa_vs_dir h g); try assumption. intros u v. symmetry. apply Hsk.
Qed.

(* ------------------------------------------------------------------ Chickering's find-edge lemma *)
Lemma vpa_argmax (A : Type) (f : A -> nat) (l : list A) :
  l <> [] -> exists m, In m l /\ forall e, In e l -> f e <= f m.
Proof.
  induction l as [|a l IH]; intros Hne; [congruence|].
  destruct l as [|b l].
  - exists a. split; [left; reflexivity|]. intros e [<-|[]]. lia.
  - destruct IH as [m [Hm Hmax]]; [discriminate|].
    destruct (le_lt_dec (f a) (f m)) as [Hle|Hlt].
    + exists m. split; [right; exact Hm|]. intros e [<-|He]; [exact Hle|apply Hmax; exact He].
    + exists a. split; [left; reflexivity|]. intros e [<-|He]; [lia|]. specialize (Hmax e He). lia.
Qed.

Lemma vpa_argmin (A : Type) (f : A -> nat) (l : list A) :
  l <> [] -> exists m, In m l /\ forall e, In e l -> f m <= f e.
Proof.
  induction l as [|a l IH]; intros Hne; [congruence|].
  destruct l as [|b l].
  - exists a. split; [left; reflexivity|]. intros e [<-|[]]. lia.
  - destruct IH as [m [Hm Hmin]]; [discriminate|].
    destruct (le_lt_dec (f m) (f a)) as [Hle|Hlt].
    + exists m. split; [right; exact Hm|]. intros e [<-|He]; [exact Hle|apply Hmin; exact He].
    + exists a. split; [left; reflexivity|]. intros e [<-|He]; [lia|]. specialize (Hmin e He). lia.
Qed.

(* Chickering's find-edge lemma: two equivalent DAGs that differ have a COVERED edge of g that h reverses *)
Theorem find_covered : forall g h, dag g -> dag h -> same_nodes g h -> meq g h ->
  (exists e, In e (edges g) /\ ~ In e (edges h)) ->
  exists x y, In (x, y) (edges g) /\ ~ In (x, y) (edges h) /\ covered g x y.
Proof.
  intros g h [Hwg Hag] [Hwh Hah] Hn [Hsk Hvs] [e0 [He0 Hne0]].
  set (D := filter (fun e => negb (has_edge h (fst e) (snd e))) (edges g)).
  assert (HD : forall u v, In (u, v) D <-> In (u, v) (edges g) /\ ~ In (u, v) (edges h)).
  { intros u v. unfold D. rewrite filter_In. simpl. rewrite negb_true_iff. split; intros [H1 H2]; split; try exact H1.
    - intros H. apply has_edge_In in H. congruence.
    - destruct (has_edge h u v) eqn:E; [|reflexivity]. apply has_edge_In in E. contradiction. }
  assert (HDne : D <> []).
  { destruct e0 as [u0 v0]. intros E. assert (H : In (u0, v0) D) by (apply HD; tauto). rewrite E in H. destruct H. }
  destruct (vpa_argmax _ (fun e => hdesc g (snd e)) D HDne) as [[x0 Y] [Hx0 Hmax]]. simpl in Hmax.
  set (DY := filter (fun e => Nat.eqb (snd e) Y) D).
  assert (HDY : forall u v, In (u, v) DY <-> In (u, v) D /\ v = Y).
  { intros u v. unfold DY. rewrite filter_In. simpl. rewrite Nat.eqb_eq. tauto. }
  assert (HDYne : DY <> []).
  { intros E. assert (H : In (x0, Y) DY) by (apply HDY; tauto). rewrite E in H. destruct H. }
  destruct (vpa_argmin _ (fun e => hdesc g (fst e)) DY HDYne) as [[X Y'] [HX Hmin]]. simpl in Hmin.
  apply HDY in HX. destruct HX as [HX ->]. apply HD in HX. destruct HX as [HXY HnXY].
  assert (Max : forall u v, In (u, v) (edges g) -> ~ In (u, v) (edges h) -> hdesc g v <= hdesc g Y).
  { intros u v H1 H2. apply (Hmax (u, v)). apply HD. tauto. }
  assert (Min : forall u, In (u, Y) (edges g) -> ~ In (u, Y) (edges h) -> hdesc g X <= hdesc g u).
  { intros u H1 H2. apply (Hmin (u, Y)). apply HDY. split; [apply HD; tauto|reflexivity]. }
  assert (Rk : forall u v, In (u, v) (edges g) -> hdesc g v < hdesc g u).
  { intros u v H. apply hdesc_lt'; assumption. }
  assert (HYX : In (Y, X) (edges h)).
  { assert (H : adj h X Y) by (apply Hsk; left; exact HXY). destruct H as [H|H]; [contradiction|exact H]. }
  clear Hmax Hmin Hx0 HDYne HDne HD HDY DY D x0 He0 Hne0 e0.
  exists X, Y. split; [exact HXY|]. split; [exact HnXY|]. split; [exact HXY|]. split.
  - (* parents of X are parents of Y *)
    intros Z HZX. destruct (vpa_edge_dec g Z Y) as [HZY|HnZY]; [exact HZY|exfalso].
    destruct (vpa_edge_dec g Y Z) as [HYZ|HnYZ].
    { apply (Hag Z X HZX). eapply dpath_step_l; [exact HXY|]. eapply dpath_step; [apply dpath_refl|exact HYZ]. }
    assert (HnadjG : ~ adj g Z Y) by (unfold adj; tauto).
    destruct (vpa_edge_dec h Z X) as [HZXh|HnZXh].
    + assert (HZneY : Z <> Y).
      { intros ->. exact (acyclic_no_2cycle g _ _ Hag HXY HZX). }
      assert (V : vs h Z Y X).
      { unfold vs. repeat split; try assumption. intros H. apply HnadjG, Hsk. exact H. }
      apply Hvs in V. destruct V as [_ [HYXg _]]. exact (acyclic_no_2cycle g _ _ Hag HXY HYXg).
    + pose proof (Max Z X HZX HnZXh). pose proof (Rk X Y HXY). lia.
  - (* the other parents of Y are parents of X *)
    intros Z HZY HZneX. destruct (vpa_edge_dec g Z X) as [HZX|HnZX]; [exact HZX|exfalso].
    destruct (vpa_edge_dec g X Z) as [HXZ|HnXZ].
    + pose proof (Rk X Z HXZ). pose proof (Rk Z Y HZY).
      destruct (vpa_edge_dec h Z Y) as [HZYh|HnZYh]; [|pose proof (Min Z HZY HnZYh); lia].
      destruct (vpa_edge_dec h X Z) as [HXZh|HnXZh]; [|pose proof (Max X Z HXZ HnXZh); lia].
      apply (Hah Y X HYX). eapply dpath_step_l; [exact HXZh|]. eapply dpath_step; [apply dpath_refl|exact HZYh].
    + assert (V : vs g X Z Y).
      { unfold vs. repeat split; try assumption; [congruence|]. unfold adj. tauto. }
      apply Hvs in V. destruct V as [HXYh _]. contradiction.
Qed.
