(* C18, Verma-Pearl / Chickering: reversing a covered edge of a DAG gives a Markov-equivalent DAG in which
   the reversed edge is again covered; [meq] is an equivalence relation. *)
From Coq Require Import List Bool Arith PeanoNat Lia.
From PV Require Import Base.Graph C08.Spec C08.ProofsTrail C18.VPDefs.
Import ListNotations.

(* ---- meq is an equivalence relation -------------------------------------------------- *)
Lemma meq_refl : forall g, meq g g.
Proof. intros g. split; intros; reflexivity. Qed.
Lemma meq_sym : forall g h, meq g h -> meq h g.
Proof. intros g h [H1 H2]. split; intros; symmetry; [apply H1|apply H2]. Qed.
Lemma meq_trans : forall g h k, meq g h -> meq h k -> meq g k.
Proof.
  intros g h k [H1 H2] [K1 K2]. split; intros.
  - rewrite H1. apply K1.
  - rewrite H2. apply K2.
Qed.

(* ---- g without the edge x -> y -------------------------------------------------------- *)
Definition cut_edge (g : digraph) (x y : node) : digraph :=
  {| nodes := nodes g; edges := filter (fun e => negb (edge_eqb e (x, y))) (edges g) |}.

Lemma cut_edge_In g x y u v :
  In (u, v) (edges (cut_edge g x y)) <-> In (u, v) (edges g) /\ (u, v) <> (x, y).
Proof.
  unfold cut_edge. simpl. rewrite filter_In, negb_true_iff. split.
  - intros [H1 H2]. split; [exact H1|]. intros E. rewrite E in H2.
    assert (T : edge_eqb (x, y) (x, y) = true) by (apply edge_eqb_eq; reflexivity).
    rewrite T in H2. discriminate.
  - intros [H1 H2]. split; [exact H1|].
    destruct (edge_eqb (u, v) (x, y)) eqn:E; [|reflexivity]. apply edge_eqb_eq in E. contradiction.
Qed.

Lemma rev_In_cut g x y u v :
  In (u, v) (edges (rev_edge g x y)) <-> (u, v) = (y, x) \/ In (u, v) (edges (cut_edge g x y)).
Proof. rewrite rev_edge_In, cut_edge_In. tauto. Qed.

Lemma cut_dpath g x y a b : dpath (cut_edge g x y) a b -> dpath g a b.
Proof.
  intros H. induction H as [u|u v w _ IH He]; [apply dpath_refl|].
  eapply dpath_step; [exact IH|]. apply cut_edge_In in He. tauto.
Qed.

Lemma covered_neq g x y : acyclic g -> covered g x y -> x <> y.
Proof. intros Ha [He _] E. subst. exact (acyclic_no_self g y Ha He). Qed.

(* a path of the reversed graph uses the new edge y -> x at most "once" *)
Lemma rev_dpath_split g x y a b :
  dpath (rev_edge g x y) a b ->
  dpath (cut_edge g x y) a b \/ (dpath (cut_edge g x y) a y /\ dpath (cut_edge g x y) x b).
Proof.
  intros H. induction H as [u|u v w _ IH He].
  - left. apply dpath_refl.
  - apply rev_In_cut in He. destruct He as [E|He].
    + inversion E; subst. right. split; [|apply dpath_refl]. destruct IH as [IH|[IH _]]; exact IH.
    + destruct IH as [IH|[IH1 IH2]].
      * left. eapply dpath_step; [exact IH|exact He].
      * right. split; [exact IH1|]. eapply dpath_step; [exact IH2|exact He].
Qed.

(* without the edge x -> y there is no other directed path from x to y *)
Lemma cut_no_xy g x y : acyclic g -> covered g x y -> ~ dpath (cut_edge g x y) x y.
Proof.
  intros Ha Hc Hp. pose proof (covered_neq g x y Ha Hc) as Hn.
  destruct Hc as [_ [_ Hc]].
  inversion Hp as [u E1 E2|u p w Hp' He E1 E2].
  - subst. apply Hn. reflexivity.
  - subst. apply cut_edge_In in He. destruct He as [He Hne].
    assert (Hpx : p <> x) by (intros E; subst; apply Hne; reflexivity).
    apply (Ha p x (Hc p He Hpx)). apply (cut_dpath g x y). exact Hp'.
Qed.

(* ---- the reversed graph is a DAG ------------------------------------------------------ *)
Theorem rev_covered_dag : forall g x y, dag g -> covered g x y -> dag (rev_edge g x y).
Proof.
  intros g x y [[Hnd Hw] Ha] Hc. pose proof Hc as [Hxy _]. split.
  - split; [exact Hnd|]. intros u v He. rewrite rev_edge_nodes. apply rev_edge_In in He.
    destruct He as [E|[He _]].
    + inversion E; subst. destruct (Hw _ _ Hxy). tauto.
    + apply Hw. exact He.
  - intros u v He Hp. pose proof (cut_no_xy g x y Ha Hc) as Hno.
    apply rev_dpath_split in Hp. apply rev_In_cut in He. destruct He as [E|He].
    + inversion E; subst. destruct Hp as [Hp|[Hp _]]; exact (Hno Hp).
    + destruct Hp as [Hp|[Hp1 Hp2]].
      * pose proof (proj1 (cut_edge_In g x y u v) He) as [He' _].
        exact (Ha u v He' (cut_dpath g x y _ _ Hp)).
      * apply Hno. eapply dpath_trans; [|exact Hp1]. eapply dpath_step; [exact Hp2|exact He].
Qed.

(* ---- same skeleton, same v-structures ------------------------------------------------- *)
Lemma rev_adj g x y u v : In (x, y) (edges g) -> (adj g u v <-> adj (rev_edge g x y) u v).
Proof.
  intros Hxy. unfold adj. rewrite !rev_edge_In. split.
  - intros [H|H].
    + destruct (edge_eqb (u, v) (x, y)) eqn:E.
      * apply edge_eqb_eq in E. inversion E; subst. right. left. reflexivity.
      * left. right. split; [exact H|]. intros E'. apply edge_eqb_eq in E'. congruence.
    + destruct (edge_eqb (v, u) (x, y)) eqn:E.
      * apply edge_eqb_eq in E. inversion E; subst. left. left. reflexivity.
      * right. right. split; [exact H|]. intros E'. apply edge_eqb_eq in E'. congruence.
  - intros [[E|[H _]]|[E|[H _]]].
    + inversion E; subst. right. exact Hxy.
    + left. exact H.
    + inversion E; subst. left. exact Hxy.
    + right. exact H.
Qed.

Theorem rev_covered_meq : forall g x y, dag g -> covered g x y -> meq g (rev_edge g x y).
Proof.
  intros g x y [_ Ha] Hc. pose proof (covered_neq g x y Ha Hc) as Hn.
  destruct Hc as [Hxy [Hc1 Hc2]]. split.
  - intros u v. apply rev_adj. exact Hxy.
  - intros a b c. unfold vs. rewrite <- (rev_adj g x y a b Hxy), !rev_edge_In. split.
    + intros [H1 [H2 [Hab Hna]]]. split; [|split; [|split; [exact Hab|exact Hna]]].
      * right. split; [exact H1|]. intros E. inversion E; subst.
        apply Hna. right. apply Hc2; [exact H2|]. intros E'. apply Hab. symmetry. exact E'.
      * right. split; [exact H2|]. intros E. inversion E; subst.
        apply Hna. left. apply Hc2; [exact H1|]. exact Hab.
    + intros [H1 [H2 [Hab Hna]]].
      assert (G : forall p q, (p, c) = (y, x) -> In (q, c) (edges g) /\ (q, c) <> (x, y) -> adj g q p).
      { intros p q E [Hq _]. inversion E; subst. left. apply Hc1. exact Hq. }
      destruct H1 as [E1|[H1 N1]]; destruct H2 as [E2|[H2 N2]].
      * exfalso. apply Hab. congruence.
      * exfalso. apply Hna. apply adj_sym. apply (G a b E1). split; assumption.
      * exfalso. apply Hna. apply (G b a E2). split; assumption.
      * tauto.
Qed.

(* ---- the reversed edge is covered in the new graph ------------------------------------ *)
Theorem rev_covered_covered : forall g x y, dag g -> covered g x y -> covered (rev_edge g x y) y x.
Proof.
  intros g x y [_ Ha] Hc. pose proof (covered_neq g x y Ha Hc) as Hn.
  destruct Hc as [Hxy [Hc1 Hc2]]. split; [|split].
  - apply rev_edge_In. left. reflexivity.
  - intros p Hp. apply rev_edge_In in Hp. apply rev_edge_In. destruct Hp as [E|[Hp Hne]].
    + inversion E; subst. exfalso. apply Hn. reflexivity.
    + right. assert (Hpx : p <> x) by (intros E; subst; apply Hne; reflexivity).
      split; [apply Hc2; assumption|]. intros E. inversion E; subst. apply Hn. reflexivity.
  - intros p Hp Hpy. apply rev_edge_In in Hp. apply rev_edge_In. destruct Hp as [E|[Hp _]].
    + inversion E; subst. exfalso. apply Hpy. reflexivity.
    + right. split; [apply Hc1; exact Hp|]. intros E. inversion E; subst.
      exact (acyclic_no_self g x Ha Hp).
Qed.
