(* C18 specification: what the property text refers to.  No algorithm here.
   - semi-graphoid derivability (Pearl 1988; Koller & Friedman 2.1.4.3) over triples of variable sets
   - Markov equivalence characterisation (Verma & Pearl): same skeleton and same v-structures
   - (conditional) independence in a joint table, as cross-multiplied sums (no division) *)
From Coq Require Import List Bool Arith PeanoNat ZArith QArith Qcanon.
From PV Require Import Base.Graph C18.Model.
Import ListNotations.
Local Open Scope nat_scope.

(* ------------------------------------------------------------------ sets, assertions *)
Definition seteq (a b : vset) : Prop := forall v, In v a <-> In v b.
Definition disjoint (a b : vset) : Prop := forall v, In v a -> ~ In v b.
Definition nonempty (a : vset) : Prop := exists v, In v a.

(* equality of assertions as triples of sets (no symmetry here) *)
Definition aext (a b : assertion) : Prop :=
  seteq (ev1 a) (ev1 b) /\ seteq (ev2 a) (ev2 b) /\ seteq (ev3 a) (ev3 b).
(* equality up to symmetry: what IndependenceAssertion.__eq__ should decide *)
Definition aeq (a b : assertion) : Prop := aext a b \/ aext (sg0 a) b.

(* semi-graphoid derivability from a set A of assertions.  (X, Y, Z) reads  X _|_ Y | Z.
   Sets are lists read up to membership (d_ext); the textbook side conditions (the parts of a
   union are disjoint, nothing is emptied) are explicit. *)
Inductive derivable (A : list assertion) : assertion -> Prop :=
| d_in a : In a A -> derivable A a
| d_ext a b : derivable A a -> aext a b -> derivable A b
| d_sym x y z : derivable A (x, y, z) -> derivable A (y, x, z)
| d_decomp x y w z :
    derivable A (x, y ++ w, z) -> nonempty y -> derivable A (x, y, z)
| d_wunion x y w z :
    derivable A (x, y ++ w, z) -> nonempty y -> disjoint y w -> derivable A (x, y, w ++ z)
| d_contr x y w z :
    derivable A (x, w, y ++ z) -> derivable A (x, y, z) -> disjoint y z -> derivable A (x, w ++ y, z).

(* assertions pgmpy's constructor accepts (apart from the all-empty one): both sides non-empty *)
Definition wf_assertion (a : assertion) : Prop := nonempty (ev1 a) /\ nonempty (ev2 a).

(* ------------------------------------------------------------------ Markov equivalence *)
Definition adj (g : digraph) (u v : node) : Prop := In (u, v) (edges g) \/ In (v, u) (edges g).
Definition same_skeleton (g h : digraph) : Prop := forall u v, adj g u v <-> adj h u v.
(* v-structure (immorality, unshielded collider)  a -> c <- b  with a, b distinct and non-adjacent *)
Definition vstructure (g : digraph) (a b c : node) : Prop :=
  In (a, c) (edges g) /\ In (b, c) (edges g) /\ a <> b /\ ~ adj g a b.
Definition same_vstructures (g h : digraph) : Prop :=
  forall a b c, vstructure g a b c <-> vstructure h a b c.
Definition markov_equivalent (g h : digraph) : Prop := same_skeleton g h /\ same_vstructures g h.

(* ------------------------------------------------------------------ independence in a joint table *)
Local Open Scope Qc_scope.
(* P(S = s): the sum of the cells whose assignment agrees with s on S *)
Definition prob (j : jpd) (S s : list nat) : Qc := marg j S s.
(* in-range state vectors of a list of variables *)
Definition in_range (j : jpd) (S s : list nat) : Prop := Forall2 (fun v x => (x < card_of j v)%nat) S s.

(* X _|_ Y | Z for single variables:  P(x,y,z) P(z) = P(x,z) P(y,z)  for all states *)
Definition indep (j : jpd) (x y : nat) (Z : list nat) : Prop :=
  forall z sx sy, in_range j Z z -> (sx < card_of j x)%nat -> (sy < card_of j y)%nat ->
    prob j (Z ++ [x; y]) (z ++ [sx; sy]) * prob j Z z
    = prob j (Z ++ [x]) (z ++ [sx]) * prob j (Z ++ [y]) (z ++ [sy]).
(* marginal independence P(x,y) = P(x) P(y) *)
Definition indep0 (j : jpd) (x y : nat) : Prop :=
  forall sx sy, (sx < card_of j x)%nat -> (sy < card_of j y)%nat ->
    prob j [x; y] [sx; sy] = prob j [x] [sx] * prob j [y] [sy].
(* independence in the context Z = z (a list of (variable, state)): cross-multiplied
   P(x,y,ctx) P(ctx) = P(x,ctx) P(y,ctx) *)
Definition indep_ctx (j : jpd) (x y : nat) (ctx : list (nat * nat)) : Prop :=
  let Z := map fst ctx in let z := map snd ctx in
  forall sx sy, (sx < card_of j x)%nat -> (sy < card_of j y)%nat ->
    prob j ([x; y] ++ Z) ([sx; sy] ++ z) * prob j Z z
    = prob j (x :: Z) (sx :: z) * prob j (y :: Z) (sy :: z).
