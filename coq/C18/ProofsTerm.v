(* C18: the closure loop terminates within cl_fuel A = S (8 ^ |vars A|) rounds, for any side condition.
   Every round with a non-empty `new` adds to `all` at least one new class (up to aeq) of triples of
   subsets of the variables of A; there are at most 8^n canonical triples. *)
From Coq Require Import List Bool Arith PeanoNat Lia.
From PV Require Import Base.Graph C18.Model C18.Spec C18.ProofsSets C18.ProofsComplete.
Import ListNotations.
Local Open Scope nat_scope.

(* ------------------------------------------------------------------ counting with filter *)
Lemma filter_len_le_all {A} (f : A -> bool) l : length (filter f l) <= length l.
Proof. induction l as [|a l IH]; simpl; [lia|]. destruct (f a); simpl; lia. Qed.

Lemma filter_len_le {A} (f g : A -> bool) l :
  (forall x, In x l -> g x = true -> f x = true) -> length (filter g l) <= length (filter f l).
Proof.
  induction l as [|a l IH]; intros Hm; simpl; [lia|].
  assert (IH' : length (filter g l) <= length (filter f l)).
  { apply IH. intros x Hx. apply Hm. right. exact Hx. }
  destruct (g a) eqn:Eg.
  - rewrite (Hm a (or_introl eq_refl) Eg). simpl. lia.
  - destruct (f a); simpl; lia.
Qed.

Lemma filter_len_lt {A} (f g : A -> bool) l x0 :
  (forall x, In x l -> g x = true -> f x = true) -> In x0 l -> f x0 = true -> g x0 = false ->
  length (filter g l) < length (filter f l).
Proof.
  induction l as [|a l IH]; intros Hm Hin Hf Hg; [destruct Hin|].
  assert (Hm' : forall x, In x l -> g x = true -> f x = true).
  { intros x Hx. apply Hm. right. exact Hx. }
  simpl. destruct Hin as [->|Hin].
  - rewrite Hf, Hg. simpl. pose proof (filter_len_le f g l Hm'). lia.
  - specialize (IH Hm' Hin Hf Hg). destruct (g a) eqn:Eg.
    + rewrite (Hm a (or_introl eq_refl) Eg). simpl. lia.
    + destruct (f a); simpl; lia.
Qed.

(* ------------------------------------------------------------------ the powerset *)
Lemma sublists_length l : length (sublists l) = 2 ^ length l.
Proof.
  induction l as [|x r IH]; [reflexivity|]. cbn [sublists length].
  rewrite app_length, map_length, IH, Nat.pow_succ_r'. lia.
Qed.
Lemma sublists_filter f l : In (filter f l) (sublists l).
Proof.
  induction l as [|x r IH]; [left; reflexivity|]. cbn [sublists filter].
  apply in_or_app. destruct (f x).
  - right. apply in_map. exact IH.
  - left. exact IH.
Qed.

(* ------------------------------------------------------------------ assertions over a variable list *)
Definition within (V : vset) (a : assertion) : Prop :=
  incl (ev1 a) V /\ incl (ev2 a) V /\ incl (ev3 a) V.

Lemma within_sg0 V a : within V a -> within V (sg0 a).
Proof.
  destruct a as [[x y] z]. unfold within, sg0, ev1, ev2, ev3; simpl. tauto.
Qed.
Lemma within_sg1_raw V a b : within V a -> In b (sg1_raw a) -> within V b.
Proof.
  destruct a as [[x y] z]. unfold within, sg1_raw, ev1, ev2, ev3; simpl. intros (H1 & H2 & H3).
  destruct (single_var y); [intros []|]. intros Hb. apply in_map_iff in Hb. destruct Hb as [e [<- He]].
  simpl. split; [exact H1|split; [|exact H3]]. intros v Hv. apply remove1_In in Hv. apply H2, Hv.
Qed.
Lemma within_sg2_raw V a b : within V a -> In b (sg2_raw a) -> within V b.
Proof.
  destruct a as [[x y] z]. unfold within, sg2_raw, ev1, ev2, ev3; simpl. intros (H1 & H2 & H3).
  destruct (single_var y); [intros []|]. intros Hb. apply in_map_iff in Hb. destruct Hb as [e [<- He]].
  simpl. split; [exact H1|split].
  - intros v Hv. apply remove1_In in Hv. apply H2, Hv.
  - intros v Hv. apply add1_In in Hv. destruct Hv as [->|Hv]; [apply H2, He|apply H3, Hv].
Qed.
Lemma within_sg3_raw cond V a b c : within V a -> within V b -> In c (sg3_raw cond a b) -> within V c.
Proof.
  destruct a as [[x y] z], b as [[x' y'] z']. unfold within, sg3_raw, ev1, ev2, ev3; simpl.
  intros (H1 & H2 & H3) (G1 & G2 & G3). destruct (negb (seteqb x x')); [intros []|].
  destruct (cond y' z' z); [|intros []]. intros [<-|[]]. simpl.
  split; [exact H1|split; [|exact G3]]. intros v Hv. apply union_In in Hv. destruct Hv; auto.
Qed.
Lemma within_sg1 V a b : within V a -> In b (sg1 a) -> within V b.
Proof.
  intros H Hb. unfold sg1, lr1 in Hb. apply in_app_or in Hb. destruct Hb as [Hb|Hb].
  - eapply within_sg1_raw; eassumption.
  - eapply within_sg1_raw; [apply within_sg0; exact H|exact Hb].
Qed.
Lemma within_sg2 V a b : within V a -> In b (sg2 a) -> within V b.
Proof.
  intros H Hb. unfold sg2, lr1 in Hb. apply in_app_or in Hb. destruct Hb as [Hb|Hb].
  - eapply within_sg2_raw; eassumption.
  - eapply within_sg2_raw; [apply within_sg0; exact H|exact Hb].
Qed.
Lemma within_sg3 cond V a b c : within V a -> within V b -> In c (sg3 cond a b) -> within V c.
Proof.
  intros Ha Hb Hc. unfold sg3, lr2 in Hc. rewrite !in_app_iff in Hc.
  pose proof (within_sg0 V a Ha). pose proof (within_sg0 V b Hb).
  destruct Hc as [Hc|[Hc|[Hc|Hc]]]; eapply within_sg3_raw; try exact Hc; assumption.
Qed.

Lemma distinct_pairs_inv (l : list assertion) a b : In (a, b) (distinct_pairs l) -> In a l /\ In b l.
Proof.
  induction l as [|x r IH]; simpl; [tauto|]. rewrite !in_app_iff, !in_map_iff.
  intros [[y [E Hy]]|[[y [E Hy]]|H]].
  - injection E as <- <-. auto.
  - injection E as <- <-. auto.
  - destruct (IH H). auto.
Qed.

Lemma outs_within cond V all new c :
  (forall a, In a (all ++ new) -> within V a) -> In c (outs cond all new) -> within V c.
Proof.
  intros HW Hc. unfold outs in Hc. rewrite !in_app_iff in Hc.
  assert (Wa : forall a, In a all -> within V a) by (intros a Ha; apply HW, in_or_app; auto).
  assert (Wn : forall a, In a new -> within V a) by (intros a Ha; apply HW, in_or_app; auto).
  destruct Hc as [Hc|[Hc|Hc]]; apply in_flat_map in Hc; destruct Hc as [p [Hp Hc]].
  - eapply within_sg1; [apply Wn; exact Hp|exact Hc].
  - eapply within_sg2; [apply Wn; exact Hp|exact Hc].
  - destruct p as [a b]. simpl in Hc. rewrite !in_app_iff in Hp.
    assert (Hab : within V a /\ within V b).
    { destruct Hp as [Hp|[Hp|Hp]].
      - apply distinct_pairs_inv in Hp. destruct Hp. auto.
      - apply in_prod_iff in Hp. destruct Hp. auto.
      - apply in_prod_iff in Hp. destruct Hp. auto. }
    destruct Hab. eapply within_sg3; [| |exact Hc]; assumption.
Qed.

(* ------------------------------------------------------------------ the measure *)
Section Term.
Variable cond : vset -> vset -> vset -> bool.
Variable V : vset.

Definition univ : list assertion := list_prod (list_prod (sublists V) (sublists V)) (sublists V).
Definition canon (a : assertion) : assertion :=
  (filter (fun v => memn v (ev1 a)) V, filter (fun v => memn v (ev2 a)) V, filter (fun v => memn v (ev3 a)) V).
Definition meas (all : list assertion) : nat := length (filter (fun u => negb (amem u all)) univ).

Lemma univ_length : length univ = 8 ^ length V.
Proof.
  unfold univ.
  etransitivity; [apply prod_length|].
  rewrite prod_length, sublists_length.
  change 8 with (2 * 2 * 2). rewrite !Nat.pow_mul_l. reflexivity.
Qed.
Lemma canon_univ a : In (canon a) univ.
Proof.
  unfold canon, univ. apply in_prod; [apply in_prod|]; apply sublists_filter.
Qed.
Lemma canon_aext a : within V a -> aext a (canon a).
Proof.
  intros (H1 & H2 & H3). unfold canon. split; [|split]; unfold ev1, ev2, ev3; simpl;
    intros v; rewrite filter_In, memn_In; split; try tauto; intros Hv; split; auto.
Qed.

Lemma loop_term fuel : forall all new,
  (forall a, In a (all ++ new) -> within V a) ->
  (forall a, In a new -> amem a all = false) ->
  meas all < fuel -> exists R, cl_loop cond fuel all new = Some R.
Proof.
  induction fuel as [|f IH]; intros all new HW HF Hm; [lia|].
  destruct new as [|n new]; [eexists; reflexivity|].
  cbn [cl_loop]. rewrite cl_step_eq. cbv beta iota.
  assert (Hn : In n (n :: new)) by (left; reflexivity).
  set (nw := n :: new) in *. clearbody nw.
  apply IH.
  - intros a Ha. apply in_app_or in Ha. destruct Ha as [Ha|Ha]; [apply HW; exact Ha|].
    apply adedup_In in Ha. apply adiff_In in Ha. destruct Ha as [Ha _].
    eapply outs_within; eassumption.
  - intros a Ha. apply adedup_In in Ha. apply adiff_In in Ha. apply Ha.
  - assert (Hlt : meas (all ++ nw) < meas all); [|lia].
    assert (Wn : within V n) by (apply HW, in_or_app; right; exact Hn).
    pose proof (canon_aext n Wn) as Hc.
    unfold meas. apply filter_len_lt with (x0 := canon n).
    + intros u _ Hu. apply negb_true_iff in Hu. apply negb_true_iff.
      rewrite amem_app in Hu. apply orb_false_iff in Hu. apply Hu.
    + apply canon_univ.
    + apply negb_true_iff. destruct (amem (canon n) all) eqn:E; [|reflexivity].
      rewrite <- (HF n Hn). symmetry. eapply amem_aeq; [|exact E].
      apply aeq_sym. left. exact Hc.
    + apply negb_false_iff. apply amem_aeq with (a := n); [left; exact Hc|].
      apply amem_In. apply in_or_app. right. exact Hn.
Qed.
End Term.

(* (4) *)
Theorem closure_terminates : forall cond A, exists R, closure_gen cond A = Some R.
Proof.
  intros cond A. unfold closure_gen, cl_fuel. apply loop_term with (V := all_vars A).
  - intros a Ha. simpl in Ha. apply adedup_In in Ha.
    assert (Hv : forall v, In v (avars a) -> In v (all_vars A)).
    { intros v Hv. unfold all_vars. apply dedupn_In. apply in_flat_map. exists a. auto. }
    unfold avars in Hv. split; [|split]; intros v Hin; apply Hv; rewrite !in_app_iff; auto.
  - intros a _. reflexivity.
  - unfold meas. pose proof (filter_len_le_all (fun u => negb (amem u [])) (univ (all_vars A))) as H.
    rewrite univ_length in H. lia.
Qed.

