(* C18 model: pgmpy/independencies/Independencies.py (assertion equality/hash up to symmetry,
   closure / entails / is_equivalent), pgmpy/base/DAG.py (is_iequivalent after fix 7596ac4),
   pgmpy/factors/discrete/JointProbabilityDistribution.py (check_independence, get_independencies,
   minimal_imap) AS CODED.  Executable definitions only, no proofs.

   Sets of variables are lists of nat read up to membership (no canonical form is assumed by any
   definition or theorem; `card` counts distinct members).  Python set iteration order is not
   observable: every result is a set. *)
From Coq Require Import List Bool Arith PeanoNat ZArith QArith Qcanon Qcabs.
From PV Require Import Base.Graph.
Import ListNotations.
Local Open Scope nat_scope.

(* ------------------------------------------------------------------ finite sets of variables *)
Definition vset := list nat.
Definition subsetb (a b : vset) : bool := forallb (fun x => memn x b) a.       (* a <= b *)
Definition seteqb (a b : vset) : bool := subsetb a b && subsetb b a.           (* a == b *)
Definition psubsetb (a b : vset) : bool := subsetb a b && negb (subsetb b a).  (* a <  b *)
Definition disjointb (a b : vset) : bool := forallb (fun x => negb (memn x b)) a.
Definition union (a b : vset) : vset := a ++ filter (fun x => negb (memn x a)) b.
Definition remove1 (x : nat) (l : vset) : vset := filter (fun y => negb (Nat.eqb y x)) l.
Definition add1 (x : nat) (l : vset) : vset := if memn x l then l else x :: l.
Definition diff (a b : vset) : vset := filter (fun x => negb (memn x b)) a.
Fixpoint dedupn (l : vset) : vset :=
  match l with [] => [] | x :: r => if memn x r then dedupn r else x :: dedupn r end.
Definition card (a : vset) : nat := length (dedupn a).                          (* len(frozenset) *)

(* ------------------------------------------------------------------ IndependenceAssertion *)
Definition assertion : Type := vset * vset * vset.       (* (event1, event2, event3) *)
Definition ev1 (a : assertion) : vset := fst (fst a).
Definition ev2 (a : assertion) : vset := snd (fst a).
Definition ev3 (a : assertion) : vset := snd a.

(* __eq__ : (e1,e2,e3) == other  or  (e2,e1,e3) == other *)
Definition aeqb (a b : assertion) : bool :=
  (seteqb (ev1 a) (ev1 b) && seteqb (ev2 a) (ev2 b) && seteqb (ev3 a) (ev3 b))
  || (seteqb (ev2 a) (ev1 b) && seteqb (ev1 a) (ev2 b) && seteqb (ev3 a) (ev3 b)).

(* __hash__ = hash((frozenset((e1, e2)), e3)): a function of this key; two keys are the same
   python value iff the unordered pairs {e1,e2} agree and the e3 agree *)
Definition hkey_eqb (a b : assertion) : bool :=
  ((seteqb (ev1 a) (ev1 b) && seteqb (ev2 a) (ev2 b)) || (seteqb (ev1 a) (ev2 b) && seteqb (ev2 a) (ev1 b)))
  && seteqb (ev3 a) (ev3 b).

(* python set / list membership of assertions (uses __eq__) *)
Definition amem (a : assertion) (l : list assertion) : bool := existsb (aeqb a) l.
Fixpoint adedup (l : list assertion) : list assertion :=
  match l with [] => [] | x :: r => if amem x r then adedup r else x :: adedup r end.
Definition adiff (l m : list assertion) : list assertion := filter (fun a => negb (amem a m)) l.
Definition asubsetb (l m : list assertion) : bool := forallb (fun a => amem a m) l.

(* ------------------------------------------------------------------ closure() *)
Definition single_var (v : vset) : bool := Nat.eqb (card v) 1.
Definition sg0 (a : assertion) : assertion := (ev2 a, ev1 a, ev3 a).

(* apply_left_and_right *)
Definition lr1 (f : assertion -> list assertion) (a : assertion) : list assertion := f a ++ f (sg0 a).
Definition lr2 (f : assertion -> assertion -> list assertion) (a b : assertion) : list assertion :=
  f a b ++ f a (sg0 b) ++ f (sg0 a) b ++ f (sg0 a) (sg0 b).

Definition sg1_raw (a : assertion) : list assertion :=
  if single_var (ev2 a) then []
  else map (fun e => (ev1 a, remove1 e (ev2 a), ev3 a)) (ev2 a).
Definition sg2_raw (a : assertion) : list assertion :=
  if single_var (ev2 a) then []
  else map (fun e => (ev1 a, remove1 e (ev2 a), add1 e (ev3 a))) (ev2 a).

(* the contraction side condition on (Y, Z, Y_Z) *)
Definition cond_coded (y z yz : vset) : bool := psubsetb y yz && psubsetb z yz && disjointb y z.
Definition cond_fixed (y z yz : vset) : bool := seteqb (union y z) yz && disjointb y z.

Definition sg3_raw (cond : vset -> vset -> vset -> bool) (a b : assertion) : list assertion :=
  if negb (seteqb (ev1 a) (ev1 b)) then []
  else if cond (ev2 b) (ev3 b) (ev3 a) then [(ev1 a, union (ev2 a) (ev2 b), ev3 b)] else [].

Definition sg1 := lr1 sg1_raw.
Definition sg2 := lr1 sg2_raw.
Definition sg3 cond := lr2 (sg3_raw cond).

(* itertools.permutations(s, 2): ordered pairs of elements at distinct positions *)
Fixpoint distinct_pairs (l : list assertion) : list (assertion * assertion) :=
  match l with
  | [] => []
  | x :: r => map (fun y => (x, y)) r ++ map (fun y => (y, x)) r ++ distinct_pairs r
  end.

(* one round of the while loop: returns (all_independencies, new_inds) after the round *)
Definition cl_step (cond : vset -> vset -> vset -> bool) (all new : list assertion)
  : list assertion * list assertion :=
  let prs := distinct_pairs new ++ list_prod new all ++ list_prod all new in
  let all' := all ++ new in
  let out := flat_map sg1 new ++ flat_map sg2 new ++ flat_map (fun p => sg3 cond (fst p) (snd p)) prs in
  (all', adedup (adiff out all')).

Fixpoint cl_loop (cond : vset -> vset -> vset -> bool) (fuel : nat) (all new : list assertion)
  : option (list assertion) :=
  match new with
  | [] => Some all
  | _ => match fuel with
         | 0 => None
         | S f => let (a', n') := cl_step cond all new in cl_loop cond f a' n'
         end
  end.

Definition avars (a : assertion) : vset := ev1 a ++ ev2 a ++ ev3 a.
Definition all_vars (A : list assertion) : vset := dedupn (flat_map avars A).
(* every round adds at least one of the at most 8^n classes of triples over the n variables *)
Definition cl_fuel (A : list assertion) : nat := S (Nat.pow 8 (length (all_vars A))).

Definition closure_gen cond (A : list assertion) : option (list assertion) :=
  cl_loop cond (cl_fuel A) [] (adedup A).
Definition closure := closure_gen cond_coded.          (* as coded *)
Definition closure_fixed := closure_gen cond_fixed.    (* contraction side condition repaired *)

(* entails / is_equivalent; None only if the fuel were insufficient (proved impossible) *)
Definition entails_gen cond (A B : list assertion) : option bool :=
  match closure_gen cond A with Some c => Some (asubsetb B c) | None => None end.
Definition is_equivalent_gen cond (A B : list assertion) : option bool :=
  match entails_gen cond A B, entails_gen cond B A with
  | Some x, Some y => Some (x && y) | _, _ => None end.
Definition entails := entails_gen cond_coded.
Definition is_equivalent := is_equivalent_gen cond_coded.
(* contains / __contains__ *)
Definition contains (A : list assertion) (a : assertion) : bool := amem a A.

(* ------------------------------------------------------------------ DAG.is_iequivalent *)
Definition preds (g : digraph) (v : node) : list node := dedupn (parents g v).   (* a dict view *)
Fixpoint pairs (l : list node) : list (node * node) :=
  match l with [] => [] | x :: r => map (fun y => (x, y)) r ++ pairs r end.
Definition adjb (g : digraph) (u v : node) : bool := has_edge g u v || has_edge g v u.
Definition edge_nodes (g : digraph) : list node := flat_map (fun e => [fst e; snd e]) (edges g).
(* _v_structures: ((p1, p2), child); nodes without an edge have no predecessors *)
Definition vstructs (g : digraph) : list (node * node * node) :=
  flat_map (fun c => map (fun p => (fst p, snd p, c))
                       (filter (fun p => negb (adjb g (fst p) (snd p))) (pairs (preds g c))))
           (dedupn (edge_nodes g)).
Definition vs_eqb (s t : node * node * node) : bool :=
  let '(a, b, c) := s in let '(a', b', c') := t in
  Nat.eqb c c' && ((Nat.eqb a a' && Nat.eqb b b') || (Nat.eqb a b' && Nat.eqb b a')).
Definition vs_subsetb (l m : list (node * node * node)) : bool :=
  forallb (fun s => existsb (vs_eqb s) m) l.
(* to_undirected().edges() == ... : equality of the undirected edge sets (node sets are not compared) *)
Definition skel_subsetb (g h : digraph) : bool := forallb (fun e => adjb h (fst e) (snd e)) (edges g).
Definition is_iequivalent (g h : digraph) : bool :=
  (skel_subsetb g h && skel_subsetb h g)
  && (vs_subsetb (vstructs g) (vstructs h) && vs_subsetb (vstructs h) (vstructs g)).

(* ------------------------------------------------------------------ JointProbabilityDistribution *)
Local Open Scope Qc_scope.
(* rows: (state of each variable of jvars, probability); the harness sends every cell *)
Record jpd := { jvars : list nat; jcards : list nat; jrows : list (list nat * Qc) }.

Fixpoint pos (x : nat) (l : list nat) : nat :=
  match l with [] => 0%nat | y :: r => if Nat.eqb x y then 0%nat else S (pos x r) end.
Definition state_of (j : jpd) (a : list nat) (v : nat) : nat := nth (pos v (jvars j)) a 0%nat.
Definition card_of (j : jpd) (v : nat) : nat := nth (pos v (jvars j)) (jcards j) 0%nat.
Fixpoint list_eqb (a b : list nat) : bool :=
  match a, b with
  | [], [] => true
  | x :: r, y :: s => Nat.eqb x y && list_eqb r s
  | _, _ => false
  end.
(* marginal_distribution(S) at the states s *)
Definition marg (j : jpd) (S s : list nat) : Qc :=
  fold_right (fun r acc => if list_eqb (map (state_of j (fst r)) S) s then snd r + acc else acc) 0 (jrows j).
Fixpoint all_assign (cs : list nat) : list (list nat) :=
  match cs with
  | [] => [[]]
  | c :: r => flat_map (fun s => map (cons s) (all_assign r)) (seq 0 c)
  end.
Definition assigns (j : jpd) (S : list nat) : list (list nat) := all_assign (map (card_of j) S).
Definition states (j : jpd) (v : nat) : list nat := seq 0 (card_of j v).

(* DiscreteFactor.__eq__ cell comparison  A == B : exact, or numpy.allclose(B, A, atol, rtol) *)
Definition Qc_eqb (a b : Qc) : bool := if Qc_eq_dec a b then true else false.
Definition Qc_leb (a b : Qc) : bool := Qle_bool (this a) (this b).
Definition close (atol rtol : Qc) (a b : Qc) : bool := Qc_leb (Qcabs (b - a)) (atol + rtol * Qcabs a).

Section CheckIndependence.
Variable cmp : Qc -> Qc -> bool.

(* marginal branch, one pair: marginal((x,y)) == marginal(x) * marginal(y) *)
Definition indep_marg (j : jpd) (x y : nat) : bool :=
  forallb (fun sx => forallb (fun sy =>
      cmp (marg j [x; y] [sx; sy]) (marg j [x] [sx] * marg j [y] [sy])) (states j y)) (states j x).

(* condition_random_variable=True branch, one pair: phi_xyz * phi_z == phi_xz * phi_yz *)
Definition indep_cond (j : jpd) (x y : nat) (Z : list nat) : bool :=
  forallb (fun z => forallb (fun sx => forallb (fun sy =>
      cmp (marg j (Z ++ [x; y]) (z ++ [sx; sy]) * marg j Z z)
          (marg j (Z ++ [x]) (z ++ [sx]) * marg j (Z ++ [y]) (z ++ [sy])))
    (states j y)) (states j x)) (assigns j Z).

(* conditional_distribution(values): reduce to the context, normalize; None = the context has
   probability 0 (pgmpy: division by zero, then ValueError from the constructor) *)
Definition ctx_ok (j : jpd) (ctx : list (nat * nat)) (a : list nat) : bool :=
  forallb (fun vs => Nat.eqb (state_of j a (fst vs)) (snd vs)) ctx.
Definition conditional (j : jpd) (ctx : list (nat * nat)) : option jpd :=
  let rows := filter (fun r => ctx_ok j ctx (fst r)) (jrows j) in
  let pz := fold_right (fun r acc => snd r + acc) 0 rows in
  if Qc_eq_dec pz 0 then None
  else Some {| jvars := jvars j; jcards := jcards j;
               jrows := map (fun r => (fst r, snd r / pz)) rows |}.

(* check_independence(event1, event2, event3, condition_random_variable):
   mode 0: event3 empty/None; mode 1: event3 = list of variables, condition_random_variable=True;
   mode 2: event3 = list of (variable, state).  An empty event3 is falsy in every mode. *)
Definition check_marg (j : jpd) (e1 e2 : list nat) : bool :=
  forallb (fun p => indep_marg j (fst p) (snd p)) (list_prod e1 e2).
Definition check_cond_rv (j : jpd) (e1 e2 Z : list nat) : bool :=
  match Z with
  | [] => check_marg j e1 e2
  | _ => forallb (fun p => indep_cond j (fst p) (snd p) Z) (list_prod e1 e2)
  end.
Definition check_ctx (j : jpd) (e1 e2 : list nat) (ctx : list (nat * nat)) : option bool :=
  match ctx with
  | [] => Some (check_marg j e1 e2)
  | _ => match conditional j ctx with
         | None => None
         | Some j' => Some (check_marg j' e1 e2)
         end
  end.

(* get_independencies(condition): the marginally independent pairs of the (conditioned) joint *)
Definition get_independencies (j : jpd) (ctx : list (nat * nat)) : option (list (nat * nat)) :=
  let vs := filter (fun v => negb (memn v (map fst ctx))) (jvars j) in
  match ctx with
  | [] => Some (filter (fun p => indep_marg j (fst p) (snd p)) (pairs vs))
  | _ => match conditional j ctx with
         | None => None
         | Some j' => Some (filter (fun p => indep_marg j' (fst p) (snd p)) (pairs vs))
         end
  end.

(* minimal_imap(order): for every variable, the union of ALL proper subsets S of its predecessors u
   with  variable _|_ w | S  for each single w in u - S  (pairwise), as coded *)
Fixpoint sublists (l : list nat) : list (list nat) :=
  match l with [] => [[]] | x :: r => let s := sublists r in s ++ map (cons x) s end.
Definition minimal_imap (j : jpd) (order : list nat) : list (nat * nat) :=
  flat_map (fun i =>
      let v := nth i order 0%nat in
      let u := firstn i order in
      flat_map (fun S =>
          if Nat.ltb (length S) (length u) && check_cond_rv j [v] (diff u S) S
          then map (fun p => (p, v)) S else [])
        (sublists u))
    (seq 0 (length order)).
End CheckIndependence.

(* P factorises along the graph:  P(a) * prod_v P(pa_v(a)) = prod_v P(v, pa_v(a))  for every cell
   (cross-multiplied chain rule; used by the harness to decide whether a graph is an I-map) *)
Definition factorizes (j : jpd) (es : list (nat * nat)) : bool :=
  let g := {| nodes := jvars j; edges := es |} in
  forallb (fun a =>
      let st := map (state_of j a) in
      Qc_eqb (marg j (jvars j) a * fold_right (fun v acc => marg j (preds g v) (st (preds g v)) * acc) 1 (jvars j))
             (fold_right (fun v acc => marg j (v :: preds g v) (st (v :: preds g v)) * acc) 1 (jvars j)))
    (assigns j (jvars j)).
