(* C18: soundness of the closure computation (with the repaired contraction side condition)
   w.r.t. semi-graphoid derivability, and equality/hash facts of assertions. *)
From Coq Require Import List Bool Arith PeanoNat Lia.
From PV Require Import Base.Graph C18.Model C18.Spec C18.ProofsSets.
Import ListNotations.
Local Open Scope nat_scope.

(* ------------------------------------------------------------------ __eq__ / __hash__ *)
Lemma seteqb_sym a b : seteqb a b = seteqb b a.
Proof. unfold seteqb. apply andb_comm. Qed.

Lemma aeqb_hkey : forall a b, aeqb a b = hkey_eqb a b.
Proof.
  intros a b. unfold aeqb, hkey_eqb.
  destruct (seteqb (ev1 a) (ev1 b)), (seteqb (ev2 a) (ev2 b)), (seteqb (ev3 a) (ev3 b)),
    (seteqb (ev2 a) (ev1 b)), (seteqb (ev1 a) (ev2 b)); reflexivity.
Qed.

Lemma aeqb_comm a b : aeqb a b = aeqb b a.
Proof.
  destruct (aeqb a b) eqn:E1, (aeqb b a) eqn:E2; try reflexivity.
  - apply aeqb_sym in E1. congruence.
  - apply aeqb_sym in E2. congruence.
Qed.

Theorem eq_hash_symmetry : forall a b : assertion,
  (aeqb a b = true <-> aeq a b) /\ aeqb a b = hkey_eqb a b /\ aeqb a (sg0 a) = true /\
  aeqb a a = true /\ aeqb a b = aeqb b a /\ (forall c, aeqb a b = true -> aeqb b c = true -> aeqb a c = true).
Proof.
  intros a b. split; [apply aeqb_spec|]. split; [apply aeqb_hkey|].
  split; [apply aeqb_spec, aeq_sg0|]. split; [apply aeqb_refl|].
  split; [apply aeqb_comm|]. intros c. apply aeqb_trans.
Qed.

(* ------------------------------------------------------------------ derivability: structural facts *)
Lemma derivable_aeq : forall A a b, derivable A a -> aeq a b -> derivable A b.
Proof.
  intros A a b Ha [H|H].
  - eapply d_ext; eassumption.
  - destruct a as [[x y] z]. eapply d_ext; [|exact H].
    unfold sg0, ev1, ev2, ev3. simpl. apply d_sym. exact Ha.
Qed.

Lemma derivable_sg0 A a : derivable A a -> derivable A (sg0 a).
Proof. intros H. eapply derivable_aeq; [exact H|apply aeq_sg0]. Qed.

Lemma derivable_cut : forall A B t, (forall b, In b B -> derivable A b) -> derivable B t -> derivable A t.
Proof.
  intros A B t HB Ht. induction Ht.
  - apply HB. assumption.
  - eapply d_ext; eassumption.
  - apply d_sym. assumption.
  - eapply d_decomp; eassumption.
  - apply d_wunion; assumption.
  - apply d_contr; assumption.
Qed.

Lemma derivable_mono : forall A B t, (forall a, In a A -> In a B) -> derivable A t -> derivable B t.
Proof.
  intros A B t HAB Ht. eapply derivable_cut; [|exact Ht].
  intros b Hb. apply d_in. apply HAB. exact Hb.
Qed.

(* ------------------------------------------------------------------ the three rules *)
Lemma not_single_other e y : In e y -> single_var y = false -> exists v, In v y /\ v <> e.
Proof.
  unfold single_var, card. intros He Hs. apply Nat.eqb_neq in Hs.
  pose proof (dedupn_NoDup y) as Hnd. pose proof (dedupn_In y) as Hin.
  destruct (dedupn y) as [|u [|v r]].
  - apply Hin in He. destruct He.
  - simpl in Hs. congruence.
  - assert (Huv : u <> v).
    { inversion Hnd as [|? ? Hn _]. intros ->. apply Hn. left. reflexivity. }
    destruct (Nat.eq_dec u e) as [->|Hne].
    + exists v. split; [apply Hin; right; left; reflexivity|]. intros ->. apply Huv. reflexivity.
    + exists u. split; [apply Hin; left; reflexivity|exact Hne].
Qed.

Lemma remove1_split e y : In e y -> seteq y (remove1 e y ++ [e]).
Proof.
  intros He v. rewrite in_app_iff, remove1_In. simpl. split.
  - intros Hv. destruct (Nat.eq_dec v e) as [->|Hne]; [right; left; reflexivity|left; split; assumption].
  - intros [[Hv _]|[<-|[]]]; assumption.
Qed.

Lemma remove1_nonempty e y : In e y -> single_var y = false -> nonempty (remove1 e y).
Proof.
  intros He Hs. destruct (not_single_other e y He Hs) as [v [Hv Hne]].
  exists v. apply remove1_In. split; assumption.
Qed.

Lemma sg1_raw_sound A a b : derivable A a -> In b (sg1_raw a) -> derivable A b.
Proof.
  destruct a as [[x y] z]. unfold sg1_raw, ev1, ev2, ev3. simpl. intros Ha Hb.
  destruct (single_var y) eqn:Es; [destruct Hb|].
  apply in_map_iff in Hb. destruct Hb as [e [<- He]].
  apply d_decomp with (w := [e]); [|apply remove1_nonempty; assumption].
  eapply d_ext; [exact Ha|]. unfold aext, ev1, ev2, ev3. simpl.
  split; [apply seteq_refl|]. split; [apply remove1_split; exact He|apply seteq_refl].
Qed.

Lemma sg2_raw_sound A a b : derivable A a -> In b (sg2_raw a) -> derivable A b.
Proof.
  destruct a as [[x y] z]. unfold sg2_raw, ev1, ev2, ev3. simpl. intros Ha Hb.
  destruct (single_var y) eqn:Es; [destruct Hb|].
  apply in_map_iff in Hb. destruct Hb as [e [<- He]].
  apply d_ext with (a := (x, remove1 e y, [e] ++ z)).
  - apply d_wunion; [|apply remove1_nonempty; assumption|].
    + eapply d_ext; [exact Ha|]. unfold aext, ev1, ev2, ev3. simpl.
      split; [apply seteq_refl|]. split; [apply remove1_split; exact He|apply seteq_refl].
    + intros v Hv [<-|[]]. apply remove1_In in Hv. destruct Hv as [_ Hv]. apply Hv. reflexivity.
  - unfold aext, ev1, ev2, ev3. simpl.
    split; [apply seteq_refl|]. split; [apply seteq_refl|].
    intros v. rewrite add1_In. simpl. split; intros [H|H]; auto.
Qed.

Lemma sg1_sound : forall A a b, derivable A a -> In b (sg1 a) -> derivable A b.
Proof.
  intros A a b Ha Hb. unfold sg1, lr1 in Hb. apply in_app_iff in Hb. destruct Hb as [Hb|Hb].
  - eapply sg1_raw_sound; eassumption.
  - eapply sg1_raw_sound; [apply derivable_sg0; exact Ha|exact Hb].
Qed.

Lemma sg2_sound : forall A a b, derivable A a -> In b (sg2 a) -> derivable A b.
Proof.
  intros A a b Ha Hb. unfold sg2, lr1 in Hb. apply in_app_iff in Hb. destruct Hb as [Hb|Hb].
  - eapply sg2_raw_sound; eassumption.
  - eapply sg2_raw_sound; [apply derivable_sg0; exact Ha|exact Hb].
Qed.

Lemma sg3_raw_fixed_sound A a b c :
  derivable A a -> derivable A b -> In c (sg3_raw cond_fixed a b) -> derivable A c.
Proof.
  destruct a as [[x1 w] yz]. destruct b as [[x2 y] z].
  unfold sg3_raw, cond_fixed, ev1, ev2, ev3. simpl. intros Ha Hb Hc.
  destruct (seteqb x1 x2) eqn:Ex; simpl in Hc; [|destruct Hc].
  destruct (seteqb (union y z) yz && disjointb y z) eqn:Ec; [|destruct Hc].
  destruct Hc as [<-|[]].
  apply andb_true_iff in Ec. destruct Ec as [Eu Ed].
  apply seteqb_spec in Ex. apply seteqb_spec in Eu. apply disjointb_spec in Ed.
  apply d_ext with (a := (x1, w ++ y, z)).
  - apply d_contr; [| |exact Ed].
    + eapply d_ext; [exact Ha|]. unfold aext, ev1, ev2, ev3. simpl.
      split; [apply seteq_refl|]. split; [apply seteq_refl|].
      intros v. rewrite <- (Eu v), union_In, in_app_iff. tauto.
    + eapply d_ext; [exact Hb|]. unfold aext, ev1, ev2, ev3. simpl.
      split; [apply seteq_sym; exact Ex|]. split; apply seteq_refl.
  - unfold aext, ev1, ev2, ev3. simpl.
    split; [apply seteq_refl|]. split; [|apply seteq_refl].
    intros v. rewrite union_In, in_app_iff. tauto.
Qed.

Lemma sg3_fixed_sound : forall A a b c,
  derivable A a -> derivable A b -> In c (sg3 cond_fixed a b) -> derivable A c.
Proof.
  intros A a b c Ha Hb Hc. unfold sg3, lr2 in Hc. rewrite !in_app_iff in Hc.
  pose proof (derivable_sg0 A a Ha) as Ha'. pose proof (derivable_sg0 A b Hb) as Hb'.
  destruct Hc as [Hc|[Hc|[Hc|Hc]]]; eapply sg3_raw_fixed_sound; try exact Hc; assumption.
Qed.

(* ------------------------------------------------------------------ the loop *)
Lemma distinct_pairs_In l p q : In (p, q) (distinct_pairs l) -> In p l /\ In q l.
Proof.
  induction l as [|x r IH]; simpl; [tauto|]. rewrite !in_app_iff, !in_map_iff.
  intros [[y [E Hy]]|[[y [E Hy]]|H]].
  - inversion E; subst. auto.
  - inversion E; subst. auto.
  - destruct (IH H). auto.
Qed.

Lemma cl_step_fixed_sound A all new all' new' :
  (forall a, In a all -> derivable A a) -> (forall a, In a new -> derivable A a) ->
  cl_step cond_fixed all new = (all', new') ->
  (forall a, In a all' -> derivable A a) /\ (forall a, In a new' -> derivable A a).
Proof.
  intros Hall Hnew E. unfold cl_step in E. inversion E; subst; clear E. split.
  - intros a Ha. apply in_app_iff in Ha. destruct Ha; auto.
  - intros a Ha. apply adedup_In in Ha. apply adiff_In in Ha. destruct Ha as [Ha _].
    rewrite !in_app_iff in Ha. destruct Ha as [Ha|[Ha|Ha]].
    + apply in_flat_map in Ha. destruct Ha as [x [Hx Hax]]. eapply sg1_sound; [apply Hnew; exact Hx|exact Hax].
    + apply in_flat_map in Ha. destruct Ha as [x [Hx Hax]]. eapply sg2_sound; [apply Hnew; exact Hx|exact Hax].
    + apply in_flat_map in Ha. destruct Ha as [[p q] [Hpq Hax]]. simpl in Hax.
      assert (Hd : derivable A p /\ derivable A q).
      { rewrite !in_app_iff in Hpq. destruct Hpq as [H|[H|H]].
        - apply distinct_pairs_In in H. destruct H. auto.
        - apply in_prod_iff in H. destruct H. auto.
        - apply in_prod_iff in H. destruct H. auto. }
      destruct Hd as [Hp Hq]. eapply sg3_fixed_sound; [exact Hp|exact Hq|exact Hax].
Qed.

Theorem cl_loop_fixed_sound : forall A fuel all new R,
  (forall a, In a all -> derivable A a) -> (forall a, In a new -> derivable A a) ->
  cl_loop cond_fixed fuel all new = Some R -> forall a, In a R -> derivable A a.
Proof.
  intros A fuel. induction fuel as [|f IH]; intros all new R Hall Hnew E a Ha.
  - destruct new; simpl in E; [|discriminate]. inversion E; subst. auto.
  - destruct new as [|n0 nr].
    + simpl in E. inversion E; subst. auto.
    + remember (n0 :: nr) as new eqn:En.
      assert (E' : (let (a', n') := cl_step cond_fixed all new in cl_loop cond_fixed f a' n') = Some R).
      { rewrite <- E. rewrite En. reflexivity. }
      destruct (cl_step cond_fixed all new) as [a' n'] eqn:Es.
      destruct (cl_step_fixed_sound A all new a' n' Hall Hnew Es) as [H1 H2].
      exact (IH a' n' R H1 H2 E' a Ha).
Qed.

Theorem closure_fixed_sound : forall A R a, closure_fixed A = Some R -> In a R -> derivable A a.
Proof.
  intros A R a E Ha. unfold closure_fixed, closure_gen in E.
  eapply cl_loop_fixed_sound; [| |exact E|exact Ha].
  - intros x [].
  - intros x Hx. apply d_in. apply adedup_In. exact Hx.
Qed.

Theorem closure_fixed_sound_amem : forall A R a, closure_fixed A = Some R -> amem a R = true -> derivable A a.
Proof.
  intros A R a E Ha. apply amem_spec in Ha. destruct Ha as [b [Hb Hab]].
  eapply derivable_aeq; [eapply closure_fixed_sound; eassumption|apply aeq_sym; exact Hab].
Qed.
