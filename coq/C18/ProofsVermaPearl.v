(* C18: the Verma-Pearl theorem for all DAGs (no size bound).
   Two DAGs on the same nodes have the same skeleton and the same v-structures  <->  they imply the same
   d-separation statements (C08's path-based definition).
   (=>) by Chickering's transformation: as long as the graphs differ, g has a COVERED edge that h reverses
        (ProofsVPA.find_covered); reversing it keeps g a DAG with the same skeleton and v-structures
        (ProofsVPRev) and keeps every d-connection (ProofsVPSim, a simulation between the verified
        (node, direction) reachability relations of C08); the number of edges of g that h lacks decreases.
   (<=) ProofsVPA.same_dsep_meq: adjacent <-> never separable; an unshielded triple is a collider <-> its
        middle node is outside the separating set (uses C08's minimal_dseparator existence theorem). *)
From Coq Require Import List Bool Arith PeanoNat Lia.
From PV Require Import Base.Graph C08.Model C08.Spec C08.ProofsTrail C08.Props C18.VPDefs
  C18.ProofsVPA C18.ProofsVPRev C18.ProofsVPSim.
From PV Require C18.Model C18.Spec C18.ProofsGraph.
Import ListNotations.

(* edges of g that h lacks *)
Definition lacks (h : digraph) (e : node * node) : bool := negb (has_edge h (fst e) (snd e)).
Definition delta (g h : digraph) : nat := length (filter (lacks h) (edges g)).

Lemma lacks_spec h u v : lacks h (u, v) = true <-> ~ In (u, v) (edges h).
Proof.
  unfold lacks. simpl. rewrite negb_true_iff. split.
  - intros H Hi. apply has_edge_In in Hi. congruence.
  - intros H. destruct (has_edge h u v) eqn:E; [|reflexivity]. apply has_edge_In in E. contradiction.
Qed.

Lemma filter_length_le {A} (p q : A -> bool) l : length (filter p (filter q l)) <= length (filter p l).
Proof.
  induction l as [|a l IH]; simpl; [lia|]. destruct (q a); simpl; destruct (p a); simpl; lia.
Qed.
Lemma filter_length_lt {A} (p q : A -> bool) l e :
  In e l -> p e = true -> q e = false -> length (filter p (filter q l)) < length (filter p l).
Proof.
  induction l as [|a l IH]; intros Hin Hp Hq; [destruct Hin|]. simpl. destruct Hin as [->|Hin].
  - rewrite Hq, Hp. simpl. pose proof (filter_length_le p q l). lia.
  - specialize (IH Hin Hp Hq). destruct (q a); simpl; destruct (p a); simpl; lia.
Qed.

Lemma delta_rev g h x y : In (x, y) (edges g) -> ~ In (x, y) (edges h) -> In (y, x) (edges h) ->
  delta (rev_edge g x y) h < delta g h.
Proof.
  intros Hg Hnh Hh. unfold delta, rev_edge. simpl.
  assert (E : lacks h (y, x) = false).
  { destruct (lacks h (y, x)) eqn:E; [|reflexivity]. apply lacks_spec in E. contradiction. }
  rewrite E. apply (filter_length_lt _ _ _ (x, y)); [exact Hg|apply lacks_spec; exact Hnh|].
  apply negb_false_iff. apply edge_eqb_eq. reflexivity.
Qed.

Lemma same_nodes_sym g h : same_nodes g h -> same_nodes h g.
Proof. intros H n. symmetry. apply H. Qed.

(* (=>) one direction of d-connection, by induction on the number of edges of g that h lacks *)
Lemma meq_dconnected_aux : forall n g h, delta g h <= n -> dag g -> dag h -> same_nodes g h -> meq g h ->
  forall Z s t, ~ In s Z -> dconnected g Z s t -> dconnected h Z s t.
Proof.
  induction n as [|n IH]; intros g h Hd Hg Hh Hn Hm Z s t Hs Hc.
  - (* nothing lacks: edges g <= edges h *)
    apply (C08_dconnected_monotone_in_edges h g Z s t (proj2 Hh)); [|exact Hc].
    intros [u v] He. destruct (lacks h (u, v)) eqn:E.
    + exfalso. unfold delta in Hd.
      assert (Hin : In (u, v) (filter (lacks h) (edges g))) by (apply filter_In; split; assumption).
      destruct (filter (lacks h) (edges g)); [destruct Hin|simpl in Hd; lia].
    + unfold lacks in E. simpl in E. apply negb_false_iff in E. apply has_edge_In. exact E.
  - destruct (filter (lacks h) (edges g)) as [|[u v] r] eqn:ED.
    + apply (C08_dconnected_monotone_in_edges h g Z s t (proj2 Hh)); [|exact Hc].
      intros [u v] He. destruct (lacks h (u, v)) eqn:E.
      * exfalso. assert (Hin : In (u, v) (filter (lacks h) (edges g))) by (apply filter_In; split; assumption).
        rewrite ED in Hin. destruct Hin.
      * unfold lacks in E. simpl in E. apply negb_false_iff in E. apply has_edge_In. exact E.
    + assert (Hex : exists e, In e (edges g) /\ ~ In e (edges h)).
      { exists (u, v). assert (Hin : In (u, v) (filter (lacks h) (edges g))) by (rewrite ED; left; reflexivity).
        apply filter_In in Hin. destruct Hin as [H1 H2]. split; [exact H1|apply lacks_spec; exact H2]. }
      destruct (find_covered g h Hg Hh Hn Hm Hex) as [x [y (Hxy & Hnxy & Hcov)]].
      set (g' := rev_edge g x y).
      assert (Hg' : dag g') by (apply rev_covered_dag; assumption).
      assert (Hmg : meq g g') by (apply rev_covered_meq; assumption).
      assert (Hyx : In (y, x) (edges h)).
      { destruct Hm as [Hsk _]. assert (Ha : adj g x y) by (left; exact Hxy).
        apply Hsk in Ha. destruct Ha as [Ha|Ha]; [contradiction|exact Ha]. }
      apply (IH g' h).
      * pose proof (delta_rev g h x y Hxy Hnxy Hyx). fold g' in H. lia.
      * exact Hg'.
      * exact Hh.
      * intros m. unfold g'. rewrite rev_edge_nodes. apply Hn.
      * eapply meq_trans; [apply meq_sym; exact Hmg|exact Hm].
      * exact Hs.
      * apply rev_covered_dconnected; assumption.
Qed.

(* (B) same skeleton + same v-structures => the same d-connection relation (start node outside Z) *)
Theorem meq_dconnected : forall g h, dag g -> dag h -> same_nodes g h -> meq g h ->
  forall Z s t, ~ In s Z -> (dconnected g Z s t <-> dconnected h Z s t).
Proof.
  intros g h Hg Hh Hn Hm Z s t Hs. split.
  - apply (meq_dconnected_aux (delta g h) g h); auto.
  - apply (meq_dconnected_aux (delta h g) h g); auto using same_nodes_sym, meq_sym.
Qed.
Theorem meq_same_dsep : forall g h, dag g -> dag h -> same_nodes g h -> meq g h -> same_dsep g h.
Proof.
  intros g h Hg Hh Hn Hm Z x y _ _ _ Hx _. apply meq_dconnected; assumption.
Qed.

(* Verma-Pearl *)
Theorem verma_pearl : forall g h, dag g -> dag h -> same_nodes g h -> (meq g h <-> same_dsep g h).
Proof.
  intros g h Hg Hh Hn. split; [apply meq_same_dsep; assumption|apply same_dsep_meq; assumption].
Qed.

(* with C18_iequiv_iff: pgmpy's is_iequivalent (as modelled) decides equality of the d-separation statements *)
Theorem iequivalent_iff_same_dseparation : forall g h, dag g -> dag h -> same_nodes g h ->
  (C18.Model.is_iequivalent g h = true <-> same_dsep g h).
Proof.
  intros g h Hg Hh Hn. rewrite C18.ProofsGraph.iequiv_iff, meq_spec. apply verma_pearl; assumption.
Qed.

(* a computational criterion for [dag], used by the examples *)
Lemma vp_small_dag g : NoDup (nodes g) -> wf_graphb g = true -> acyclicb g = true -> dag g.
Proof.
  intros Hn Hw Ha.
  assert (W : wf_graph g).
  { split; [exact Hn|]. intros u v He. unfold wf_graphb in Hw. rewrite forallb_forall in Hw.
    specialize (Hw (u, v) He). simpl in Hw. apply andb_true_iff in Hw. destruct Hw as [H1 H2].
    split; apply memn_In; assumption. }
  split; [exact W|]. apply acyclicb_spec; assumption.
Qed.
