(* C18 entry points for the extracted driver: sx -> sx *)
From Coq Require Import List Bool Arith ZArith QArith Qcanon.
From PV Require Import Base.Sx Base.Graph C18.Model.
From PV Require C08.Model.
Import ListNotations.
Local Open Scope nat_scope.

Definition dec_vset := sx_list sx_nat.
Definition dec_assertion : sx -> option assertion := sx_triple dec_vset dec_vset dec_vset.
Definition dec_alist := sx_list dec_assertion.
Definition enc_vset (v : vset) : sx := of_list of_nat (dedupn v).
Definition enc_assertion (a : assertion) : sx := SL [enc_vset (ev1 a); enc_vset (ev2 a); enc_vset (ev3 a)].
Definition enc_alist := of_list enc_assertion.

(* [A] -> [closure as coded; closure with the repaired side condition]; error 3 = fuel exhausted *)
Definition run_c18_closure (s : sx) : sx :=
  match s with
  | SL [sa] =>
      match dec_alist sa with
      | Some A =>
          match closure A, closure_fixed A with
          | Some c, Some cf => sx_ok (SL [enc_alist c; enc_alist cf])
          | _, _ => sx_err 3
          end
      | None => bad_request
      end
  | _ => bad_request
  end.

(* [A B] -> [entails(A,B) coded; fixed; is_equivalent(A,B) coded; fixed] *)
Definition run_c18_entails (s : sx) : sx :=
  match s with
  | SL [sa; sb] =>
      match dec_alist sa, dec_alist sb with
      | Some A, Some B =>
          match entails A B, entails_gen cond_fixed A B, is_equivalent A B, is_equivalent_gen cond_fixed A B with
          | Some e, Some ef, Some q, Some qf => sx_ok (SL [of_bool e; of_bool ef; of_bool q; of_bool qf])
          | _, _, _, _ => sx_err 3
          end
      | _, _ => bad_request
      end
  | _ => bad_request
  end.

(* [a b A] -> [a == b; hash keys equal; a in A] *)
Definition run_c18_aeq (s : sx) : sx :=
  match s with
  | SL [sa; sb; sl] =>
      match dec_assertion sa, dec_assertion sb, dec_alist sl with
      | Some a, Some b, Some A => sx_ok (SL [of_bool (aeqb a b); of_bool (hkey_eqb a b); of_bool (contains A a)])
      | _, _, _ => bad_request
      end
  | _ => bad_request
  end.

Definition dec_edges := sx_list (sx_pair sx_nat sx_nat).
Definition enc_vs (t : node * node * node) : sx :=
  let '(a, b, c) := t in SL [of_nat a; of_nat b; of_nat c].

(* [edges_g edges_h] -> [is_iequivalent; v-structures of g; v-structures of h] *)
Definition run_c18_iequiv (s : sx) : sx :=
  match s with
  | SL [sg; sh] =>
      match dec_edges sg, dec_edges sh with
      | Some eg, Some eh =>
          let g := {| nodes := []; edges := eg |} in
          let h := {| nodes := []; edges := eh |} in
          sx_ok (SL [of_bool (is_iequivalent g h); of_list enc_vs (vstructs g); of_list enc_vs (vstructs h)])
      | _, _ => bad_request
      end
  | _ => bad_request
  end.

Definition dec_jpd (sv sc sr : sx) : option jpd :=
  match sx_list sx_nat sv, sx_list sx_nat sc, sx_list (sx_pair (sx_list sx_nat) sx_Qc) sr with
  | Some v, Some c, Some r => Some {| jvars := v; jcards := c; jrows := r |}
  | _, _, _ => None
  end.
Definition dec_ctx := sx_list (sx_pair sx_nat sx_nat).
Definition all_in (a b : list nat) : bool := forallb (fun x => memn x b) a.

(* [vars cards rows e1 e2 Z ctx atol rtol] ->
     [marginal exact; marginal tol; cond-rv exact; cond-rv tol; context exact; context tol]
   the context entries are [] when the context has probability zero; Z and ctx are used by their
   own branch only.  error 1 = a variable is not in the table or events overlap *)
Definition run_c18_checkind (s : sx) : sx :=
  match s with
  | SL [sv; sc; sr; s1; s2; sz; sctx; sat; srt] =>
      match dec_jpd sv sc sr, sx_list sx_nat s1, sx_list sx_nat s2, sx_list sx_nat sz, dec_ctx sctx,
            sx_Qc sat, sx_Qc srt with
      | Some j, Some e1, Some e2, Some Z, Some ctx, Some atol, Some rtol =>
          let used := e1 ++ e2 ++ Z ++ map fst ctx in
          if all_in used (jvars j) && disjointb e1 e2 && disjointb (e1 ++ e2) (Z ++ map fst ctx)
          then
            let ob := of_option of_bool in
            sx_ok (SL [ of_bool (check_marg Qc_eqb j e1 e2); of_bool (check_marg (close atol rtol) j e1 e2);
                        of_bool (check_cond_rv Qc_eqb j e1 e2 Z); of_bool (check_cond_rv (close atol rtol) j e1 e2 Z);
                        ob (check_ctx Qc_eqb j e1 e2 ctx); ob (check_ctx (close atol rtol) j e1 e2 ctx) ])
          else sx_err 1
      | _, _, _, _, _, _, _ => bad_request
      end
  | _ => bad_request
  end.

Definition enc_pairs := of_list (of_pair of_nat of_nat).

(* [vars cards rows ctx atol rtol] -> [[pairs exact]; [pairs tol]]  ([] = zero-probability context) *)
Definition run_c18_getind (s : sx) : sx :=
  match s with
  | SL [sv; sc; sr; sctx; sat; srt] =>
      match dec_jpd sv sc sr, dec_ctx sctx, sx_Qc sat, sx_Qc srt with
      | Some j, Some ctx, Some atol, Some rtol =>
          sx_ok (SL [ of_option enc_pairs (get_independencies Qc_eqb j ctx);
                      of_option enc_pairs (get_independencies (close atol rtol) j ctx) ])
      | _, _, _, _ => bad_request
      end
  | _ => bad_request
  end.

(* [vars cards rows order atol rtol] -> [edges exact; edges tol; factorizes along exact edges] *)
Definition run_c18_minimap (s : sx) : sx :=
  match s with
  | SL [sv; sc; sr; so; sat; srt] =>
      match dec_jpd sv sc sr, sx_list sx_nat so, sx_Qc sat, sx_Qc srt with
      | Some j, Some order, Some atol, Some rtol =>
          if all_in order (jvars j) then
            let es := minimal_imap Qc_eqb j order in
            sx_ok (SL [ enc_pairs es; enc_pairs (minimal_imap (close atol rtol) j order);
                        of_bool (factorizes j es) ])
          else sx_err 1
      | _, _, _, _ => bad_request
      end
  | _ => bad_request
  end.

(* [vars cards rows edges] -> factorizes *)
Definition run_c18_factorizes (s : sx) : sx :=
  match s with
  | SL [sv; sc; sr; se] =>
      match dec_jpd sv sc sr, dec_edges se with
      | Some j, Some es => sx_ok (of_bool (factorizes j es))
      | _, _ => bad_request
      end
  | _ => bad_request
  end.

(* graph-edit sessions: [nodes edges start Z] -> active trail nodes of C08's model (proved there to be the
   path definition of d-connection) on the CURRENT graph; error 1 = node not in graph *)
Definition run_c18_atn (s : sx) : sx :=
  match s with
  | SL [sn; se; ss; sz] =>
      match sx_list sx_nat sn, dec_edges se, sx_nat ss, sx_list sx_nat sz with
      | Some ns, Some es, Some x, Some Z =>
          let g := {| nodes := ns; edges := es |} in
          if memn x ns && all_in Z ns
          then sx_ok (of_list of_nat (C08.Model.active_trail_nodes g x Z))
          else sx_err 1
      | _, _, _, _ => bad_request
      end
  | _ => bad_request
  end.
