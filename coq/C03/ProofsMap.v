(* C03 proofs, part 2: the MAP query is optimal (from Base/VE.ve_run_correct + ProofsDecode). *)
From Coq Require Import List Arith Lia PeanoNat Bool QArith Qcanon Lqa Permutation.
From PV Require Import Base.Semiring Base.Ravel Base.FinSum Base.RefFactor Base.VE
  C03.Model C03.Spec C03.ProofsDecode.
Import ListNotations.
Local Open Scope nat_scope.

(* ---- sums over a permuted variable list (any csr) -------------------------------------------------- *)
Section Perm.
Variable R : csr.
Variable card : var -> nat.

Lemma sum_over_perm (vs1 vs2 : list var) (g : asg -> R) : Permutation vs1 vs2 -> ext g ->
  forall a, sum_over vs1 (map card vs1) g a = sum_over vs2 (map card vs2) g a.
Proof.
  intros HP Hg. induction HP as [|x l1 l2 HP IH|x y l|l1 l2 l3 HP1 IH1 HP2 IH2]; intros a.
  - reflexivity.
  - cbn [map sum_over]. apply sum_list_ext. intros i _. apply IH.
  - destruct (Nat.eq_dec x y) as [->|Hne]; [reflexivity|].
    cbn [map]. rewrite (sum_over_cons R y (x :: l)), (sum_over_cons R x (y :: l)).
    rewrite (sum_over_ext_fun R [y] [card y] _ (sum_over [x] [card x] (sum_over l (map card l) g)))
      by (intros b; apply sum_over_cons).
    rewrite sum_over_swap1; [|apply sum_over_is_ext; exact Hg|intros [E|[]]; congruence].
    apply sum_over_ext_fun. intros b. symmetry. apply sum_over_cons.
  - rewrite IH1. apply IH2.
Qed.
End Perm.

(* ---- scopes through reduction and elimination (any csr) --------------------------------------------- *)
Section Scopes.
Variable R : csr.
Variable card : var -> nat.
Notation factor := (factor R).
Notation occurs := (occurs R).

Lemma occurs_ve_step_inv (L : list factor) v w : occurs w (ve_step R card L v) -> occurs w L /\ w <> v.
Proof.
  intros [f [Hf Hw]]. unfold ve_step in Hf. destruct Hf as [<-|Hf].
  - rewrite fvars_fmarg in Hw. apply In_vminus in Hw. destruct Hw as [Hw Hn].
    apply In_fvars_fprod_list in Hw. destruct Hw as [g [Hg Hwg]]. apply filter_In in Hg.
    split; [exists g; split; [apply Hg|exact Hwg]|]. intros E. apply Hn. left. symmetry. exact E.
  - apply filter_In in Hf. destruct Hf as [Hf Hm]. split; [exists f; split; assumption|].
    intros E. subst. apply negb_true_iff in Hm. unfold mentions in Hm. apply memv_false in Hm. contradiction.
Qed.

Lemma occurs_ve_run order : forall (L : list factor) x,
  occurs x (ve_run R card L order) <-> occurs x L /\ ~ In x order.
Proof.
  induction order as [|v order IH]; intros L x.
  - simpl. split; [intros H; split; [exact H|intros []]|intros [H _]; exact H].
  - cbn [ve_run fold_left]. fold (ve_run R card (ve_step R card L v) order). rewrite IH. split.
    + intros [H Hn]. apply occurs_ve_step_inv in H. destruct H as [H Hne]. split; [exact H|].
      intros [E|Hi]; [apply Hne; symmetry; exact E|contradiction].
    + intros [H Hn]. split.
      * apply ve_step_occurs; [intros E; apply Hn; left; symmetry; exact E|exact H].
      * intros Hi. apply Hn. right. exact Hi.
Qed.

Lemma In_fvars_final (L : list factor) order x :
  In x (fvars (fprod_list R card (ve_run R card L order))) <-> occurs x L /\ ~ In x order.
Proof. rewrite In_fvars_fprod_list. apply occurs_ve_run. Qed.

Lemma occurs_reduce_all ev (fs : list factor) x :
  occurs x (reduce_all card R ev fs) <-> occurs x fs /\ ~ In x (map fst ev).
Proof.
  unfold reduce_all. split.
  - intros [f' [Hf' Hx]]. apply filter_In in Hf'. destruct Hf' as [Hf' _].
    apply in_map_iff in Hf'. destruct Hf' as [f [<- Hf]]. rewrite fvars_fred in Hx. apply In_vminus in Hx.
    destruct Hx as [Hx Hn]. split; [exists f; split; assumption|exact Hn].
  - intros [[f [Hf Hx]] Hn]. exists (fred R card ev f).
    assert (Hin : In x (fvars (fred R card ev f))) by (rewrite fvars_fred; apply In_vminus; split; assumption).
    split; [|exact Hin]. apply filter_In. split; [apply in_map; exact Hf|].
    destruct (fvars (fred R card ev f)); [destruct Hin|reflexivity].
Qed.

Lemma wf_reduce_all ev (fs : list factor) : Forall (wf R card) fs -> Forall (wf R card) (reduce_all card R ev fs).
Proof.
  intros H. unfold reduce_all. apply Forall_forall. intros f' Hf'. apply filter_In in Hf'. destruct Hf' as [Hf' _].
  apply in_map_iff in Hf'. destruct Hf' as [f [<- Hf]]. apply wf_fred. rewrite Forall_forall in H. apply H. exact Hf.
Qed.

(* a product of factors = (its empty-scope members, a constant) x (the others) *)
Definition nonnil (f : factor) : bool := negb (is_nil (fvars f)).
Definition nilpart (M : list factor) : list factor := filter (fun f => negb (nonnil f)) M.
Definition scal_of (M : list factor) : R := eval_prod R card (nilpart M) (fun _ => 0).

Lemma eval_prod_nilpart (M : list factor) a : eval_prod R card (nilpart M) a = scal_of M.
Proof.
  unfold scal_of, eval_prod. f_equal. apply map_ext_in. intros f Hf. apply filter_In in Hf. destruct Hf as [_ Hnil].
  unfold nonnil in Hnil. apply negb_true_iff, negb_false_iff in Hnil.
  apply (feval_depends_only R card f). intros v Hv. destruct (fvars f); [destruct Hv|discriminate].
Qed.
Lemma eval_prod_split_nil (M : list factor) a :
  eval_prod R card M a = mul (eval_prod R card (filter nonnil M) a) (scal_of M).
Proof. rewrite (prod_list_filter_split R card nonnil). fold (nilpart M). rewrite eval_prod_nilpart. reflexivity. Qed.

Lemma occurs_filter_nonnil (M : list factor) x : occurs x (filter nonnil M) <-> occurs x M.
Proof.
  split; intros [f [Hf Hx]]; exists f; (split; [|exact Hx]).
  - apply filter_In in Hf. apply Hf.
  - apply filter_In. split; [exact Hf|]. unfold nonnil. destruct (fvars f); [destruct Hx|reflexivity].
Qed.

Lemma In_fvars_final' (fs : list factor) ev order x :
  In x (fvars (final_factor card R fs ev order)) <-> occurs x (reduce_all card R ev fs) /\ ~ In x order.
Proof.
  unfold final_factor. rewrite In_fvars_fprod_list.
  change (occurs x (filter nonnil (ve_run R card (reduce_all card R ev fs) order)) <->
          occurs x (reduce_all card R ev fs) /\ ~ In x order).
  rewrite occurs_filter_nonnil. apply occurs_ve_run.
Qed.

(* product of the reduced factors = (scalars dropped by the working-factor dict) x (the working factors) *)
Definition scal ev (fs : list factor) : R := scal_of (map (fred R card ev) fs).

Lemma eval_prod_map_fred ev (fs : list factor) a : Forall (wf R card) fs -> valid card a ->
  eval_prod R card (map (fred R card ev) fs) a = eval_prod R card fs (upds a ev).
Proof.
  intros Hwf Ha. unfold eval_prod. induction Hwf as [|f fs Hf _ IH]; [reflexivity|]. simpl.
  rewrite IH. rewrite feval_fred by assumption. reflexivity.
Qed.

Lemma clamped_split ev (fs : list factor) a : Forall (wf R card) fs -> valid card a ->
  eval_prod R card fs (upds a ev) = mul (eval_prod R card (reduce_all card R ev fs) a) (scal ev fs).
Proof.
  intros Hwf Ha. rewrite <- eval_prod_map_fred by assumption. apply eval_prod_split_nil.
Qed.
End Scopes.

(* ---- non-negativity (sum-product over Qc) ----------------------------------------------------------- *)
Section NonNeg.
Variable card : var -> nat.
Hypothesis card_pos : forall v, 0 < card v.
Notation qfactor := (factor Qc_sum_csr).
Notation feval := (feval Qc_sum_csr card).
Notation wf := (wf Qc_sum_csr card).
Notation valid := (valid card).
Notation eval_prod := (eval_prod Qc_sum_csr card).

Lemma feval_nonneg (f : qfactor) a : nonneg f -> (Q2Qc 0 <= feval f a)%Qc.
Proof.
  intros H. unfold RefFactor.feval, t_get. unfold nonneg in H. rewrite Forall_forall in H.
  destruct (Nat.lt_ge_cases (ravel (fcard _ card f) (map a (fvars f))) (length (fvals f))) as [Hlt|Hge].
  - apply H. apply nth_In. exact Hlt.
  - rewrite nth_overflow by exact Hge. apply Qcle_refl.
Qed.

Lemma Qc_mul_nonneg (x y : Qc) : (Q2Qc 0 <= x)%Qc -> (Q2Qc 0 <= y)%Qc -> (Q2Qc 0 <= x * y)%Qc.
Proof.
  intros Hx Hy. replace (Q2Qc 0) with (Q2Qc 0 * y)%Qc by ring. apply Qcmult_le_compat_r; assumption.
Qed.
Lemma Qc_add_nonneg (x y : Qc) : (Q2Qc 0 <= x)%Qc -> (Q2Qc 0 <= y)%Qc -> (Q2Qc 0 <= x + y)%Qc.
Proof.
  intros Hx Hy. replace (Q2Qc 0) with (Q2Qc 0 + Q2Qc 0)%Qc by ring. apply Qcplus_le_compat; assumption.
Qed.

Lemma eval_prod_nonneg_gen (P : qfactor -> Prop) (L : list qfactor) a :
  (forall f, In f L -> (Q2Qc 0 <= feval f a)%Qc) -> (Q2Qc 0 <= eval_prod L a)%Qc.
Proof.
  intros H. unfold RefFactor.eval_prod. induction L as [|f L IH]; simpl.
  - unfold Qcle. simpl. unfold Qle. simpl. lia.
  - apply Qc_mul_nonneg; [apply H; left; reflexivity|apply IH; intros g Hg; apply H; right; exact Hg].
Qed.

Lemma sum_list_nonneg (l : list Qc) : Forall (fun x => (Q2Qc 0 <= x)%Qc) l ->
  (Q2Qc 0 <= sum_list (R := Qc_sum_csr) l)%Qc.
Proof.
  induction 1 as [|x l Hx _ IH]; simpl; [apply Qcle_refl|]. apply Qc_add_nonneg; assumption.
Qed.

Lemma sum_over_nonneg vs : forall (g : asg -> Qc) a, valid a ->
  (forall b, valid b -> (Q2Qc 0 <= g b)%Qc) ->
  (Q2Qc 0 <= sum_over (R := Qc_sum_csr) vs (map card vs) g a)%Qc.
Proof.
  induction vs as [|v vs IH]; intros g a Ha H; [apply H; exact Ha|].
  cbn [map sum_over]. apply sum_list_nonneg. apply Forall_forall. intros x Hx.
  apply in_map_iff in Hx. destruct Hx as [i [<- Hi]]. apply in_seq in Hi.
  apply IH; [apply valid_upd; [exact Ha|lia]|exact H].
Qed.

(* all entries of a wf table are values at valid assignments *)
Lemma entries_are_values (f : qfactor) (P : Qc -> Prop) : wf f ->
  (forall a, valid a -> P (feval f a)) -> Forall P (fvals f).
Proof.
  intros Hwf H. apply Forall_forall. intros x Hx. apply In_nth with (d := Q2Qc 0) in Hx.
  destruct Hx as [n [Hn0 <-]]. destruct Hwf as [Hnd Hlen].
  assert (Hn : n < prod (fcard _ card f)) by (rewrite <- Hlen; exact Hn0).
  pose proof (feval_asg_of_unravel card f n (conj Hnd Hlen) Hn) as E.
  assert (HP : P (feval f (asg_of (fvars f) (unravel (fcard _ card f) n)))).
  { apply H. apply asg_of_valid; [exact card_pos|]. apply unravel_in_range. exact Hn. }
  rewrite E in HP. exact HP.
Qed.

Lemma wf_nonempty (f : qfactor) : wf f -> fvals f <> [].
Proof.
  intros [_ Hlen] E. rewrite E in Hlen. simpl in Hlen.
  assert (0 < prod (fcard _ card f)).
  { apply prod_pos. unfold fcard. apply Forall_forall. intros c Hc. apply in_map_iff in Hc.
    destruct Hc as [v [<- _]]. apply card_pos. }
  lia.
Qed.

Lemma table_sum_nonneg (l : list Qc) : Forall (fun x => (Q2Qc 0 <= x)%Qc) l -> (Q2Qc 0 <= table_sum l)%Qc.
Proof. exact (sum_list_nonneg l). Qed.

Lemma table_sum_zero (l : list Qc) : Forall (fun x => (Q2Qc 0 <= x)%Qc) l -> table_sum l = Q2Qc 0 ->
  Forall (fun x => x = Q2Qc 0) l.
Proof.
  induction 1 as [|x l Hx Hl IH]; intros Hs; constructor; simpl in Hs.
  - pose proof (table_sum_nonneg l Hl) as Hn. apply Qcle_antisym; [|exact Hx].
    rewrite <- Hs. replace x with (x + Q2Qc 0)%Qc at 1 by ring. apply Qcplus_le_compat; [apply Qcle_refl|exact Hn].
  - apply IH. pose proof (table_sum_nonneg l Hl) as Hn. apply Qcle_antisym; [|exact Hn].
    rewrite <- Hs. replace (table_sum l) with (Q2Qc 0 + table_sum l)%Qc at 1 by ring.
    apply Qcplus_le_compat; [exact Hx|apply Qcle_refl].
Qed.
End NonNeg.

(* ---- the query ---------------------------------------------------------------------------------------- *)
Section MapQuery.
Variable card : var -> nat.
Notation qfactor := (factor Qc_sum_csr).
Notation feval := (feval Qc_sum_csr card).
Notation wf := (wf Qc_sum_csr card).
Notation valid := (valid card).
Notation eval_prod := (eval_prod Qc_sum_csr card).
Notation occurs := (occurs Qc_sum_csr).

Lemma In_allvars (fs : list qfactor) x : In x (allvars fs) <-> occurs x fs.
Proof.
  unfold allvars. rewrite nodup_In, in_flat_map. split; intros [f H]; exists f; exact H.
Qed.
Lemma In_rest_vars fs Q ev x :
  In x (rest_vars fs Q ev) <-> occurs x fs /\ ~ In x Q /\ ~ In x (map fst ev).
Proof. unfold rest_vars. rewrite !In_vminus, In_allvars. tauto. Qed.
Lemma NoDup_rest_vars fs Q ev : NoDup (rest_vars fs Q ev).
Proof. unfold rest_vars, vminus. apply NoDup_filter, NoDup_filter. apply NoDup_nodup. Qed.

Lemma clamped_ext fs ev : ext (R := Qc_sum_csr) (clamped card fs ev).
Proof.
  intros a b Hab. unfold clamped. apply eval_prod_ext. intros v. revert v.
  induction ev as [|[w i] ev IH]; intros v; [apply Hab|]. cbn [upds]. unfold upd.
  destruct (Nat.eqb v w); [reflexivity|apply IH].
Qed.

Section Fixed.
Variables (fs : list qfactor) (Q : list var) (ev : list (var * nat)) (order : list var).
Hypothesis Hq : wf_query card fs Q ev.
Hypothesis Hc : covers fs Q ev order.

Let L := reduce_all card Qc_sum_csr ev fs.
Let M := ve_run Qc_sum_csr card L order.
Let phi := final_factor card Qc_sum_csr fs ev order.
(* the constants that never reach the final table: fully observed factors, and eliminated components *)
Definition drop_const : Qc := (scal Qc_sum_csr card ev fs * scal_of Qc_sum_csr card M)%Qc.

Lemma card_pos : forall v, 0 < card v. Proof. apply Hq. Qed.
Lemma wf_L : Forall wf L. Proof. apply wf_reduce_all. apply Hq. Qed.
Lemma wf_M : Forall wf M. Proof. apply ve_run_wf. exact wf_L. Qed.
Lemma wf_filter (p : qfactor -> bool) (N : list qfactor) : Forall wf N -> Forall wf (filter p N).
Proof. intros H. rewrite Forall_forall in *. intros f Hf. apply filter_In in Hf. apply H, Hf. Qed.
Lemma wf_phi : wf phi.
Proof.
  unfold phi, final_factor, fprod_list. apply wf_fold_fprod; [apply wf_fbuild; constructor|].
  apply wf_filter. exact wf_M.
Qed.

Lemma fok_any (N : list qfactor) : Forall (fok Qc_sum_csr card) N.
Proof. apply Forall_forall. intros f _ a _. exact I. Qed.

(* pointwise non-negativity is an invariant of the elimination loop *)
Definition nn (f : qfactor) : Prop := forall a, valid a -> (Q2Qc 0 <= feval f a)%Qc.
Lemma nn_step (N : list qfactor) v : Forall wf N -> Forall nn N -> Forall nn (ve_step Qc_sum_csr card N v).
Proof.
  intros Hwf Hnn. unfold ve_step. constructor.
  - intros a Ha.
    assert (HwfS : Forall wf (filter (mentions Qc_sum_csr v) N)) by (apply wf_filter; exact Hwf).
    rewrite feval_fmarg; [|unfold fprod_list; apply wf_fold_fprod; [apply wf_fbuild; constructor|exact HwfS]|exact Ha].
    apply (sum_over_nonneg card); [exact Ha|]. intros b Hb. rewrite feval_fprod_list by assumption.
    apply (eval_prod_nonneg_gen card (fun _ => True)). intros f Hf. apply filter_In in Hf.
    rewrite Forall_forall in Hnn. apply Hnn; [apply Hf|exact Hb].
  - rewrite Forall_forall in *. intros f Hf. apply filter_In in Hf. apply Hnn, Hf.
Qed.
Lemma nn_run ord : forall N, Forall wf N -> Forall nn N -> Forall nn (ve_run Qc_sum_csr card N ord).
Proof.
  induction ord as [|v ord IH]; intros N Hwf Hnn; [exact Hnn|]. cbn [ve_run fold_left].
  apply IH; [apply ve_step_wf; exact Hwf|apply nn_step; assumption].
Qed.
Lemma nn_L : Forall nn L.
Proof.
  apply Forall_forall. intros f' Hf' b Hb.
  unfold L, reduce_all in Hf'. apply filter_In in Hf'. destruct Hf' as [Hf' _].
  apply in_map_iff in Hf'. destruct Hf' as [f [<- Hf]].
  destruct Hq as [_ [Hwf [Hnn _]]]. rewrite Forall_forall in Hwf, Hnn.
  rewrite feval_fred; [|apply Hwf; exact Hf|exact Hb]. apply feval_nonneg. apply Hnn. exact Hf.
Qed.
Lemma nn_M : Forall nn M. Proof. apply nn_run; [exact wf_L|exact nn_L]. Qed.

Lemma eval_prod_nn (N : list qfactor) a : Forall nn N -> valid a -> (Q2Qc 0 <= eval_prod N a)%Qc.
Proof.
  intros H Ha. apply (eval_prod_nonneg_gen card (fun _ => True)). intros f Hf.
  rewrite Forall_forall in H. apply H; assumption.
Qed.
Lemma nn_filter (p : qfactor -> bool) (N : list qfactor) : Forall nn N -> Forall nn (filter p N).
Proof. intros H. rewrite Forall_forall in *. intros f Hf. apply filter_In in Hf. apply H, Hf. Qed.

Lemma feval_phi a : valid a ->
  (feval phi a * scal_of Qc_sum_csr card M)%Qc = sum_over (R := Qc_sum_csr) order (map card order) (eval_prod L) a.
Proof.
  intros Ha. unfold phi, final_factor. rewrite feval_fprod_list; [|apply wf_filter; exact wf_M|exact Ha].
  rewrite <- (ve_run_correct Qc_sum_csr card order L a); [|exact wf_L|apply fok_any|apply Hc| |exact Ha].
  - fold M. symmetry. apply (eval_prod_split_nil Qc_sum_csr card M a).
  - intros v Hv. apply occurs_reduce_all. destruct Hc as [_ Hcov]. apply Hcov in Hv. tauto.
Qed.

Lemma In_fvars_phi x : In x (fvars phi) <-> In x Q.
Proof.
  unfold phi. rewrite In_fvars_final', occurs_reduce_all.
  destruct Hc as [_ Hcov]. destruct Hq as [_ [_ [_ [_ [HQocc [_ [_ HQev]]]]]]]. split.
  - intros [[Ho Hne] Hno]. destruct (in_dec Nat.eq_dec x Q) as [H|H]; [exact H|].
    exfalso. apply Hno. apply Hcov. tauto.
  - intros HQ. split; [split; [apply HQocc; exact HQ|apply HQev; exact HQ]|].
    intros Ho. apply Hcov in Ho. tauto.
Qed.

Lemma valid0 : valid (fun _ => 0). Proof. intros v. apply card_pos. Qed.

Lemma c_nonneg : (Q2Qc 0 <= drop_const)%Qc.
Proof.
  unfold drop_const. apply Qc_mul_nonneg.
  - unfold scal, scal_of. apply eval_prod_nn; [|exact valid0]. apply nn_filter.
    apply Forall_forall. intros f' Hf' b Hb. apply in_map_iff in Hf'. destruct Hf' as [f [<- Hf]].
    destruct Hq as [_ [Hwf [Hnn _]]]. rewrite Forall_forall in Hwf, Hnn.
    rewrite feval_fred; [|apply Hwf; exact Hf|exact Hb]. apply feval_nonneg. apply Hnn. exact Hf.
  - unfold scal_of. apply eval_prod_nn; [|exact valid0]. apply nn_filter. exact nn_M.
Qed.

Lemma feval_phi_nonneg a : valid a -> (Q2Qc 0 <= feval phi a)%Qc.
Proof.
  intros Ha. unfold phi, final_factor. rewrite feval_fprod_list; [|apply wf_filter; exact wf_M|exact Ha].
  apply eval_prod_nn; [|exact Ha]. apply nn_filter. exact nn_M.
Qed.

(* the brute-force weight is the final VE table up to the (constant, non-negative) dropped scalars *)
Theorem weight_eq a : valid a -> weight card fs Q ev a = (drop_const * feval phi a)%Qc.
Proof.
  intros Ha. unfold weight.
  assert (HP : Permutation (rest_vars fs Q ev) order).
  { apply NoDup_Permutation; [apply NoDup_rest_vars|apply Hc|]. intros x. rewrite In_rest_vars.
    destruct Hc as [_ Hcov]. rewrite Hcov. tauto. }
  rewrite (sum_over_perm Qc_sum_csr card _ _ _ HP (clamped_ext fs ev)).
  rewrite (sum_over_ext_valid Qc_sum_csr card order (clamped card fs ev)
             (fun b => @mul Qc_sum_csr ((fun _ => scal Qc_sum_csr card ev fs) b) (eval_prod L b)) a Ha).
  2:{ intros b Hb. unfold clamped. rewrite (clamped_split Qc_sum_csr card ev fs b); [|apply Hq|exact Hb].
      apply mul_comm. }
  rewrite (sum_over_mul_l Qc_sum_csr order (map card order) (fun _ => scal Qc_sum_csr card ev fs) (eval_prod L) a).
  - rewrite <- feval_phi by exact Ha. unfold drop_const. simpl. ring.
  - intros v _ b i. reflexivity.
  - intros b. exact I.
Qed.

(* the table handed to argmax: optionally transposed, optionally normalised *)
Definition axes_ok (axes : option (list var)) : Prop :=
  match axes with Some ax => NoDup ax /\ (forall v, In v ax <-> In v Q) | None => True end.
Definition phi_t (axes : option (list var)) : qfactor :=
  match axes with Some ax => ftranspose card ax phi | None => phi end.

Lemma wf_phi_t axes : axes_ok axes -> wf (phi_t axes).
Proof. destruct axes as [ax|]; intros H; [apply wf_fbuild; apply H|exact wf_phi]. Qed.
Lemma feval_phi_t axes a : axes_ok axes -> valid a -> feval (phi_t axes) a = feval phi a.
Proof.
  destruct axes as [ax|]; [intros [Hnd Hin] Ha|reflexivity]. unfold phi_t, ftranspose.
  apply feval_fbuild; [exact Hnd|exact Ha|].
  eapply depends_only_mono; [apply feval_depends_only|]. intros v Hv. apply Hin. apply In_fvars_phi. exact Hv.
Qed.
Lemma In_fvars_phi_t axes x : axes_ok axes -> (In x (fvars (phi_t axes)) <-> In x Q).
Proof. destruct axes as [ax|]; intros H; [apply H|apply In_fvars_phi]. Qed.

Lemma phi_t_nonneg axes : axes_ok axes -> nonneg (phi_t axes).
Proof.
  intros Hax. apply (entries_are_values card card_pos); [apply wf_phi_t; exact Hax|].
  intros a Ha. rewrite feval_phi_t by assumption. apply feval_phi_nonneg. exact Ha.
Qed.

(* argmax + assignment on that table gives a MAP *)
Lemma map_of_factor_is_map axes r : axes_ok axes ->
  map_of_factor card (phi_t axes) = Some r -> is_map card fs Q ev r.
Proof.
  intros Hax Hr. pose proof (wf_phi_t axes Hax) as Hwf.
  destruct (map_of_factor_optimal card (phi_t axes) Hwf (wf_nonempty card card_pos _ Hwf))
    as [idx [Hm [Hrange [_ Hopt]]]].
  rewrite Hm in Hr. injection Hr as <-.
  assert (Hlen : length idx = length (fvars (phi_t axes))).
  { rewrite (in_range_length _ _ Hrange). unfold fcard. apply map_length. }
  split; [|split; [|split]].
  - rewrite map_fst_combine by exact Hlen. apply Hwf.
  - intros v. rewrite map_fst_combine by exact Hlen. apply In_fvars_phi_t. exact Hax.
  - apply (in_combine_range card _ _ _ Hrange eq_refl).
  - intros q Hvq.
    assert (Hva : valid (asg_of (fvars (phi_t axes)) idx)) by (apply asg_of_valid; [exact card_pos|exact Hrange]).
    assert (Hvr : valid (asg_of_pairs (combine (fvars (phi_t axes)) idx))).
    { intros v. rewrite asg_of_pairs_combine by exact Hlen. apply Hva. }
    rewrite !weight_eq by assumption.
    rewrite (feval_ext Qc_sum_csr card phi (asg_of_pairs (combine (fvars (phi_t axes)) idx))
               (asg_of (fvars (phi_t axes)) idx)) by (intros v; apply asg_of_pairs_combine; exact Hlen).
    rewrite <- (feval_phi_t axes q Hax Hvq), <- (feval_phi_t axes _ Hax Hva).
    rewrite !(Qcmult_comm drop_const). apply Qcmult_le_compat_r; [apply Hopt; exact Hvq|exact c_nonneg].
Qed.

(* normalisation (division of the whole table by its positive sum) does not change the answer *)
Lemma map_of_factor_normalized (f p : qfactor) : nonneg f -> fnormalize f = Some p ->
  map_of_factor card p = map_of_factor card f.
Proof.
  intros Hnn Hp. unfold fnormalize in Hp. destruct (Qc_eq_dec (table_sum (fvals f)) (Q2Qc 0)) as [|Hne]; [discriminate|].
  injection Hp as <-. unfold map_of_factor, fcard. cbn [fvars fvals].
  rewrite argmax_div; [reflexivity|].
  pose proof (table_sum_nonneg _ Hnn) as H0.
  destruct (Qclt_le_dec (Q2Qc 0) (table_sum (fvals f))) as [H|H]; [exact H|].
  exfalso. apply Hne. apply Qcle_antisym; assumption.
Qed.

Theorem map_optimal norm axes r : axes_ok axes ->
  map_query card norm fs ev order axes = Some r -> is_map card fs Q ev r.
Proof.
  intros Hax Hr. unfold map_query in Hr. fold phi in Hr. change (match axes with Some ax => ftranspose card ax phi | None => phi end) with (phi_t axes) in Hr.
  destruct norm.
  - destruct (fnormalize (phi_t axes)) as [p|] eqn:Hp; [|discriminate].
    rewrite (map_of_factor_normalized _ _ (phi_t_nonneg axes Hax) Hp) in Hr.
    apply (map_of_factor_is_map axes r Hax Hr).
  - apply (map_of_factor_is_map axes r Hax Hr).
Qed.

(* the query answers whenever the evidence has non-zero mass (always, without normalisation) *)
Theorem map_defined norm axes : axes_ok axes ->
  norm = false \/ evidence_mass card fs Q ev <> Q2Qc 0 ->
  exists r, map_query card norm fs ev order axes = Some r.
Proof.
  intros Hax Hmass. pose proof (wf_phi_t axes Hax) as Hwf.
  destruct (map_of_factor_optimal card (phi_t axes) Hwf (wf_nonempty card card_pos _ Hwf)) as [idx [Hm _]].
  unfold map_query. fold phi. change (match axes with Some ax => ftranspose card ax phi | None => phi end) with (phi_t axes).
  destruct norm; [|eexists; exact Hm].
  destruct Hmass as [|Hmass]; [discriminate|].
  destruct (fnormalize (phi_t axes)) as [p|] eqn:Hp.
  - rewrite (map_of_factor_normalized _ _ (phi_t_nonneg axes Hax) Hp). eexists; exact Hm.
  - exfalso. apply Hmass. unfold fnormalize in Hp.
    destruct (Qc_eq_dec (table_sum (fvals (phi_t axes))) (Q2Qc 0)) as [Hz|]; [|discriminate].
    pose proof (table_sum_zero _ (phi_t_nonneg axes Hax) Hz) as Hall.
    assert (Hzero : forall a, valid a -> weight card fs Q ev a = Q2Qc 0).
    { intros a Ha. rewrite weight_eq by exact Ha. rewrite <- (feval_phi_t axes a Hax Ha).
      assert (E : feval (phi_t axes) a = Q2Qc 0).
      { rewrite Forall_forall in Hall. unfold RefFactor.feval, t_get. apply Hall. apply nth_In.
        destruct Hwf as [_ Hlen]. rewrite Hlen. apply ravel_lt. apply valid_in_range. exact Ha. }
      rewrite E. ring. }
    unfold evidence_mass.
    assert (Hv0 : valid (fun _ => 0)) by (intros v; apply card_pos).
    rewrite (sum_over_ext_valid Qc_sum_csr card Q (weight card fs Q ev) (fun _ => Q2Qc 0) _ Hv0 Hzero).
    clear. generalize (fun _ : var => 0). induction Q as [|v vs IH]; intros a; [reflexivity|].
    cbn [map sum_over]. induction (seq 0 (card v)) as [|i l IHl]; [reflexivity|].
    simpl. rewrite IH. simpl in IHl. rewrite IHl. reflexivity.
Qed.
End Fixed.
End MapQuery.
