(* C03 specification: what "a MAP assignment" means, by brute force over the product of the factors.
   No algorithm here: sums over ALL joint values of the remaining variables, comparison with ALL joint
   assignments of the query variables. *)
From Coq Require Import List Arith Lia PeanoNat Bool QArith Qcanon.
From PV Require Import Base.Semiring Base.Ravel Base.FinSum Base.RefFactor Base.VE.
Import ListNotations.
Local Open Scope nat_scope.

Section Spec.
Variable card : var -> nat.
Notation qfactor := (factor Qc_sum_csr).

(* every variable mentioned by some factor, once *)
Definition allvars (fs : list qfactor) : list var := nodup Nat.eq_dec (flat_map (@fvars Qc_sum_csr) fs).
(* the variables that are neither queried nor observed *)
Definition rest_vars (fs : list qfactor) (Q : list var) (ev : list (var * nat)) : list var :=
  vminus (vminus (allvars fs) Q) (map fst ev).

(* product of all factors (for a Bayesian network: of all CPDs, plus one unary factor per virtual
   evidence) at the assignment that takes the observed values on the evidence variables *)
Definition clamped (fs : list qfactor) (ev : list (var * nat)) (a : asg) : Qc :=
  eval_prod Qc_sum_csr card fs (upds a ev).

(* unnormalised posterior weight of the joint assignment a|Q:  w(q) = SUM_rest PROD_f f(q, e, rest)
   (= P(q, e) for a Bayesian network; P(q | e) = w(q) / SUM_q' w(q')) *)
Definition weight (fs : list qfactor) (Q : list var) (ev : list (var * nat)) (a : asg) : Qc :=
  let rest := rest_vars fs Q ev in
  sum_over (R := Qc_sum_csr) rest (map card rest) (clamped fs ev) a.

(* probability of the evidence (BN) / partition mass compatible with the evidence (MN) *)
Definition evidence_mass (fs : list qfactor) (Q : list var) (ev : list (var * nat)) : Qc :=
  sum_over (R := Qc_sum_csr) Q (map card Q) (weight fs Q ev) (fun _ => 0).

(* a returned result [(variable, state number)] read as an assignment *)
Definition asg_of_pairs (r : list (var * nat)) : asg := upds (fun _ => 0) r.

(* r is a MAP answer for the query variables Q given evidence ev:
   exactly the requested variables are assigned (each once), every value is a state of its variable, and
   no joint assignment of Q has a larger posterior weight (ties are free) *)
Definition is_map (fs : list qfactor) (Q : list var) (ev : list (var * nat)) (r : list (var * nat)) : Prop :=
  NoDup (map fst r) /\
  (forall v, In v (map fst r) <-> In v Q) /\
  (forall v i, In (v, i) r -> i < card v) /\
  forall q : asg, valid card q -> (weight fs Q ev q <= weight fs Q ev (asg_of_pairs r))%Qc.

(* well-formed query: positive cardinalities, well-formed non-negative tables, duplicate-free query
   variables that occur in the model and are disjoint from the evidence, evidence = one valid state for
   each of its (distinct) variables *)
Definition nonneg (f : qfactor) : Prop := Forall (fun x : Qc => (Q2Qc 0 <= x)%Qc) (fvals f).
Definition wf_query (fs : list qfactor) (Q : list var) (ev : list (var * nat)) : Prop :=
  (forall v, 0 < card v) /\
  Forall (wf Qc_sum_csr card) fs /\ Forall nonneg fs /\
  NoDup Q /\ (forall v, In v Q -> occurs Qc_sum_csr v fs) /\
  NoDup (map fst ev) /\ (forall v i, In (v, i) ev -> i < card v) /\
  (forall v, In v Q -> ~ In v (map fst ev)).

(* an elimination order is admissible when it lists, without repetition, exactly the variables of the
   model that are neither queried nor observed *)
Definition covers (fs : list qfactor) (Q : list var) (ev : list (var * nat)) (order : list var) : Prop :=
  NoDup order /\
  forall v, In v order <-> (occurs Qc_sum_csr v fs /\ ~ In v Q /\ ~ In v (map fst ev)).
End Spec.
