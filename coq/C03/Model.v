(* C03 model: MAP queries.  Executable definitions only (no proofs).

   What is modelled (pgmpy/inference/ExactInference.py, pgmpy/factors/discrete/DiscreteFactor.py):

   * compat_fns.argmax(values)      = np.argmax of the C-order flattened table: FIRST index of the maximum
                                      -> [argmax_first]
   * DiscreteFactor.assignment([n]) = decode of the flat index n: loop over the REVERSED cardinalities,
                                      digit = n % card, n = n // card, then flip the digits; guarded by
                                      "index <= prod(cardinality) - 1" (IndexError otherwise)
                                      -> [assignment] (None = IndexError)
     (the state-NAME lookup get_state_names(var, digit) is a per-variable list lookup done by the harness
      side of the wire: the model speaks state numbers, names are interned by the harness)
   * the last lines of map_query:     argmax + assignment([argmax])[0] zipped with the factor's own
                                      variable order -> [map_of_factor]
   * VariableElimination.map_query:   working factors = every factor reduced by the evidence (factors whose
                                      scope becomes empty disappear from the working_factors dict, which is
                                      keyed by the variables of the reduced scope), sum-product elimination of
                                      the non-query variables in some order (Base/VE.ve_run, any order
                                      parameter), product of what is left, normalisation for Bayesian
                                      networks only, argmax, assignment      -> [map_query]
     The axis order of the final product depends on set iteration order (hash seed): it is an explicit
     parameter [axes] (None = the order in which the reference algebra happens to build it).
   * VariableElimination.max_marginal: same loop with operation = "maximize" (Base/VE over the max-product
                                      semiring Qc_max_csr), normalised for BNs (joint=True default of
                                      _variable_elimination), then max of the table -> [max_marginal]
   * BeliefPropagation.map_query:     calibrate + _query(joint=True) produce the joint marginal of the query
                                      variables (property C02) in SOME axis order; the last three lines are the
                                      same argmax/assignment code -> modelled by [map_query] with an [axes]
                                      parameter (the harness checks BP's output with the verified checker).
   * BayesianNetwork.predict:         per distinct row, map_query(variables = missing columns, evidence = row)
                                      -> the harness calls [map_query] / the checker per row. *)
From Coq Require Import List Arith Lia PeanoNat Bool QArith Qcanon.
From PV Require Import Base.Semiring Base.Ravel Base.FinSum Base.RefFactor Base.VE.
Import ListNotations.
Local Open Scope nat_scope.

(* cardinality function from the list sent by the harness: variable v has cardinality cl[v]; variables
   beyond the list have one state *)
Definition card_of (cl : list nat) (v : var) : nat := nth v cl 1.

(* ---- argmax: first index of the maximum (np.argmax) ------------------------------------------------- *)
Fixpoint argmax_from (l : list Qc) (i besti : nat) (best : Qc) : nat :=
  match l with
  | [] => besti
  | x :: r => if Qclt_le_dec best x then argmax_from r (S i) i x else argmax_from r (S i) besti best
  end.
Definition argmax_first (l : list Qc) : nat :=
  match l with [] => 0 | x :: r => argmax_from r 1 0 x end.

(* ---- DiscreteFactor.assignment ------------------------------------------------------------------------ *)
(* the loop "for i, card in enumerate(rev_card): assignments[:, i] = index % card; index = index // card" *)
Fixpoint digits_rev (rev_card : list nat) (n : nat) : list nat :=
  match rev_card with
  | [] => []
  | c :: cs => n mod c :: digits_rev cs (n / c)
  end.
(* guard, loop over cardinality[::-1], flip *)
Definition assignment (cards : list nat) (n : nat) : option (list nat) :=
  if n <? prod cards then Some (rev (digits_rev (rev cards) n)) else None.

Section Model.
Variable card : var -> nat.

Definition qfactor := factor Qc_sum_csr.
Definition mfactor := factor Qc_max_csr.

(* argmax = compat_fns.argmax(f.values); f.assignment([argmax])[0]  ->  [(var, state number)] in f's own
   axis order *)
Definition map_of_factor (f : qfactor) : option (list (var * nat)) :=
  match assignment (fcard _ card f) (argmax_first (fvals f)) with
  | Some idx => Some (combine (fvars f) idx)
  | None => None
  end.

(* DiscreteFactor.normalize: values / values.sum(); a zero sum gives NaNs in pgmpy = None here *)
Definition table_sum (l : list Qc) : Qc := fold_right Qcplus (Q2Qc 0) l.
Definition fnormalize (f : qfactor) : option qfactor :=
  let s := table_sum (fvals f) in
  if Qc_eq_dec s (Q2Qc 0) then None
  else Some (Build_factor Qc_sum_csr (fvars f) (map (fun x : Qc => Qcdiv x s) (fvals f))).

(* the same table with its axes in the order [axes] *)
Definition ftranspose (axes : list var) (f : qfactor) : qfactor :=
  fbuild Qc_sum_csr card axes (feval Qc_sum_csr card f).

Definition is_nil {A} (l : list A) : bool := match l with [] => true | _ => false end.

Section AnyCsr.
Variable R : csr.
(* _get_working_factors: reduce every factor by the evidence; a factor whose reduced scope is empty is
   registered under no variable and so takes no part in the elimination *)
Definition reduce_all (ev : list (var * nat)) (fs : list (factor R)) : list (factor R) :=
  filter (fun f => negb (is_nil (fvars f))) (map (fred R card ev) fs).
(* the elimination loop and the product of the factors that are left.  An elimination step whose result
   has an empty scope (the eliminated variable's component contains no query variable) is likewise
   registered under no variable: such scalars never reach the final product *)
Definition final_factor (fs : list (factor R)) (ev : list (var * nat)) (order : list var) : factor R :=
  fprod_list R card (filter (fun f => negb (is_nil (fvars f))) (ve_run R card (reduce_all ev fs) order)).
End AnyCsr.

(* VariableElimination.map_query; norm = isinstance(model, BayesianNetwork) *)
Definition map_query (norm : bool) (fs : list qfactor) (ev : list (var * nat)) (order : list var)
  (axes : option (list var)) : option (list (var * nat)) :=
  let phi := final_factor Qc_sum_csr fs ev order in
  let phi := match axes with Some ax => ftranspose ax phi | None => phi end in
  if norm then match fnormalize phi with Some p => map_of_factor p | None => None end
  else map_of_factor phi.

(* VariableElimination.max_marginal *)
Definition to_max (f : qfactor) : mfactor := Build_factor Qc_max_csr (fvars f) (fvals f).
Definition max_list (l : list Qc) : Qc :=
  match l with [] => Q2Qc 0 | x :: r => fold_left Qcmax r x end.
Definition max_marginal_raw (fs : list qfactor) (ev : list (var * nat)) (order : list var) : Qc :=
  max_list (fvals (final_factor Qc_max_csr (map to_max fs) ev order)).
Definition max_marginal (norm : bool) (fs : list qfactor) (ev : list (var * nat)) (order : list var)
  : option Qc :=
  let vals : list Qc := fvals (final_factor Qc_max_csr (map to_max fs) ev order) in
  if norm then
    let s := table_sum vals in
    if Qc_eq_dec s (Q2Qc 0) then None else Some (max_list (map (fun x => Qcdiv x s) vals))
  else Some (max_list vals).
End Model.
