(* C03 proofs, part 3: the checker decides the specification. *)
From Coq Require Import List Arith Lia PeanoNat Bool QArith Qcanon.
From PV Require Import Base.Semiring Base.Ravel Base.FinSum Base.RefFactor Base.VE
  C03.Model C03.Spec C03.Checker C03.ProofsDecode C03.ProofsMap.
Import ListNotations.
Local Open Scope nat_scope.

Lemma nodupb_NoDup l : nodupb l = true <-> NoDup l.
Proof.
  induction l as [|x r IH]; simpl; [split; [constructor|reflexivity]|].
  rewrite andb_true_iff, negb_true_iff, memv_false, IH. split.
  - intros [H1 H2]. constructor; assumption.
  - intros H. inversion H; subst. split; assumption.
Qed.
Lemma same_setb_iff a b : same_setb a b = true <-> (forall v, In v a <-> In v b).
Proof.
  unfold same_setb. rewrite andb_true_iff, !forallb_forall. split.
  - intros [H1 H2] v. split; intros H; apply memv_In; [apply H1|apply H2]; exact H.
  - intros H. split; intros x Hx; apply memv_In; apply H; exact Hx.
Qed.
Lemma Qc_leb_le a b : Qc_leb a b = true <-> (a <= b)%Qc.
Proof.
  unfold Qc_leb. destruct (Qclt_le_dec b a) as [H|H]; split; intros H'; try discriminate; try reflexivity; try assumption.
  exfalso. exact (Qclt_not_le _ _ H H').
Qed.

Section Chk.
Variable card : var -> nat.
Hypothesis card_pos : forall v, 0 < card v.
Notation qfactor := (factor Qc_sum_csr).
Notation valid := (valid card).

Lemma upds_agree (a b : asg) ev v : (a v = b v \/ In v (map fst ev)) -> upds a ev v = upds b ev v.
Proof.
  induction ev as [|[w i] ev IH]; intros H; cbn [upds].
  - destruct H as [H|[]]. exact H.
  - unfold upd. destruct (Nat.eqb v w) eqn:E; [reflexivity|]. apply IH.
    destruct H as [H|[H|H]]; [left; exact H| |right; exact H].
    simpl in H. subst. rewrite Nat.eqb_refl in E. discriminate.
Qed.

(* the weight only looks at the query variables *)
Lemma weight_depends_only (fs : list qfactor) Q ev : depends_only (R := Qc_sum_csr) (weight card fs Q ev) Q.
Proof.
  unfold weight.
  assert (Hd : depends_only (R := Qc_sum_csr) (clamped card fs ev) (vminus (allvars fs) (map fst ev))).
  { intros a b Hab. unfold clamped, eval_prod. f_equal. apply map_ext_in. intros f Hf.
    apply feval_depends_only. intros v Hv. apply upds_agree.
    destruct (in_dec Nat.eq_dec v (map fst ev)) as [Hi|Hi]; [right; exact Hi|left].
    apply Hab. apply In_vminus. split; [|exact Hi]. apply In_allvars. exists f. split; assumption. }
  eapply depends_only_mono.
  - apply sum_over_depends_only; [exact Hd|symmetry; apply map_length].
  - intros v Hv. apply filter_In in Hv. destruct Hv as [Hv Hnr]. apply In_vminus in Hv. destruct Hv as [Hall Hnev].
    apply negb_true_iff in Hnr. fold (memv v (rest_vars fs Q ev)) in Hnr. apply memv_false in Hnr.
    destruct (in_dec Nat.eq_dec v Q) as [H|H]; [exact H|exfalso].
    apply Hnr. apply (In_rest_vars card). split; [apply In_allvars; exact Hall|split; assumption].
Qed.

Lemma all_asgs_valid Q q : In q (all_asgs card Q) -> valid q.
Proof.
  unfold all_asgs. intros H. apply in_map_iff in H. destruct H as [n [<- Hn]]. apply in_seq in Hn.
  apply asg_of_valid; [exact card_pos|]. apply unravel_in_range. lia.
Qed.

Lemma all_asgs_complete Q (g : asg -> Qc) q : depends_only (R := Qc_sum_csr) g Q -> valid q ->
  exists q', In q' (all_asgs card Q) /\ g q' = g q.
Proof.
  intros Hd Hq. pose proof (valid_in_range card q Q Hq) as Hr.
  exists (asg_of Q (map q Q)). split.
  - unfold all_asgs. apply in_map_iff. exists (ravel (map card Q) (map q Q)). split.
    + rewrite unravel_ravel by exact Hr. reflexivity.
    + apply in_seq. pose proof (ravel_lt _ _ Hr). lia.
  - apply Hd. intros v Hv. apply asg_of_map. exact Hv.
Qed.

Theorem map_chk_iff (fs : list qfactor) Q ev r : map_chk card fs Q ev r = true <-> is_map card fs Q ev r.
Proof.
  unfold map_chk, is_map. rewrite !andb_true_iff, nodupb_NoDup, same_setb_iff, !forallb_forall. split.
  - intros [[[H1 H2] H3] H4]. split; [exact H1|split; [exact H2|split]].
    + intros v i Hin. apply Nat.ltb_lt. apply (H3 (v, i) Hin).
    + intros q Hq. destruct (all_asgs_complete Q _ q (weight_depends_only fs Q ev) Hq) as [q' [Hin <-]].
      apply Qc_leb_le. apply H4. exact Hin.
  - intros [H1 [H2 [H3 H4]]]. split; [split; [split; [exact H1|exact H2]|]|].
    + intros [v i] Hin. apply Nat.ltb_lt. apply H3. exact Hin.
    + intros q Hin. apply Qc_leb_le. apply H4. apply (all_asgs_valid Q). exact Hin.
Qed.
End Chk.
