(* C03 proofs, part 1: argmax (first index of the maximum), the flat-index decode of
   DiscreteFactor.assignment (= unravel), positive scaling does not move the argmax, and optimality of
   argmax+assignment on one factor. *)
From Coq Require Import List Arith Lia PeanoNat Bool QArith Qcanon Lqa.
From PV Require Import Base.Semiring Base.Ravel Base.FinSum Base.RefFactor Base.VE C03.Model C03.Spec.
Import ListNotations.
Local Open Scope nat_scope.

(* ---- argmax ------------------------------------------------------------------------------------------ *)
Lemma Qcle_trans' (a b c : Qc) : (a <= b)%Qc -> (b <= c)%Qc -> (a <= c)%Qc.
Proof. apply Qcle_trans. Qed.

(* invariant of the scan: [pre] has been read, [best] = L[besti] is its maximum and besti its first
   position *)
Lemma argmax_from_spec (l : list Qc) : forall (pre : list Qc) (besti : nat) (best : Qc),
  besti < length pre -> nth besti pre (Q2Qc 0) = best ->
  (forall x, In x pre -> (x <= best)%Qc) ->
  (forall j, j < besti -> (nth j pre (Q2Qc 0) < best)%Qc) ->
  let k := argmax_from l (length pre) besti best in
  let L := pre ++ l in
  k < length L /\ (forall x, In x L -> (x <= nth k L (Q2Qc 0))%Qc) /\
  (forall j, j < k -> (nth j L (Q2Qc 0) < nth k L (Q2Qc 0))%Qc).
Proof.
  induction l as [|x r IH]; intros pre besti best Hlt Hnth Hmax Hfirst; cbn [argmax_from].
  - rewrite app_nil_r. subst best. split; [exact Hlt|]. split; [exact Hmax|exact Hfirst].
  - assert (HL : pre ++ x :: r = (pre ++ [x]) ++ r) by (rewrite <- app_assoc; reflexivity).
    assert (Hlen : length (pre ++ [x]) = S (length pre)) by (rewrite app_length; simpl; lia).
    destruct (Qclt_le_dec best x) as [Hbx|Hxb].
    + specialize (IH (pre ++ [x]) (length pre) x). rewrite Hlen in IH. rewrite HL.
      apply IH.
      * lia.
      * rewrite app_nth2 by lia. rewrite Nat.sub_diag. reflexivity.
      * intros y Hy. apply in_app_or in Hy. destruct Hy as [Hy|[<-|[]]]; [|apply Qcle_refl].
        apply Qcle_trans with best; [apply Hmax; exact Hy|apply Qclt_le_weak; exact Hbx].
      * intros j Hj. rewrite app_nth1 by exact Hj.
        apply Qcle_lt_trans with best; [|exact Hbx]. apply Hmax. apply nth_In. exact Hj.
    + specialize (IH (pre ++ [x]) besti best). rewrite Hlen in IH. rewrite HL.
      apply IH.
      * lia.
      * rewrite app_nth1 by exact Hlt. exact Hnth.
      * intros y Hy. apply in_app_or in Hy. destruct Hy as [Hy|[<-|[]]]; [apply Hmax; exact Hy|exact Hxb].
      * intros j Hj. rewrite app_nth1 by lia. apply Hfirst. exact Hj.
Qed.

Lemma argmax_is_max (l : list Qc) : l <> [] ->
  argmax_first l < length l /\
  (forall x, In x l -> (x <= nth (argmax_first l) l (Q2Qc 0))%Qc) /\
  (forall j, j < argmax_first l -> (nth j l (Q2Qc 0) < nth (argmax_first l) l (Q2Qc 0))%Qc).
Proof.
  destruct l as [|x r]; [congruence|]. intros _. unfold argmax_first.
  apply (argmax_from_spec r [x] 0 x).
  - simpl. lia.
  - reflexivity.
  - intros y [<-|[]]. apply Qcle_refl.
  - intros j Hj. lia.
Qed.

(* a strictly monotone map of the values does not move the argmax *)
Lemma argmax_from_map (g : Qc -> Qc) :
  (forall a b : Qc, (a < b)%Qc -> (g a < g b)%Qc) ->
  forall l i besti best, argmax_from (map g l) i besti (g best) = argmax_from l i besti best.
Proof.
  intros Hg. induction l as [|x r IH]; intros i besti best; [reflexivity|]. cbn [map argmax_from].
  destruct (Qclt_le_dec (g best) (g x)) as [H1|H1]; destruct (Qclt_le_dec best x) as [H2|H2].
  - apply IH.
  - exfalso. destruct (Qc_eq_dec x best) as [->|Hne].
    + apply (Qclt_not_le _ _ H1). apply Qcle_refl.
    + assert (Hlt : (x < best)%Qc).
      { destruct (Qclt_le_dec x best) as [H|H]; [exact H|]. exfalso. apply Hne. apply Qcle_antisym; assumption. }
      apply (Qclt_not_le _ _ H1). apply Qclt_le_weak. apply Hg. exact Hlt.
  - exfalso. apply (Qclt_not_le _ _ (Hg _ _ H2)). exact H1.
  - apply IH.
Qed.
Lemma argmax_first_map (g : Qc -> Qc) l :
  (forall a b : Qc, (a < b)%Qc -> (g a < g b)%Qc) -> argmax_first (map g l) = argmax_first l.
Proof. intros Hg. destruct l as [|x r]; [reflexivity|]. simpl. apply argmax_from_map. exact Hg. Qed.

Lemma Qcinv_pos (s : Qc) : (Q2Qc 0 < s)%Qc -> (Q2Qc 0 < / s)%Qc.
Proof.
  intros Hs. destruct (Qclt_le_dec (Q2Qc 0) (/ s)) as [H|H]; [exact H|exfalso].
  assert (Hne : s <> Q2Qc 0) by (intros E; rewrite E in Hs; exact (Qclt_not_le _ _ Hs (Qcle_refl _))).
  pose proof (Qcmult_le_compat_r _ _ s H (Qclt_le_weak _ _ Hs)) as H1.
  rewrite Qcmult_inv_l in H1 by exact Hne.
  replace (Q2Qc 0 * s)%Qc with (Q2Qc 0) in H1 by ring.
  revert H1. unfold Qcle. simpl. unfold Qle. simpl. lia.
Qed.

Lemma argmax_scale (l : list Qc) (c : Qc) : (Q2Qc 0 < c)%Qc ->
  argmax_first (map (fun x => (x * c)%Qc) l) = argmax_first l.
Proof. intros Hc. apply argmax_first_map. intros a b Hab. apply Qcmult_lt_compat_r; assumption. Qed.
Lemma argmax_div (l : list Qc) (s : Qc) : (Q2Qc 0 < s)%Qc ->
  argmax_first (map (fun x => (x / s)%Qc) l) = argmax_first l.
Proof. intros Hs. unfold Qcdiv. apply argmax_scale. apply Qcinv_pos. exact Hs. Qed.

(* ---- assignment = unravel ---------------------------------------------------------------------------- *)
Lemma prod_rev l : prod (rev l) = prod l.
Proof.
  induction l as [|x l IH]; [reflexivity|]. simpl rev. rewrite prod_app, IH. simpl. lia.
Qed.

Lemma prod_pos l : Forall (fun c => 0 < c) l -> 0 < prod l.
Proof. induction 1 as [|c l Hc _ IH]; simpl; [lia|]. fold (prod l). apply Nat.mul_pos_pos; assumption. Qed.

Lemma digits_rev_app l1 : forall l2 n, Forall (fun c => 0 < c) l1 ->
  digits_rev (l1 ++ l2) n = digits_rev l1 n ++ digits_rev l2 (n / prod l1).
Proof.
  induction l1 as [|c l1 IH]; intros l2 n Hpos.
  - cbn [app digits_rev]. change (prod []) with 1. rewrite Nat.div_1_r. reflexivity.
  - inversion Hpos as [|? ? Hc Hpos']; subst. cbn [app digits_rev]. rewrite IH by exact Hpos'.
    rewrite prod_cons. rewrite Nat.div_div; [reflexivity|lia|]. pose proof (prod_pos _ Hpos'). lia.
Qed.

(* the decode loop over the reversed cardinalities, flipped, is the row-major unravel of n mod prod *)
Lemma rev_digits_unravel cards : Forall (fun c => 0 < c) cards ->
  forall n, rev (digits_rev (rev cards) n) = unravel cards (n mod prod cards).
Proof.
  induction 1 as [|c cs Hc Hpos IH]; intros n; [reflexivity|].
  pose proof (prod_pos _ Hpos) as Hp.
  assert (Hposr : Forall (fun c => 0 < c) (rev cs)).
  { apply Forall_forall. intros x Hx. apply in_rev in Hx. rewrite Forall_forall in Hpos. apply Hpos. exact Hx. }
  cbn [rev]. rewrite digits_rev_app by exact Hposr. rewrite rev_app_distr. cbn [digits_rev rev app].
  rewrite prod_rev. rewrite IH. cbn [unravel]. rewrite prod_cons.
  rewrite (Nat.mul_comm c (prod cs)). rewrite Nat.mod_mul_r by lia.
  set (q := (n / prod cs) mod c). set (p := prod cs) in *.
  rewrite (Nat.mul_comm p q). f_equal.
  - rewrite Nat.div_add by lia. rewrite Nat.div_small by (apply Nat.mod_upper_bound; lia). reflexivity.
  - f_equal. rewrite Nat.mod_add by lia. rewrite Nat.mod_mod by lia. reflexivity.
Qed.

Lemma prod_pos_all cards : 0 < prod cards -> Forall (fun c => 0 < c) cards.
Proof.
  induction cards as [|c cs IH]; intros H; constructor; rewrite prod_cons in H.
  - destruct c; [simpl in H; lia|lia].
  - apply IH. destruct (prod cs); [lia|lia].
Qed.

Lemma assignment_unravel cards n : n < prod cards -> assignment cards n = Some (unravel cards n).
Proof.
  intros Hn. unfold assignment. apply Nat.ltb_lt in Hn as Hb. rewrite Hb. f_equal.
  rewrite rev_digits_unravel by (apply prod_pos_all; lia). rewrite Nat.mod_small by exact Hn. reflexivity.
Qed.
Lemma assignment_none cards n : prod cards <= n -> assignment cards n = None.
Proof. intros Hn. unfold assignment. apply Nat.ltb_ge in Hn. rewrite Hn. reflexivity. Qed.

(* so the decode inverts the row-major ravel *)
Lemma assignment_ravel cards idx : in_range cards idx -> assignment cards (ravel cards idx) = Some idx.
Proof.
  intros Hr. rewrite assignment_unravel by (apply ravel_lt; exact Hr). rewrite unravel_ravel by exact Hr. reflexivity.
Qed.

(* ---- one factor: argmax + assignment is optimal ---------------------------------------------------- *)
Section OneFactor.
Variable card : var -> nat.
Notation qfactor := (factor Qc_sum_csr).
Notation feval := (feval Qc_sum_csr card).
Notation wf := (wf Qc_sum_csr card).
Notation valid := (valid card).

Lemma asg_of_pairs_combine vs : forall idx, length idx = length vs ->
  forall v, asg_of_pairs (combine vs idx) v = asg_of vs idx v.
Proof.
  unfold asg_of_pairs. induction vs as [|w vs IH]; intros idx Hl v; destruct idx as [|i idx]; try discriminate; [reflexivity|].
  cbn [combine upds asg_of]. unfold upd. destruct (Nat.eqb v w); [reflexivity|]. apply IH. simpl in Hl. lia.
Qed.

Lemma map_fst_combine {A B} (l1 : list A) : forall (l2 : list B), length l2 = length l1 -> map fst (combine l1 l2) = l1.
Proof.
  induction l1 as [|x l1 IH]; intros l2 Hl; destruct l2 as [|y l2]; try discriminate; [reflexivity|].
  simpl. f_equal. apply IH. simpl in Hl. lia.
Qed.

Lemma in_combine_range cards : forall vs idx, in_range cards idx -> cards = map card vs ->
  forall v i, In (v, i) (combine vs idx) -> i < card v.
Proof.
  intros vs idx Hr. revert vs. induction Hr as [|c cs i is_ Hi Hr IH]; intros vs Hc v j Hin.
  - destruct vs; destruct Hin.
  - destruct vs as [|w vs]; [discriminate|]. simpl in Hc. injection Hc as Hc1 Hc2. simpl in Hin.
    destruct Hin as [Hin|Hin]; [injection Hin as <- <-; lia|]. apply (IH vs Hc2 v j Hin).
Qed.

Lemma asg_of_valid vs idx : (forall v, 0 < card v) -> in_range (map card vs) idx -> valid (asg_of vs idx).
Proof.
  intros Hpos. revert idx. induction vs as [|w vs IH]; intros idx Hr v.
  - destruct idx; simpl; apply Hpos.
  - inversion Hr as [|c cs i is_ Hi Hr' E1 E2]; subst. cbn [asg_of]. unfold upd.
    destruct (Nat.eqb v w) eqn:E; [apply Nat.eqb_eq in E; subst; exact Hi|]. apply IH. exact Hr'.
Qed.

(* value of a wf factor at the assignment decoded from a flat index = the table entry *)
Lemma feval_asg_of_unravel (f : qfactor) n : wf f -> n < prod (fcard _ card f) ->
  feval f (asg_of (fvars f) (unravel (fcard _ card f) n)) = nth n (fvals f) (Q2Qc 0).
Proof.
  intros [Hnd Hlen] Hn. unfold RefFactor.feval, t_get.
  rewrite map_asg_of; [|exact Hnd|rewrite unravel_length; unfold fcard; apply map_length].
  rewrite ravel_unravel by exact Hn. reflexivity.
Qed.

Theorem map_of_factor_optimal (f : qfactor) :
  wf f -> fvals f <> [] ->
  exists idx, map_of_factor card f = Some (combine (fvars f) idx) /\
    in_range (fcard _ card f) idx /\
    idx = unravel (fcard _ card f) (argmax_first (fvals f)) /\
    forall a, valid a -> (feval f a <= feval f (asg_of (fvars f) idx))%Qc.
Proof.
  intros Hwf Hne. destruct (argmax_is_max (fvals f) Hne) as [Hk [Hmax _]].
  set (k := argmax_first (fvals f)) in *. destruct Hwf as [Hnd Hlen].
  assert (Hkp : k < prod (fcard _ card f)) by (rewrite <- Hlen; exact Hk).
  exists (unravel (fcard _ card f) k). split; [|split; [|split]].
  - unfold map_of_factor. fold k. rewrite assignment_unravel by exact Hkp. reflexivity.
  - apply unravel_in_range. exact Hkp.
  - reflexivity.
  - intros a Ha. rewrite feval_asg_of_unravel; [|split; assumption|exact Hkp].
    apply Hmax. unfold RefFactor.feval, t_get. apply nth_In. rewrite Hlen.
    apply ravel_lt. apply valid_in_range. exact Ha.
Qed.
End OneFactor.
