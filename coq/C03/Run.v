(* C03 entry points for the extracted driver: sx -> sx *)
From Coq Require Import List Bool Arith ZArith QArith Qcanon.
From PV Require Import Base.Sx Base.Semiring Base.Ravel Base.FinSum Base.RefFactor Base.VE
  C03.Model C03.Spec C03.Checker.
Import ListNotations.
Local Open Scope nat_scope.

Definition qfactor := factor Qc_sum_csr.

Definition dec_factor (s : sx) : option qfactor :=
  match sx_pair (sx_list sx_nat) (sx_list sx_Qc) s with
  | Some (vs, vals) => Some (Build_factor Qc_sum_csr vs vals)
  | None => None
  end.
Definition dec_ev : sx -> option (list (var * nat)) := sx_list (sx_pair sx_nat sx_nat).
Definition dec_axes (s : sx) : option (option (list var)) :=
  match s with
  | SL [] => Some None
  | SL [a] => match sx_list sx_nat a with Some l => Some (Some l) | None => None end
  | _ => None
  end.
Definition enc_pairs (r : list (var * nat)) : sx := of_list (of_pair of_nat of_nat) r.

(* executable well-formedness of the wire input (the hypotheses of the theorems, minus the ones about
   the order which are checked by [order_okb]) *)
Definition wf_factorb (cl : list nat) (f : qfactor) : bool :=
  nodupb (fvars f) && forallb (fun v => v <? length cl) (fvars f) &&
  (length (fvals f) =? prod (map (card_of cl) (fvars f))) &&
  forallb (fun x => Qc_leb (Q2Qc 0) x) (fvals f).
Definition occursb (v : var) (fs : list qfactor) : bool := existsb (fun f => memv v (fvars f)) fs.
Definition wf_inputb (cl : list nat) (fs : list qfactor) (Q : list var) (ev : list (var * nat)) : bool :=
  forallb (fun c => 0 <? c) cl && forallb (wf_factorb cl) fs &&
  nodupb Q && forallb (fun v => occursb v fs) Q &&
  nodupb (map fst ev) && forallb (fun p => snd p <? card_of cl (fst p)) ev &&
  forallb (fun v => negb (memv v (map fst ev))) Q.
(* the query variables implied by an order: every variable of the model not in the order or the evidence *)
Definition query_of (fs : list qfactor) (ev : list (var * nat)) (order : list var) : list var :=
  vminus (vminus (allvars fs) order) (map fst ev).
Definition order_okb (fs : list qfactor) (ev : list (var * nat)) (order : list var) : bool :=
  nodupb order && forallb (fun v => occursb v fs && negb (memv v (map fst ev))) order.

(* [cards factors evidence order axes norm] -> [(var, state)] ; error 1 = malformed query, 2 = None *)
Definition run_c03_map (s : sx) : sx :=
  match s with
  | SL [scl; sfs; sev; sord; sax; snorm] =>
      match sx_list sx_nat scl, sx_list dec_factor sfs, dec_ev sev, sx_list sx_nat sord, dec_axes sax, sx_bool snorm with
      | Some cl, Some fs, Some ev, Some order, Some axes, Some norm =>
          if wf_inputb cl fs (query_of fs ev order) ev && order_okb fs ev order
          then match map_query (card_of cl) norm fs ev order axes with
               | Some r => sx_ok (enc_pairs r)
               | None => sx_err 2
               end
          else sx_err 1
      | _, _, _, _, _, _ => bad_request
      end
  | _ => bad_request
  end.

(* [cards factors Q evidence r] -> verified checker verdict *)
Definition run_c03_chk (s : sx) : sx :=
  match s with
  | SL [scl; sfs; sq; sev; sr] =>
      match sx_list sx_nat scl, sx_list dec_factor sfs, sx_list sx_nat sq, dec_ev sev, dec_ev sr with
      | Some cl, Some fs, Some Q, Some ev, Some r =>
          if wf_inputb cl fs Q ev
          then sx_ok (of_bool (map_chk (card_of cl) fs Q ev r))
          else sx_err 1
      | _, _, _, _, _ => bad_request
      end
  | _ => bad_request
  end.

(* [cards factors Q evidence] -> brute-force weights of all joint assignments of Q, row-major in Q's order *)
Definition run_c03_weights (s : sx) : sx :=
  match s with
  | SL [scl; sfs; sq; sev] =>
      match sx_list sx_nat scl, sx_list dec_factor sfs, sx_list sx_nat sq, dec_ev sev with
      | Some cl, Some fs, Some Q, Some ev =>
          if wf_inputb cl fs Q ev
          then sx_ok (of_list of_Qc (weight_table (card_of cl) fs Q ev))
          else sx_err 1
      | _, _, _, _ => bad_request
      end
  | _ => bad_request
  end.

(* [cards factors evidence order norm] -> max-marginal value ; error 2 = zero normaliser *)
Definition run_c03_maxmarg (s : sx) : sx :=
  match s with
  | SL [scl; sfs; sev; sord; snorm] =>
      match sx_list sx_nat scl, sx_list dec_factor sfs, dec_ev sev, sx_list sx_nat sord, sx_bool snorm with
      | Some cl, Some fs, Some ev, Some order, Some norm =>
          if wf_inputb cl fs (query_of fs ev order) ev && order_okb fs ev order
          then match max_marginal (card_of cl) norm fs ev order with
               | Some q => sx_ok (of_Qc q)
               | None => sx_err 2
               end
          else sx_err 1
      | _, _, _, _, _ => bad_request
      end
  | _ => bad_request
  end.

(* [cardinalities n] -> DiscreteFactor.assignment([n])[0] as state numbers ; error 3 = IndexError *)
Definition run_c03_assignment (s : sx) : sx :=
  match s with
  | SL [sc; sn] =>
      match sx_list sx_nat sc, sx_nat sn with
      | Some cards, Some n =>
          match assignment cards n with Some l => sx_ok (of_list of_nat l) | None => sx_err 3 end
      | _, _ => bad_request
      end
  | _ => bad_request
  end.

(* [values] -> np.argmax *)
Definition run_c03_argmax (s : sx) : sx :=
  match sx_list sx_Qc s with
  | Some l => match l with [] => sx_err 4 | _ => sx_ok (of_nat (argmax_first l)) end
  | None => bad_request
  end.

(* [cards factor] -> argmax + assignment of one factor *)
Definition run_c03_mapfac (s : sx) : sx :=
  match s with
  | SL [scl; sf] =>
      match sx_list sx_nat scl, dec_factor sf with
      | Some cl, Some f =>
          if wf_factorb cl f
          then match map_of_factor (card_of cl) f with Some r => sx_ok (enc_pairs r) | None => sx_err 3 end
          else sx_err 1
      | _, _ => bad_request
      end
  | _ => bad_request
  end.
