(* C03 property theorems: "MAP queries return a maximiser of the exact posterior".
   Only statements here, each closed by [exact] of a lemma proved in ProofsDecode.v / ProofsMap.v /
   ProofsChk.v / ProofsMax.v, with Print Assumptions underneath and Examples showing the hypotheses are
   satisfiable by non-trivial objects.

   Vocabulary
     ravel/unravel (Base/Ravel.v)   row-major (numpy C order) flat index <-> index tuple
     factor (Base/RefFactor.v)      scope (= axis order) + flat row-major table; feval f a = entry at a
     wf f                           duplicate-free scope, table length = product of the cardinalities
     weight fs Q ev q (Spec.v)      SUM over all joint values of the non-query non-evidence variables of the
                                    PRODUCT of all factors at (q, evidence, rest): the unnormalised posterior
     is_map fs Q ev r (Spec.v)      r assigns exactly the variables of Q, once each, to valid states, and no
                                    joint assignment of Q has a larger weight (ties free)
     wf_query, covers (Spec.v)      well-formed query; an order listing exactly the other variables once *)
From Coq Require Import List Bool Arith QArith Qcanon Lia ZArith.
From PV Require Import Base.Semiring Base.Ravel Base.FinSum Base.RefFactor Base.VE
  C03.Model C03.Spec C03.Checker C03.ProofsDecode C03.ProofsMap C03.ProofsChk C03.ProofsMax.
Import ListNotations.
Local Open Scope nat_scope.

(* ================================================================== 1. the decode *)

(* DiscreteFactor.assignment (modulo/divide loop over the reversed cardinalities, flipped) is the row-major
   unravel, for every shape and every index in range: it inverts numpy's C-order flattening. *)
Theorem C03_assignment_unravel : forall cards n,
  n < prod cards -> assignment cards n = Some (unravel cards n).
Proof. exact assignment_unravel. Qed.
Print Assumptions C03_assignment_unravel.

Theorem C03_assignment_inverts_ravel : forall cards idx,
  in_range cards idx -> assignment cards (ravel cards idx) = Some idx.
Proof. exact assignment_ravel. Qed.
Print Assumptions C03_assignment_inverts_ravel.

(* the guard: an index beyond the table is refused (IndexError) *)
Theorem C03_assignment_out_of_range : forall cards n, prod cards <= n -> assignment cards n = None.
Proof. exact assignment_none. Qed.
Print Assumptions C03_assignment_out_of_range.

Example assignment_unequal_cards : assignment [2; 3; 4] 17 = Some [1; 1; 1] /\ ravel [2; 3; 4] [1; 1; 1] = 17.
Proof. split; reflexivity. Qed.

(* ================================================================== 2. argmax *)

(* np.argmax: in range, a maximum, and the FIRST one *)
Theorem C03_argmax_is_max : forall l : list Qc, l <> [] ->
  argmax_first l < length l /\
  (forall x, In x l -> (x <= nth (argmax_first l) l (Q2Qc 0))%Qc) /\
  (forall j, j < argmax_first l -> (nth j l (Q2Qc 0) < nth (argmax_first l) l (Q2Qc 0))%Qc).
Proof. exact argmax_is_max. Qed.
Print Assumptions C03_argmax_is_max.

(* scaling the table by a positive constant (normalisation = division by the positive sum) does not move it *)
Theorem C03_normalise_preserves_argmax : forall (l : list Qc) (s : Qc), (Q2Qc 0 < s)%Qc ->
  argmax_first (map (fun x => (x / s)%Qc) l) = argmax_first l /\
  argmax_first (map (fun x => (x * s)%Qc) l) = argmax_first l.
Proof. intros l s Hs. split; [apply argmax_div|apply argmax_scale]; exact Hs. Qed.
Print Assumptions C03_normalise_preserves_argmax.

(* ================================================================== 3. one factor *)

(* argmax + assignment on a well-formed factor with a non-empty table: assigns exactly the factor's
   variables in its own axis order, every value in range, and no valid assignment has a larger entry *)
Theorem C03_map_of_factor_optimal : forall (card : var -> nat) (f : factor Qc_sum_csr),
  wf Qc_sum_csr card f -> fvals f <> [] ->
  exists idx, map_of_factor card f = Some (combine (fvars f) idx) /\
    in_range (fcard _ card f) idx /\
    idx = unravel (fcard _ card f) (argmax_first (fvals f)) /\
    forall a, valid card a -> (feval Qc_sum_csr card f a <= feval Qc_sum_csr card f (asg_of (fvars f) idx))%Qc.
Proof. exact map_of_factor_optimal. Qed.
Print Assumptions C03_map_of_factor_optimal.

(* ================================================================== 4. the MAP query *)

(* For every factor list (CPDs of a Bayesian network plus one unary factor per virtual evidence; or the
   factors of a Markov network), every evidence, every duplicate-free elimination order covering exactly the
   non-query non-evidence variables, every axis order of the final table, with or without normalisation:
   whatever map_query returns is a MAP in the brute-force sense of Spec.v. *)
Theorem C03_map_optimal : forall (card : var -> nat) fs Q ev order,
  wf_query card fs Q ev -> covers fs Q ev order ->
  forall (norm : bool) (axes : option (list var)) r,
  axes_ok Q axes ->
  map_query card norm fs ev order axes = Some r -> is_map card fs Q ev r.
Proof. exact map_optimal. Qed.
Print Assumptions C03_map_optimal.

(* ... and it does return an answer whenever the evidence has non-zero probability (without
   normalisation: always) *)
Theorem C03_map_defined : forall (card : var -> nat) fs Q ev order,
  wf_query card fs Q ev -> covers fs Q ev order ->
  forall (norm : bool) (axes : option (list var)),
  axes_ok Q axes ->
  norm = false \/ evidence_mass card fs Q ev <> Q2Qc 0 ->
  exists r, map_query card norm fs ev order axes = Some r.
Proof. exact map_defined. Qed.
Print Assumptions C03_map_defined.

(* the table the argmax is taken of is the brute-force posterior weight, up to one non-negative constant
   (the fully observed factors that the working-factor dict drops, and eliminated components whose result
   has an empty scope) *)
Theorem C03_final_table_is_weight : forall (card : var -> nat) fs Q ev order,
  wf_query card fs Q ev -> covers fs Q ev order ->
  (Q2Qc 0 <= drop_const card fs ev order)%Qc /\
  forall a, valid card a ->
  weight card fs Q ev a =
    (drop_const card fs ev order * feval Qc_sum_csr card (final_factor card Qc_sum_csr fs ev order) a)%Qc.
Proof. intros card fs Q ev order Hq Hc. split; [eapply c_nonneg; eassumption|exact (weight_eq card fs Q ev order Hq Hc)]. Qed.
Print Assumptions C03_final_table_is_weight.

(* ---- non-vacuity: a concrete network A -> B meeting every hypothesis, on which the marginal MAP of A (a1,
   weight 5/8) differs from the A-component of the most probable explanation (a0, b0: 3/8 > 5/16) *)
Definition ex_card : var -> nat := card_of [2; 2].
Definition qc (n : Z) (d : positive) : Qc := Q2Qc (n # d).
Definition ex_fs : list (factor Qc_sum_csr) :=
  [ Build_factor Qc_sum_csr [0] [qc 3 8; qc 5 8];                       (* P(A) *)
    Build_factor Qc_sum_csr [1; 0] [qc 1 1; qc 1 2; qc 0 1; qc 1 2] ].  (* P(B | A), axes [B; A] *)
Example ex_wf_query : wf_query ex_card ex_fs [0] [].
Proof.
  unfold wf_query. repeat split.
  - intros v. unfold ex_card, card_of. destruct v as [|[|v]]; simpl; try lia. destruct v; simpl; lia.
  - repeat constructor; simpl; intuition discriminate.
  - repeat constructor; unfold Qcle; simpl; unfold Qle; simpl; lia.
  - repeat constructor; simpl; intuition.
  - intros v [<-|[]]. exists (Build_factor Qc_sum_csr [0] [qc 3 8; qc 5 8]). simpl. auto.
  - constructor.
  - intros v i [].
  - intros v _ [].
Qed.
Example ex_covers : covers ex_fs [0] [] [1].
Proof.
  split; [repeat constructor; simpl; intuition|]. intros v. split.
  - intros [<-|[]]. split; [|split; [simpl; intuition discriminate|simpl; tauto]].
    exists (Build_factor Qc_sum_csr [1; 0] [qc 1 1; qc 1 2; qc 0 1; qc 1 2]). simpl. auto.
  - intros [[f [Hf Hv]] [HnQ _]]. simpl in Hf. destruct Hf as [<-|[<-|[]]]; simpl in Hv.
    + destruct Hv as [<-|[]]. exfalso. apply HnQ. left. reflexivity.
    + destruct Hv as [<-|[<-|[]]]; [left; reflexivity|exfalso; apply HnQ; left; reflexivity].
Qed.
Example ex_map_query : map_query ex_card true ex_fs [] [1] None = Some [(0, 1)].
Proof. vm_compute. reflexivity. Qed.
Example ex_mpe_projection_differs :
  map_of_factor ex_card (fprod_list Qc_sum_csr ex_card ex_fs) = Some [(0, 0); (1, 0)].
Proof. vm_compute. reflexivity. Qed.
Example ex_chk : map_chk ex_card ex_fs [0] [] [(0, 1)] = true /\ map_chk ex_card ex_fs [0] [] [(0, 0)] = false.
Proof. split; vm_compute; reflexivity. Qed.

(* ================================================================== 4b. max-marginal *)

(* VariableElimination.max_marginal's elimination run with operation = "maximize" (the same loop over the
   max-product semiring): the maximum entry of its final table, times the non-negative constants the
   working-factor dict never sees, is the maximum over ALL assignments of the evidence-clamped product of
   all factors - an upper bound that is attained.  (For a Bayesian network pgmpy then divides the table by
   its sum; the model's [max_marginal] does the same.) *)
Theorem C03_max_marginal : forall (card : var -> nat) fs Q ev order,
  wf_query card fs Q ev -> covers fs Q ev order ->
  let V := (max_marginal_raw card fs ev order * drop_const_max card fs ev order * scal_max card fs ev)%Qc in
  (forall x, valid card x -> (clamped card fs ev x <= V)%Qc) /\
  exists x, valid card x /\ clamped card fs ev x = V.
Proof.
  intros card fs Q ev order Hq Hc.
  exact (max_marginal_is_max_of_joint card (proj1 Hq) fs Q ev order Hq Hc).
Qed.
Print Assumptions C03_max_marginal.

Example ex_max_marginal : max_marginal_raw ex_card ex_fs [] [1] = qc 3 8.
Proof. vm_compute. reflexivity. Qed.

(* ================================================================== 5. the verified checker *)

(* applied by the harness to pgmpy's actual answers (VE, BP, predict); ties are free, so answers cannot be
   compared by equality *)
Theorem C03_map_chk : forall (card : var -> nat), (forall v, 0 < card v) ->
  forall fs Q ev r, map_chk card fs Q ev r = true <-> is_map card fs Q ev r.
Proof. exact map_chk_iff. Qed.
Print Assumptions C03_map_chk.
