(* C03: executable checker for "r is a MAP answer" (definitions only; correctness in ProofsChk.v).
   The checker recomputes the brute-force posterior weights of Spec.v (sum over all joint values of the
   non-query variables of the product of all factors, evidence clamped) for EVERY joint assignment of the
   query variables and compares them with the weight of the proposed answer. *)
From Coq Require Import List Arith Lia PeanoNat Bool QArith Qcanon.
From PV Require Import Base.Semiring Base.Ravel Base.FinSum Base.RefFactor Base.VE C03.Spec.
Import ListNotations.
Local Open Scope nat_scope.

Fixpoint nodupb (l : list var) : bool :=
  match l with [] => true | x :: r => negb (memv x r) && nodupb r end.
Definition same_setb (a b : list var) : bool :=
  forallb (fun x => memv x b) a && forallb (fun x => memv x a) b.
Definition Qc_leb (a b : Qc) : bool := if Qclt_le_dec b a then false else true.

Section Checker.
Variable card : var -> nat.
Notation qfactor := (factor Qc_sum_csr).

(* every joint assignment of Q, in row-major order of Q's own order *)
Definition all_asgs (Q : list var) : list asg :=
  map (fun n => asg_of Q (unravel (map card Q) n)) (seq 0 (prod (map card Q))).

(* the table of brute-force weights, same order *)
Definition weight_table (fs : list qfactor) (Q : list var) (ev : list (var * nat)) : list Qc :=
  map (weight card fs Q ev) (all_asgs Q).

Definition map_chk (fs : list qfactor) (Q : list var) (ev : list (var * nat)) (r : list (var * nat)) : bool :=
  nodupb (map fst r) && same_setb (map fst r) Q &&
  forallb (fun p => snd p <? card (fst p)) r &&
  (let wr := weight card fs Q ev (asg_of_pairs r) in
   forallb (fun q => Qc_leb (weight card fs Q ev q) wr) (all_asgs Q)).
End Checker.
