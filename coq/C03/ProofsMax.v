(* C03 proofs, part 4: the max-product run (max_marginal) returns the maximum of the product of the working
   factors over ALL assignments (same Base/VE.ve_run_correct, instantiated with the max-product semiring). *)
From Coq Require Import List Arith Lia PeanoNat Bool QArith Qcanon Lqa.
From PV Require Import Base.Semiring Base.Ravel Base.FinSum Base.RefFactor Base.VE
  C03.Model C03.Spec C03.ProofsDecode C03.ProofsMap.
Import ListNotations.
Local Open Scope nat_scope.

(* ---- lists: fold of Qcmax ----------------------------------------------------------------------------- *)
Lemma Qcmax_ge_l a b : (a <= Qcmax a b)%Qc.
Proof. unfold Qcmax. destruct (Qclt_le_dec a b) as [H|H]; [apply Qclt_le_weak; exact H|apply Qcle_refl]. Qed.
Lemma Qcmax_ge_r a b : (b <= Qcmax a b)%Qc.
Proof. unfold Qcmax. destruct (Qclt_le_dec a b) as [H|H]; [apply Qcle_refl|exact H]. Qed.
Lemma Qcmax_either a b : Qcmax a b = a \/ Qcmax a b = b.
Proof. unfold Qcmax. destruct (Qclt_le_dec a b); [right|left]; reflexivity. Qed.

Lemma fold_left_max r : forall x : Qc,
  (x <= fold_left Qcmax r x)%Qc /\ (forall y, In y r -> (y <= fold_left Qcmax r x)%Qc) /\
  (fold_left Qcmax r x = x \/ In (fold_left Qcmax r x) r).
Proof.
  induction r as [|z r IH]; intros x; simpl.
  - split; [apply Qcle_refl|split; [intros y []|left; reflexivity]].
  - destruct (IH (Qcmax x z)) as [H1 [H2 H3]]. split; [|split].
    + eapply Qcle_trans; [apply Qcmax_ge_l|exact H1].
    + intros y [<-|Hy]; [eapply Qcle_trans; [apply Qcmax_ge_r|exact H1]|apply H2; exact Hy].
    + destruct H3 as [H3|H3]; [|right; right; exact H3].
      destruct (Qcmax_either x z) as [E|E]; rewrite H3, E; [left; reflexivity|right; left; reflexivity].
Qed.
Lemma max_list_ub l x : In x l -> (x <= max_list l)%Qc.
Proof.
  destruct l as [|y r]; [intros []|]. simpl. destruct (fold_left_max r y) as [H1 [H2 _]].
  intros [<-|H]; [exact H1|apply H2; exact H].
Qed.
Lemma max_list_in l : l <> [] -> In (max_list l) l.
Proof.
  destruct l as [|y r]; [congruence|]. intros _. simpl. destruct (fold_left_max r y) as [_ [_ [H|H]]]; [left; symmetry; exact H|right; exact H].
Qed.

(* sum_list of the max-product semiring *)
Lemma msum_ub (l : list Qc) x : In x l -> (x <= sum_list (R := Qc_max_csr) l)%Qc.
Proof.
  induction l as [|y l IH]; [intros []|]. simpl. intros [<-|H]; [apply Qcmax_ge_l|].
  eapply Qcle_trans; [apply IH; exact H|apply Qcmax_ge_r].
Qed.
Lemma msum_in (l : list Qc) : l <> [] -> Forall (fun x => (Q2Qc 0 <= x)%Qc) l -> In (sum_list (R := Qc_max_csr) l) l.
Proof.
  induction l as [|y l IH]; [congruence|]. intros _ Hall. inversion Hall as [|? ? Hy Hl]; subst. simpl.
  destruct l as [|z l].
  - simpl. left. symmetry. change (Qcmax y (Q2Qc 0) = y). rewrite Qcmax_comm. apply Qcmax_0_l. exact Hy.
  - destruct (Qcmax_either y (sum_list (R := Qc_max_csr) (z :: l))) as [E|E].
    + left. symmetry. exact E.
    + right. change (In (Qcmax y (sum_list (R := Qc_max_csr) (z :: l))) (z :: l)). rewrite E. apply IH; [discriminate|exact Hl].
Qed.

Section Max.
Variable card : var -> nat.
Hypothesis card_pos : forall v, 0 < card v.
Notation mfactor := (factor Qc_max_csr).
Notation feval := (feval Qc_max_csr card).
Notation wf := (wf Qc_max_csr card).
Notation valid := (valid card).
Notation eval_prod := (eval_prod Qc_max_csr card).
Notation msum_over := (sum_over (R := Qc_max_csr)).

(* max over the values of vs: an upper bound of g at the current assignment, and attained *)
Lemma msum_over_ub vs : forall (g : asg -> Qc) a, ext (R := Qc_max_csr) g -> valid a ->
  (g a <= msum_over vs (map card vs) g a)%Qc.
Proof.
  induction vs as [|v vs IH]; intros g a Hg Ha; [apply Qcle_refl|]. cbn [map sum_over].
  eapply Qcle_trans; [apply (IH g a Hg Ha)|].
  apply msum_ub. apply in_map_iff. exists (a v). split.
  - apply sum_over_aeq; [exact Hg|apply upd_id].
  - apply in_seq. pose proof (Ha v). lia.
Qed.
Lemma msum_over_attained vs : forall (g : asg -> Qc) a, valid a ->
  (forall b, valid b -> (Q2Qc 0 <= g b)%Qc) ->
  exists b, valid b /\ g b = msum_over vs (map card vs) g a.
Proof.
  induction vs as [|v vs IH]; intros g a Ha Hnn; [exists a; split; [exact Ha|reflexivity]|].
  cbn [map sum_over].
  set (l := map (fun i => msum_over vs (map card vs) g (upd a v i)) (seq 0 (card v))).
  assert (Hne : l <> []).
  { unfold l. pose proof (card_pos v). destruct (card v); [lia|]. simpl. discriminate. }
  assert (Hall : Forall (fun x => (Q2Qc 0 <= x)%Qc) l).
  { apply Forall_forall. intros x Hx. apply in_map_iff in Hx. destruct Hx as [i [<- Hi]]. apply in_seq in Hi.
    apply (ok_sum_over_valid Qc_max_csr card vs g (upd a v i)); [apply valid_upd; [exact Ha|lia]|exact Hnn]. }
  pose proof (msum_in l Hne Hall) as Hin. apply in_map_iff in Hin. destruct Hin as [i [Hi Hiin]]. apply in_seq in Hiin.
  destruct (IH g (upd a v i)) as [b [Hb Hgb]]; [apply valid_upd; [exact Ha|lia]|exact Hnn|].
  exists b. split; [exact Hb|]. rewrite Hgb. exact Hi.
Qed.

Lemma feval_asg_of_unravel_m (f : mfactor) n : wf f -> n < prod (fcard _ card f) ->
  feval f (asg_of (fvars f) (unravel (fcard _ card f) n)) = nth n (fvals f) (Q2Qc 0).
Proof.
  intros [Hnd Hlen] Hn. unfold RefFactor.feval, t_get.
  rewrite map_asg_of; [|exact Hnd|rewrite unravel_length; unfold fcard; apply map_length].
  rewrite ravel_unravel by exact Hn. reflexivity.
Qed.

(* the maximum entry of a wf table is the maximum of feval over valid assignments *)
Lemma table_max (f : mfactor) : wf f ->
  (forall a, valid a -> (feval f a <= max_list (fvals f))%Qc) /\
  exists a, valid a /\ feval f a = max_list (fvals f).
Proof.
  intros Hwf. destruct Hwf as [Hnd Hlen]. split.
  - intros a Ha. apply max_list_ub. unfold RefFactor.feval, t_get. apply nth_In. rewrite Hlen.
    apply ravel_lt. apply valid_in_range. exact Ha.
  - assert (Hne : fvals f <> []).
    { intros E. rewrite E in Hlen. simpl in Hlen.
      assert (0 < prod (fcard _ card f)).
      { apply prod_pos. unfold fcard. apply Forall_forall. intros c Hc. apply in_map_iff in Hc.
        destruct Hc as [v [<- _]]. apply card_pos. }
      lia. }
    pose proof (max_list_in _ Hne) as Hin. apply In_nth with (d := Q2Qc 0) in Hin. destruct Hin as [n [Hn0 Hn]].
    assert (Hnp : n < prod (fcard _ card f)) by (rewrite <- Hlen; exact Hn0).
    exists (asg_of (fvars f) (unravel (fcard _ card f) n)). split.
    + apply asg_of_valid; [exact card_pos|]. apply unravel_in_range. exact Hnp.
    + rewrite (feval_asg_of_unravel_m f n (conj Hnd Hlen) Hnp). exact Hn.
Qed.

Lemma fok_run ord : forall N, Forall wf N -> Forall (fok Qc_max_csr card) N ->
  Forall (fok Qc_max_csr card) (ve_run Qc_max_csr card N ord).
Proof.
  induction ord as [|v ord IH]; intros N Hwf Hok; [exact Hok|]. cbn [ve_run fold_left].
  apply IH; [apply ve_step_wf; exact Hwf|apply ve_step_fok; assumption].
Qed.

Section Fixed.
Variables (fs : list (factor Qc_sum_csr)) (Q : list var) (ev : list (var * nat)) (order : list var).
Hypothesis Hq : wf_query card fs Q ev.
Hypothesis Hc : covers fs Q ev order.

Let L := reduce_all card Qc_max_csr ev (map to_max fs).
Let M := ve_run Qc_max_csr card L order.
Let phi := final_factor card Qc_max_csr (map to_max fs) ev order.

Lemma wf_to_max : Forall wf (map to_max fs).
Proof.
  destruct Hq as [_ [Hwf _]]. apply Forall_forall. intros f' Hf'. apply in_map_iff in Hf'. destruct Hf' as [f [<- Hf]].
  rewrite Forall_forall in Hwf. exact (Hwf f Hf).
Qed.
Lemma wf_Lm : Forall wf L. Proof. apply wf_reduce_all. exact wf_to_max. Qed.
Lemma fok_Lm : Forall (fok Qc_max_csr card) L.
Proof.
  apply Forall_forall. intros g Hg b Hb. unfold L, reduce_all in Hg. apply filter_In in Hg. destruct Hg as [Hg _].
  apply in_map_iff in Hg. destruct Hg as [f' [<- Hf']]. apply in_map_iff in Hf'. destruct Hf' as [f [<- Hf]].
  destruct Hq as [_ [Hwf [Hnn _]]]. rewrite Forall_forall in Hwf, Hnn.
  rewrite feval_fred; [|exact (Hwf f Hf)|exact Hb].
  exact (feval_nonneg card f (upds b ev) (Hnn f Hf)).
Qed.
Lemma occurs_to_max v : occurs Qc_max_csr v (map to_max fs) <-> occurs Qc_sum_csr v fs.
Proof.
  split.
  - intros [f' [Hf' Hv]]. apply in_map_iff in Hf'. destruct Hf' as [f [<- Hf]]. exists f. split; assumption.
  - intros [f [Hf Hv]]. exists (to_max f). split; [apply in_map; exact Hf|exact Hv].
Qed.

(* the scalar lost when an eliminated component leaves an empty scope *)
Definition drop_const_max : Qc := scal_of Qc_max_csr card M.

Theorem max_marginal_raw_is_max :
  let V := (max_marginal_raw card fs ev order * drop_const_max)%Qc in
  (forall x, valid x -> (eval_prod L x <= V)%Qc) /\ exists x, valid x /\ eval_prod L x = V.
Proof.
  assert (HwfM : Forall wf M) by (apply ve_run_wf; exact wf_Lm).
  assert (HokM : Forall (fok Qc_max_csr card) M) by (apply fok_run; [exact wf_Lm|exact fok_Lm]).
  assert (Hwfphi : wf phi).
  { unfold phi, final_factor, fprod_list. apply wf_fold_fprod; [apply wf_fbuild; constructor|].
    rewrite Forall_forall in *. intros f Hf. apply filter_In in Hf. apply HwfM, Hf. }
  assert (Hc2 : (Q2Qc 0 <= drop_const_max)%Qc).
  { unfold drop_const_max, scal_of. apply (ok_eval_prod Qc_max_csr card); [intros v; apply card_pos|].
    rewrite Forall_forall in *. intros f Hf. apply filter_In in Hf. apply HokM, Hf. }
  assert (Hrun : forall a, valid a ->
            (feval phi a * drop_const_max)%Qc = msum_over order (map card order) (eval_prod L) a).
  { intros a Ha. unfold phi, final_factor.
    rewrite feval_fprod_list; [|rewrite Forall_forall in *; intros f Hf; apply filter_In in Hf; apply HwfM, Hf|exact Ha].
    rewrite <- (ve_run_correct Qc_max_csr card order L a); [|exact wf_Lm|exact fok_Lm|apply Hc| |exact Ha].
    - fold M. symmetry. apply (eval_prod_split_nil Qc_max_csr card M a).
    - intros v Hv. apply occurs_reduce_all. destruct Hc as [_ Hcov]. apply Hcov in Hv.
      split; [apply occurs_to_max; tauto|tauto]. }
  destruct (table_max phi Hwfphi) as [Hub [a0 [Ha0 Hatt]]].
  fold phi in Hub, Hatt. unfold max_marginal_raw. fold phi. cbv zeta. split.
  - intros x Hx. eapply Qcle_trans; [apply (msum_over_ub order (eval_prod L) x (eval_prod_ext Qc_max_csr card L) Hx)|].
    rewrite <- Hrun by exact Hx. apply Qcmult_le_compat_r; [apply Hub; exact Hx|exact Hc2].
  - destruct (msum_over_attained order (eval_prod L) a0 Ha0) as [b [Hb Hgb]].
    { intros b Hb. apply (ok_eval_prod Qc_max_csr card); [exact Hb|exact fok_Lm]. }
    exists b. split; [exact Hb|]. rewrite Hgb, <- Hrun by exact Ha0. rewrite Hatt. reflexivity.
Qed.

(* in terms of the original factors: the evidence-clamped product of ALL factors *)
Lemma eval_prod_to_max a : eval_prod (map to_max fs) a = RefFactor.eval_prod Qc_sum_csr card fs a.
Proof. unfold RefFactor.eval_prod. rewrite map_map. reflexivity. Qed.

Definition scal_max : Qc := scal Qc_max_csr card ev (map to_max fs).

Theorem max_marginal_is_max_of_joint :
  let V := (max_marginal_raw card fs ev order * drop_const_max * scal_max)%Qc in
  (forall x, valid x -> (clamped card fs ev x <= V)%Qc) /\ exists x, valid x /\ clamped card fs ev x = V.
Proof.
  assert (Hs : (Q2Qc 0 <= scal_max)%Qc).
  { unfold scal_max, scal, scal_of. apply (ok_eval_prod Qc_max_csr card); [intros v; apply card_pos|].
    apply Forall_forall. intros g Hg b Hb. apply filter_In in Hg. destruct Hg as [Hg _].
    apply in_map_iff in Hg. destruct Hg as [f' [<- Hf']]. apply in_map_iff in Hf'. destruct Hf' as [f [<- Hf]].
    destruct Hq as [_ [Hwf [Hnn _]]]. rewrite Forall_forall in Hwf, Hnn.
    rewrite feval_fred; [|exact (Hwf f Hf)|exact Hb].
    exact (feval_nonneg card f (upds b ev) (Hnn f Hf)). }
  assert (Hcl : forall x, valid x -> clamped card fs ev x = (eval_prod L x * scal_max)%Qc).
  { intros x Hx. unfold clamped. rewrite <- eval_prod_to_max.
    exact (clamped_split Qc_max_csr card ev (map to_max fs) x wf_to_max Hx). }
  destruct max_marginal_raw_is_max as [Hub [x0 [Hx0 Hatt]]]. cbv zeta. split.
  - intros x Hx. rewrite Hcl by exact Hx. apply Qcmult_le_compat_r; [apply Hub; exact Hx|exact Hs].
  - exists x0. split; [exact Hx0|]. rewrite Hcl by exact Hx0. rewrite Hatt. reflexivity.
Qed.
End Fixed.
End Max.
