(* C01 proofs, part 6: the evidence phase on the pool.  Every working factor carries its own identity tag
   (fix 2ce9c42), so tuples never merge; after reducing by the evidence list,
       c * prod(pool)(a) = prod(initial pool)(a updated by the evidence)
   where c is the product of the scalar (fully observed) factors that pgmpy drops. *)
From Coq Require Import List Arith Lia PeanoNat Bool QArith Qcanon Permutation.
From PV Require Import Base.Semiring Base.Ravel Base.FinSum Base.RefFactor Base.VE Base.Graph
  C01.Model C01.Spec C01.Proofs C01.ProofsElim C01.ProofsIdx C01.ProofsFinal.
Import ListNotations.
Local Open Scope nat_scope.

Lemma qc_drop (c k x y : Qc) : k = x -> ((c * k) * y = c * (x * y))%Qc.
Proof. intros ->. ring. Qed.
Lemma qc_snoc (c x y : Qc) : (c * (y * (x * 1)) = c * (x * y))%Qc.
Proof. ring. Qed.
Lemma qc_assoc (c d x : Qc) : ((c * d) * x = c * (d * x))%Qc.
Proof. ring. Qed.

Section V.
Variable card : var -> nat.
Variable ord : forall A : Type, list A -> list A.
Hypothesis ord_perm : forall A (l : list A), Permutation (ord A l) l.

Notation feval := (feval R card).
Notation wf := (wf R card).
Notation valid := (valid card).
Notation eval_prod := (eval_prod R card).
Notation fred := (fred R card).
Notation peqb := (peqb card).
Notation wadd := (wadd card).
Notation wremove := (wremove card).
Notation padd := (padd card).

Definition od (P : list wpair) : Prop := NoDup (map snd P).
Definition tags_below (P : list wpair) (n : nat) : Prop := forall q, In q P -> exists t, snd q = Some t /\ t < n.
(* scopes are non-empty and inside K *)
Definition scoped (P : list wpair) (K : list var) : Prop :=
  forall q, In q P -> fvars (fst q) <> [] /\ forall x, In x (fvars (fst q)) -> In x K.

Lemma NoDup_map_filter {A B} (f : A -> B) (c : A -> bool) l : NoDup (map f l) -> NoDup (map f (filter c l)).
Proof.
  induction l as [|x l IH]; intros H; [constructor|]. cbn [map] in H. inversion H as [|? ? Hx Hn]; subst. simpl.
  destruct (c x); [|apply IH; exact Hn]. cbn [map]. constructor; [|apply IH; exact Hn].
  intros Hi. apply Hx. apply in_map_iff in Hi. destruct Hi as [y [E Hy]]. apply filter_In in Hy.
  rewrite <- E. apply in_map. apply Hy.
Qed.
Lemma od_wremove p P : od P -> od (wremove p P).
Proof. apply NoDup_map_filter. Qed.
Lemma od_snoc P p : od P -> (forall q, In q P -> snd q <> snd p) -> od (P ++ [p]).
Proof.
  intros H Hf. unfold od. rewrite map_app. apply NoDup_app_disj; [exact H|constructor; [intros []|constructor]|].
  intros x Hx [E|[]]. apply in_map_iff in Hx. destruct Hx as [q [Eq Hq]]. apply (Hf q Hq). congruence.
Qed.
Lemma od_distinct P : od P -> distinct card P.
Proof.
  intros H. split; [apply (NoDup_map_inv snd P H)|]. intros p q Hp Hq Hne.
  destruct (peqb p q) eqn:E; [|reflexivity]. exfalso. apply Hne. apply (od_inj card P H p q Hp Hq E).
Qed.

(* adding a tuple whose tag is new *)
Lemma padd_fresh p X : (forall q, In q X -> snd q <> snd p) ->
  (fvars (fst p) = [] /\ padd p X = X) \/ (fvars (fst p) <> [] /\ padd p X = X ++ [p]).
Proof.
  intros Hf. destruct (padd_cases card p X) as [[He E]|[He E]]; [left; split; assumption|right; split; [exact He|]].
  rewrite E. unfold Model.wadd.
  assert (Hm : wmem card p X = false).
  { unfold Model.wmem. destruct (existsb (fun q => peqb q p) X) eqn:Ex; [|reflexivity].
    apply existsb_exists in Ex. destruct Ex as [q [Hq Hqp]]. exfalso. apply (Hf q Hq).
    apply (peqb_origin card q p Hqp). }
  rewrite Hm. reflexivity.
Qed.

Lemma feval_fred1 e i (f : fac) a : wf f -> valid a -> i < card e ->
  feval (fred [(e, i)] f) (upd a e i) = feval f (upd a e i).
Proof.
  intros Hwf Ha Hi. rewrite feval_fred; [|exact Hwf|apply valid_upd; assumption].
  cbn [upds]. apply feval_ext. apply upd_upd.
Qed.
Lemma mw_fred_self e i (f : fac) : mentions e (fred [(e, i)] f) = false.
Proof.
  unfold mentions. rewrite fvars_fred. apply memv_false. intros H. apply In_vminus in H.
  destruct H as [_ H]. apply H. left. reflexivity.
Qed.
Lemma In_fvars_fred e i (f : fac) x : In x (fvars (fred [(e, i)] f)) <-> In x (fvars f) /\ x <> e.
Proof.
  rewrite fvars_fred, In_vminus. cbn [map fst]. split; intros [H1 H2]; split; try exact H1.
  - intros E. apply H2. left. symmetry. exact E.
  - intros [E|[]]. apply H2. symmetry. exact E.
Qed.

Definition istep (e i : nat) (st : list wpair * nat) (p : wpair) : list wpair * nat :=
  (padd (fred [(e, i)] (fst p), Some (snd st)) (wremove p (fst st)), S (snd st)).

(* ---- the inner loop over the snapshot S of tuples that mention e ------------------------------------------- *)
Lemma inner_evid e i (Hi : i < card e) (K : list var) (G0 : asg -> Qc) (S : list wpair) :
  forall (st : list wpair * nat) (c0 : Qc),
  Forall wf (map fst (fst st)) -> od (fst st) -> tags_below (fst st) (snd st) -> scoped (fst st) K ->
  NoDup S -> (forall p, In p S -> In p (fst st)) ->
  (forall a, valid a -> (c0 * eval_prod (map fst (fst st)) (upd a e i))%Qc = G0 a) ->
  let st' := fold_left (istep e i) S st in
  Forall wf (map fst (fst st')) /\ od (fst st') /\ tags_below (fst st') (snd st') /\ scoped (fst st') K /\
  (forall q, In q (fst st') -> mw e q = true -> In q (fst st) /\ ~ In q S) /\
  (forall x, x <> e -> occurs R x (map fst (fst st)) -> occurs R x (map fst (fst st'))) /\
  exists c, forall a, valid a -> (c * eval_prod (map fst (fst st')) (upd a e i))%Qc = G0 a.
Proof.
  induction S as [|p S IH]; intros st c0 Hwf Hod Htag Hsc Hnd Hin Hev; cbv zeta; cbn [fold_left].
  - split; [exact Hwf|]. split; [exact Hod|]. split; [exact Htag|]. split; [exact Hsc|].
    split; [intros q Hq _; split; [exact Hq|intros []]|]. split; [intros x _ H; exact H|].
    exists c0. exact Hev.
  - inversion Hnd as [|? ? HpS Hnd']; subst.
    assert (HpP : In p (fst st)) by (apply Hin; left; reflexivity).
    assert (Hwfp : wf (fst p)).
    { rewrite Forall_forall in Hwf. apply Hwf. apply in_map. exact HpP. }
    set (fr := fred [(e, i)] (fst p)). set (new := (fr, Some (snd st))).
    set (X := wremove p (fst st)).
    assert (Hdist : distinct card (fst st)) by (apply od_distinct; exact Hod).
    assert (HXsub : forall q, In q X -> In q (fst st)) by (intros q Hq; apply filter_In in Hq; apply Hq).
    assert (Hfresh : forall q, In q X -> snd q <> snd new).
    { intros q Hq E. destruct (Htag q (HXsub q Hq)) as [t [Et Hlt]]. cbn [snd] in E. rewrite Et in E.
      inversion E. lia. }
    assert (Hwfr : wf fr) by (apply wf_fred; exact Hwfp).
    assert (HwfX : Forall wf (map fst X)) by (apply wf_wremove; exact Hwf).
    assert (HodX : od X) by (apply od_wremove; exact Hod).
    assert (Hfrsub : forall x, In x (fvars fr) -> In x (fvars (fst p)) /\ x <> e) by (intros x; apply In_fvars_fred).
    (* the state after this tuple *)
    assert (Hnext : exists P1 c1,
      istep e i st p = (P1, Datatypes.S (snd st)) /\ Forall wf (map fst P1) /\ od P1 /\
      tags_below P1 (Datatypes.S (snd st)) /\ scoped P1 K /\
      (forall q, In q X -> In q P1) /\
      (forall q, In q P1 -> mw e q = true -> In q X) /\
      (fvars fr <> [] -> In new P1) /\
      (forall a, valid a -> (c1 * eval_prod (map fst P1) (upd a e i))%Qc = G0 a)).
    { change (istep e i st p) with (padd new X, Datatypes.S (snd st)).
      destruct (padd_fresh new X Hfresh) as [[Hemp E]|[Hne E]]; rewrite E; [cbn [fst] in Hemp|cbn [fst] in Hne].
      - exists X, (c0 * feval fr a0)%Qc. split; [reflexivity|]. split; [exact HwfX|]. split; [exact HodX|].
        split; [intros q Hq; destruct (Htag q (HXsub q Hq)) as [t [Et Hl]]; exists t; split; [exact Et|lia]|].
        split; [intros q Hq; apply Hsc; apply HXsub; exact Hq|]. split; [auto|]. split; [auto|].
        split; [intros H; contradiction|].
        intros a Ha. rewrite <- (Hev a Ha).
        rewrite (eval_prod_wremove card p (fst st) (upd a e i) Hdist HpP). fold X.
        apply qc_drop. rewrite (feval_empty_scope card fr a0 (upd a e i) Hemp).
        apply feval_fred1; assumption.
      - exists (X ++ [new]), c0. split; [reflexivity|].
        split; [rewrite map_app; apply Forall_app; split; [exact HwfX|constructor; [exact Hwfr|constructor]]|].
        split; [apply od_snoc; assumption|].
        split.
        { intros q Hq. apply in_app_or in Hq. destruct Hq as [Hq|[<-|[]]].
          - destruct (Htag q (HXsub q Hq)) as [t [Et Hl]]. exists t. split; [exact Et|lia].
          - exists (snd st). split; [reflexivity|lia]. }
        split.
        { intros q Hq. apply in_app_or in Hq. destruct Hq as [Hq|[<-|[]]]; [apply Hsc; apply HXsub; exact Hq|].
          cbn [fst]. split; [exact Hne|]. intros x Hx. apply (proj2 (Hsc p HpP)). apply Hfrsub. exact Hx. }
        split; [intros q Hq; apply in_or_app; left; exact Hq|].
        split.
        { intros q Hq Hm. apply in_app_or in Hq. destruct Hq as [Hq|[<-|[]]]; [exact Hq|].
          exfalso. assert (Hf : mw e new = false) by exact (mw_fred_self e i (fst p)). congruence. }
        split; [intros _; apply in_or_app; right; left; reflexivity|].
        intros a Ha. rewrite <- (Hev a Ha).
        rewrite (eval_prod_wremove card p (fst st) (upd a e i) Hdist HpP). fold X.
        rewrite map_app, eval_prod_app. cbn [map fst]. rewrite eval_prod_cons.
        rewrite <- (feval_fred1 e i (fst p) a Hwfp Ha Hi). fold fr.
        unfold RefFactor.eval_prod at 2. cbn [map prod_list fold_right]. apply qc_snoc. }
    destruct Hnext as [P1 [c1 [Est [Hwf1 [Hod1 [Htag1 [Hsc1 [HX1 [Hm1 [Hnew1 Hev1]]]]]]]]]].
    rewrite Est.
    destruct (IH (P1, Datatypes.S (snd st)) c1 Hwf1 Hod1 Htag1 Hsc1 Hnd') as [G1 [G2 [G3 [G4 [G5 [G6 G7]]]]]].
    + intros q Hq. cbn [fst]. apply HX1. apply In_wremove_other; try assumption.
      * apply Hin. right. exact Hq.
      * intros E. subst. contradiction.
    + exact Hev1.
    + split; [exact G1|]. split; [exact G2|]. split; [exact G3|]. split; [exact G4|]. split; [|split; [|exact G7]].
      * intros q Hq Hm. destruct (G5 q Hq Hm) as [HqP1 HqS]. cbn [fst] in HqP1.
        pose proof (Hm1 q HqP1 Hm) as HqX. split; [apply HXsub; exact HqX|].
        intros [E|HS]; [|contradiction]. subst q. apply filter_In in HqX. destruct HqX as [_ Hn].
        rewrite (peqb_refl card p) in Hn. discriminate.
      * intros x Hxe Hocc. apply G6; [exact Hxe|]. cbn [fst]. destruct Hocc as [f [Hf Hx]].
        apply in_map_iff in Hf. destruct Hf as [q [<- Hq]].
        destruct (peqb q p) eqn:Eqp.
        -- assert (q = p) by (apply (od_inj card (fst st) Hod q p Hq HpP Eqp)). subst q.
           exists fr. split; [|apply In_fvars_fred; split; assumption].
           apply (in_map fst P1 new). apply Hnew1. intros E.
           assert (Hxin : In x (fvars fr)) by (apply In_fvars_fred; split; assumption). rewrite E in Hxin. destruct Hxin.
        -- exists (fst q). split; [|exact Hx]. apply in_map. apply HX1. apply filter_In. split; [exact Hq|].
           rewrite Eqp. reflexivity.
Qed.

(* ---- one evidence variable ------------------------------------------------------------------------------------- *)
Lemma reduce_one_spec e i (Hi : i < card e) (K : list var) (st : list wpair * nat) :
  Forall wf (map fst (fst st)) -> od (fst st) -> tags_below (fst st) (snd st) -> scoped (fst st) K ->
  let st' := pool_reduce_one card ord st (e, i) in
  Forall wf (map fst (fst st')) /\ od (fst st') /\ tags_below (fst st') (snd st') /\
  scoped (fst st') (filter (fun x => negb (Nat.eqb x e)) K) /\
  (forall x, x <> e -> occurs R x (map fst (fst st)) -> occurs R x (map fst (fst st'))) /\
  exists c : Qc, forall a, valid a ->
    (c * eval_prod (map fst (fst st')) a)%Qc = eval_prod (map fst (fst st)) (upd a e i).
Proof.
  intros Hwf Hod Htag Hsc. cbv zeta.
  set (S := ord wpair (filter (fun p => mentions e (fst p)) (fst st))).
  change (pool_reduce_one card ord st (e, i)) with (fold_left (istep e i) S st).
  assert (HS : forall p, In p S <-> In p (fst st) /\ mw e p = true).
  { intros p. unfold S. split; intros H.
    - apply (Permutation_in _ (ord_perm _ _)) in H. apply filter_In in H. exact H.
    - apply (Permutation_in _ (Permutation_sym (ord_perm _ _))). apply filter_In. exact H. }
  assert (HndS : NoDup S).
  { unfold S. eapply Permutation_NoDup; [apply Permutation_sym; apply ord_perm|]. apply NoDup_filter.
    apply (NoDup_map_inv snd _ Hod). }
  destruct (inner_evid e i Hi K (fun a => eval_prod (map fst (fst st)) (upd a e i)) S st 1%Qc Hwf Hod Htag Hsc HndS)
    as [G1 [G2 [G3 [G4 [G5 [G6 [c G7]]]]]]].
  - intros p Hp. apply HS. exact Hp.
  - intros a _. apply Qcmult_1_l.
  - assert (Hno : forall q, In q (fst (fold_left (istep e i) S st)) -> mw e q = false).
    { intros q Hq. destruct (mw e q) eqn:Em; [|reflexivity]. exfalso.
      destruct (G5 q Hq Em) as [HqP HqS]. apply HqS. apply HS. split; assumption. }
    split; [exact G1|]. split; [exact G2|]. split; [exact G3|]. split; [|split; [exact G6|]].
    + intros q Hq. destruct (G4 q Hq) as [Hne Hin]. split; [exact Hne|]. intros x Hx. apply filter_In.
      split; [apply Hin; exact Hx|]. apply negb_true_iff, Nat.eqb_neq. intros E. subst x.
      pose proof (Hno q Hq) as Hm. unfold mw, mentions in Hm. apply memv_false in Hm. contradiction.
    + exists c. intros a Ha. rewrite <- (G7 a Ha). f_equal. symmetry.
      apply (eval_prod_ignores R card (map fst (fst (fold_left (istep e i) S st))) e).
      intros f Hf Hin. apply in_map_iff in Hf. destruct Hf as [q [<- Hq]].
      pose proof (Hno q Hq) as Hm. unfold mw, mentions in Hm. apply memv_false in Hm. contradiction.
Qed.

Lemma upds_snoc a done e i : upds a (done ++ [(e, i)]) = upds (upd a e i) done.
Proof. induction done as [|[v j] done IH]; [reflexivity|]. cbn [app upds]. rewrite IH. reflexivity. Qed.

(* ---- the evidence list -------------------------------------------------------------------------------------------- *)
Lemma evidence_spec (J : asg -> Qc) evs : forall (st : list wpair * nat) (done : list (var * nat)) (K : list var) (c : Qc),
  (forall ev, In ev evs -> snd ev < card (fst ev)) ->
  Forall wf (map fst (fst st)) -> od (fst st) -> tags_below (fst st) (snd st) -> scoped (fst st) K ->
  (forall a, valid a -> (c * eval_prod (map fst (fst st)) a)%Qc = J (upds a done)) ->
  let st' := fold_left (pool_reduce_one card ord) evs st in
  Forall wf (map fst (fst st')) /\ od (fst st') /\ tags_below (fst st') (snd st') /\
  scoped (fst st') (filter (fun x => negb (memv x (map fst evs))) K) /\
  (forall x, ~ In x (map fst evs) -> occurs R x (map fst (fst st)) -> occurs R x (map fst (fst st'))) /\
  exists c' : Qc, forall a, valid a -> (c' * eval_prod (map fst (fst st')) a)%Qc = J (upds a (done ++ evs)).
Proof.
  induction evs as [|[e i] evs IH]; intros st done K c Hi Hwf Hod Htag Hsc Hev; cbv zeta; cbn [fold_left].
  - split; [exact Hwf|]. split; [exact Hod|]. split; [exact Htag|]. split.
    + cbn [map]. rewrite <- filter_notin_nil. exact Hsc.
    + split; [intros x _ H; exact H|]. exists c. rewrite app_nil_r. exact Hev.
  - assert (Hie : i < card e) by (apply (Hi (e, i)); left; reflexivity).
    destruct (reduce_one_spec e i Hie K st Hwf Hod Htag Hsc) as [H1 [H2 [H3 [H4 [H5 [c1 H6]]]]]].
    destruct (IH (pool_reduce_one card ord st (e, i)) (done ++ [(e, i)]) _ (c * c1)%Qc
                (fun ev Hev' => Hi ev (or_intror Hev')) H1 H2 H3 H4) as [G1 [G2 [G3 [G4 [G5 [c' G6]]]]]].
    + intros a Ha. rewrite upds_snoc. rewrite <- (Hev (upd a e i)) by (apply valid_upd; assumption).
      rewrite <- (H6 a Ha). apply qc_assoc.
    + split; [exact G1|]. split; [exact G2|]. split; [exact G3|]. split; [|split].
      * cbn [map fst]. rewrite <- filter_notin_cons. exact G4.
      * intros x Hx Hocc. cbn [map fst] in Hx. apply G5; [intros H; apply Hx; right; exact H|].
        apply H5; [intros E; apply Hx; left; symmetry; exact E|exact Hocc].
      * exists c'. intros a Ha. rewrite (G6 a Ha). rewrite <- app_assoc. reflexivity.
Qed.
End V.
