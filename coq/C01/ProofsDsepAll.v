(* C01 proofs, part 14: soundness of the WHOLE _prune_bayesian_model (d-separation step + ancestral step + CPD
   marginalisation) for every valid network of every size, from the factorisation theorem of Base/Markov.v.

   With dc = the unobserved nodes d-connected to a query node given the evidence, W = ancestors of Q u E:
   the nodes kept by prune are W n (dc u E); every kept unobserved node has all its parents kept (so its CPD is
   untouched), and a kept CPD that loses a parent belongs to an observed node all of whose kept scope is observed:
   at the evidence it is a constant.  Hence
       unnorm(full network) = U * C1      unnorm(pruned network) = U * C2
   with the same function U of the query assignment and constants C1, C2; with non-negative CPD entries
   C1 <> 0 implies C2 <> 0, so both normalise to the same posterior (prune_sound_all / prune_sound; without the sign
   condition: prune_proportional).  The pruned network is again a valid network (valid_bn_pruned: the marginalised
   CPDs are renormalised over their first axis, the CPD's own variable), hence the literal [query] = prune ; eliminate
   returns the posterior / the posterior marginals of the ORIGINAL network (query_end_to_end, ..._per_variable).
   Also here: the global Markov property of a valid network (bn_global_markov) and a concrete network meeting every
   hypothesis (ex_bn). *)
From Coq Require Import List Arith Lia PeanoNat Bool QArith Qcanon Permutation.
From PV Require Import Base.Semiring Base.Ravel Base.FinSum Base.RefFactor Base.VE Base.Graph Base.Reach Base.Markov
  C08.Model C08.Spec C08.ProofsTrail C08.ProofsMisc
  C01.Model C01.Spec C01.Proofs C01.ProofsElim C01.ProofsMisc C01.ProofsGreedy C01.ProofsPrune
  C01.ProofsIdx C01.ProofsFinal C01.ProofsEvid C01.ProofsQuery C01.ProofsPost.
Import ListNotations.
Local Open Scope nat_scope.

(* ------------------------------------------------------------------ order facts over Qc *)
Local Open Scope Qc_scope.
Lemma Qc_nonneg_sum_zero (x y : Qc) : 0 <= x -> 0 <= y -> x + y = 0 -> x = 0 /\ y = 0.
Proof.
  intros Hx Hy H.
  assert (Hx0 : x <= 0).
  { rewrite <- H. rewrite <- (Qcplus_0_r x) at 1. apply Qcplus_le_compat; [apply Qcle_refl|exact Hy]. }
  assert (Ex : x = 0) by (apply Qcle_antisym; assumption).
  split; [exact Ex|]. rewrite Ex in H. rewrite Qcplus_0_l in H. exact H.
Qed.
Lemma sum_list_nonneg (l : list Qc) : (forall x, In x l -> 0 <= x) -> 0 <= @sum_list R l.
Proof.
  induction l as [|x l IH]; intros H; simpl; [apply Qcle_refl|].
  rewrite <- (Qcplus_0_r 0). apply Qcplus_le_compat; [apply H; left; reflexivity|].
  apply IH. intros y Hy. apply H. right. exact Hy.
Qed.
Lemma sum_list_nonneg_zero (l : list Qc) : (forall x, In x l -> 0 <= x) -> @sum_list R l = 0 ->
  forall x, In x l -> x = 0.
Proof.
  induction l as [|y l IH]; intros H Hs x Hx; [destruct Hx|]. simpl in Hs.
  destruct (Qc_nonneg_sum_zero y (@sum_list R l)) as [E1 E2];
    [apply H; left; reflexivity|apply sum_list_nonneg; intros z Hz; apply H; right; exact Hz|exact Hs|].
  destruct Hx as [<-|Hx]; [exact E1|]. apply IH; [intros z Hz; apply H; right; exact Hz|exact E2|exact Hx].
Qed.
Lemma prod_list_zero (l : list Qc) : @prod_list R l = 0 -> exists x, In x l /\ x = 0.
Proof.
  induction l as [|y l IH]; simpl; intros H; [discriminate|].
  apply Qcmult_integral in H. destruct H as [H|H]; [exists y; split; [left; reflexivity|exact H]|].
  destruct (IH H) as [x [Hx E]]. exists x. split; [right; exact Hx|exact E].
Qed.
Lemma Qcinv_zero (x : Qc) : / x = 0 -> x = 0.
Proof.
  intros H. destruct (Qc_eq_dec x 0) as [E|E]; [exact E|]. exfalso.
  pose proof (Qcmult_inv_r x E) as H1. rewrite H, Qcmult_0_r in H1. discriminate.
Qed.
Local Close Scope Qc_scope.

Section S.
Variable card : var -> nat.
Hypothesis card_pos : forall v, 0 < card v.
Notation feval := (feval R card).
Notation valid := (valid card).
Notation sumv vs := (@sum_over R vs (map card vs)).

Lemma sumv_nonneg vs : forall (f : asg -> Qc) a, (forall b, valid b -> (0 <= f b)%Qc) -> valid a ->
  (0 <= sumv vs f a)%Qc.
Proof.
  induction vs as [|v vs IH]; intros f a Hf Ha; [apply Hf; exact Ha|].
  cbn [map sum_over]. apply sum_list_nonneg. intros x Hx. apply in_map_iff in Hx.
  destruct Hx as [i [<- Hi]]. apply in_seq in Hi. apply IH; [exact Hf|]. apply valid_upd; [exact Ha|lia].
Qed.

(* a sum of non-negative terms that vanishes: every term vanishes *)
Lemma sumv_nonneg_zero vs : forall (f : asg -> Qc) a, @ext R f -> (forall b, valid b -> (0 <= f b)%Qc) -> valid a ->
  sumv vs f a = 0%Qc -> forall b, valid b -> (forall u, ~ In u vs -> b u = a u) -> f b = 0%Qc.
Proof.
  induction vs as [|v vs IH]; intros f a Hext Hf Ha Hs b Hb Hag.
  - cbn [map sum_over] in Hs. rewrite <- Hs. apply Hext. intros u. apply Hag. intros [].
  - cbn [map sum_over] in Hs.
    assert (Ht : sumv vs f (upd a v (b v)) = 0%Qc).
    { apply (sum_list_nonneg_zero (map (fun i => sumv vs f (upd a v i)) (seq 0 (card v)))); [|exact Hs|].
      - intros x Hx. apply in_map_iff in Hx. destruct Hx as [i [<- Hi]]. apply in_seq in Hi.
        apply sumv_nonneg; [exact Hf|apply valid_upd; [exact Ha|lia]].
      - apply in_map_iff. exists (b v). split; [reflexivity|]. apply in_seq. pose proof (Hb v). lia. }
    apply (IH f (upd a v (b v)) Hext Hf); [apply valid_upd; [exact Ha|apply Hb]|exact Ht|exact Hb|].
    intros u Hu. unfold upd. destruct (Nat.eqb u v) eqn:E; [apply Nat.eqb_eq in E; subst; reflexivity|].
    apply Hag. intros [H|H]; [subst; rewrite Nat.eqb_refl in E; discriminate|contradiction].
Qed.

(* a sum all of whose terms vanish *)
Lemma sumv_zero vs : forall (f : asg -> Qc) a, valid a ->
  (forall b, valid b -> (forall u, ~ In u vs -> b u = a u) -> f b = 0%Qc) -> sumv vs f a = 0%Qc.
Proof.
  induction vs as [|v vs IH]; intros f a Ha H.
  - apply H; [exact Ha|reflexivity].
  - cbn [map sum_over].
    assert (E : forall l : list nat, (forall i, In i l -> i < card v) ->
                @sum_list R (map (fun i => sumv vs f (upd a v i)) l) = 0%Qc).
    { induction l as [|i l IHl]; intros Hl; [reflexivity|]. cbn [map sum_list fold_right].
      fold (@sum_list R (map (fun i => sumv vs f (upd a v i)) l)).
      rewrite IHl by (intros j Hj; apply Hl; right; exact Hj).
      rewrite (IH f (upd a v i)); [reflexivity|apply valid_upd; [exact Ha|apply Hl; left; reflexivity]|].
      intros b Hb Hag. apply H; [exact Hb|]. intros u Hu. rewrite Hag by (intros Hi; apply Hu; right; exact Hi).
      apply upd_other. intros E. apply Hu. left. symmetry. exact E. }
    apply E. intros i Hi. apply in_seq in Hi. lia.
Qed.

Lemma filter_none {A} (p : A -> bool) l : (forall x, In x l -> p x = false) -> filter p l = [].
Proof.
  induction l as [|x l IH]; intros H; [reflexivity|]. cbn [filter]. rewrite (H x (or_introl eq_refl)).
  apply IH. intros y Hy. apply H. right. exact Hy.
Qed.
Lemma filter_iff_eq {A} (p q : A -> bool) l : (forall x, In x l -> (p x = true <-> q x = true)) -> filter p l = filter q l.
Proof. intros H. apply filter_ext_in. intros x Hx. apply eq_true_iff_eq. apply H. exact Hx. Qed.

Lemma fvars_cpd_marginalize X (f : fac) : fvars (cpd_marginalize card X f) = vminus (fvars f) X.
Proof.
  unfold cpd_marginalize. destruct (fvars (fmarg R card X f)) eqn:E.
  - rewrite E. symmetry. rewrite <- fvars_fmarg with (card := card). exact E.
  - cbn [fbuild fvars]. rewrite <- E. apply fvars_fmarg.
Qed.

(* ================================================================================================== *)
Variable b : bn.
Variable Q : list var.
Variable ev : list (var * nat).
Hypothesis Hbn : valid_bn card b.
Hypothesis HQne : Q <> [].
Hypothesis HQ : forall q, In q Q -> In q (nodes (bn_g b)) /\ ~ In q (map fst ev).
Hypothesis Hrng : forall e, In e ev -> snd e < card (fst e).

Let g := bn_g b.
Let E := map fst ev.
Let F := fun x => feval (bn_cpd b x).
Let dc := dcl g Q E.
Let dcon := dc ++ E.
Let g1 := induced g dcon.
Let g2 := ancestral_graph g1 (Q ++ E).
Let keep := nodes g2.
Let T := Q ++ E.
Let Wset := W g T.

Definition cpd2 (v : var) : fac :=
  let c := bn_cpd b v in
  let diff := filter (fun x => negb (memv x keep)) (fvars c) in
  match diff with [] => c | _ => cpd_marginalize card diff c end.
Definition b2 : bn := {| bn_g := g2; bn_cpd := cpd2 |}.

Lemma prune_eq : prune card b Q ev = (b2, ev).
Proof.
  unfold prune. cbv zeta.
  assert (Hv : match Q with [] => nodes (bn_g b) | _ :: _ => Q end = Q) by (destruct Q; [congruence|reflexivity]).
  rewrite Hv.
  assert (Hf : filter (fun e => memn (fst e) (flat_map (fun q => active_trail_nodes (bn_g b) q (map fst ev)) Q ++ map fst ev)) ev = ev).
  { apply filter_all. intros e He. apply memn_In. apply in_or_app. right. apply in_map. exact He. }
  rewrite Hf. reflexivity.
Qed.

Lemma Hwf : wf_graph g. Proof. apply Hbn. Qed.
Lemma Hac : acyclic g. Proof. apply Hbn. Qed.
Lemma all_ok : forall x : R, ok x. Proof. intros x. exact I. Qed.
Lemma HXn : forall x, In x Q -> In x (nodes g). Proof. intros x Hx. apply HQ. exact Hx. Qed.
Lemma HXZ : forall x, In x Q -> ~ In x E. Proof. intros x Hx. apply HQ. exact Hx. Qed.
Lemma HT : forall t, In t T -> In t Q \/ In t E \/ ~ In t dc.
Proof. intros t Ht. apply in_app_or in Ht. tauto. Qed.
Lemma Fdep : forall x, In x (nodes g) -> depends_only (F x) (x :: parents g x).
Proof.
  intros x Hx. destruct Hbn as [_ [_ Hc]]. destruct (Hc x Hx) as [_ [Hs _]].
  eapply depends_only_mono; [apply feval_depends_only|]. intros u Hu. apply Hs in Hu.
  destruct Hu as [->|Hu]; [left; reflexivity|right; exact Hu].
Qed.
Lemma Fsum : forall x, In x (nodes g) -> forall a, valid a -> @sum_over R [x] [card x] (F x) a = one.
Proof. intros x Hx a Ha. destruct Hbn as [_ [_ Hc]]. destruct (Hc x Hx) as [_ [_ H1]]. apply H1. exact Ha. Qed.
Lemma scope_iff x : In x (nodes g) -> forall u, In u (fvars (bn_cpd b x)) <-> In u (x :: parents g x).
Proof.
  intros Hx u. destruct Hbn as [_ [_ Hc]]. destruct (Hc x Hx) as [_ [Hs _]]. rewrite Hs. simpl. intuition.
Qed.
Lemma scope_nodes x u : In x (nodes g) -> In u (x :: parents g x) -> In u (nodes g).
Proof. intros Hx [<-|Hu]; [exact Hx|]. apply In_parents in Hu. apply (proj2 Hwf u x Hu). Qed.
Lemma scope_W x u : In x Wset -> In u (x :: parents g x) -> In u Wset.
Proof. intros Hx [<-|Hu]; [exact Hx|]. apply In_parents in Hu. exact (W_up_closed g Hwf T u x Hu Hx). Qed.

(* ---- the kept node set ------------------------------------------------------------------------------- *)
Lemma path_in_dcon v t : dpath g v t -> In v dcon -> In t T -> exists t', In t' T /\ dpath g1 v t'.
Proof.
  intros Hp. revert v t Hp.
  apply (dpath_ind_left g (fun v t => In v dcon -> In t T -> exists t', In t' T /\ dpath g1 v t')).
  - intros u _ Hu. exists u. split; [exact Hu|apply dpath_refl].
  - intros u v w He _ IH Hu Hw. apply in_app_or in Hu. destruct Hu as [Hu|Hu].
    + assert (Hv : In v dcon).
      { destruct (in_dec Nat.eq_dec v E) as [H|H]; [apply in_or_app; right; exact H|].
        apply in_or_app. left. exact (dcl_child g Hwf Q E HXn u v He Hu H). }
      destruct (IH Hv Hw) as [t' [Ht' Hp']]. exists t'. split; [exact Ht'|].
      eapply dpath_step_l; [|exact Hp']. apply induced_edges. split; [exact He|]. split; [|exact Hv].
      apply in_or_app. left. exact Hu.
    + exists u. split; [apply in_or_app; right; exact Hu|apply dpath_refl].
Qed.

Lemma anc1_spec v : In v dcon -> (In v (anc_of g1 T) <-> In v Wset).
Proof.
  intros Hv. unfold Wset, W. rewrite (anc_of_spec g1 T v (wf_induced g dcon Hwf)), (anc_of_spec g T v Hwf). split.
  - intros [s [Hs Hp]]. exists s. split; [exact Hs|]. eapply dpath_induced_sub. exact Hp.
  - intros [s [Hs Hp]]. destruct (path_in_dcon v s Hp Hv Hs) as [t' [Ht' Hp']]. exists t'. tauto.
Qed.

Lemma keep_eq : keep = filter (fun n => memn n (anc_of g1 T)) (filter (fun n => memn n dcon) (nodes g)).
Proof. reflexivity. Qed.
Lemma In_keep v : In v keep <-> In v (nodes g) /\ In v dcon /\ In v Wset.
Proof.
  rewrite keep_eq, !filter_In, !memn_In. split.
  - intros [[H1 H2] H3]. split; [exact H1|]. split; [exact H2|]. apply anc1_spec; assumption.
  - intros [H1 [H2 H3]]. split; [tauto|]. apply anc1_spec; assumption.
Qed.

Notation typeA := (typeA g Q E).
Notation Wl := (Wl g T).
Notation LA := (LA g Q E T).
Notation LB := (LB g Q E T).
Notation DS := (DS g Q E T).
Notation NS := (NS g Q E T).
Notation fA := (fA R g F Q E T).
Notation fB := (fB R g F Q E T).

Lemma scopeA v : In v Wset -> typeA v = true -> forall u, In u (v :: parents g v) -> In u dc \/ In u E.
Proof. exact (scope_A g Hwf Q E T HXn HT v). Qed.
Lemma scopeB v : typeA v = false -> forall u, In u (v :: parents g v) -> ~ In u dc.
Proof. exact (scope_B g Q E v). Qed.

Lemma keep_typeA : filter typeA keep = LA.
Proof.
  rewrite keep_eq. unfold Markov.LA, Markov.Wl. rewrite !filter_filter. apply filter_iff_eq. intros v Hv.
  rewrite !andb_true_iff, !memn_In. fold T Wset. split.
  - intros [H1 [H2 H3]]. split; [|exact H3]. apply anc1_spec; assumption.
  - intros [H1 H3]. assert (H2 : In v dcon).
    { destruct (scopeA v H1 H3 v (or_introl eq_refl)); apply in_or_app; tauto. }
    split; [exact H2|]. split; [|exact H3]. apply anc1_spec; assumption.
Qed.

Lemma rest2_eq : rest b2 Q E = DS T.
Proof.
  unfold rest. cbn [b2 bn_g]. change (nodes g2) with keep. rewrite keep_eq.
  unfold Markov.DS, Markov.Wl. rewrite !filter_filter. apply filter_iff_eq. intros v Hv.
  rewrite !andb_true_iff, !negb_true_iff, !memn_In, !memv_false, ?memn_false. fold T Wset dc.
  assert (HT' : In v T <-> In v Q \/ In v E) by (unfold T; apply in_app_iff).
  split.
  - intros [H1 [H2 [H3 H4]]]. split; [apply anc1_spec; assumption|]. split; [|tauto].
    apply in_app_or in H1. destruct H1; [assumption|contradiction].
  - intros [H1 [H2 H3]]. assert (Hd : In v dcon) by (apply in_or_app; left; exact H2).
    split; [exact Hd|]. split; [apply anc1_spec; assumption|tauto].
Qed.

(* CPDs of type-A nodes are untouched *)
Lemma cpd2_A v : In v LA -> cpd2 v = bn_cpd b v.
Proof.
  intros Hv. unfold Markov.LA in Hv. apply filter_In in Hv. destruct Hv as [Hv Ht].
  apply (In_Wl g T) in Hv. destruct Hv as [Hvn HvW]. unfold cpd2. cbv zeta.
  rewrite filter_none; [reflexivity|]. intros u Hu. apply negb_false_iff, memv_In, In_keep.
  apply (scope_iff v Hvn) in Hu. split; [exact (scope_nodes v u Hvn Hu)|]. split; [|exact (scope_W v u HvW Hu)].
  destruct (scopeA v HvW Ht u Hu); apply in_or_app; tauto.
Qed.

(* the scope of a new CPD: the kept part of the old scope *)
Lemma fvars_cpd2 v u : In u (fvars (cpd2 v)) -> In u (fvars (bn_cpd b v)) /\ In u keep.
Proof.
  unfold cpd2. cbv zeta. destruct (filter (fun x => negb (memv x keep)) (fvars (bn_cpd b v))) eqn:Ed.
  - intros Hu. split; [exact Hu|]. destruct (memv u keep) eqn:Ek; [apply memv_In; exact Ek|]. exfalso.
    assert (Hi : In u (filter (fun x => negb (memv x keep)) (fvars (bn_cpd b v)))) by (apply filter_In; rewrite Ek; tauto).
    rewrite Ed in Hi. destruct Hi.
  - rewrite <- Ed. rewrite fvars_cpd_marginalize. intros Hu. apply In_vminus in Hu. destruct Hu as [H1 H2].
    split; [exact H1|]. destruct (memv u keep) eqn:Ek; [apply memv_In; exact Ek|]. exfalso. apply H2.
    apply filter_In. rewrite Ek. tauto.
Qed.

(* type-B kept nodes: observed, and the new CPD looks at observed variables only *)
Definition EB : list var := filter (fun x => negb (typeA x)) keep.
Lemma EB_spec v : In v EB -> In v (nodes g) /\ In v Wset /\ typeA v = false /\ In v E.
Proof.
  intros Hv. apply filter_In in Hv. destruct Hv as [Hk Ht]. apply negb_true_iff in Ht. apply In_keep in Hk.
  destruct Hk as [H1 [H2 H3]]. repeat split; try assumption.
  apply in_app_or in H2. destruct H2 as [H2|H2]; [|exact H2]. exfalso. exact (scopeB v Ht v (or_introl eq_refl) H2).
Qed.
Lemma cpd2_B_scope v u : In v EB -> In u (fvars (cpd2 v)) -> In u E.
Proof.
  intros Hv Hu. destruct (EB_spec v Hv) as [Hvn [HvW [Ht _]]]. apply fvars_cpd2 in Hu. destruct Hu as [Hu Hk].
  apply (scope_iff v Hvn) in Hu. apply In_keep in Hk. destruct Hk as [_ [Hd _]].
  apply in_app_or in Hd. destruct Hd as [Hd|Hd]; [|exact Hd]. exfalso. exact (scopeB v Ht u Hu Hd).
Qed.

Definition F2 := fun x => feval (cpd2 x).
Definition c2fun : asg -> Qc := jprod R F2 EB.
Definition e0 : asg := upds a0 ev.
Definition U (a : asg) : Qc := sumv (DS T) fA (upds a ev).
Definition C1 : Qc := sumv (NS T) fB e0.
Definition C2 : Qc := c2fun e0.

Lemma valid_a0' : valid a0. Proof. intros v. apply card_pos. Qed.
Lemma valid_e0 : valid e0. Proof. apply valid_upds; [exact valid_a0'|exact Hrng]. Qed.

Lemma c2fun_depends : @depends_only R c2fun E.
Proof.
  apply jprod_depends. intros x Hx. eapply depends_only_mono; [apply feval_depends_only|].
  intros u Hu. exact (cpd2_B_scope x u Hx Hu).
Qed.

(* ---- the pruned network's unnormalised answer ------------------------------------------------------- *)
Theorem unnorm_pruned a : valid a -> unnorm card b2 Q ev [] a = (U a * C2)%Qc.
Proof.
  intros Ha. unfold unnorm. fold E. rewrite rest2_eq. unfold U.
  rewrite (sum_over_ext_fun R (DS T) (map card (DS T)) (wjoint card b2 []) (fun x => @mul R (fA x) (c2fun x))).
  - rewrite (sum_over_mul_r R (DS T) (map card (DS T)) c2fun fA (upds a ev)).
    + unfold C2. rewrite (c2fun_depends (upds a ev) e0); [reflexivity|]. intros v Hv. apply upds_in. exact Hv.
    + intros v Hv. eapply depends_only_ignores; [apply c2fun_depends|]. intros HvE.
      apply (In_DS g Q E T) in Hv. destruct Hv as [_ [_ [_ Hv]]]. apply Hv. apply in_or_app. right. exact HvE.
    + intros c. exact I.
  - intros x. unfold wjoint, weight, joint, cpd_factors. cbn [map prod_list fold_right b2 bn_g bn_cpd].
    rewrite Qcmult_1_r. change (nodes g2) with keep. unfold eval_prod. rewrite map_map.
    change (@prod_list R (map (fun v => feval (cpd2 v) x) keep)) with (jprod R F2 keep x).
    rewrite (jprod_filter_split R F2 typeA keep x). f_equal.
    transitivity (jprod R F2 LA x); [apply (f_equal (fun L => jprod R F2 L x)); exact keep_typeA|].
    unfold Markov.fA, jprod. f_equal. apply map_ext_in. intros v Hv. unfold F2, F. rewrite (cpd2_A v Hv). reflexivity.
Qed.

(* ---- the full network's unnormalised answer --------------------------------------------------------- *)
Theorem unnorm_full a : valid a -> unnorm card b Q ev [] a = (U a * C1)%Qc.
Proof.
  intros Ha. unfold unnorm. fold E.
  assert (Hva : valid (upds a ev)) by (apply valid_upds; assumption).
  transitivity (marg R card g F T (upds a ev)).
  - unfold marg, rest. fold g.
    assert (Hf : filter (fun v => negb (memv v Q) && negb (memv v E)) (nodes g) = filter (fun v => negb (memn v T)) (nodes g)).
    { apply filter_ext. intros v. unfold T, memn, memv. rewrite existsb_app, negb_orb. reflexivity. }
    rewrite Hf. apply (sum_over_ext_fun R). intros x. unfold wjoint, weight, joint, cpd_factors. cbn [map prod_list fold_right].
    rewrite Qcmult_1_r. unfold eval_prod. rewrite map_map. reflexivity.
  - rewrite (marg_factor R all_ok card g F Hwf Hac Fdep Fsum Q E T HXn HT T (upds a ev)).
    + unfold U, C1.
      assert (Hd : depends_only (sumv (NS T) fB) (filter (fun x => negb (existsb (Nat.eqb x) (NS T))) (NS T ++ E))).
      { apply sum_over_depends_only; [|symmetry; apply map_length].
        apply (fB_depends R g F Hwf Fdep Q E T T). intros s Hs. apply in_app_or in Hs.
        destruct Hs as [Hs|Hs]; [left; apply (X_in_dcl g Hwf Q E HXn HXZ); exact Hs|right; exact Hs]. }
      rewrite (Hd (upds a ev) e0); [reflexivity|].
      intros v Hv. apply filter_In in Hv. destruct Hv as [Hv Hn]. apply in_app_or in Hv.
      destruct Hv as [Hv|Hv]; [|apply upds_in; exact Hv]. exfalso.
      apply negb_true_iff in Hn. assert (Hm : memn v (NS T) = true) by (apply memn_In; exact Hv).
      unfold memn in Hm. congruence.
    + intros z Hz. apply in_or_app. right. exact Hz.
    + intros s Hs. apply anc_of_self; [exact Hwf|exact Hs].
    + exact Hva.
Qed.

(* proportional without any sign condition *)
Theorem prune_proportional a a' : valid a -> valid a' ->
  (unnorm card b Q ev [] a * unnorm card b2 Q ev [] a' = unnorm card b Q ev [] a' * unnorm card b2 Q ev [] a)%Qc.
Proof.
  intros Ha Ha'. rewrite !unnorm_full, !unnorm_pruned by assumption. ring.
Qed.

(* ---- with non-negative CPD entries: C1 <> 0 -> C2 <> 0 --------------------------------------------- *)
Hypothesis Hnn : forall x, In x (nodes g) -> forall a, valid a -> (0 <= F x a)%Qc.

Lemma wf_cpd x : In x (nodes g) -> wf R card (bn_cpd b x).
Proof. intros Hx. destruct Hbn as [_ [_ Hc]]. apply (Hc x Hx). Qed.

(* if the new CPD of a type-B node vanishes at the evidence, its old CPD vanishes at every valid assignment
   that agrees with the evidence *)
Lemma F2_zero v bb : In v EB -> F2 v e0 = 0%Qc -> valid bb -> (forall u, In u E -> bb u = e0 u) -> F v bb = 0%Qc.
Proof.
  intros Hv Hz Hb Hag. destruct (EB_spec v Hv) as [Hvn [HvW [Ht HvE]]].
  pose proof (wf_cpd v Hvn) as Hwfc.
  assert (HsE : forall u, In u (fvars (bn_cpd b v)) -> In u keep -> In u E).
  { intros u Hu Hk. apply (scope_iff v Hvn) in Hu. apply In_keep in Hk. destruct Hk as [_ [Hd _]].
    apply in_app_or in Hd. destruct Hd as [Hd|Hd]; [|exact Hd]. exfalso. exact (scopeB v Ht u Hu Hd). }
  unfold F2, cpd2 in Hz. cbv zeta in Hz.
  destruct (filter (fun x => negb (memv x keep)) (fvars (bn_cpd b v))) eqn:Ed.
  - (* nothing dropped: the CPD looks at observed variables only *)
    unfold F. rewrite <- Hz. apply feval_depends_only. intros u Hu. apply Hag. apply HsE; [exact Hu|].
    destruct (memv u keep) eqn:Ek; [apply memv_In; exact Ek|]. exfalso.
    assert (Hi : In u (filter (fun x => negb (memv x keep)) (fvars (bn_cpd b v)))) by (apply filter_In; rewrite Ek; tauto).
    rewrite Ed in Hi. destruct Hi.
  - rewrite <- Ed in Hz. set (diff := filter (fun x => negb (memv x keep)) (fvars (bn_cpd b v))) in *.
    set (c := bn_cpd b v) in *. set (m := fmarg R card diff c).
    assert (Hwm : wf R card m) by (apply wf_fmarg; exact Hwfc).
    assert (Hmnn : forall a, valid a -> (0 <= feval m a)%Qc).
    { intros a Ha. unfold m. rewrite feval_fmarg by assumption. apply sumv_nonneg; [|exact Ha].
      intros a' Ha'. apply (Hnn v Hvn a' Ha'). }
    assert (Hm0 : feval m e0 = 0%Qc).
    { unfold cpd_marginalize in Hz. fold m in Hz. destruct (fvars m) as [|x r] eqn:Efm.
      - exact Hz.
      - rewrite <- Efm in Hz. rewrite feval_fbuild in Hz; [|apply Hwm|exact valid_e0|].
        + apply Qcmult_integral in Hz. destruct Hz as [Hz|Hz]; [exact Hz|]. apply Qcinv_zero in Hz.
          assert (Hx0 : feval m (upd e0 x (e0 x)) = 0%Qc).
          { apply (sumv_nonneg_zero [x] (feval m) e0 (feval_ext R card m) Hmnn valid_e0 Hz).
            - apply valid_upd; [exact valid_e0|apply valid_e0].
            - intros u Hu. apply upd_other. intros Eu. apply Hu. left. symmetry. exact Eu. }
          rewrite <- Hx0. apply feval_ext. apply aeq_sym. apply upd_id.
        + intros a1 a2 H12. f_equal; [apply feval_depends_only; exact H12|].
          assert (Hd : depends_only (sumv [x] (feval m)) (filter (fun y => negb (existsb (Nat.eqb y) [x])) (fvars m))).
          { apply sum_over_depends_only; [apply feval_depends_only|reflexivity]. }
          apply Hd. intros u Hu. apply filter_In in Hu. apply H12. apply Hu. }
    unfold m in Hm0. rewrite feval_fmarg in Hm0 by (try exact Hwfc; exact valid_e0).
    set (xs := vinter (fvars c) diff) in *.
    set (b' := fun u => if memv u xs then bb u else e0 u).
    assert (Hb' : valid b') by (intros u; unfold b'; destruct (memv u xs); [apply Hb|apply valid_e0]).
    assert (H0 : feval c b' = 0%Qc).
    { apply (sumv_nonneg_zero xs (feval c) e0 (feval_ext R card c) (Hnn v Hvn) valid_e0 Hm0 b' Hb').
      intros u Hu. unfold b'. apply memv_false in Hu. rewrite Hu. reflexivity. }
    unfold F. fold c. rewrite <- H0. apply feval_depends_only. intros u Hu. unfold b'.
    destruct (memv u xs) eqn:Ex; [reflexivity|]. apply Hag. apply HsE; [exact Hu|].
    destruct (memv u keep) eqn:Ek; [apply memv_In; exact Ek|]. exfalso.
    apply memv_false in Ex. apply Ex. unfold xs, vinter. apply filter_In. split; [exact Hu|]. apply memv_In.
    unfold diff. apply filter_In. rewrite Ek. tauto.
Qed.

Theorem C1_C2 : C1 <> 0%Qc -> C2 <> 0%Qc.
Proof.
  intros H1 H2. apply H1. unfold C2, c2fun, jprod in H2. apply prod_list_zero in H2.
  destruct H2 as [x [Hx Ex]]. apply in_map_iff in Hx. destruct Hx as [v [Hv HvEB]]. rewrite Ex in Hv.
  unfold C1. apply sumv_zero; [exact valid_e0|]. intros bb Hb Hag.
  assert (HvLB : In v LB).
  { destruct (EB_spec v HvEB) as [Hvn [HvW [Ht _]]]. unfold Markov.LB. apply filter_In. split.
    - apply (In_Wl g T). tauto.
    - rewrite Ht. reflexivity. }
  apply (jprod_zero R F LB v bb HvLB).
  apply (F2_zero v bb HvEB Hv Hb). intros u Hu. apply Hag. intros Hn.
  apply (In_NS g Q E T) in Hn. destruct Hn as [_ [_ [_ Hn]]]. apply Hn. apply in_or_app. right. exact Hu.
Qed.

(* ---- P(e) and the posterior ------------------------------------------------------------------------ *)
Definition SU : Qc := sumv Q U a0.

Lemma pev_full : pev card b Q ev [] = (SU * C1)%Qc.
Proof.
  unfold pev, SU. transitivity (sumv Q (fun a => @mul R (U a) C1) a0).
  { exact (sum_over_ext_valid R card Q _ (fun a => @mul R (U a) C1) a0 valid_a0' unnorm_full). }
  apply (sum_over_mul_r R Q (map card Q) (fun _ => C1) U a0); [intros v _ a i; reflexivity|intros c; exact I].
Qed.
Lemma pev_pruned : pev card b2 Q ev [] = (SU * C2)%Qc.
Proof.
  unfold pev, SU. transitivity (sumv Q (fun a => @mul R (U a) C2) a0).
  { exact (sum_over_ext_valid R card Q _ (fun a => @mul R (U a) C2) a0 valid_a0' unnorm_pruned). }
  apply (sum_over_mul_r R Q (map card Q) (fun _ => C2) U a0); [intros v _ a i; reflexivity|intros c; exact I].
Qed.

Theorem prune_sound_all :
  pev card b Q ev [] <> 0%Qc ->
  pev card b2 Q ev [] <> 0%Qc /\
  forall a, valid a -> posterior card b2 Q ev [] a = posterior card b Q ev [] a.
Proof.
  intros Hpe. rewrite pev_full in Hpe.
  assert (HS : SU <> 0%Qc) by (intros E0; apply Hpe; rewrite E0; apply Qcmult_0_l).
  assert (H1 : C1 <> 0%Qc) by (intros E0; apply Hpe; rewrite E0; apply Qcmult_0_r).
  pose proof (C1_C2 H1) as H2.
  split.
  - rewrite pev_pruned. intros E0. apply Qcmult_integral in E0. tauto.
  - intros a Ha. unfold posterior. rewrite pev_full, pev_pruned, unnorm_full, unnorm_pruned by exact Ha.
    field. repeat split; assumption.
Qed.

(* ---- the pruned network is again a valid network (needs: the CPD's own variable is its first axis, as in every
   TabularCPD, because cpd_marginalize renormalises over the first axis) ---------------------------------------- *)
Hypothesis Hhead : forall x, In x (nodes g) -> exists r, fvars (bn_cpd b x) = x :: r.

Lemma sum_list_ge (l : list Qc) x : (forall y, In y l -> (0 <= y)%Qc) -> In x l -> (x <= @sum_list R l)%Qc.
Proof.
  induction l as [|y l IH]; intros Hnn' Hin; [destruct Hin|]. simpl.
  assert (Hs : (0 <= @sum_list R l)%Qc) by (apply sum_list_nonneg; intros z Hz; apply Hnn'; right; exact Hz).
  destruct Hin as [->|Hin].
  - rewrite <- (Qcplus_0_r x) at 1. apply Qcplus_le_compat; [apply Qcle_refl|exact Hs].
  - rewrite <- (Qcplus_0_l x). apply Qcplus_le_compat; [apply Hnn'; left; reflexivity|apply IH; [|exact Hin]].
    intros z Hz. apply Hnn'. right. exact Hz.
Qed.
Lemma sumv_ones vs : forall a, valid a -> (1 <= sumv vs (fun _ => 1%Qc) a)%Qc.
Proof.
  induction vs as [|v vs IH]; intros a Ha; [apply Qcle_refl|]. cbn [map sum_over].
  eapply Qcle_trans; [apply (IH (upd a v 0)); apply valid_upd; [exact Ha|apply card_pos]|].
  apply sum_list_ge.
  - intros y Hy. apply in_map_iff in Hy. destruct Hy as [i [<- Hi]]. apply in_seq in Hi.
    eapply Qcle_trans; [|apply IH; apply valid_upd; [exact Ha|lia]]. discriminate.
  - apply in_map_iff. exists 0. split; [reflexivity|]. apply in_seq. pose proof (card_pos v). lia.
Qed.

Lemma In_fvars_cpd2 v u : In u (fvars (cpd2 v)) <-> In u (fvars (bn_cpd b v)) /\ In u keep.
Proof.
  split; [apply fvars_cpd2|]. intros [H1 H2]. unfold cpd2. cbv zeta.
  destruct (filter (fun x => negb (memv x keep)) (fvars (bn_cpd b v))) eqn:Ed; [exact H1|].
  rewrite <- Ed. rewrite fvars_cpd_marginalize. apply In_vminus. split; [exact H1|]. intros Hd.
  apply filter_In in Hd. destruct Hd as [_ Hd]. apply negb_true_iff, memv_false in Hd. contradiction.
Qed.

Lemma keep_nodes v : In v keep -> In v (nodes g).
Proof. intros H. apply In_keep in H. apply H. Qed.

Lemma edges_g2 u v : In (u, v) (edges g2) <-> In (u, v) (edges g) /\ In u keep /\ In v keep.
Proof.
  unfold g2, ancestral_graph. rewrite induced_edges. unfold g1 at 1. rewrite induced_edges.
  rewrite keep_eq, !filter_In, !memn_In. fold T. split.
  - intros [[He [Hu Hv]] [Hu' Hv']]. pose proof (proj2 Hwf u v He) as [Hun Hvn]. tauto.
  - tauto.
Qed.

Lemma cpd2_sum1 x : In x keep -> forall a, valid a -> @sum_over R [x] [card x] (feval (cpd2 x)) a = 1%Qc.
Proof.
  intros Hk a Ha. pose proof (keep_nodes x Hk) as Hxn. unfold cpd2. cbv zeta.
  destruct (filter (fun y => negb (memv y keep)) (fvars (bn_cpd b x))) eqn:Ed; [exact (Fsum x Hxn a Ha)|].
  rewrite <- Ed. set (diff := filter (fun y => negb (memv y keep)) (fvars (bn_cpd b x))).
  set (c := bn_cpd b x). pose proof (wf_cpd x Hxn) as Hwfc. fold c in Hwfc.
  set (m := fmarg R card diff c).
  assert (Hwm : wf R card m) by (apply wf_fmarg; exact Hwfc).
  destruct (Hhead x Hxn) as [r Hr]. fold c in Hr.
  assert (Hxd : ~ In x diff).
  { intros H. apply filter_In in H. destruct H as [_ H]. apply negb_true_iff, memv_false in H. contradiction. }
  assert (Hfm : fvars m = x :: vminus r diff).
  { unfold m. rewrite fvars_fmarg, Hr. unfold vminus. cbn [filter].
    assert (E0 : memv x diff = false) by (apply memv_false; exact Hxd). rewrite E0. reflexivity. }
  unfold cpd_marginalize. fold m. rewrite Hfm. rewrite <- Hfm.
  set (xs := vinter (fvars c) diff).
  assert (Hxxs : ~ In x xs) by (intros H; apply filter_In in H; destruct H as [_ H]; apply memv_In in H; contradiction).
  set (D := @sum_over R [x] [card x] (feval m)).
  assert (HDeq : forall a', valid a' -> D a' = sumv xs (fun _ => 1%Qc) a').
  { intros a' Ha'. unfold D.
    transitivity (sumv [x] (sumv xs (feval c)) a').
    { exact (sum_over_ext_valid R card [x] (feval m) (sumv xs (feval c)) a' Ha'
               (fun b' Hb' => feval_fmarg R card diff c b' Hwfc Hb')). }
    transitivity (sumv xs (@sum_over R [x] [card x] (feval c)) a').
    { exact (sum_over_swap1 R xs (map card xs) x (card x) (feval c) a' (feval_ext R card c) Hxxs). }
    apply (sum_over_ext_valid R card xs _ _ a' Ha'). intros b' Hb'. exact (Fsum x Hxn b' Hb'). }
  assert (HD0 : forall a', valid a' -> D a' <> 0%Qc).
  { intros a' Ha' E0. pose proof (sumv_ones xs a' Ha') as H1. rewrite <- (HDeq a' Ha'), E0 in H1.
    apply H1. reflexivity. }
  assert (Hpt : forall b', valid b' ->
            feval (fbuild R card (fvars m) (fun a0 => (feval m a0 / @sum_over R [x] [card x] (feval m) a0)%Qc)) b' =
            @mul R (feval m b') (/ D b')%Qc).
  { intros b' Hb'. rewrite feval_fbuild; [reflexivity|apply Hwm|exact Hb'|].
    intros a1 a2 H12. f_equal; [apply feval_depends_only; exact H12|].
    assert (Hd : depends_only (sumv [x] (feval m)) (filter (fun y => negb (existsb (Nat.eqb y) [x])) (fvars m))).
    { apply sum_over_depends_only; [apply feval_depends_only|reflexivity]. }
    apply Hd. intros u Hu. apply filter_In in Hu. apply H12. apply Hu. }
  transitivity (@sum_over R [x] [card x] (fun a' => @mul R (feval m a') (/ D a')%Qc) a).
  { exact (sum_over_ext_valid R card [x] _ (fun a' => @mul R (feval m a') (/ D a')%Qc) a Ha Hpt). }
  rewrite (sum_over_mul_r R [x] [card x] (fun a' => (/ D a')%Qc) (feval m) a).
  - fold D. apply Qcmult_inv_r. apply HD0. exact Ha.
  - intros w [<-|[]] a' i. f_equal. unfold D. apply (sum_over_ignores R [x] [card x] (feval m) x (feval_ext R card m));
      [left; reflexivity|reflexivity].
  - intros c0. exact I.
Qed.

Lemma wf_cpd2 x : In x (nodes g) -> wf R card (cpd2 x).
Proof.
  intros Hxn. unfold cpd2. cbv zeta.
  destruct (filter (fun y => negb (memv y keep)) (fvars (bn_cpd b x))) eqn:Ed; [apply wf_cpd; exact Hxn|].
  rewrite <- Ed. unfold cpd_marginalize.
  assert (Hwm : wf R card (fmarg R card (filter (fun y => negb (memv y keep)) (fvars (bn_cpd b x))) (bn_cpd b x)))
    by (apply wf_fmarg; apply wf_cpd; exact Hxn).
  destruct (fvars (fmarg R card _ (bn_cpd b x))) eqn:Efm; [exact Hwm|]. rewrite <- Efm. apply wf_fbuild. apply Hwm.
Qed.

Theorem valid_bn_pruned : valid_bn card b2.
Proof.
  split; [apply ancestral_wf; apply wf_induced; exact Hwf|].
  split; [apply ancestral_acyclic; apply acyclic_induced; exact Hac|].
  intros x Hx. cbn [b2 bn_g bn_cpd] in *. change (nodes g2) with keep in Hx.
  pose proof (keep_nodes x Hx) as Hxn.
  split; [apply wf_cpd2; exact Hxn|]. split.
  - intros v. rewrite In_fvars_cpd2, (scope_iff x Hxn), In_parents, edges_g2. cbn [In]. rewrite In_parents. split.
    + intros [[<-|Hp] Hk]; [left; reflexivity|right; tauto].
    + intros [->|[He [Hv _]]]; [split; [left; reflexivity|exact Hx]|split; [right; exact He|exact Hv]].
  - intros a Ha. apply cpd2_sum1; assumption.
Qed.

Lemma b2_nodes v : In v (nodes (bn_g b2)) <-> In v (nodes g) /\ In v dcon /\ In v Wset.
Proof. exact (In_keep v). Qed.
Lemma b2_Q_in q : In q Q -> In q (nodes (bn_g b2)) /\ ~ In q E.
Proof.
  intros Hq. split; [|apply HXZ; exact Hq]. apply b2_nodes. split; [apply HXn; exact Hq|]. split.
  - apply in_or_app. left. apply (X_in_dcl g Hwf Q E HXn HXZ). exact Hq.
  - apply anc_of_self; [exact Hwf|]. apply in_or_app. left. exact Hq.
Qed.
Lemma b2_E_in x : In x (nodes g) -> In x E -> In x (nodes (bn_g b2)).
Proof.
  intros Hn Hx. apply b2_nodes. split; [exact Hn|]. split; [apply in_or_app; right; exact Hx|].
  apply anc_of_self; [exact Hwf|]. apply in_or_app. right. exact Hx.
Qed.

Theorem prune_marginal_all q :
  pev card b Q ev [] <> 0%Qc ->
  forall a, valid a -> posterior_marginal card b2 Q ev [] q a = posterior_marginal card b Q ev [] q a.
Proof.
  intros Hpe a Ha. pose proof Hpe as Hpe'. rewrite pev_full in Hpe'.
  assert (HS : SU <> 0%Qc) by (intros E0; apply Hpe'; rewrite E0; apply Qcmult_0_l).
  assert (H1 : C1 <> 0%Qc) by (intros E0; apply Hpe'; rewrite E0; apply Qcmult_0_r).
  pose proof (C1_C2 H1) as H2.
  unfold posterior_marginal. set (others := filter (fun x => negb (Nat.eqb x q)) Q).
  rewrite pev_full, pev_pruned.
  assert (E1 : sumv others (unnorm card b Q ev []) a = (sumv others U a * C1)%Qc).
  { transitivity (sumv others (fun a' => @mul R (U a') C1) a).
    - exact (sum_over_ext_valid R card others _ (fun a' => @mul R (U a') C1) a Ha unnorm_full).
    - apply (sum_over_mul_r R others (map card others) (fun _ => C1) U a); [intros v _ a' i; reflexivity|intros c; exact I]. }
  assert (E2 : sumv others (unnorm card b2 Q ev []) a = (sumv others U a * C2)%Qc).
  { transitivity (sumv others (fun a' => @mul R (U a') C2) a).
    - exact (sum_over_ext_valid R card others _ (fun a' => @mul R (U a') C2) a Ha unnorm_pruned).
    - apply (sum_over_mul_r R others (map card others) (fun _ => C2) U a); [intros v _ a' i; reflexivity|intros c; exact I]. }
  rewrite E1, E2. field. repeat split; assumption.
Qed.
End S.

(* ---- the statement about [prune] itself ---------------------------------------------------------------- *)
Theorem prune_sound (card : var -> nat) (b : bn) (Q : list var) (ev : list (var * nat)) :
  (forall v, 0 < card v) -> valid_bn card b ->
  (forall x, In x (nodes (bn_g b)) -> forall a, valid card a -> (0 <= feval R card (bn_cpd b x) a)%Qc) ->
  Q <> [] -> (forall q, In q Q -> In q (nodes (bn_g b)) /\ ~ In q (map fst ev)) ->
  (forall e, In e ev -> snd e < card (fst e)) ->
  pev card b Q ev [] <> 0%Qc ->
  let p := prune card b Q ev in
  snd p = ev /\ pev card (fst p) Q (snd p) [] <> 0%Qc /\
  forall a, valid card a -> posterior card (fst p) Q (snd p) [] a = posterior card b Q ev [] a.
Proof.
  intros Hc Hbn Hnn HQne HQ Hrng Hpe p. unfold p. rewrite (prune_eq card b Q ev HQne HQ). cbn [fst snd].
  split; [reflexivity|]. exact (prune_sound_all card Hc b Q ev Hbn HQ Hrng Hnn Hpe).
Qed.

(* without any sign condition on the CPD entries: the two unnormalised answers are proportional *)
Theorem prune_proportional_all (card : var -> nat) (b : bn) (Q : list var) (ev : list (var * nat)) a a' :
  valid_bn card b ->
  Q <> [] -> (forall q, In q Q -> In q (nodes (bn_g b)) /\ ~ In q (map fst ev)) ->
  (forall e, In e ev -> snd e < card (fst e)) -> valid card a -> valid card a' ->
  let p := prune card b Q ev in
  (unnorm card b Q ev [] a * unnorm card (fst p) Q (snd p) [] a' =
   unnorm card b Q ev [] a' * unnorm card (fst p) Q (snd p) [] a)%Qc.
Proof.
  intros Hbn HQne HQ Hrng Ha Ha' p. unfold p. rewrite (prune_eq card b Q ev HQne HQ). cbn [fst snd].
  exact (prune_proportional card b Q ev Hbn HQ Hrng a a' Ha Ha').
Qed.

(* ---- the global Markov property of a valid network ------------------------------------------------------ *)
(* the marginal of the CPD-product joint over S (a function of an assignment of S) *)
Definition marginal (card : var -> nat) (b : bn) (S : list var) (a : asg) : Qc :=
  let r := filter (fun v => negb (memv v S)) (nodes (bn_g b)) in
  @sum_over R r (map card r) (joint card b) a.

Theorem bn_global_markov (card : var -> nat) (b : bn) (X Y Z : list var) a :
  valid_bn card b ->
  (forall x, In x X -> In x (nodes (bn_g b)) /\ ~ In x Z) ->
  (forall y, In y Y -> ~ In y Z) ->
  (forall x y, In x X -> In y Y -> ~ dconnected (bn_g b) Z x y) ->
  valid card a ->
  (marginal card b (X ++ Y ++ Z) a * marginal card b Z a =
   marginal card b (X ++ Z) a * marginal card b (Y ++ Z) a)%Qc.
Proof.
  intros Hbn HX HY Hsep Ha.
  pose (F := fun x => feval R card (bn_cpd b x)).
  assert (Hm : forall S c, marginal card b S c = marg R card (bn_g b) F S c).
  { intros S c. unfold marginal, marg. apply (sum_over_ext_fun R). intros x.
    unfold joint, cpd_factors, eval_prod. rewrite map_map. reflexivity. }
  rewrite !Hm.
  apply (gmp R (fun _ => I) card (bn_g b) F (proj1 Hbn) (proj1 (proj2 Hbn))); try assumption.
  - intros x Hx. destruct Hbn as [_ [_ Hc]]. destruct (Hc x Hx) as [_ [Hs _]].
    eapply depends_only_mono; [apply feval_depends_only|]. intros u Hu. apply Hs in Hu.
    destruct Hu as [->|Hu]; [left; reflexivity|right; exact Hu].
  - intros x Hx c Hc'. destruct Hbn as [_ [_ Hc]]. destruct (Hc x Hx) as [_ [_ H1]]. apply H1. exact Hc'.
Qed.

(* ---- non-vacuity: a network meeting every hypothesis, on which the d-separation step really drops a node ---- *)
Definition ex_card : var -> nat := fun _ => 2.
Definition ex_q (n : Z) (d : positive) : Qc := Q2Qc (n # d).
Definition ex_g : digraph := {| nodes := [0; 1; 2]; edges := [(0, 1); (1, 2)] |}.
(* chain 0 -> 1 -> 2, P(0) = (1/4, 3/4), P(1|0) and P(2|1) with rows (1/4, 1/2 ; 3/4, 1/2) *)
Definition ex_bn : bn :=
  {| bn_g := ex_g;
     bn_cpd := fun v => match v with
                        | 0 => Build_factor R [0] [ex_q 1 4; ex_q 3 4]
                        | S p => Build_factor R [v; p] [ex_q 1 4; ex_q 1 2; ex_q 3 4; ex_q 1 2]
                        end |}.

Lemma ex_two (a : asg) v : valid ex_card a -> a v = 0 \/ a v = 1.
Proof. intros Ha. pose proof (Ha v) as H. unfold ex_card in H. lia. Qed.

Lemma ex_valid_bn : valid_bn ex_card ex_bn.
Proof.
  assert (Hw : wf_graph ex_g).
  { split; [repeat constructor; simpl; intuition discriminate|].
    intros u v [H|[H|[]]]; inversion H; subst; simpl; tauto. }
  split; [exact Hw|]. split; [apply (acyclicb_spec ex_g Hw); vm_compute; reflexivity|].
  intros x Hx. simpl in Hx. destruct Hx as [<-|[<-|[<-|[]]]].
  - split; [split; [repeat constructor; simpl; tauto|reflexivity]|]. split.
    + intros v. simpl. intuition.
    + intros a Ha. apply Qc_eq_bool_correct. vm_compute. reflexivity.
  - split; [split; [repeat constructor; simpl; intuition discriminate|reflexivity]|]. split.
    + intros v. simpl. intuition.
    + intros a Ha. unfold feval, ex_card. cbn [sum_over map seq sum_list fold_right bn_cpd ex_bn fvars].
      rewrite !upd_same. rewrite (upd_other a 1 0 0), (upd_other a 1 1 0) by discriminate.
      destruct (ex_two a 0 Ha) as [E0|E0]; rewrite E0; apply Qc_eq_bool_correct; vm_compute; reflexivity.
  - split; [split; [repeat constructor; simpl; intuition discriminate|reflexivity]|]. split.
    + intros v. simpl. intuition.
    + intros a Ha. unfold feval, ex_card. cbn [sum_over map seq sum_list fold_right bn_cpd ex_bn fvars].
      rewrite !upd_same. rewrite (upd_other a 2 0 1), (upd_other a 2 1 1) by discriminate.
      destruct (ex_two a 1 Ha) as [E0|E0]; rewrite E0; apply Qc_eq_bool_correct; vm_compute; reflexivity.
Qed.

Lemma ex_nonneg : forall x, In x (nodes (bn_g ex_bn)) -> forall a, valid ex_card a ->
  (0 <= feval R ex_card (bn_cpd ex_bn x) a)%Qc.
Proof.
  intros x Hx a Ha. simpl in Hx. destruct Hx as [<-|[<-|[<-|[]]]]; unfold feval; cbn [bn_cpd ex_bn fvars map].
  - destruct (ex_two a 0 Ha) as [E0|E0]; rewrite E0; vm_compute; discriminate.
  - destruct (ex_two a 0 Ha) as [E0|E0]; destruct (ex_two a 1 Ha) as [E1|E1]; rewrite E0, E1; vm_compute; discriminate.
  - destruct (ex_two a 1 Ha) as [E0|E0]; destruct (ex_two a 2 Ha) as [E1|E1]; rewrite E0, E1; vm_compute; discriminate.
Qed.

(* query node 2 given node 1: node 0 is d-separated and is dropped, P(1 | 0) is marginalised; every hypothesis of
   [prune_sound] holds *)
Example prune_sound_nonvacuous :
  valid_bn ex_card ex_bn /\ (forall v, 0 < ex_card v) /\
  (forall x, In x (nodes (bn_g ex_bn)) -> forall a, valid ex_card a -> (0 <= feval R ex_card (bn_cpd ex_bn x) a)%Qc) /\
  (forall q, In q [2] -> In q (nodes (bn_g ex_bn)) /\ ~ In q (map fst [(1, 0)])) /\
  (forall e, In e [(1, 0)] -> snd e < ex_card (fst e)) /\
  pev ex_card ex_bn [2] [(1, 0)] [] <> 0%Qc /\
  nodes (bn_g (fst (prune ex_card ex_bn [2] [(1, 0)]))) = [1; 2].
Proof.
  split; [exact ex_valid_bn|]. split; [intros v; unfold ex_card; lia|]. split; [exact ex_nonneg|].
  split; [intros q [<-|[]]; simpl; split; [tauto|intuition discriminate]|].
  split; [intros e [<-|[]]; simpl; unfold ex_card; lia|].
  split; [|vm_compute; reflexivity].
  intros E. assert (H : Qc_eq_bool (pev ex_card ex_bn [2] [(1, 0)] []) 0%Qc = true) by (rewrite E; apply Qc_eq_bool_refl).
  revert H. vm_compute. discriminate.
Qed.

(* d-separation holds in the example: 0 and 2 are not d-connected given 1 *)
Example bn_global_markov_nonvacuous :
  (forall x y, In x [0] -> In y [2] -> ~ dconnected (bn_g ex_bn) [1] x y).
Proof.
  intros x y [<-|[]] [<-|[]] Hc.
  assert (Hw : wf_graph ex_g) by apply ex_valid_bn.
  assert (Ha : acyclic ex_g) by apply ex_valid_bn.
  assert (H : In 2 (active_trail_nodes ex_g 0 [1])).
  { apply (reach_iff_active_trail ex_g 0 [1] 2 Hw Ha); [simpl; tauto|simpl; intuition discriminate|].
    split; [simpl; intuition discriminate|exact Hc]. }
  revert H. vm_compute. intuition discriminate.
Qed.

(* ---- query = prune ; eliminate, as ONE statement: the literal [query] (no virtual evidence, joint mode) returns
   the posterior of the ORIGINAL network, for the greedy branch, elimination_order=None and every heuristic ------- *)
Theorem query_end_to_end (card : var -> nat) (ord : forall A : Type, list A -> list A) (idbase : nat)
  (b : bn) (Q : list var) (ev : list (var * nat)) (e : eo) :
  (forall A (l : list A), Permutation (ord A l) l) -> (forall v, 0 < card v) ->
  valid_bn card b ->
  (forall x, In x (nodes (bn_g b)) -> forall a, valid card a -> (0 <= feval R card (bn_cpd b x) a)%Qc) ->
  (forall x, In x (nodes (bn_g b)) -> exists r, fvars (bn_cpd b x) = x :: r) ->
  (forall v, In v (nodes (bn_g b)) -> v < idbase) ->
  NoDup (map fst ev) -> (forall x, In x (map fst ev) -> In x (nodes (bn_g b))) ->
  (forall e, In e ev -> snd e < card (fst e)) ->
  NoDup Q -> Q <> [] -> (forall q, In q Q -> In q (nodes (bn_g b)) /\ ~ In q (map fst ev)) ->
  pev card b Q ev [] <> 0%Qc ->
  (e = EoGreedy \/ e = EoNone \/ exists h, e = EoHeur h) ->
  exists f, query card ord idbase b Q ev [] e true = inl [(0, f)] /\
            forall a, valid card a -> feval R card f a = posterior card b Q ev [] a.
Proof.
  intros Hord Hc Hbn Hnn Hhead Hid Hnd Hin Hrng HQnd HQne HQ Hpe He.
  destruct (prune_sound_all card Hc b Q ev Hbn HQ Hrng Hnn Hpe) as [Hpe2 Hpost].
  pose proof (valid_bn_pruned card Hc b Q ev Hbn HQ Hhead) as Hbn2.
  set (bp := b2 card b Q ev) in *.
  assert (HQ2 : forall q, In q Q -> In q (nodes (bn_g bp)) /\ ~ In q (map fst ev)).
  { intros q Hq. exact (b2_Q_in card b Q ev Hbn HQ q Hq). }
  assert (Hin2 : forall x, In x (map fst ev) -> In x (nodes (bn_g bp))).
  { intros x Hx. exact (b2_E_in card b Q ev Hbn HQ x (Hin x Hx) Hx). }
  assert (Hid2 : forall v, In v (nodes (bn_g bp)) -> v < idbase).
  { intros v Hv. apply Hid. apply (b2_nodes card b Q ev Hbn HQ v). exact Hv. }
  unfold query. cbn [virtual_model virtual_evidence fold_left]. rewrite (prune_eq card b Q ev HQne HQ). fold bp.
  destruct He as [->|[->|[h ->]]].
  - eexists. split; [reflexivity|]. intros a Ha. rewrite <- (Hpost a Ha).
    exact (greedy_joint_is_posterior card Hc bp Q ev Hbn2 HQnd Hpe2 a Ha).
  - cbn [resolve_order]. eexists. split; [reflexivity|]. intros a Ha. rewrite <- (Hpost a Ha).
    apply (ve_joint_is_posterior card ord Hord Hc idbase bp Q ev _ Hbn2 Hid2 Hnd Hin2 Hrng HQnd HQ2); [|exact Hpe2|exact Ha].
    unfold get_order_none. apply Hord.
  - cbn [resolve_order]. eexists. split; [reflexivity|]. intros a Ha. rewrite <- (Hpost a Ha).
    apply (ve_joint_is_posterior card ord Hord Hc idbase bp Q ev _ Hbn2 Hid2 Hnd Hin2 Hrng HQnd HQ2); [|exact Hpe2|exact Ha].
    unfold heuristic_order. fold (rest bp Q (map fst ev)).
    assert (Hn : NoDup (rest bp Q (map fst ev))) by (apply NoDup_filter; apply Hbn2).
    eapply Permutation_trans; [|apply Hord]. apply order_loop_perm.
    + eapply Permutation_NoDup; [apply Permutation_sym; apply Hord|exact Hn].
    + rewrite (Permutation_length (Hord _ (rest bp Q (map fst ev)))). apply Nat.le_refl.
Qed.

(* ... and per-variable mode (joint=False): every entry is the posterior marginal of its variable in the ORIGINAL network *)
Theorem query_end_to_end_per_variable (card : var -> nat) (ord : forall A : Type, list A -> list A) (idbase : nat)
  (b : bn) (Q : list var) (ev : list (var * nat)) (e : eo) :
  (forall A (l : list A), Permutation (ord A l) l) -> (forall v, 0 < card v) ->
  valid_bn card b ->
  (forall x, In x (nodes (bn_g b)) -> forall a, valid card a -> (0 <= feval R card (bn_cpd b x) a)%Qc) ->
  (forall x, In x (nodes (bn_g b)) -> exists r, fvars (bn_cpd b x) = x :: r) ->
  (forall v, In v (nodes (bn_g b)) -> v < idbase) ->
  NoDup (map fst ev) -> (forall x, In x (map fst ev) -> In x (nodes (bn_g b))) ->
  (forall e, In e ev -> snd e < card (fst e)) ->
  NoDup Q -> Q <> [] -> (forall q, In q Q -> In q (nodes (bn_g b)) /\ ~ In q (map fst ev)) ->
  pev card b Q ev [] <> 0%Qc ->
  (e = EoGreedy \/ e = EoNone \/ exists h, e = EoHeur h) ->
  exists res, query card ord idbase b Q ev [] e false = inl res /\
    forall q f a, valid card a -> In (q, f) res ->
      In q Q /\ feval R card f a = posterior_marginal card b Q ev [] q a.
Proof.
  intros Hord Hc Hbn Hnn Hhead Hid Hnd Hin Hrng HQnd HQne HQ Hpe He.
  destruct (prune_sound_all card Hc b Q ev Hbn HQ Hrng Hnn Hpe) as [Hpe2 _].
  pose proof (prune_marginal_all card Hc b Q ev Hbn HQ Hrng Hnn) as Hmarg.
  pose proof (valid_bn_pruned card Hc b Q ev Hbn HQ Hhead) as Hbn2.
  set (bp := b2 card b Q ev) in *.
  assert (HQ2 : forall q, In q Q -> In q (nodes (bn_g bp)) /\ ~ In q (map fst ev)).
  { intros q Hq. exact (b2_Q_in card b Q ev Hbn HQ q Hq). }
  assert (Hin2 : forall x, In x (map fst ev) -> In x (nodes (bn_g bp))).
  { intros x Hx. exact (b2_E_in card b Q ev Hbn HQ x (Hin x Hx) Hx). }
  assert (Hid2 : forall v, In v (nodes (bn_g bp)) -> v < idbase).
  { intros v Hv. apply Hid. apply (b2_nodes card b Q ev Hbn HQ v). exact Hv. }
  unfold query. cbn [virtual_model virtual_evidence fold_left]. rewrite (prune_eq card b Q ev HQne HQ). fold bp.
  destruct He as [->|[->|[h ->]]].
  - eexists. split; [reflexivity|]. intros q f a Ha Hi. rewrite <- (Hmarg q Hpe a Ha).
    exact (greedy_per_variable_is_marginal card Hc bp Q ev Hbn2 HQnd Hpe2 q f a Ha Hi).
  - cbn [resolve_order]. eexists. split; [reflexivity|]. intros q f a Ha Hi. rewrite <- (Hmarg q Hpe a Ha).
    apply (ve_per_variable_is_marginal card ord Hord Hc idbase bp Q ev _ Hbn2 Hid2 Hnd Hin2 Hrng HQnd HQ2) with (3 := Ha) (4 := Hi);
      [|exact Hpe2].
    unfold get_order_none. apply Hord.
  - cbn [resolve_order]. eexists. split; [reflexivity|]. intros q f a Ha Hi. rewrite <- (Hmarg q Hpe a Ha).
    apply (ve_per_variable_is_marginal card ord Hord Hc idbase bp Q ev _ Hbn2 Hid2 Hnd Hin2 Hrng HQnd HQ2) with (3 := Ha) (4 := Hi);
      [|exact Hpe2].
    unfold heuristic_order. fold (rest bp Q (map fst ev)).
    assert (Hn : NoDup (rest bp Q (map fst ev))) by (apply NoDup_filter; apply Hbn2).
    eapply Permutation_trans; [|apply Hord]. apply order_loop_perm.
    + eapply Permutation_NoDup; [apply Permutation_sym; apply Hord|exact Hn].
    + rewrite (Permutation_length (Hord _ (rest bp Q (map fst ev)))). apply Nat.le_refl.
Qed.

(* the pruned network is a valid network *)
Theorem prune_valid (card : var -> nat) (b : bn) (Q : list var) (ev : list (var * nat)) :
  (forall v, 0 < card v) -> valid_bn card b ->
  (forall x, In x (nodes (bn_g b)) -> exists r, fvars (bn_cpd b x) = x :: r) ->
  Q <> [] -> (forall q, In q Q -> In q (nodes (bn_g b)) /\ ~ In q (map fst ev)) ->
  valid_bn card (fst (prune card b Q ev)).
Proof.
  intros Hc Hbn Hhead HQne HQ. rewrite (prune_eq card b Q ev HQne HQ). cbn [fst].
  exact (valid_bn_pruned card Hc b Q ev Hbn HQ Hhead).
Qed.

Example query_end_to_end_nonvacuous :
  (forall x, In x (nodes (bn_g ex_bn)) -> exists r, fvars (bn_cpd ex_bn x) = x :: r) /\
  (forall v, In v (nodes (bn_g ex_bn)) -> v < 3) /\
  NoDup (map fst [(1, 0)]) /\ (forall x, In x (map fst [(1, 0)]) -> In x (nodes (bn_g ex_bn))) /\
  NoDup [2] /\ [2] <> [] /\
  exists f, query ex_card (fun _ l => l) 3 ex_bn [2] [(1, 0)] [] EoNone true = inl [(0, f)] /\
            Qc_eq_bool (feval R ex_card f (fun _ => 0)) (posterior ex_card ex_bn [2] [(1, 0)] [] (fun _ => 0)) = true.
Proof.
  split.
  { intros x Hx. simpl in Hx. destruct Hx as [<-|[<-|[<-|[]]]]; eexists; reflexivity. }
  split.
  { intros v Hv. simpl in Hv. destruct Hv as [<-|[<-|[<-|[]]]]; lia. }
  split; [repeat constructor; simpl; tauto|].
  split; [intros x [<-|[]]; simpl; tauto|].
  split; [repeat constructor; simpl; tauto|].
  split; [discriminate|].
  eexists. split; [reflexivity|]. vm_compute. reflexivity.
Qed.
