(* C01 proofs, part 8: the literal classic path returns the posterior (joint and per-variable modes). *)
From Coq Require Import List Arith Lia PeanoNat Bool QArith Qcanon Permutation.
From PV Require Import Base.Semiring Base.Ravel Base.FinSum Base.RefFactor Base.VE Base.Graph
  C01.Model C01.Spec C01.Proofs C01.ProofsElim C01.ProofsMisc C01.ProofsIdx C01.ProofsFinal C01.ProofsEvid
  C01.ProofsQuery.
Import ListNotations.
Local Open Scope nat_scope.

Section Post.
Variable card : var -> nat.
Variable ord : forall A : Type, list A -> list A.
Hypothesis ord_perm : forall A (l : list A), Permutation (ord A l) l.
Hypothesis card_pos : forall v, 0 < card v.
Variable idbase : nat.

Notation feval := (feval R card).
Notation wf := (wf R card).
Notation valid := (valid card).
Notation eval_prod := (eval_prod R card).
Notation fmarg := (fmarg R card).
Notation factor_product := (factor_product card).

Lemma upds_aeq a b ev : aeq a b -> aeq (upds a ev) (upds b ev).
Proof. intros H. induction ev as [|[v i] ev IH]; [exact H|]. cbn [upds]. apply upd_aeq. exact IH. Qed.
Lemma joint_ext b : @ext R (joint card b).
Proof. apply eval_prod_ext. Qed.
Lemma wjoint_nil_ext b : @ext R (wjoint card b []).
Proof. intros x y H. unfold wjoint. f_equal. apply joint_ext. exact H. Qed.
Lemma unnorm_ext b Q ev : @ext R (unnorm card b Q ev []).
Proof.
  intros x y H. unfold unnorm. apply sum_over_aeq; [apply wjoint_nil_ext|apply upds_aeq; exact H].
Qed.

Variable b : bn.
Variable Q : list var.
Variable ev : list (var * nat).
Variable order : list var.
Hypothesis Hbn : valid_bn card b.
Hypothesis Hid : forall v, In v (nodes (bn_g b)) -> v < idbase.
Hypothesis Hev_nd : NoDup (map fst ev).
Hypothesis Hev_in : forall e, In e (map fst ev) -> In e (nodes (bn_g b)).
Hypothesis Hev_rng : forall e, In e ev -> snd e < card (fst e).
Hypothesis HQ_nd : NoDup Q.
Hypothesis HQ_in : forall q, In q Q -> In q (nodes (bn_g b)) /\ ~ In q (map fst ev).
Hypothesis Horder : Permutation order (rest b Q (map fst ev)).
Hypothesis Hpe : pev card b Q ev [] <> 0%Qc.

Lemma rest_In x : In x (rest b Q (map fst ev)) <-> In x (nodes (bn_g b)) /\ ~ In x Q /\ ~ In x (map fst ev).
Proof.
  unfold rest. rewrite filter_In, andb_true_iff, !negb_true_iff, !memv_false. tauto.
Qed.
Lemma rest_NoDup : NoDup (rest b Q (map fst ev)).
Proof. apply NoDup_filter. apply (proj1 (proj1 Hbn)). Qed.
Lemma order_NoDup : NoDup order.
Proof. eapply Permutation_NoDup; [apply Permutation_sym; exact Horder|apply rest_NoDup]. Qed.
Lemma order_In v : In v order <-> In v (rest b Q (map fst ev)).
Proof. split; intros H; eapply Permutation_in; try eassumption. apply Permutation_sym. exact Horder. Qed.
Lemma order_in v : In v order -> In v (nodes (bn_g b)) /\ ~ In v (map fst ev).
Proof. intros H. apply order_In, rest_In in H. tauto. Qed.
Lemma kept_Q x : kept b ev order x <-> In x Q.
Proof.
  unfold kept. rewrite order_In, rest_In. split.
  - intros [H1 [H2 H3]]. destruct (in_dec Nat.eq_dec x Q) as [H|H]; [exact H|]. exfalso. apply H3. tauto.
  - intros H. destruct (HQ_in x H) as [H1 H2]. split; [exact H1|]. split; [exact H2|]. tauto.
Qed.

(* the product of the final factors: a table over Q proportional to the unnormalised posterior *)
Lemma final_product :
  let f := factor_product (ve_final card ord idbase b ev order) in
  wf f /\ Permutation (fvars f) Q /\
  exists k : Qc, forall x, valid x -> (k * feval f x)%Qc = unnorm card b Q ev [] x.
Proof.
  cbv zeta.
  destruct (ve_final_spec card ord ord_perm idbase b ev order Hbn Hid Hev_nd Hev_in Hev_rng order_NoDup order_in)
    as [HwfF [Hvars [k Hk]]].
  set (F := ve_final card ord idbase b ev order) in *.
  assert (Hwf : wf (factor_product F)) by (apply wf_factor_product; exact HwfF).
  split; [exact Hwf|]. split.
  - apply NoDup_Permutation; [apply (proj1 Hwf)|exact HQ_nd|]. intros x.
    rewrite In_fvars_factor_product, Hvars. apply kept_Q.
  - exists k. intros x Hx. rewrite feval_factor_product by assumption. rewrite (Hk x Hx).
    rewrite (sum_over_upds card (joint card b) ev order x (joint_ext b)) by (intros v Hv; apply order_in; exact Hv).
    rewrite (sum_over_perm card order _ Horder (joint card b) (upds x ev) order_NoDup (joint_ext b)).
    unfold unnorm. apply (sum_over_ext_fun R). intros y. unfold wjoint, weight. cbn [map prod_list fold_right].
    symmetry. apply Qcmult_1_r.
Qed.

Theorem ve_joint_is_posterior a : valid a ->
  feval (ve_joint card ord idbase b ev order) a = posterior card b Q ev [] a.
Proof.
  intros Ha. destruct final_product as [Hwf [Hp [k Hk]]]. unfold ve_joint, posterior.
  apply (normalise_proportional card card_pos _ Q (unnorm card b Q ev []) k a Hwf Hp Ha Hk). exact Hpe.
Qed.

Theorem ve_per_variable_is_marginal q f a : valid a ->
  In (q, f) (ve_per_variable card ord idbase b Q ev order) ->
  In q Q /\ feval f a = posterior_marginal card b Q ev [] q a.
Proof.
  intros Ha Hin. unfold ve_per_variable in Hin. apply in_map_iff in Hin. destruct Hin as [q' [E Hq]].
  inversion E. subst q'. clear E. split; [exact Hq|].
  destruct final_product as [Hwf [Hp [k Hk]]].
  set (fp := factor_product (ve_final card ord idbase b ev order)) in *.
  set (others := filter (fun x => negb (Nat.eqb x q)) Q).
  set (g := fmarg others fp).
  assert (Hwfg : wf g) by (apply wf_fmarg; exact Hwf).
  assert (HinfQ : forall x, In x (fvars fp) <-> In x Q).
  { intros x. split; intros H; eapply Permutation_in; try eassumption. apply Permutation_sym. exact Hp. }
  assert (Hoth : forall x, In x others <-> In x Q /\ x <> q).
  { intros x. unfold others. rewrite filter_In, negb_true_iff, Nat.eqb_neq. reflexivity. }
  assert (Hpg : Permutation (fvars g) [q]).
  { apply NoDup_Permutation; [apply (proj1 Hwfg)|constructor; [intros []|constructor]|]. intros x.
    unfold g. rewrite fvars_fmarg, In_vminus, HinfQ, Hoth. split.
    - intros [A1 A2]. left. destruct (Nat.eq_dec x q) as [->|Hne]; [reflexivity|]. exfalso. apply A2. tauto.
    - intros [<-|[]]. split; [exact Hq|]. intros [_ H]. apply H. reflexivity. }
  assert (Hpv : Permutation (vinter (fvars fp) others) others).
  { apply NoDup_Permutation; [apply NoDup_filter; apply (proj1 Hwf)|apply NoDup_filter; exact HQ_nd|]. intros x.
    unfold vinter. rewrite filter_In, memv_In, HinfQ, Hoth. tauto. }
  assert (Hkg : forall x, valid x ->
            (k * feval g x)%Qc = @sum_over R others (map card others) (unnorm card b Q ev []) x).
  { intros x Hx. unfold g. rewrite feval_fmarg by assumption.
    rewrite (sum_over_perm card _ _ Hpv (feval fp) x (NoDup_filter _ _ (proj1 Hwf)) (feval_ext R card fp)).
    etransitivity; [symmetry; apply (const_into_sum card others k (feval fp) x)|].
    apply (sum_over_ext_valid R card others _ _ x Hx). intros y Hy. apply Hk. exact Hy. }
  assert (Hpe' : @sum_over R [q] (map card [q]) (@sum_over R others (map card others) (unnorm card b Q ev [])) a0
                 = pev card b Q ev []).
  { assert (Hnd' : NoDup (q :: others)).
    { eapply Permutation_NoDup; [apply Permutation_sym; apply (perm_take q Q HQ_nd Hq)|exact HQ_nd]. }
    symmetry. etransitivity; [symmetry; apply (sum_over_perm card (q :: others) Q (perm_take q Q HQ_nd Hq)
                                (unnorm card b Q ev []) a0 Hnd' (unnorm_ext b Q ev))|reflexivity]. }
  unfold posterior_marginal. fold others. rewrite <- Hpe'.
  apply (normalise_proportional card card_pos g [q] _ k a Hwfg Hpg Ha Hkg). rewrite Hpe'. exact Hpe.
Qed.
End Post.
