(* C01 proofs, part 1: basic lemmas; the set of (factor, origin) tuples; the elimination loop with the
   eliminated-variables filter computes sum-over-order of the product, up to the scalar factors pgmpy drops. *)
From Coq Require Import List Arith Lia PeanoNat Bool QArith Qcanon Permutation.
From PV Require Import Base.Semiring Base.Ravel Base.FinSum Base.RefFactor Base.VE Base.Graph C01.Model C01.Spec.
Import ListNotations.
Local Open Scope nat_scope.

Section P.
Variable card : var -> nat.
Variable ord : forall A : Type, list A -> list A.
Hypothesis ord_perm : forall A (l : list A), Permutation (ord A l) l.

Notation feval := (feval R card).
Notation wf := (wf R card).
Notation valid := (valid card).
Notation eval_prod := (eval_prod R card).
Notation fprod := (fprod R card).
Notation fmarg := (fmarg R card).
Notation fred := (fred R card).
Notation factor_product := (factor_product card).
Notation feqb := (feqb card).
Notation peqb := (peqb card).
Notation wmem := (wmem card).
Notation wadd := (wadd card).
Notation wremove := (wremove card).
Notation padd := (padd card).

Lemma fok_all (f : fac) : fok R card f. Proof. intros a _. exact I. Qed.
Lemma Forall_fok (L : list fac) : Forall (fok R card) L.
Proof. apply Forall_forall. intros f _. apply fok_all. Qed.

(* ---- products are insensitive to the order of the factors -------------------------------------- *)
Lemma eval_prod_perm (L1 L2 : list fac) a : Permutation L1 L2 -> eval_prod L1 a = eval_prod L2 a.
Proof.
  induction 1 as [|f L1 L2 _ IH|f g L|L1 L2 L3 _ IH1 _ IH2].
  - reflexivity.
  - rewrite !eval_prod_cons, IH. reflexivity.
  - rewrite !eval_prod_cons. rewrite !(mul_assoc R). rewrite (mul_comm R (feval g a)). reflexivity.
  - congruence.
Qed.
Lemma eval_prod_app (L1 L2 : list fac) a : eval_prod (L1 ++ L2) a = mul (eval_prod L1 a) (eval_prod L2 a).
Proof. unfold RefFactor.eval_prod. rewrite map_app. apply (prod_list_app R). Qed.

(* ---- factor_product --------------------------------------------------------------------------------- *)
Lemma wf_factor_product fs : Forall wf fs -> wf (factor_product fs).
Proof.
  intros H. destruct fs as [|f r]; simpl.
  - apply wf_fbuild. constructor.
  - inversion H; subst. apply wf_fold_fprod; assumption.
Qed.
Lemma feval_factor_product fs a : Forall wf fs -> valid a -> feval (factor_product fs) a = eval_prod fs a.
Proof.
  intros H Ha. destruct fs as [|f r]; simpl.
  - rewrite feval_fone by exact Ha. reflexivity.
  - inversion H; subst. rewrite feval_fold_fprod by assumption. reflexivity.
Qed.
Lemma In_fvars_factor_product fs x :
  In x (fvars (factor_product fs)) <-> exists f, In f fs /\ In x (fvars f).
Proof.
  destruct fs as [|f r]; simpl.
  - split; [intros []|intros [f [[] _]]].
  - rewrite In_fvars_fold_fprod. split.
    + intros [H|[g [Hg Hx]]]; [exists f; auto|exists g; auto].
    + intros [g [[->|Hg] Hx]]; [left; exact Hx|right; exists g; auto].
Qed.

(* ---- sums over a permuted list of variables ----------------------------------------------------------- *)
Lemma sum_over_perm (o1 o2 : list var) : Permutation o1 o2 -> forall (g : asg -> R) a, NoDup o1 -> ext g ->
  sum_over o1 (map card o1) g a = sum_over o2 (map card o2) g a.
Proof.
  induction 1 as [|x l1 l2 Hp IH|x y l|l1 l2 l3 Hp1 IH1 Hp2 IH2]; intros g a Hn Hg.
  - reflexivity.
  - inversion Hn; subst. cbn [map sum_over]. apply sum_list_ext. intros i _. apply IH; assumption.
  - inversion Hn as [|? ? Hy Hn']; subst. inversion Hn' as [|? ? Hx Hn'']; subst.
    cbn [map sum_over].
    rewrite (sum_list_swap R (fun i j => sum_over l (map card l) g (upd (upd a y i) x j))).
    apply sum_list_ext. intros j _. apply sum_list_ext. intros i _.
    apply sum_over_aeq; [exact Hg|]. apply upd_comm. intros E. apply Hy. left. symmetry. exact E.
  - rewrite IH1 by assumption. apply IH2; [|exact Hg]. eapply Permutation_NoDup; eassumption.
Qed.

(* ---- the value-based equality of tuples ------------------------------------------------------------------ *)
Lemma set_eqb_refl l : set_eqb l l = true.
Proof.
  unfold set_eqb. assert (H : forallb (fun x => memv x l) l = true).
  { apply forallb_forall. intros x Hx. apply memv_In. exact Hx. }
  rewrite H. reflexivity.
Qed.
Lemma set_eqb_In a b x : set_eqb a b = true -> (In x a <-> In x b).
Proof.
  unfold set_eqb. intros H. apply andb_true_iff in H. destruct H as [H1 H2].
  rewrite forallb_forall in H1, H2. split; intros Hx; apply memv_In; auto.
Qed.
Lemma Qc_eq_bool_refl (x : Qc) : Qc_eq_bool x x = true.
Proof. unfold Qc_eq_bool. destruct (Qc_eq_dec x x) as [_|H]; [reflexivity|exfalso; apply H; reflexivity]. Qed.
Lemma feqb_refl f : feqb f f = true.
Proof.
  unfold Model.feqb. rewrite set_eqb_refl. simpl. apply forallb_forall. intros idx _. apply Qc_eq_bool_refl.
Qed.
Lemma origin_eqb_eq a b : origin_eqb a b = true <-> a = b.
Proof.
  destruct a as [x|], b as [y|]; simpl; split; intros H; try discriminate; try reflexivity.
  - apply Nat.eqb_eq in H. subst. reflexivity.
  - inversion H. apply Nat.eqb_refl.
Qed.
Lemma peqb_refl p : peqb p p = true.
Proof. unfold Model.peqb. rewrite feqb_refl. simpl. apply origin_eqb_eq. reflexivity. Qed.
Lemma peqb_origin q p : peqb q p = true -> snd q = snd p.
Proof. unfold Model.peqb. intros H. apply andb_true_iff in H. apply origin_eqb_eq. apply H. Qed.
Lemma peqb_mentions q p w : peqb q p = true -> mentions w (fst q) = mentions w (fst p).
Proof.
  unfold Model.peqb, Model.feqb, mentions. intros H. apply andb_true_iff in H. destruct H as [H _].
  apply andb_true_iff in H. destruct H as [H _].
  destruct (memv w (fvars (fst p))) eqn:E.
  - apply memv_In. apply (set_eqb_In _ _ w H). apply memv_In. exact E.
  - apply memv_false. intros Hi. apply (set_eqb_In _ _ w H) in Hi. apply memv_In in Hi. congruence.
Qed.

(* ---- distinct pools: no two different tuples compare equal ------------------------------------------------ *)
Definition distinct (P : list wpair) : Prop :=
  NoDup P /\ forall p q, In p P -> In q P -> p <> q -> peqb p q = false.

Lemma distinct_nil : distinct []. Proof. split; [constructor|intros p q []]. Qed.
Lemma distinct_filter (c : wpair -> bool) P : distinct P -> distinct (filter c P).
Proof.
  intros [Hn Hd]. split; [apply NoDup_filter; exact Hn|].
  intros p q Hp Hq. apply filter_In in Hp, Hq. apply Hd; [apply Hp|apply Hq].
Qed.
Lemma collides_false p P : collides card p P = false ->
  forall q, In q P -> peqb q p = false /\ peqb p q = false.
Proof.
  unfold collides. intros H q Hq.
  destruct (peqb q p) eqn:E1; destruct (peqb p q) eqn:E2; try (split; reflexivity);
    exfalso; assert (Ht : existsb (fun q => peqb q p || peqb p q) P = true)
      by (apply existsb_exists; exists q; split; [exact Hq|rewrite E1, E2; reflexivity]); congruence.
Qed.
Lemma distinct_snoc p P : distinct P -> collides card p P = false -> distinct (P ++ [p]).
Proof.
  intros [Hn Hd] Hc. pose proof (collides_false p P Hc) as Hcf.
  assert (Hnp : ~ In p P).
  { intros Hi. destruct (Hcf p Hi) as [H _]. rewrite peqb_refl in H. discriminate. }
  split.
  - apply NoDup_app_disj; [exact Hn|constructor; [intros []|constructor]|].
    intros x Hx [<-|[]]. contradiction.
  - intros a b Ha Hb Hab. apply in_app_or in Ha, Hb.
    destruct Ha as [Ha|[<-|[]]], Hb as [Hb|[<-|[]]].
    + apply Hd; assumption.
    + apply (Hcf a Ha).
    + apply (Hcf b Hb).
    + contradiction.
Qed.
Lemma wmem_collides p P : collides card p P = false -> wmem p P = false.
Proof.
  intros H. unfold Model.wmem. destruct (existsb (fun q => peqb q p) P) eqn:E; [|reflexivity].
  apply existsb_exists in E. destruct E as [q [Hq Hqp]]. destruct (collides_false p P H q Hq). congruence.
Qed.

(* removing a tuple from a distinct pool removes exactly that tuple *)
Lemma wremove_notin p P : (forall q, In q P -> peqb q p = false) -> wremove p P = P.
Proof.
  intros H. unfold Model.wremove. induction P as [|q P IH]; [reflexivity|]. simpl.
  rewrite (H q (or_introl eq_refl)). simpl. f_equal. apply IH. intros r Hr. apply H. right. exact Hr.
Qed.
Lemma eval_prod_wremove p P a : distinct P -> In p P ->
  eval_prod (map fst P) a = mul (feval (fst p) a) (eval_prod (map fst (wremove p P)) a).
Proof.
  intros [Hn Hd] Hin. induction P as [|q P IH]; [destruct Hin|].
  inversion Hn as [|? ? Hq Hn']; subst. destruct Hin as [->|Hin].
  - unfold Model.wremove. cbn [filter]. rewrite peqb_refl. cbn [negb].
    fold (wremove p P). rewrite wremove_notin; [reflexivity|].
    intros r Hr. apply Hd; [right; exact Hr|left; reflexivity|]. intros E. subst. contradiction.
  - assert (Hqp : q <> p) by (intros E; subst; contradiction).
    unfold Model.wremove. cbn [filter]. rewrite (Hd q p (or_introl eq_refl) (or_intror Hin) Hqp). cbn [negb map].
    fold (wremove p P). rewrite !eval_prod_cons. rewrite IH; [|exact Hn'| |exact Hin].
    + rewrite !(mul_assoc R). rewrite (mul_comm R (feval (fst q) a)). reflexivity.
    + intros x y Hx Hy. apply Hd; right; assumption.
Qed.
Lemma In_wremove_other p q P : distinct P -> In q P -> q <> p -> In p P -> In q (wremove p P).
Proof.
  intros [_ Hd] Hq Hne Hp. apply filter_In. split; [exact Hq|]. rewrite (Hd q p Hq Hp Hne). reflexivity.
Qed.
End P.
