(* C01 proofs, part 16: [query] with an EXPLICIT elimination-order list, end to end (with or without virtual evidence).
   _get_elimination_order runs on the PRUNED model: nodes of the list that were pruned away are filtered out (and then
   no coverage check is made, as coded), otherwise the list must equal the set to eliminate.  For a duplicate-free
   list that enumerates exactly the nodes of the ORIGINAL network that are neither queried nor observed, either branch
   yields a permutation of what is left to eliminate in the pruned model, so the answer is the posterior. *)
From Coq Require Import List Arith Lia PeanoNat Bool QArith Qcanon Permutation.
From PV Require Import Base.Semiring Base.Ravel Base.FinSum Base.RefFactor Base.VE Base.Graph
  C01.Model C01.Spec C01.Proofs C01.ProofsElim C01.ProofsMisc C01.ProofsIdx C01.ProofsFinal C01.ProofsEvid
  C01.ProofsQuery C01.ProofsPost C01.ProofsPrune C01.ProofsGreedy C01.ProofsVirt C01.ProofsDsepAll C01.ProofsVevAll.
Import ListNotations.
Local Open Scope nat_scope.

Lemma In_rest b Q E v : In v (rest b Q E) <-> In v (nodes (bn_g b)) /\ ~ In v Q /\ ~ In v E.
Proof. unfold rest. rewrite filter_In, andb_true_iff, !negb_true_iff, !memv_false. tauto. Qed.

Lemma explicit_order_resolves (bp b : bn) (Q E l : list var) :
  NoDup l -> (forall v, In v l <-> In v (rest b Q E)) ->
  (forall v, In v (nodes (bn_g bp)) -> In v (nodes (bn_g b))) -> NoDup (nodes (bn_g bp)) ->
  exists order, get_order_explicit bp Q E l = inl order /\ Permutation order (rest bp Q E).
Proof.
  intros Hnd Hl Hsub Hndp. unfold get_order_explicit.
  assert (Hrest : forall v, In v (rest bp Q E) -> In v l).
  { intros v Hv. apply Hl. apply In_rest in Hv. apply In_rest. destruct Hv as [H1 H2]. split; [apply Hsub; exact H1|exact H2]. }
  assert (Hndr : NoDup (rest bp Q E)) by (apply NoDup_filter; exact Hndp).
  destruct (existsb (fun v => memv v l) (Q ++ E)) eqn:E1.
  - exfalso. apply existsb_exists in E1. destruct E1 as [v [Hv Hm]]. apply memv_In in Hm. apply Hl, In_rest in Hm.
    apply in_app_or in Hv. tauto.
  - destruct (existsb (fun v => negb (memv v (nodes (bn_g bp)))) l) eqn:E2.
    + eexists. split; [reflexivity|]. apply NoDup_Permutation; [apply NoDup_filter; exact Hnd|exact Hndr|].
      intros v. rewrite filter_In, memv_In, In_rest. split.
      * intros [H1 H2]. apply Hl, In_rest in H1. tauto.
      * intros H. split; [apply Hrest; apply In_rest; exact H|tauto].
    + assert (Hall : forall v, In v l -> In v (nodes (bn_g bp))).
      { intros v Hv. destruct (memv v (nodes (bn_g bp))) eqn:Em; [apply memv_In; exact Em|]. exfalso.
        assert (H : existsb (fun v => negb (memv v (nodes (bn_g bp)))) l = true)
          by (apply existsb_exists; exists v; split; [exact Hv|rewrite Em; reflexivity]).
        congruence. }
      assert (Hl2 : forall v, In v l -> In v (rest bp Q E)).
      { intros v Hv. apply In_rest. split; [apply Hall; exact Hv|]. apply Hl, In_rest in Hv. tauto. }
      fold (rest bp Q E).
      assert (Hs : set_eqb (rest bp Q E) l = true).
      { unfold set_eqb. apply andb_true_iff. split; apply forallb_forall; intros v Hv; apply memv_In; auto. }
      rewrite Hs. exists l. split; [reflexivity|]. apply NoDup_Permutation; [exact Hnd|exact Hndr|].
      intros v. split; auto.
Qed.

Section L.
Variable card : var -> nat.
Variable ord : forall A : Type, list A -> list A.
Variable idbase : nat.
Hypothesis Hord : forall A (l : list A), Permutation (ord A l) l.
Hypothesis Hc : forall v, 0 < card v.

(* without virtual evidence *)
Lemma list_core (b : bn) (Q : list var) (ev : list (var * nat)) (l : list var) :
  good card idbase b ->
  NoDup (map fst ev) -> (forall x, In x (map fst ev) -> In x (nodes (bn_g b))) ->
  (forall e, In e ev -> snd e < card (fst e)) ->
  NoDup Q -> Q <> [] -> (forall q, In q Q -> In q (nodes (bn_g b)) /\ ~ In q (map fst ev)) ->
  pev card b Q ev [] <> 0%Qc ->
  NoDup l -> (forall v, In v l <-> In v (rest b Q (map fst ev))) ->
  (exists f, query card ord idbase b Q ev [] (EoList l) true = inl [(0, f)] /\
             forall a, valid card a -> feval R card f a = posterior card b Q ev [] a) /\
  (exists res, query card ord idbase b Q ev [] (EoList l) false = inl res /\
     forall q f a, valid card a -> In (q, f) res ->
       In q Q /\ feval R card f a = posterior_marginal card b Q ev [] q a).
Proof.
  intros [Hbn [Hnn [Hhead Hid]]] Hnd Hin Hrng HQnd HQne HQ Hpe Hl Hlr.
  destruct (prune_sound_all card Hc b Q ev Hbn HQ Hrng Hnn Hpe) as [Hpe2 Hpost].
  pose proof (prune_marginal_all card Hc b Q ev Hbn HQ Hrng Hnn) as Hmarg.
  pose proof (valid_bn_pruned card Hc b Q ev Hbn HQ Hhead) as Hbn2.
  set (bp := b2 card b Q ev) in *.
  assert (HQ2 : forall q, In q Q -> In q (nodes (bn_g bp)) /\ ~ In q (map fst ev)).
  { intros q Hq. exact (b2_Q_in card b Q ev Hbn HQ q Hq). }
  assert (Hin2 : forall x, In x (map fst ev) -> In x (nodes (bn_g bp))).
  { intros x Hx. exact (b2_E_in card b Q ev Hbn HQ x (Hin x Hx) Hx). }
  assert (Hsub : forall v, In v (nodes (bn_g bp)) -> In v (nodes (bn_g b))).
  { intros v Hv. apply (b2_nodes card b Q ev Hbn HQ v). exact Hv. }
  assert (Hid2 : forall v, In v (nodes (bn_g bp)) -> v < idbase) by (intros v Hv; apply Hid, Hsub; exact Hv).
  destruct (explicit_order_resolves bp b Q (map fst ev) l Hl Hlr Hsub (proj1 (proj1 Hbn2))) as [order [Ho Hp]].
  split.
  - unfold query. cbn [virtual_model virtual_evidence fold_left]. rewrite (prune_eq card b Q ev HQne HQ). fold bp.
    cbn [resolve_order]. rewrite Ho. eexists. split; [reflexivity|]. intros a Ha. rewrite <- (Hpost a Ha).
    exact (ve_joint_is_posterior card ord Hord Hc idbase bp Q ev order Hbn2 Hid2 Hnd Hin2 Hrng HQnd HQ2 Hp Hpe2 a Ha).
  - unfold query. cbn [virtual_model virtual_evidence fold_left]. rewrite (prune_eq card b Q ev HQne HQ). fold bp.
    cbn [resolve_order]. rewrite Ho. eexists. split; [reflexivity|]. intros q f a Ha Hi. rewrite <- (Hmarg q Hpe a Ha).
    exact (ve_per_variable_is_marginal card ord Hord Hc idbase bp Q ev order Hbn2 Hid2 Hnd Hin2 Hrng HQnd HQ2 Hp Hpe2 q f a Ha Hi).
Qed.

(* with virtual evidence (vev = [] included) *)
Theorem query_list_end_to_end (b : bn) (Q : list var) (ev : list (var * nat)) (vev : list (var * var * list Qc))
  (l : list var) :
  good card idbase b -> vev_ok card idbase b ev vev ->
  NoDup (map fst ev) -> (forall x, In x (map fst ev) -> In x (nodes (bn_g b))) ->
  (forall e, In e ev -> snd e < card (fst e)) ->
  NoDup Q -> Q <> [] -> (forall q, In q Q -> In q (nodes (bn_g b)) /\ ~ In q (map fst ev)) ->
  pev card b Q ev (likelihoods vev) <> 0%Qc ->
  NoDup l -> (forall v, In v l <-> In v (rest b Q (map fst ev))) ->
  (exists f, query card ord idbase b Q ev vev (EoList l) true = inl [(0, f)] /\
             forall a, valid card a -> feval R card f a = posterior card b Q ev (likelihoods vev) a) /\
  (exists res, query card ord idbase b Q ev vev (EoList l) false = inl res /\
     forall q f a, valid card a -> In (q, f) res ->
       In q Q /\ feval R card f a = posterior_marginal card b Q ev (likelihoods vev) q a).
Proof.
  intros Hgood Hvev Hnd Hin Hrng HQnd HQne HQ Hpe Hl Hlr.
  destruct (side_conditions card idbase b Q ev vev Hgood Hvev Hnd Hin Hrng HQ) as [Hg1 [S2 [S3 [S4 S5]]]].
  destruct (virtual_model_good card idbase vev b ev Hgood Hvev) as [_ Hn1].
  set (b1 := virtual_model b vev) in *. set (ev1 := virtual_evidence ev vev) in *.
  assert (Hpe1 : pev card b1 Q ev1 [] <> 0%Qc) by (unfold b1, ev1; rewrite (pev1 card idbase Hc b Q ev vev Hgood Hvev Hrng); exact Hpe).
  assert (Hev1 : map fst ev1 = map fst ev ++ map (fun t => snd (fst t)) vev).
  { unfold ev1. rewrite (virtual_evidence_app vev ev (proj1 Hvev)); [rewrite map_app, map_map; reflexivity|].
    intros t Ht. apply (proj2 Hvev t Ht). }
  assert (Hlr1 : forall v, In v l <-> In v (rest b1 Q (map fst ev1))).
  { intros v. rewrite Hlr, !In_rest, Hn1, Hev1, in_app_iff. split; [|tauto].
    intros [H1 [H2 H3]]. split; [tauto|]. split; [exact H2|]. intros [H|H]; [contradiction|].
    apply in_map_iff in H. destruct H as [t [E Ht]]. destruct (proj2 Hvev t Ht) as [_ [A2 _]]. apply A2. rewrite E. exact H1. }
  destruct (list_core b1 Q ev1 l Hg1 S2 S3 S4 HQnd HQne S5 Hpe1 Hl Hlr1) as [[f [Hq Hf]] [res [Hq2 Hres]]].
  split.
  - exists f. split; [exact Hq|]. intros a Ha. rewrite (Hf a Ha). unfold posterior, b1, ev1.
    rewrite (pev1 card idbase Hc b Q ev vev Hgood Hvev Hrng), (unnorm1 card idbase b Q ev vev Hgood Hvev Hrng a Ha). reflexivity.
  - exists res. split; [exact Hq2|]. intros q f0 a Ha Hi. destruct (Hres q f0 a Ha Hi) as [H1 H2]. split; [exact H1|].
    rewrite H2. unfold posterior_marginal, b1, ev1. rewrite (pev1 card idbase Hc b Q ev vev Hgood Hvev Hrng). f_equal.
    apply (sum_over_ext_valid R card _ _ _ a Ha). intros a' Ha'. exact (unnorm1 card idbase b Q ev vev Hgood Hvev Hrng a' Ha').
Qed.
End L.

(* non-vacuity: the chain network, query node 2 given node 1 = 0 with the explicit order [0] (node 0 is pruned away, so
   the coded filter branch is taken), and with a virtual evidence on node 0 and order [0; 1] *)
Example list_nonvacuous :
  (exists f, query ex_card (fun _ l => l) 4 ex_bn [2] [(1, 0)] [] (EoList [0]) true = inl [(0, f)] /\
     Qc_eq_bool (feval R ex_card f (fun _ => 0)) (posterior ex_card ex_bn [2] [(1, 0)] [] (fun _ => 0)) = true) /\
  (let vev := [(0, 3, [ex_q 1 4; ex_q 3 4])] in
   exists f, query ex_card (fun _ l => l) 4 ex_bn [2] [] vev (EoList [0; 1]) true = inl [(0, f)] /\
     Qc_eq_bool (feval R ex_card f (fun _ => 0)) (posterior ex_card ex_bn [2] [] (likelihoods vev) (fun _ => 0)) = true).
Proof. split; [|intros vev]; (eexists; split; [reflexivity|vm_compute; reflexivity]). Qed.
