(* C01 proofs, part 3: the ordering heuristics return permutations; normalising a table proportional to the
   unnormalised posterior gives the posterior. *)
From Coq Require Import List Arith Lia PeanoNat Bool QArith Qcanon Permutation.
From PV Require Import Base.Semiring Base.Ravel Base.FinSum Base.RefFactor Base.VE Base.Graph
  C01.Model C01.Spec C01.Proofs C01.ProofsElim.
Import ListNotations.
Local Open Scope nat_scope.

Lemma live_nil (P : list wpair) : live [] P = map fst P.
Proof.
  unfold live. induction (map fst P) as [|f l IH]; [reflexivity|]. simpl.
  assert (H : clean [] f = true) by (apply clean_spec; intros x _ []). rewrite H, IH. reflexivity.
Qed.

Lemma argmin_In cost l : forall best, In (argmin cost l best) (best :: l).
Proof.
  induction l as [|x l IH]; intros best; simpl; [left; reflexivity|].
  destruct (IH (if Nat.ltb (cost x) (cost best) then x else best)) as [H|H].
  - destruct (Nat.ltb (cost x) (cost best)); [right; left; exact H|left; exact H].
  - right. right. exact H.
Qed.

Lemma perm_take (m : var) l : NoDup l -> In m l ->
  Permutation (m :: filter (fun y => negb (Nat.eqb y m)) l) l.
Proof.
  induction l as [|x l IH]; intros Hn Hin; [destruct Hin|].
  inversion Hn as [|? ? Hx Hn']; subst. simpl. destruct (Nat.eqb x m) eqn:E; simpl.
  - apply Nat.eqb_eq in E. subst. apply perm_skip.
    assert (Hf : filter (fun y => negb (Nat.eqb y m)) l = l); [|rewrite Hf; apply Permutation_refl].
    clear - Hx. induction l as [|y l IH]; [reflexivity|]. simpl.
    destruct (Nat.eqb y m) eqn:E; [apply Nat.eqb_eq in E; subst; exfalso; apply Hx; left; reflexivity|].
    simpl. f_equal. apply IH. intros H. apply Hx. right. exact H.
  - destruct Hin as [->|Hin]; [rewrite Nat.eqb_refl in E; discriminate|].
    eapply Permutation_trans; [apply perm_swap|]. apply perm_skip. apply IH; assumption.
Qed.

Lemma order_loop_perm fuel : forall cost todo removed, NoDup todo -> length todo <= fuel ->
  Permutation (order_loop fuel cost todo removed) todo.
Proof.
  induction fuel as [|k IH]; intros cost todo removed Hn Hl.
  - destruct todo; [apply perm_nil|simpl in Hl; lia].
  - destruct todo as [|x r]; [apply perm_nil|]. cbn [order_loop].
    set (m := argmin (cost removed) r x).
    assert (Hm : In m (x :: r)) by apply argmin_In.
    pose proof (perm_take m (x :: r) Hn Hm) as Hp.
    eapply Permutation_trans; [|exact Hp]. apply perm_skip. apply IH.
    + apply NoDup_filter. exact Hn.
    + apply Permutation_length in Hp. simpl in Hp, Hl. simpl. lia.
Qed.

Section N.
Variable card : var -> nat.
Hypothesis card_pos : forall v, 0 < card v.
Notation feval := (feval R card).
Notation wf := (wf R card).
Notation valid := (valid card).

Lemma valid_a0 : valid a0. Proof. intros v. apply card_pos. Qed.

Lemma feval_fnormalize (f : fac) a : wf f -> valid a ->
  feval (fnormalize card f) a = (feval f a / ftotal card f)%Qc.
Proof.
  intros [Hn _] Ha. unfold fnormalize. apply feval_fbuild; [exact Hn|exact Ha|].
  intros x y Hxy. f_equal. apply feval_depends_only. exact Hxy.
Qed.

(* f is, up to the non-zero scalar k, the table u over the variables Q *)
Theorem normalise_proportional (f : fac) (Q : list var) (u : asg -> Qc) (k : Qc) a :
  wf f -> Permutation (fvars f) Q -> valid a ->
  (forall b, valid b -> (k * feval f b)%Qc = u b) ->
  @sum_over R Q (map card Q) u a0 <> 0%Qc ->
  feval (fnormalize card f) a = (u a / @sum_over R Q (map card Q) u a0)%Qc.
Proof.
  intros Hwf Hp Ha Hk Hz. rewrite feval_fnormalize by assumption.
  assert (Htot : (k * ftotal card f)%Qc = @sum_over R Q (map card Q) u a0).
  { unfold ftotal, fcard. rewrite (sum_over_perm card (fvars f) Q Hp (feval f) a0 (proj1 Hwf) (feval_ext R card f)).
    etransitivity; [symmetry; apply (const_into_sum card Q k (feval f) a0)|].
    apply (sum_over_ext_valid R card Q _ u a0 valid_a0). intros b Hb. apply Hk. exact Hb. }
  assert (Hk0 : k <> 0%Qc).
  { intros E. apply Hz. rewrite <- Htot. rewrite E. apply Qcmult_0_l. }
  assert (Ht0 : ftotal card f <> 0%Qc) by (intros E; apply Hz; rewrite <- Htot, E; apply Qcmult_0_r).
  rewrite <- Htot, <- (Hk a Ha). clear Htot Hz Hk.
  revert Ht0. generalize (ftotal card f) (feval f a). intros t x Ht0.
  change (x / t = (k * x) / (k * t))%Qc. field. split; assumption.
Qed.
End N.
