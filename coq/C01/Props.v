(* C01 property theorems.

   Model (coq/C01/Model.v): [ve_joint]/[ve_per_variable] are the literal dict-of-sets code of
   _get_working_factors + _variable_elimination (identity-tagged tuples, fix 2ce9c42); [greedy_*] the einsum
   branch; [prune] _prune_bayesian_model; [virtual_model]/[virtual_evidence] _virtual_evidence; [query] chains
   them as VariableElimination.query does.  [pool_*] is the same algorithm on one global set of tuples.

   PROVED, unbounded, for the literal code:
     C01_query_is_posterior, C01_per_variable_is_marginal, C01_answer_independent_of_order   (classic path:
       dict == pool index lemma, evidence phase, elimination loop for every order, final collection, normalize)
     C01_greedy_path (joint and per-variable), C01_virtual_evidence, C01_prune_barren, C01_prune_ancestral
     (the ancestral step of pruning: leaf-first enumeration exists in every DAG), C01_heuristics_perm,
     and the pool-level C01_ve_any_order / C01_ve_order_independent / C01_working_factors_refines_ve_run_partial.
   The WHOLE [prune] (d-separation step + ancestral step + CPD marginalisation) keeps the posterior for every valid
   network of every size with non-negative entries (C01_prune_sound; without the sign condition the two unnormalised
   answers are proportional: C01_prune_proportional), from the factorisation theorem of Base/Markov.v, whose other
   corollary is the global Markov property of every valid network (C01_global_markov: path-based d-separation
   implies conditional independence in product form).  C01_prune_dsep_3nodes_grid3 is kept as an independent check.
   The pruned network is again a valid network (C01_prune_valid), hence [query] = prune ; eliminate as ONE statement:
   the literal [query] without virtual evidence returns the posterior (joint mode: C01_query_end_to_end) / the posterior
   marginals (per-variable mode: C01_query_end_to_end_per_variable) of the ORIGINAL network, for the greedy branch,
   elimination_order=None and every heuristic.
   The network augmented by _virtual_evidence (fresh binary child per entry) is again a valid network with the same
   side properties (C01_virtual_model_good), hence [query] WITH virtual evidence returns the likelihood-weighted
   posterior / posterior marginals of the ORIGINAL network (C01_query_vev_end_to_end, ..._per_variable).
   The same for an EXPLICIT elimination-order list that enumerates the unqueried, unobserved nodes of the original
   network (C01_query_list_end_to_end: both branches of _get_elimination_order on the pruned model).
   An EMPTY query list prunes nothing and returns the posterior over no variable (C01_query_empty_end_to_end).
   Still tied by the correspondence run only: an empty query list TOGETHER with virtual evidence, and order lists the
   code rejects. *)
From Coq Require Import List Arith Lia PeanoNat Bool QArith Qcanon Permutation.
From PV Require Import Base.Semiring Base.Ravel Base.FinSum Base.RefFactor Base.VE Base.Graph
  C01.Model C01.Spec C01.Proofs C01.ProofsElim C01.ProofsMisc C01.ProofsIdx C01.ProofsFinal C01.ProofsEvid
  C01.ProofsQuery C01.ProofsPost C01.ProofsPrune C01.ProofsGreedy C01.ProofsVirt C01.ProofsDsep C01.ProofsTopo
  C01.ProofsDsepAll C01.ProofsVevAll C01.ProofsOrderAll C01.ProofsEmptyQ.
Import ListNotations.
Local Open Scope nat_scope.

(* The elimination loop of _variable_elimination (product of the not-yet-consumed factors that mention v,
   sum v out, add the result under origin v; consumed factors are filtered by "mentions an eliminated
   variable"), for EVERY duplicate-free order of variables that occur, every set-iteration order [ord]:
   the product of the factors left is  sum_order prod(initial factors),  up to the scalar k = product of the
   empty-scope results, which pgmpy drops (they cancel in normalize()). *)
Theorem C01_ve_any_order :
  forall (card : var -> nat) (ord : forall A, list A -> list A),
  (forall A (l : list A), Permutation (ord A l) l) ->
  forall (P : list wpair) (order : list var),
  Forall (wf R card) (map fst P) -> NoDup order ->
  (forall v, In v order -> forall q, In q P -> snd q <> Some v) ->
  (forall v, In v order -> occurs R v (map fst P)) ->
  let st := pool_elim_loop card ord P order in
  exists k : Qc, forall a, valid card a ->
    (k * eval_prod R card (live (snd st) (fst st)) a)%Qc =
    @sum_over R order (map card order) (eval_prod R card (map fst P)) a.
Proof.
  intros card ord Hord P order Hwf Hnd Horig Hocc.
  destruct (pool_elim_loop_sum card ord Hord order P [] Hwf Hnd Horig) as [_ [_ [k Hk]]].
  - rewrite live_nil. exact Hocc.
  - exists k. intros a Ha. rewrite <- live_nil. apply Hk. exact Ha.
Qed.
Print Assumptions C01_ve_any_order.

(* ... hence the loop refines Base/VE.ve_run (whose correctness is Base.VE.ve_run_correct) *)
Theorem C01_working_factors_refines_ve_run_partial :
  forall (card : var -> nat) (ord : forall A, list A -> list A),
  (forall A (l : list A), Permutation (ord A l) l) ->
  forall (P : list wpair) (order : list var),
  Forall (wf R card) (map fst P) -> NoDup order ->
  (forall v, In v order -> forall q, In q P -> snd q <> Some v) ->
  (forall v, In v order -> occurs R v (map fst P)) ->
  let st := pool_elim_loop card ord P order in
  exists k : Qc, forall a, valid card a ->
    (k * eval_prod R card (live (snd st) (fst st)) a)%Qc = eval_prod R card (ve_run R card (map fst P) order) a.
Proof.
  intros card ord Hord P order Hwf Hnd Horig Hocc.
  destruct (C01_ve_any_order card ord Hord P order Hwf Hnd Horig Hocc) as [k Hk].
  exists k. intros a Ha. rewrite (Hk a Ha). symmetry.
  apply (ve_run_correct R card order (map fst P) a); try assumption. apply Forall_fok.
Qed.
Print Assumptions C01_working_factors_refines_ve_run_partial.

(* independence of the elimination order AND of the set-iteration order *)
Theorem C01_ve_order_independent :
  forall (card : var -> nat) (ord1 ord2 : forall A, list A -> list A),
  (forall A (l : list A), Permutation (ord1 A l) l) -> (forall A (l : list A), Permutation (ord2 A l) l) ->
  forall (P : list wpair) (o1 o2 : list var),
  Forall (wf R card) (map fst P) -> NoDup o1 -> Permutation o1 o2 ->
  (forall v, In v o1 -> forall q, In q P -> snd q <> Some v) ->
  (forall v, In v o1 -> occurs R v (map fst P)) ->
  let s1 := pool_elim_loop card ord1 P o1 in
  let s2 := pool_elim_loop card ord2 P o2 in
  exists k1 k2 : Qc, forall a, valid card a ->
    (k1 * eval_prod R card (live (snd s1) (fst s1)) a)%Qc = (k2 * eval_prod R card (live (snd s2) (fst s2)) a)%Qc.
Proof.
  intros card ord1 ord2 H1 H2 P o1 o2 Hwf Hnd Hp Horig Hocc.
  assert (Hnd2 : NoDup o2) by (eapply Permutation_NoDup; eassumption).
  destruct (C01_ve_any_order card ord1 H1 P o1 Hwf Hnd Horig Hocc) as [k1 Hk1].
  destruct (C01_ve_any_order card ord2 H2 P o2 Hwf Hnd2) as [k2 Hk2].
  - intros v Hv. apply Horig. eapply Permutation_in; [apply Permutation_sym; exact Hp|exact Hv].
  - intros v Hv. apply Hocc. eapply Permutation_in; [apply Permutation_sym; exact Hp|exact Hv].
  - exists k1, k2. intros a Ha. rewrite (Hk1 a Ha), (Hk2 a Ha).
    apply sum_over_perm; [exact Hp|exact Hnd|apply eval_prod_ext].
Qed.
Print Assumptions C01_ve_order_independent.

(* normalize() of any table over Q that is proportional to the unnormalised posterior IS the posterior
   (the link from C01_ve_any_order to Spec.posterior; what is missing is listed at the top) *)
Theorem C01_normalised_is_posterior_partial :
  forall (card : var -> nat), (forall v, 0 < card v) ->
  forall (b : bn) (Q : list var) (ev : list (var * nat)) (vev : list (var * list Qc)) (f : fac) (k : Qc) a,
  wf R card f -> Permutation (fvars f) Q -> valid card a ->
  (forall x, valid card x -> (k * feval R card f x)%Qc = unnorm card b Q ev vev x) ->
  pev card b Q ev vev <> 0%Qc ->
  feval R card (fnormalize card f) a = posterior card b Q ev vev a.
Proof.
  intros card Hc b Q ev vev f k a Hwf Hp Ha Hk Hz. unfold posterior.
  apply (normalise_proportional card Hc f Q (unnorm card b Q ev vev) k a); assumption.
Qed.
Print Assumptions C01_normalised_is_posterior_partial.


(* ============================ the LITERAL classic path, end to end =============================================
   [ve_joint] / [ve_per_variable] are the dict-of-sets code of _get_working_factors + _variable_elimination
   (Model.working_factors, elim_step, final_pairs, normalize) on a BayesianNetwork.  For every valid network,
   every hard evidence (distinct observed nodes, states in range) with P(e) <> 0, every duplicate-free query
   disjoint from the evidence, every elimination order that is a permutation of the remaining nodes, and every
   set-iteration parameter [ord]:  the result is the brute-force posterior. *)
Theorem C01_query_is_posterior :
  forall (card : var -> nat) (ord : forall A, list A -> list A) (idbase : nat),
  (forall A (l : list A), Permutation (ord A l) l) -> (forall v, 0 < card v) ->
  forall (b : bn) (Q : list var) (ev : list (var * nat)) (order : list var) (a : asg),
  valid_bn card b -> (forall v, In v (nodes (bn_g b)) -> v < idbase) ->
  NoDup (map fst ev) -> (forall e, In e (map fst ev) -> In e (nodes (bn_g b))) ->
  (forall e, In e ev -> snd e < card (fst e)) ->
  NoDup Q -> (forall q, In q Q -> In q (nodes (bn_g b)) /\ ~ In q (map fst ev)) ->
  Permutation order (rest b Q (map fst ev)) ->
  pev card b Q ev [] <> 0%Qc -> valid card a ->
  feval R card (ve_joint card ord idbase b ev order) a = posterior card b Q ev [] a.
Proof.
  intros card ord idbase Hord Hc b Q ev order a Hbn Hid H1 H2 H3 H4 H5 H6 H7 Ha.
  apply (ve_joint_is_posterior card ord Hord Hc idbase b Q ev order Hbn Hid H1 H2 H3 H4 H5 H6 H7 a Ha).
Qed.
Print Assumptions C01_query_is_posterior.

(* joint=False: every entry of the returned dict is the posterior marginal of its variable *)
Theorem C01_per_variable_is_marginal :
  forall (card : var -> nat) (ord : forall A, list A -> list A) (idbase : nat),
  (forall A (l : list A), Permutation (ord A l) l) -> (forall v, 0 < card v) ->
  forall (b : bn) (Q : list var) (ev : list (var * nat)) (order : list var) (a : asg) (q : var) (f : fac),
  valid_bn card b -> (forall v, In v (nodes (bn_g b)) -> v < idbase) ->
  NoDup (map fst ev) -> (forall e, In e (map fst ev) -> In e (nodes (bn_g b))) ->
  (forall e, In e ev -> snd e < card (fst e)) ->
  NoDup Q -> (forall q, In q Q -> In q (nodes (bn_g b)) /\ ~ In q (map fst ev)) ->
  Permutation order (rest b Q (map fst ev)) ->
  pev card b Q ev [] <> 0%Qc -> valid card a ->
  In (q, f) (ve_per_variable card ord idbase b Q ev order) ->
  In q Q /\ feval R card f a = posterior_marginal card b Q ev [] q a.
Proof.
  intros card ord idbase Hord Hc b Q ev order a q f Hbn Hid H1 H2 H3 H4 H5 H6 H7 Ha Hin.
  apply (ve_per_variable_is_marginal card ord Hord Hc idbase b Q ev order Hbn Hid H1 H2 H3 H4 H5 H6 H7 q f a Ha Hin).
Qed.
Print Assumptions C01_per_variable_is_marginal.

(* hence the answer does not depend on the elimination order nor on the set-iteration order *)
Theorem C01_answer_independent_of_order :
  forall (card : var -> nat) (ord1 ord2 : forall A, list A -> list A) (idbase : nat),
  (forall A (l : list A), Permutation (ord1 A l) l) -> (forall A (l : list A), Permutation (ord2 A l) l) ->
  (forall v, 0 < card v) ->
  forall (b : bn) (Q : list var) (ev : list (var * nat)) (o1 o2 : list var) (a : asg),
  valid_bn card b -> (forall v, In v (nodes (bn_g b)) -> v < idbase) ->
  NoDup (map fst ev) -> (forall e, In e (map fst ev) -> In e (nodes (bn_g b))) ->
  (forall e, In e ev -> snd e < card (fst e)) ->
  NoDup Q -> (forall q, In q Q -> In q (nodes (bn_g b)) /\ ~ In q (map fst ev)) ->
  Permutation o1 (rest b Q (map fst ev)) -> Permutation o2 (rest b Q (map fst ev)) ->
  pev card b Q ev [] <> 0%Qc -> valid card a ->
  feval R card (ve_joint card ord1 idbase b ev o1) a = feval R card (ve_joint card ord2 idbase b ev o2) a.
Proof.
  intros card ord1 ord2 idbase Ho1 Ho2 Hc b Q ev o1 o2 a Hbn Hid H1 H2 H3 H4 H5 H6 H6' H7 Ha.
  rewrite (C01_query_is_posterior card ord1 idbase Ho1 Hc b Q ev o1 a Hbn Hid H1 H2 H3 H4 H5 H6 H7 Ha).
  rewrite (C01_query_is_posterior card ord2 idbase Ho2 Hc b Q ev o2 a Hbn Hid H1 H2 H3 H4 H5 H6' H7 Ha).
  reflexivity.
Qed.
Print Assumptions C01_answer_independent_of_order.


(* ---- the greedy branch (elimination_order="greedy": evidence slicing + einsum to the query indices) ---------- *)
Theorem C01_greedy_path :
  forall (card : var -> nat), (forall v, 0 < card v) ->
  forall (b : bn) (Q : list var) (ev : list (var * nat)) (a : asg),
  valid_bn card b -> (forall e, In e ev -> snd e < card (fst e)) ->
  NoDup Q -> (forall q, In q Q -> In q (nodes (bn_g b)) /\ ~ In q (map fst ev)) ->
  pev card b Q ev [] <> 0%Qc -> valid card a ->
  feval R card (greedy_joint card b Q ev) a = posterior card b Q ev [] a /\
  forall q f, In (q, f) (greedy_per_variable card b Q ev) ->
    In q Q /\ feval R card f a = posterior_marginal card b Q ev [] q a.
Proof.
  intros card Hc b Q ev a Hbn Hr Hn Hq Hpe Ha. split.
  - apply (greedy_joint_is_posterior card Hc b Q ev Hbn Hn Hpe a Ha).
  - intros q f Hin. apply (greedy_per_variable_is_marginal card Hc b Q ev Hbn Hn Hpe q f a Ha Hin).
Qed.
Print Assumptions C01_greedy_path.

(* ---- barren nodes: any set D of unqueried, unobserved nodes that can be removed leaf-first (each, when
   removed, occurs in no remaining CPD but its own - e.g. the non-ancestors of Q u E in reverse topological
   order) can be dropped with its CPDs: the unnormalised answer, hence P(e) and the posterior, is unchanged.
   (The ancestral step of _prune_bayesian_model keeps anc_of(Q u E); that its complement admits such an
   enumeration in every DAG is not proved here.) *)
Theorem C01_prune_barren :
  forall (card : var -> nat) (b : bn) (Q : list var) (ev : list (var * nat)) (D : list var) (a : asg),
  valid_bn card b -> NoDup D ->
  (forall x, In x D -> In x (nodes (bn_g b)) /\ ~ In x Q /\ ~ In x (map fst ev)) ->
  barren_order b (nodes (bn_g b)) D ->
  (forall e, In e ev -> snd e < card (fst e)) -> valid card a ->
  unnorm card b Q ev [] a = unnorm card (drop_nodes b D) Q ev [] a.
Proof. intros. apply prune_barren_unnorm; assumption. Qed.
Print Assumptions C01_prune_barren.

(* ---- virtual evidence: the network augmented as _virtual_evidence does (binary child __X of X with CPD rows
   v, 1 - v) with the children observed at state 0 has, for every query, the unnormalised answer of the original
   network weighted by the likelihood vectors; hence (with C01_query_is_posterior / C01_greedy_path applied to
   the augmented network, valid by pgmpy's check_model) query(..., virtual_evidence) is the soft-evidence
   posterior Spec.posterior b Q ev (likelihoods vev). *)
Theorem C01_virtual_evidence :
  forall (card : var -> nat) (b : bn) (Q : list var) (ev : list (var * nat)) (vev : list (var * var * list Qc)) (a : asg),
  valid_bn card b ->
  NoDup (map (fun t => snd (fst t)) vev) ->
  (forall t, In t vev -> In (fst (fst t)) (nodes (bn_g b)) /\ ~ In (snd (fst t)) (nodes (bn_g b)) /\
                          ~ In (snd (fst t)) (map fst ev) /\ card (snd (fst t)) = 2 /\
                          length (snd t) = card (fst (fst t))) ->
  (forall e, In e ev -> snd e < card (fst e)) -> valid card a ->
  unnorm card (virtual_model b vev) Q (virtual_evidence ev vev) [] a = unnorm card b Q ev (likelihoods vev) a.
Proof.
  intros card b Q ev vev a Hbn Hnd Hall Hr Ha.
  rewrite (virtual_unnorm card Q vev b ev [] a (valid_scoped card b Hbn) Hnd); [rewrite app_nil_r; reflexivity| |exact Hr|exact Ha].
  intros t Ht. destruct (Hall t Ht) as [A1 [A2 [A3 [A4 A5]]]]. repeat split; try assumption. intros w [].
Qed.
Print Assumptions C01_virtual_evidence.


(* ---- the whole _prune_bayesian_model (d-separation step + ancestral step + CPD marginalisation), finite domain:
   FULL STATEMENT (not proved): for every valid_bn b, Q, ev with pev b Q ev <> 0:  let (b2, ev2) := prune b Q ev in
   pev b2 Q ev2 <> 0 and posterior b2 Q ev2 = posterior b Q ev.   Missing: the d-separation factorisation argument
   and the existence of a leaf-first enumeration of the non-ancestors (the barren part itself is C01_prune_barren).
   Proved by computation: the statement ([prune_ok], cross-multiplied) for the 8 DAGs on 3 binary nodes with edges
   from lower to higher id (every 3-node DAG up to renaming), all CPDs with P(x=0|pa) in {0, 1/4, 1/2}
   (3672 networks) and all 37 assignments of the nodes to query / evidence 0 / evidence 1 / neither. *)
Theorem C01_prune_dsep_3nodes_grid3 :
  forall b, In b all_bns3 -> forall qe, In qe all_qe3 -> prune_ok b (fst qe) (snd qe) = true.
Proof. exact prune_sound_3nodes_grid3. Qed.
Print Assumptions C01_prune_dsep_3nodes_grid3.


(* ---- the ancestral step of _prune_bayesian_model: in every valid network the non-ancestors of Q u E admit a
   leaf-first enumeration ([barren_list]: ascending number of descendants), so C01_prune_barren applies to them:
   the network restricted to anc_of(Q u E) - the node set kept by get_ancestral_graph - with the same CPDs has the
   same unnormalised answer. *)
Theorem C01_prune_ancestral :
  forall (card : var -> nat) (b : bn) (Q : list var) (ev : list (var * nat)) (a : asg),
  valid_bn card b -> (forall e, In e ev -> snd e < card (fst e)) -> valid card a ->
  let D := barren_list (bn_g b) (Q ++ map fst ev) in
  unnorm card b Q ev [] a = unnorm card (drop_nodes b D) Q ev [] a /\
  nodes (bn_g (drop_nodes b D)) = nodes (PV.C08.Model.ancestral_graph (bn_g b) (Q ++ map fst ev)).
Proof.
  intros card b Q ev a Hbn Hr Ha D.
  destruct (barren_list_spec card b (Q ++ map fst ev) Hbn) as [Hbo Hp]. fold D in Hbo, Hp.
  pose proof Hbn as [[Hnd Hed] _].
  assert (HNA : forall x, In x D <-> In x (nodes (bn_g b)) /\ ~ In x (anc_of (bn_g b) (Q ++ map fst ev))).
  { intros x. split.
    - intros H. apply (Permutation_in _ Hp) in H. unfold non_ancestors in H.
      rewrite filter_In, negb_true_iff, memn_false in H. exact H.
    - intros H. apply (Permutation_in _ (Permutation_sym Hp)). unfold non_ancestors.
      rewrite filter_In, negb_true_iff, memn_false. exact H. }
  split.
  - apply prune_barren_unnorm; try assumption.
    + eapply Permutation_NoDup; [apply Permutation_sym; exact Hp|apply NoDup_filter; exact Hnd].
    + intros x Hx. apply HNA in Hx. destruct Hx as [H1 H2]. split; [exact H1|].
      assert (Hs : forall s, In s (Q ++ map fst ev) -> x <> s).
      { intros s Hs E. subst s. apply H2. apply anc_of_spec; [split; assumption|]. exists x. split; [exact Hs|apply dpath_refl]. }
      split; intros Hi; [apply (Hs x (in_or_app _ _ _ (or_introl Hi)))|apply (Hs x (in_or_app _ _ _ (or_intror Hi)))]; reflexivity.
  - unfold drop_nodes, PV.C08.Model.ancestral_graph, PV.C08.Model.induced. cbn [bn_g nodes].
    apply filter_ext_in. intros x Hx. apply eq_true_iff_eq. rewrite negb_true_iff, memv_false, memn_In, HNA.
    split.
    + intros H. destruct (in_dec Nat.eq_dec x (anc_of (bn_g b) (Q ++ map fst ev))) as [Hi|Hi]; [exact Hi|]. exfalso. apply H. split; assumption.
    + intros Hi [_ Hn]. contradiction.
Qed.
Print Assumptions C01_prune_ancestral.

(* ---- sessions: the model of query has no engine state, so an answer does not depend on the earlier requests *)
Theorem C01_session_independent :
  forall (card : var -> nat) (ord : forall A, list A -> list A) (idbase : nat) (b : bn)
         (pre1 pre2 : list request) (r : request),
  last (session card ord idbase b (pre1 ++ [r])) (inr 0) = last (session card ord idbase b (pre2 ++ [r])) (inr 0) /\
  last (session card ord idbase b (pre1 ++ [r])) (inr 0) = run_request card ord idbase b r.
Proof.
  intros card ord idbase b pre1 pre2 r. unfold session. rewrite !map_app. cbn [map]. rewrite !last_last. split; reflexivity.
Qed.
Print Assumptions C01_session_independent.


(* ---- rejected calls: the virtual-evidence checks stop at the FIRST offending entry, whatever follows it, and a
   call is accepted only if every entry names a model variable with the model's cardinality and state order ---- *)
Theorem C01_reject_first_offender :
  forall (nodes : list var) (card : var -> nat) (pre post : list (var * nat * list nat)) (t : var * nat * list nat),
  check_vev nodes card pre = 0 -> check_vev nodes card [t] <> 0 ->
  check_vev nodes card (pre ++ t :: post) = check_vev nodes card [t] /\
  forall Q E, query_rejects nodes card Q E (pre ++ t :: post) <> 0.
Proof.
  intros nodes card pre post t Hpre Ht.
  assert (H : check_vev nodes card (pre ++ t :: post) = check_vev nodes card [t]).
  { induction pre as [|[[x c] l] pre IH]; cbn [app].
    - destruct t as [[x c] l]. cbn [check_vev] in *. destruct (negb (memv x nodes)); [reflexivity|].
      destruct (negb (Nat.eqb c (card x))); [reflexivity|]. exfalso. apply Ht. reflexivity.
    - cbn [check_vev] in *. destruct (negb (memv x nodes)); [discriminate|].
      destruct (negb (Nat.eqb c (card x))); [discriminate|]. apply IH. exact Hpre. }
  split; [exact H|]. intros Q E. unfold query_rejects. destruct (existsb (fun q => memv q E) Q); [discriminate|].
  rewrite H. destruct (check_vev nodes card [t]) eqn:Ec; [contradiction|discriminate].
Qed.
Print Assumptions C01_reject_first_offender.

(* every ordering heuristic returns a permutation of the variables it is asked to order *)
Theorem C01_heuristics_perm :
  forall (card : var -> nat) (ord : forall A, list A -> list A),
  (forall A (l : list A), Permutation (ord A l) l) ->
  forall (h : nat) (g : digraph) (todo : list var), NoDup todo ->
  Permutation (heuristic_order card ord h g todo) todo.
Proof.
  intros card ord Hord h g todo Hn. unfold heuristic_order.
  eapply Permutation_trans; [|apply Hord]. apply order_loop_perm.
  - eapply Permutation_NoDup; [apply Permutation_sym; apply Hord|exact Hn].
  - rewrite (Permutation_length (Hord _ todo)). apply Nat.le_refl.
Qed.
Print Assumptions C01_heuristics_perm.

(* ---- the refutation witness: A -> X, A -> Y, E -> X, E -> Y, P(X|A,E) = P(Y|A,E), evidence X=0, Y=0, E=0 ---- *)
Definition w_card : var -> nat := fun _ => 2.
Definition w_id : forall A : Type, list A -> list A := fun _ l => l.
Definition q (n : Z) (d : positive) : Qc := Q2Qc (n # d).
Definition w_child (x : var) : fac :=
  Build_factor R [x; 0; 1] [q 1 2; q 1 4; q 1 8; q 1 2; q 1 2; q 3 4; q 7 8; q 1 2].
Definition w_bn : bn :=
  {| bn_g := {| nodes := [0; 1; 2; 3]; edges := [(0, 2); (0, 3); (1, 2); (1, 3)] |};
     bn_cpd := fun v => match v with
                        | 0 => Build_factor R [0] [q 1 4; q 3 4]
                        | 1 => Build_factor R [1] [q 1 2; q 1 2]
                        | _ => w_child v end |}.
Definition w_ev : list (var * nat) := [(2, 0); (3, 0); (1, 0)].

(* On this network the pre-fix code (origin = last reduced evidence variable) merged the two equal reduced
   factors of X and Y and returned 4/7 instead of 16/19; with identity tags (fix 2ce9c42) the literal
   dict-of-sets query is collision free and equals the brute-force posterior. *)
Theorem C01_equal_tables_witness_ok :
  collision_free w_card w_id 4 w_bn w_ev [] = true /\
  pev w_card w_bn [0] w_ev [] <> 0%Qc /\
  Qc_eq_bool (feval R w_card (ve_joint w_card w_id 4 w_bn w_ev []) (fun _ => 0))
             (posterior w_card w_bn [0] w_ev [] (fun _ => 0)) = true.
Proof.
  split; [vm_compute; reflexivity|]. split; [|vm_compute; reflexivity].
  intros E.
  assert (H : Qc_eq_bool (pev w_card w_bn [0] w_ev []) 0%Qc = true) by (rewrite E; apply Qc_eq_bool_refl).
  revert H. vm_compute. discriminate.
Qed.
Print Assumptions C01_equal_tables_witness_ok.

(* non-vacuity: the same network with evidence on X only is collision free, and there the literal query
   equals the brute-force posterior *)
Example C01_witness_good :
  collision_free w_card w_id 4 w_bn [(2, 0)] [1; 3] = true /\
  Qc_eq_bool (feval R w_card (ve_joint w_card w_id 4 w_bn [(2, 0)] [1; 3]) (fun _ => 0))
             (posterior w_card w_bn [0] [(2, 0)] [] (fun _ => 0)) = true.
Proof. split; vm_compute; reflexivity. Qed.


(* ============================ _prune_bayesian_model, every network of every size ================================
   [prune] = the d-separation step (keep the nodes with an active trail to a query node given the evidence, and the
   evidence), then the ancestral step, then TabularCPD.marginalize of every kept CPD that lost a parent.  For every
   valid network whose CPD entries are non-negative, every non-empty query of unobserved nodes, every hard evidence
   (states in range) with P(e) <> 0:  the evidence is kept as it is, P(e) <> 0 in the pruned network, and the pruned
   network has the SAME posterior.  (No bound on the number of nodes, cardinalities or CPD values.  Proof: with
   dc = nodes d-connected to Q given E and W = ancestors of Q u E, every CPD of W has its scope inside dc u E or
   disjoint from dc - Base/Markov.v scope_A / scope_B, from the verified worklist characterisation of d-connection
   of C08 - so the joint restricted to W factorises; the part over the dropped nodes is a constant at the evidence,
   and so is every marginalised CPD.) *)
Theorem C01_prune_sound :
  forall (card : var -> nat) (b : bn) (Q : list var) (ev : list (var * nat)),
  (forall v, 0 < card v) -> valid_bn card b ->
  (forall x, In x (nodes (bn_g b)) -> forall a, valid card a -> (0 <= feval R card (bn_cpd b x) a)%Qc) ->
  Q <> [] -> (forall q, In q Q -> In q (nodes (bn_g b)) /\ ~ In q (map fst ev)) ->
  (forall e, In e ev -> snd e < card (fst e)) ->
  pev card b Q ev [] <> 0%Qc ->
  let p := prune card b Q ev in
  snd p = ev /\ pev card (fst p) Q (snd p) [] <> 0%Qc /\
  forall a, valid card a -> posterior card (fst p) Q (snd p) [] a = posterior card b Q ev [] a.
Proof. exact prune_sound. Qed.
Print Assumptions C01_prune_sound.

(* the same without any sign condition on the CPD entries (and without P(e) <> 0): the unnormalised answers of the
   full and of the pruned network are proportional, i.e. equal after normalisation whenever both normalise *)
Theorem C01_prune_proportional :
  forall (card : var -> nat) (b : bn) (Q : list var) (ev : list (var * nat)) (a a' : asg),
  valid_bn card b ->
  Q <> [] -> (forall q, In q Q -> In q (nodes (bn_g b)) /\ ~ In q (map fst ev)) ->
  (forall e, In e ev -> snd e < card (fst e)) -> valid card a -> valid card a' ->
  let p := prune card b Q ev in
  (unnorm card b Q ev [] a * unnorm card (fst p) Q (snd p) [] a' =
   unnorm card b Q ev [] a' * unnorm card (fst p) Q (snd p) [] a)%Qc.
Proof. exact prune_proportional_all. Qed.
Print Assumptions C01_prune_proportional.

(* the hypotheses are satisfiable and the d-separation step really drops a node there (chain 0 -> 1 -> 2, query 2
   given 1: node 0 goes and P(1 | 0) is marginalised) *)
Example C01_prune_sound_nonvacuous :
  valid_bn ex_card ex_bn /\ (forall v, 0 < ex_card v) /\
  (forall x, In x (nodes (bn_g ex_bn)) -> forall a, valid ex_card a -> (0 <= feval R ex_card (bn_cpd ex_bn x) a)%Qc) /\
  (forall q, In q [2] -> In q (nodes (bn_g ex_bn)) /\ ~ In q (map fst [(1, 0)])) /\
  (forall e, In e [(1, 0)] -> snd e < ex_card (fst e)) /\
  pev ex_card ex_bn [2] [(1, 0)] [] <> 0%Qc /\
  nodes (bn_g (fst (prune ex_card ex_bn [2] [(1, 0)]))) = [1; 2].
Proof. exact prune_sound_nonvacuous. Qed.

(* ---- the global Markov property (soundness of d-separation) for every valid network of every size:
   if no node of X has an active trail (path-based definition, C08/Spec.v) to a node of Y given Z, then X and Y are
   conditionally independent given Z in the CPD-product joint:  P(x,y,z) P(z) = P(x,z) P(y,z)  for all values
   ([marginal card b S] sums the joint over every node outside S). *)
Theorem C01_global_markov :
  forall (card : var -> nat) (b : bn) (X Y Z : list var) (a : asg),
  valid_bn card b ->
  (forall x, In x X -> In x (nodes (bn_g b)) /\ ~ In x Z) ->
  (forall y, In y Y -> ~ In y Z) ->
  (forall x y, In x X -> In y Y -> ~ PV.C08.Spec.dconnected (bn_g b) Z x y) ->
  valid card a ->
  (marginal card b (X ++ Y ++ Z) a * marginal card b Z a =
   marginal card b (X ++ Z) a * marginal card b (Y ++ Z) a)%Qc.
Proof. exact bn_global_markov. Qed.
Print Assumptions C01_global_markov.

Example C01_global_markov_nonvacuous :
  valid_bn ex_card ex_bn /\
  forall x y, In x [0] -> In y [2] -> ~ PV.C08.Spec.dconnected (bn_g ex_bn) [1] x y.
Proof. split; [exact ex_valid_bn|exact bn_global_markov_nonvacuous]. Qed.


(* ---- the pruned network is a valid network (the CPD's own variable is its first axis, as in every TabularCPD:
   TabularCPD.marginalize renormalises over that axis) *)
Theorem C01_prune_valid :
  forall (card : var -> nat) (b : bn) (Q : list var) (ev : list (var * nat)),
  (forall v, 0 < card v) -> valid_bn card b ->
  (forall x, In x (nodes (bn_g b)) -> exists r, fvars (bn_cpd b x) = x :: r) ->
  Q <> [] -> (forall q, In q Q -> In q (nodes (bn_g b)) /\ ~ In q (map fst ev)) ->
  valid_bn card (fst (prune card b Q ev)).
Proof. exact prune_valid. Qed.
Print Assumptions C01_prune_valid.

(* ============================ query = prune ; eliminate, as ONE statement =========================================
   The literal [query] (Model.query: _virtual_evidence with no virtual evidence, _prune_bayesian_model, then the
   greedy einsum branch or the dict-of-sets elimination with elimination_order=None or any of the four heuristics),
   for every valid network of every size with non-negative entries, every hard evidence (distinct observed nodes,
   states in range) with P(e) <> 0, every non-empty duplicate-free query of unobserved nodes, every set-iteration
   parameter [ord]:  the answer is the brute-force posterior of the ORIGINAL network. *)
Theorem C01_query_end_to_end :
  forall (card : var -> nat) (ord : forall A : Type, list A -> list A) (idbase : nat)
         (b : bn) (Q : list var) (ev : list (var * nat)) (e : eo),
  (forall A (l : list A), Permutation (ord A l) l) -> (forall v, 0 < card v) ->
  valid_bn card b ->
  (forall x, In x (nodes (bn_g b)) -> forall a, valid card a -> (0 <= feval R card (bn_cpd b x) a)%Qc) ->
  (forall x, In x (nodes (bn_g b)) -> exists r, fvars (bn_cpd b x) = x :: r) ->
  (forall v, In v (nodes (bn_g b)) -> v < idbase) ->
  NoDup (map fst ev) -> (forall x, In x (map fst ev) -> In x (nodes (bn_g b))) ->
  (forall e, In e ev -> snd e < card (fst e)) ->
  NoDup Q -> Q <> [] -> (forall q, In q Q -> In q (nodes (bn_g b)) /\ ~ In q (map fst ev)) ->
  pev card b Q ev [] <> 0%Qc ->
  (e = EoGreedy \/ e = EoNone \/ exists h, e = EoHeur h) ->
  exists f, query card ord idbase b Q ev [] e true = inl [(0, f)] /\
            forall a, valid card a -> feval R card f a = posterior card b Q ev [] a.
Proof. exact query_end_to_end. Qed.
Print Assumptions C01_query_end_to_end.

(* joint=False: every entry of the returned dict is the posterior marginal of its variable in the ORIGINAL network *)
Theorem C01_query_end_to_end_per_variable :
  forall (card : var -> nat) (ord : forall A : Type, list A -> list A) (idbase : nat)
         (b : bn) (Q : list var) (ev : list (var * nat)) (e : eo),
  (forall A (l : list A), Permutation (ord A l) l) -> (forall v, 0 < card v) ->
  valid_bn card b ->
  (forall x, In x (nodes (bn_g b)) -> forall a, valid card a -> (0 <= feval R card (bn_cpd b x) a)%Qc) ->
  (forall x, In x (nodes (bn_g b)) -> exists r, fvars (bn_cpd b x) = x :: r) ->
  (forall v, In v (nodes (bn_g b)) -> v < idbase) ->
  NoDup (map fst ev) -> (forall x, In x (map fst ev) -> In x (nodes (bn_g b))) ->
  (forall e, In e ev -> snd e < card (fst e)) ->
  NoDup Q -> Q <> [] -> (forall q, In q Q -> In q (nodes (bn_g b)) /\ ~ In q (map fst ev)) ->
  pev card b Q ev [] <> 0%Qc ->
  (e = EoGreedy \/ e = EoNone \/ exists h, e = EoHeur h) ->
  exists res, query card ord idbase b Q ev [] e false = inl res /\
    forall q f a, valid card a -> In (q, f) res ->
      In q Q /\ feval R card f a = posterior_marginal card b Q ev [] q a.
Proof. exact query_end_to_end_per_variable. Qed.
Print Assumptions C01_query_end_to_end_per_variable.

(* non-vacuity: the chain network above meets the remaining hypotheses, and there the literal query (which prunes
   node 0) computes the posterior of the full network *)
Example C01_query_end_to_end_nonvacuous :
  (forall x, In x (nodes (bn_g ex_bn)) -> exists r, fvars (bn_cpd ex_bn x) = x :: r) /\
  (forall v, In v (nodes (bn_g ex_bn)) -> v < 3) /\
  NoDup (map fst [(1, 0)]) /\ (forall x, In x (map fst [(1, 0)]) -> In x (nodes (bn_g ex_bn))) /\
  NoDup [2] /\ [2] <> [] /\
  exists f, query ex_card (fun _ l => l) 3 ex_bn [2] [(1, 0)] [] EoNone true = inl [(0, f)] /\
            Qc_eq_bool (feval R ex_card f (fun _ => 0)) (posterior ex_card ex_bn [2] [(1, 0)] [] (fun _ => 0)) = true.
Proof. exact query_end_to_end_nonvacuous. Qed.


(* ============================ query WITH virtual evidence, as ONE statement ====================================
   [good]: a valid network with non-negative entries whose CPDs have their own variable as first axis and whose node
   ids are below the id() tags.  [vev_ok]: every virtual evidence (x, nv, vals) names a model variable x, a FRESH
   child id nv (not a node, not observed, distinct from the other children: what _virtual_evidence picks), binary nv,
   one likelihood in [0, 1] per state of x.  The augmented network is again [good]: *)
Theorem C01_virtual_model_good :
  forall (card : var -> nat) (idbase : nat) (vev : list (var * var * list Qc)) (b : bn) (ev : list (var * nat)),
  good card idbase b -> vev_ok card idbase b ev vev ->
  good card idbase (virtual_model b vev) /\
  (forall v, In v (nodes (bn_g (virtual_model b vev))) <->
             In v (nodes (bn_g b)) \/ In v (map (fun t => snd (fst t)) vev)).
Proof. exact virtual_model_good. Qed.
Print Assumptions C01_virtual_model_good.

(* ... hence the literal [query] with virtual evidence (augment, observe the children at state 0, prune, eliminate,
   normalise) returns Spec.posterior of the ORIGINAL network weighted by the likelihood vectors; every network size,
   every number of virtual evidences, greedy / None / heuristic orders, every set-iteration parameter. *)
Theorem C01_query_vev_end_to_end :
  forall (card : var -> nat) (ord : forall A : Type, list A -> list A) (idbase : nat),
  (forall A (l : list A), Permutation (ord A l) l) -> (forall v, 0 < card v) ->
  forall (b : bn) (Q : list var) (ev : list (var * nat)) (vev : list (var * var * list Qc)),
  good card idbase b -> vev_ok card idbase b ev vev ->
  NoDup (map fst ev) -> (forall x, In x (map fst ev) -> In x (nodes (bn_g b))) ->
  (forall e, In e ev -> snd e < card (fst e)) ->
  NoDup Q -> Q <> [] -> (forall q, In q Q -> In q (nodes (bn_g b)) /\ ~ In q (map fst ev)) ->
  pev card b Q ev (likelihoods vev) <> 0%Qc ->
  forall e : eo, (e = EoGreedy \/ e = EoNone \/ exists h, e = EoHeur h) ->
  exists f, query card ord idbase b Q ev vev e true = inl [(0, f)] /\
            forall a, valid card a -> feval R card f a = posterior card b Q ev (likelihoods vev) a.
Proof. exact query_vev_end_to_end. Qed.
Print Assumptions C01_query_vev_end_to_end.

Theorem C01_query_vev_end_to_end_per_variable :
  forall (card : var -> nat) (ord : forall A : Type, list A -> list A) (idbase : nat),
  (forall A (l : list A), Permutation (ord A l) l) -> (forall v, 0 < card v) ->
  forall (b : bn) (Q : list var) (ev : list (var * nat)) (vev : list (var * var * list Qc)),
  good card idbase b -> vev_ok card idbase b ev vev ->
  NoDup (map fst ev) -> (forall x, In x (map fst ev) -> In x (nodes (bn_g b))) ->
  (forall e, In e ev -> snd e < card (fst e)) ->
  NoDup Q -> Q <> [] -> (forall q, In q Q -> In q (nodes (bn_g b)) /\ ~ In q (map fst ev)) ->
  pev card b Q ev (likelihoods vev) <> 0%Qc ->
  forall e : eo, (e = EoGreedy \/ e = EoNone \/ exists h, e = EoHeur h) ->
  exists res, query card ord idbase b Q ev vev e false = inl res /\
    forall q f a, valid card a -> In (q, f) res ->
      In q Q /\ feval R card f a = posterior_marginal card b Q ev (likelihoods vev) q a.
Proof. exact query_vev_end_to_end_per_variable. Qed.
Print Assumptions C01_query_vev_end_to_end_per_variable.

(* non-vacuity: the chain network with a likelihood (1/4, 3/4) on node 1 (fresh child id 3) *)
Example C01_query_vev_nonvacuous :
  let vev := [(1, 3, [ex_q 1 4; ex_q 3 4])] in
  good ex_card 4 ex_bn /\ vev_ok ex_card 4 ex_bn [] vev /\
  pev ex_card ex_bn [2] [] (likelihoods vev) <> 0%Qc /\
  exists f, query ex_card (fun _ l => l) 4 ex_bn [2] [] vev EoNone true = inl [(0, f)] /\
            Qc_eq_bool (feval R ex_card f (fun _ => 0)) (posterior ex_card ex_bn [2] [] (likelihoods vev) (fun _ => 0)) = true.
Proof. exact vev_nonvacuous. Qed.


(* ---- explicit elimination-order list (with or without virtual evidence; vev = [] is allowed by [vev_ok]).
   _get_elimination_order runs on the PRUNED model: list members that were pruned away are filtered out and then no
   coverage check is made (as coded); otherwise the list must equal the set to eliminate.  For every duplicate-free
   list that enumerates exactly the nodes of the ORIGINAL network that are neither queried nor observed, both branches
   yield a permutation of what is left to eliminate, and the answer is the (likelihood-weighted) posterior in joint
   mode and its marginals in per-variable mode. *)
Theorem C01_query_list_end_to_end :
  forall (card : var -> nat) (ord : forall A : Type, list A -> list A) (idbase : nat),
  (forall A (l : list A), Permutation (ord A l) l) -> (forall v, 0 < card v) ->
  forall (b : bn) (Q : list var) (ev : list (var * nat)) (vev : list (var * var * list Qc)) (l : list var),
  good card idbase b -> vev_ok card idbase b ev vev ->
  NoDup (map fst ev) -> (forall x, In x (map fst ev) -> In x (nodes (bn_g b))) ->
  (forall e, In e ev -> snd e < card (fst e)) ->
  NoDup Q -> Q <> [] -> (forall q, In q Q -> In q (nodes (bn_g b)) /\ ~ In q (map fst ev)) ->
  pev card b Q ev (likelihoods vev) <> 0%Qc ->
  NoDup l -> (forall v, In v l <-> In v (rest b Q (map fst ev))) ->
  (exists f, query card ord idbase b Q ev vev (EoList l) true = inl [(0, f)] /\
             forall a, valid card a -> feval R card f a = posterior card b Q ev (likelihoods vev) a) /\
  (exists res, query card ord idbase b Q ev vev (EoList l) false = inl res /\
     forall q f a, valid card a -> In (q, f) res ->
       In q Q /\ feval R card f a = posterior_marginal card b Q ev (likelihoods vev) q a).
Proof. exact query_list_end_to_end. Qed.
Print Assumptions C01_query_list_end_to_end.

(* non-vacuity: order [0] when node 0 is pruned away (the filter branch), and order [0; 1] with a virtual evidence *)
Example C01_query_list_nonvacuous :
  (exists f, query ex_card (fun _ l => l) 4 ex_bn [2] [(1, 0)] [] (EoList [0]) true = inl [(0, f)] /\
     Qc_eq_bool (feval R ex_card f (fun _ => 0)) (posterior ex_card ex_bn [2] [(1, 0)] [] (fun _ => 0)) = true) /\
  (let vev := [(0, 3, [ex_q 1 4; ex_q 3 4])] in
   exists f, query ex_card (fun _ l => l) 4 ex_bn [2] [] vev (EoList [0; 1]) true = inl [(0, f)] /\
     Qc_eq_bool (feval R ex_card f (fun _ => 0)) (posterior ex_card ex_bn [2] [] (likelihoods vev) (fun _ => 0)) = true).
Proof. exact list_nonvacuous. Qed.


(* ---- empty query list: _prune_bayesian_model then treats every node as a query variable; every node is d-connected
   to itself or observed, so nothing is pruned (the pruned graph has the node and edge lists of the original one,
   every CPD is kept) and the answer is the posterior over no variable.  Every valid network (no sign condition
   needed), greedy / None / heuristic / explicit-list orders. *)
Theorem C01_query_empty_end_to_end :
  forall (card : var -> nat) (ord : forall A : Type, list A -> list A) (idbase : nat),
  (forall A (l : list A), Permutation (ord A l) l) -> (forall v, 0 < card v) ->
  forall (b : bn) (ev : list (var * nat)),
  valid_bn card b -> (forall v, In v (nodes (bn_g b)) -> v < idbase) ->
  NoDup (map fst ev) -> (forall x, In x (map fst ev) -> In x (nodes (bn_g b))) ->
  (forall e, In e ev -> snd e < card (fst e)) ->
  pev card b [] ev [] <> 0%Qc ->
  forall e : eo,
  (e = EoGreedy \/ e = EoNone \/ (exists h, e = EoHeur h) \/
   exists l, e = EoList l /\ NoDup l /\ forall v, In v l <-> In v (rest b [] (map fst ev))) ->
  exists f, query card ord idbase b [] ev [] e true = inl [(0, f)] /\
            forall a, valid card a -> feval R card f a = posterior card b [] ev [] a.
Proof. exact query_empty_end_to_end. Qed.
Print Assumptions C01_query_empty_end_to_end.

Example C01_query_empty_nonvacuous :
  exists f, query ex_card (fun _ l => l) 4 ex_bn [] [(1, 0)] [] EoNone true = inl [(0, f)] /\
            Qc_eq_bool (feval R ex_card f (fun _ => 0)) 1%Qc = true /\
            Qc_eq_bool (posterior ex_card ex_bn [] [(1, 0)] [] (fun _ => 0)) 1%Qc = true.
Proof. exact empty_query_nonvacuous. Qed.
