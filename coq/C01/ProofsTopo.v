(* C01 proofs, part 13: in a DAG, the nodes that are not ancestors-or-self of a set S can be enumerated
   leaf-first (ascending number of descendants): this is the barren order needed by C01_prune_barren. *)
From Coq Require Import List Arith Lia PeanoNat Bool QArith Qcanon Permutation.
From PV Require Import Base.Semiring Base.Ravel Base.FinSum Base.RefFactor Base.VE Base.Graph Base.Reach
  C01.Model C01.Spec C01.Proofs C01.ProofsElim C01.ProofsMisc C01.ProofsPrune.
Import ListNotations.
Local Open Scope nat_scope.

Definition hdesc (g : digraph) (x : var) : nat := length (desc_of g [x]).

Lemma desc_nodup g src : wf_graph g -> NoDup (desc_of g src).
Proof.
  intros Hw. unfold desc_of. destruct (search_children_total g src Hw) as [r Hr]. rewrite Hr.
  apply (search_nodup node Nat.eqb nat_eqb_spec (children g) _ _ _ _ Hr). constructor.
Qed.

Lemma hdesc_lt g x y : wf_graph g -> acyclic g -> In (x, y) (edges g) -> hdesc g y < hdesc g x.
Proof.
  intros Hw Hac He. unfold hdesc.
  assert (Hx : In x (desc_of g [x])).
  { apply desc_of_spec; [exact Hw|]. exists x. split; [left; reflexivity|apply dpath_refl]. }
  assert (Hnx : ~ In x (desc_of g [y])).
  { intros H. apply desc_of_spec in H; [|exact Hw]. destruct H as [s [[<-|[]] Hp]]. exact (Hac x y He Hp). }
  assert (Hincl : incl (x :: desc_of g [y]) (desc_of g [x])).
  { intros z [<-|Hz]; [exact Hx|]. apply desc_of_spec in Hz; [|exact Hw]. destruct Hz as [s [[<-|[]] Hp]].
    apply desc_of_spec; [exact Hw|]. exists x. split; [left; reflexivity|]. eapply dpath_step_l; eassumption. }
  assert (Hnd : NoDup (x :: desc_of g [y])) by (constructor; [exact Hnx|apply desc_nodup; exact Hw]).
  exact (NoDup_incl_length Hnd Hincl).
Qed.

Lemma argmin_min cost l : forall best y, In y (best :: l) -> cost (argmin cost l best) <= cost y.
Proof.
  induction l as [|x l IH]; intros best y Hy; simpl.
  - destruct Hy as [<-|[]]. apply Nat.le_refl.
  - destruct (Nat.ltb (cost x) (cost best)) eqn:E.
    + apply Nat.ltb_lt in E. destruct Hy as [<-|[<-|Hy]].
      * pose proof (IH x x (or_introl eq_refl)). lia.
      * apply IH. left. reflexivity.
      * apply IH. right. exact Hy.
    + apply Nat.ltb_ge in E. destruct Hy as [<-|[<-|Hy]].
      * apply IH. left. reflexivity.
      * pose proof (IH best best (or_introl eq_refl)). lia.
      * apply IH. right. exact Hy.
Qed.

Section T.
Variable card : var -> nat.
Variable b : bn.
Hypothesis Hbn : valid_bn card b.
Variable A : list var.                         (* kept nodes: closed under parents *)
Hypothesis A_closed : forall x y, In y A -> In (x, y) (edges (bn_g b)) -> In x A.

Lemma leaf_first fuel : forall (todo alive : list var),
  NoDup todo -> length todo <= fuel -> incl todo alive -> incl alive (nodes (bn_g b)) ->
  (forall y, In y alive -> In y todo \/ In y A) -> (forall x, In x todo -> ~ In x A) ->
  barren_order b alive (order_loop fuel (fun _ => hdesc (bn_g b)) todo []).
Proof.
  destruct Hbn as [Hw [Hac Hcpd]].
  assert (G : forall fuel (todo alive removed : list var),
    NoDup todo -> length todo <= fuel -> incl todo alive -> incl alive (nodes (bn_g b)) ->
    (forall y, In y alive -> In y todo \/ In y A) -> (forall x, In x todo -> ~ In x A) ->
    barren_order b alive (order_loop fuel (fun _ => hdesc (bn_g b)) todo removed)).
  { clear fuel. induction fuel as [|k IH]; intros todo alive removed Hn Hl Hin Hal Hcov HnA.
    - destruct todo; exact I.
    - destruct todo as [|x r]; [exact I|]. cbn [order_loop].
      set (m := argmin (hdesc (bn_g b)) r x).
      assert (Hm : In m (x :: r)) by apply argmin_In.
      cbn [barren_order]. split; [apply Hin; exact Hm|]. split.
      + intros y Hy Hne Hmem.
        destruct (Hcpd y (Hal y Hy)) as [_ [Hsc _]]. apply Hsc in Hmem. destruct Hmem as [E|Hpa]; [congruence|].
        apply In_parents in Hpa. destruct (Hcov y Hy) as [Hyt|HyA].
        * pose proof (hdesc_lt (bn_g b) m y Hw Hac Hpa) as Hlt.
          pose proof (argmin_min (hdesc (bn_g b)) r x y Hyt) as Hle. fold m in Hle. lia.
        * apply (HnA m Hm). apply (A_closed m y HyA Hpa).
      + pose proof (perm_take m (x :: r) Hn Hm) as Hp.
        apply IH.
        * apply NoDup_filter. exact Hn.
        * apply Permutation_length in Hp. simpl in Hp, Hl. simpl. lia.
        * intros z Hz. apply filter_In in Hz. destruct Hz as [Hz Hne]. apply filter_In. split; [apply Hin; exact Hz|exact Hne].
        * intros z Hz. apply filter_In in Hz. apply Hal. apply Hz.
        * intros z Hz. apply filter_In in Hz. destruct Hz as [Hz Hne]. destruct (Hcov z Hz) as [H|H]; [|right; exact H].
          left. apply filter_In. split; assumption.
        * intros z Hz. apply filter_In in Hz. apply HnA. apply Hz. }
  intros todo alive. apply G.
Qed.
End T.

(* the non-ancestors of S, leaf-first *)
Definition non_ancestors (g : digraph) (S : list var) : list var :=
  filter (fun x => negb (memn x (anc_of g S))) (nodes g).
Definition barren_list (g : digraph) (S : list var) : list var :=
  order_loop (length (non_ancestors g S)) (fun _ => hdesc g) (non_ancestors g S) [].

Theorem barren_list_spec card b S : valid_bn card b ->
  barren_order b (nodes (bn_g b)) (barren_list (bn_g b) S) /\
  Permutation (barren_list (bn_g b) S) (non_ancestors (bn_g b) S).
Proof.
  intros Hbn. pose proof Hbn as [Hw [Hac Hcpd]]. destruct Hw as [Hnd Hed].
  assert (HNA : forall x, In x (non_ancestors (bn_g b) S) <-> In x (nodes (bn_g b)) /\ ~ In x (anc_of (bn_g b) S)).
  { intros x. unfold non_ancestors. rewrite filter_In, negb_true_iff, memn_false. reflexivity. }
  assert (HndNA : NoDup (non_ancestors (bn_g b) S)) by (apply NoDup_filter; exact Hnd).
  split.
  - apply (leaf_first card b Hbn (anc_of (bn_g b) S)).
    + intros x y Hy He. apply anc_of_spec in Hy; [|split; assumption]. destruct Hy as [s [Hs Hp]].
      apply anc_of_spec; [split; assumption|]. exists s. split; [exact Hs|]. eapply dpath_step_l; eassumption.
    + exact HndNA.
    + apply Nat.le_refl.
    + intros x Hx. apply HNA in Hx. apply Hx.
    + intros x Hx. exact Hx.
    + intros y Hy. destruct (in_dec Nat.eq_dec y (anc_of (bn_g b) S)) as [H|H]; [right; exact H|left; apply HNA; split; assumption].
    + intros x Hx. apply HNA in Hx. apply Hx.
  - apply order_loop_perm; [exact HndNA|apply Nat.le_refl].
Qed.
