(* C01 proofs, part 12: soundness of the whole _prune_bayesian_model (d-separation + ancestral pruning with
   CPD marginalisation) on a finite domain, by computation: every DAG on 3 binary nodes whose edges go from a lower to a
   higher node id (8 DAGs: every 3-node DAG up to renaming), every CPD with entries P(x=0|pa) from the grid
   {0, 1/4, 1/2}, every assignment of the nodes to query / evidence=0 / evidence=1 / neither. *)
From Coq Require Import List Arith Lia PeanoNat Bool QArith Qcanon.
From PV Require Import Base.Semiring Base.Ravel Base.FinSum Base.RefFactor Base.Graph C01.Model C01.Spec.
Import ListNotations.
Local Open Scope nat_scope.

Definition card2 : var -> nat := fun _ => 2.
Definition qq (n : Z) (d : positive) : Qc := Q2Qc (n # d).
Definition grid : list Qc := [qq 0 1; qq 1 4; qq 1 2].

Fixpoint lists_of {A} (vals : list A) (n : nat) : list (list A) :=
  match n with 0 => [[]] | S k => flat_map (fun l => map (fun v => v :: l) vals) (lists_of vals k) end.
Fixpoint sublists {A} (l : list A) : list (list A) :=
  match l with [] => [[]] | x :: r => let s := sublists r in s ++ map (cons x) s end.

(* CPD of the binary node x with (binary) parents pa: rows x=0: ps, x=1: 1 - ps *)
Definition mk_cpd (x : var) (pa : list var) (ps : list Qc) : fac :=
  Build_factor R (x :: pa) (ps ++ map (fun p => (1 - p)%Qc) ps).
Definition cpds_for (g : digraph) (x : var) : list fac :=
  map (mk_cpd x (parents g x)) (lists_of grid (2 ^ length (parents g x))).

Definition bns_on (g : digraph) : list bn :=
  map (fun t => let '(f0, f1, f2) := t in
                {| bn_g := g; bn_cpd := fun v => match v with 0 => f0 | 1 => f1 | _ => f2 end |})
      (flat_map (fun f0 => flat_map (fun f1 => map (fun f2 => (f0, f1, f2)) (cpds_for g 2)) (cpds_for g 1))
                (cpds_for g 0)).
(* the 8 DAGs on nodes 0, 1, 2 whose edges go from a lower to a higher id: every 3-node DAG up to renaming
   (all 25 labelled DAGs = 18009 networks did not finish by vm_compute within 40 minutes) *)
Definition all_dags3 : list digraph :=
  map (fun es => {| nodes := [0; 1; 2]; edges := es |}) (sublists [(0, 1); (0, 2); (1, 2)]).
Definition all_bns3 : list bn := flat_map bns_on all_dags3.

(* role of each node: 0 neither, 1 query, 2 evidence state 0, 3 evidence state 1 *)
Definition qe_of (roles : list nat) : list var * list (var * nat) :=
  let ix := combine (seq 0 (length roles)) roles in
  (map fst (filter (fun p => Nat.eqb (snd p) 1) ix),
   map (fun p => (fst p, snd p - 2)) (filter (fun p => Nat.leb 2 (snd p)) ix)).
Definition all_qe3 : list (list var * list (var * nat)) :=
  filter (fun qe => negb (match fst qe with [] => true | _ => false end)) (map qe_of (lists_of [0; 1; 2; 3] 3)).

(* P(e) <> 0 on the full network implies P(e) <> 0 on the pruned one and equal posteriors (cross-multiplied) *)
Definition prune_ok (b : bn) (Q : list var) (ev : list (var * nat)) : bool :=
  let (b2, ev2) := prune card2 b Q ev in
  let pe := pev card2 b Q ev [] in
  let pe2 := pev card2 b2 Q ev2 [] in
  if Qc_eq_bool pe 0%Qc then true
  else negb (Qc_eq_bool pe2 0%Qc) &&
       forallb (fun idx => let a := asg_of Q idx in
                  Qc_eq_bool (unnorm card2 b Q ev [] a * pe2)%Qc (unnorm card2 b2 Q ev2 [] a * pe)%Qc)
               (all_idx (map card2 Q)).

Definition all_ok : bool :=
  forallb (fun b => forallb (fun qe => prune_ok b (fst qe) (snd qe)) all_qe3) all_bns3.

Lemma all_ok_true :
  forallb (fun b => forallb (fun qe => prune_ok b (fst qe) (snd qe)) all_qe3) all_bns3 = true.
Proof. vm_compute. reflexivity. Qed.

Theorem prune_sound_3nodes_grid3 :
  forall b, In b all_bns3 -> forall qe, In qe all_qe3 -> prune_ok b (fst qe) (snd qe) = true.
Proof.
  intros b Hb qe Hqe.
  pose proof (proj1 (forallb_forall (fun b => forallb (fun qe => prune_ok b (fst qe) (snd qe)) all_qe3) all_bns3)
                all_ok_true b Hb) as H1.
  exact (proj1 (forallb_forall (fun qe => prune_ok b (fst qe) (snd qe)) all_qe3) H1 qe Hqe).
Qed.

(* the domain is not trivial: 8 DAGs, 3672 networks, 37 role assignments; pruning really drops nodes, both as
   barren (chain 0 -> 1 -> 2, query 0) and as d-separated (query 2 given 1: node 0 goes, P(1|0) is marginalised) *)
Example domain_size : length all_dags3 = 8 /\ length all_bns3 = 3672 /\ length all_qe3 = 37.
Proof. vm_compute. repeat split. Qed.
Example prune_drops :
  let g := {| nodes := [0; 1; 2]; edges := [(0, 1); (1, 2)] |} in
  let b := {| bn_g := g; bn_cpd := fun v => mk_cpd v (parents g v) (map (fun _ => qq 1 4) (seq 0 (2 ^ length (parents g v)))) |} in
  nodes (bn_g (fst (prune card2 b [0] []))) = [0] /\ nodes (bn_g (fst (prune card2 b [2] [(1, 0)]))) = [1; 2].
Proof. vm_compute. split; reflexivity. Qed.
