(* C01 proofs, part 4: the dict  var -> set of tuples  of _get_working_factors / _variable_elimination is the
   index  {p in pool | var in scope p}  of ONE global set of tuples (the pool); the literal dict algorithm and
   the pool algorithm run in lockstep.  Unconditional (set semantics on both sides). *)
From Coq Require Import List Arith Lia PeanoNat Bool QArith Qcanon Permutation.
From PV Require Import Base.Semiring Base.Ravel Base.FinSum Base.RefFactor Base.VE Base.Graph
  C01.Model C01.Spec C01.Proofs C01.ProofsElim.
Import ListNotations.
Local Open Scope nat_scope.

Section I.
Variable card : var -> nat.
Variable ord : forall A : Type, list A -> list A.
Hypothesis ord_perm : forall A (l : list A), Permutation (ord A l) l.

Notation wf := (wf R card).
Notation fmarg := (fmarg R card).
Notation fred := (fred R card).
Notation factor_product := (factor_product card).
Notation peqb := (peqb card).
Notation wmem := (wmem card).
Notation wadd := (wadd card).
Notation wremove := (wremove card).
Notation padd := (padd card).

Definition mw (w : var) (p : wpair) : bool := mentions w (fst p).

(* ---- dict lemmas ------------------------------------------------------------------------------------------ *)
Lemma dget_dupd_same d v F : In v (map fst d) -> dget (dupd d v F) v = F (dget d v).
Proof.
  induction d as [|[w s] d IH]; simpl; intros H; [destruct H|].
  destruct (Nat.eqb w v) eqn:E; simpl; rewrite E; [reflexivity|]. apply IH.
  destruct H as [H|H]; [subst; rewrite Nat.eqb_refl in E; discriminate|exact H].
Qed.
Lemma dget_dupd_other d v F w : w <> v -> dget (dupd d v F) w = dget d w.
Proof.
  intros Hne. induction d as [|[u s] d IH]; simpl; [reflexivity|]. destruct (Nat.eqb u v) eqn:E; simpl.
  - destruct (Nat.eqb u w) eqn:E2; [|reflexivity]. apply Nat.eqb_eq in E, E2. subst. contradiction.
  - destruct (Nat.eqb u w); [reflexivity|exact IH].
Qed.
Lemma keys_dupd d v F : map fst (dupd d v F) = map fst d.
Proof.
  induction d as [|[u s] d IH]; simpl; [reflexivity|]. destruct (Nat.eqb u v); simpl; [reflexivity|].
  rewrite IH. reflexivity.
Qed.
Lemma dget_ddel d v w : w <> v -> dget (ddel d v) w = dget d w.
Proof.
  intros Hne. induction d as [|[u s] d IH]; simpl; [reflexivity|]. destruct (Nat.eqb u v) eqn:E; simpl.
  - destruct (Nat.eqb u w) eqn:E2; [|exact IH]. apply Nat.eqb_eq in E, E2. subst. contradiction.
  - destruct (Nat.eqb u w); [reflexivity|exact IH].
Qed.
Lemma keys_ddel d v : map fst (ddel d v) = filter (fun x => negb (Nat.eqb x v)) (map fst d).
Proof.
  induction d as [|[u s] d IH]; simpl; [reflexivity|]. destruct (Nat.eqb u v); simpl; rewrite IH; reflexivity.
Qed.
Lemma keys_fold_dupd (F : list wpair -> list wpair) ws : forall d,
  map fst (fold_left (fun d x => dupd d x F) ws d) = map fst d.
Proof. induction ws as [|x ws IH]; intros d; simpl; [reflexivity|]. rewrite IH. apply keys_dupd. Qed.
Lemma dget_fold_dupd (F : list wpair -> list wpair) ws : forall d w, NoDup ws -> In w (map fst d) ->
  dget (fold_left (fun d x => dupd d x F) ws d) w = if memv w ws then F (dget d w) else dget d w.
Proof.
  induction ws as [|x ws IH]; intros d w Hn Hk; simpl; [reflexivity|].
  inversion Hn as [|? ? Hx Hn']; subst.
  rewrite IH; [|exact Hn'|rewrite keys_dupd; exact Hk].
  destruct (Nat.eqb w x) eqn:E; simpl.
  - apply Nat.eqb_eq in E. subst x. assert (Hm : memv w ws = false) by (apply memv_false; exact Hx).
    rewrite Hm. apply dget_dupd_same. exact Hk.
  - apply Nat.eqb_neq in E. rewrite (dget_dupd_other d x F w E). reflexivity.
Qed.

(* ---- set lemmas --------------------------------------------------------------------------------------------- *)
Lemma wmem_filter (c : wpair -> bool) p X :
  (forall q, peqb q p = true -> c q = true) -> wmem p (filter c X) = wmem p X.
Proof.
  intros H. unfold Model.wmem. induction X as [|a X IH]; [reflexivity|]. simpl.
  destruct (c a) eqn:Ec; simpl; [rewrite IH; reflexivity|].
  destruct (peqb a p) eqn:Ep; [rewrite (H a Ep) in Ec; discriminate|]. simpl. exact IH.
Qed.
Lemma filter_wadd_in (c : wpair -> bool) p X :
  c p = true -> (forall q, peqb q p = true -> c q = true) -> filter c (wadd p X) = wadd p (filter c X).
Proof.
  intros Hc H. unfold Model.wadd. rewrite (wmem_filter c p X H). destruct (wmem p X); [reflexivity|].
  rewrite filter_app. simpl. rewrite Hc. reflexivity.
Qed.
Lemma filter_wadd_out (c : wpair -> bool) p X : c p = false -> filter c (wadd p X) = filter c X.
Proof.
  intros Hc. unfold Model.wadd. destruct (wmem p X); [reflexivity|].
  rewrite filter_app. simpl. rewrite Hc. apply app_nil_r.
Qed.
Lemma filter_wremove (c : wpair -> bool) p X : filter c (wremove p X) = wremove p (filter c X).
Proof. unfold Model.wremove. apply filter_comm. Qed.
Lemma filter_wremove_out (c : wpair -> bool) p X :
  (forall q, peqb q p = true -> c q = false) -> filter c (wremove p X) = filter c X.
Proof.
  intros H. unfold Model.wremove. induction X as [|a X IH]; [reflexivity|]. simpl.
  destruct (peqb a p) eqn:E; simpl.
  - rewrite (H a E). exact IH.
  - destruct (c a); rewrite IH; reflexivity.
Qed.
Lemma mw_peqb w q p : peqb q p = true -> mw w q = mw w p.
Proof. apply peqb_mentions. Qed.

Lemma filter_padd_in w p X : mw w p = true -> filter (mw w) (padd p X) = wadd p (filter (mw w) X).
Proof.
  intros Hm. destruct (padd_cases card p X) as [[He Hp]|[_ Hp]]; rewrite Hp.
  - exfalso. assert (Hin : In w []) by (rewrite <- He; apply memv_In; exact Hm). destruct Hin.
  - apply filter_wadd_in; [exact Hm|]. intros q Hq. rewrite (mw_peqb w q p Hq). exact Hm.
Qed.
Lemma filter_padd_out w p X : mw w p = false -> filter (mw w) (padd p X) = filter (mw w) X.
Proof.
  intros Hm. destruct (padd_cases card p X) as [[_ Hp]|[_ Hp]]; rewrite Hp; [reflexivity|].
  apply filter_wadd_out. exact Hm.
Qed.

(* ---- the index relation -------------------------------------------------------------------------------------- *)
(* d indexes P on its keys, except possibly at key e (the evidence variable being processed) *)
Definition idx_ex (d : wdict) (P : list wpair) (e : option var) : Prop :=
  forall w, In w (map fst d) -> Some w <> e -> dget d w = filter (mw w) P.
Definition idx (d : wdict) (P : list wpair) : Prop := idx_ex d P None.

Lemma mw_fred_in e i (p : wpair) w : w <> e ->
  mw w (fred [(e, i)] (fst p), Some 0) = mw w p.
Proof.
  intros Hne. unfold mw, mentions. cbn [fst]. rewrite fvars_fred. cbn [map fst].
  destruct (memv w (fvars (fst p))) eqn:E.
  - apply memv_In. apply In_vminus. split; [apply memv_In; exact E|]. intros [H|[]]. congruence.
  - apply memv_false. intros H. apply In_vminus in H. destruct H as [H _]. apply memv_In in H. congruence.
Qed.

(* one tuple of working_factors[e]: dict and pool in lockstep *)
Lemma reduce_pair_idx e i d P ctr (p : wpair) :
  NoDup (fvars (fst p)) -> idx_ex d P (Some e) ->
  let st := reduce_pair card (e, i) (d, ctr) p in
  idx_ex (fst st) (padd (fred [(e, i)] (fst p), Some ctr) (wremove p P)) (Some e) /\
  map fst (fst st) = map fst d /\ snd st = S ctr.
Proof.
  intros Hnd Hidx. cbv zeta. unfold reduce_pair. cbn [fst snd].
  set (fr := fred [(e, i)] (fst p)). set (new := (fr, Some ctr)).
  set (F := fun s => wadd new (wremove p s)).
  split; [|split; [apply keys_fold_dupd|reflexivity]].
  intros w Hk Hne. rewrite keys_fold_dupd in Hk.
  assert (Hwe : w <> e) by (intros E; apply Hne; rewrite E; reflexivity).
  assert (Hndfr : NoDup (fvars fr)) by (unfold fr; rewrite fvars_fred; apply NoDup_filter; exact Hnd).
  rewrite (dget_fold_dupd F (fvars fr) d w Hndfr Hk). rewrite (Hidx w Hk Hne).
  assert (Hmnew : mw w new = mw w p).
  { unfold new, fr. unfold mw at 1. cbn [fst]. change (mentions w (fred [(e, i)] (fst p))) with
      (mw w (fred [(e, i)] (fst p), Some 0)). apply mw_fred_in. exact Hwe. }
  assert (Hmem : memv w (fvars fr) = mw w new) by reflexivity.
  rewrite Hmem. destruct (mw w new) eqn:Em.
  - unfold F. rewrite (filter_padd_in w new _ Em). rewrite filter_wremove. reflexivity.
  - rewrite (filter_padd_out w new _ Em). symmetry. apply filter_wremove_out.
    intros q Hq. rewrite (mw_peqb w q p Hq). symmetry. exact Hmnew.
Qed.

(* the whole inner loop over a snapshot S of tuples *)
Lemma reduce_pairs_idx e i (S : list wpair) : forall d P ctr,
  (forall p, In p S -> NoDup (fvars (fst p))) -> idx_ex d P (Some e) ->
  let st := fold_left (reduce_pair card (e, i)) S (d, ctr) in
  let pst := fold_left (fun st p => (padd (fred [(e, i)] (fst p), Some (snd st)) (wremove p (fst st)), Datatypes.S (snd st)))
                       S (P, ctr) in
  idx_ex (fst st) (fst pst) (Some e) /\ map fst (fst st) = map fst d /\ snd st = snd pst.
Proof.
  induction S as [|p S IH]; intros d P ctr Hnd Hidx; cbv zeta; cbn [fold_left].
  - split; [exact Hidx|split; reflexivity].
  - destruct (reduce_pair_idx e i d P ctr p (Hnd p (or_introl eq_refl)) Hidx) as [H1 [H2 H3]].
    destruct (reduce_pair card (e, i) (d, ctr) p) as [d1 c1] eqn:Est. cbn [fst snd] in H1, H2, H3. subst c1.
    cbn [fst snd].
    destruct (IH d1 _ (Datatypes.S ctr) (fun q Hq => Hnd q (or_intror Hq)) H1) as [G1 [G2 G3]].
    split; [exact G1|]. split; [rewrite G2; exact H2|exact G3].
Qed.

(* one evidence variable *)
Lemma reduce_one_eq st ev :
  reduce_one card ord st ev =
  (ddel (fst (fold_left (reduce_pair card ev) (ord _ (dget (fst st) (fst ev))) st)) (fst ev),
   snd (fold_left (reduce_pair card ev) (ord _ (dget (fst st) (fst ev))) st)).
Proof. unfold reduce_one. destruct (fold_left (reduce_pair card ev) (ord _ (dget (fst st) (fst ev))) st); reflexivity. Qed.

Lemma reduce_one_idx e i d P ctr :
  Forall wf (map fst P) -> In e (map fst d) -> idx d P ->
  let st := reduce_one card ord (d, ctr) (e, i) in
  let pst := pool_reduce_one card ord (P, ctr) (e, i) in
  idx (fst st) (fst pst) /\ map fst (fst st) = filter (fun x => negb (Nat.eqb x e)) (map fst d) /\
  snd st = snd pst.
Proof.
  intros Hwf Hk Hidx. cbv zeta. rewrite reduce_one_eq. unfold pool_reduce_one. cbn [fst snd].
  assert (Hsnap : dget d e = filter (fun p => mentions e (fst p)) P).
  { apply (Hidx e Hk). discriminate. }
  rewrite Hsnap.
  assert (Hidx' : idx_ex d P (Some e)) by (intros w Hw _; apply Hidx; [exact Hw|discriminate]).
  destruct (reduce_pairs_idx e i (ord wpair (filter (fun p => mentions e (fst p)) P)) d P ctr) as [H1 [H2 H3]];
    [|exact Hidx'|].
  { intros p Hp. assert (HpP : In p P).
    { apply (Permutation_in _ (ord_perm _ _)) in Hp. apply filter_In in Hp. apply Hp. }
    rewrite Forall_forall in Hwf. exact (proj1 (Hwf (fst p) (in_map fst P p HpP))). }
  split; [|split; [rewrite keys_ddel; f_equal; exact H2|exact H3]].
  intros w Hw _. rewrite keys_ddel in Hw. apply filter_In in Hw. destruct Hw as [Hw Hne].
  apply negb_true_iff, Nat.eqb_neq in Hne.
  rewrite dget_ddel by exact Hne. apply H1; [exact Hw|intros E; inversion E; contradiction].
Qed.

(* ---- well-formedness is preserved by the pool steps ------------------------------------------------------ *)
Lemma wf_padd (p : wpair) X : wf (fst p) -> Forall wf (map fst X) -> Forall wf (map fst (padd p X)).
Proof.
  intros Hp HX. destruct (padd_cases card p X) as [[_ E]|[_ E]]; rewrite E; [exact HX|].
  unfold Model.wadd. destruct (wmem p X); [exact HX|]. rewrite map_app. apply Forall_app. split; [exact HX|].
  constructor; [exact Hp|constructor].
Qed.
Lemma wf_wremove (p : wpair) X : Forall wf (map fst X) -> Forall wf (map fst (wremove p X)).
Proof.
  intros H. rewrite Forall_forall in *. intros f Hf. apply in_map_iff in Hf. destruct Hf as [q [<- Hq]].
  apply filter_In in Hq. apply H. apply in_map. apply Hq.
Qed.
Lemma reduce_fold_wf (ev : var * nat) (S : list wpair) : forall P ctr,
  Forall wf (map fst P) -> (forall p, In p S -> wf (fst p)) ->
  Forall wf (map fst (fst (fold_left
     (fun (st : list wpair * nat) (p : wpair) =>
        (padd (fred [ev] (fst p), Some (snd st)) (wremove p (fst st)), Datatypes.S (snd st))) S (P, ctr)))).
Proof.
  induction S as [|p S IH]; intros P ctr Hwf HS; cbn [fold_left fst snd]; [exact Hwf|].
  apply IH; [|intros q Hq; apply HS; right; exact Hq].
  apply wf_padd; [cbn [fst]; apply wf_fred; apply HS; left; reflexivity|apply wf_wremove; exact Hwf].
Qed.
Lemma pool_reduce_one_wf P ctr ev : Forall wf (map fst P) ->
  Forall wf (map fst (fst (pool_reduce_one card ord (P, ctr) ev))).
Proof.
  intros Hwf. unfold pool_reduce_one. cbn [fst]. apply reduce_fold_wf; [exact Hwf|].
  intros p Hp. apply (Permutation_in _ (ord_perm _ _)) in Hp. apply filter_In in Hp.
  rewrite Forall_forall in Hwf. apply Hwf. apply in_map. apply Hp.
Qed.
Lemma elim_fs_wf P elim v : Forall wf (map fst P) ->
  Forall wf (map fst (filter (fun p => clean elim (fst p)) (ord wpair (filter (fun p => mentions v (fst p)) P)))).
Proof.
  intros Hwf. rewrite Forall_forall in *. intros f Hf. apply in_map_iff in Hf. destruct Hf as [q [<- Hq]].
  apply filter_In in Hq. destruct Hq as [Hq _]. apply (Permutation_in _ (ord_perm _ _)) in Hq.
  apply filter_In in Hq. apply Hwf. apply in_map. apply Hq.
Qed.
Lemma pool_elim_step_wf P elim v : Forall wf (map fst P) ->
  Forall wf (map fst (fst (pool_elim_step card ord (P, elim) v))).
Proof.
  intros Hwf. unfold pool_elim_step. cbn [fst]. apply wf_padd; [|exact Hwf]. cbn [fst].
  apply wf_fmarg. apply wf_factor_product. apply elim_fs_wf. exact Hwf.
Qed.

(* ---- initial dict ------------------------------------------------------------------------------------------ *)
Lemma dget_map (G : var -> list wpair) ns w : In w ns -> dget (map (fun v => (v, G v)) ns) w = G w.
Proof.
  induction ns as [|x ns IH]; intros H; [destruct H|]. simpl. destruct (Nat.eqb x w) eqn:E.
  - apply Nat.eqb_eq in E. subst. reflexivity.
  - apply IH. destruct H as [H|H]; [subst; rewrite Nat.eqb_refl in E; discriminate|exact H].
Qed.
Lemma init_fold w (L : list wpair) : forall acc accP, acc = filter (mw w) accP ->
  fold_left (fun s p => wadd p s) (filter (mw w) L) acc = filter (mw w) (fold_left (fun P p => padd p P) L accP).
Proof.
  induction L as [|p L IH]; intros acc accP H; [exact H|]. cbn [filter fold_left].
  destruct (mw w p) eqn:E.
  - cbn [fold_left]. apply IH. rewrite (filter_padd_in w p accP E). rewrite H. reflexivity.
  - apply IH. rewrite (filter_padd_out w p accP E). exact H.
Qed.
Lemma init_idx idbase b : idx (init_wf card idbase b) (pool_init card idbase b) /\
  map fst (init_wf card idbase b) = nodes (bn_g b).
Proof.
  split.
  - intros w Hw _. unfold init_wf in *. rewrite map_map in Hw. cbn [fst] in Hw. rewrite map_id in Hw.
    rewrite (dget_map _ _ w Hw). unfold pool_init. apply (init_fold w (cpd_pairs idbase b) [] []). reflexivity.
  - unfold init_wf. rewrite map_map. cbn [fst]. apply map_id.
Qed.

Lemma filter_notin_nil (l : list var) : l = filter (fun x => negb (memv x [])) l.
Proof. induction l as [|x l IH]; [reflexivity|]. simpl. f_equal. exact IH. Qed.
Lemma filter_notin_cons e es (l : list var) :
  filter (fun x => negb (memv x es)) (filter (fun x => negb (Nat.eqb x e)) l) =
  filter (fun x => negb (memv x (e :: es))) l.
Proof.
  induction l as [|x l IH]; [reflexivity|]. simpl. destruct (Nat.eqb x e) eqn:E; simpl.
  - exact IH.
  - destruct (memv x es); simpl; [exact IH|f_equal; exact IH].
Qed.

(* ---- the whole evidence phase ---------------------------------------------------------------------------------- *)
Lemma reduce_one_idx' st pst ev :
  Forall wf (map fst (fst pst)) -> In (fst ev) (map fst (fst st)) -> idx (fst st) (fst pst) -> snd st = snd pst ->
  idx (fst (reduce_one card ord st ev)) (fst (pool_reduce_one card ord pst ev)) /\
  map fst (fst (reduce_one card ord st ev)) = filter (fun x => negb (Nat.eqb x (fst ev))) (map fst (fst st)) /\
  snd (reduce_one card ord st ev) = snd (pool_reduce_one card ord pst ev).
Proof.
  destruct st as [d c], pst as [P c'], ev as [e i]. cbn [fst snd]. intros Hwf Hk Hidx E. subst c'.
  exact (reduce_one_idx e i d P c Hwf Hk Hidx).
Qed.
Lemma pool_reduce_one_wf' pst ev : Forall wf (map fst (fst pst)) ->
  Forall wf (map fst (fst (pool_reduce_one card ord pst ev))).
Proof. destruct pst as [P c]. apply pool_reduce_one_wf. Qed.

Lemma evidence_idx evs : forall (st : wdict * nat) (pst : list wpair * nat),
  Forall wf (map fst (fst pst)) -> idx (fst st) (fst pst) -> snd st = snd pst ->
  NoDup (map fst evs) -> (forall e, In e (map fst evs) -> In e (map fst (fst st))) ->
  idx (fst (fold_left (reduce_one card ord) evs st)) (fst (fold_left (pool_reduce_one card ord) evs pst)) /\
  Forall wf (map fst (fst (fold_left (pool_reduce_one card ord) evs pst))) /\
  map fst (fst (fold_left (reduce_one card ord) evs st)) =
    filter (fun x => negb (memv x (map fst evs))) (map fst (fst st)) /\
  snd (fold_left (reduce_one card ord) evs st) = snd (fold_left (pool_reduce_one card ord) evs pst).
Proof.
  induction evs as [|ev evs IH]; intros st pst Hwf Hidx Hc Hnd Hk; cbn [fold_left].
  - split; [exact Hidx|]. split; [exact Hwf|]. split; [|exact Hc]. cbn [map fst]. apply filter_notin_nil.
  - cbn [map] in Hnd, Hk. inversion Hnd as [|? ? He Hnd']; subst.
    destruct (reduce_one_idx' st pst ev Hwf (Hk (fst ev) (or_introl eq_refl)) Hidx Hc) as [H1 [H2 H3]].
    pose proof (pool_reduce_one_wf' pst ev Hwf) as Hwf1.
    destruct (IH _ _ Hwf1 H1 H3 Hnd') as [G1 [G2 [G3 G4]]].
    + intros x Hx. rewrite H2. apply filter_In. split; [apply Hk; right; exact Hx|].
      apply negb_true_iff, Nat.eqb_neq. intros E. subst. contradiction.
    + split; [exact G1|]. split; [exact G2|]. split; [|exact G4].
      rewrite G3, H2. cbn [map]. apply filter_notin_cons.
Qed.

(* ---- one elimination step, dict and pool in lockstep ----------------------------------------------------------- *)
Lemma elim_step_idx d P elim v :
  Forall wf (map fst P) -> In v (map fst d) -> idx d P ->
  let st := elim_step card ord (d, elim) v in
  let pst := pool_elim_step card ord (P, elim) v in
  idx (fst st) (fst pst) /\ map fst (fst st) = filter (fun x => negb (Nat.eqb x v)) (map fst d) /\
  snd st = snd pst.
Proof.
  intros Hwf Hk Hidx. cbv zeta. unfold elim_step, pool_elim_step. cbn [fst snd].
  assert (Hsnap : dget d v = filter (fun p => mentions v (fst p)) P) by (apply (Hidx v Hk); discriminate).
  rewrite Hsnap.
  set (fs := map fst (filter (fun p => clean elim (fst p)) (ord wpair (filter (fun p => mentions v (fst p)) P)))).
  set (phi := fmarg [v] (factor_product fs)). set (new := (phi, Some v)).
  assert (Hnd : NoDup (fvars phi)).
  { apply (proj1 (wf_fmarg R card [v] _ (wf_factor_product card fs (elim_fs_wf P elim v Hwf)))). }
  split; [|split; [rewrite keys_fold_dupd; apply keys_ddel|reflexivity]].
  intros w Hw _. rewrite keys_fold_dupd in Hw. pose proof Hw as Hw'. rewrite keys_ddel in Hw'.
  apply filter_In in Hw'. destruct Hw' as [Hwd Hne]. apply negb_true_iff, Nat.eqb_neq in Hne.
  rewrite (dget_fold_dupd (wadd new) (fvars phi) (ddel d v) w Hnd Hw).
  rewrite (dget_ddel d v w Hne). rewrite (Hidx w Hwd) by discriminate.
  change (memv w (fvars phi)) with (mw w new). destruct (mw w new) eqn:Em.
  - symmetry. apply filter_padd_in. exact Em.
  - symmetry. apply filter_padd_out. exact Em.
Qed.

Lemma elim_step_idx' st pst v :
  Forall wf (map fst (fst pst)) -> In v (map fst (fst st)) -> idx (fst st) (fst pst) -> snd st = snd pst ->
  idx (fst (elim_step card ord st v)) (fst (pool_elim_step card ord pst v)) /\
  map fst (fst (elim_step card ord st v)) = filter (fun x => negb (Nat.eqb x v)) (map fst (fst st)) /\
  snd (elim_step card ord st v) = snd (pool_elim_step card ord pst v).
Proof.
  destruct st as [d c], pst as [P c']. cbn [fst snd]. intros Hwf Hk Hidx E. subst c'.
  exact (elim_step_idx d P c v Hwf Hk Hidx).
Qed.
Lemma pool_elim_step_wf' pst v : Forall wf (map fst (fst pst)) ->
  Forall wf (map fst (fst (pool_elim_step card ord pst v))).
Proof. destruct pst as [P c]. apply pool_elim_step_wf. Qed.

Lemma elim_loop_idx order : forall (st : wdict * list var) (pst : list wpair * list var),
  Forall wf (map fst (fst pst)) -> idx (fst st) (fst pst) -> snd st = snd pst ->
  NoDup order -> (forall v, In v order -> In v (map fst (fst st))) ->
  idx (fst (fold_left (elim_step card ord) order st)) (fst (fold_left (pool_elim_step card ord) order pst)) /\
  Forall wf (map fst (fst (fold_left (pool_elim_step card ord) order pst))) /\
  map fst (fst (fold_left (elim_step card ord) order st)) =
    filter (fun x => negb (memv x order)) (map fst (fst st)) /\
  snd (fold_left (elim_step card ord) order st) = snd (fold_left (pool_elim_step card ord) order pst).
Proof.
  induction order as [|v order IH]; intros st pst Hwf Hidx Hc Hnd Hk; cbn [fold_left].
  - split; [exact Hidx|]. split; [exact Hwf|]. split; [|exact Hc]. apply filter_notin_nil.
  - inversion Hnd as [|? ? Hv Hnd']; subst.
    destruct (elim_step_idx' st pst v Hwf (Hk v (or_introl eq_refl)) Hidx Hc) as [H1 [H2 H3]].
    pose proof (pool_elim_step_wf' pst v Hwf) as Hwf1.
    destruct (IH _ _ Hwf1 H1 H3 Hnd') as [G1 [G2 [G3 G4]]].
    + intros x Hx. rewrite H2. apply filter_In. split; [apply Hk; right; exact Hx|].
      apply negb_true_iff, Nat.eqb_neq. intros E. subst. contradiction.
    + split; [exact G1|]. split; [exact G2|]. split; [|exact G4].
      rewrite G3, H2. apply filter_notin_cons.
Qed.
End I.
