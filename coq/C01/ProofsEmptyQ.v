(* C01 proofs, part 17: [query] with an EMPTY query list.  _prune_bayesian_model then takes every node as a query
   variable: every node is d-connected to itself or observed, so nothing is pruned - the pruned graph has the node and
   edge lists of the original one and every CPD is kept - and the answer is the posterior over no variable. *)
From Coq Require Import List Arith Lia PeanoNat Bool QArith Qcanon Permutation.
From PV Require Import Base.Semiring Base.Ravel Base.FinSum Base.RefFactor Base.VE Base.Graph Base.Reach
  C08.Model C08.Spec C08.ProofsTrail C08.ProofsMisc
  C01.Model C01.Spec C01.Proofs C01.ProofsElim C01.ProofsMisc C01.ProofsIdx C01.ProofsFinal C01.ProofsEvid
  C01.ProofsQuery C01.ProofsPost C01.ProofsPrune C01.ProofsGreedy C01.ProofsVirt C01.ProofsDsepAll C01.ProofsVevAll
  C01.ProofsOrderAll.
Import ListNotations.
Local Open Scope nat_scope.

Lemma filter_all' {A} (p : A -> bool) l : (forall x, In x l -> p x = true) -> filter p l = l.
Proof.
  induction l as [|x l IH]; intros H; [reflexivity|]. cbn [filter]. rewrite (H x (or_introl eq_refl)).
  f_equal. apply IH. intros y Hy. apply H. right. exact Hy.
Qed.

Section E.
Variable card : var -> nat.
Variable ord : forall A : Type, list A -> list A.
Variable idbase : nat.
Hypothesis Hord : forall A (l : list A), Permutation (ord A l) l.
Hypothesis Hc : forall v, 0 < card v.
Variable b : bn.
Variable ev : list (var * nat).
Hypothesis Hbn : valid_bn card b.
Hypothesis Hid : forall v, In v (nodes (bn_g b)) -> v < idbase.
Hypothesis Hev_nd : NoDup (map fst ev).
Hypothesis Hev_in : forall x, In x (map fst ev) -> In x (nodes (bn_g b)).
Hypothesis Hev_rng : forall e, In e ev -> snd e < card (fst e).
Hypothesis Hpe : pev card b [] ev [] <> 0%Qc.

Let g := bn_g b.
Let E := map fst ev.
Let dcon := flat_map (fun q => active_trail_nodes g q E) (nodes g) ++ E.
Let g1 := induced g dcon.
Let g2 := ancestral_graph g1 (nodes g ++ E).
Let keep := nodes g2.
Definition cpd0 (v : var) : fac :=
  let c := bn_cpd b v in
  let diff := filter (fun x => negb (memv x keep)) (fvars c) in
  match diff with [] => c | _ => cpd_marginalize card diff c end.
Definition b0 : bn := {| bn_g := g2; bn_cpd := cpd0 |}.

Lemma Hwf0 : wf_graph g. Proof. apply Hbn. Qed.

Lemma dcon_all v : In v (nodes g) -> In v dcon.
Proof.
  intros Hv. unfold dcon. apply in_or_app. destruct (in_dec Nat.eq_dec v E) as [H|H]; [right; exact H|left].
  apply in_flat_map. exists v. split; [exact Hv|]. apply (atn_reach g E v v Hwf0 Hv). split; [exact H|].
  exists Up. apply reach_src. left. reflexivity.
Qed.

Lemma prune_empty : prune card b [] ev = (b0, ev).
Proof.
  unfold prune. cbv zeta. fold g E dcon.
  assert (Hf : filter (fun e => memn (fst e) dcon) ev = ev).
  { apply filter_all'. intros e He. apply memn_In. unfold dcon. apply in_or_app. right. apply in_map. exact He. }
  rewrite Hf. reflexivity.
Qed.

Lemma nodes_g1 : nodes g1 = nodes g.
Proof. unfold g1, induced. cbn [nodes]. apply filter_all'. intros v Hv. apply memn_In. apply dcon_all. exact Hv. Qed.
Lemma edges_g1 : edges g1 = edges g.
Proof.
  unfold g1, induced. cbn [edges]. apply filter_all'. intros [u v] He. cbn [fst snd].
  destruct (proj2 Hwf0 u v He) as [Hu Hv]. apply andb_true_iff. split; apply memn_In; apply dcon_all; assumption.
Qed.
Lemma wf_g1 : wf_graph g1. Proof. apply wf_induced. exact Hwf0. Qed.
Lemma anc_all v : In v (nodes g) -> In v (anc_of g1 (nodes g ++ E)).
Proof. intros Hv. apply anc_of_self; [exact wf_g1|]. apply in_or_app. left. exact Hv. Qed.
Lemma nodes_g2 : nodes g2 = nodes g.
Proof.
  unfold g2, ancestral_graph, induced. cbn [nodes]. fold g1. rewrite nodes_g1. apply filter_all'.
  intros v Hv. apply memn_In. apply anc_all. exact Hv.
Qed.
Lemma edges_g2 : edges g2 = edges g.
Proof.
  unfold g2, ancestral_graph, induced. cbn [edges]. fold g1. rewrite edges_g1. apply filter_all'. intros [u v] He. cbn [fst snd].
  destruct (proj2 Hwf0 u v He) as [Hu Hv]. apply andb_true_iff. split; apply memn_In; apply anc_all; assumption.
Qed.
Lemma parents_g2 v : parents g2 v = parents g v.
Proof. unfold parents. rewrite edges_g2. reflexivity. Qed.

Lemma cpd0_same v : In v (nodes g) -> cpd0 v = bn_cpd b v.
Proof.
  intros Hv. unfold cpd0. cbv zeta. rewrite filter_none; [reflexivity|]. intros u Hu.
  apply negb_false_iff, memv_In. unfold keep. rewrite nodes_g2.
  destruct Hbn as [_ [_ Hcpd]]. destruct (Hcpd v Hv) as [_ [Hs _]]. apply Hs in Hu.
  destruct Hu as [->|Hu]; [exact Hv|]. apply In_parents in Hu. apply (proj2 Hwf0 u v Hu).
Qed.

Lemma valid_b0 : valid_bn card b0.
Proof.
  destruct Hbn as [[Hnd Hed] [Hac Hcpd]]. unfold valid_bn. cbn [b0 bn_g bn_cpd].
  split; [split|split].
  - rewrite nodes_g2. exact Hnd.
  - intros u v. rewrite edges_g2, nodes_g2. apply Hed.
  - intros u v He Hp. rewrite edges_g2 in He. apply (Hac u v He).
    apply (dpath_incl g g2 v u); [rewrite edges_g2; intros e H; exact H|exact Hp].
  - intros x Hx. rewrite nodes_g2 in Hx. rewrite (cpd0_same x Hx), parents_g2. apply Hcpd. exact Hx.
Qed.

Lemma unnorm_b0 Q a : unnorm card b0 Q ev [] a = unnorm card b Q ev [] a.
Proof.
  unfold unnorm, rest. cbn [b0 bn_g]. rewrite nodes_g2. apply (sum_over_ext_fun R). intros x.
  unfold wjoint, joint, cpd_factors. cbn [b0 bn_g bn_cpd]. rewrite nodes_g2. f_equal. unfold eval_prod. f_equal.
  rewrite !map_map. apply map_ext_in. intros v Hv. rewrite (cpd0_same v Hv). reflexivity.
Qed.
Lemma pev_b0 : pev card b0 [] ev [] = pev card b [] ev [].
Proof. unfold pev. cbn [sum_over map]. apply unnorm_b0. Qed.
Lemma posterior_b0 a : posterior card b0 [] ev [] a = posterior card b [] ev [] a.
Proof. unfold posterior. rewrite pev_b0, unnorm_b0. reflexivity. Qed.

(* the answer for an empty query list: the posterior over no variable (= 1 when P(e) <> 0) *)
Theorem query_empty_end_to_end (e : eo) :
  (e = EoGreedy \/ e = EoNone \/ (exists h, e = EoHeur h) \/
   exists l, e = EoList l /\ NoDup l /\ forall v, In v l <-> In v (rest b [] (map fst ev))) ->
  exists f, query card ord idbase b [] ev [] e true = inl [(0, f)] /\
            forall a, valid card a -> feval R card f a = posterior card b [] ev [] a.
Proof.
  intros He.
  assert (Hid0 : forall v, In v (nodes (bn_g b0)) -> v < idbase).
  { intros v Hv. cbn [b0 bn_g] in Hv. rewrite nodes_g2 in Hv. apply Hid. exact Hv. }
  assert (Hin0 : forall x, In x (map fst ev) -> In x (nodes (bn_g b0))).
  { intros x Hx. cbn [b0 bn_g]. rewrite nodes_g2. apply Hev_in. exact Hx. }
  assert (HQ0 : forall q, In q (@nil var) -> In q (nodes (bn_g b0)) /\ ~ In q (map fst ev)) by (intros q []).
  assert (Hpe0 : pev card b0 [] ev [] <> 0%Qc) by (rewrite pev_b0; exact Hpe).
  assert (Hve : forall order, Permutation order (rest b0 [] (map fst ev)) ->
            forall a, valid card a -> feval R card (ve_joint card ord idbase b0 ev order) a = posterior card b [] ev [] a).
  { intros order Hp a Ha. rewrite <- (posterior_b0 a).
    exact (ve_joint_is_posterior card ord Hord Hc idbase b0 [] ev order valid_b0 Hid0 Hev_nd Hin0 Hev_rng (NoDup_nil _) HQ0 Hp Hpe0 a Ha). }
  unfold query. cbn [virtual_model virtual_evidence fold_left]. rewrite prune_empty.
  destruct He as [->|[->|[[h ->]|[l [-> [Hl Hlr]]]]]].
  - eexists. split; [reflexivity|]. intros a Ha. rewrite <- (posterior_b0 a).
    exact (greedy_joint_is_posterior card Hc b0 [] ev valid_b0 (NoDup_nil _) Hpe0 a Ha).
  - cbn [resolve_order]. eexists. split; [reflexivity|]. apply Hve. unfold get_order_none. apply Hord.
  - cbn [resolve_order]. eexists. split; [reflexivity|]. apply Hve.
    unfold heuristic_order. fold (rest b0 [] (map fst ev)).
    assert (Hn : NoDup (rest b0 [] (map fst ev))) by (apply NoDup_filter; apply valid_b0).
    eapply Permutation_trans; [|apply Hord]. apply order_loop_perm.
    + eapply Permutation_NoDup; [apply Permutation_sym; apply Hord|exact Hn].
    + rewrite (Permutation_length (Hord _ (rest b0 [] (map fst ev)))). apply Nat.le_refl.
  - destruct (explicit_order_resolves b0 b [] (map fst ev) l Hl Hlr) as [order [Ho Hp]].
    + intros v Hv. cbn [b0 bn_g] in Hv. rewrite nodes_g2 in Hv. exact Hv.
    + apply valid_b0.
    + cbn [resolve_order]. rewrite Ho. eexists. split; [reflexivity|]. apply Hve. exact Hp.
Qed.
End E.

Example empty_query_nonvacuous :
  exists f, query ex_card (fun _ l => l) 4 ex_bn [] [(1, 0)] [] EoNone true = inl [(0, f)] /\
            Qc_eq_bool (feval R ex_card f (fun _ => 0)) 1%Qc = true /\
            Qc_eq_bool (posterior ex_card ex_bn [] [(1, 0)] [] (fun _ => 0)) 1%Qc = true.
Proof. eexists. split; [reflexivity|]. split; vm_compute; reflexivity. Qed.
