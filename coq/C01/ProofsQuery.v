(* C01 proofs, part 7: assembling the literal query. *)
From Coq Require Import List Arith Lia PeanoNat Bool QArith Qcanon Permutation FinFun.
From PV Require Import Base.Semiring Base.Ravel Base.FinSum Base.RefFactor Base.VE Base.Graph
  C01.Model C01.Spec C01.Proofs C01.ProofsElim C01.ProofsMisc C01.ProofsIdx C01.ProofsFinal C01.ProofsEvid.
Import ListNotations.
Local Open Scope nat_scope.

Section Q.
Variable card : var -> nat.
Variable ord : forall A : Type, list A -> list A.
Hypothesis ord_perm : forall A (l : list A), Permutation (ord A l) l.

Notation feval := (feval R card).
Notation wf := (wf R card).
Notation valid := (valid card).
Notation eval_prod := (eval_prod R card).
Notation fmarg := (fmarg R card).
Notation factor_product := (factor_product card).
Notation padd := (padd card).

(* ---- tags stay above a lower bound ------------------------------------------------------------------------- *)
Definition tags_above (lo : nat) (P : list wpair) : Prop := forall q, In q P -> exists t, snd q = Some t /\ lo <= t.

Lemma In_padd x p X : In x (padd p X) -> In x X \/ x = p.
Proof.
  destruct (padd_cases card p X) as [[_ E]|[_ E]]; rewrite E; [left; assumption|]. apply wadd_In.
Qed.
Lemma istep_above lo e i S : forall st, tags_above lo (fst st) -> lo <= snd st ->
  tags_above lo (fst (fold_left (istep card e i) S st)) /\ lo <= snd (fold_left (istep card e i) S st).
Proof.
  induction S as [|p S IH]; intros st Ht Hl; cbn [fold_left]; [split; assumption|].
  apply IH; unfold istep; cbn [fst snd]; [|lia].
  intros q Hq. apply In_padd in Hq. destruct Hq as [Hq| ->].
  - apply filter_In in Hq. apply Ht. apply Hq.
  - exists (snd st). split; [reflexivity|exact Hl].
Qed.
Lemma evidence_above lo evs : forall st, tags_above lo (fst st) -> lo <= snd st ->
  tags_above lo (fst (fold_left (pool_reduce_one card ord) evs st)).
Proof.
  induction evs as [|[e i] evs IH]; intros st Ht Hl; cbn [fold_left]; [exact Ht|].
  change (pool_reduce_one card ord st (e, i)) with
    (fold_left (istep card e i) (ord wpair (filter (fun p => mentions e (fst p)) (fst st))) st).
  destruct (istep_above lo e i (ord wpair (filter (fun p => mentions e (fst p)) (fst st))) st Ht Hl) as [H1 H2].
  apply IH; assumption.
Qed.

(* ---- structure is preserved by the elimination loop ------------------------------------------------------------ *)
Lemma pool_elim_step_struct P elim v K :
  Forall wf (map fst P) -> od P -> scoped P K -> (forall q, In q P -> snd q <> Some v) ->
  od (fst (pool_elim_step card ord (P, elim) v)) /\ scoped (fst (pool_elim_step card ord (P, elim) v)) K.
Proof.
  intros Hwf Hod Hsc Hfr.
  set (fs := map fst (filter (fun p => clean elim (fst p)) (ord wpair (filter (fun p => mentions v (fst p)) P)))).
  set (phi := fmarg [v] (factor_product fs)).
  change (fst (pool_elim_step card ord (P, elim) v)) with (padd (phi, Some v) P).
  destruct (padd_fresh card (phi, Some v) P Hfr) as [[_ E]|[Hne E]]; rewrite E; [split; assumption|].
  split; [apply od_snoc; [exact Hod|exact Hfr]|].
  intros q Hq. apply in_app_or in Hq. destruct Hq as [Hq|[<-|[]]]; [apply Hsc; exact Hq|].
  cbn [fst] in *. split; [exact Hne|]. intros x Hx. unfold phi in Hx. rewrite fvars_fmarg in Hx.
  apply In_vminus in Hx. destruct Hx as [Hx _]. apply In_fvars_factor_product in Hx. destruct Hx as [f [Hf Hxf]].
  unfold fs in Hf. apply in_map_iff in Hf. destruct Hf as [p [<- Hp]]. apply filter_In in Hp. destruct Hp as [Hp _].
  apply (Permutation_in _ (ord_perm _ _)) in Hp. apply filter_In in Hp. apply (proj2 (Hsc p (proj1 Hp))). exact Hxf.
Qed.

Lemma pool_elim_loop_struct K order : forall (st : list wpair * list var),
  Forall wf (map fst (fst st)) -> od (fst st) -> scoped (fst st) K -> NoDup order ->
  (forall v, In v order -> forall q, In q (fst st) -> snd q <> Some v) ->
  (forall v, In v order -> occurs R v (live (snd st) (fst st))) ->
  let st' := fold_left (pool_elim_step card ord) order st in
  od (fst st') /\ scoped (fst st') K /\
  (forall w, ~ In w order -> occurs R w (live (snd st) (fst st)) -> occurs R w (live (snd st') (fst st'))).
Proof.
  induction order as [|v order IH]; intros [P elim] Hwf Hod Hsc Hnd Hfr Hocc; cbv zeta; cbn [fold_left].
  - split; [exact Hod|]. split; [exact Hsc|]. intros w _ H. exact H.
  - cbn [fst snd] in *. inversion Hnd as [|? ? Hv Hnd']; subst.
    destruct (pool_elim_step_spec card ord ord_perm P elim v Hwf (Hfr v (or_introl eq_refl)) (Hocc v (or_introl eq_refl)))
      as [He [Hwf1 [Hor1 [Hocc1 _]]]].
    destruct (pool_elim_step_struct P elim v K Hwf Hod Hsc (Hfr v (or_introl eq_refl))) as [Hod1 Hsc1].
    destruct (IH (pool_elim_step card ord (P, elim) v) Hwf1 Hod1 Hsc1 Hnd') as [G1 [G2 G3]].
    + intros w Hw q Hq. destruct (Hor1 q Hq) as [HqP|Hqv].
      * apply Hfr; [right; exact Hw|exact HqP].
      * intros E. apply Hv. pose proof (eq_trans (eq_sym Hqv) E) as E'. inversion E'. subst. exact Hw.
    + intros w Hw. assert (H : occurs R w (live (v :: elim) (fst (pool_elim_step card ord (P, elim) v))))
        by (apply Hocc1; [intros E; subst; contradiction|apply Hocc; right; exact Hw]).
      rewrite <- He in H. exact H.
    + split; [exact G1|]. split; [exact G2|]. intros w Hw Hoc. apply G3; [intros H; apply Hw; right; exact H|].
      assert (H : occurs R w (live (v :: elim) (fst (pool_elim_step card ord (P, elim) v))))
        by (apply Hocc1; [intros E; apply Hw; left; symmetry; exact E|exact Hoc]).
      rewrite <- He in H. exact H.
Qed.

(* ---- the initial pool ----------------------------------------------------------------------------------------------- *)
Variable idbase : nat.

Lemma combine_seq {A} (ns : list A) : forall k,
  map fst (combine (seq k (length ns)) ns) = seq k (length ns) /\ map snd (combine (seq k (length ns)) ns) = ns.
Proof.
  induction ns as [|x ns IH]; intros k; simpl; [split; reflexivity|]. destruct (IH (S k)) as [H1 H2].
  split; f_equal; assumption.
Qed.
Lemma cpd_pairs_fst b : map fst (cpd_pairs idbase b) = cpd_factors b.
Proof.
  unfold cpd_pairs, cpd_factors. rewrite map_map. cbn [fst].
  transitivity (map (bn_cpd b) (map snd (combine (seq 0 (length (nodes (bn_g b)))) (nodes (bn_g b))))).
  - rewrite map_map. reflexivity.
  - rewrite (proj2 (combine_seq (nodes (bn_g b)) 0)). reflexivity.
Qed.
Lemma cpd_pairs_snd b :
  map snd (cpd_pairs idbase b) = map (fun i => Some (idbase + i)) (seq 0 (length (nodes (bn_g b)))).
Proof.
  unfold cpd_pairs. rewrite map_map. cbn [snd].
  transitivity (map (fun i => Some (idbase + i)) (map fst (combine (seq 0 (length (nodes (bn_g b)))) (nodes (bn_g b))))).
  - rewrite map_map. reflexivity.
  - rewrite (proj1 (combine_seq (nodes (bn_g b)) 0)). reflexivity.
Qed.
Lemma cpd_pairs_od b : od (cpd_pairs idbase b).
Proof.
  unfold od. rewrite cpd_pairs_snd. apply Injective_map_NoDup; [|apply seq_NoDup].
  intros x y H. inversion H. lia.
Qed.
Lemma cpd_pairs_tags b q : In q (cpd_pairs idbase b) ->
  exists t, snd q = Some t /\ idbase <= t /\ t < idbase + length (nodes (bn_g b)).
Proof.
  intros H. unfold cpd_pairs in H. apply in_map_iff in H. destruct H as [[i x] [<- Hix]]. cbn [fst snd].
  apply in_combine_l in Hix. apply in_seq in Hix. exists (idbase + i). split; [reflexivity|lia].
Qed.
Lemma cpd_pairs_elem b q : In q (cpd_pairs idbase b) -> exists x, In x (nodes (bn_g b)) /\ fst q = bn_cpd b x.
Proof.
  intros H. unfold cpd_pairs in H. apply in_map_iff in H. destruct H as [[i x] [<- Hix]]. cbn [fst snd].
  apply in_combine_r in Hix. exists x. split; [exact Hix|reflexivity].
Qed.

Lemma pool_fold_eq (L : list wpair) : forall acc, od (acc ++ L) -> (forall p, In p L -> fvars (fst p) <> []) ->
  fold_left (fun P p => padd p P) L acc = acc ++ L.
Proof.
  induction L as [|p L IH]; intros acc Hod Hne; cbn [fold_left]; [symmetry; apply app_nil_r|].
  assert (Hfr : forall q, In q acc -> snd q <> snd p).
  { intros q Hq E. unfold od in Hod. rewrite map_app in Hod. cbn [map] in Hod.
    apply NoDup_remove_2 in Hod. apply Hod. apply in_or_app. left. rewrite <- E. apply in_map. exact Hq. }
  destruct (padd_fresh card p acc Hfr) as [[He _]|[_ E]]; [exfalso; apply (Hne p (or_introl eq_refl)); exact He|].
  rewrite E. rewrite IH.
  - rewrite <- app_assoc. reflexivity.
  - rewrite <- app_assoc. exact Hod.
  - intros q Hq. apply Hne. right. exact Hq.
Qed.

Lemma upds_upd_comm a ev v i : ~ In v (map fst ev) -> aeq (upds (upd a v i) ev) (upd (upds a ev) v i).
Proof.
  induction ev as [|[w j] ev IH]; intros Hn; [apply aeq_refl|]. cbn [upds]. cbn [map fst] in Hn.
  eapply aeq_trans; [apply upd_aeq; apply IH; intros H; apply Hn; right; exact H|].
  apply upd_comm. intros E. apply Hn. left. symmetry. exact E.
Qed.
Lemma sum_over_upds (g : asg -> R) ev vs : forall a, ext g -> (forall v, In v vs -> ~ In v (map fst ev)) ->
  sum_over vs (map card vs) (fun y => g (upds y ev)) a = sum_over vs (map card vs) g (upds a ev).
Proof.
  induction vs as [|v vs IH]; intros a Hg Hd; [reflexivity|]. cbn [map sum_over].
  apply sum_list_ext. intros i _. rewrite IH; [|exact Hg|intros w Hw; apply Hd; right; exact Hw].
  apply sum_over_aeq; [exact Hg|]. apply upds_upd_comm. apply Hd. left. reflexivity.
Qed.

Lemma final_pairs_perm' (st : wdict * list var) P :
  idx (fst st) P -> NoDup (map fst (fst st)) -> NoDup (map snd P) ->
  (forall p, In p P -> clean (snd st) (fst p) = true -> exists w, In w (map fst (fst st)) /\ mw w p = true) ->
  Permutation (final_pairs card ord st) (filter (fun p => clean (snd st) (fst p)) P).
Proof. destruct st as [d e]. apply final_pairs_perm. exact ord_perm. Qed.

(* ---- the literal classic path, up to normalisation ---------------------------------------------------------------- *)
Section Spec.
Variable b : bn.
Variable ev : list (var * nat).
Variable order : list var.
Hypothesis Hbn : valid_bn card b.
Hypothesis Hid : forall v, In v (nodes (bn_g b)) -> v < idbase.
Hypothesis Hev_nd : NoDup (map fst ev).
Hypothesis Hev_in : forall e, In e (map fst ev) -> In e (nodes (bn_g b)).
Hypothesis Hev_rng : forall e, In e ev -> snd e < card (fst e).
Hypothesis Hord_nd : NoDup order.
Hypothesis Hord_in : forall v, In v order -> In v (nodes (bn_g b)) /\ ~ In v (map fst ev).

Definition kept (x : var) : Prop := In x (nodes (bn_g b)) /\ ~ In x (map fst ev) /\ ~ In x order.

Theorem ve_final_spec :
  let F := ve_final card ord idbase b ev order in
  Forall wf F /\
  (forall x, (exists f, In f F /\ In x (fvars f)) <-> kept x) /\
  exists k : Qc, forall a, valid a ->
    (k * eval_prod F a)%Qc = @sum_over R order (map card order) (fun y => joint card b (upds y ev)) a.
Proof.
  cbv zeta. destruct Hbn as [[Hgnd Hged] [_ Hcpd]].
  set (ns := nodes (bn_g b)) in *. set (c0 := idbase + length ns).
  (* initial pool *)
  assert (Hne0 : forall p, In p (cpd_pairs idbase b) -> fvars (fst p) <> []).
  { intros p Hp. destruct (cpd_pairs_elem b p Hp) as [x [Hx E]]. rewrite E.
    destruct (Hcpd x Hx) as [_ [Hsc _]]. intros E0.
    assert (Hin : In x (fvars (bn_cpd b x))) by (apply Hsc; left; reflexivity). rewrite E0 in Hin. destruct Hin. }
  assert (EP0 : pool_init card idbase b = cpd_pairs idbase b).
  { unfold pool_init. apply (pool_fold_eq (cpd_pairs idbase b) []); [apply cpd_pairs_od|exact Hne0]. }
  assert (Hwf0 : Forall wf (map fst (pool_init card idbase b))).
  { rewrite EP0, cpd_pairs_fst. apply Forall_forall. intros f Hf. unfold cpd_factors in Hf.
    apply in_map_iff in Hf. destruct Hf as [x [<- Hx]]. apply (Hcpd x Hx). }
  assert (Hod0 : od (pool_init card idbase b)) by (rewrite EP0; apply cpd_pairs_od).
  assert (Htag0 : tags_below (pool_init card idbase b) c0).
  { rewrite EP0. intros q Hq. destruct (cpd_pairs_tags b q Hq) as [t [Et [_ Hl]]]. exists t. split; assumption. }
  assert (Habove0 : tags_above idbase (pool_init card idbase b)).
  { rewrite EP0. intros q Hq. destruct (cpd_pairs_tags b q Hq) as [t [Et [Hl _]]]. exists t. split; assumption. }
  assert (Hsc0 : scoped (pool_init card idbase b) ns).
  { rewrite EP0. intros q Hq. split; [apply Hne0; exact Hq|]. destruct (cpd_pairs_elem b q Hq) as [x [Hx E]].
    rewrite E. intros v Hv. apply (proj1 (proj2 (Hcpd x Hx))) in Hv. destruct Hv as [->|Hv]; [exact Hx|].
    apply In_parents in Hv. apply (Hged _ _ Hv). }
  assert (Hocc0 : forall x, In x ns -> occurs R x (map fst (pool_init card idbase b))).
  { intros x Hx. rewrite EP0, cpd_pairs_fst. exists (bn_cpd b x). split; [apply in_map; exact Hx|].
    apply (proj1 (proj2 (Hcpd x Hx))). left. reflexivity. }
  assert (Hev0 : forall a, valid a ->
            (1 * eval_prod (map fst (fst (pool_init card idbase b, c0))) a)%Qc = joint card b (upds a [])).
  { intros a _. cbn [fst upds]. rewrite EP0, cpd_pairs_fst. apply Qcmult_1_l. }
  (* evidence phase on the pool *)
  destruct (evidence_spec card ord ord_perm (joint card b) ev (pool_init card idbase b, c0) [] ns 1%Qc
              Hev_rng Hwf0 Hod0 Htag0 Hsc0 Hev0) as [Hwf1 [Hod1 [_ [Hsc1 [Hocc1 [c1 Hev1]]]]]].
  pose proof (evidence_above idbase ev (pool_init card idbase b, c0) Habove0 (Nat.le_add_r _ _)) as Habove1.
  (* ... and on the dict *)
  destruct (init_idx card idbase b) as [Hidx0 Hkeys0].
  destruct (evidence_idx card ord ord_perm ev (init_wf card idbase b, c0) (pool_init card idbase b, c0)
              Hwf0 Hidx0 eq_refl Hev_nd) as [Hidx1 [_ [Hkeys1 _]]].
  { intros e He. cbn [fst]. rewrite Hkeys0. apply Hev_in. exact He. }
  cbn [fst app] in *.
  set (pst1 := fold_left (pool_reduce_one card ord) ev (pool_init card idbase b, c0)) in *.
  set (K0 := filter (fun x => negb (memv x (map fst ev))) ns) in *.
  assert (HK0 : forall x, In x K0 <-> In x ns /\ ~ In x (map fst ev)).
  { intros x. unfold K0. rewrite filter_In, negb_true_iff, memv_false. reflexivity. }
  assert (Hfresh : forall v, In v order -> forall q, In q (fst pst1) -> snd q <> Some v).
  { intros v Hv q Hq E. destruct (Habove1 q Hq) as [t [Et Hl]]. rewrite Et in E. inversion E. subst t.
    pose proof (Hid v (proj1 (Hord_in v Hv))). lia. }
  assert (Hocc_ord : forall v, In v order -> occurs R v (map fst (fst pst1))).
  { intros v Hv. destruct (Hord_in v Hv) as [H1 H2]. apply Hocc1; [exact H2|apply Hocc0; exact H1]. }
  (* elimination *)
  assert (Hkeys_w : map fst (working_factors card ord idbase b ev) = K0).
  { rewrite Hkeys0 in Hkeys1. exact Hkeys1. }
  destruct (elim_loop_idx card ord ord_perm order (working_factors card ord idbase b ev, []) (fst pst1, [])
              Hwf1 Hidx1 eq_refl Hord_nd) as [Hidx2 [Hwf2 [Hkeys2 Helim2]]].
  { intros v Hv. cbn [fst]. rewrite Hkeys_w. apply HK0. apply Hord_in. exact Hv. }
  destruct (pool_elim_loop_sum card ord ord_perm order (fst pst1) [] Hwf1 Hord_nd Hfresh) as [He3 [_ [k1 Hk1]]].
  { intros v Hv. rewrite live_nil. apply Hocc_ord. exact Hv. }
  destruct (pool_elim_loop_struct K0 order (fst pst1, []) Hwf1 Hod1 Hsc1 Hord_nd Hfresh) as [Hod3 [Hsc3 Hocc3]].
  { intros v Hv. cbn [fst snd]. rewrite live_nil. apply Hocc_ord. exact Hv. }
  cbn [fst snd] in *.
  set (dst := fold_left (elim_step card ord) order (working_factors card ord idbase b ev, [])) in *.
  set (pst := fold_left (pool_elim_step card ord) order (fst pst1, [])) in *.
  assert (He3' : snd pst = rev order ++ []) by exact He3.
  assert (Helim2' : snd dst = snd pst) by exact Helim2.
  assert (Hkeys2' : map fst (fst dst) =
            filter (fun x => negb (memv x order)) (map fst (working_factors card ord idbase b ev))) by exact Hkeys2.
  assert (Hk1' : forall a, valid a -> (k1 * eval_prod (live (snd pst) (fst pst)) a)%Qc =
            @sum_over R order (map card order) (eval_prod (live [] (fst pst1))) a) by exact Hk1.
  clear He3 Helim2 Hkeys2 Hk1. rename He3' into He3, Helim2' into Helim2, Hkeys2' into Hkeys2, Hk1' into Hk1.
  assert (Hkeys_fin : forall x, In x (map fst (fst dst)) <-> kept x).
  { intros x. rewrite Hkeys2, Hkeys_w, filter_In, negb_true_iff, memv_false, HK0. unfold kept. tauto. }
  (* final collection *)
  assert (Hperm : Permutation (final_pairs card ord dst) (filter (fun p => clean (snd dst) (fst p)) (fst pst))).
  { apply final_pairs_perm'; [exact Hidx2| |exact Hod3|].
    - rewrite Hkeys2, Hkeys_w. apply NoDup_filter. apply NoDup_filter. exact Hgnd.
    - intros p Hp Hc. destruct (Hsc3 p Hp) as [Hne Hin].
      destruct (fvars (fst p)) as [|x xs] eqn:Efv; [contradiction|]. exists x.
      assert (Hx : In x (fvars (fst p))) by (rewrite Efv; left; reflexivity).
      split; [|unfold mw, mentions; apply memv_In; exact Hx].
      apply Hkeys_fin. destruct (proj1 (HK0 x) (Hin x (or_introl eq_refl))) as [H1 H2].
      split; [exact H1|]. split; [exact H2|]. intros Ho.
      apply (proj1 (clean_spec (snd dst) (fst p)) Hc x Hx). rewrite Helim2, He3. apply in_or_app. left.
      apply in_rev in Ho. exact Ho. }
  assert (HF : Permutation (ve_final card ord idbase b ev order) (live (snd pst) (fst pst))).
  { unfold ve_final, final_factors. change (elim_loop card ord (working_factors card ord idbase b ev) order) with dst.
    unfold live. rewrite <- (map_fst_filter (clean (snd pst))). rewrite <- Helim2. apply Permutation_map.
    eapply Permutation_trans; [apply ord_perm|exact Hperm]. }
  assert (HinF : forall f, In f (ve_final card ord idbase b ev order) <-> In f (live (snd pst) (fst pst))).
  { intros f. split; intros H; eapply Permutation_in; try eassumption. apply Permutation_sym. exact HF. }
  split.
  { apply Forall_forall. intros f Hf. apply HinF in Hf. unfold live in Hf. apply filter_In in Hf.
    rewrite Forall_forall in Hwf2. apply Hwf2. apply Hf. }
  split.
  { intros x. split.
    - intros [f [Hf Hx]]. apply HinF in Hf. unfold live in Hf. apply filter_In in Hf. destruct Hf as [Hf Hc].
      apply in_map_iff in Hf. destruct Hf as [p [<- Hp]].
      destruct (proj1 (HK0 x) (proj2 (Hsc3 p Hp) x Hx)) as [H1 H2]. split; [exact H1|]. split; [exact H2|].
      intros Ho. apply (proj1 (clean_spec (snd pst) (fst p)) Hc x Hx). rewrite He3. apply in_or_app. left.
      apply in_rev in Ho. exact Ho.
    - intros [H1 [H2 H3]]. destruct (Hocc3 x H3) as [f [Hf Hx]].
      + rewrite live_nil. apply Hocc1; [exact H2|apply Hocc0; exact H1].
      + exists f. split; [apply HinF; exact Hf|exact Hx]. }
  exists (c1 * k1)%Qc. intros a Ha.
  rewrite (eval_prod_perm card _ _ a HF).
  rewrite qc_assoc. rewrite (Hk1 a Ha). rewrite live_nil.
  etransitivity; [symmetry; apply (const_into_sum card order c1 (eval_prod (map fst (fst pst1))) a)|].
  apply (sum_over_ext_valid R card order _ _ a Ha). intros y Hy. apply Hev1. exact Hy.
Qed.
End Spec.
End Q.
