(* C01 proofs, part 11: virtual evidence.  Adding, for a likelihood vector v on X, a binary child __X with CPD
   rows (v, 1 - v) observed at state 0, is the same as weighting the joint by v[X] (soft evidence). *)
From Coq Require Import List Arith Lia PeanoNat Bool QArith Qcanon Permutation.
From PV Require Import Base.Semiring Base.Ravel Base.FinSum Base.RefFactor Base.VE Base.Graph
  C01.Model C01.Spec C01.Proofs C01.ProofsElim C01.ProofsMisc C01.ProofsIdx C01.ProofsFinal C01.ProofsEvid
  C01.ProofsQuery C01.ProofsPost C01.ProofsPrune.
Import ListNotations.
Local Open Scope nat_scope.

Lemma qc_v (u1 u2 u3 : Qc) : ((u1 * (u2 * 1)) * u3 = u1 * (u2 * u3))%Qc.
Proof. ring. Qed.

Section V.
Variable card : var -> nat.
Notation feval := (feval R card).
Notation valid := (valid card).
Notation eval_prod := (eval_prod R card).

Lemma feval_virt nv x vals (z : asg) : card nv = 2 -> length vals = card x -> z nv = 0 -> z x < card x ->
  feval (virt_cpd nv x vals) z = nth (z x) vals 0%Qc.
Proof.
  intros Hc Hl Hz Hx. unfold RefFactor.feval, virt_cpd, fcard, t_get. cbn [fvars fvals map ravel prod fold_right].
  rewrite Hz. rewrite Nat.mul_0_l, Nat.add_0_l, Nat.mul_1_r, Nat.add_0_r.
  apply app_nth1. rewrite Hl. exact Hx.
Qed.

Lemma weight_ext W : @ext R (weight W).
Proof. intros x y H. unfold weight. f_equal. apply map_ext. intros t. rewrite (H (fst t)). reflexivity. Qed.
Lemma wjoint_ext b W : @ext R (wjoint card b W).
Proof. intros x y H. unfold wjoint. f_equal; [apply (eval_prod_ext R card (cpd_factors b)); exact H|apply weight_ext; exact H]. Qed.

(* summing a function that ignores v, over variables other than v, still ignores v *)
Lemma sum_over_ignores_other (g : asg -> R) vs v i a : ext g -> ignores g v -> ~ In v vs ->
  sum_over vs (map card vs) g (upd a v i) = sum_over vs (map card vs) g a.
Proof.
  intros Hg Hi Hn. change (upd a v i) with (upds a [(v, i)]).
  rewrite <- (sum_over_upds card g [(v, i)] vs a Hg) by (intros w Hw [E|[]]; simpl in E; subst; contradiction).
  apply (sum_over_ext_fun R). intros y. cbn [upds]. apply Hi.
Qed.

(* all that is needed of the network here: CPD scopes stay inside the node list *)
Definition scoped_bn (b : bn) : Prop :=
  NoDup (nodes (bn_g b)) /\ forall v, In v (nodes (bn_g b)) -> forall u, In u (fvars (bn_cpd b v)) -> In u (nodes (bn_g b)).
Lemma valid_scoped b : valid_bn card b -> scoped_bn b.
Proof.
  intros [[Hgnd Hged] [_ Hcpd]]. split; [exact Hgnd|]. intros v Hv u Hu.
  apply (proj1 (proj2 (Hcpd v Hv))) in Hu. destruct Hu as [->|Hu]; [exact Hv|]. apply In_parents in Hu. apply (Hged _ _ Hu).
Qed.

(* one virtual evidence *)
Theorem add_virtual_unnorm (b : bn) (Q : list var) (ev : list (var * nat)) (W : list (var * list Qc))
  (x nv : var) (vals : list Qc) a :
  scoped_bn b -> In x (nodes (bn_g b)) -> ~ In nv (nodes (bn_g b)) -> ~ In nv (map fst ev) ->
  (forall t, In t W -> fst t <> nv) ->
  card nv = 2 -> length vals = card x ->
  (forall e, In e ev -> snd e < card (fst e)) -> valid a ->
  unnorm card (add_virtual b (x, nv, vals)) Q (ev ++ [(nv, 0)]) W a = unnorm card b Q ev ((x, vals) :: W) a.
Proof.
  intros Hbn Hx Hnv HnvE HW Hc Hl Hrng Ha. destruct Hbn as [Hgnd Hsc].
  set (ns := nodes (bn_g b)) in *. set (b' := add_virtual b (x, nv, vals)).
  assert (Hxnv : x <> nv) by (intros E; subst; contradiction).
  assert (Hns' : nodes (bn_g b') = ns ++ [nv]).
  { unfold b', add_virtual. cbn [bn_g nodes]. fold ns.
    assert (Hm : memn nv ns = false) by (apply memn_false; exact Hnv). rewrite Hm. reflexivity. }
  assert (Hcpd' : cpd_factors b' = cpd_factors b ++ [virt_cpd nv x vals]).
  { unfold cpd_factors. rewrite Hns'. rewrite map_app. cbn [map]. unfold b', add_virtual. cbn [bn_cpd].
    rewrite Nat.eqb_refl. f_equal. apply map_ext_in. intros v Hv. fold ns in Hv.
    destruct (Nat.eqb v nv) eqn:E; [apply Nat.eqb_eq in E; subst; contradiction|reflexivity]. }
  assert (Hrest : rest b' Q (map fst (ev ++ [(nv, 0)])) = rest b Q (map fst ev)).
  { unfold rest. rewrite Hns'. fold ns. rewrite filter_app. cbn [filter]. rewrite map_app. cbn [map fst].
    assert (Hm : memv nv (map fst ev ++ [nv]) = true) by (apply memv_In; apply in_or_app; right; left; reflexivity).
    rewrite Hm, andb_false_r. rewrite app_nil_r. apply filter_ext_in. intros v Hv. f_equal. f_equal.
    apply eq_true_iff_eq. rewrite !memv_In, in_app_iff. split; [intros [H|[H|[]]]; [exact H|subst; contradiction]|auto]. }
  set (r := rest b Q (map fst ev)) in *.
  assert (Hr : forall v, In v r -> In v ns /\ ~ In v (map fst ev)).
  { intros v Hv. unfold r, rest in Hv. apply filter_In in Hv. destruct Hv as [H1 H2].
    apply andb_true_iff in H2. destruct H2 as [_ H2]. apply negb_true_iff, memv_false in H2. split; assumption. }
  assert (Hnvr : ~ In nv r) by (intros H; apply Hnv; apply (Hr nv H)).
  set (G := wjoint card b' W : asg -> R). set (H := wjoint card b ((x, vals) :: W) : asg -> R).
  assert (HGH : forall z, valid z -> z nv = 0 -> G z = H z).
  { intros z Hz Hz0. unfold G, H, wjoint, joint. rewrite Hcpd', eval_prod_app, eval_prod_cons.
    rewrite (feval_virt nv x vals z Hc Hl Hz0 (Hz x)). unfold weight. cbn [map prod_list fold_right fst snd].
    unfold RefFactor.eval_prod at 2. cbn [map prod_list fold_right].
    apply qc_v. }
  assert (HHign : @ignores R H nv).
  { intros z i. unfold H, wjoint. f_equal.
    - apply (eval_prod_ignores R card (cpd_factors b) nv). intros f Hf Hin. unfold cpd_factors in Hf.
      apply in_map_iff in Hf. destruct Hf as [v [<- Hv]]. apply Hnv. apply (Hsc v Hv nv Hin).
    - unfold weight. f_equal. apply map_ext_in. intros t Ht. unfold upd.
      assert (Hne : fst t <> nv) by (destruct Ht as [<-|Ht]; [exact Hxnv|apply HW; exact Ht]).
      apply Nat.eqb_neq in Hne. rewrite Hne. reflexivity. }
  unfold unnorm. rewrite Hrest. fold r. fold G. fold H.
  rewrite upds_snoc.
  set (s0 := upds (upd a nv 0) ev).
  assert (Hs0 : valid s0) by (apply valid_upds; [apply valid_upd; [exact Ha|rewrite Hc; lia]|exact Hrng]).
  assert (Hs0nv : s0 nv = 0).
  { unfold s0. rewrite upds_other by exact HnvE. apply upd_same. }
  (* G may be evaluated at nv := 0 *)
  transitivity (sum_over r (map card r) (fun z => G (upds z [(nv, 0)])) s0).
  { rewrite (sum_over_upds card G [(nv, 0)] r s0 (wjoint_ext b' W)) by (intros v Hv [E|[]]; simpl in E; subst; contradiction).
    apply (sum_over_aeq R r (map card r) G); [apply wjoint_ext|]. cbn [upds]. intros v. unfold upd.
    destruct (Nat.eqb v nv) eqn:E; [apply Nat.eqb_eq in E; subst; exact Hs0nv|reflexivity]. }
  transitivity (sum_over r (map card r) H s0).
  { apply (sum_over_ext_valid R card r _ _ s0 Hs0). intros z Hz. cbn [upds].
    rewrite HGH; [apply HHign|apply valid_upd; [exact Hz|rewrite Hc; lia]|apply upd_same]. }
  unfold s0. rewrite (sum_over_aeq R r (map card r) H _ _ (wjoint_ext b _) (upds_upd_comm a ev nv 0 HnvE)).
  apply sum_over_ignores_other; [apply wjoint_ext|exact HHign|exact Hnvr].
Qed.

Lemma add_virtual_scoped b x nv vals : scoped_bn b -> In x (nodes (bn_g b)) -> ~ In nv (nodes (bn_g b)) ->
  scoped_bn (add_virtual b (x, nv, vals)) /\ nodes (bn_g (add_virtual b (x, nv, vals))) = nodes (bn_g b) ++ [nv].
Proof.
  intros [Hgnd Hsc] Hx Hnv.
  assert (Hns' : nodes (bn_g (add_virtual b (x, nv, vals))) = nodes (bn_g b) ++ [nv]).
  { unfold add_virtual. cbn [bn_g nodes].
    assert (Hm : memn nv (nodes (bn_g b)) = false) by (apply memn_false; exact Hnv). rewrite Hm. reflexivity. }
  split; [|exact Hns']. split.
  - rewrite Hns'. apply NoDup_app_disj; [exact Hgnd|constructor; [intros []|constructor]|].
    intros y Hy [<-|[]]. contradiction.
  - rewrite Hns'. intros v Hv u Hu. unfold add_virtual in Hu. cbn [bn_cpd] in Hu.
    destruct (Nat.eqb v nv) eqn:E.
    + cbn [virt_cpd fvars] in Hu. destruct Hu as [<-|[<-|[]]]; apply in_or_app; [right; left; reflexivity|left; exact Hx].
    + apply in_app_or in Hv. destruct Hv as [Hv|[<-|[]]]; [|rewrite Nat.eqb_refl in E; discriminate].
      apply in_or_app. left. apply (Hsc v Hv u Hu).
Qed.

Definition likelihoods (vev : list (var * var * list Qc)) : list (var * list Qc) :=
  map (fun t => (fst (fst t), snd t)) vev.

(* a list of virtual evidences on nodes of b, with fresh distinct child ids *)
Theorem virtual_unnorm (Q : list var) vev : forall (b : bn) (ev : list (var * nat)) (W : list (var * list Qc)) a,
  scoped_bn b ->
  NoDup (map (fun t => snd (fst t)) vev) ->
  (forall t, In t vev -> In (fst (fst t)) (nodes (bn_g b)) /\ ~ In (snd (fst t)) (nodes (bn_g b)) /\
                          ~ In (snd (fst t)) (map fst ev) /\ card (snd (fst t)) = 2 /\
                          length (snd t) = card (fst (fst t)) /\ forall w, In w W -> fst w <> snd (fst t)) ->
  (forall e, In e ev -> snd e < card (fst e)) -> valid a ->
  unnorm card (virtual_model b vev) Q (virtual_evidence ev vev) W a = unnorm card b Q ev (likelihoods vev ++ W) a.
Proof.
  induction vev as [|[[x nv] vals] vev IH]; intros b ev W a Hsc Hnd Hall Hrng Ha; [reflexivity|].
  cbn [map fst snd] in Hnd. inversion Hnd as [|? ? Hnv Hnd']; subst.
  destruct (Hall (x, nv, vals) (or_introl eq_refl)) as [Hx [Hnvn [HnvE [Hc [Hl HW]]]]]. cbn [fst snd] in *.
  assert (Hm : memv nv (map fst ev) = false) by (apply memv_false; exact HnvE).
  assert (E1 : virtual_evidence ev ((x, nv, vals) :: vev) = virtual_evidence (ev ++ [(nv, 0)]) vev).
  { unfold virtual_evidence. cbn [fold_left fst snd]. rewrite Hm. reflexivity. }
  assert (E2 : virtual_model b ((x, nv, vals) :: vev) = virtual_model (add_virtual b (x, nv, vals)) vev) by reflexivity.
  rewrite E1, E2.
  destruct (add_virtual_scoped b x nv vals Hsc Hx Hnvn) as [Hsc1 Hns1].
  rewrite (IH (add_virtual b (x, nv, vals)) (ev ++ [(nv, 0)]) W a Hsc1 Hnd').
  - cbn [likelihoods map fst snd app].
    transitivity (unnorm card (add_virtual b (x, nv, vals)) Q (ev ++ [(nv, 0)]) (likelihoods vev ++ W) a); [reflexivity|].
    apply add_virtual_unnorm; try assumption.
    intros t Ht. apply in_app_or in Ht. destruct Ht as [Ht|Ht]; [|apply HW; exact Ht].
    unfold likelihoods in Ht. apply in_map_iff in Ht. destruct Ht as [t0 [<- Ht0]]. cbn [fst].
    destruct (Hall t0 (or_intror Ht0)) as [Hx0 [Hn0 _]]. intros E. apply Hnvn. rewrite <- E. exact Hx0.
  - intros t Ht. destruct (Hall t (or_intror Ht)) as [A1 [A2 [A3 [A4 [A5 A6]]]]]. rewrite Hns1.
    split; [apply in_or_app; left; exact A1|]. split.
    + intros Hi. apply in_app_or in Hi. destruct Hi as [Hi|[E|[]]]; [contradiction|]. apply Hnv.
      rewrite E. apply (in_map (fun t => snd (fst t)) vev t Ht).
    + split; [|split; [exact A4|split; [exact A5|exact A6]]].
      rewrite map_app. cbn [map fst]. intros Hi. apply in_app_or in Hi. destruct Hi as [Hi|[E|[]]]; [contradiction|].
      apply Hnv. rewrite E. apply (in_map (fun t => snd (fst t)) vev t Ht).
  - intros e He. apply in_app_or in He. destruct He as [He|[<-|[]]]; [apply Hrng; exact He|]. cbn [fst snd]. rewrite Hc. lia.
  - exact Ha.
Qed.
End V.
