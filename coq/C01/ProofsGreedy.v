(* C01 proofs, part 10: the greedy branch of query (einsum of the evidence-sliced CPD arrays to the query
   indices) is the same sum, directly from sum_over / eval_prod - no elimination loop. *)
From Coq Require Import List Arith Lia PeanoNat Bool QArith Qcanon Permutation.
From PV Require Import Base.Semiring Base.Ravel Base.FinSum Base.RefFactor Base.VE Base.Graph
  C01.Model C01.Spec C01.Proofs C01.ProofsElim C01.ProofsMisc C01.ProofsIdx C01.ProofsFinal C01.ProofsEvid
  C01.ProofsQuery C01.ProofsPost.
Import ListNotations.
Local Open Scope nat_scope.

Lemma dedupv_In x l : In x (dedupv l) <-> In x l.
Proof.
  induction l as [|a l IH]; simpl; [tauto|]. destruct (memv a l) eqn:E.
  - rewrite IH. split; [intros H; right; exact H|intros [->|H]; [apply memv_In; exact E|exact H]].
  - simpl. rewrite IH. tauto.
Qed.
Lemma dedupv_NoDup l : NoDup (dedupv l).
Proof.
  induction l as [|a l IH]; simpl; [constructor|]. destruct (memv a l) eqn:E; [exact IH|].
  constructor; [rewrite dedupv_In; apply memv_false; exact E|exact IH].
Qed.
Lemma upds_in a b ev v : In v (map fst ev) -> upds a ev v = upds b ev v.
Proof.
  induction ev as [|[w i] ev IH]; simpl; intros H; [destruct H|]. unfold upd.
  destruct (Nat.eqb v w) eqn:E; [reflexivity|]. apply IH.
  destruct H as [H|H]; [subst; rewrite Nat.eqb_refl in E; discriminate|exact H].
Qed.

Section G.
Variable card : var -> nat.
Hypothesis card_pos : forall v, 0 < card v.
Notation feval := (feval R card).
Notation wf := (wf R card).
Notation valid := (valid card).
Notation eval_prod := (eval_prod R card).
Notation fmarg := (fmarg R card).
Notation fred := (fred R card).

Lemma eval_prod_depends (L : list fac) : depends_only (eval_prod L) (flat_map (@fvars R) L).
Proof.
  intros a b H. unfold RefFactor.eval_prod. f_equal. apply map_ext_in. intros f Hf.
  apply feval_depends_only. intros v Hv. apply H. apply in_flat_map. exists f. split; assumption.
Qed.

(* a table over Q proportional to unnorm: its marginal on q, normalised, is the posterior marginal *)
Lemma marginal_of_proportional (b : bn) (Q : list var) (ev : list (var * nat)) (fp : fac) (k : Qc) q a :
  NoDup Q -> In q Q -> pev card b Q ev [] <> 0%Qc -> valid a ->
  wf fp -> Permutation (fvars fp) Q -> (forall x, valid x -> (k * feval fp x)%Qc = unnorm card b Q ev [] x) ->
  feval (fnormalize card (fmarg (filter (fun x => negb (Nat.eqb x q)) Q) fp)) a = posterior_marginal card b Q ev [] q a.
Proof.
  intros HQ_nd Hq Hpe Ha Hwf Hp Hk.
  set (others := filter (fun x => negb (Nat.eqb x q)) Q).
  set (g := fmarg others fp).
  assert (Hwfg : wf g) by (apply wf_fmarg; exact Hwf).
  assert (HinfQ : forall x, In x (fvars fp) <-> In x Q).
  { intros x. split; intros H; eapply Permutation_in; try eassumption. apply Permutation_sym. exact Hp. }
  assert (Hoth : forall x, In x others <-> In x Q /\ x <> q).
  { intros x. unfold others. rewrite filter_In, negb_true_iff, Nat.eqb_neq. reflexivity. }
  assert (Hpg : Permutation (fvars g) [q]).
  { apply NoDup_Permutation; [apply (proj1 Hwfg)|constructor; [intros []|constructor]|]. intros x.
    unfold g. rewrite fvars_fmarg, In_vminus, HinfQ, Hoth. split.
    - intros [A1 A2]. left. destruct (Nat.eq_dec x q) as [->|Hne]; [reflexivity|]. exfalso. apply A2. tauto.
    - intros [<-|[]]. split; [exact Hq|]. intros [_ H]. apply H. reflexivity. }
  assert (Hpv : Permutation (vinter (fvars fp) others) others).
  { apply NoDup_Permutation; [apply NoDup_filter; apply (proj1 Hwf)|apply NoDup_filter; exact HQ_nd|]. intros x.
    unfold vinter. rewrite filter_In, memv_In, HinfQ, Hoth. tauto. }
  assert (Hkg : forall x, valid x ->
            (k * feval g x)%Qc = @sum_over R others (map card others) (unnorm card b Q ev []) x).
  { intros x Hx. unfold g. rewrite feval_fmarg by assumption.
    rewrite (sum_over_perm card _ _ Hpv (feval fp) x (NoDup_filter _ _ (proj1 Hwf)) (feval_ext R card fp)).
    etransitivity; [symmetry; apply (const_into_sum card others k (feval fp) x)|].
    apply (sum_over_ext_valid R card others _ _ x Hx). intros y Hy. apply Hk. exact Hy. }
  assert (Hpe' : @sum_over R [q] (map card [q]) (@sum_over R others (map card others) (unnorm card b Q ev [])) a0
                 = pev card b Q ev []).
  { assert (Hnd' : NoDup (q :: others)).
    { eapply Permutation_NoDup; [apply Permutation_sym; apply (perm_take q Q HQ_nd Hq)|exact HQ_nd]. }
    symmetry. etransitivity; [symmetry; apply (sum_over_perm card (q :: others) Q (perm_take q Q HQ_nd Hq)
                                (unnorm card b Q ev []) a0 Hnd' (unnorm_ext card b Q ev))|reflexivity]. }
  unfold posterior_marginal. fold others. rewrite <- Hpe'.
  apply (normalise_proportional card card_pos g [q] _ k a Hwfg Hpg Ha Hkg). rewrite Hpe'. exact Hpe.
Qed.

Variable b : bn.
Variable Q : list var.
Variable ev : list (var * nat).
Hypothesis Hbn : valid_bn card b.
Hypothesis Hev_rng : forall e, In e ev -> snd e < card (fst e).
Hypothesis HQ_nd : NoDup Q.
Hypothesis HQ_in : forall q, In q Q -> In q (nodes (bn_g b)) /\ ~ In q (map fst ev).
Hypothesis Hpe : pev card b Q ev [] <> 0%Qc.

Definition free (f : fac) : bool := negb (forallb (fun v => memv v (map fst ev)) (fvars f)).

Lemma greedy_product :
  let f := greedy_contract card b Q ev in
  wf f /\ Permutation (fvars f) Q /\
  exists k : Qc, forall x, valid x -> (k * feval f x)%Qc = unnorm card b Q ev [] x.
Proof.
  cbv zeta. destruct Hbn as [[Hgnd Hged] [_ Hcpd]]. set (ns := nodes (bn_g b)) in *. set (E := map fst ev) in *.
  unfold greedy_contract. set (fs := greedy_factors card b ev).
  set (summed := filter (fun v => negb (memv v Q)) (dedupv (flat_map (@fvars R) fs))).
  set (g := @sum_over R summed (map card summed) (eval_prod fs)).
  set (incl := filter free (cpd_factors b)). set (excl := filter (fun f => negb (free f)) (cpd_factors b)).
  assert (Hfs : fs = map (fred ev) incl) by reflexivity.
  assert (Hwfc : forall f, In f (cpd_factors b) -> wf f /\ forall v, In v (fvars f) -> In v ns).
  { intros f Hf. unfold cpd_factors in Hf. apply in_map_iff in Hf. destruct Hf as [z [<- Hz]].
    destruct (Hcpd z Hz) as [H1 [H2 _]]. split; [exact H1|]. intros v Hv. apply H2 in Hv.
    destruct Hv as [->|Hv]; [exact Hz|]. apply In_parents in Hv. apply (Hged _ _ Hv). }
  (* values *)
  assert (L1 : forall y, valid y -> eval_prod fs y = eval_prod incl (upds y ev)).
  { intros y Hy. rewrite Hfs. unfold RefFactor.eval_prod. rewrite map_map. f_equal. apply map_ext_in.
    intros f Hf. apply feval_fred; [|exact Hy]. apply Hwfc. apply filter_In in Hf. apply Hf. }
  set (c := eval_prod excl (upds a0 ev)).
  assert (L3 : forall y, eval_prod excl (upds y ev) = c).
  { intros y. unfold c, RefFactor.eval_prod. f_equal. apply map_ext_in. intros f Hf.
    apply feval_depends_only. intros v Hv. apply upds_in. apply filter_In in Hf. destruct Hf as [_ Hf].
    unfold free in Hf. rewrite negb_involutive in Hf. rewrite forallb_forall in Hf. apply memv_In. apply Hf. exact Hv. }
  assert (L2 : forall y, valid y -> joint card b (upds y ev) = (c * eval_prod fs y)%Qc).
  { intros y Hy. unfold joint. rewrite (prod_list_filter_split R card free (cpd_factors b) (upds y ev)).
    fold incl. fold excl. rewrite L3, (L1 y Hy). apply Qcmult_comm. }
  (* variables *)
  assert (HV : forall x, In x (dedupv (flat_map (@fvars R) fs)) <-> In x ns /\ ~ In x E).
  { intros x. rewrite dedupv_In, in_flat_map. split.
    - intros [f [Hf Hx]]. rewrite Hfs in Hf. apply in_map_iff in Hf. destruct Hf as [f0 [<- Hf0]].
      rewrite fvars_fred in Hx. apply In_vminus in Hx. destruct Hx as [Hx HxE]. split; [|exact HxE].
      apply filter_In in Hf0. apply (proj2 (Hwfc f0 (proj1 Hf0))). exact Hx.
    - intros [Hx HxE]. exists (fred ev (bn_cpd b x)). split.
      + rewrite Hfs. apply in_map. apply filter_In. split; [unfold cpd_factors; apply in_map; exact Hx|].
        unfold free. apply negb_true_iff. destruct (forallb (fun v => memv v (map fst ev)) (fvars (bn_cpd b x))) eqn:Ef;
          [|reflexivity]. exfalso. rewrite forallb_forall in Ef. apply HxE. apply memv_In. apply Ef.
        apply (proj1 (proj2 (Hcpd x Hx))). left. reflexivity.
      + rewrite fvars_fred. apply In_vminus. split; [|exact HxE]. apply (proj1 (proj2 (Hcpd x Hx))). left. reflexivity. }
  assert (Hsum : forall x, In x summed <-> In x ns /\ ~ In x Q /\ ~ In x E).
  { intros x. unfold summed. rewrite filter_In, negb_true_iff, memv_false, HV. tauto. }
  assert (Hndsum : NoDup summed) by (apply NoDup_filter; apply dedupv_NoDup).
  assert (Hperm : Permutation summed (rest b Q E)).
  { apply NoDup_Permutation; [exact Hndsum|apply NoDup_filter; exact Hgnd|]. intros x. rewrite Hsum.
    unfold rest. fold ns. rewrite filter_In, andb_true_iff, !negb_true_iff, !memv_false. tauto. }
  assert (Hdep : depends_only g Q).
  { eapply depends_only_mono.
    - apply sum_over_depends_only; [apply eval_prod_depends|symmetry; apply map_length].
    - intros x Hx. apply filter_In in Hx. destruct Hx as [Hx Hns]. apply negb_true_iff in Hns.
      destruct (in_dec Nat.eq_dec x Q) as [H|H]; [exact H|]. exfalso.
      assert (Hin : In x summed).
      { apply filter_In. split; [apply dedupv_In; exact Hx|apply negb_true_iff, memv_false; exact H]. }
      apply memv_In in Hin. unfold memv in Hin. congruence. }
  split; [apply wf_fbuild; exact HQ_nd|]. split; [apply Permutation_refl|].
  exists c. intros x Hx. rewrite (feval_fbuild R card Q g x HQ_nd Hx Hdep). unfold g.
  etransitivity; [symmetry; apply (const_into_sum card summed c (eval_prod fs) x)|].
  rewrite (sum_over_ext_valid R card summed _ (fun y => joint card b (upds y ev)) x Hx)
    by (intros y Hy; symmetry; apply L2; exact Hy).
  rewrite (sum_over_upds card (joint card b) ev summed x (joint_ext card b))
    by (intros v Hv; apply Hsum in Hv; tauto).
  rewrite (sum_over_perm card summed _ Hperm (joint card b) (upds x ev) Hndsum (joint_ext card b)).
  unfold unnorm. apply (sum_over_ext_fun R). intros y. unfold wjoint, weight. cbn [map prod_list fold_right].
  symmetry. apply Qcmult_1_r.
Qed.

Theorem greedy_joint_is_posterior a : valid a ->
  feval (greedy_joint card b Q ev) a = posterior card b Q ev [] a.
Proof.
  intros Ha. destruct greedy_product as [Hwf [Hp [k Hk]]]. unfold greedy_joint, posterior.
  apply (normalise_proportional card card_pos _ Q (unnorm card b Q ev []) k a Hwf Hp Ha Hk). exact Hpe.
Qed.

Theorem greedy_per_variable_is_marginal q f a : valid a ->
  In (q, f) (greedy_per_variable card b Q ev) ->
  In q Q /\ feval f a = posterior_marginal card b Q ev [] q a.
Proof.
  intros Ha Hin. unfold greedy_per_variable in Hin. apply in_map_iff in Hin. destruct Hin as [q' [E Hq]].
  inversion E. subst q'. clear E. split; [exact Hq|].
  destruct greedy_product as [Hwf [Hp [k Hk]]].
  apply (marginal_of_proportional b Q ev _ k q a HQ_nd Hq Hpe Ha Hwf Hp Hk).
Qed.
End G.
