(* C01 proofs, part 2: the elimination loop (with the eliminated-variables filter) on the global set of
   tuples computes  sum over the order of the product of the live factors,  for EVERY order, up to the
   scalar (empty-scope) factors that pgmpy silently drops. *)
From Coq Require Import List Arith Lia PeanoNat Bool QArith Qcanon Permutation.
From PV Require Import Base.Semiring Base.Ravel Base.FinSum Base.RefFactor Base.VE Base.Graph
  C01.Model C01.Spec C01.Proofs.
Import ListNotations.
Local Open Scope nat_scope.

Section E.
Variable card : var -> nat.
Variable ord : forall A : Type, list A -> list A.
Hypothesis ord_perm : forall A (l : list A), Permutation (ord A l) l.

Notation feval := (feval R card).
Notation wf := (wf R card).
Notation valid := (valid card).
Notation eval_prod := (eval_prod R card).
Notation fmarg := (fmarg R card).
Notation factor_product := (factor_product card).
Notation peqb := (peqb card).
Notation wadd := (wadd card).
Notation padd := (padd card).

Definition live (elim : list var) (P : list wpair) : list fac := filter (clean elim) (map fst P).

Lemma Permutation_filter {A} (c : A -> bool) l1 l2 : Permutation l1 l2 -> Permutation (filter c l1) (filter c l2).
Proof.
  induction 1 as [|x l1 l2 _ IH|x y l|l1 l2 l3 _ IH1 _ IH2]; simpl.
  - constructor.
  - destruct (c x); [constructor|]; exact IH.
  - destruct (c x), (c y); try apply Permutation_refl. apply perm_swap.
  - eapply Permutation_trans; eassumption.
Qed.
Lemma filter_comm {A} (c d : A -> bool) l : filter c (filter d l) = filter d (filter c l).
Proof.
  induction l as [|x l IH]; [reflexivity|]. simpl.
  destruct (c x) eqn:Ec, (d x) eqn:Ed; simpl; rewrite ?Ec, ?Ed, IH; reflexivity.
Qed.
Lemma map_fst_filter (c : fac -> bool) (P : list wpair) :
  map fst (filter (fun p => c (fst p)) P) = filter c (map fst P).
Proof. induction P as [|p P IH]; [reflexivity|]. simpl. destruct (c (fst p)); simpl; rewrite IH; reflexivity. Qed.

Lemma clean_spec elim (f : fac) : clean elim f = true <-> forall x, In x (fvars f) -> ~ In x elim.
Proof.
  unfold clean. rewrite negb_true_iff. split.
  - intros H x Hx He. assert (existsb (fun v => memv v elim) (fvars f) = true); [|congruence].
    apply existsb_exists. exists x. split; [exact Hx|apply memv_In; exact He].
  - intros H. destruct (existsb (fun v => memv v elim) (fvars f)) eqn:E; [|reflexivity].
    apply existsb_exists in E. destruct E as [x [Hx He]]. apply memv_In in He. exfalso. exact (H x Hx He).
Qed.

Lemma clean_cons v elim (f : fac) : clean (v :: elim) f = clean elim f && negb (mentions v f).
Proof.
  apply eq_true_iff_eq. rewrite andb_true_iff, negb_true_iff, !clean_spec. unfold mentions. rewrite memv_false.
  split.
  - intros H. split; [intros x Hx He; apply (H x Hx); right; exact He|intros Hv; apply (H v Hv); left; reflexivity].
  - intros [H1 H2] x Hx [<-|He]; [contradiction|exact (H1 x Hx He)].
Qed.

Lemma vinter_single (l : list var) v : NoDup l -> In v l -> vinter l [v] = [v].
Proof.
  intros Hnd Hv. unfold vinter. induction l as [|x l IH]; [destruct Hv|].
  inversion Hnd as [|? ? Hx Hnd']; subst. simpl. destruct (Nat.eqb x v) eqn:E.
  - apply Nat.eqb_eq in E. subst. simpl. f_equal.
    clear - Hx. induction l as [|y l IH]; [reflexivity|]. simpl.
    destruct (Nat.eqb y v) eqn:E; [apply Nat.eqb_eq in E; subst; exfalso; apply Hx; left; reflexivity|].
    simpl. apply IH. intros H. apply Hx. right. exact H.
  - simpl. apply IH; [exact Hnd'|]. destruct Hv as [->|H]; [rewrite Nat.eqb_refl in E; discriminate|exact H].
Qed.

Lemma feval_empty_scope (f : fac) a b : fvars f = [] -> feval f a = feval f b.
Proof. intros H. apply feval_depends_only. rewrite H. intros v []. Qed.

Lemma const_into_sum vs (k : R) (g : asg -> R) a :
  sum_over vs (map card vs) (fun b => @mul R k (g b)) a = @mul R k (sum_over vs (map card vs) g a).
Proof.
  apply (sum_over_mul_l R vs (map card vs) (fun _ => k) g a).
  - intros v _ b i. reflexivity.
  - intros b. exact I.
Qed.

Lemma live_cons v elim P : live (v :: elim) P = filter (fun f => negb (VE.mentions R v f)) (live elim P).
Proof.
  unfold live. induction (map fst P) as [|f l IH]; [reflexivity|]. simpl. rewrite clean_cons.
  unfold VE.mentions, mentions. destruct (clean elim f) eqn:Ec; simpl.
  - destruct (memv v (fvars f)); simpl; rewrite IH; reflexivity.
  - exact IH.
Qed.

Lemma padd_cases p P :
  (fvars (fst p) = [] /\ padd p P = P) \/ (fvars (fst p) <> [] /\ padd p P = wadd p P).
Proof. unfold Model.padd. destruct p as [f o]. cbn [fst]. destruct (fvars f); [left; split; reflexivity|right; split; [discriminate|reflexivity]]. Qed.

(* ---- one step ------------------------------------------------------------------------------------------- *)
Lemma pool_elim_step_spec P elim v :
  Forall wf (map fst P) -> (forall q, In q P -> snd q <> Some v) -> occurs R v (live elim P) ->
  let st := pool_elim_step card ord (P, elim) v in
  snd st = v :: elim /\
  Forall wf (map fst (fst st)) /\
  (forall q, In q (fst st) -> In q P \/ snd q = Some v) /\
  (forall w, w <> v -> occurs R w (live elim P) -> occurs R w (live (v :: elim) (fst st))) /\
  exists k : R, forall a, valid a ->
    @mul R k (eval_prod (live (v :: elim) (fst st)) a) = sum_over [v] [card v] (eval_prod (live elim P)) a.
Proof.
  intros Hwf Horig Hocc.
  set (L := live elim P).
  set (S := filter (VE.mentions R v) L). set (T := filter (fun f => negb (VE.mentions R v f)) L).
  set (fs := map fst (filter (fun p => clean elim (fst p)) (ord _ (filter (fun p => mentions v (fst p)) P)))).
  assert (HwfL : Forall wf L).
  { unfold L, live. rewrite Forall_forall in *. intros f Hf. apply filter_In in Hf. apply Hwf, Hf. }
  assert (Hperm : Permutation fs S).
  { unfold fs, S, L, live. rewrite (map_fst_filter (clean elim)).
    eapply Permutation_trans.
    - apply Permutation_filter. apply Permutation_map. apply ord_perm.
    - rewrite (map_fst_filter (mentions v)). rewrite filter_comm. apply Permutation_refl. }
  assert (HwfS : Forall wf S).
  { unfold S. rewrite Forall_forall in *. intros f Hf. apply filter_In in Hf. apply HwfL, Hf. }
  assert (Hwffs : Forall wf fs).
  { rewrite Forall_forall in *. intros f Hf. apply HwfS. eapply Permutation_in; eassumption. }
  set (prodf := factor_product fs). set (phi := fmarg [v] prodf).
  assert (Hwfprod : wf prodf) by (apply wf_factor_product; exact Hwffs).
  assert (Hwfphi : wf phi) by (apply wf_fmarg; exact Hwfprod).
  assert (HinS : forall f, In f fs <-> In f S).
  { intros f. split; intros H; eapply Permutation_in; try eassumption. apply Permutation_sym. exact Hperm. }
  assert (Hvprod : In v (fvars prodf)).
  { apply In_fvars_factor_product. destruct Hocc as [f0 [Hf0 Hv0]]. exists f0. split; [|exact Hv0].
    apply HinS. apply filter_In. split; [exact Hf0|apply memv_In; exact Hv0]. }
  (* value of phi *)
  assert (Hphi : forall a, valid a -> mul (feval phi a) (eval_prod T a) = sum_over [v] [card v] (eval_prod L) a).
  { intros a Ha. unfold phi. rewrite feval_fmarg by assumption.
    rewrite (vinter_single _ v (proj1 Hwfprod) Hvprod). cbn [map].
    rewrite (sum_over_ext_fun R [v] [card v] (eval_prod L) (fun b => mul (eval_prod S b) (eval_prod T b)) a)
      by (intros b; apply (prod_list_filter_split R card (VE.mentions R v))).
    rewrite (sum1_mul_r R card); [|exact Ha| |].
    - f_equal. apply (sum_over_ext_valid R card [v]); [exact Ha|]. intros b Hb.
      unfold prodf. rewrite feval_factor_product by assumption. apply eval_prod_perm. exact Hperm.
    - apply eval_prod_ignores. intros f Hf Hin. apply filter_In in Hf. destruct Hf as [_ Hf].
      apply negb_true_iff in Hf. unfold VE.mentions in Hf. apply memv_false in Hf. contradiction.
    - intros b _. exact I. }
  (* live factors that do not mention v *)
  assert (HT : live (v :: elim) P = T) by apply live_cons.
  cbv zeta. change (pool_elim_step card ord (P, elim) v) with (padd (phi, Some v) P, v :: elim). cbn [fst snd].
  split; [reflexivity|].
  (* scope of phi is clean *)
  assert (Hcleanphi : clean (v :: elim) phi = true).
  { apply clean_spec. intros x Hx. unfold phi in Hx. rewrite fvars_fmarg in Hx. apply In_vminus in Hx.
    destruct Hx as [Hx Hnv]. apply In_fvars_factor_product in Hx. destruct Hx as [f [Hf Hxf]].
    apply HinS in Hf. apply filter_In in Hf. destruct Hf as [Hf _]. unfold L, live in Hf.
    apply filter_In in Hf. destruct Hf as [_ Hc]. intros [<-|He]; [apply Hnv; left; reflexivity|].
    exact (proj1 (clean_spec elim f) Hc x Hxf He). }
  destruct (padd_cases (phi, Some v) P) as [[Escope Hp]|[Escope Hp]]; rewrite Hp; cbn [fst] in Escope.
  - (* scalar result: dropped *)
    split; [exact Hwf|]. split; [intros q Hq; left; exact Hq|]. split.
    + intros w Hw [f [Hf Hwf']]. fold L in Hf. destruct (VE.mentions R v f) eqn:Em.
      * exfalso. assert (Hin : In w (fvars phi)); [|rewrite Escope in Hin; destruct Hin].
        unfold phi. rewrite fvars_fmarg. apply In_vminus. split; [|intros [E|[]]; congruence].
        apply In_fvars_factor_product. exists f. split; [|exact Hwf']. apply HinS. apply filter_In. auto.
      * exists f. split; [|exact Hwf']. rewrite HT. apply filter_In. split; [exact Hf|rewrite Em; reflexivity].
    + exists (feval phi (fun _ => 0)). intros a Ha. rewrite HT. rewrite <- Hphi by exact Ha.
      rewrite (feval_empty_scope phi (fun _ => 0) a Escope). reflexivity.
  - (* a real add: the origin is fresh *)
    assert (Hmem : wmem card (phi, Some v) P = false).
    { unfold Model.wmem. destruct (existsb (fun q => peqb q (phi, Some v)) P) eqn:E; [|reflexivity].
      apply existsb_exists in E. destruct E as [q [Hq Hqp]]. apply peqb_origin in Hqp. simpl in Hqp.
      exfalso. exact (Horig q Hq Hqp). }
    assert (Hwadd : wadd (phi, Some v) P = P ++ [(phi, Some v)]) by (unfold Model.wadd; rewrite Hmem; reflexivity).
    rewrite Hwadd.
    assert (Hlive' : live (v :: elim) (P ++ [(phi, Some v)]) = T ++ [phi]).
    { unfold live. rewrite map_app, filter_app. change (filter (clean (v :: elim)) (map fst P)) with (live (v :: elim) P). rewrite HT. simpl.
      rewrite Hcleanphi. reflexivity. }
    split; [rewrite map_app; apply Forall_app; split; [exact Hwf|constructor; [exact Hwfphi|constructor]]|].
    split; [intros q Hq; apply in_app_or in Hq; destruct Hq as [Hq|[<-|[]]]; [left; exact Hq|right; reflexivity]|].
    split.
    + intros w Hw [f [Hf Hwf']]. fold L in Hf. rewrite Hlive'. destruct (VE.mentions R v f) eqn:Em.
      * exists phi. split; [apply in_or_app; right; left; reflexivity|].
        unfold phi. rewrite fvars_fmarg. apply In_vminus. split; [|intros [E|[]]; congruence].
        apply In_fvars_factor_product. exists f. split; [|exact Hwf']. apply HinS. apply filter_In. auto.
      * exists f. split; [|exact Hwf']. apply in_or_app. left. apply filter_In.
        split; [exact Hf|rewrite Em; reflexivity].
    + exists 1%Qc. intros a Ha. rewrite Hlive'. rewrite eval_prod_app, eval_prod_cons.
      rewrite <- Hphi by exact Ha. unfold RefFactor.eval_prod at 2. simpl. ring.
Qed.

(* ---- the loop: every order -------------------------------------------------------------------------------- *)
Theorem pool_elim_loop_sum order : forall P elim,
  Forall wf (map fst P) -> NoDup order ->
  (forall v, In v order -> forall q, In q P -> snd q <> Some v) ->
  (forall v, In v order -> occurs R v (live elim P)) ->
  let st := fold_left (pool_elim_step card ord) order (P, elim) in
  snd st = rev order ++ elim /\ Forall wf (map fst (fst st)) /\
  exists k : R, forall a, valid a ->
    @mul R k (eval_prod (live (snd st) (fst st)) a) = sum_over order (map card order) (eval_prod (live elim P)) a.
Proof.
  induction order as [|v order IH]; intros P elim Hwf Hnd Horig Hocc; cbv zeta.
  - cbn [fold_left fst snd rev app]. split; [reflexivity|]. split; [exact Hwf|].
    exists 1%Qc. intros a _. cbn [map sum_over]. apply (mul_1_l R).
  - inversion Hnd as [|? ? Hv Hnd']; subst.
    destruct (pool_elim_step_spec P elim v Hwf (Horig v (or_introl eq_refl)) (Hocc v (or_introl eq_refl)))
      as [He [Hwf1 [Hor1 [Hocc1 [k1 Hk1]]]]].
    cbn [fold_left]. destruct (pool_elim_step card ord (P, elim) v) as [P1 e1] eqn:Est.
    cbn [fst snd] in He, Hwf1, Hor1, Hocc1, Hk1. subst e1.
    destruct (IH P1 (v :: elim) Hwf1 Hnd') as [He2 [Hwf2 [k2 Hk2]]].
    + intros w Hw q Hq. destruct (Hor1 q Hq) as [HqP|Hqv].
      * apply Horig; [right; exact Hw|exact HqP].
      * intros E. apply Hv. pose proof (eq_trans (eq_sym Hqv) E) as E'. inversion E'. subst. exact Hw.
    + intros w Hw. apply Hocc1; [intros E; subst; contradiction|apply Hocc; right; exact Hw].
    + split; [transitivity (rev order ++ v :: elim); [exact He2|cbn [rev]; rewrite <- app_assoc; reflexivity]|]. split; [exact Hwf2|].
      exists (@mul R k1 k2). intros a Ha.
      rewrite <- (mul_assoc R). etransitivity; [apply f_equal; apply Hk2; exact Ha|].
      rewrite <- const_into_sum.
      rewrite (sum_over_ext_valid R card order _ (sum_over [v] [card v] (eval_prod (live elim P))) a Ha)
        by (intros b Hb; apply Hk1; exact Hb).
      cbn [map]. rewrite (sum_over_cons R v order (card v) (map card order)).
      symmetry. apply sum_over_swap; [apply eval_prod_ext| |reflexivity].
      intros w [<-|[]]. exact Hv.
Qed.
End E.
