(* C01 specification: the textbook posterior of a discrete Bayesian network by brute force over all
   assignments: multiply all CPDs (and the likelihood weights of virtual evidence), condition on the
   evidence, sum out the remaining variables, normalise.  No algorithm here. *)
From Coq Require Import List Arith PeanoNat Bool QArith Qcanon.
From PV Require Import Base.Semiring Base.Ravel Base.FinSum Base.RefFactor Base.Graph C01.Model.
Import ListNotations.
Local Open Scope nat_scope.

Section Spec.
Variable card : var -> nat.

(* the CPD-product joint *)
Definition joint (b : bn) (a : asg) : Qc := eval_prod R card (cpd_factors b) a.
(* virtual (soft) evidence: a likelihood vector per variable *)
Definition weight (vev : list (var * list Qc)) (a : asg) : Qc :=
  @prod_list R (map (fun t => nth (a (fst t)) (snd t) 0%Qc) vev).
Definition wjoint (b : bn) (vev : list (var * list Qc)) (a : asg) : Qc := (joint b a * weight vev a)%Qc.

Definition rest (b : bn) (Q E : list var) : list var :=
  filter (fun v => negb (memv v Q) && negb (memv v E)) (nodes (bn_g b)).

(* sum over everything that is neither queried nor observed, at the evidence: P(Q = a|Q, e) (weighted) *)
Definition unnorm (b : bn) (Q : list var) (ev : list (var * nat)) (vev : list (var * list Qc)) (a : asg) : Qc :=
  let r := rest b Q (map fst ev) in
  @sum_over R r (map card r) (wjoint b vev) (upds a ev).

(* P(e) (weighted) *)
Definition pev (b : bn) (Q : list var) (ev : list (var * nat)) (vev : list (var * list Qc)) : Qc :=
  @sum_over R Q (map card Q) (unnorm b Q ev vev) (fun _ => 0).

(* P(Q = a|Q  |  e); meaningful when pev <> 0 *)
Definition posterior (b : bn) (Q : list var) (ev : list (var * nat)) (vev : list (var * list Qc)) (a : asg) : Qc :=
  (unnorm b Q ev vev a / pev b Q ev vev)%Qc.

(* the marginal of one query variable q *)
Definition posterior_marginal (b : bn) (Q : list var) (ev : list (var * nat)) (vev : list (var * list Qc))
  (q : var) (a : asg) : Qc :=
  let others := filter (fun x => negb (Nat.eqb x q)) Q in
  (@sum_over R others (map card others) (unnorm b Q ev vev) a / pev b Q ev vev)%Qc.

(* a valid discrete Bayesian network: well-formed DAG, each node's CPD is a well-formed table over
   node :: parents (as a set) whose columns sum to one *)
Definition valid_bn (b : bn) : Prop :=
  let g := bn_g b in
  wf_graph g /\ acyclic g /\
  forall x, In x (nodes g) ->
    wf R card (bn_cpd b x) /\
    (forall v, In v (fvars (bn_cpd b x)) <-> v = x \/ In v (parents g x)) /\
    (forall a, valid card a -> @sum_over R [x] [card x] (feval R card (bn_cpd b x)) a = 1%Qc).
End Spec.
