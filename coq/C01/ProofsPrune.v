(* C01 proofs, part 9: barren-node pruning.  Summing the CPD-product joint over nodes that can be removed
   leaf-first (each is, when removed, mentioned by no remaining CPD but its own) gives the CPD product of the
   remaining nodes: needs only  sum_x P(x | pa) = 1. *)
From Coq Require Import List Arith Lia PeanoNat Bool QArith Qcanon Permutation.
From PV Require Import Base.Semiring Base.Ravel Base.FinSum Base.RefFactor Base.VE Base.Graph
  C01.Model C01.Spec C01.Proofs C01.ProofsElim C01.ProofsMisc.
Import ListNotations.
Local Open Scope nat_scope.

Section B.
Variable card : var -> nat.
Notation feval := (feval R card).
Notation valid := (valid card).
Notation eval_prod := (eval_prod R card).

Definition remv (x : var) (A : list var) : list var := filter (fun y => negb (Nat.eqb y x)) A.

(* D lists nodes of A that can be dropped one after the other, each being a leaf of what is left *)
Fixpoint barren_order (b : bn) (A D : list var) : Prop :=
  match D with
  | [] => True
  | x :: D' => In x A /\ (forall y, In y A -> y <> x -> ~ In x (fvars (bn_cpd b y))) /\ barren_order b (remv x A) D'
  end.

Lemma remv_notin x (A : list var) : ~ In x A -> filter (fun y => negb (Nat.eqb y x)) A = A.
Proof.
  induction A as [|z A IH]; intros Hy; [reflexivity|]. cbn [filter].
  destruct (Nat.eqb z x) eqn:E; [apply Nat.eqb_eq in E; subst; exfalso; apply Hy; left; reflexivity|].
  cbn [negb]. f_equal. apply IH. intros H. apply Hy. right. exact H.
Qed.
Lemma filter_notin_nilv (A : list var) : filter (fun y => negb (memv y [])) A = A.
Proof. induction A as [|y A IHA]; [reflexivity|]. simpl. f_equal. exact IHA. Qed.
Lemma filter_notin_consv x D (A : list var) :
  filter (fun y => negb (memv y D)) (remv x A) = filter (fun y => negb (memv y (x :: D))) A.
Proof.
  unfold remv. induction A as [|y A IHA]; [reflexivity|]. simpl. destruct (Nat.eqb y x) eqn:E; simpl.
  - exact IHA.
  - destruct (memv y D); simpl; [exact IHA|f_equal; exact IHA].
Qed.

Lemma eval_prod_remv (b : bn) x A a : NoDup A -> In x A ->
  eval_prod (map (bn_cpd b) A) a = @mul R (feval (bn_cpd b x) a) (eval_prod (map (bn_cpd b) (remv x A)) a).
Proof.
  induction A as [|y A IH]; intros Hn Hin; [destruct Hin|]. inversion Hn as [|? ? Hy Hn']; subst.
  cbn [map remv filter]. destruct (Nat.eqb y x) eqn:E.
  - apply Nat.eqb_eq in E. subst y. cbn [negb]. rewrite eval_prod_cons. rewrite (remv_notin x A Hy). reflexivity.
  - cbn [negb map]. rewrite !eval_prod_cons. destruct Hin as [->|Hin]; [rewrite Nat.eqb_refl in E; discriminate|].
    fold (remv x A). rewrite (IH Hn' Hin). rewrite !(mul_assoc R). rewrite (mul_comm R (feval (bn_cpd b y) a)). reflexivity.
Qed.

Theorem barren_sum (b : bn) (D : list var) : forall (A : list var) a,
  NoDup A -> NoDup D -> barren_order b A D ->
  (forall x, In x D -> wf R card (bn_cpd b x) /\
     forall a, valid a -> @sum_over R [x] [card x] (feval (bn_cpd b x)) a = 1%Qc) ->
  valid a ->
  @sum_over R D (map card D) (eval_prod (map (bn_cpd b) A)) a =
  eval_prod (map (bn_cpd b) (filter (fun y => negb (memv y D)) A)) a.
Proof.
  induction D as [|x D IH]; intros A a HnA HnD Hbo Hcpd Ha.
  - cbn [map sum_over]. rewrite filter_notin_nilv. reflexivity.
  - destruct Hbo as [HxA [Hleaf Hbo]]. inversion HnD as [|? ? HxD HnD']; subst.
    cbn [map]. rewrite (sum_over_cons R x D (card x) (map card D)).
    rewrite (sum_over_swap1 R D (map card D) x (card x) (eval_prod (map (bn_cpd b) A)) a
               (eval_prod_ext R card _) HxD).
    transitivity (@sum_over R D (map card D) (eval_prod (map (bn_cpd b) (remv x A))) a).
    + apply (sum_over_ext_valid R card D _ _ a Ha). intros y Hy.
      rewrite (sum_over_ext_fun R [x] [card x] (eval_prod (map (bn_cpd b) A))
                 (fun z => @mul R (feval (bn_cpd b x) z) (eval_prod (map (bn_cpd b) (remv x A)) z)) y)
        by (intros z; apply eval_prod_remv; assumption).
      rewrite (sum1_mul_r R card x (eval_prod (map (bn_cpd b) (remv x A))) (feval (bn_cpd b x)) y Hy).
      * rewrite (proj2 (Hcpd x (or_introl eq_refl)) y Hy). apply (mul_1_l R).
      * apply eval_prod_ignores. intros f Hf Hin. apply in_map_iff in Hf. destruct Hf as [z [<- Hz]].
        apply filter_In in Hz. destruct Hz as [Hz Hne]. apply negb_true_iff, Nat.eqb_neq in Hne.
        exact (Hleaf z Hz Hne Hin).
      * intros z _. exact I.
    + rewrite (IH (remv x A) a (NoDup_filter _ A HnA) HnD' Hbo (fun z Hz => Hcpd z (or_intror Hz)) Ha).
      rewrite filter_notin_consv. reflexivity.
Qed.

(* the sub-network without the nodes D (same CPDs) *)
Definition drop_nodes (b : bn) (D : list var) : bn :=
  {| bn_g := {| nodes := filter (fun y => negb (memv y D)) (nodes (bn_g b));
                edges := filter (fun e => negb (memv (fst e) D) && negb (memv (snd e) D)) (edges (bn_g b)) |};
     bn_cpd := bn_cpd b |}.

Lemma valid_upds a ev : valid a -> (forall e, In e ev -> snd e < card (fst e)) -> valid (upds a ev).
Proof.
  intros Ha. induction ev as [|[v i] ev IH]; intros H; [exact Ha|]. cbn [upds]. apply valid_upd.
  - apply IH. intros e He. apply H. right. exact He.
  - apply (H (v, i)). left. reflexivity.
Qed.

(* dropping barren nodes leaves the unnormalised answer (hence P(e) and the posterior) unchanged *)
Theorem prune_barren_unnorm (b : bn) (Q : list var) (ev : list (var * nat)) (D : list var) a :
  valid_bn card b -> NoDup D ->
  (forall x, In x D -> In x (nodes (bn_g b)) /\ ~ In x Q /\ ~ In x (map fst ev)) ->
  barren_order b (nodes (bn_g b)) D ->
  (forall e, In e ev -> snd e < card (fst e)) -> valid a ->
  unnorm card b Q ev [] a = unnorm card (drop_nodes b D) Q ev [] a.
Proof.
  intros Hbn HnD HD Hbo Hrng Ha. destruct Hbn as [[Hgnd _] [_ Hcpd]].
  unfold unnorm. set (E := map fst ev). set (ns := nodes (bn_g b)) in *.
  set (r' := rest (drop_nodes b D) Q E).
  assert (Hr' : forall x, In x r' <-> In x ns /\ ~ In x D /\ ~ In x Q /\ ~ In x E).
  { intros x. unfold r', rest, drop_nodes. cbn [bn_g nodes]. fold ns.
    rewrite !filter_In, andb_true_iff, !negb_true_iff, !memv_false. tauto. }
  assert (Hr : forall x, In x (rest b Q E) <-> In x ns /\ ~ In x Q /\ ~ In x E).
  { intros x. unfold rest. fold ns. rewrite filter_In, andb_true_iff, !negb_true_iff, !memv_false. tauto. }
  assert (Hnr' : NoDup r') by (apply NoDup_filter; apply NoDup_filter; exact Hgnd).
  assert (Hp : Permutation (rest b Q E) (D ++ r')).
  { apply NoDup_Permutation.
    - apply NoDup_filter. exact Hgnd.
    - apply NoDup_app_disj; [exact HnD|exact Hnr'|]. intros x Hx Hx'. apply Hr' in Hx'. tauto.
    - intros x. rewrite Hr, in_app_iff, Hr'. split.
      + intros [H1 [H2 H3]]. destruct (in_dec Nat.eq_dec x D) as [H|H]; [left; exact H|right; tauto].
      + intros [H|H]; [destruct (HD x H) as [H1 [H2 H3]]; tauto|tauto]. }
  assert (Hext : @ext R (wjoint card b [])).
  { intros x y H. unfold wjoint. f_equal. apply (eval_prod_ext R card (cpd_factors b)). exact H. }
  rewrite (sum_over_perm card _ _ Hp (wjoint card b []) (upds a ev) (NoDup_filter _ _ Hgnd) Hext).
  rewrite map_app. rewrite (sum_over_app R D r' (map card D) (map card r')) by (symmetry; apply map_length).
  rewrite (sum_over_swap R D (map card D) r' (map card r') (wjoint card b []) (upds a ev) Hext)
    by (try (symmetry; apply map_length); intros x Hx Hx'; apply Hr' in Hx'; tauto).
  apply (sum_over_ext_valid R card r' _ _ (upds a ev) (valid_upds a ev Ha Hrng)). intros y Hy.
  unfold wjoint, weight, joint, cpd_factors. cbn [map prod_list fold_right drop_nodes bn_g nodes bn_cpd]. fold ns.
  rewrite <- (barren_sum b D ns y Hgnd HnD Hbo) by
    (try exact Hy; intros x Hx; destruct (Hcpd x (proj1 (HD x Hx))) as [H1 [_ H3]]; split; assumption).
  rewrite (sum_over_ext_fun R D (map card D) _ (eval_prod (map (bn_cpd b) ns)) y)
    by (intros z; apply Qcmult_1_r).
  symmetry. apply Qcmult_1_r.
Qed.
End B.
