(* C01 model: pgmpy's VariableElimination.query on a discrete Bayesian network, as coded in
   pgmpy/inference/ExactInference.py (query, _variable_elimination, _get_working_factors,
   _get_elimination_order), pgmpy/inference/base.py (_initialize_structures, _prune_bayesian_model,
   _virtual_evidence) and pgmpy/inference/EliminationOrder.py.
   Factors are Base/RefFactor factors over Qc (sum-product) with a global cardinality function; variable
   and state names are interned to nat by the harness.  Python set/dict iteration order is the explicit
   parameter [ord].  NO proofs in this file. *)
From Coq Require Import List Arith PeanoNat Bool QArith Qcanon.
From PV Require Import Base.Semiring Base.Ravel Base.FinSum Base.RefFactor Base.Graph.
From PV Require C08.Model.
Import ListNotations.
Local Open Scope nat_scope.

Notation R := Qc_sum_csr.
Definition fac : Type := factor R.

(* A Bayesian network: DAG + one CPD factor per node (scope = node :: parents, in the CPD's own axis
   order); TabularCPD.to_factor() keeps variables and values, so the CPD *is* this factor. *)
Record bn := { bn_g : digraph; bn_cpd : var -> fac }.

Section WithCard.
Variable card : var -> nat.
Notation feval := (feval R card).
Notation fprod := (fprod R card).
Notation fmarg := (fmarg R card).
Notation fred := (fred R card).
Notation fbuild := (fbuild R card).
Notation fone := (fone R card).
Notation fcard := (fcard R card).

(* set iteration order: any function returning a permutation of its argument *)
Variable ord : forall A : Type, list A -> list A.
(* Python id() tags (fix 2ce9c42: working factors are tagged by identity).  They live in the same tuple slot as
   the variable names used as origins by the elimination loop; [idbase] is larger than every variable id, and
   every factor object created gets the next tag. *)
Variable idbase : nat.

(* ---- pgmpy.factors.factor_product(args...): copy of the single argument, else reduce(phi1 * phi2) --- *)
Definition factor_product (fs : list fac) : fac :=
  match fs with
  | [] => fone                       (* pgmpy: functools.reduce of an empty sequence raises; never for a BN *)
  | f :: r => fold_left fprod r f
  end.

(* ---- DiscreteFactor.__eq__ / __hash__: same scope *set*, same value at every named assignment.
   (hash uses the exact bytes of the canonically transposed table; __eq__ allclose(atol=1e-8): the
   harness uses dyadic inputs, for which exact rational equality coincides with both.) *)
Definition set_eqb (a b : list var) : bool :=
  forallb (fun x => memv x b) a && forallb (fun x => memv x a) b.
Definition all_idx (cs : list nat) : list (list nat) := map (unravel cs) (seq 0 (prod cs)).
Definition feqb (f g : fac) : bool :=
  set_eqb (fvars f) (fvars g) &&
  forallb (fun idx => Qc_eq_bool (feval f (asg_of (fvars f) idx)) (feval g (asg_of (fvars f) idx)))
          (all_idx (fcard f)).

Definition origin := option var.
Definition origin_eqb (a b : origin) : bool :=
  match a, b with None, None => true | Some x, Some y => Nat.eqb x y | _, _ => false end.
Definition wpair : Type := fac * origin.
(* (factor, origin) tuples compare component-wise *)
Definition peqb (q p : wpair) : bool := feqb (fst q) (fst p) && origin_eqb (snd q) (snd p).

(* Python set of (factor, origin) tuples: a list without ==-duplicates; stored element q is compared
   with the probe p as q == p *)
Definition wmem (p : wpair) (s : list wpair) : bool := existsb (fun q => peqb q p) s.
Definition wadd (p : wpair) (s : list wpair) : list wpair := if wmem p s then s else s ++ [p].
Definition wremove (p : wpair) (s : list wpair) : list wpair := filter (fun q => negb (peqb q p)) s.

(* dict var -> set *)
Definition wdict := list (var * list wpair).
Fixpoint dget (d : wdict) (v : var) : list wpair :=
  match d with [] => [] | (w, s) :: r => if Nat.eqb w v then s else dget r v end.
Fixpoint dupd (d : wdict) (v : var) (F : list wpair -> list wpair) : wdict :=
  match d with
  | [] => []
  | (w, s) :: r => if Nat.eqb w v then (w, F s) :: r else (w, s) :: dupd r v F
  end.
Definition ddel (d : wdict) (v : var) : wdict := filter (fun e => negb (Nat.eqb (fst e) v)) d.

(* ---- Inference._initialize_structures: self.factors[var] = CPD factors whose scope has var, node order *)
Definition cpd_factors (b : bn) : list fac := map (bn_cpd b) (nodes (bn_g b)).
Definition mentions (v : var) (f : fac) : bool := memv v (fvars f).
Definition factors_of (b : bn) (v : var) : list fac := filter (mentions v) (cpd_factors b).

(* ---- _get_working_factors ---------------------------------------------------------------------- *)
Definition cpd_pairs (b : bn) : list wpair :=
  map (fun ix => (bn_cpd b (snd ix), Some (idbase + fst ix)))
      (combine (seq 0 (length (nodes (bn_g b)))) (nodes (bn_g b))).
Definition init_wf (b : bn) : wdict :=
  map (fun v => (v, fold_left (fun s p => wadd p s) (filter (fun p => mentions v (fst p)) (cpd_pairs b)) []))
      (nodes (bn_g b)).

(* one (factor, origin) of working_factors[evidence_var]: reduce, then in every set of the reduced scope
   remove the old tuple and add (reduced, evidence_var) *)
Definition reduce_pair (ev : var * nat) (st : wdict * nat) (p : wpair) : wdict * nat :=
  let (d, ctr) := st in
  let fr := fred [ev] (fst p) in
  (fold_left (fun d w => dupd d w (fun s => wadd (fr, Some ctr) (wremove p s))) (fvars fr) d, S ctr).
Definition reduce_one (st : wdict * nat) (ev : var * nat) : wdict * nat :=
  let (d', ctr') := fold_left (reduce_pair ev) (ord _ (dget (fst st) (fst ev))) st in
  (ddel d' (fst ev), ctr').
Definition working_factors (b : bn) (evidence : list (var * nat)) : wdict :=
  fst (fold_left reduce_one evidence (init_wf b, idbase + length (nodes (bn_g b)))).

(* ---- the elimination loop of _variable_elimination ------------------------------------------------ *)
(* "not set(factor.variables).intersection(eliminated_variables)" *)
Definition clean (elim : list var) (f : fac) : bool := negb (existsb (fun v => memv v elim) (fvars f)).
Definition elim_step (st : wdict * list var) (v : var) : wdict * list var :=
  let (d, elim) := st in
  let fs := map fst (filter (fun p => clean elim (fst p)) (ord _ (dget d v))) in
  let phi := fmarg [v] (factor_product fs) in
  let d2 := fold_left (fun d w => dupd d w (wadd (phi, Some v))) (fvars phi) (ddel d v) in
  (d2, v :: elim).
Definition elim_loop (d : wdict) (order : list var) : wdict * list var :=
  fold_left elim_step order (d, []).

(* Step 4: the set of clean (factor, origin) over all remaining keys, then the factors *)
Definition final_pairs (st : wdict * list var) : list wpair :=
  let (d, elim) := st in
  fold_left (fun acc e =>
     fold_left (fun acc p => if clean elim (fst p) then wadd p acc else acc) (ord _ (snd e)) acc) d [].
Definition final_factors (st : wdict * list var) : list fac := map fst (ord _ (final_pairs st)).

(* ---- the same algorithm on ONE global set of tuples ("pool"): working_factors[v] is the index
        {p in pool | v in scope p} of it (proved in Proofs).  The [_chk] versions fail as soon as two
        different tuples compare equal, i.e. when Python's set would silently merge two factors. ------- *)
Definition padd (p : wpair) (P : list wpair) : list wpair :=
  match fvars (fst p) with [] => P | _ => wadd p P end.
Definition pool_init (b : bn) : list wpair := fold_left (fun P p => padd p P) (cpd_pairs b) [].
Definition pool_reduce_one (st : list wpair * nat) (ev : var * nat) : list wpair * nat :=
  fold_left (fun st p => (padd (fred [ev] (fst p), Some (snd st)) (wremove p (fst st)), S (snd st)))
            (ord _ (filter (fun p => mentions (fst ev) (fst p)) (fst st))) st.
Definition pool_evidence (b : bn) (evidence : list (var * nat)) : list wpair :=
  fst (fold_left pool_reduce_one evidence (pool_init b, idbase + length (nodes (bn_g b)))).
Definition pool_elim_step (st : list wpair * list var) (v : var) : list wpair * list var :=
  let (P, elim) := st in
  let fs := map fst (filter (fun p => clean elim (fst p)) (ord _ (filter (fun p => mentions v (fst p)) P))) in
  (padd (fmarg [v] (factor_product fs), Some v) P, v :: elim).
Definition pool_elim_loop (P : list wpair) (order : list var) := fold_left pool_elim_step order (P, []).

Definition collides (p : wpair) (P : list wpair) : bool := existsb (fun q => peqb q p || peqb p q) P.
Definition padd_chk (p : wpair) (P : list wpair) : option (list wpair) :=
  match fvars (fst p) with
  | [] => Some P
  | _ => if collides p P then None else Some (P ++ [p])
  end.
Definition ofold {A B} (f : A -> B -> option A) (l : list B) (a : A) : option A :=
  fold_left (fun o x => match o with Some a => f a x | None => None end) l (Some a).
Definition pool_init_chk (b : bn) : option (list wpair) :=
  ofold (fun P p => padd_chk p P) (cpd_pairs b) [].
Definition pool_reduce_one_chk (st : list wpair * nat) (ev : var * nat) : option (list wpair * nat) :=
  ofold (fun st p => match padd_chk (fred [ev] (fst p), Some (snd st)) (wremove p (fst st)) with
                     | Some P' => Some (P', S (snd st)) | None => None end)
        (ord _ (filter (fun p => mentions (fst ev) (fst p)) (fst st))) st.
Definition pool_evidence_chk (b : bn) (evidence : list (var * nat)) : option (list wpair) :=
  match pool_init_chk b with
  | Some P => match ofold pool_reduce_one_chk evidence (P, idbase + length (nodes (bn_g b))) with
              | Some st => Some (fst st) | None => None end
  | None => None end.
Definition pool_elim_step_chk (st : list wpair * list var) (v : var) : option (list wpair * list var) :=
  let (P, elim) := st in
  let fs := map fst (filter (fun p => clean elim (fst p)) (ord _ (filter (fun p => mentions v (fst p)) P))) in
  match padd_chk (fmarg [v] (factor_product fs), Some v) P with
  | Some P' => Some (P', v :: elim) | None => None end.
(* no two different (factor, origin) tuples ever compare equal in this run *)
Definition collision_free (b : bn) (evidence : list (var * nat)) (order : list var) : bool :=
  match pool_evidence_chk b evidence with
  | Some P => match ofold pool_elim_step_chk order (P, []) with Some _ => true | None => false end
  | None => false
  end.

(* ---- DiscreteFactor.normalize: values / values.sum() ;  numpy sum = sum over all index tuples ------- *)
Definition a0 : asg := fun _ => 0.
Definition ftotal (f : fac) : Qc := sum_over (fvars f) (fcard f) (feval f) a0.
Definition fnormalize (f : fac) : fac := fbuild (fvars f) (fun a => (feval f a / ftotal f)%Qc).

(* ---- _get_elimination_order for an explicit list (errors: 1 = mentions a query/evidence variable,
        2 = does not cover to_eliminate); nodes not in the (pruned) model are filtered out and then no
        coverage check is made, exactly as coded *)
Definition get_order_explicit (b : bn) (Q E : list var) (order : list var) : list var + nat :=
  let ns := nodes (bn_g b) in
  let to_elim := filter (fun v => negb (memv v Q) && negb (memv v E)) ns in
  if existsb (fun v => memv v order) (Q ++ E) then inr 1
  else if existsb (fun v => negb (memv v ns)) order then inl (filter (fun v => memv v ns) order)
  else if set_eqb to_elim order then inl order else inr 2.
(* elimination_order=None: the set to_eliminate in iteration order *)
Definition get_order_none (b : bn) (Q E : list var) : list var :=
  ord _ (filter (fun v => negb (memv v Q) && negb (memv v E)) (nodes (bn_g b))).

(* ---- _variable_elimination(variables, "marginalize", evidence, order, joint) on a BayesianNetwork ---- *)
Definition ve_final (b : bn) (evidence : list (var * nat)) (order : list var) : list fac :=
  final_factors (elim_loop (working_factors b evidence) order).
Definition ve_joint (b : bn) (evidence : list (var * nat)) (order : list var) : fac :=
  fnormalize (factor_product (ve_final b evidence order)).
(* joint=False: for every query variable marginalise the others out of the product, normalise *)
Definition ve_per_variable (b : bn) (Q : list var) (evidence : list (var * nat)) (order : list var)
  : list (var * fac) :=
  let fin := ve_final b evidence order in
  map (fun q => (q, fnormalize (fmarg (filter (fun x => negb (Nat.eqb x q)) Q) (factor_product fin)))) Q.

(* ---- the greedy branch of query: einsum of the evidence-sliced CPD arrays (only those with a free
        variable) to the output indices [Q]; einsum sums over every index that is not an output ---------- *)
Definition greedy_factors (b : bn) (evidence : list (var * nat)) : list fac :=
  map (fred evidence)
      (filter (fun f => negb (forallb (fun v => memv v (map fst evidence)) (fvars f))) (cpd_factors b)).
Fixpoint dedupv (l : list var) : list var :=
  match l with [] => [] | x :: r => if memv x r then dedupv r else x :: dedupv r end.
Definition greedy_contract (b : bn) (Q : list var) (evidence : list (var * nat)) : fac :=
  let fs := greedy_factors b evidence in
  let summed := filter (fun v => negb (memv v Q)) (dedupv (flat_map (@fvars R) fs)) in
  fbuild Q (sum_over summed (map card summed) (eval_prod R card fs)).
Definition greedy_joint (b : bn) (Q : list var) (evidence : list (var * nat)) : fac :=
  fnormalize (greedy_contract b Q evidence).
Definition greedy_per_variable (b : bn) (Q : list var) (evidence : list (var * nat)) : list (var * fac) :=
  let res := greedy_contract b Q evidence in
  map (fun q => (q, fnormalize (fmarg (filter (fun x => negb (Nat.eqb x q)) Q) res))) Q.

(* ---- _prune_bayesian_model ------------------------------------------------------------------------- *)
(* TabularCPD.marginalize(vars): sum the parents out, then normalize(): divide by the sum over the
   CPD's own variable (axis 0) *)
Definition cpd_marginalize (X : list var) (f : fac) : fac :=
  let m := fmarg X f in
  match fvars m with
  | [] => m
  | x :: _ => fbuild (fvars m) (fun a => (feval m a / sum_over [x] [card x] (feval m) a)%Qc)
  end.
Definition prune (b : bn) (Q : list var) (evidence : list (var * nat)) : bn * list (var * nat) :=
  let g := bn_g b in
  let E := map fst evidence in
  let variables := match Q with [] => nodes g | _ => Q end in
  let dcon := flat_map (fun q => C08.Model.active_trail_nodes g q E) variables ++ E in
  let g1 := C08.Model.induced g dcon in
  let ev' := filter (fun e => memn (fst e) dcon) evidence in
  let g2 := C08.Model.ancestral_graph g1 (variables ++ map fst ev') in
  let keep := nodes g2 in
  ({| bn_g := g2;
      bn_cpd := fun v => let c := bn_cpd b v in
                         let diff := filter (fun x => negb (memv x keep)) (fvars c) in
                         match diff with [] => c | _ => cpd_marginalize diff c end |}, ev').

(* ---- _virtual_evidence: for each (var, new node, likelihood vector v): edge var -> new, CPD of the
        binary new node over [new; var] = vstack(v, 1 - v).  The code picks a FRESH name for the child of every
        entry ("__" + str(var), prefixed by "_" while that is a node of the copy: fix a6b57c2); the model is given a
        fresh node id per entry by its caller (the theorems state this as: the ids are distinct and not nodes of
        the network).  Two entries on one variable therefore both count. --------- *)
(* A virtual evidence lists the states of its variable in [given] (indices into the model's own state list).
   The code puts that list on the parent axis of the new CPD; BayesianNetwork.check_model (run by
   Inference.__init__ on the augmented copy) then raises ValueError unless it IS the model's list.  So:
   accepted iff the order is the model's; an accepted virtual evidence is applied positionally. *)
Definition vev_accepted (model_states given : list nat) : bool :=
  Nat.eqb (length model_states) (length given) && forallb (fun p => Nat.eqb (fst p) (snd p)) (combine model_states given).
(* The argument checks of query, in the order the code makes them (0 = accepted; every other code is a ValueError):
   3 = a variable is both queried and observed (Step 1 of query);
   4 = a virtual evidence on a variable that is not in the model, 5 = ... whose cardinality is not the model's
       (_check_virtual_evidence, in list order: the FIRST offending entry decides, later entries are not reached);
   6 = ... whose state list is not the model's own (check_model on the augmented copy).
   A rejected call leaves the engine as it was (491df91). *)
Fixpoint check_vev (nodes : list var) (card : var -> nat) (vev : list (var * nat * list nat)) : nat :=
  match vev with
  | [] => 0
  | (x, c, _) :: r => if negb (memv x nodes) then 4 else if negb (Nat.eqb c (card x)) then 5 else check_vev nodes card r
  end.
Definition query_rejects (nodes : list var) (card : var -> nat) (Q E : list var) (vev : list (var * nat * list nat)) : nat :=
  if existsb (fun q => memv q E) Q then 3
  else match check_vev nodes card vev with
       | 0 => if forallb (fun t => vev_accepted (seq 0 (card (fst (fst t)))) (snd t)) vev then 0 else 6
       | c => c
       end.
Definition virt_cpd (nv x : var) (vals : list Qc) : fac :=
  Build_factor R [nv; x] (vals ++ map (fun q => (1 - q)%Qc) vals).
Definition add_virtual (b : bn) (ve : var * var * list Qc) : bn :=
  let '(x, nv, vals) := ve in
  let g := bn_g b in
  {| bn_g := {| nodes := if memn nv (nodes g) then nodes g else nodes g ++ [nv];
                edges := if has_edge g x nv then edges g else edges g ++ [(x, nv)] |};
     bn_cpd := fun v => if Nat.eqb v nv then virt_cpd nv x vals else bn_cpd b v |}.
Definition virtual_model (b : bn) (vev : list (var * var * list Qc)) : bn := fold_left add_virtual vev b.
(* {**evidence, **virt_evidence}: later keys override *)
Definition virtual_evidence (evidence : list (var * nat)) (vev : list (var * var * list Qc)) : list (var * nat) :=
  fold_left (fun ev t => let nv := snd (fst t) in
                         if memv nv (map fst ev)
                         then map (fun e => if Nat.eqb (fst e) nv then (nv, 0) else e) ev
                         else ev ++ [(nv, 0)]) vev evidence.

(* ---- EliminationOrder.py: BaseEliminationOrder.get_elimination_order -------------------------------- *)
(* first minimum in iteration order: min(scores, key=scores.get) *)
Fixpoint argmin (cost : var -> nat) (l : list var) (best : var) : var :=
  match l with
  | [] => best
  | x :: r => argmin cost r (if Nat.ltb (cost x) (cost best) then x else best)
  end.
(* cost may look at the nodes already removed from bayesian_model / moralized_model *)
Fixpoint order_loop (fuel : nat) (cost : list var -> var -> nat) (todo removed : list var) : list var :=
  match fuel, todo with
  | S k, x :: r =>
      let m := argmin (cost removed) r x in
      m :: order_loop k cost (filter (fun y => negb (Nat.eqb y m)) todo) (m :: removed)
  | _, _ => []
  end.
Definition moral_nbrs (g : digraph) (removed : list var) (v : var) : list var :=
  filter (fun u => negb (memv u removed) && negb (Nat.eqb u v) &&
                   existsb (fun e => (Nat.eqb (fst e) u && Nat.eqb (snd e) v) ||
                                     (Nat.eqb (fst e) v && Nat.eqb (snd e) u)) (C08.Model.moral_edges g))
         (nodes g).
Definition cost_minneighbors g removed v := length (moral_nbrs g removed v).
Definition cost_minweight g removed v := prod (map card (moral_nbrs g removed v)).
Definition cost_weightedminfill g removed v :=
  fold_right Nat.add 0 (map (fun e => card (fst e) * card (snd e)) (C08.Model.pairs (moral_nbrs g removed v))).
(* fill_in_edges uses DiGraph.neighbors = successors of the (shrinking) directed model *)
Definition cost_minfill g removed v :=
  length (C08.Model.pairs (filter (fun u => negb (memv u removed)) (C08.Model.dedup (children g v)))).
Definition heuristic_cost (h : nat) (g : digraph) : list var -> var -> nat :=
  match h with
  | 0 => cost_weightedminfill g
  | 1 => cost_minneighbors g
  | 2 => cost_minweight g
  | _ => cost_minfill g
  end.
Definition heuristic_order (h : nat) (g : digraph) (todo : list var) : list var :=
  order_loop (length todo) (heuristic_cost h g) (ord _ todo) [].

(* ---- query ------------------------------------------------------------------------------------------ *)
Inductive eo := EoGreedy | EoHeur (h : nat) | EoNone | EoList (l : list var).

Definition resolve_order (b : bn) (Q E : list var) (e : eo) : list var + nat :=
  let to_elim := filter (fun v => negb (memv v Q) && negb (memv v E)) (nodes (bn_g b)) in
  match e with
  | EoGreedy => inl []
  | EoHeur h => inl (heuristic_order h (bn_g b) to_elim)
  | EoNone => inl (get_order_none b Q E)
  | EoList l => get_order_explicit b Q E l
  end.

(* query(variables=Q, evidence, virtual_evidence=vev, elimination_order, joint) -> per result factor *)
Definition query (b : bn) (Q : list var) (evidence : list (var * nat)) (vev : list (var * var * list Qc))
  (e : eo) (joint : bool) : list (var * fac) + nat :=
  let b1 := virtual_model b vev in
  let ev1 := virtual_evidence evidence vev in
  let (b2, ev2) := prune b1 Q ev1 in
  match e with
  | EoGreedy => inl (if joint then [(0, greedy_joint b2 Q ev2)] else greedy_per_variable b2 Q ev2)
  | _ =>
    match resolve_order b2 Q (map fst ev2) e with
    | inr c => inr c
    | inl order =>
        inl (if joint then [(0, ve_joint b2 ev2 order)] else ve_per_variable b2 Q ev2 order)
    end
  end.

(* A session on ONE engine: query keeps no state between calls (after e568f1b the engine's model is restored
   after virtual evidence; nothing is cached), so the k-th answer is the single-query answer of the k-th request *)
Definition request : Type := (list var * list (var * nat) * list (var * var * list Qc) * eo * bool)%type.
Definition run_request (b : bn) (r : request) : list (var * fac) + nat :=
  let '(Q, ev, vev, e, joint) := r in query b Q ev vev e joint.
Definition session (b : bn) (rs : list request) : list (list (var * fac) + nat) := map (run_request b) rs.
End WithCard.
