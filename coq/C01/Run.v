(* C01 entry points for the extracted driver: sx -> sx *)
From Coq Require Import List Bool Arith ZArith QArith Qcanon.
From PV Require Import Base.Sx Base.Semiring Base.Ravel Base.FinSum Base.RefFactor Base.Graph C01.Model C01.Spec.
Import ListNotations.
Local Open Scope nat_scope.

Fixpoint lookup_nat (l : list (nat * nat)) (v : nat) : nat :=
  match l with [] => 0 | (w, c) :: r => if Nat.eqb w v then c else lookup_nat r v end.
Definition card_of (l : list (nat * nat)) : var -> nat := lookup_nat l.
(* identity tags start above every variable id *)
Definition idbase_of (l : list (nat * nat)) : nat := S (fold_right Nat.max 0 (map fst l)).

Definition mk_factor (vs : list var) (vals : list Qc) : fac := Build_factor R vs vals.
Fixpoint lookup_cpd (card : var -> nat) (l : list (var * (list var * list Qc))) (v : var) : fac :=
  match l with
  | [] => fone R card
  | (w, (vs, vals)) :: r => if Nat.eqb w v then mk_factor vs vals else lookup_cpd card r v
  end.

Definition dec_bn (card : var -> nat) (sn se sc : sx) : option bn :=
  match sx_list sx_nat sn, sx_list (sx_pair sx_nat sx_nat) se,
        sx_list (sx_pair sx_nat (sx_pair (sx_list sx_nat) (sx_list sx_Qc))) sc with
  | Some ns, Some es, Some cs =>
      Some {| bn_g := {| nodes := ns; edges := es |}; bn_cpd := lookup_cpd card cs |}
  | _, _, _ => None
  end.

Definition dec_eo (s : sx) : option eo :=
  match s with
  | SL [SZ 0%Z] => Some EoGreedy
  | SL [SZ 1%Z; h] => match sx_nat h with Some h => Some (EoHeur h) | None => None end
  | SL [SZ 2%Z] => Some EoNone
  | SL [SZ 3%Z; l] => match sx_list sx_nat l with Some l => Some (EoList l) | None => None end
  | _ => None
  end.

Definition ord_of (flag : bool) : forall A : Type, list A -> list A :=
  fun A l => if flag then rev l else l.

Definition of_fac (f : fac) : sx := SL [of_list of_nat (fvars f); of_list of_Qc (fvals f)].

(* [cards nodes edges cpds Q evidence vev eo joint ordflag]
   -> [collision_free; [(q, [scope, values])...]]     errors: 1/2 = elimination-order ValueErrors *)
Definition run_c01_query (s : sx) : sx :=
  match s with
  | SL [scard; sn; se; sc; sq; sev; svev; seo; sj; so] =>
    match sx_list (sx_pair sx_nat sx_nat) scard with
    | Some cl =>
      let card := card_of cl in
      match dec_bn card sn se sc, sx_list sx_nat sq, sx_list (sx_pair sx_nat sx_nat) sev,
            sx_list (sx_triple sx_nat sx_nat (sx_list sx_Qc)) svev, dec_eo seo, sx_bool sj, sx_bool so with
      | Some b, Some Q, Some ev, Some vev, Some e, Some joint, Some oflag =>
          let ord := ord_of oflag in
          let b1 := virtual_model b vev in
          let ev1 := virtual_evidence ev vev in
          let (b2, ev2) := prune card b1 Q ev1 in
          let cf := match resolve_order card ord b2 Q (map fst ev2) e with
                    | inl order => collision_free card ord (idbase_of cl) b2 ev2 order
                    | inr _ => true end in
          match query card ord (idbase_of cl) b Q ev vev e joint with
          | inl res => sx_ok (SL [of_bool cf; of_list (of_pair of_nat of_fac) res;
                                  of_list of_nat (nodes (bn_g b2))])
          | inr c => sx_err (Z.of_nat c)
          end
      | _, _, _, _, _, _, _ => bad_request
      end
    | None => bad_request
    end
  | _ => bad_request
  end.

(* [cards nodes edges cpds Q evidence vev(var, likelihood)] -> [P(e); unnormalised table over Q, row-major] *)
Definition run_c01_spec (s : sx) : sx :=
  match s with
  | SL [scard; sn; se; sc; sq; sev; svev] =>
    match sx_list (sx_pair sx_nat sx_nat) scard with
    | Some cl =>
      let card := card_of cl in
      match dec_bn card sn se sc, sx_list sx_nat sq, sx_list (sx_pair sx_nat sx_nat) sev,
            sx_list (sx_pair sx_nat (sx_list sx_Qc)) svev with
      | Some b, Some Q, Some ev, Some vev =>
          sx_ok (SL [of_Qc (pev card b Q ev vev);
                     of_list of_Qc (map (fun idx => unnorm card b Q ev vev (asg_of Q idx))
                                        (all_idx (map card Q)))])
      | _, _, _, _ => bad_request
      end
    | None => bad_request
    end
  | _ => bad_request
  end.

(* [cards nodes edges h todo ordflag] -> the heuristic's elimination order *)
Definition run_c01_order (s : sx) : sx :=
  match s with
  | SL [scard; sn; se; sh; st; so] =>
    match sx_list (sx_pair sx_nat sx_nat) scard, sx_list sx_nat sn, sx_list (sx_pair sx_nat sx_nat) se,
          sx_nat sh, sx_list sx_nat st, sx_bool so with
    | Some cl, Some ns, Some es, Some h, Some todo, Some oflag =>
        sx_ok (of_list of_nat
                 (heuristic_order (card_of cl) (ord_of oflag) h {| nodes := ns; edges := es |} todo))
    | _, _, _, _, _, _ => bad_request
    end
  | _ => bad_request
  end.

(* [nodes edges Q evidence-vars] -> nodes kept by _prune_bayesian_model *)
Definition run_c01_prune (s : sx) : sx :=
  match s with
  | SL [sn; se; sq; sev] =>
    match sx_list sx_nat sn, sx_list (sx_pair sx_nat sx_nat) se, sx_list sx_nat sq, sx_list sx_nat sev with
    | Some ns, Some es, Some Q, Some E =>
        let b := {| bn_g := {| nodes := ns; edges := es |}; bn_cpd := fun _ => fone R (fun _ => 1) |} in
        sx_ok (of_list of_nat (nodes (bn_g (fst (prune (fun _ => 1) b Q (map (fun e => (e, 0)) E))))))
    | _, _, _, _ => bad_request
    end
  | _ => bad_request
  end.

(* [model state list, given state list] -> is a virtual evidence with that state order accepted *)
Definition run_c01_vevok (s : sx) : sx :=
  match s with
  | SL [a; b] =>
    match sx_list sx_nat a, sx_list sx_nat b with
    | Some ms, Some gs => sx_ok (of_bool (vev_accepted ms gs))
    | _, _ => bad_request
    end
  | _ => bad_request
  end.

(* [cards nodes Q Evars vev(var, given card, given state order)] -> 0 accepted | 3/4/5/6 = the ValueError the code raises *)
Definition run_c01_reject (s : sx) : sx :=
  match s with
  | SL [scard; sn; sq; se; sv] =>
    match sx_list (sx_pair sx_nat sx_nat) scard, sx_list sx_nat sn, sx_list sx_nat sq, sx_list sx_nat se,
          sx_list (sx_triple sx_nat sx_nat (sx_list sx_nat)) sv with
    | Some cl, Some ns, Some Q, Some E, Some vev => sx_ok (of_nat (query_rejects ns (card_of cl) Q E vev))
    | _, _, _, _, _ => bad_request
    end
  | _ => bad_request
  end.
