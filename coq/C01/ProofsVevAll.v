(* C01 proofs, part 15: [query] WITH virtual evidence, end to end.  The network augmented by _virtual_evidence (a
   fresh binary child per entry, CPD rows v and 1 - v) is again a valid network with non-negative entries whose
   CPDs have their own variable first, so C01.ProofsDsepAll.query_end_to_end applies to it; with
   ProofsVirt.virtual_unnorm the answer is the likelihood-weighted posterior of the ORIGINAL network. *)
From Coq Require Import List Arith Lia PeanoNat Bool QArith Qcanon Permutation.
From PV Require Import Base.Semiring Base.Ravel Base.FinSum Base.RefFactor Base.VE Base.Graph
  C01.Model C01.Spec C01.Proofs C01.ProofsElim C01.ProofsMisc C01.ProofsIdx C01.ProofsFinal C01.ProofsEvid
  C01.ProofsQuery C01.ProofsPost C01.ProofsPrune C01.ProofsGreedy C01.ProofsVirt C01.ProofsDsepAll.
Import ListNotations.
Local Open Scope nat_scope.

Section V.
Variable card : var -> nat.
Notation feval := (feval R card).
Notation valid := (valid card).

Lemma nth_second_row (vals : list Qc) (f : Qc -> Qc) i d d' : i < length vals ->
  nth (length vals + i) (vals ++ map f vals) d = f (nth i vals d').
Proof.
  intros Hi. rewrite app_nth2 by lia. replace (length vals + i - length vals) with i by lia.
  rewrite (nth_indep (map f vals) d (f d')) by (rewrite map_length; exact Hi). apply map_nth.
Qed.

Lemma feval_virt1 nv x vals (z : asg) : card nv = 2 -> length vals = card x -> z nv = 1 -> z x < card x ->
  feval (virt_cpd nv x vals) z = (1 - nth (z x) vals 0)%Qc.
Proof.
  intros Hc Hl Hz Hx. unfold RefFactor.feval, virt_cpd, fcard, t_get. cbn [fvars fvals map ravel prod fold_right].
  rewrite Hz. rewrite Nat.mul_1_l, !Nat.mul_1_r, ?Nat.add_0_r. rewrite <- Hl.
  apply (nth_second_row vals (fun q => (1 - q)%Qc) (z x) (@zero R) 0%Qc). rewrite Hl. exact Hx.
Qed.

(* everything the end-to-end theorem asks of a network *)
Definition good (idbase : nat) (b : bn) : Prop :=
  valid_bn card b /\
  (forall x, In x (nodes (bn_g b)) -> forall a, valid a -> (0 <= feval (bn_cpd b x) a)%Qc) /\
  (forall x, In x (nodes (bn_g b)) -> exists r, fvars (bn_cpd b x) = x :: r) /\
  (forall v, In v (nodes (bn_g b)) -> v < idbase).

Lemma dpath_source g a c : dpath g a c -> a = c \/ exists w, In (a, w) (edges g).
Proof.
  intros H. revert a c H. apply (dpath_ind_left g (fun a c => a = c \/ exists w, In (a, w) (edges g))).
  - intros u. left. reflexivity.
  - intros u v w He _ _. right. exists v. exact He.
Qed.

Lemma add_virtual_good idbase b x nv vals :
  good idbase b -> In x (nodes (bn_g b)) -> ~ In nv (nodes (bn_g b)) -> nv < idbase ->
  card nv = 2 -> length vals = card x -> (forall q, In q vals -> (0 <= q)%Qc /\ (q <= 1)%Qc) ->
  good idbase (add_virtual b (x, nv, vals)) /\
  nodes (bn_g (add_virtual b (x, nv, vals))) = nodes (bn_g b) ++ [nv].
Proof.
  intros [Hbn [Hnn [Hhd Hid]]] Hx Hnv Hlt Hc Hl Hv01.
  pose proof Hbn as [[Hnd Hed] [Hac Hcpd]].
  set (g := bn_g b) in *. set (b' := add_virtual b (x, nv, vals)).
  assert (Hxnv : x <> nv) by (intros ->; contradiction).
  assert (Hns : nodes (bn_g b') = nodes g ++ [nv]).
  { unfold b', add_virtual. cbn [bn_g nodes]. fold g.
    assert (Hm : memn nv (nodes g) = false) by (apply memn_false; exact Hnv). rewrite Hm. reflexivity. }
  assert (Hes : edges (bn_g b') = edges g ++ [(x, nv)]).
  { unfold b', add_virtual. cbn [bn_g edges]. fold g.
    destruct (has_edge g x nv) eqn:E; [|reflexivity]. apply has_edge_In in E. apply Hed in E. tauto. }
  assert (Hedge : forall u v, In (u, v) (edges (bn_g b')) <-> In (u, v) (edges g) \/ (u = x /\ v = nv)).
  { intros u v. rewrite Hes, in_app_iff. cbn [In]. split; [intros [H|[H|[]]]; [tauto|inversion H; tauto]|].
    intros [H|[-> ->]]; tauto. }
  assert (Hcpd_old : forall v, v <> nv -> bn_cpd b' v = bn_cpd b v).
  { intros v Hne. unfold b', add_virtual. cbn [bn_cpd]. apply Nat.eqb_neq in Hne. rewrite Hne. reflexivity. }
  assert (Hcpd_new : bn_cpd b' nv = virt_cpd nv x vals).
  { unfold b', add_virtual. cbn [bn_cpd]. rewrite Nat.eqb_refl. reflexivity. }
  assert (Hold_ne : forall v, In v (nodes g) -> v <> nv) by (intros v Hv ->; contradiction).
  assert (Hnosrc : forall w, ~ In (nv, w) (edges g)) by (intros w H; apply Hed in H; tauto).
  assert (Hdp : forall a c, dpath (bn_g b') a c -> dpath g a c \/ c = nv).
  { intros a c H. induction H as [a|a c d _ IH He]; [left; apply dpath_refl|].
    apply Hedge in He. destruct He as [He|[_ ->]]; [|right; reflexivity].
    destruct IH as [IH|E]; [left; eapply dpath_step; eassumption|]. subst c. exfalso. exact (Hnosrc d He). }
  assert (Hnn_virt : forall a, valid a -> (0 <= feval (virt_cpd nv x vals) a)%Qc).
  { intros a Ha. pose proof (Ha nv) as Hr. rewrite Hc in Hr. pose proof (Ha x) as Hrx.
    assert (Hin : In (nth (a x) vals 0%Qc) vals) by (apply nth_In; rewrite Hl; exact Hrx).
    destruct (Hv01 _ Hin) as [H0 H1].
    destruct (a nv) as [|[|k]] eqn:E; [| |lia].
    - rewrite (feval_virt card nv x vals a Hc Hl E Hrx). exact H0.
    - rewrite (feval_virt1 nv x vals a Hc Hl E Hrx). unfold Qcminus.
      apply (proj1 (Qcle_minus_iff (nth (a x) vals 0%Qc) 1%Qc)). exact H1. }
  split; [|exact Hns]. split; [|split; [|split]].
  - (* valid_bn *)
    split; [split|split].
    + rewrite Hns. apply NoDup_app_disj; [exact Hnd|constructor; [intros []|constructor]|]. intros y Hy [<-|[]]. contradiction.
    + intros u v He. apply Hedge in He. rewrite Hns, !in_app_iff. cbn [In]. destruct He as [He|[-> ->]]; [apply Hed in He; tauto|tauto].
    + intros u v He Hp. apply Hedge in He. destruct (Hdp v u Hp) as [Hp'|Hu].
      * destruct He as [He|[-> ->]]; [exact (Hac u v He Hp')|].
        destruct (dpath_source g nv x Hp') as [E|[w Hw]]; [congruence|exact (Hnosrc w Hw)].
      * subst u. destruct He as [He|[E _]]; [exact (Hnosrc v He)|congruence].
    + intros v Hv. rewrite Hns in Hv. apply in_app_or in Hv. destruct Hv as [Hv|[<-|[]]].
      * rewrite (Hcpd_old v (Hold_ne v Hv)). destruct (Hcpd v Hv) as [H1 [H2 H3]]. split; [exact H1|]. split; [|exact H3].
        intros u. rewrite H2, !In_parents, Hedge. split; [tauto|].
        intros [H|[H|[_ E]]]; [tauto|tauto|]. exfalso. exact (Hold_ne v Hv E).
      * rewrite Hcpd_new. split; [|split].
        -- split; [cbn [virt_cpd fvars]; constructor; [intros [E|[]]; congruence|constructor; [intros []|constructor]]|].
           unfold virt_cpd, fcard. cbn [fvars fvals map prod fold_right]. rewrite app_length, map_length, Hc, Hl. lia.
        -- intros u. cbn [virt_cpd fvars In]. rewrite In_parents, Hedge. split.
           ++ intros [<-|[<-|[]]]; [left; reflexivity|right; right; tauto].
           ++ intros [->|[H|[-> _]]]; [tauto| |tauto]. apply Hed in H. tauto.
        -- intros a Ha. cbn [sum_over]. rewrite Hc. cbn [seq map sum_list fold_right].
           pose proof (Ha x) as Hrx.
           rewrite (feval_virt card nv x vals (upd a nv 0) Hc Hl (upd_same a nv 0)) by (rewrite upd_other by exact Hxnv; exact Hrx).
           rewrite (feval_virt1 nv x vals (upd a nv 1) Hc Hl (upd_same a nv 1)) by (rewrite upd_other by exact Hxnv; exact Hrx).
           rewrite !upd_other by exact Hxnv. set (q := nth (a x) vals 0%Qc). change (q + ((1 - q) + 0) = 1)%Qc. ring.
  - intros v Hv a Ha. rewrite Hns in Hv. apply in_app_or in Hv. destruct Hv as [Hv|[<-|[]]].
    + rewrite (Hcpd_old v (Hold_ne v Hv)). apply Hnn; assumption.
    + rewrite Hcpd_new. apply Hnn_virt. exact Ha.
  - intros v Hv. rewrite Hns in Hv. apply in_app_or in Hv. destruct Hv as [Hv|[<-|[]]].
    + rewrite (Hcpd_old v (Hold_ne v Hv)). apply Hhd. exact Hv.
    + rewrite Hcpd_new. exists [x]. reflexivity.
  - intros v Hv. rewrite Hns in Hv. apply in_app_or in Hv. destruct Hv as [Hv|[<-|[]]]; [apply Hid; exact Hv|exact Hlt].
Qed.

Definition vev_ok (idbase : nat) (b : bn) (ev : list (var * nat)) (vev : list (var * var * list Qc)) : Prop :=
  NoDup (map (fun t => snd (fst t)) vev) /\
  forall t, In t vev ->
    In (fst (fst t)) (nodes (bn_g b)) /\ ~ In (snd (fst t)) (nodes (bn_g b)) /\ ~ In (snd (fst t)) (map fst ev) /\
    snd (fst t) < idbase /\ card (snd (fst t)) = 2 /\ length (snd t) = card (fst (fst t)) /\
    forall q, In q (snd t) -> (0 <= q)%Qc /\ (q <= 1)%Qc.

Lemma virtual_model_good idbase vev : forall b ev, good idbase b -> vev_ok idbase b ev vev ->
  good idbase (virtual_model b vev) /\
  (forall v, In v (nodes (bn_g (virtual_model b vev))) <->
             In v (nodes (bn_g b)) \/ In v (map (fun t => snd (fst t)) vev)).
Proof.
  induction vev as [|[[x nv] vals] vev IH]; intros b ev Hg [Hnd Hall].
  - split; [exact Hg|]. intros v. cbn. tauto.
  - cbn [map fst snd] in Hnd. inversion Hnd as [|? ? Hnv Hnd']; subst.
    destruct (Hall (x, nv, vals) (or_introl eq_refl)) as [A1 [A2 [A3 [A4 [A5 [A6 A7]]]]]]. cbn [fst snd] in *.
    destruct (add_virtual_good idbase b x nv vals Hg A1 A2 A4 A5 A6 A7) as [Hg1 Hns1].
    set (b' := add_virtual b (x, nv, vals)) in *.
    assert (Hiff : forall v, In v (nodes (bn_g b')) <-> In v (nodes (bn_g b)) \/ v = nv).
    { intros v. split.
      - intros H. assert (H' : In v (nodes (bn_g b) ++ [nv])) by (exact (eq_ind _ (fun l => In v l) H _ Hns1)).
        apply in_app_or in H'. cbn [In] in H'. intuition.
      - intros H. apply (eq_ind_r (fun l => In v l)) with (2 := Hns1). apply in_or_app. cbn [In]. intuition. }
    change (virtual_model b ((x, nv, vals) :: vev)) with (virtual_model b' vev).
    destruct (IH b' ev Hg1) as [Hg2 Hn2].
    + split; [exact Hnd'|]. intros t Ht. destruct (Hall t (or_intror Ht)) as [B1 [B2 [B3 [B4 [B5 [B6 B7]]]]]].
      split; [apply Hiff; left; exact B1|]. split; [|tauto].
      intros Hi. apply Hiff in Hi. destruct Hi as [Hi|E]; [contradiction|]. apply Hnv. rewrite <- E.
      apply (in_map (fun t => snd (fst t)) vev t Ht).
    + split; [exact Hg2|]. intros v. rewrite Hn2, Hiff. cbn [In map fst snd]. intuition.
Qed.

Lemma virtual_evidence_app vev : forall ev,
  NoDup (map (fun t => snd (fst t)) vev) -> (forall t, In t vev -> ~ In (snd (fst t)) (map fst ev)) ->
  virtual_evidence ev vev = ev ++ map (fun t => (snd (fst t), 0)) vev.
Proof.
  induction vev as [|[[x nv] vals] vev IH]; intros ev Hnd Hfr; [symmetry; apply app_nil_r|].
  cbn [map fst snd] in Hnd. inversion Hnd as [|? ? Hnv Hnd']; subst.
  assert (Hm : memv nv (map fst ev) = false) by (apply memv_false; exact (Hfr (x, nv, vals) (or_introl eq_refl))).
  transitivity (virtual_evidence (ev ++ [(nv, 0)]) vev).
  { unfold virtual_evidence. cbn [fold_left fst snd]. rewrite Hm. reflexivity. }
  rewrite IH; [cbn [map fst snd]; rewrite <- app_assoc; reflexivity|exact Hnd'|].
  intros t Ht. rewrite map_app. cbn [map fst]. intros Hi. apply in_app_or in Hi. destruct Hi as [Hi|[E|[]]].
  - exact (Hfr t (or_intror Ht) Hi).
  - apply Hnv. rewrite E. apply (in_map (fun t => snd (fst t)) vev t Ht).
Qed.
End V.

(* ---- query WITH virtual evidence, as one statement --------------------------------------------------------- *)
Section Q.
Variable card : var -> nat.
Variable ord : forall A : Type, list A -> list A.
Variable idbase : nat.
Hypothesis Hord : forall A (l : list A), Permutation (ord A l) l.
Hypothesis Hc : forall v, 0 < card v.
Variable b : bn.
Variable Q : list var.
Variable ev : list (var * nat).
Variable vev : list (var * var * list Qc).
Hypothesis Hgood : good card idbase b.
Hypothesis Hvev : vev_ok card idbase b ev vev.
Hypothesis Hev_nd : NoDup (map fst ev).
Hypothesis Hev_in : forall x, In x (map fst ev) -> In x (nodes (bn_g b)).
Hypothesis Hev_rng : forall e, In e ev -> snd e < card (fst e).
Hypothesis HQ_nd : NoDup Q.
Hypothesis HQ_ne : Q <> [].
Hypothesis HQ : forall q, In q Q -> In q (nodes (bn_g b)) /\ ~ In q (map fst ev).
Hypothesis Hpe : pev card b Q ev (likelihoods vev) <> 0%Qc.

Let b1 := virtual_model b vev.
Let ev1 := virtual_evidence ev vev.
Let nvs := map (fun t => snd (fst t)) vev.

Lemma ev1_eq : ev1 = ev ++ map (fun t => (snd (fst t), 0)) vev.
Proof. apply virtual_evidence_app; [apply Hvev|]. intros t Ht. apply (proj2 Hvev t Ht). Qed.
Lemma fst_ev1 : map fst ev1 = map fst ev ++ nvs.
Proof. rewrite ev1_eq, map_app, map_map. reflexivity. Qed.

Lemma unnorm1 a : valid card a -> unnorm card b1 Q ev1 [] a = unnorm card b Q ev (likelihoods vev) a.
Proof.
  intros Ha. unfold b1, ev1.
  rewrite (virtual_unnorm card Q vev b ev [] a (valid_scoped card b (proj1 Hgood)) (proj1 Hvev)); [rewrite app_nil_r; reflexivity| |exact Hev_rng|exact Ha].
  intros t Ht. destruct (proj2 Hvev t Ht) as [A1 [A2 [A3 [A4 [A5 [A6 A7]]]]]]. repeat split; try assumption. intros w [].
Qed.
Lemma pev1 : pev card b1 Q ev1 [] = pev card b Q ev (likelihoods vev).
Proof.
  unfold pev. apply (sum_over_ext_valid R card Q); [intros v; apply Hc|]. intros a Ha. apply unnorm1. exact Ha.
Qed.

Lemma side_conditions :
  good card idbase b1 /\ NoDup (map fst ev1) /\ (forall x, In x (map fst ev1) -> In x (nodes (bn_g b1))) /\
  (forall e, In e ev1 -> snd e < card (fst e)) /\
  (forall q, In q Q -> In q (nodes (bn_g b1)) /\ ~ In q (map fst ev1)).
Proof.
  destruct (virtual_model_good card idbase vev b ev Hgood Hvev) as [Hg1 Hn1]. fold b1 in Hg1, Hn1. fold nvs in Hn1.
  split; [exact Hg1|]. split; [|split; [|split]].
  - rewrite fst_ev1. apply NoDup_app_disj; [exact Hev_nd|apply Hvev|]. intros v Hv Hi.
    unfold nvs in Hi. apply in_map_iff in Hi. destruct Hi as [t [<- Ht]]. destruct (proj2 Hvev t Ht) as [_ [_ [A3 _]]]. contradiction.
  - intros v Hv. rewrite fst_ev1 in Hv. apply Hn1. apply in_app_or in Hv. destruct Hv as [Hv|Hv]; [left; apply Hev_in; exact Hv|right; exact Hv].
  - intros e He. rewrite ev1_eq in He. apply in_app_or in He. destruct He as [He|He]; [apply Hev_rng; exact He|].
    apply in_map_iff in He. destruct He as [t [<- Ht]]. cbn [fst snd]. destruct (proj2 Hvev t Ht) as [_ [_ [_ [_ [A5 _]]]]]. rewrite A5. lia.
  - intros q Hq. destruct (HQ q Hq) as [H1 H2]. split; [apply Hn1; left; exact H1|]. rewrite fst_ev1. intros Hi.
    apply in_app_or in Hi. destruct Hi as [Hi|Hi]; [contradiction|]. unfold nvs in Hi. apply in_map_iff in Hi.
    destruct Hi as [t [E Ht]]. destruct (proj2 Hvev t Ht) as [_ [A2 _]]. apply A2. rewrite E. exact H1.
Qed.

Theorem query_vev_end_to_end (e : eo) :
  (e = EoGreedy \/ e = EoNone \/ exists h, e = EoHeur h) ->
  exists f, query card ord idbase b Q ev vev e true = inl [(0, f)] /\
            forall a, valid card a -> feval R card f a = posterior card b Q ev (likelihoods vev) a.
Proof.
  intros He. destruct side_conditions as [[Hbn1 [Hnn1 [Hhd1 Hid1]]] [S2 [S3 [S4 S5]]]].
  assert (Hpe1 : pev card b1 Q ev1 [] <> 0%Qc) by (rewrite pev1; exact Hpe).
  destruct (query_end_to_end card ord idbase b1 Q ev1 e Hord Hc Hbn1 Hnn1 Hhd1 Hid1 S2 S3 S4 HQ_nd HQ_ne S5 Hpe1 He) as [f [Hq Hf]].
  exists f. split; [exact Hq|]. intros a Ha. rewrite (Hf a Ha). unfold posterior. rewrite pev1, (unnorm1 a Ha). reflexivity.
Qed.

Theorem query_vev_end_to_end_per_variable (e : eo) :
  (e = EoGreedy \/ e = EoNone \/ exists h, e = EoHeur h) ->
  exists res, query card ord idbase b Q ev vev e false = inl res /\
    forall q f a, valid card a -> In (q, f) res ->
      In q Q /\ feval R card f a = posterior_marginal card b Q ev (likelihoods vev) q a.
Proof.
  intros He. destruct side_conditions as [[Hbn1 [Hnn1 [Hhd1 Hid1]]] [S2 [S3 [S4 S5]]]].
  assert (Hpe1 : pev card b1 Q ev1 [] <> 0%Qc) by (rewrite pev1; exact Hpe).
  destruct (query_end_to_end_per_variable card ord idbase b1 Q ev1 e Hord Hc Hbn1 Hnn1 Hhd1 Hid1 S2 S3 S4 HQ_nd HQ_ne S5 Hpe1 He)
    as [res [Hq Hres]].
  exists res. split; [exact Hq|]. intros q f a Ha Hi. destruct (Hres q f a Ha Hi) as [H1 H2]. split; [exact H1|].
  rewrite H2. unfold posterior_marginal. rewrite pev1. f_equal.
  apply (sum_over_ext_valid R card _ _ _ a Ha). intros a' Ha'. apply unnorm1. exact Ha'.
Qed.
End Q.

(* non-vacuity: the chain network of ProofsDsepAll with a likelihood (1/4, 3/4) on node 1, fresh child id 3 *)
Example vev_nonvacuous :
  let vev := [(1, 3, [ex_q 1 4; ex_q 3 4])] in
  good ex_card 4 ex_bn /\ vev_ok ex_card 4 ex_bn [] vev /\
  pev ex_card ex_bn [2] [] (likelihoods vev) <> 0%Qc /\
  exists f, query ex_card (fun _ l => l) 4 ex_bn [2] [] vev EoNone true = inl [(0, f)] /\
            Qc_eq_bool (feval R ex_card f (fun _ => 0)) (posterior ex_card ex_bn [2] [] (likelihoods vev) (fun _ => 0)) = true.
Proof.
  intros vev. split.
  { split; [exact ex_valid_bn|]. split; [exact ex_nonneg|]. split.
    - intros x Hx. simpl in Hx. destruct Hx as [<-|[<-|[<-|[]]]]; eexists; reflexivity.
    - intros v Hv. simpl in Hv. destruct Hv as [<-|[<-|[<-|[]]]]; lia. }
  split.
  { split; [repeat constructor; simpl; tauto|]. intros t [<-|[]]. cbn [fst snd].
    split; [simpl; tauto|]. split; [simpl; intuition discriminate|]. split; [intros []|].
    split; [lia|]. split; [reflexivity|]. split; [reflexivity|].
    intros q [<-|[<-|[]]]; split; vm_compute; discriminate. }
  split.
  { intros E. assert (H : Qc_eq_bool (pev ex_card ex_bn [2] [] (likelihoods vev)) 0%Qc = true) by (rewrite E; apply Qc_eq_bool_refl).
    revert H. vm_compute. discriminate. }
  eexists. split; [reflexivity|]. vm_compute. reflexivity.
Qed.
