(* C01 proofs, part 5: Step 4 of _variable_elimination (the set of clean tuples over all remaining keys) is,
   up to order, the clean part of the pool - when different tuples never compare equal (origins distinct). *)
From Coq Require Import List Arith Lia PeanoNat Bool QArith Qcanon Permutation.
From PV Require Import Base.Semiring Base.Ravel Base.FinSum Base.RefFactor Base.VE Base.Graph
  C01.Model C01.Spec C01.Proofs C01.ProofsElim C01.ProofsIdx.
Import ListNotations.
Local Open Scope nat_scope.

Section F.
Variable card : var -> nat.
Variable ord : forall A : Type, list A -> list A.
Hypothesis ord_perm : forall A (l : list A), Permutation (ord A l) l.
Notation peqb := (peqb card).
Notation wmem := (wmem card).
Notation wadd := (wadd card).

(* in U, tuples that compare equal are the same tuple *)
Definition inj (U : list wpair) : Prop := forall q x, In q U -> In x U -> peqb q x = true -> q = x.

Lemma NoDup_map_inj {A B} (f : A -> B) (l : list A) a b :
  NoDup (map f l) -> In a l -> In b l -> f a = f b -> a = b.
Proof.
  induction l as [|x l IH]; intros Hn Ha Hb E; [destruct Ha|]. cbn [map] in Hn. inversion Hn as [|? ? Hx Hn']; subst.
  destruct Ha as [->|Ha], Hb as [->|Hb].
  - reflexivity.
  - exfalso. apply Hx. rewrite E. apply in_map. exact Hb.
  - exfalso. apply Hx. rewrite <- E. apply in_map. exact Ha.
  - apply IH; assumption.
Qed.
Lemma od_inj (P : list wpair) : NoDup (map snd P) -> inj P.
Proof. intros H q x Hq Hx E. apply (NoDup_map_inj snd P q x H Hq Hx). apply (peqb_origin card q x E). Qed.

Lemma wadd_In x p acc : In x (wadd p acc) -> In x acc \/ x = p.
Proof.
  unfold Model.wadd. destruct (wmem p acc); [left; assumption|]. intros H. apply in_app_or in H.
  destruct H as [H|[<-|[]]]; auto.
Qed.
Lemma wadd_mono x p acc : In x acc -> In x (wadd p acc).
Proof. unfold Model.wadd. destruct (wmem p acc); [auto|]. intros H. apply in_or_app. left. exact H. Qed.
Lemma wadd_self U p acc : inj U -> In p U -> incl acc U -> In p (wadd p acc).
Proof.
  intros Hi Hp Ha. unfold Model.wadd. destruct (wmem p acc) eqn:E; [|apply in_or_app; right; left; reflexivity].
  unfold Model.wmem in E. apply existsb_exists in E. destruct E as [q [Hq Hqp]].
  rewrite <- (Hi q p (Ha q Hq) Hp Hqp). exact Hq.
Qed.
Lemma wadd_NoDup p acc : NoDup acc -> NoDup (wadd p acc).
Proof.
  intros Hn. unfold Model.wadd. destruct (wmem p acc) eqn:E; [exact Hn|].
  apply NoDup_app_disj; [exact Hn|constructor; [intros []|constructor]|].
  intros x Hx [E'|[]]. subst x. unfold Model.wmem in E.
  assert (existsb (fun q => peqb q p) acc = true); [|congruence].
  apply existsb_exists. exists p. split; [exact Hx|apply peqb_refl].
Qed.

Section Inner.
Variable c : wpair -> bool.
Definition inner (l acc : list wpair) : list wpair :=
  fold_left (fun acc p => if c p then wadd p acc else acc) l acc.
Lemma inner_fwd l : forall acc x, In x (inner l acc) -> In x acc \/ (In x l /\ c x = true).
Proof.
  induction l as [|p l IH]; intros acc x H; [left; exact H|]. cbn [inner fold_left] in H.
  apply IH in H. destruct H as [H|[H Hc]]; [|right; split; [right; exact H|exact Hc]].
  destruct (c p) eqn:E; [|left; exact H]. apply wadd_In in H. destruct H as [H| ->]; [left; exact H|].
  right. split; [left; reflexivity|exact E].
Qed.
Lemma inner_mono l : forall acc x, In x acc -> In x (inner l acc).
Proof.
  induction l as [|p l IH]; intros acc x H; [exact H|]. cbn [inner fold_left]. apply IH.
  destruct (c p); [apply wadd_mono|]; exact H.
Qed.
Lemma inner_incl U l : forall acc, incl acc U -> incl l U -> incl (inner l acc) U.
Proof.
  intros acc Ha Hl x Hx. apply inner_fwd in Hx. destruct Hx as [Hx|[Hx _]]; auto.
Qed.
Lemma inner_bwd U l : inj U -> forall acc x, incl acc U -> incl l U -> In x l -> c x = true -> In x (inner l acc).
Proof.
  intros Hi. induction l as [|p l IH]; intros acc x Ha Hl Hx Hc; [destruct Hx|]. cbn [inner fold_left].
  destruct Hx as [->|Hx].
  - rewrite Hc. apply inner_mono. apply (wadd_self U); [exact Hi|apply Hl; left; reflexivity|exact Ha].
  - apply IH; [|intros y Hy; apply Hl; right; exact Hy|exact Hx|exact Hc].
    destruct (c p); [|exact Ha]. intros y Hy. apply wadd_In in Hy. destruct Hy as [Hy| ->]; [apply Ha; exact Hy|].
    apply Hl. left. reflexivity.
Qed.
Lemma inner_NoDup l : forall acc, NoDup acc -> NoDup (inner l acc).
Proof.
  induction l as [|p l IH]; intros acc H; [exact H|]. cbn [inner fold_left]. apply IH.
  destruct (c p); [apply wadd_NoDup|]; exact H.
Qed.

Definition outer (d : wdict) (acc : list wpair) : list wpair :=
  fold_left (fun acc e => inner (ord _ (snd e)) acc) d acc.
Lemma outer_fwd d : forall acc x, In x (outer d acc) ->
  In x acc \/ exists e, In e d /\ In x (snd e) /\ c x = true.
Proof.
  induction d as [|e d IH]; intros acc x H; [left; exact H|]. cbn [outer fold_left] in H. apply IH in H.
  destruct H as [H|[e' [He' H]]]; [|right; exists e'; split; [right; exact He'|exact H]].
  apply inner_fwd in H. destruct H as [H|[H Hc]]; [left; exact H|].
  right. exists e. split; [left; reflexivity|]. split; [|exact Hc].
  eapply Permutation_in; [apply ord_perm|exact H].
Qed.
Lemma outer_mono d : forall acc x, In x acc -> In x (outer d acc).
Proof.
  induction d as [|e d IH]; intros acc x H; [exact H|]. cbn [outer fold_left]. apply IH. apply inner_mono. exact H.
Qed.
Lemma outer_bwd U d : inj U -> forall acc x e, incl acc U -> (forall e', In e' d -> incl (snd e') U) ->
  In e d -> In x (snd e) -> c x = true -> In x (outer d acc).
Proof.
  intros Hi. induction d as [|e0 d IH]; intros acc x e Ha Hd He Hx Hc; [destruct He|]. cbn [outer fold_left].
  assert (Hord : incl (ord _ (snd e0)) U).
  { intros y Hy. apply (Hd e0 (or_introl eq_refl)). eapply Permutation_in; [apply ord_perm|exact Hy]. }
  destruct He as [->|He].
  - apply outer_mono. apply (inner_bwd U); try assumption.
    eapply Permutation_in; [apply Permutation_sym; apply ord_perm|exact Hx].
  - apply (IH _ x e); try assumption.
    + apply inner_incl; assumption.
    + intros e' He'. apply Hd. right. exact He'.
Qed.
Lemma outer_NoDup d : forall acc, NoDup acc -> NoDup (outer d acc).
Proof.
  induction d as [|e d IH]; intros acc H; [exact H|]. cbn [outer fold_left]. apply IH. apply inner_NoDup. exact H.
Qed.
End Inner.

Lemma In_dget d w s : NoDup (map fst d) -> In (w, s) d -> dget d w = s.
Proof.
  induction d as [|[u t] d IH]; intros Hn H; [destruct H|]. cbn [map fst] in Hn. inversion Hn as [|? ? Hu Hn']; subst.
  simpl. destruct H as [H|H].
  - inversion H; subst. rewrite Nat.eqb_refl. reflexivity.
  - destruct (Nat.eqb u w) eqn:E; [|apply IH; assumption].
    apply Nat.eqb_eq in E. subst. exfalso. apply Hu. apply (in_map fst d (w, s) H).
Qed.
Lemma dget_In d w : In w (map fst d) -> In (w, dget d w) d.
Proof.
  induction d as [|[u t] d IH]; intros H; [destruct H|]. simpl. destruct (Nat.eqb u w) eqn:E.
  - apply Nat.eqb_eq in E. subst. left. reflexivity.
  - right. apply IH. destruct H as [H|H]; [simpl in H; subst; rewrite Nat.eqb_refl in E; discriminate|exact H].
Qed.

(* Step 4 *)
Theorem final_pairs_perm d P elim :
  idx d P -> NoDup (map fst d) -> NoDup (map snd P) ->
  (forall p, In p P -> clean elim (fst p) = true -> exists w, In w (map fst d) /\ mw w p = true) ->
  Permutation (final_pairs card ord (d, elim)) (filter (fun p => clean elim (fst p)) P).
Proof.
  intros Hidx Hk Hod Hcov.
  change (final_pairs card ord (d, elim)) with (outer (fun p => clean elim (fst p)) d []).
  assert (Hinj : inj P) by (apply od_inj; exact Hod).
  assert (Hsub : forall e, In e d -> incl (snd e) P).
  { intros [w s] He x Hx. cbn [snd] in Hx. rewrite <- (In_dget d w s Hk He) in Hx.
    rewrite (Hidx w) in Hx; [|apply (in_map fst d (w, s) He)|discriminate]. apply filter_In in Hx. apply Hx. }
  apply NoDup_Permutation.
  - apply outer_NoDup. constructor.
  - apply NoDup_filter. clear - Hod. induction P as [|p P IH]; [constructor|]. cbn [map] in Hod.
    inversion Hod as [|? ? Hp Hn]; subst. constructor; [|apply IH; exact Hn].
    intros Hi. apply Hp. apply in_map. exact Hi.
  - intros x. split; intros Hx.
    + apply outer_fwd in Hx. destruct Hx as [[]|[e [He [Hx Hc]]]]. apply filter_In. split; [|exact Hc].
      apply (Hsub e He). exact Hx.
    + apply filter_In in Hx. destruct Hx as [Hx Hc]. destruct (Hcov x Hx Hc) as [w [Hw Hm]].
      apply (outer_bwd _ P d Hinj [] x (w, dget d w)); [intros y []|exact Hsub|apply dget_In; exact Hw| |exact Hc].
      cbn [snd]. rewrite (Hidx w Hw) by discriminate. apply filter_In. split; [exact Hx|exact Hm].
Qed.
End F.
