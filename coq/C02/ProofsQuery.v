(* C02: bp_query = posterior.  The factor list built by _query (root belief, child belief / sepset
   belief along the traversal) multiplies to the subtree expression G sub esub of ProofsPeel, which is
   the marginal of the joint onto the subtree's scope; reducing by the evidence and eliminating the
   remaining non-query variables (Base/VE.ve_run_correct, any order) gives the posterior numerator. *)
From Coq Require Import List Arith Bool PeanoNat Lia Permutation.
From PV Require Import Base.Semiring Base.Ravel Base.FinSum Base.RefFactor Base.VE
  C02.Dsr C02.Model C02.Spec C02.Cert C02.ProofsInv C02.ProofsPeel C02.ProofsChk C02.ProofsConv.
Import ListNotations.

Lemma dedup_length l : length (dedup l) <= length l.
Proof. induction l as [|x l IH]; simpl; [lia|]. destruct (memn x l); simpl; lia. Qed.
Lemma nodupb_spec l : nodupb l = true -> NoDup l.
Proof.
  unfold nodupb. induction l as [|x l IH]; intros H; [constructor|]. apply Nat.eqb_eq in H. simpl in H.
  pose proof (dedup_length l) as Hl. destruct (memn x l) eqn:E; simpl in H; [lia|].
  constructor; [intros Hin; apply memn_In in Hin; congruence|]. apply IH. apply Nat.eqb_eq. lia.
Qed.
Lemma same_set_spec a b : same_set a b = true -> forall x, In x a <-> In x b.
Proof.
  unfold same_set. rewrite andb_true_iff, !forallb_forall. intros [H1 H2] x.
  split; intros H; apply memn_In; auto.
Qed.

Section Query.
Variable D : dsr.
Variable card : var -> nat.
Notation factor := (RefFactor.factor D).
Notation feval := (RefFactor.feval D card).
Notation valid := (RefFactor.valid card).
Notation wf := (RefFactor.wf D card).
Notation fok := (RefFactor.fok D card).
Notation ctree := (ctree D).
Notation bstate := (bstate D).
Notation belief := (belief D card).
Notation Inv := (Inv D card).
Notation sinv := (sinv D card).
Notation fnn := (fnn D card).
Notation eval_prod := (RefFactor.eval_prod D card).
Notation fred := (RefFactor.fred D card).

Variable t : ctree.
Variable st : bstate.
Hypothesis Htok : tree_ok D card t.
Hypothesis HI : Inv t st.
Hypothesis Hset : all_edges_set D t st.
Hypothesis Hagree : sepset_agree D card t st.

Lemma prod_list_perm (l l' : list D) : Permutation l l' -> prod_list l = prod_list l'.
Proof.
  induction 1; simpl; [reflexivity|f_equal; assumption|apply mul_swap_l|etransitivity; eassumption].
Qed.
Lemma mul_4 (x y X Y : D) : mul (mul x y) (mul X Y) = mul (mul x X) (mul y Y).
Proof.
  rewrite <- (mul_assoc D x y (mul X Y)), (mul_swap_l D y X Y), (mul_assoc D x X (mul y Y)). reflexivity.
Qed.

(* ---- the children's potentials -------------------------------------------------------------------- *)
Lemma children_eval pcs : forall cs ks,
  sequence (map (child_potential D card t st) pcs) = Some cs ->
  edges_of_pairs D t pcs = Some ks ->
  (forall pc, In pc pcs -> snd pc < length (cliques D t)) ->
  Forall wf cs /\ Forall fnn cs /\
  (forall c, In c (map snd pcs) -> exists f, In f cs /\ fvars f = fvars (belief st c)) /\
  forall a, valid a ->
    eval_prod cs a = mul (prod_list (map (fun c => feval (belief st c) a) (map snd pcs)))
                         (prod_list (map (fun k => sinv a (nth k (sep D st) None)) ks)).
Proof.
  induction pcs as [|[p c] pcs IH]; intros cs ks Hcs Hks Hlt.
  - simpl in Hcs. unfold edges_of_pairs in Hks. simpl in Hks. inversion Hcs; inversion Hks; subst.
    repeat split; try constructor. { intros c []. } intros a _. unfold RefFactor.eval_prod. simpl.
    symmetry. apply mul_1_l.
  - unfold edges_of_pairs in Hks. cbn [map sequence fst snd] in Hcs, Hks.
    unfold child_potential in Hcs at 1.
    destruct (find_edge (tedges D t) p c 0) as [k|] eqn:Ek; [|discriminate].
    destruct (nth k (sep D st) None) as [mu|] eqn:Emu; [|discriminate].
    destruct (sequence (map (child_potential D card t st) pcs)) as [cs'|] eqn:Ecs; [|discriminate].
    destruct (sequence (map (fun pc => find_edge (tedges D t) (fst pc) (snd pc) 0) pcs)) as [ks'|] eqn:Eks;
      [|discriminate].
    simpl in Hcs, Hks. inversion Hcs; inversion Hks; subst cs ks. clear Hcs Hks.
    destruct (IH cs' ks' eq_refl Eks (fun pc H => Hlt pc (or_intror H))) as [IHw [IHn [IHv IHe]]].
    apply find_edge_spec in Ek. rewrite Nat.sub_0_r in Ek. destruct Ek as [_ [Hk Hnth]].
    assert (Hc : c < length (cliques D t)) by (apply (Hlt (p, c)); left; reflexivity).
    destruct (inv_wf D card t st HI c Hc) as [Hwc [Hsc Hnc]].
    destruct (inv_sep D card t st HI k mu Hk Emu) as [Hwm [Hnm Hsm]].
    assert (Hincl : incl (fvars mu) (fvars (belief st c))).
    { intros v Hv. apply Hsc. apply Hsm in Hv. unfold sepset in Hv. apply In_vinter in Hv.
      destruct Hnth as [E|E]; rewrite E in Hv; simpl in Hv; tauto. }
    assert (Hev : forall a, valid a -> feval (fdiv0 D card (belief st c) mu) a =
                                        mul (feval (belief st c) a) (inv (feval mu a))).
    { intros a Ha. apply feval_fdiv0; assumption. }
    split; [constructor; [apply wf_fdiv0; exact Hwc|exact IHw]|].
    split; [constructor; [|exact IHn]|].
    { intros a Ha. rewrite Hev by exact Ha. apply nn_mul; [apply Hnc; exact Ha|apply nn_inv; apply Hnm; exact Ha]. }
    split.
    { intros c' [<-|Hc']; [exists (fdiv0 D card (belief st c) mu); split; [left; reflexivity|reflexivity]|].
      destruct (IHv c' Hc') as [f [Hf Hfv]]. exists f. split; [right; exact Hf|exact Hfv]. }
    intros a Ha. rewrite eval_prod_cons, Hev, (IHe a Ha) by exact Ha. cbn [map prod_list fst snd].
    rewrite Emu. simpl. apply mul_4.
Qed.

Theorem potential_list_eval root pcs fs ks rem esub :
  potential_list D card t st root pcs = Some fs ->
  edges_of_pairs D t pcs = Some ks ->
  root < length (cliques D t) -> (forall pc, In pc pcs -> snd pc < length (cliques D t)) ->
  Permutation (root :: map snd pcs) rem -> Permutation ks esub ->
  Forall wf fs /\ Forall fnn fs /\
  (forall c, In c (root :: map snd pcs) -> exists f, In f fs /\ fvars f = fvars (belief st c)) /\
  forall a, valid a -> eval_prod fs a = G D card st rem esub a.
Proof.
  intros Hfs Hks Hr Hlt Hp1 Hp2. unfold potential_list in Hfs.
  destruct (sequence (map (child_potential D card t st) pcs)) as [cs|] eqn:Ecs; [|discriminate].
  simpl in Hfs. inversion Hfs; subst fs. clear Hfs.
  destruct (children_eval pcs cs ks Ecs Hks Hlt) as [Hw [Hn [Hv He]]].
  destruct (inv_wf D card t st HI root Hr) as [Hwr [_ Hnr]].
  split; [constructor; assumption|]. split; [constructor; assumption|]. split.
  { intros c [<-|Hc]; [exists (belief st root); split; [left; reflexivity|reflexivity]|].
    destruct (Hv c Hc) as [f [Hf Hfv]]. exists f. split; [right; exact Hf|exact Hfv]. }
  intros a Ha. rewrite eval_prod_cons, (He a Ha). unfold G.
  rewrite <- (prod_list_perm _ _ (Permutation_map (fun i => feval (belief st i) a) Hp1)).
  rewrite <- (prod_list_perm _ _ (Permutation_map (fun k => sinv a (nth k (sep D st) None)) Hp2)).
  cbn [map prod_list]. apply mul_assoc.
Qed.

(* ---- evidence reduction ------------------------------------------------------------------------------ *)
Lemma valid_upds a ev : valid a -> (forall e, In e ev -> snd e < card (fst e)) -> valid (upds a ev).
Proof.
  intros Ha. induction ev as [|[v i] ev IH]; intros H; [exact Ha|]. cbn [upds].
  apply valid_upd; [apply IH; intros e He; apply H; right; exact He|apply (H (v, i)); left; reflexivity].
Qed.
Lemma eval_prod_fred ev fs a : Forall wf fs -> valid a ->
  eval_prod (map (fred ev) fs) a = eval_prod fs (upds a ev).
Proof.
  intros Hw Ha. unfold RefFactor.eval_prod. rewrite map_map. f_equal. apply map_ext_in. intros f Hf.
  apply feval_fred; [|exact Ha]. rewrite Forall_forall in Hw. apply Hw. exact Hf.
Qed.
Lemma In_scope_of sub v : In v (scope_of D t sub) <-> exists i, In i sub /\ In v (clq D t i).
Proof.
  induction sub as [|i sub IH]; simpl; [split; [intros []|intros [i [[] _]]]|].
  rewrite In_vunion, IH. split.
  - intros [H|[j [Hj Hv]]]; [exists i; auto|exists j; auto].
  - intros [j [[->|Hj] Hv]]; [left; exact Hv|right; exists j; auto].
Qed.

(* ---- the query ------------------------------------------------------------------------------------------ *)
Theorem bp_query_eval Q ev r order rem esub ks :
  bp_query D card t st Q ev = Some r ->
  peels D t (all_cl D t) (all_ed D t) order rem esub ->
  edges_of_pairs D t (q_pairs D r) = Some ks ->
  Permutation (q_root D r :: map snd (q_pairs D r)) rem -> Permutation ks esub ->
  (forall i, In i rem <-> In i (q_sub D r)) -> (forall i, In i rem -> i < length (cliques D t)) ->
  (forall e, In e ev -> snd e < card (fst e)) ->
  NoDup (query_elim D t (q_sub D r) Q ev) ->
  forall a, valid a ->
    feval (q_factor D r) a =
    sum_over (query_elim D t (q_sub D r) Q ev) (map card (query_elim D t (q_sub D r) Q ev))
      (fun b => sum_over (pvars D card t st order) (map card (pvars D card t st order))
                         (joint D card t) (upds b ev)) a.
Proof.
  intros Hq Hpeel Hks Hp1 Hp2 Hsame Hlt Hev Hnd a Ha.
  unfold bp_query in Hq.
  set (sub := subtree_nodes D t (Q ++ map fst ev)) in *.
  set (root := pick_root D t sub) in *.
  set (pcs := traverse_sub D (S (length (cliques D t))) t sub [root] []) in *.
  destruct (potential_list D card t st root pcs) as [fs|] eqn:Efs; [|discriminate].
  inversion Hq; subst r. clear Hq. cbn [q_sub q_root q_pairs q_factor] in *.
  assert (Hin : forall c, In c (root :: map snd pcs) -> c < length (cliques D t)).
  { intros c Hc. apply Hlt. apply (Permutation_in _ Hp1). exact Hc. }
  destruct (potential_list_eval root pcs fs ks rem esub Efs Hks) as [Hw [Hn [Hv He]]];
    [apply Hin; left; reflexivity| |exact Hp1|exact Hp2|].
  { intros pc Hpc. apply Hin. right. apply in_map. exact Hpc. }
  set (elim := query_elim D t sub Q ev) in *.
  set (L := map (fred ev) fs).
  assert (HwL : Forall wf L).
  { apply Forall_forall. intros f Hf. apply in_map_iff in Hf. destruct Hf as [g [<- Hg]].
    apply wf_fred. rewrite Forall_forall in Hw. apply Hw. exact Hg. }
  assert (HokL : Forall fok L).
  { apply Forall_forall. intros f Hf. apply in_map_iff in Hf. destruct Hf as [g [<- Hg]].
    rewrite Forall_forall in Hw, Hn. intros b Hb. rewrite (feval_fred D card ev g b (Hw g Hg) Hb).
    apply nn_ok. apply (Hn g Hg). apply valid_upds; assumption. }
  assert (Hocc : forall v, In v elim -> occurs D v L).
  { intros v Hv'. unfold elim, query_elim in Hv'. apply In_vminus in Hv'. destruct Hv' as [Hv1 Hnev].
    apply In_vminus in Hv1. destruct Hv1 as [Hsc _]. apply In_scope_of in Hsc. destruct Hsc as [i [Hi Hvi]].
    apply Hsame in Hi. assert (Hi' : In i (root :: map snd pcs)) by (apply (Permutation_in _ (Permutation_sym Hp1)); exact Hi).
    destruct (Hv i Hi') as [f [Hf Hfv]]. exists (fred ev f). split; [apply in_map; exact Hf|].
    rewrite fvars_fred. apply In_vminus. split; [|exact Hnev]. rewrite Hfv.
    apply (inv_wf D card t st HI i (Hin i Hi')). exact Hvi. }
  unfold ve_answer. fold L. fold elim.
  rewrite feval_fprod_list; [|apply ve_run_wf; exact HwL|exact Ha].
  rewrite (ve_run_correct D card elim L a HwL HokL Hnd Hocc Ha).
  apply (sum_over_ext_valid D card elim); [exact Ha|]. intros b Hb.
  unfold L. rewrite eval_prod_fred by assumption.
  assert (Hvb : valid (upds b ev)) by (apply valid_upds; assumption).
  rewrite (He _ Hvb).
  apply (peel_to_subtree D card t st Htok HI Hset Hagree order rem esub Hpeel _ Hvb).
Qed.

(* ---- evidence substitution commutes with summing variables that carry no evidence -------------------- *)
Lemma upd_upds_comm b ev v i : ~ In v (map fst ev) -> aeq (upd (upds b ev) v i) (upds (upd b v i) ev).
Proof.
  induction ev as [|[w j] ev IH]; intros Hn; [apply aeq_refl|]. cbn [upds].
  assert (Hwv : w <> v) by (intros E; apply Hn; left; exact E).
  eapply aeq_trans; [apply upd_comm; exact Hwv|]. apply upd_aeq. apply IH. intros H. apply Hn. right. exact H.
Qed.
Lemma sum_over_upds ev vs : forall cs (g : asg -> D) b, ext g -> (forall v, In v vs -> ~ In v (map fst ev)) ->
  sum_over vs cs g (upds b ev) = sum_over vs cs (fun c => g (upds c ev)) b.
Proof.
  induction vs as [|v vs IH]; intros cs g b Hg Hd; [reflexivity|]. destruct cs as [|c cs]; [reflexivity|].
  cbn [sum_over]. apply sum_list_ext. intros i _.
  rewrite <- IH; [|exact Hg|intros w Hw; apply Hd; right; exact Hw].
  apply sum_over_aeq; [exact Hg|]. apply upd_upds_comm. apply Hd. left. reflexivity.
Qed.

Lemma peels_incl rem erem order rem' erem' : peels D t rem erem order rem' erem' ->
  (forall x, In x rem' -> In x rem) /\ (forall x, In x erem' -> In x erem).
Proof.
  induction 1 as [|rem erem l p k order rem' erem' _ _ [IH1 IH2]]; [split; auto|].
  split; intros x Hx; [apply IH1 in Hx|apply IH2 in Hx]; apply In_remn in Hx; apply Hx.
Qed.
Lemma peels_removed rem erem order rem' erem' : peels D t rem erem order rem' erem' ->
  forall l p k, In (l, p, k) order -> In l rem /\ ~ In l rem'.
Proof.
  induction 1 as [|rem erem l0 p0 k0 order rem' erem' Hs Hp IH]; intros l p k Hin; [destruct Hin|].
  destruct Hin as [E|Hin].
  - inversion E; subst. split; [apply Hs|]. intros H. apply (peels_incl _ _ _ _ _ Hp) in H.
    apply In_remn in H. destruct H as [_ H]. apply H. reflexivity.
  - destruct (IH l p k Hin) as [H1 H2]. split; [|exact H2]. apply In_remn in H1. apply H1.
Qed.
Lemma peels_NoDup_e rem erem order rem' erem' :
  peels D t rem erem order rem' erem' -> NoDup erem -> NoDup erem'.
Proof. induction 1; intros Hn; [exact Hn|]. apply IHpeels. apply NoDup_filter. exact Hn. Qed.

Lemma In_pvars order v : In v (pvars D card t st order) -> exists l p k, In (l, p, k) order /\ In v (pv1 D card t st l p).
Proof.
  induction order as [|[[l p] k] order IH]; intros H; [destruct H|]. cbn [pvars] in H. apply in_app_or in H.
  destruct H as [H|H].
  - destruct (IH H) as [l' [p' [k' [H1 H2]]]]. exists l', p', k'. split; [right; exact H1|exact H2].
  - exists l, p, k. split; [left; reflexivity|exact H].
Qed.

Theorem bp_query_posterior Q ev r order rem esub ks :
  bp_query D card t st Q ev = Some r ->
  peels D t (all_cl D t) (all_ed D t) order rem esub ->
  edges_of_pairs D t (q_pairs D r) = Some ks ->
  Permutation (q_root D r :: map snd (q_pairs D r)) rem -> Permutation ks esub ->
  (forall i, In i rem <-> In i (q_sub D r)) ->
  (forall e, In e ev -> snd e < card (fst e)) ->
  NoDup (query_elim D t (q_sub D r) Q ev) ->
  (forall v i, In v (map fst ev) -> i < length (cliques D t) -> In v (clq D t i) -> In i (q_sub D r)) ->
  forall a, valid a ->
    feval (q_factor D r) a =
    posterior_num D card t ev (query_elim D t (q_sub D r) Q ev ++ pvars D card t st order) a.
Proof.
  intros Hq Hpeel Hks Hp1 Hp2 Hsame Hev Hnd Hcov a Ha.
  assert (Hlt : forall i, In i rem -> i < length (cliques D t)).
  { intros i Hi. apply (peels_incl _ _ _ _ _ Hpeel) in Hi. apply in_seq in Hi. lia. }
  rewrite (bp_query_eval Q ev r order rem esub ks Hq Hpeel Hks Hp1 Hp2 Hsame Hlt Hev Hnd a Ha).
  unfold posterior_num. rewrite map_app, sum_over_app by (symmetry; apply map_length).
  apply sum_over_ext_fun. intros b. apply sum_over_upds.
  - unfold joint. apply eval_prod_ext.
  - intros v Hv Hin. apply In_pvars in Hv. destruct Hv as [l [p [k [Ho Hv]]]].
    destruct (peels_removed _ _ _ _ _ Hpeel l p k Ho) as [Hl Hnl]. apply in_seq in Hl.
    assert (Hll : l < length (cliques D t)) by (unfold all_cl in Hl; lia).
    apply (In_pv1 D card t st HI l p v Hll) in Hv. destruct Hv as [Hvl _].
    apply Hnl. apply Hsame. apply (Hcov v l Hin Hll Hvl).
Qed.

(* ---- which variables are summed: exactly those outside the remaining cliques, each once ------------------ *)
Lemma pvars_spec rem erem order rem' erem' : peels D t rem erem order rem' erem' ->
  (forall i, In i rem -> i < length (cliques D t)) ->
  (forall v, In v (pvars D card t st order) ->
     (exists l, In l rem /\ In v (clq D t l)) /\ (forall i, In i rem' -> ~ In v (clq D t i))) /\
  (forall v i, In i rem -> In v (clq D t i) ->
     In v (pvars D card t st order) \/ exists j, In j rem' /\ In v (clq D t j)) /\
  NoDup (pvars D card t st order).
Proof.
  induction 1 as [rem erem|rem erem l p k order rem' erem' Hs Hp IH]; intros Hlt.
  - split; [intros v []|]. split; [|constructor]. intros v i Hi Hv. right. exists i. auto.
  - assert (Hlt' : forall i, In i (remn l rem) -> i < length (cliques D t)).
    { intros i Hi. apply In_remn in Hi. apply Hlt. apply Hi. }
    destruct (IH Hlt') as [IH1 [IH2 IH3]]. clear IH.
    destruct Hs as [Hl [Hpin [Hlp [_ [_ [_ Hrip]]]]]].
    assert (Hll : l < length (cliques D t)) by (apply Hlt; exact Hl).
    assert (Hpv : forall v, In v (pv1 D card t st l p) <-> In v (clq D t l) /\ ~ In v (clq D t p)).
    { intros v. apply (In_pv1 D card t st HI l p v Hll). }
    cbn [pvars]. split; [|split].
    + intros v Hv. apply in_app_or in Hv. destruct Hv as [Hv|Hv].
      * destruct (IH1 v Hv) as [[l' [Hl' Hvl']] Hno]. split; [|exact Hno]. exists l'. apply In_remn in Hl'. split; tauto.
      * apply Hpv in Hv. destruct Hv as [Hvl Hvp]. split; [exists l; auto|].
        intros i Hi Hvi. apply (peels_incl _ _ _ _ _ Hp) in Hi. apply In_remn in Hi. destruct Hi as [Hi Hil].
        apply Hvp. apply (Hrip i Hi Hil v Hvl Hvi).
    + intros v i Hi Hv. destruct (Nat.eq_dec i l) as [->|Hne].
      * destruct (in_dec Nat.eq_dec v (clq D t p)) as [Hvp|Hvp].
        -- assert (Hp' : In p (remn l rem)) by (apply In_remn; split; [exact Hpin|congruence]).
           destruct (IH2 v p Hp' Hvp) as [H|H]; [left; apply in_or_app; left; exact H|right; exact H].
        -- left. apply in_or_app. right. apply Hpv. split; assumption.
      * assert (Hi' : In i (remn l rem)) by (apply In_remn; split; assumption).
        destruct (IH2 v i Hi' Hv) as [H|H]; [left; apply in_or_app; left; exact H|right; exact H].
    + apply NoDup_app_disj; [exact IH3| |].
      * unfold pv1, vinter. apply NoDup_filter. apply (inv_wf D card t st HI l Hll).
      * intros v Hv Hv2. apply Hpv in Hv2. destruct Hv2 as [Hvl Hvp].
        destruct (IH1 v Hv) as [[l' [Hl' Hvl']] _]. apply In_remn in Hl'. destruct Hl' as [Hl' Hne].
        apply Hvp. apply (Hrip l' Hl' Hne v Hvl Hvl').
Qed.

Lemma In_all_vars v : In v (all_vars D t) <-> exists i, i < length (cliques D t) /\ In v (clq D t i).
Proof.
  unfold all_vars. rewrite In_scope_of. split; intros [i [Hi Hv]]; exists i; (split; [|exact Hv]).
  - apply in_seq in Hi. lia.
  - apply in_seq. lia.
Qed.

Theorem summed_vars_enumerate Q ev sub order rem esub :
  peels D t (all_cl D t) (all_ed D t) order rem esub ->
  (forall i, In i rem <-> In i sub) ->
  NoDup (query_elim D t sub Q ev) ->
  (forall v i, In v (Q ++ map fst ev) -> i < length (cliques D t) -> In v (clq D t i) -> In i sub) ->
  enumerates_complement (query_elim D t sub Q ev ++ pvars D card t st order) (all_vars D t) (Q ++ map fst ev).
Proof.
  intros Hpeel Hsame Hnd Hcov.
  assert (Hlt0 : forall i, In i (all_cl D t) -> i < length (cliques D t)) by (intros i Hi; apply in_seq in Hi; lia).
  destruct (pvars_spec _ _ _ _ _ Hpeel Hlt0) as [P1 [P2 P3]].
  assert (Hsublt : forall i, In i sub -> i < length (cliques D t)).
  { intros i Hi. apply Hsame in Hi. apply (peels_incl _ _ _ _ _ Hpeel) in Hi. apply Hlt0. exact Hi. }
  assert (Helim : forall v, In v (query_elim D t sub Q ev) <->
            (exists i, In i sub /\ In v (clq D t i)) /\ ~ In v Q /\ ~ In v (map fst ev)).
  { intros v. unfold query_elim. rewrite !In_vminus, In_scope_of. tauto. }
  split.
  - apply NoDup_app_disj; [exact Hnd|exact P3|]. intros v Hv Hv2. apply Helim in Hv.
    destruct Hv as [[i [Hi Hvi]] _]. apply (proj2 (P1 v Hv2) i); [apply Hsame; exact Hi|exact Hvi].
  - intros v. rewrite in_app_iff, (Helim v), In_all_vars, in_app_iff. split.
    + intros [[[i [Hi Hvi]] [HQ Hev]]|Hv].
      * split; [exists i; split; [apply Hsublt; exact Hi|exact Hvi]|tauto].
      * destruct (P1 v Hv) as [[l [Hl Hvl]] Hno]. split; [exists l; split; [apply Hlt0; exact Hl|exact Hvl]|].
        intros HQE. apply (Hno l); [|exact Hvl]. apply Hsame. apply (Hcov v l); [apply in_or_app; exact HQE|apply Hlt0; exact Hl|exact Hvl].
    + intros [[i [Hi Hvi]] HnQE].
      assert (Hi' : In i (all_cl D t)) by (apply in_seq; lia).
      destruct (P2 v i Hi' Hvi) as [H|[j [Hj Hvj]]]; [right; exact H|].
      left. split; [exists j; split; [apply Hsame; exact Hj|exact Hvj]|tauto].
Qed.

(* ---- the run-time certificate gives all of the above --------------------------------------------------- *)
Theorem query_cert_sound Q ev r : query_cert D card t Q ev r = true ->
  exists order rem esub ks,
    peels D t (all_cl D t) (all_ed D t) order rem esub /\
    edges_of_pairs D t (q_pairs D r) = Some ks /\
    Permutation (q_root D r :: map snd (q_pairs D r)) rem /\ Permutation ks esub /\
    (forall i, In i rem <-> In i (q_sub D r)) /\
    (forall e, In e ev -> snd e < card (fst e)) /\
    NoDup (query_elim D t (q_sub D r) Q ev) /\
    (forall v i, In v (Q ++ map fst ev) -> i < length (cliques D t) -> In v (clq D t i) -> In i (q_sub D r)).
Proof.
  unfold query_cert, peel_to.
  set (order := greedy_peel D (length (cliques D t)) t (all_cl D t) (all_ed D t) (q_sub D r)).
  destruct (peel_chk D t (all_cl D t) (all_ed D t) order) as [[rem erem]|] eqn:Epc; [|discriminate].
  destruct (same_set rem (q_sub D r)) eqn:Ess; [|discriminate].
  destruct (edges_of_pairs D t (q_pairs D r)) as [ks|] eqn:Eks; [|discriminate].
  rewrite !andb_true_iff. intros [[[[[[[H1 H2] H3] H4] H5] H6] H7] _].
  apply peel_chk_spec in Epc.
  pose proof (same_set_spec _ _ Ess) as Hsame. pose proof (same_set_spec _ _ H1) as He. pose proof (same_set_spec _ _ H4) as Hc.
  exists order, rem, erem, ks. split; [exact Epc|]. split; [reflexivity|]. split.
  { apply NoDup_Permutation; [apply nodupb_spec; exact H3|eapply peels_NoDup; [exact Epc|apply seq_NoDup]|].
    intros x. rewrite (Hc x). symmetry. apply Hsame. }
  split.
  { apply NoDup_Permutation; [apply nodupb_spec; exact H2|eapply peels_NoDup_e; [exact Epc|apply seq_NoDup]|].
    intros x. symmetry. apply He. }
  split; [exact Hsame|]. split.
  { intros e Hin. rewrite forallb_forall in H6. apply Nat.ltb_lt. apply H6. exact Hin. }
  split; [apply nodupb_spec; exact H7|].
  intros v i Hv Hi Hvi. unfold covers in H5. rewrite forallb_forall in H5.
  specialize (H5 i). assert (Hin : In i (all_cl D t)) by (apply in_seq; lia). apply H5 in Hin.
  apply orb_true_iff in Hin. destruct Hin as [Hin|Hin]; [|apply memn_In; exact Hin].
  apply negb_true_iff in Hin. exfalso.
  assert (Ht : existsb (fun v0 => memv v0 (clq D t i)) (Q ++ map fst ev) = true).
  { apply existsb_exists. exists v. split; [exact Hv|apply memv_In; exact Hvi]. }
  congruence.
Qed.
End Query.

(* the statement used in Props: from the boolean checks alone *)
Theorem query_eq_posterior (D : dsr) (card : var -> nat) (t : ctree D) (st : bstate D) Q ev r :
  tree_ok D card t -> Inv D card t st -> is_converged D card t st = true ->
  bp_query D card t st Q ev = Some r -> query_cert D card t Q ev r = true ->
  exists vs,
    enumerates_complement vs (all_vars D t) (Q ++ map fst ev) /\
    forall a, valid card a -> feval D card (q_factor D r) a = posterior_num D card t ev vs a.
Proof.
  intros Htok HI Hc Hq Hcert. destruct (is_converged_sound D card t st Htok HI Hc) as [Hset Hag].
  destruct (query_cert_sound D card t Q ev r Hcert) as [order [rem [esub [ks [H1 [H2 [H3 [H4 [H5 [H6 [H7 H8]]]]]]]]]]].
  exists (query_elim D t (q_sub D r) Q ev ++ pvars D card t st order). split.
  - apply (summed_vars_enumerate D card t st HI Q ev (q_sub D r) order rem esub); assumption.
  - intros a Ha. apply (bp_query_posterior D card t st Htok HI Hset Hag Q ev r order rem esub ks); try assumption.
    intros v i Hv. apply H8. apply in_or_app. right. exact Hv.
Qed.

(* a clique with several factors: its initial belief is their product, so the joint of the tree built by
   tree_of_groups is the product of ALL factors of the junction tree *)
Theorem joint_of_groups (D : dsr) (card : var -> nat) cl es ad (groups : list (list (RefFactor.factor D))) a :
  Forall (Forall (RefFactor.wf D card)) groups -> valid card a ->
  joint D card (tree_of_groups D card cl es ad groups) a =
  prod_list (map (fun g => RefFactor.eval_prod D card g a) groups).
Proof.
  intros Hw Ha. unfold joint, tree_of_groups, RefFactor.eval_prod at 1. simpl. rewrite map_map. f_equal.
  apply map_ext_in. intros g Hg. apply feval_fprod_list; [|exact Ha]. rewrite Forall_forall in Hw. apply Hw. exact Hg.
Qed.
