(* C02: (1) the boolean convergence test is sound: is_converged = true gives a sepset belief on every
   edge, equal (pointwise, on every valid assignment) to both end cliques' sepset marginals;
   (2) the division guard: in every state satisfying the invariant, mu(a) = 0 -> sigma(a) = 0, so the
   quotient sigma/mu in _update_beliefs never meets pgmpy's x/0 = inf case (and neither does
   belief/mu in _query, by the support invariant itself);
   (3) once converged, a further message changes no belief and no sepset belief pointwise. *)
From Coq Require Import List Arith Bool PeanoNat Lia.
From PV Require Import Base.Semiring Base.Ravel Base.FinSum Base.RefFactor Base.VE
  C02.Dsr C02.Model C02.Spec C02.ProofsInv.
Import ListNotations.

Lemma all_idx_complete cs idx : in_range cs idx -> In idx (all_idx cs).
Proof.
  induction 1 as [|c cs i is_ Hi Hr IH]; [left; reflexivity|]. simpl.
  apply in_flat_map. exists i. split; [apply in_seq; lia|]. apply in_map. exact IH.
Qed.
Lemma In_combine_seq {A} (l : list A) d k : k < length l -> forall s, In (s + k, nth k l d) (combine (seq s (length l)) l).
Proof.
  revert k. induction l as [|x l IH]; intros k Hk s; simpl in *; [lia|].
  destruct k as [|k]; [left; f_equal; lia|]. right. replace (s + S k) with (S s + k) by lia. apply IH. lia.
Qed.

Section Conv.
Variable D : dsr.
Variable card : var -> nat.
Notation factor := (RefFactor.factor D).
Notation feval := (RefFactor.feval D card).
Notation valid := (RefFactor.valid card).
Notation wf := (RefFactor.wf D card).
Notation ctree := (ctree D).
Notation bstate := (bstate D).
Notation Inv := (Inv D card).

(* two factors whose scopes lie inside S and that agree on all index tuples of S agree everywhere *)
Lemma feq_on_sound (S : list var) (f g : factor) a :
  feq_on D card S f g = true -> incl (fvars f) S -> incl (fvars g) S -> valid a -> feval f a = feval g a.
Proof.
  intros H Hf Hg Ha. unfold feq_on in H. rewrite forallb_forall in H.
  specialize (H (map a S) (all_idx_complete _ _ (valid_in_range card a S Ha))). apply eqk_spec in H.
  transitivity (feval f (asg_of S (map a S))).
  - apply feval_depends_only. intros v Hv. symmetry. apply asg_of_map. apply Hf. exact Hv.
  - rewrite H. apply feval_depends_only. intros v Hv. apply asg_of_map. apply Hg. exact Hv.
Qed.

Theorem is_converged_sound (t : ctree) (st : bstate) :
  tree_ok D card t -> Inv t st -> is_converged D card t st = true ->
  all_edges_set D t st /\ sepset_agree D card t st.
Proof.
  intros Htok HI Hc. unfold is_converged in Hc. apply andb_true_iff in Hc. destruct Hc as [_ Hc].
  rewrite forallb_forall in Hc.
  assert (Hedge : forall k, k < length (tedges D t) ->
            edge_converged D card t st (k, nth k (tedges D t) (0, 0)) = true).
  { intros k Hk. apply Hc. apply (In_combine_seq (tedges D t) (0, 0) k Hk 0). }
  split.
  - intros k Hk. specialize (Hedge k Hk). unfold edge_converged in Hedge.
    destruct (nth k (tedges D t) (0, 0)) as [i j]. destruct (nth k (sep D st) None) as [mu|]; [|discriminate].
    exists mu. reflexivity.
  - intros k i j mu Hnth Hk Hmu a Ha. specialize (Hedge k Hk). unfold edge_converged in Hedge.
    rewrite Hnth, Hmu in Hedge. apply andb_true_iff in Hedge. destruct Hedge as [H12 H1m].
    destruct (tok_edges D card t Htok k Hk) as [Hi [Hj _]]. rewrite Hnth in Hi, Hj. simpl in Hi, Hj.
    destruct (inv_wf D card t st HI i Hi) as [_ [Hsi _]]. destruct (inv_wf D card t st HI j Hj) as [_ [Hsj _]].
    destruct (inv_sep D card t st HI k mu Hk Hmu) as [_ [_ Hsm]]. rewrite Hnth in Hsm. simpl in Hsm.
    assert (I1 : incl (fvars (sigma_of D card t st i j)) (sepset D t i j)).
    { intros v Hv. apply (sigma_vars D card t st i j Hsi). exact Hv. }
    assert (I2 : incl (fvars (sigma_of D card t st j i)) (sepset D t i j)).
    { intros v Hv. apply (sepset_sym D card t j i). apply (sigma_vars D card t st j i Hsj). exact Hv. }
    assert (I3 : incl (fvars mu) (sepset D t i j)) by (intros v Hv; apply Hsm; exact Hv).
    pose proof (feq_on_sound _ _ _ a H1m I1 I3 Ha) as E1.
    pose proof (feq_on_sound _ _ _ a H12 I1 I2 Ha) as E2.
    split; [exact E1|]. rewrite <- E2. exact E1.
Qed.

(* ---- the division guard ------------------------------------------------------------------------ *)
Lemma sum_list_zeros {A} (l : list A) (g : A -> D) : (forall x, In x l -> g x = zero) -> sum_list (map g l) = zero.
Proof.
  induction l as [|x l IH]; intros H; [reflexivity|]. simpl. rewrite (H x (or_introl eq_refl)).
  rewrite IH by (intros y Hy; apply H; right; exact Hy). apply add_0_l. apply ok_zero.
Qed.
Lemma sum_over_zero_valid vs : forall (g : asg -> D) a, valid a ->
  (forall b, valid b -> (forall v, ~ In v vs -> b v = a v) -> g b = zero) ->
  sum_over vs (map card vs) g a = zero.
Proof.
  induction vs as [|v vs IH]; intros g a Ha H.
  - apply H; [exact Ha|]. intros; reflexivity.
  - cbn [map sum_over]. apply sum_list_zeros. intros i Hi. apply in_seq in Hi.
    apply IH; [apply valid_upd; [exact Ha|lia]|]. intros b Hb Hout. apply H; [exact Hb|].
    intros w Hw. rewrite Hout by (intros E; apply Hw; right; exact E).
    apply upd_other. intros E. apply Hw. left. symmetry. exact E.
Qed.

Theorem division_guard (t : ctree) (st : bstate) k i j mu a :
  tree_ok D card t -> Inv t st -> k < length (tedges D t) ->
  (nth k (tedges D t) (0, 0) = (i, j) \/ nth k (tedges D t) (0, 0) = (j, i)) ->
  nth k (sep D st) None = Some mu -> valid a -> feval mu a = zero ->
  feval (sigma_of D card t st i j) a = zero /\ feval (belief D card st i) a = zero /\ feval (belief D card st j) a = zero.
Proof.
  intros Htok HI Hk Hnth Hmu Ha Hz.
  destruct (tok_edges D card t Htok k Hk) as [Hi' [Hj' _]].
  assert (Hi : i < length (cliques D t)) by (destruct Hnth as [E|E]; rewrite E in *; simpl in *; assumption).
  destruct (inv_wf D card t st HI i Hi) as [Hwi [Hsi _]].
  destruct (inv_sep D card t st HI k mu Hk Hmu) as [_ [_ Hsm]].
  assert (Hsupp : forall b, valid b -> feval mu b = zero ->
            feval (belief D card st i) b = zero /\ feval (belief D card st j) b = zero).
  { intros b Hb Hzb. destruct Hnth as [E|E].
    - apply (inv_supp D card t st HI k mu i j Hk Hmu E b Hb Hzb).
    - destruct (inv_supp D card t st HI k mu j i Hk Hmu E b Hb Hzb). split; assumption. }
  split; [|apply Hsupp; assumption].
  rewrite sigma_eval by assumption. apply sum_over_zero_valid; [exact Ha|].
  intros b Hb Hout. apply Hsupp; [exact Hb|]. rewrite <- Hz.
  apply feval_depends_only. intros v Hv. apply Hout. intros Hin.
  apply In_vinter in Hin. destruct Hin as [_ Hin]. apply In_vminus in Hin. destruct Hin as [_ Hns].
  apply Hns. apply Hsm in Hv. destruct Hnth as [E|E]; rewrite E in Hv; simpl in Hv; [exact Hv|].
  apply (sepset_sym D card t j i). exact Hv.
Qed.

(* ---- stability: after convergence a message is the identity, pointwise ---------------------------- *)
Theorem update_after_converged (t : ctree) (st : bstate) i j :
  tree_ok D card t -> Inv t st -> all_edges_set D t st -> sepset_agree D card t st ->
  forall a, valid a ->
    (forall m, m < length (cliques D t) ->
       feval (belief D card (update D card t st i j) m) a = feval (belief D card st m) a) /\
    (forall k, k < length (tedges D t) ->
       sinv D card a (nth k (sep D (update D card t st i j)) None) = sinv D card a (nth k (sep D st) None)).
Proof.
  intros Htok HI Hset Hag a Ha. unfold update.
  destruct (find_edge (tedges D t) i j 0) as [k|] eqn:Ek; [|split; intros; reflexivity].
  apply find_edge_spec in Ek. rewrite Nat.sub_0_r in Ek. destruct Ek as [_ [Hk Hnth]].
  destruct (Hset k Hk) as [mu Hmu]. rewrite Hmu.
  destruct (tok_edges D card t Htok k Hk) as [He1 [He2 _]].
  assert (Hi : i < length (cliques D t)) by (destruct Hnth as [E|E]; rewrite E in *; simpl in *; assumption).
  assert (Hj : j < length (cliques D t)) by (destruct Hnth as [E|E]; rewrite E in *; simpl in *; assumption).
  destruct (inv_wf D card t st HI i Hi) as [Hwi [Hsi Hni]].
  destruct (inv_wf D card t st HI j Hj) as [Hwj [Hsj Hnj]].
  destruct (inv_sep D card t st HI k mu Hk Hmu) as [Hwm [_ Hsm]].
  assert (Hsig : feval (sigma_of D card t st i j) a = feval mu a).
  { destruct Hnth as [E|E]; [apply (Hag k i j mu E Hk Hmu a Ha)|apply (Hag k j i mu E Hk Hmu a Ha)]. }
  split.
  - intros m Hm. unfold belief at 1. simpl.
    destruct (Nat.eq_dec m j) as [->|Hne].
    + rewrite nth_set_nth_eq by (rewrite (inv_len_b D card t st HI); exact Hj).
      rewrite feval_fprod; [|exact Hwj|apply wf_fdiv0; apply sigma_wf; exact Hwi|exact Ha].
      rewrite feval_fdiv0; [|apply sigma_wf; exact Hwi|exact Ha|].
      2:{ intros v Hv. apply (sigma_vars D card t st i j Hsi). apply Hsm in Hv.
          destruct Hnth as [E|E]; rewrite E in Hv; simpl in Hv; [exact Hv|apply (sepset_sym D card t j i); exact Hv]. }
      rewrite Hsig. destruct (eqz_dec D (feval mu a)) as [Hz|Hnz].
      * destruct (division_guard t st k i j mu a Htok HI Hk Hnth Hmu Ha Hz) as [_ [_ Hbj]].
        fold (belief D card st j). rewrite Hbj. apply mul_0_l.
      * rewrite (inv_mul D _ Hnz). apply mul_1_r.
    + rewrite nth_set_nth_neq by congruence. reflexivity.
  - intros k' Hk'. simpl. destruct (Nat.eq_dec k' k) as [->|Hne].
    + rewrite nth_set_nth_eq by (rewrite (inv_len_s D card t st HI); exact Hk). rewrite Hmu. simpl.
      rewrite Hsig. reflexivity.
    + rewrite nth_set_nth_neq by congruence. reflexivity.
Qed.
End Conv.
