(* C02 end-to-end: C14's junction-tree construction (for every Markov network, any elimination order / heuristic,
   the maximal cliques of the triangulated graph, ANY maximum-weight spanning tree) composed with C02's schedule,
   peeling and query theorems.  No per-run junction-tree certificate: the only hypotheses about networkx are that
   nx.find_cliques lists the maximal cliques and that the spanning tree has maximum weight (C14's two sound
   certificates max_cliques_chk and weight >= wstar). *)
From Coq Require Import List Arith Bool PeanoNat Lia Permutation.
From PV Require Base.Reach Base.Graph C14.UGraph C14.Model C14.Spec C14.ProofsJT C14.ProofsRIP C14.ProofsGraph.
From PV Require Import Base.Semiring Base.Ravel Base.FinSum Base.RefFactor Base.VE
  C02.Dsr C02.Model C02.Spec C02.Cert C02.ProofsInv C02.ProofsPeel C02.ProofsConv C02.ProofsQuery C02.ProofsBfs
  C02.ProofsSched C02.ProofsTree C02.ProofsBridge C02.ProofsBridge2.
Import ListNotations.

Section Pots.
Variable D : dsr.
Variable card : var -> nat.
Notation factor := (RefFactor.factor D).
Notation wf := (RefFactor.wf D card).
Notation fnn := (ProofsInv.fnn D card).
Notation feval := (RefFactor.feval D card).
Variable fs : list factor.
Hypothesis Hwf : Forall wf fs.
Hypothesis Hnn : Forall fnn fs.

Lemma assign_pass_sub c : forall r i U A U', C14.Model.assign_pass D c r i U = (A, U') ->
  forall f, In f A -> In f r /\ incl (fvars f) c.
Proof.
  induction r as [|f0 r IH]; intros i U A U' H f Hf.
  - inversion H; subst. destruct Hf.
  - cbn [C14.Model.assign_pass] in H.
    destruct (negb (Base.Graph.memn i U) && C14.Model.subsetn (fvars f0) c) eqn:Ec.
    + destruct (C14.Model.assign_pass D c r (S i) (i :: U)) as [A1 U1] eqn:E1. inversion H; subst.
      destruct Hf as [<-|Hf].
      * split; [left; reflexivity|]. apply andb_true_iff in Ec. apply C14.ProofsJT.subsetn_incl. apply Ec.
      * destruct (IH _ _ _ _ E1 f Hf) as [H1 H2]. split; [right; exact H1|exact H2].
    + destruct (IH _ _ _ _ H f Hf) as [H1 H2]. split; [right; exact H1|exact H2].
Qed.

Definition pot_ok (c : list var) (p : factor) : Prop := wf p /\ same_vars (fvars p) c /\ fnn p.

Lemma clique_potential_ok c A : NoDup c -> (forall f, In f A -> In f fs /\ incl (fvars f) c) ->
  pot_ok c (C14.Model.clique_potential D card c A).
Proof.
  intros Hc HA.
  assert (HwA : Forall wf A).
  { apply Forall_forall. intros f Hf. rewrite Forall_forall in Hwf. apply Hwf. apply HA. exact Hf. }
  split; [apply C14.ProofsJT.wf_clique_potential; assumption|]. split.
  - intros v. destruct A as [|f0 A']; [reflexivity|]. unfold C14.Model.clique_potential.
    rewrite fvars_fprod, In_vunion. split; [|intros H; left; exact H].
    intros [H|H]; [exact H|]. apply C14.ProofsJT.In_fvars_fprod1 in H. destruct H as [f [Hf Hv]].
    apply (proj2 (HA f Hf)). exact Hv.
  - intros a Ha. rewrite C14.ProofsJT.feval_clique_potential by assumption.
    unfold RefFactor.eval_prod. apply nn_prod_list. apply Forall_forall. intros x Hx.
    apply in_map_iff in Hx. destruct Hx as [f [<- Hf]]. rewrite Forall_forall in Hnn. apply (Hnn f); [|exact Ha].
    apply HA. exact Hf.
Qed.

Lemma jt_pots_ok : forall cliques U ps U', Forall (@NoDup var) cliques ->
  C14.Model.jt_pots D card cliques fs U = (ps, U') -> Forall2 pot_ok cliques ps.
Proof.
  induction cliques as [|c cs IH]; intros U ps U' Hn H.
  - inversion H; subst. constructor.
  - cbn [C14.Model.jt_pots] in H. inversion Hn as [|? ? Hc Hcs]; subst.
    destruct (C14.Model.assign_pass D c fs 0 U) as [A U1] eqn:E1.
    destruct (C14.Model.jt_pots D card cs fs U1) as [ps1 U2] eqn:E2. inversion H; subst.
    constructor; [|exact (IH _ _ _ Hcs E2)].
    apply clique_potential_ok; [exact Hc|]. intros f Hf. exact (assign_pass_sub c fs 0 U A U1 E1 f Hf).
Qed.

Lemma Forall2_nth_ok cliques ps : Forall2 pot_ok cliques ps ->
  length ps = length cliques /\
  forall i, i < length cliques -> pot_ok (nth i cliques []) (nth i ps (RefFactor.fone D card)).
Proof.
  induction 1 as [|c p cs ps' Hcp _ [IH1 IH2]]; [split; [reflexivity|intros i Hi; simpl in Hi; lia]|].
  split; [simpl; rewrite IH1; reflexivity|]. intros [|i] Hi; [exact Hcp|]. simpl. apply IH2. simpl in Hi. lia.
Qed.

Theorem jt_potentials_ok cliques ps : Forall (@NoDup var) cliques ->
  C14.Model.jt_potentials D card cliques fs = C14.Model.Ok ps ->
  length ps = length cliques /\
  forall i, i < length cliques -> pot_ok (nth i cliques []) (nth i ps (RefFactor.fone D card)).
Proof.
  intros Hn H. unfold C14.Model.jt_potentials in H.
  destruct (C14.Model.jt_pots D card cliques fs []) as [ps' U] eqn:E.
  destruct (forallb (fun i => Base.Graph.memn i U) (seq 0 (length fs))); [|discriminate]. inversion H; subst.
  apply Forall2_nth_ok. exact (jt_pots_ok _ _ _ _ Hn E).
Qed.
End Pots.

Section EndToEnd.
Variable D : dsr.
Variable card : var -> nat.
Notation factor := (RefFactor.factor D).

(* the clique tree C02 works on: C14's cliques and tree edges, any adjacency lists, C14's clique potentials *)
Definition tree_from (F : list (list var)) (E0 : list (nat * nat)) (adjl : list (list nat)) (ps : list factor)
  : ctree D := {| cliques := F; tedges := E0; adj := adjl; pots := ps |}.

Section Given.
Variable g : C14.UGraph.ugraph.
Variable order : list nat.
Variable inplace : bool.
Variable F : list (list var).
Variable E0 : list (nat * nat).
Variable adjl : list (list nat).
Variable fs : list factor.
Hypothesis Hnl : C14.UGraph.noloop (C14.UGraph.uedges g).
Hypothesis Hcov : forall v, In v (C14.UGraph.endpoints (C14.UGraph.uedges g)) -> In v order.
Let g' := C14.Model.triangulate_order g order inplace.
Hypothesis HM : C14.ProofsRIP.max_cliques_of (C14.UGraph.uedges g') (C14.UGraph.vertices g') F.
Hypothesis Hmax : C14.ProofsRIP.max_weight_tree {| C14.Model.jcliques := F; C14.Model.jedges := E0 |}.
Hypothesis Hwf : Forall (RefFactor.wf D card) fs.
Hypothesis Hnn : Forall (ProofsInv.fnn D card) fs.
Hypothesis Hsc : forall f, In f fs ->
  incl (fvars f) (C14.UGraph.vertices g) /\ C14.UGraph.is_clique (C14.UGraph.uedges g) (fvars f).

Lemma e2e_setup : exists ps, C14.Model.jt_potentials D card F fs = C14.Model.Ok ps /\
  let t := tree_from F E0 adjl ps in
  (forall a, valid card a -> C02.Spec.joint D card t a = C14.Spec.joint D card fs a) /\
  (adj_ok D t -> tree_ok D card t /\ ProofsTree.is_tree D t /\
     forall r, r < length F -> exists ord, peels D t (all_cl D t) (all_ed D t) ord [r] []).
Proof.
  destruct (C14.ProofsRIP.junction_tree_joint D card g order inplace F E0 fs Hnl Hcov HM Hmax Hwf Hsc)
    as (Ht & _ & Hr & ps & Hps & Hj).
  assert (HFn : Forall (@NoDup var) F).
  { apply Forall_forall. intros c Hc. destruct HM as (M1 & _). apply (M1 c Hc). }
  destruct (jt_potentials_ok D card fs Hwf Hnn F ps HFn Hps) as [Hlen Hpots].
  exists ps. split; [exact Hps|]. intros t. split.
  - intros a Ha. exact (Hj a Ha).
  - intros Hadj.
    assert (Htree : C14.Spec.is_tree (jt_of D t)) by exact Ht.
    assert (Hrip : C14.Spec.rip (jt_of D t)) by exact Hr.
    split; [|split].
    + constructor.
      * exact Hlen.
      * intros i Hi. exact (Hpots i Hi).
      * unfold t, tree_from. cbn [tedges cliques]. intros k Hk. destruct Ht as (_ & Hrng & _). cbn in Hrng.
        assert (Hin : In (nth k E0 (0, 0)) E0) by (apply nth_In; exact Hk).
        destruct (Hrng _ Hin) as [H1 H2]. split; [exact H1|]. split; [exact H2|].
        destruct (nth k E0 (0, 0)) as [u v] eqn:E. simpl. intros ->.
        apply (bridge_noloop D t Htree v). exact Hin.
    + apply (bridge_tree_shape D t Htree Hadj).
    + intros r Hr0. apply (rip_gives_peel_order D t Htree Hrip Hadj r Hr0).
Qed.

(* calibrate()/max_calibrate() on the constructed tree: every sepset belief is the common sepset marginal of its two
   cliques, and every clique belief is the marginal of the SOURCE model's joint (product of all factors) *)
Theorem e2e_calibration : exists ps, C14.Model.jt_potentials D card F fs = C14.Model.Ok ps /\
  let t := tree_from F E0 adjl ps in
  adj_ok D t ->
  let st := calibrate D card t in
  all_edges_set D t st /\ sepset_agree D card t st /\
  forall r, r < length F ->
    exists vs, enumerates_complement vs (all_vars D t) (clq D t r) /\
      forall a, valid card a ->
        feval D card (belief D card st r) a = sum_over vs (map card vs) (C14.Spec.joint D card fs) a.
Proof.
  destruct e2e_setup as [ps [Hps [Hj Hrest]]]. exists ps. split; [exact Hps|]. intros t Hadj st.
  destruct (Hrest Hadj) as [Htok [Htr Hpeel]].
  destruct (schedule_calibrates D card t Htok Htr) as [Hset Hag].
  pose proof (calibrate_Inv D card t Htok) as HI.
  split; [exact Hset|]. split; [exact Hag|]. intros r Hr.
  destruct (Hpeel r Hr) as [ord Hord]. exists (pvars D card t st ord).
  assert (Hlt0 : forall i, In i (all_cl D t) -> i < length (cliques D t)) by (intros i Hi; apply in_seq in Hi; lia).
  destruct (pvars_spec D card t st HI _ _ _ _ _ Hord Hlt0) as [P1 [P2 P3]].
  split.
  - split; [exact P3|]. intros v. rewrite (In_all_vars D t v). split.
    + intros Hv. destruct (P1 v Hv) as [[l [Hl Hvl]] Hno]. split; [exists l; split; [apply Hlt0; exact Hl|exact Hvl]|].
      apply (Hno r). left. reflexivity.
    + intros [[i [Hi Hvi]] Hnr]. assert (Hi' : In i (all_cl D t)) by (apply in_seq; lia).
      destruct (P2 v i Hi' Hvi) as [H|[j [[<-|[]] Hvj]]]; [exact H|contradiction].
  - intros a Ha. rewrite (peel_to_root D card t st Htok HI Hset Hag ord r Hord a Ha).
    apply (sum_over_ext_valid D card); [exact Ha|]. intros b Hb. apply Hj. exact Hb.
Qed.

(* BeliefPropagation.query as coded on that tree = posterior numerator of the SOURCE joint, summed over exactly
   the non-query non-evidence variables; remaining run-time certificate: Cert.query_cert (the traversal of the
   query's subtree), no junction-tree certificate *)
Theorem e2e_query : exists ps, C14.Model.jt_potentials D card F fs = C14.Model.Ok ps /\
  let t := tree_from F E0 adjl ps in
  adj_ok D t ->
  forall Q ev r, bp_query D card t (calibrate D card t) Q ev = Some r -> query_cert D card t Q ev r = true ->
    exists vs, enumerates_complement vs (all_vars D t) (Q ++ map fst ev) /\
      forall a, valid card a ->
        feval D card (q_factor D r) a =
        sum_over vs (map card vs) (fun b => C14.Spec.joint D card fs (upds b ev)) a.
Proof.
  destruct e2e_setup as [ps [Hps [Hj Hrest]]]. exists ps. split; [exact Hps|]. intros t Hadj Q ev r Hq Hcert.
  destruct (Hrest Hadj) as [Htok [Htr _]].
  destruct (schedule_calibrates D card t Htok Htr) as [Hset Hag].
  pose proof (calibrate_Inv D card t Htok) as HI. set (st := calibrate D card t) in *.
  destruct (query_cert_sound D card t Q ev r Hcert) as [ord [rem [esub [ks [H1 [H2 [H3 [H4 [H5 [H6 [H7 H8]]]]]]]]]]].
  exists (query_elim D t (q_sub D r) Q ev ++ pvars D card t st ord). split.
  - apply (summed_vars_enumerate D card t st HI Q ev (q_sub D r) ord rem esub); assumption.
  - intros a Ha.
    rewrite (bp_query_posterior D card t st Htok HI Hset Hag Q ev r ord rem esub ks Hq H1 H2 H3 H4 H5 H6 H7
               (fun v i Hv => H8 v i (in_or_app _ _ _ (or_intror Hv))) a Ha).
    unfold posterior_num. apply (sum_over_ext_valid D card); [exact Ha|]. intros b Hb.
    apply Hj. apply valid_upds; assumption.
Qed.
End Given.
End EndToEnd.

(* ---- Bayesian networks: through moralisation, as BayesianNetwork.to_junction_tree does (C14.Model.bn_to_mn) ---- *)
Section BN.
Variable D : dsr.
Variable card : var -> nat.
Variable dag : Base.Graph.digraph.
Variable cpds : list (C14.Model.cpd D).
Hypothesis Hwfg : Base.Graph.wf_graph dag.
Hypothesis Hnd : NoDup (Base.Graph.edges dag).
Hypothesis Hnoself : forall a, ~ In (a, a) (Base.Graph.edges dag).
Hypothesis Hfam : forall c, In c cpds ->
  In (C14.Model.cchild D c) (Base.Graph.nodes dag) /\
  forall p, In p (C14.Model.cpars D c) -> In (p, C14.Model.cchild D c) (Base.Graph.edges dag).
Let g := C14.Model.moral_graph dag.
Let fs := C14.Model.mfactors D (C14.Model.bn_to_mn D dag cpds).
Hypothesis Hwf : Forall (RefFactor.wf D card) fs.
Hypothesis Hnn : Forall (ProofsInv.fnn D card) fs.

Lemma bn_noloop : C14.UGraph.noloop (C14.UGraph.uedges g).
Proof.
  intros a Hin. assert (Ha : C14.UGraph.Adj (C14.UGraph.uedges g) a a) by (left; exact Hin).
  apply (C14.ProofsGraph.moral_graph_spec dag a a Hwfg Hnd Hnoself) in Ha. destruct Ha as [Hne _]. apply Hne. reflexivity.
Qed.
Lemma bn_scopes f : In f fs ->
  incl (fvars f) (C14.UGraph.vertices g) /\ C14.UGraph.is_clique (C14.UGraph.uedges g) (fvars f).
Proof.
  intros Hf. unfold fs, C14.Model.bn_to_mn in Hf. cbn in Hf. apply in_map_iff in Hf. destruct Hf as [c [<- Hc]].
  destruct (Hfam c Hc) as [Hch Hpa]. split.
  - intros v Hv. unfold C14.UGraph.vertices. apply C14.UGraph.In_udedup. apply in_or_app. left.
    change (C14.UGraph.unodes g) with (Base.Graph.nodes dag).
    cbn in Hv. destruct Hv as [<-|Hv]; [exact Hch|]. destruct Hwfg as [_ Hw]. apply (Hw v _ (Hpa v Hv)).
  - apply (C14.ProofsJT.bn_to_mn_scope_clique D dag c Hwfg Hnd Hnoself Hpa).
Qed.
Lemma bn_joint a : C14.Spec.joint D card fs a = prod_list (map (fun c => C14.Model.cpd_eval D card c a) cpds).
Proof. apply (C14.ProofsJT.bn_to_mn_joint D card dag cpds a). Qed.
End BN.

Theorem e2e_calibration_bn (D : dsr) (card : var -> nat) (dag : Base.Graph.digraph) (cpds : list (C14.Model.cpd D))
  order inplace F E0 adjl :
  Base.Graph.wf_graph dag -> NoDup (Base.Graph.edges dag) -> (forall a, ~ In (a, a) (Base.Graph.edges dag)) ->
  (forall c, In c cpds -> In (C14.Model.cchild D c) (Base.Graph.nodes dag) /\
     forall p, In p (C14.Model.cpars D c) -> In (p, C14.Model.cchild D c) (Base.Graph.edges dag)) ->
  let g := C14.Model.moral_graph dag in
  let fs := C14.Model.mfactors D (C14.Model.bn_to_mn D dag cpds) in
  Forall (RefFactor.wf D card) fs -> Forall (ProofsInv.fnn D card) fs ->
  (forall v, In v (C14.UGraph.endpoints (C14.UGraph.uedges g)) -> In v order) ->
  let g' := C14.Model.triangulate_order g order inplace in
  C14.ProofsRIP.max_cliques_of (C14.UGraph.uedges g') (C14.UGraph.vertices g') F ->
  C14.ProofsRIP.max_weight_tree {| C14.Model.jcliques := F; C14.Model.jedges := E0 |} ->
  exists ps, C14.Model.jt_potentials D card F fs = C14.Model.Ok ps /\
  let t := tree_from D F E0 adjl ps in
  adj_ok D t ->
  let st := calibrate D card t in
  all_edges_set D t st /\ sepset_agree D card t st /\
  forall r, r < length F ->
    exists vs, enumerates_complement vs (all_vars D t) (clq D t r) /\
      forall a, valid card a ->
        feval D card (belief D card st r) a =
        sum_over vs (map card vs) (fun b => prod_list (map (fun c => C14.Model.cpd_eval D card c b) cpds)) a.
Proof.
  intros Hwfg Hnd Hns Hfam g fs Hwf Hnn Hcov g' HM Hmax.
  destruct (e2e_calibration D card g order inplace F E0 adjl fs (bn_noloop dag Hwfg Hnd Hns) Hcov HM Hmax Hwf Hnn
              (bn_scopes D dag cpds Hwfg Hnd Hns Hfam)) as [ps [Hps H]].
  exists ps. split; [exact Hps|]. intros t Hadj st. destruct (H Hadj) as [H1 [H2 H3]].
  split; [exact H1|]. split; [exact H2|]. intros r Hr. destruct (H3 r Hr) as [vs [Hv He]].
  exists vs. split; [exact Hv|]. intros a Ha. etransitivity; [exact (He a Ha)|].
  apply sum_over_ext_fun. intros b. apply (bn_joint D card dag cpds b).
Qed.
