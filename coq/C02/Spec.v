(* C02 specification: what "calibrated" and "posterior" mean for a clique tree, with no algorithm.
   The joint is the pointwise product of the initial clique potentials; a marginal ("sum" of the csr:
   ordinary sum for Qc_sum_dsr, max for Qc_max_dsr) is a finite sum over an enumeration of the
   variables that are summed out.  Tree + running-intersection property are given in the
   "running-intersection ordering" form (leaf elimination): the cliques can be removed one at a time,
   each removed clique l hanging by exactly one remaining tree edge on a remaining clique p that
   contains every variable l shares with any other remaining clique. *)
From Coq Require Import List Arith Bool PeanoNat.
From PV Require Import Base.Semiring Base.Ravel Base.FinSum Base.RefFactor C02.Dsr C02.Model.
Import ListNotations.

Section Spec.
Variable D : dsr.
Variable card : var -> nat.
Notation factor := (RefFactor.factor D).
Notation feval := (RefFactor.feval D card).
Notation valid := (RefFactor.valid card).
Notation ctree := (ctree D).
Notation bstate := (bstate D).

(* the unnormalised joint measure of the clique tree *)
Definition joint (t : ctree) (a : asg) : D := eval_prod D card (pots D t) a.

(* [vs] enumerates, without repetition, exactly the variables of [univ] outside [keep] *)
Definition enumerates_complement (vs univ keep : list var) : Prop :=
  NoDup vs /\ forall v, In v vs <-> (In v univ /\ ~ In v keep).

(* f is the marginal of g onto [keep] (all other variables of [univ] summed / maximised out) *)
Definition marginal_of (g : asg -> D) (univ keep : list var) (f : factor) : Prop :=
  exists vs, enumerates_complement vs univ keep /\
    forall a, valid a -> feval f a = sum_over vs (map card vs) g a.

(* one leaf-elimination step on the remaining cliques [rem] / remaining edges [erem] *)
Definition peel_step (t : ctree) (rem erem : list nat) (l p k : nat) : Prop :=
  In l rem /\ In p rem /\ l <> p /\ In k erem /\
  (nth k (tedges D t) (0, 0) = (l, p) \/ nth k (tedges D t) (0, 0) = (p, l)) /\
  (forall k', In k' erem -> k' <> k ->
      fst (nth k' (tedges D t) (0, 0)) <> l /\ snd (nth k' (tedges D t) (0, 0)) <> l) /\
  (forall i, In i rem -> i <> l ->
      forall v, In v (clq D t l) -> In v (clq D t i) -> In v (clq D t p)).
Inductive peels (t : ctree) : list nat -> list nat -> list (nat * nat * nat) -> list nat -> list nat -> Prop :=
| peels_nil rem erem : peels t rem erem [] rem erem
| peels_cons rem erem l p k order rem' erem' :
    peel_step t rem erem l p k ->
    peels t (remn l rem) (remn k erem) order rem' erem' ->
    peels t rem erem ((l, p, k) :: order) rem' erem'.

(* a junction tree: all cliques but one can be eliminated, using up all edges (so the edges form a
   tree on the cliques, and the running-intersection property holds) *)
Definition junction_tree (t : ctree) : Prop :=
  exists order r, peels t (all_cl D t) (all_ed D t) order [r] [].

(* calibrated: every clique belief is the marginal of the joint on the clique's scope, every sepset
   belief is the common marginal of its two cliques' beliefs *)
Definition sepset_agree (t : ctree) (st : bstate) : Prop :=
  forall k i j mu, nth k (tedges D t) (0, 0) = (i, j) -> k < length (tedges D t) ->
    nth k (sep D st) None = Some mu ->
    forall a, valid a ->
      feval (sigma_of D card t st i j) a = feval mu a /\
      feval (sigma_of D card t st j i) a = feval mu a.
Definition all_edges_set (t : ctree) (st : bstate) : Prop :=
  forall k, k < length (tedges D t) -> exists mu, nth k (sep D st) None = Some mu.
Definition calibrated (t : ctree) (st : bstate) : Prop :=
  (forall i, i < length (cliques D t) ->
      marginal_of (joint t) (all_vars D t) (clq D t i) (belief D card st i)) /\
  all_edges_set t st /\ sepset_agree t st.

(* posterior numerator: evidence substituted, everything but the query variables summed out *)
Definition posterior_num (t : ctree) (ev : list (var * nat)) (vs : list var) (a : asg) : D :=
  sum_over vs (map card vs) (fun b => joint t (upds b ev)) a.
End Spec.
