(* C02 finite-domain theorem on tree SHAPES: the symbolic schedule certificate Cert.sched_chk holds for
   every labelled tree on <= 5 cliques (every clique numbering = every root order) with the adjacency
   lists networkx builds from EVERY ordering of the edge list, and for every labelled tree on 6 cliques
   with the edge list in parent order.  With ProofsSched.sched_chk_calibrates this gives calibration for
   all cardinalities and all non-negative potentials on these shapes. *)
From Coq Require Import List Arith Bool PeanoNat.
From PV Require Import Base.Semiring Base.Ravel Base.FinSum Base.RefFactor C02.Dsr C02.Model C02.Cert.
Import ListNotations.

Fixpoint arrays (n k : nat) : list (list nat) :=
  match k with
  | 0 => [[]]
  | S k' => flat_map (fun x => map (cons x) (arrays n k')) (seq 0 n)
  end.
Fixpoint climb (fuel : nat) (pa : list nat) (i : nat) : bool :=
  match fuel with
  | 0 => false
  | S f => if i =? 0 then true else climb f pa (nth (i - 1) pa 0)
  end.
(* pa[i-1] = parent of node i (i = 1..n-1); a tree iff every node climbs to 0 *)
Definition is_tree_pa (n : nat) (pa : list nat) : bool :=
  forallb (fun i => negb (nth (i - 1) pa 0 =? i) && climb n pa i) (seq 1 (n - 1)).
Definition edges_pa (n : nat) (pa : list nat) : list (nat * nat) :=
  map (fun i => (nth (i - 1) pa 0, i)) (seq 1 (n - 1)).
Fixpoint insert_all {A} (x : A) (l : list A) : list (list A) :=
  match l with
  | [] => [[x]]
  | y :: r => (x :: l) :: map (cons y) (insert_all x r)
  end.
Fixpoint perms {A} (l : list A) : list (list A) :=
  match l with [] => [[]] | x :: r => flat_map (insert_all x) (perms r) end.
Fixpoint app_nth (n : nat) (x : nat) (l : list (list nat)) : list (list nat) :=
  match l, n with
  | [], _ => []
  | a :: r, 0 => (a ++ [x]) :: r
  | a :: r, S m => a :: app_nth m x r
  end.
(* networkx: add_edge(u, v) appends v to adj[u] and u to adj[v] *)
Definition adj_of (n : nat) (es : list (nat * nat)) : list (list nat) :=
  fold_left (fun ad e => app_nth (snd e) (fst e) (app_nth (fst e) (snd e) ad)) es (repeat [] n).

Section Shapes.
Variable D : dsr.
Definition shape (n : nat) (es : list (nat * nat)) : ctree D :=
  {| cliques := map (fun i => [i]) (seq 0 n); tedges := es; adj := adj_of n es; pots := [] |}.
Definition shapes_allorders (n : nat) : list (ctree D) :=
  flat_map (fun pa => if is_tree_pa n pa then map (shape n) (perms (edges_pa n pa)) else []) (arrays n (n - 1)).
Definition shapes_oneorder (n : nat) : list (ctree D) :=
  flat_map (fun pa => if is_tree_pa n pa then [shape n (edges_pa n pa)] else []) (arrays n (n - 1)).
Definition shapes_upto5 : list (ctree D) :=
  shapes_allorders 1 ++ shapes_allorders 2 ++ shapes_allorders 3 ++ shapes_allorders 4 ++ shapes_allorders 5.
End Shapes.

Lemma sched_shapes_upto5 : forallb (sched_chk Qc_sum_dsr) (shapes_upto5 Qc_sum_dsr) = true.
Proof. vm_compute. reflexivity. Qed.
Lemma sched_shapes_6 : forallb (sched_chk Qc_sum_dsr) (shapes_oneorder Qc_sum_dsr 6) = true.
Proof. vm_compute. reflexivity. Qed.
Example shapes_counts :
  (length (shapes_allorders Qc_sum_dsr 4), length (shapes_allorders Qc_sum_dsr 5), length (shapes_oneorder Qc_sum_dsr 6))
  = (16 * 6, 125 * 24, 1296).
Proof. vm_compute. reflexivity. Qed.
Lemma sched_shapes_upto5_max : forallb (sched_chk Qc_max_dsr) (shapes_upto5 Qc_max_dsr) = true.
Proof. vm_compute. reflexivity. Qed.
Lemma sched_shapes_6_max : forallb (sched_chk Qc_max_dsr) (shapes_oneorder Qc_max_dsr 6) = true.
Proof. vm_compute. reflexivity. Qed.
Theorem sched_chk_shapes :
  (forall t, In t (shapes_upto5 Qc_sum_dsr ++ shapes_oneorder Qc_sum_dsr 6) -> sched_chk Qc_sum_dsr t = true) /\
  (forall t, In t (shapes_upto5 Qc_max_dsr ++ shapes_oneorder Qc_max_dsr 6) -> sched_chk Qc_max_dsr t = true).
Proof.
  split; intros t Ht; apply in_app_or in Ht; destruct Ht as [Ht|Ht].
  - exact (proj1 (forallb_forall _ _) sched_shapes_upto5 t Ht).
  - exact (proj1 (forallb_forall _ _) sched_shapes_6 t Ht).
  - exact (proj1 (forallb_forall _ _) sched_shapes_upto5_max t Ht).
  - exact (proj1 (forallb_forall _ _) sched_shapes_6_max t Ht).
Qed.
