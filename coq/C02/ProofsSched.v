(* C02: the schedule theorem.  Local facts about one message u -> v on edge k:
     (L1) afterwards the edge is consistent from u's side (mu_k = u's sepset marginal);
     (L2) if the edge was consistent from v's side before, it still is (uses the 0/0 guard);
     (L3) consistency from x's side of any edge is untouched unless x = v.
   The symbolic tracker Cert.track_step follows exactly these facts, so if the tracker run over the whole
   coded schedule ends with both sides of every edge consistent (Cert.sched_chk, a function of the tree's
   SHAPE only), the schedule ends locally consistent for ALL cardinalities and ALL non-negative potentials. *)
From Coq Require Import List Arith Bool PeanoNat Lia.
From PV Require Import Base.Semiring Base.Ravel Base.FinSum Base.RefFactor Base.VE
  C02.Dsr C02.Model C02.Spec C02.Cert C02.ProofsInv C02.ProofsPeel C02.ProofsConv.
Import ListNotations.

Lemma find_edge_sym es : forall x y k0, find_edge es x y k0 = find_edge es y x k0.
Proof.
  induction es as [|[u v] es IH]; intros x y k0; [reflexivity|]. simpl.
  rewrite (orb_comm ((u =? x) && (v =? y))). rewrite IH. reflexivity.
Qed.
Lemma vunion_incl a b : incl b a -> vunion a b = a.
Proof.
  intros H. unfold vunion. replace (filter (fun x => negb (memv x a)) b) with (@nil var); [apply app_nil_r|].
  symmetry. induction b as [|x b IH]; [reflexivity|]. simpl.
  assert (Hx : memv x a = true) by (apply memv_In; apply H; left; reflexivity). rewrite Hx. simpl.
  apply IH. intros y Hy. apply H. right. exact Hy.
Qed.
Lemma fold_left_map {A B C} (f : A -> C -> A) (g : B -> C) l : forall a,
  fold_left f (map g l) a = fold_left (fun s x => f s (g x)) l a.
Proof. induction l as [|x l IH]; intros a; [reflexivity|]. simpl. apply IH. Qed.

Section Sched.
Variable D : dsr.
Variable card : var -> nat.
Notation feval := (RefFactor.feval D card).
Notation valid := (RefFactor.valid card).
Notation wf := (RefFactor.wf D card).
Notation ctree := (ctree D).
Notation bstate := (bstate D).
Notation belief := (belief D card).
Notation Inv := (Inv D card).
Variable t : ctree.
Hypothesis Htok : tree_ok D card t.

Definition ucons (st : bstate) (x y : nat) : Prop :=
  exists k mu, find_edge (tedges D t) x y 0 = Some k /\ nth k (sep D st) None = Some mu /\
    forall a, valid a -> feval (sigma_of D card t st x y) a = feval mu a.
Definition tracks (st : bstate) (cons : list (nat * nat)) : Prop :=
  forall x y, In (x, y) cons -> ucons st x y.

Lemma track_update st cons u v : Inv t st -> tracks st cons ->
  tracks (update D card t st u v) (track_step D t cons (u, v)).
Proof.
  intros HI Htr. unfold track_step, update. cbn [fst snd].
  destruct (find_edge (tedges D t) u v 0) as [k|] eqn:Ek; [|exact Htr].
  pose proof Ek as Ek0. apply find_edge_spec in Ek. rewrite Nat.sub_0_r in Ek. destruct Ek as [_ [Hk Hnth]].
  destruct (tok_edges D card t Htok k Hk) as [He1 [He2 He3]].
  assert (Hu : u < length (cliques D t)) by (destruct Hnth as [E|E]; rewrite E in *; simpl in *; lia).
  assert (Hv : v < length (cliques D t)) by (destruct Hnth as [E|E]; rewrite E in *; simpl in *; lia).
  assert (Huv : u <> v) by (destruct Hnth as [E|E]; rewrite E in *; simpl in *; lia).
  destruct (inv_wf D card t st HI u Hu) as [Hwu [Hsu Hnu]].
  destruct (inv_wf D card t st HI v Hv) as [Hwv [Hsv Hnv]].
  set (sigma := sigma_of D card t st u v).
  assert (Hws : wf sigma) by (apply sigma_wf; exact Hwu).
  assert (Hns : fnn D card sigma) by (apply sigma_nn; assumption).
  assert (Hvs : same_vars (fvars sigma) (sepset D t u v)) by (apply sigma_vars; exact Hsu).
  set (old := nth k (sep D st) None).
  set (msg := match old with Some mu => fdiv0 D card sigma mu | None => sigma end).
  set (bv' := RefFactor.fprod D card (belief st v) msg).
  set (st' := {| bel := set_nth v bv' (bel D st); sep := set_nth k (Some sigma) (sep D st) |}).
  assert (Hlenb : v < length (bel D st)) by (rewrite (inv_len_b D card t st HI); exact Hv).
  assert (Hlens : k < length (sep D st)) by (rewrite (inv_len_s D card t st HI); exact Hk).
  assert (Hbel_o : forall m, m <> v -> belief st' m = belief st m).
  { intros m Hm. unfold Model.belief, st'. simpl. apply nth_set_nth_neq. congruence. }
  assert (Hsep_k : nth k (sep D st') None = Some sigma).
  { unfold st'. simpl. apply nth_set_nth_eq. exact Hlens. }
  assert (Hsep_o : forall m, m <> k -> nth m (sep D st') None = nth m (sep D st) None).
  { intros m Hm. unfold st'. simpl. apply nth_set_nth_neq. congruence. }
  assert (Hsig_o : forall x y, x <> v -> sigma_of D card t st' x y = sigma_of D card t st x y).
  { intros x y Hx. unfold sigma_of. rewrite Hbel_o by exact Hx. reflexivity. }
  assert (Hnew : ucons st' u v).
  { exists k, sigma. split; [exact Ek0|]. split; [exact Hsep_k|]. intros a _. rewrite (Hsig_o u v Huv). reflexivity. }
  intros x y [E|Hin]; [inversion E; subst; exact Hnew|].
  apply filter_In in Hin. destruct Hin as [Hin Hf]. cbn [fst snd] in Hf.
  destruct (Htr x y Hin) as [k' [mu' [Hk' [Hmu' Hc']]]].
  destruct (Nat.eq_dec x v) as [->|Hxv].
  - (* L2 *)
    rewrite Nat.eqb_refl in Hf. simpl in Hf. apply negb_true_iff, negb_false_iff, Nat.eqb_eq in Hf. subst y.
    rewrite find_edge_sym, Ek0 in Hk'. inversion Hk'; subst k'. clear Hk'.
    exists k, sigma. split; [rewrite find_edge_sym; exact Ek0|]. split; [exact Hsep_k|]. intros a Ha.
    destruct (inv_sep D card t st HI k mu' Hk Hmu') as [Hwm [Hnm Hsm]].
    assert (Hek : same_vars (sepset D t (fst (nth k (tedges D t) (0, 0))) (snd (nth k (tedges D t) (0, 0))))
                            (sepset D t u v)).
    { destruct Hnth as [E|E]; rewrite E; simpl; [intros w; tauto|apply (sepset_sym D card)]. }
    assert (Hmsg_vars : fvars msg = fvars sigma) by (unfold msg; destruct old; reflexivity).
    assert (Hmsg_wf : wf msg) by (unfold msg; destruct old; [apply wf_fdiv0|]; exact Hws).
    assert (Hmsg_eval : forall b, valid b -> feval msg b = mul (feval sigma b) (inv (feval mu' b))).
    { intros b Hb. unfold msg, old. rewrite Hmu'. apply feval_fdiv0; [exact Hws|exact Hb|].
      intros w Hw. apply Hvs. apply Hek. apply Hsm. exact Hw. }
    assert (Hfv : fvars bv' = fvars (belief st v)).
    { unfold bv'. rewrite fvars_fprod. apply vunion_incl. intros w Hw. rewrite Hmsg_vars in Hw.
      apply Hsv. apply Hvs in Hw. unfold sepset in Hw. apply In_vinter in Hw. apply Hw. }
    assert (Hbv : belief st' v = bv') by (unfold Model.belief, st'; simpl; apply nth_set_nth_eq; exact Hlenb).
    assert (Hwb' : wf bv') by (apply wf_fprod; assumption).
    rewrite sigma_eval; [|rewrite Hbv; exact Hwb'|exact Ha]. rewrite Hbv, Hfv.
    set (xs := vinter (fvars (belief st v)) (vminus (clq D t v) (sepset D t v u))).
    rewrite (sum_over_ext_valid D card xs (feval bv')
               (fun b => mul (feval (belief st v) b) (mul (feval sigma b) (inv (feval mu' b)))) a Ha).
    2:{ intros b Hb. unfold bv'. rewrite feval_fprod by assumption. rewrite Hmsg_eval by exact Hb. reflexivity. }
    assert (Hxs : forall w, In w xs -> ~ In w (sepset D t u v)).
    { intros w Hw Hs. unfold xs in Hw. apply In_vinter in Hw. destruct Hw as [_ Hw]. apply In_vminus in Hw.
      apply (proj2 Hw). apply (sepset_sym D card t u v). exact Hs. }
    rewrite (sum_over_mul_r_valid D card xs (fun b => mul (feval sigma b) (inv (feval mu' b))) (feval (belief st v)) a Ha).
    2:{ intros w Hw b i. f_equal; [|f_equal].
        - apply (depends_only_ignores D _ (fvars sigma)); [apply feval_depends_only|]. intros H. apply (Hxs w Hw). apply Hvs. exact H.
        - apply (depends_only_ignores D _ (fvars mu')); [apply feval_depends_only|]. intros H. apply (Hxs w Hw). apply Hek. apply Hsm. exact H. }
    2:{ intros b Hb. apply nn_ok. apply nn_mul; [apply Hns; exact Hb|apply nn_inv; apply Hnm; exact Hb]. }
    fold xs. unfold xs. rewrite <- (sigma_eval D card t st v u a Hwv Ha). rewrite (Hc' a Ha).
    destruct (eqz_dec D (feval mu' a)) as [Hz|Hnz].
    + rewrite Hz, mul_0_l. symmetry.
      apply (division_guard D card t st k u v mu' a Htok HI Hk Hnth Hmu' Ha Hz).
    + rewrite (mul_swap_l D), (inv_mul D _ Hnz). apply mul_1_r.
  - (* L3 *)
    destruct (Nat.eq_dec k' k) as [->|Hkk].
    + (* same edge and x <> v: x = u, y = v *)
      apply find_edge_spec in Hk'. rewrite Nat.sub_0_r in Hk'. destruct Hk' as [_ [_ Hn']].
      assert (x = u /\ y = v) as [-> ->].
      { destruct Hnth as [E|E]; rewrite E in Hn'; destruct Hn' as [E'|E']; inversion E'; subst; try contradiction; auto. }
      exact Hnew.
    + exists k', mu'. split; [exact Hk'|]. split; [rewrite Hsep_o by exact Hkk; exact Hmu'|].
      intros a Ha. rewrite Hsig_o by exact Hxv. apply Hc'. exact Ha.
Qed.

Lemma fold_track msgs : forall st cons, Inv t st -> tracks st cons ->
  Inv t (fold_left (fun s m => update D card t s (fst m) (snd m)) msgs st) /\
  tracks (fold_left (fun s m => update D card t s (fst m) (snd m)) msgs st) (fold_left (track_step D t) msgs cons).
Proof.
  induction msgs as [|[u v] msgs IH]; intros st cons HI Htr; [split; assumption|]. simpl.
  apply IH; [apply update_preserves_Inv; assumption|]. apply track_update; assumption.
Qed.
Lemma root_round_msgs st r :
  root_round D card t st r = fold_left (fun s m => update D card t s (fst m) (snd m)) (round_msgs D t r) st.
Proof.
  unfold root_round, round_msgs. rewrite fold_left_app, fold_left_map. reflexivity.
Qed.

Lemma memp_In x y l : memp x y l = true -> In (x, y) l.
Proof.
  unfold memp. rewrite existsb_exists. intros [[a b] [Hin H]]. apply andb_true_iff in H. simpl in H.
  destruct H as [H1 H2]. apply Nat.eqb_eq in H1, H2. subst. exact Hin.
Qed.
Lemma full_cons_agree st cons : tracks st cons -> full_cons D t cons = true ->
  all_edges_set D t st /\ sepset_agree D card t st.
Proof.
  intros Htr Hf. unfold full_cons in Hf. rewrite forallb_forall in Hf.
  assert (H : forall k i j, k < length (tedges D t) -> nth k (tedges D t) (0, 0) = (i, j) ->
            exists mu, nth k (sep D st) None = Some mu /\
              forall a, valid a -> feval (sigma_of D card t st i j) a = feval mu a /\
                                   feval (sigma_of D card t st j i) a = feval mu a).
  { intros k i j Hk Hnth. specialize (Hf k). assert (Hin : In k (all_ed D t)) by (apply in_seq; lia).
    apply Hf in Hin. rewrite Hnth in Hin. cbn [fst snd] in Hin. rewrite !andb_true_iff in Hin.
    destruct Hin as [[H1 H2] H3]. apply memp_In in H1, H2.
    destruct (find_edge (tedges D t) i j 0) as [k0|] eqn:E; [|discriminate]. apply Nat.eqb_eq in H3. subst k0.
    destruct (Htr i j H1) as [k1 [mu1 [Hk1 [Hm1 Hc1]]]]. destruct (Htr j i H2) as [k2 [mu2 [Hk2 [Hm2 Hc2]]]].
    rewrite E in Hk1. inversion Hk1; subst k1. rewrite find_edge_sym, E in Hk2. inversion Hk2; subst k2.
    rewrite Hm1 in Hm2. inversion Hm2; subst mu2. exists mu1. split; [exact Hm1|]. intros a Ha. split; auto. }
  split.
  - intros k Hk. destruct (nth k (tedges D t) (0, 0)) as [i j] eqn:E. destruct (H k i j Hk E) as [mu [Hm _]].
    exists mu. exact Hm.
  - intros k i j mu Hnth Hk Hmu a Ha. destruct (H k i j Hk Hnth) as [mu' [Hm Hc]]. rewrite Hmu in Hm.
    inversion Hm; subst mu'. apply Hc. exact Ha.
Qed.

Lemma calib_loop_agree roots : forall st cons, Inv t st -> tracks st cons ->
  full_cons D t (fold_left (track_round D t) roots cons) = true ->
  all_edges_set D t (calib_loop D card t roots st) /\ sepset_agree D card t (calib_loop D card t roots st).
Proof.
  induction roots as [|r rs IH]; intros st cons HI Htr Hf; simpl in *.
  - apply (full_cons_agree st cons); assumption.
  - destruct (is_converged D card t st) eqn:Ec; [apply is_converged_sound; assumption|].
    rewrite root_round_msgs. destruct (fold_track (round_msgs D t r) st cons HI Htr) as [HI' Htr'].
    apply (IH _ (track_round D t cons r)); assumption.
Qed.

Theorem sched_chk_calibrates : sched_chk D t = true ->
  all_edges_set D t (calibrate D card t) /\ sepset_agree D card t (calibrate D card t).
Proof.
  intros H. unfold calibrate. apply (calib_loop_agree _ _ []); [apply init_Inv; exact Htok| |exact H].
  intros x y [].
Qed.

(* with a leaf-elimination order ending in r: the belief of r after the coded schedule is the marginal *)
Theorem sched_chk_marginal : sched_chk D t = true ->
  forall order r, peels D t (all_cl D t) (all_ed D t) order [r] [] ->
  forall a, valid a ->
    feval (belief (calibrate D card t) r) a =
    sum_over (pvars D card t (calibrate D card t) order) (map card (pvars D card t (calibrate D card t) order))
             (joint D card t) a.
Proof.
  intros H order r Hp a Ha. destruct (sched_chk_calibrates H) as [Hset Hag].
  apply (peel_to_root D card t (calibrate D card t) Htok (calibrate_Inv D card t Htok) Hset Hag order r Hp a Ha).
Qed.
End Sched.
