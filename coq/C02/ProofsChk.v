(* C02: the certificate checker [peel_chk] decides the Spec relation [peels] exactly. *)
From Coq Require Import List Arith Bool PeanoNat Lia.
From PV Require Import Base.Semiring Base.Ravel Base.FinSum Base.RefFactor C02.Dsr C02.Model C02.Spec C02.ProofsInv.
Import ListNotations.

Lemma memn_In x l : memn x l = true <-> In x l.
Proof. apply memv_In. Qed.

Section Chk.
Variable D : dsr.
Notation ctree := (ctree D).

Lemma subsetv_spec a b : subsetv a b = true <-> (forall v, In v a -> In v b).
Proof.
  unfold subsetv. rewrite forallb_forall. split; intros H v Hv.
  - apply memv_In. apply H. exact Hv.
  - apply memv_In. apply H. exact Hv.
Qed.

Lemma peel_step_ok_spec (t : ctree) rem erem l p k :
  peel_step_ok D t rem erem (l, p, k) = true <-> peel_step D t rem erem l p k.
Proof.
  unfold peel_step_ok, peel_step. rewrite !andb_true_iff, !memn_In, negb_true_iff, Nat.eqb_neq, !forallb_forall.
  destruct (nth k (tedges D t) (0, 0)) as [u v] eqn:E.
  assert (Hj : edge_joins (u, v) l p = true <-> ((u, v) = (l, p) \/ (u, v) = (p, l))).
  { unfold edge_joins. rewrite orb_true_iff, !andb_true_iff, !Nat.eqb_eq. split.
    - intros [[-> ->]|[-> ->]]; auto.
    - intros [H|H]; inversion H; subst; auto. }
  rewrite Hj. split.
  - intros [[[[[[H1 H2] H3] H4] H5] H6] H7]. repeat split; try assumption.
    + specialize (H6 k' H). apply orb_true_iff in H6. destruct H6 as [H6|H6]; [apply Nat.eqb_eq in H6; contradiction|].
      apply negb_true_iff in H6. destruct (nth k' (tedges D t) (0, 0)) as [a b]. simpl in *.
      apply orb_false_iff in H6. destruct H6 as [H6 _]. apply Nat.eqb_neq. exact H6.
    + specialize (H6 k' H). apply orb_true_iff in H6. destruct H6 as [H6|H6]; [apply Nat.eqb_eq in H6; contradiction|].
      apply negb_true_iff in H6. destruct (nth k' (tedges D t) (0, 0)) as [a b]. simpl in *.
      apply orb_false_iff in H6. destruct H6 as [_ H6]. apply Nat.eqb_neq. exact H6.
    + intros i Hi Hne w Hw1 Hw2. specialize (H7 i Hi). apply orb_true_iff in H7.
      destruct H7 as [H7|H7]; [apply Nat.eqb_eq in H7; contradiction|].
      apply (proj1 (subsetv_spec _ _) H7). apply In_vinter. split; assumption.
  - intros [H1 [H2 [H3 [H4 [H5 [H6 H7]]]]]]. repeat split; try assumption.
    + intros k' Hk'. destruct (Nat.eq_dec k' k) as [->|Hne]; [rewrite Nat.eqb_refl; reflexivity|].
      apply orb_true_iff. right. apply negb_true_iff. destruct (H6 k' Hk' Hne) as [Ha Hb].
      destruct (nth k' (tedges D t) (0, 0)) as [a b]. simpl in *. apply orb_false_iff.
      split; apply Nat.eqb_neq; assumption.
    + intros i Hi. destruct (Nat.eq_dec i l) as [->|Hne]; [rewrite Nat.eqb_refl; reflexivity|].
      apply orb_true_iff. right. apply subsetv_spec. intros w Hw. apply In_vinter in Hw.
      apply (H7 i Hi Hne w); apply Hw.
Qed.

Theorem peel_chk_spec (t : ctree) order : forall rem erem rem' erem',
  peel_chk D t rem erem order = Some (rem', erem') <-> peels D t rem erem order rem' erem'.
Proof.
  induction order as [|[[l p] k] order IH]; intros rem erem rem' erem'; cbn [peel_chk].
  - split.
    + intros H. inversion H; subst. constructor.
    + intros H. inversion H; subst. reflexivity.
  - destruct (peel_step_ok D t rem erem (l, p, k)) eqn:E.
    + apply peel_step_ok_spec in E. rewrite IH. split.
      * intros H. econstructor; eassumption.
      * intros H. inversion H; subst. assumption.
    + split; [discriminate|]. intros H. inversion H; subst.
      match goal with Hs : peel_step _ _ _ _ _ _ _ |- _ => apply peel_step_ok_spec in Hs; congruence end.
Qed.

(* jt_chk is sound for the Spec's junction_tree *)
Lemma same_set_single rem r : same_set rem [r] = true -> NoDup rem -> rem = [r].
Proof.
  unfold same_set. rewrite andb_true_iff, !forallb_forall. intros [H1 H2] Hn.
  assert (Hr : In r rem) by (apply memn_In; apply H2; left; reflexivity).
  assert (Hall : forall x, In x rem -> x = r).
  { intros x Hx. specialize (H1 x Hx). apply memn_In in H1. destruct H1 as [H1|[]]. congruence. }
  destruct rem as [|x rem]; [destruct Hr|]. inversion Hn as [|? ? Hx Hn']; subst.
  assert (x = r) by (apply Hall; left; reflexivity). subst.
  destruct rem as [|y rem]; [reflexivity|]. exfalso. apply Hx. left. apply Hall. right. left. reflexivity.
Qed.
Lemma peels_NoDup (t : ctree) rem erem order rem' erem' :
  peels D t rem erem order rem' erem' -> NoDup rem -> NoDup rem'.
Proof. induction 1; intros Hn; [exact Hn|]. apply IHpeels. apply NoDup_filter. exact Hn. Qed.

Theorem jt_chk_sound (t : ctree) : jt_chk D t = true -> junction_tree D t.
Proof.
  unfold jt_chk, peel_to. destruct (cliques D t) eqn:Ec; [discriminate|]. rewrite <- Ec.
  set (order := greedy_peel D (length (cliques D t)) t (all_cl D t) (all_ed D t) [0]).
  destruct (peel_chk D t (all_cl D t) (all_ed D t) order) as [[rem erem]|] eqn:E; [|discriminate].
  destruct (same_set rem [0]) eqn:Es; [|discriminate]. destruct erem; [|discriminate]. intros _.
  apply peel_chk_spec in E. exists order, 0.
  assert (Hn : NoDup rem) by (eapply peels_NoDup; [exact E|apply seq_NoDup]).
  rewrite (same_set_single rem 0 Es Hn) in E. exact E.
Qed.
End Chk.
