(* C02: facts about the modelled networkx BFS (Model.bfs) on a connected graph with n-1 edges (a tree):
   every node but the source is discovered exactly once, from a node discovered earlier; with fuel
   S n the search is complete; hence every tree edge is traversed exactly once, in one direction. *)
From Coq Require Import List Arith Bool PeanoNat Lia.
From PV Require Import Base.RefFactor C02.Model C02.Cert.
Import ListNotations.

Lemma memn_In' x l : memn x l = true <-> In x l.
Proof.
  unfold memn. rewrite existsb_exists. split.
  - intros [y [Hy He]]. apply Nat.eqb_eq in He. subst. exact Hy.
  - intros H. exists x. split; [exact H|apply Nat.eqb_refl].
Qed.

(* ---- the tree shape (Spec level) ------------------------------------------------------------------ *)
Definition adjacent (es : list (nat * nat)) (x y : nat) : Prop := In (x, y) es \/ In (y, x) es.
Inductive reach (es : list (nat * nat)) : nat -> nat -> Prop :=
| reach_refl x : reach es x x
| reach_step x y z : adjacent es x y -> reach es y z -> reach es x z.
(* connected, n-1 pairwise distinct undirected edges without loops; adj lists exactly the neighbours *)
Record tree_shape (n : nat) (es : list (nat * nat)) (adj : list (list nat)) : Prop := {
  ts_pos : 0 < n;
  ts_len : length adj = n;
  ts_adj : forall x y, x < n -> (In y (nth x adj []) <-> adjacent es x y);
  ts_rng : forall u v, In (u, v) es -> u < n /\ v < n /\ u <> v;
  ts_nodup : NoDup (map canon es);
  ts_count : length es = n - 1;
  ts_conn : forall x, x < n -> reach es 0 x
}.

Lemma canon_sym a b : canon (a, b) = canon (b, a).
Proof.
  unfold canon. simpl. destruct (a <=? b) eqn:E1, (b <=? a) eqn:E2; try reflexivity.
  - apply Nat.leb_le in E1, E2. assert (a = b) by lia. subst. reflexivity.
  - apply Nat.leb_gt in E1, E2. lia.
Qed.
Lemma canon_eq a b c d : canon (a, b) = canon (c, d) -> (a, b) = (c, d) \/ (a, b) = (d, c).
Proof.
  unfold canon. simpl. destruct (a <=? b), (c <=? d); intros H; inversion H; subst; auto.
Qed.
Lemma adjacent_sym es x y : adjacent es x y -> adjacent es y x.
Proof. unfold adjacent. tauto. Qed.
Lemma reach_trans es x y z : reach es x y -> reach es y z -> reach es x z.
Proof. induction 1; intros H2; [exact H2|]. econstructor; [eassumption|]. apply IHreach. exact H2. Qed.
Lemma reach_sym es x y : reach es x y -> reach es y x.
Proof.
  induction 1; [constructor|]. eapply reach_trans; [exact IHreach|].
  econstructor; [apply adjacent_sym; eassumption|constructor].
Qed.

(* ---- new_children ----------------------------------------------------------------------------------- *)
Lemma new_children_spec ns : forall seen,
  (forall y, In y ns -> In y seen \/ In y (new_children ns seen)) /\
  (forall c, In c (new_children ns seen) -> In c ns /\ ~ In c seen) /\
  NoDup (new_children ns seen).
Proof.
  induction ns as [|c r IH]; intros seen; simpl.
  - split; [intros y []|]. split; [intros c []|constructor].
  - destruct (memn c seen) eqn:E.
    + apply memn_In' in E. destruct (IH seen) as [H1 [H2 H3]]. repeat split.
      * intros y [<-|Hy]; [left; exact E|apply H1; exact Hy].
      * right. apply H2. exact H.
      * apply H2. exact H.
      * exact H3.
    + assert (Hc : ~ In c seen) by (intros H; apply memn_In' in H; congruence).
      destruct (IH (c :: seen)) as [H1 [H2 H3]]. repeat split.
      * intros y [<-|Hy]; [right; left; reflexivity|]. destruct (H1 y Hy) as [[<-|H]|H]; auto.
        -- right. left. reflexivity.
        -- right. right. exact H.
      * destruct H as [<-|H]; [left; reflexivity|right; apply H2; exact H].
      * destruct H as [<-|H]; [exact Hc|]. intros Hs. apply (proj2 (H2 c0 H)). right. exact Hs.
      * constructor; [|exact H3]. intros H. apply (proj2 (H2 c H)). left. reflexivity.
Qed.

(* ---- discovery order: every edge goes from an already seen node to a fresh one ------------------------ *)
Fixpoint chain_ok (seen : list nat) (E : list (nat * nat)) : Prop :=
  match E with
  | [] => True
  | (p, c) :: E' => In p seen /\ ~ In c seen /\ chain_ok (c :: seen) E'
  end.
Lemma chain_ok_ext E : forall S S', (forall x, In x S <-> In x S') -> chain_ok S E -> chain_ok S' E.
Proof.
  induction E as [|[p c] E IH]; intros S S' H Hc; [exact I|]. simpl in *. destruct Hc as [H1 [H2 H3]].
  split; [apply H; exact H1|]. split; [intros Hx; apply H2; apply H; exact Hx|].
  apply (IH (c :: S)); [|exact H3]. intros x. simpl. rewrite (H x). tauto.
Qed.
Lemma chain_ok_app E1 : forall S E2, chain_ok S E1 -> chain_ok (map snd E1 ++ S) E2 -> chain_ok S (E1 ++ E2).
Proof.
  induction E1 as [|[p c] E1 IH]; intros S E2 H1 H2; [exact H2|]. simpl in *. destruct H1 as [Ha [Hb Hc]].
  split; [exact Ha|]. split; [exact Hb|]. apply IH; [exact Hc|].
  apply (chain_ok_ext E2 (c :: map snd E1 ++ S)); [|exact H2].
  intros x. simpl. rewrite !in_app_iff. simpl. tauto.
Qed.
Lemma chain_ok_children p ch : forall S, In p S -> NoDup ch -> (forall c, In c ch -> ~ In c S) ->
  chain_ok S (map (pair p) ch).
Proof.
  induction ch as [|c ch IH]; intros S Hp Hn Hd; [exact I|]. inversion Hn as [|? ? Hc Hn']; subst. simpl.
  split; [exact Hp|]. split; [apply Hd; left; reflexivity|]. apply IH; [right; exact Hp|exact Hn'|].
  intros x Hx [<-|Hs]; [contradiction|]. apply (Hd x); [right; exact Hx|exact Hs].
Qed.
Lemma chain_ok_fresh E : forall S, chain_ok S E -> forall u v, In (u, v) E -> ~ In v S.
Proof.
  induction E as [|[p c] E IH]; intros S H u v Hin; [destruct Hin|]. simpl in H. destruct H as [_ [H2 H3]].
  destruct Hin as [Ei|Hin]; [inversion Ei; subst; exact H2|].
  intros Hs. apply (IH (c :: S) H3 u v Hin). right. exact Hs.
Qed.
Lemma chain_ok_split l1 : forall S p c l2, chain_ok S (l1 ++ (p, c) :: l2) ->
  In p (map snd l1 ++ S) /\ ~ In c (map snd l1 ++ S) /\
  (forall u v, In (u, v) l2 -> ~ In v (c :: map snd l1 ++ S)).
Proof.
  induction l1 as [|[p' c'] l1 IH]; intros S p c l2 H; simpl in H.
  - destruct H as [H1 [H2 H3]]. simpl. split; [exact H1|]. split; [exact H2|].
    intros u v Hin. apply (chain_ok_fresh l2 (c :: S) H3 u v Hin).
  - destruct H as [_ [_ H3]]. destruct (IH (c' :: S) p c l2 H3) as [A [B C]]. simpl.
    assert (Heq : forall x, In x (map snd l1 ++ c' :: S) <-> (c' = x \/ In x (map snd l1 ++ S))).
    { intros x. rewrite !in_app_iff. simpl. tauto. }
    split; [apply Heq; exact A|]. split; [intros Hx; apply B; apply Heq; exact Hx|].
    intros u v Hin Hx. apply (C u v Hin). destruct Hx as [<-|Hx]; [left; reflexivity|right; apply Heq; exact Hx].
Qed.

Section Bfs.
Variable adj : list (list nat).

Lemma bfs_chain fuel : forall queue seen, incl queue seen -> chain_ok seen (bfs fuel adj queue seen).
Proof.
  induction fuel as [|f IH]; intros queue seen Hq; [exact I|]. simpl. destruct queue as [|p q]; [exact I|].
  destruct (new_children_spec (nth p adj []) seen) as [_ [H2 H3]].
  set (ch := new_children (nth p adj []) seen) in *.
  apply chain_ok_app.
  - apply chain_ok_children; [apply Hq; left; reflexivity|exact H3|intros c Hc; apply H2; exact Hc].
  - rewrite map_map. simpl. rewrite map_id.
    apply (chain_ok_ext _ (seen ++ ch)); [intros x; rewrite !in_app_iff; tauto|].
    apply IH. intros x Hx. apply in_app_or in Hx. apply in_or_app.
    destruct Hx as [Hx|Hx]; [left; apply Hq; right; exact Hx|right; exact Hx].
Qed.

Lemma bfs_adj fuel : forall queue seen p c, In (p, c) (bfs fuel adj queue seen) -> In c (nth p adj []).
Proof.
  induction fuel as [|f IH]; intros queue seen p c H; [destruct H|]. simpl in H. destruct queue as [|p0 q]; [destruct H|].
  apply in_app_or in H. destruct H as [H|H]; [|eapply IH; exact H].
  apply in_map_iff in H. destruct H as [x [E Hx]]. inversion E; subst.
  apply (new_children_spec (nth p adj []) seen). exact Hx.
Qed.

(* completeness: with enough fuel every dequeued node has all its neighbours seen at the end *)
Variable n : nat.
Hypothesis Hadj_rng : forall x y, In y (nth x adj []) -> y < n.

Lemma NoDup_lt_length (l : list nat) : NoDup l -> (forall x, In x l -> x < n) -> length l <= n.
Proof.
  intros Hn Hr. rewrite <- (seq_length n 0). apply NoDup_incl_length; [exact Hn|].
  intros x Hx. apply in_seq. specialize (Hr x Hx). lia.
Qed.

Lemma bfs_closed fuel : forall queue seen,
  NoDup seen -> (forall x, In x seen -> x < n) -> incl queue seen ->
  length queue + (n - length seen) < fuel ->
  forall x, In x queue \/ In x (map snd (bfs fuel adj queue seen)) ->
  forall y, In y (nth x adj []) -> In y (seen ++ map snd (bfs fuel adj queue seen)).
Proof.
  induction fuel as [|f IH]; intros queue seen Hn Hr Hq Hf x Hx y Hy; [lia|].
  simpl in *. destruct queue as [|p q]; [destruct Hx as [[]|[]]|].
  destruct (new_children_spec (nth p adj []) seen) as [H1 [H2 H3]].
  set (ch := new_children (nth p adj []) seen) in *.
  assert (Hn' : NoDup (seen ++ ch)).
  { apply NoDup_app_disj; [exact Hn|exact H3|]. intros z Hz Hc. apply (proj2 (H2 z Hc)). exact Hz. }
  assert (Hr' : forall z, In z (seen ++ ch) -> z < n).
  { intros z Hz. apply in_app_or in Hz. destruct Hz as [Hz|Hz]; [apply Hr; exact Hz|].
    apply (Hadj_rng p). apply H2. exact Hz. }
  assert (Hq' : incl (q ++ ch) (seen ++ ch)).
  { intros z Hz. apply in_app_or in Hz. apply in_or_app. destruct Hz as [Hz|Hz]; [left; apply Hq; right; exact Hz|right; exact Hz]. }
  pose proof (NoDup_lt_length _ Hn' Hr') as Hlen. rewrite app_length in Hlen.
  assert (Hf' : length (q ++ ch) + (n - length (seen ++ ch)) < f) by (rewrite !app_length; simpl in Hf; lia).
  rewrite map_app, map_map. simpl. rewrite map_id. rewrite app_assoc.
  rewrite map_app, map_map in Hx. simpl in Hx. rewrite map_id in Hx.
  specialize (IH (q ++ ch) (seen ++ ch) Hn' Hr' Hq' Hf').
  destruct Hx as [[<-|Hx]|Hx].
  - destruct (H1 y Hy) as [Hs|Hc]; apply in_or_app; left; apply in_or_app; [left|right]; assumption.
  - apply (IH x); [left; apply in_or_app; left; exact Hx|exact Hy].
  - apply in_app_or in Hx. destruct Hx as [Hx|Hx].
    + apply (IH x); [left; apply in_or_app; right; exact Hx|exact Hy].
    + apply (IH x); [right; exact Hx|exact Hy].
Qed.
End Bfs.

(* ---- consequences on a tree ---------------------------------------------------------------------------- *)
Lemma chain_ok_nodup E : forall S, chain_ok S E -> NoDup S -> NoDup (map snd E ++ S).
Proof.
  induction E as [|[p c] E IH]; intros S H Hn; [exact Hn|]. simpl in *. destruct H as [_ [H2 H3]].
  assert (Hn' : NoDup (c :: S)) by (constructor; assumption).
  specialize (IH (c :: S) H3 Hn'). apply NoDup_remove in IH. destruct IH as [A B]. constructor; assumption.
Qed.
Lemma chain_ok_canon E : forall S, chain_ok S E -> NoDup (map canon E).
Proof.
  induction E as [|[p c] E IH]; intros S H; [constructor|]. simpl in *. destruct H as [H1 [H2 H3]].
  constructor; [|apply (IH (c :: S) H3)]. intros Hin. apply in_map_iff in Hin. destruct Hin as [[u v] [Ec Huv]].
  pose proof (chain_ok_fresh E (c :: S) H3 u v Huv) as Hf.
  apply canon_eq in Ec. destruct Ec as [Ec|Ec]; inversion Ec; subst.
  - apply Hf. left. reflexivity.
  - apply Hf. right. exact H1.
Qed.
Lemma chain_ok_target_unique E S u u' v : chain_ok S E -> In (u, v) E -> In (u', v) E -> u = u'.
Proof.
  intros H H1 H2. apply in_split in H1. destruct H1 as [l1 [l2 ->]].
  destruct (chain_ok_split l1 S u v l2 H) as [_ [B C]].
  apply in_app_or in H2. destruct H2 as [H2|[H2|H2]].
  - exfalso. apply B. apply in_or_app. left. apply in_map_iff. exists (u', v). split; [reflexivity|exact H2].
  - inversion H2. reflexivity.
  - exfalso. apply (C u' v H2). left. reflexivity.
Qed.

Section Tree.
Variable n : nat.
Variable es : list (nat * nat).
Variable adj : list (list nat).
Hypothesis HT : tree_shape n es adj.

Lemma adj_rng x y : In y (nth x adj []) -> y < n.
Proof.
  intros H. destruct (Nat.lt_ge_cases x n) as [Hx|Hx].
  - apply (ts_adj n es adj HT x y Hx) in H. destruct H as [H|H]; apply (ts_rng n es adj HT) in H; tauto.
  - rewrite nth_overflow in H by (rewrite (ts_len n es adj HT); exact Hx). destruct H.
Qed.
Lemma adjacent_rng x y : adjacent es x y -> x < n /\ y < n /\ x <> y.
Proof. intros [H|H]; apply (ts_rng n es adj HT) in H; repeat split; try tauto. intros E; subst; tauto. Qed.

Variable r : nat.
Hypothesis Hr : r < n.
Let E := bfs_edges adj r.

Lemma bfs_edges_chain : chain_ok [r] E.
Proof. unfold E, bfs_edges. apply bfs_chain. intros x Hx; exact Hx. Qed.
Lemma bfs_edges_lt x : In x (map snd E ++ [r]) -> x < n.
Proof.
  intros H. apply in_app_or in H. destruct H as [H|[<-|[]]]; [|exact Hr].
  apply in_map_iff in H. destruct H as [[p c] [<- H]]. simpl. apply (adj_rng p). unfold E, bfs_edges in H.
  eapply bfs_adj; exact H.
Qed.
Lemma bfs_edges_src_lt p c : In (p, c) E -> p < n.
Proof.
  intros H. apply in_split in H. destruct H as [l1 [l2 H]].
  pose proof bfs_edges_chain as Hc. rewrite H in Hc. destruct (chain_ok_split l1 [r] p c l2 Hc) as [A _].
  apply bfs_edges_lt. rewrite H. rewrite map_app. apply in_app_or in A. apply in_or_app.
  destruct A as [A|A]; [left; apply in_or_app; left; exact A|right; exact A].
Qed.
Lemma bfs_edges_adjacent p c : In (p, c) E -> adjacent es p c.
Proof.
  intros H. apply (ts_adj n es adj HT p c (bfs_edges_src_lt p c H)). unfold E, bfs_edges in H. eapply bfs_adj; exact H.
Qed.
Lemma bfs_edges_all x : x < n -> In x (map snd E ++ [r]).
Proof.
  intros Hx.
  assert (Hcl : forall a, In a (map snd E ++ [r]) -> forall b, In b (nth a adj []) -> In b (map snd E ++ [r])).
  { intros a Ha b Hb. unfold E, bfs_edges in *. rewrite (ts_len n es adj HT) in *.
    assert (H := bfs_closed adj n adj_rng (S n) [r] [r]).
    specialize (H (NoDup_cons r (@in_nil _ r) (NoDup_nil _))).
    assert (H0 : forall z, In z [r] -> z < n) by (intros z [<-|[]]; exact Hr).
    specialize (H H0 (fun z Hz => Hz)). simpl in H. assert (Hm : 1 + (n - 1) < S n) by lia.
    specialize (H Hm a). apply in_app_or in Ha.
    assert (Ha' : (r = a \/ False) \/ In a (map snd (bfs (S n) adj [r] [r]))) by (destruct Ha as [Ha|[<-|[]]]; auto).
    specialize (H Ha' b Hb). destruct H as [<-|H]; apply in_or_app; [right; left; reflexivity|left; exact H]. }
  assert (Hreach : forall a b, reach es a b -> In a (map snd E ++ [r]) -> In b (map snd E ++ [r])).
  { induction 1 as [|a b c Hab Hbc IH]; intros Ha; [exact Ha|]. apply IH. apply (Hcl a Ha).
    apply (ts_adj n es adj HT a b (bfs_edges_lt a Ha)). exact Hab. }
  apply (Hreach r x); [|apply in_or_app; right; left; reflexivity].
  eapply reach_trans; [apply reach_sym; apply (ts_conn n es adj HT r Hr)|apply (ts_conn n es adj HT x Hx)].
Qed.
Lemma bfs_edges_length : length E = n - 1.
Proof.
  assert (Hn : NoDup (map snd E ++ [r])).
  { apply chain_ok_nodup; [apply bfs_edges_chain|constructor; [intros []|constructor]]. }
  assert (H1 : length (map snd E ++ [r]) <= n) by (apply NoDup_lt_length; [exact Hn|apply bfs_edges_lt]).
  assert (H2 : n <= length (map snd E ++ [r])).
  { rewrite <- (seq_length n 0). apply NoDup_incl_length; [apply seq_NoDup|]. intros x Hx. apply in_seq in Hx.
    apply bfs_edges_all. lia. }
  rewrite app_length, map_length in H1, H2. simpl in *. lia.
Qed.
(* every tree edge is traversed, in one of its two directions *)
Lemma bfs_edges_cover x y : adjacent es x y -> In (x, y) E \/ In (y, x) E.
Proof.
  intros Hxy.
  assert (Hincl : incl (map canon es) (map canon E)).
  { apply NoDup_length_incl.
    - apply (chain_ok_canon E [r]). apply bfs_edges_chain.
    - rewrite !map_length, bfs_edges_length, (ts_count n es adj HT). lia.
    - intros e He. apply in_map_iff in He. destruct He as [[p c] [<- Hpc]].
      destruct (bfs_edges_adjacent p c Hpc) as [H|H].
      + apply in_map. exact H.
      + rewrite canon_sym. apply in_map. exact H. }
  assert (Hc : In (canon (x, y)) (map canon E)).
  { apply Hincl. destruct Hxy as [H|H]; [apply in_map; exact H|rewrite canon_sym; apply in_map; exact H]. }
  apply in_map_iff in Hc. destruct Hc as [[p c] [Ec Hpc]]. apply canon_eq in Ec.
  destruct Ec as [Ec|Ec]; inversion Ec; subst; auto.
Qed.
End Tree.
