(* C02 <-> C14 bridge, part 2: path-based running intersection (C14.Spec.rip) on a tree gives a leaf-elimination
   order (C02.Spec.peels) ending in ANY chosen clique r: eliminate the cliques in the reverse of the order in
   which a breadth-first search from r discovers them. *)
From Coq Require Import List Arith Bool PeanoNat Lia.
From PV Require Base.Reach Base.Graph C14.UGraph C14.Model C14.Spec C14.ProofsJT C14.ProofsRIP.
From PV Require Import Base.Semiring Base.Ravel Base.FinSum Base.RefFactor
  C02.Dsr C02.Model C02.Spec C02.Cert C02.ProofsInv C02.ProofsPeel C02.ProofsBfs C02.ProofsSched C02.ProofsTree
  C02.ProofsBridge.
Import ListNotations.

Lemma filter_all {A} (p : A -> bool) l : (forall x, In x l -> p x = true) -> filter p l = l.
Proof.
  induction l as [|a l IH]; intros H; [reflexivity|]. simpl. rewrite (H a (or_introl eq_refl)). f_equal.
  apply IH. intros x Hx. apply H. right. exact Hx.
Qed.
Lemma NoDup_single (l : list nat) r : NoDup l -> (forall x, In x l <-> In x [r]) -> l = [r].
Proof.
  intros Hn H. destruct l as [|a l]; [exfalso; apply (proj2 (H r)); left; reflexivity|].
  assert (a = r) by (destruct (proj1 (H a) (or_introl eq_refl)) as [E|[]]; congruence). subst a.
  destruct l as [|b l]; [reflexivity|]. exfalso. inversion Hn as [|? ? Hr _]; subst. apply Hr.
  destruct (proj1 (H b) (or_intror (or_introl eq_refl))) as [E|[]]. subst. left. reflexivity.
Qed.
Lemma NoDup_empty (l : list nat) : (forall x, In x l <-> In x []) -> l = [].
Proof. intros H. destruct l as [|a l]; [reflexivity|]. exfalso. apply (proj1 (H a)). left. reflexivity. Qed.

Lemma find_edge_unique es k u v : NoDup (map canon es) -> k < length es ->
  (nth k es (0, 0) = (u, v) \/ nth k es (0, 0) = (v, u)) -> find_edge es u v 0 = Some k.
Proof.
  intros Hn Hk Hnth.
  assert (Hadj : adjacent es u v).
  { destruct Hnth as [E|E]; [left|right]; rewrite <- E; apply nth_In; exact Hk. }
  destruct (find_edge es u v 0) as [k'|] eqn:Ef; [|exfalso; apply (find_edge_complete es u v 0 Hadj Ef)].
  f_equal. apply find_edge_spec in Ef. rewrite Nat.sub_0_r in Ef. destruct Ef as [_ [Hk' Hn']].
  apply (proj1 (NoDup_nth (map canon es) (0, 0)) Hn); [rewrite map_length; exact Hk'|rewrite map_length; exact Hk|].
  change (0, 0) with (canon (0, 0)). rewrite !map_nth.
  destruct Hnth as [-> | ->]; destruct Hn' as [-> | ->]; try reflexivity; try apply canon_sym.
Qed.

Section Peel.
Variable D : dsr.
Variable t : ctree D.
Let n := length (cliques D t).
Let es := tedges D t.
Notation jt := (jt_of D t).
Hypothesis Htree : C14.Spec.is_tree jt.
Hypothesis Hrip : C14.Spec.rip jt.
Hypothesis Hadj : adj_ok D t.
Let HT : tree_shape n es (adj D t) := bridge_tree_shape D t Htree Hadj.

Definition edges_of (K : list nat) : list (nat * nat) := map (fun k => nth k es (0, 0)) K.
Definition Sv (x : var) (rem : list nat) : list nat :=
  filter (fun i => memn i rem) (C14.Model.holders jt x).
Definition RipOn (rem K : list nat) : Prop := forall x, conn_on (edges_of K) (Sv x rem).

Lemma In_Sv x rem i : In i (Sv x rem) <-> In i rem /\ i < n /\ In x (clq D t i).
Proof.
  unfold Sv. rewrite filter_In, C14.ProofsRIP.In_holders. rewrite (memv_In i rem). cbn. unfold n, clq. tauto.
Qed.
Lemma Adj_edges_of K x y : Adj (edges_of K) x y <->
  exists k, In k K /\ (nth k es (0, 0) = (x, y) \/ nth k es (0, 0) = (y, x)).
Proof.
  unfold Adj, C14.UGraph.Adj, edges_of. rewrite !in_map_iff. split.
  - intros [[k [E H]]|[k [E H]]]; exists k; auto.
  - intros [k [H [E|E]]]; [left|right]; exists k; auto.
Qed.

(* c hangs on p by edge k only *)
Definition leaf_at (K : list nat) (c p k : nat) : Prop :=
  In k K /\ (nth k es (0, 0) = (c, p) \/ nth k es (0, 0) = (p, c)) /\ c <> p /\
  forall k', In k' K -> k' <> k -> fst (nth k' es (0, 0)) <> c /\ snd (nth k' es (0, 0)) <> c.

Lemma leaf_nbr K c p k x0 : leaf_at K c p k -> Adj (edges_of K) x0 c -> x0 = p.
Proof.
  intros (Hk & Hnth & Hcp & Hleaf) H. apply Adj_edges_of in H. destruct H as [k' [Hk' He]].
  destruct (Nat.eq_dec k' k) as [->|Hne].
  - destruct Hnth as [E|E]; rewrite E in He; destruct He as [He|He]; inversion He; subst; try reflexivity; contradiction.
  - destruct (Hleaf k' Hk' Hne) as [H1 H2]. destruct He as [He|He]; rewrite He in H1, H2; simpl in *; contradiction.
Qed.

Lemma rip_leaf rem K c p k i v : RipOn rem K -> leaf_at K c p k ->
  In c rem -> c < n -> In i rem -> i < n -> i <> c -> In v (clq D t c) -> In v (clq D t i) -> In v (clq D t p).
Proof.
  intros HR Hl Hc Hcn Hi Hin Hne Hvc Hvi.
  assert (Hci : In c (Sv v rem)) by (apply In_Sv; tauto).
  assert (Hii : In i (Sv v rem)) by (apply In_Sv; tauto).
  pose proof (HR v i c Hii Hci) as Hr. inversion Hr as [x Hx|x0 y Hx0 Hy]; subst.
  - destruct Hx as [E|[]]. congruence.
  - apply C14.ProofsRIP.In_tnext in Hy. destruct Hy as [Hy _].
    assert (x0 = p) by (eapply leaf_nbr; eassumption). subst x0.
    apply (C14.ProofsRIP.reach_in_S _ _ _ _ Hii) in Hx0. apply In_Sv in Hx0. apply Hx0.
Qed.

Lemma rip_remove_leaf rem K c p k : RipOn rem K -> leaf_at K c p k -> RipOn (remn c rem) (remn k K).
Proof.
  intros HR Hl x i j Hi Hj. pose proof Hl as (Hk & Hnth & Hcp & Hleaf).
  apply In_Sv in Hi. apply In_Sv in Hj. destruct Hi as [Hi [Hin Hvi]]. destruct Hj as [Hj [Hjn Hvj]].
  apply In_remn in Hi. apply In_remn in Hj. destruct Hi as [Hi Hic]. destruct Hj as [Hj Hjc].
  assert (HiS : In i (Sv x rem)) by (apply In_Sv; tauto).
  assert (HjS : In j (Sv x rem)) by (apply In_Sv; tauto).
  set (E := edges_of K). set (S := Sv x rem). set (E' := edges_of (remn k K)). set (S' := Sv x (remn c rem)).
  assert (HS' : forall y, In y S -> y <> c -> In y S').
  { intros y Hy Hyc. apply In_Sv in Hy. apply In_Sv. split; [apply In_remn; tauto|tauto]. }
  assert (Hgen : forall y, Rreach (tnext E S) [i] y ->
            (y <> c -> Rreach (tnext E' S') [i] y) /\ (y = c -> Rreach (tnext E' S') [i] p /\ In p S')).
  { induction 1 as [y Hy|x0 y Hx0 IH Hy].
    - destruct Hy as [<-|[]]. split; [intros _; apply Base.Reach.reach_src; left; reflexivity|intros Ec; contradiction].
    - destruct IH as [IH1 IH2]. apply C14.ProofsRIP.In_tnext in Hy. destruct Hy as [Hy HyS].
      assert (Hx0S : In x0 S) by (apply (C14.ProofsRIP.reach_in_S _ _ _ _ HiS Hx0)).
      split.
      + intros Hyc. destruct (Nat.eq_dec x0 c) as [->|Hx0c].
        * assert (y = p) by (apply (leaf_nbr K c p k y Hl); destruct Hy as [H|H]; [right|left]; exact H). subst y.
          apply IH2. reflexivity.
        * eapply Base.Reach.reach_step; [apply IH1; exact Hx0c|]. apply C14.ProofsRIP.In_tnext.
          split; [|apply HS'; assumption]. apply Adj_edges_of. apply Adj_edges_of in Hy.
          destruct Hy as [k' [Hk' He]]. exists k'. split; [|exact He]. apply In_remn. split; [exact Hk'|].
          intros ->. destruct Hnth as [E1|E1]; rewrite E1 in He; destruct He as [He|He]; inversion He; subst; congruence.
      + intros ->. assert (x0 = p) by (eapply leaf_nbr; eassumption). subst x0.
        split; [apply IH1; congruence|apply HS'; [exact Hx0S|congruence]]. }
  apply (Hgen j (HR x i j HiS HjS)). exact Hjc.
Qed.

(* ---- the elimination order read off the breadth-first search from r ------------------------------------ *)
Variable r : nat.
Hypothesis Hr : r < n.
Let Eb := bfs_edges (adj D t) r.
Definition kof (pc : nat * nat) : nat :=
  match find_edge es (fst pc) (snd pc) 0 with Some k => k | None => 0 end.
Definition ord (P : list (nat * nat)) : list (nat * nat * nat) :=
  rev (map (fun pc => (snd pc, fst pc, kof pc)) P).

Lemma kof_spec p c : In (p, c) Eb -> kof (p, c) < length es /\
  (nth (kof (p, c)) es (0, 0) = (p, c) \/ nth (kof (p, c)) es (0, 0) = (c, p)).
Proof.
  intros H. pose proof (bfs_edges_adjacent n es _ HT r Hr p c H) as Ha. unfold kof. cbn [fst snd].
  destruct (find_edge es p c 0) as [k|] eqn:E; [|exfalso; apply (find_edge_complete es p c 0 Ha E)].
  apply find_edge_spec in E. rewrite Nat.sub_0_r in E. tauto.
Qed.

Lemma peel_prefix : forall P Q, Eb = P ++ Q -> forall rem K,
  NoDup rem -> NoDup K -> (forall i, In i rem <-> In i (r :: map snd P)) ->
  (forall k, In k K <-> In k (map kof P)) -> RipOn rem K ->
  peels D t rem K (ord P) [r] [].
Proof.
  induction P as [|[p c] P' IH] using rev_ind; intros Q HE rem K Hnr HnK Hrem HK HR.
  - rewrite (NoDup_single rem r Hnr Hrem), (NoDup_empty K HK). constructor.
  - unfold ord. rewrite map_app, rev_app_distr. cbn [map rev app fst snd]. fold (ord P').
    rewrite <- app_assoc in HE. cbn [app] in HE.
    pose proof (bfs_edges_chain (adj D t) r) as Hch. fold Eb in Hch. rewrite HE in Hch.
    destruct (chain_ok_split P' [r] p c Q Hch) as (Hp & Hc & _).
    assert (HinE : forall pc, In pc (P' ++ [(p, c)]) -> In pc Eb).
    { intros pc H. rewrite HE. apply in_app_or in H. apply in_or_app. destruct H as [H|[<-|[]]]; [left; exact H|right; left; reflexivity]. }
    assert (Hpc : In (p, c) Eb) by (apply HinE; apply in_or_app; right; left; reflexivity).
    destruct (kof_spec p c Hpc) as [Hklt Hknth]. set (k := kof (p, c)) in *.
    (* earlier pairs do not touch c *)
    assert (Hearly : forall p' c', In (p', c') P' -> p' <> c /\ c' <> c).
    { intros p' c' H. split.
      - apply in_split in H. destruct H as [l1 [l2 Hs]]. rewrite Hs, <- app_assoc in Hch. cbn [app] in Hch.
        destruct (chain_ok_split l1 [r] p' c' (l2 ++ (p, c) :: Q) Hch) as (Hp' & _ & _).
        intros ->. apply Hc. rewrite Hs, map_app. apply in_app_or in Hp'. apply in_or_app.
        destruct Hp' as [Hp'|Hp']; [left; apply in_or_app; left; exact Hp'|right; exact Hp'].
      - intros ->. apply Hc. apply in_or_app. left. apply in_map_iff. exists (p', c). split; [reflexivity|exact H]. }
    assert (Hk_fresh : ~ In k (map kof P')).
    { intros H. apply in_map_iff in H. destruct H as [[p' c'] [Hkk Hin]]. destruct (Hearly p' c' Hin) as [H1 H2].
      assert (Hin' : In (p', c') Eb) by (apply HinE; apply in_or_app; left; exact Hin).
      destruct (kof_spec p' c' Hin') as [_ Hn']. rewrite Hkk in Hn'. fold k in Hn'.
      destruct Hknth as [E1|E1]; rewrite E1 in Hn'; destruct Hn' as [E2|E2]; inversion E2; subst; congruence. }
    assert (Hleaf : leaf_at K c p k).
    { split; [apply HK; rewrite map_app; apply in_or_app; right; left; reflexivity|]. split; [tauto|].
      split; [intros ->; apply Hc; exact Hp|].
      intros k' Hk' Hne. apply HK in Hk'. rewrite map_app in Hk'. apply in_app_or in Hk'.
      destruct Hk' as [Hk'|[Hk'|[]]]; [|subst; contradiction].
      apply in_map_iff in Hk'. destruct Hk' as [[p' c'] [<- Hin]]. destruct (Hearly p' c' Hin) as [H1 H2].
      assert (Hin' : In (p', c') Eb) by (apply HinE; apply in_or_app; left; exact Hin).
      destruct (kof_spec p' c' Hin') as [_ [E1|E1]]; rewrite E1; simpl; auto. }
    assert (Hcrem : In c rem) by (apply Hrem; right; rewrite map_app; apply in_or_app; right; left; reflexivity).
    assert (Hprem : In p rem).
    { apply Hrem. apply in_app_or in Hp. destruct Hp as [Hp|[<-|[]]]; [right; rewrite map_app; apply in_or_app; left; exact Hp|left; reflexivity]. }
    assert (Hlt : forall i, In i rem -> i < n).
    { intros i Hi. apply Hrem in Hi. apply (bfs_edges_lt n es _ HT r Hr). fold Eb. rewrite HE.
      destruct Hi as [<-|Hi]; [apply in_or_app; right; left; reflexivity|].
      apply in_or_app. left. rewrite map_app in Hi. rewrite map_app. cbn [map snd]. apply in_app_or in Hi.
      apply in_or_app. destruct Hi as [Hi|[<-|[]]]; [left; exact Hi|right; left; reflexivity]. }
    econstructor.
    + (* peel_step *)
      destruct Hleaf as (L1 & L2 & L3 & L4). repeat split; try assumption.
      * apply (L4 k' H H0).
      * apply (L4 k' H H0).
      * intros i Hi Hic v Hvc Hvi.
        apply (rip_leaf rem K c p k i v HR (conj L1 (conj L2 (conj L3 L4))) Hcrem (Hlt c Hcrem) Hi (Hlt i Hi) Hic Hvc Hvi).
    + apply (IH ((p, c) :: Q) HE).
      * apply NoDup_remn. exact Hnr.
      * apply NoDup_remn. exact HnK.
      * intros i. rewrite In_remn, (Hrem i), map_app. cbn [map snd]. split.
        -- intros [[H|H] Hne]; [left; exact H|]. apply in_app_or in H. destruct H as [H|[H|[]]]; [right; exact H|congruence].
        -- intros [H|H]; (split; [|intros ->; apply Hc; apply in_or_app]).
           ++ left. exact H.
           ++ right. left. exact H.
           ++ right. apply in_or_app. left. exact H.
           ++ left. exact H.
      * intros k'. rewrite In_remn, (HK k'), map_app. cbn [map]. split.
        -- intros [H Hne]. apply in_app_or in H. destruct H as [H|[H|[]]]; [exact H|subst; contradiction].
        -- intros H. split; [apply in_or_app; left; exact H|intros ->; contradiction].
      * apply (rip_remove_leaf rem K c p k HR Hleaf).
Qed.

Theorem rip_gives_peel_order : exists order, peels D t (all_cl D t) (all_ed D t) order [r] [].
Proof.
  exists (ord Eb). apply (peel_prefix Eb [] (eq_sym (app_nil_r Eb))).
  - apply seq_NoDup.
  - apply seq_NoDup.
  - intros i. unfold all_cl. rewrite in_seq. split.
    + intros Hi. assert (Hi' : In i (map snd Eb ++ [r])) by (apply (bfs_edges_all n es _ HT r Hr); unfold n; lia).
      apply in_app_or in Hi'. destruct Hi' as [H|[H|[]]]; [right; exact H|left; exact H].
    + intros Hi. assert (Hl : i < n).
      { apply (bfs_edges_lt n es _ HT r Hr). fold Eb. apply in_or_app. destruct Hi as [<-|Hi]; [right; left; reflexivity|left; exact Hi]. }
      unfold n in Hl. lia.
  - intros k. unfold all_ed. rewrite in_seq. split.
    + intros Hk. assert (Hk' : k < length es) by (unfold es; lia).
      destruct (nth k es (0, 0)) as [u v] eqn:Ek.
      assert (Ha : adjacent es u v) by (left; rewrite <- Ek; apply nth_In; exact Hk').
      destruct (bfs_edges_cover n es _ HT r Hr u v Ha) as [H|H]; fold Eb in H; apply in_map_iff.
      * exists (u, v). split; [|exact H]. unfold kof. cbn [fst snd].
        rewrite (find_edge_unique es k u v (ts_nodup _ _ _ HT) Hk'); [reflexivity|left; exact Ek].
      * exists (v, u). split; [|exact H]. unfold kof. cbn [fst snd].
        rewrite (find_edge_unique es k v u (ts_nodup _ _ _ HT) Hk'); [reflexivity|right; exact Ek].
    + intros H. apply in_map_iff in H. destruct H as [[p c] [<- Hin]]. destruct (kof_spec p c Hin) as [Hl _].
      unfold es in Hl. lia.
  - (* the whole tree: C14's rip *)
    intros x. unfold edges_of, Sv, all_ed, all_cl.
    assert (Hes : map (fun k => nth k es (0, 0)) (seq 0 (length (tedges D t))) = es).
    { unfold es. rewrite (map_nth_seq (fun e : nat * nat => e) (tedges D t) (0, 0)). apply map_id. }
    rewrite Hes. rewrite filter_all; [apply (Hrip x)|].
    intros i Hi. apply C14.ProofsRIP.In_holders in Hi. destruct Hi as [Hi _].
    assert (Hi' : i < length (cliques D t)) by exact Hi. apply memv_In. apply in_seq. lia.
Qed.
End Peel.
